/- The cofactor bound of mpn_gcdext at value level.

   From the invariant of the reduction (CofInv: a = u1·A − v1·V, b = −u0·A + v0·V, det 1) follows
   V = u0·a + u1·b, hence "|u0|, |u1| ≤ V / min(a, b)" (comment at gcdext.c:393); every exit of
   mpn_gcdext_lehmer_n then yields 2·G·|S| < V, or S = 1 and V = 2G. -/
import MpirProofs.Lemmas.GcdLehmer3
import Mathlib.Tactic.Linarith
namespace Mpir.Gcdext
open Mpir Mpir.Gcd

/-- the normalisation of the first cofactor that the code actually achieves (it implies the manual's
    "S = 1 or |S| < V/(2G)" and, with the identity, "S = 0 ↔ V ∣ U") -/
def CofBound (V G : Nat) (S : Int) : Prop := 2 * G * S.natAbs < V ∨ (S = 1 ∧ V = 2 * G)

/-! ### mpn_gcdext_1: size of the cofactors -/

/-- what mpn_gcdext_1 guarantees beyond the identity (inputs A ≠ C): the cofactors have opposite signs (or
    one is zero), 2·g·|u| ≤ C, 2·g·|v| ≤ A, and 2·g·|u| = C only for u = 1. -/
def Ext1Bound (A C : Nat) (g : Nat) (u v : Int) : Prop :=
  (0 ≤ u ∧ v ≤ 0 ∧ 2 * (g : Int) * u ≤ C ∧ 2 * (g : Int) * (-v) ≤ A ∧ (2 * (g : Int) * u = C → u = 1)) ∨
  (u ≤ 0 ∧ 0 ≤ v ∧ 2 * (g : Int) * (-u) < C ∧ 2 * (g : Int) * v ≤ A)

theorem dvd_quot_ge_two {a b : Nat} (hz : a - a / b * b = 0) (hlt : b < a) : 2 ≤ a / b ∧ a = a / b * b := by
  have h1 : a / b * b ≤ a := Nat.div_mul_le_self a b
  generalize a / b = q at *
  have e : a = q * b := by omega
  refine ⟨?_, e⟩
  by_contra hc
  have hq : q = 0 ∨ q = 1 := by omega
  rcases hq with h | h <;> subst h <;> simp at e <;> omega

theorem ext1_exitF (A C a b q u0 v0 u1 v1 : Int) (hq : 2 ≤ q) (hb : 0 < b) (hab : a = q * b)
    (s1 : 1 ≤ u0) (s2 : v0 ≤ 0) (s3 : u1 ≤ 0) (s4 : 1 ≤ v1)
    (d1 : u0 * b - u1 * a = C) (d2 : v1 * a - v0 * b = A) :
    2 * b * (-u1) < C ∧ 2 * b * v1 ≤ A := by
  have t1 : 0 ≤ (-u1) * b * (q - 2) := mul_nonneg (mul_nonneg (by linarith) (le_of_lt hb)) (by linarith)
  have t2 : 0 < u0 * b := mul_pos (by linarith) hb
  have t3 : 0 ≤ v1 * b * (q - 2) := mul_nonneg (mul_nonneg (by linarith) (le_of_lt hb)) (by linarith)
  have t4 : 0 ≤ (-v0) * b := mul_nonneg (by linarith) (le_of_lt hb)
  have e1 : C = u0 * b + (-u1) * q * b := by rw [← d1, hab]; ring
  have e2 : A = v1 * q * b + (-v0) * b := by rw [← d2, hab]; ring
  constructor
  · rw [e1]; nlinarith
  · rw [e2]; nlinarith

theorem ext1_exitT (A C a b q u0 v0 u1 v1 : Int) (hq : 2 ≤ q) (ha : 0 < a) (hab : b = q * a)
    (s1 : 1 ≤ u0) (s2 : v0 ≤ 0) (s3 : u1 ≤ 0) (s4 : 1 ≤ v1)
    (d1 : u0 * b - u1 * a = C) (d2 : v1 * a - v0 * b = A) :
    2 * a * u0 ≤ C ∧ 2 * a * (-v0) ≤ A ∧ (2 * a * u0 = C → u1 = 0) := by
  have e1 : C = u0 * q * a + (-u1) * a := by rw [← d1, hab]; ring
  have e2 : A = v1 * a + (-v0) * q * a := by rw [← d2, hab]; ring
  have t1 : 0 ≤ u0 * a * (q - 2) := mul_nonneg (mul_nonneg (by linarith) (le_of_lt ha)) (by linarith)
  have t2 : 0 ≤ (-u1) * a := mul_nonneg (by linarith) (le_of_lt ha)
  have t3 : 0 ≤ (-v0) * a * (q - 2) := mul_nonneg (mul_nonneg (by linarith) (le_of_lt ha)) (by linarith)
  have t4 : 0 ≤ v1 * a := mul_nonneg (by linarith) (le_of_lt ha)
  refine ⟨by rw [e1]; nlinarith, by rw [e2]; nlinarith, fun heq => ?_⟩
  have h0 : (-u1) * a = 0 := by rw [e1] at heq; nlinarith
  rcases mul_eq_zero.mp h0 with h | h
  · omega
  · omega

theorem gcdext1Loop_bound (A C : Nat) (hA : A < 2 ^ 64) (hC : C < 2 ^ 64) :
    ∀ (f : Nat) (atB : Bool) (a b : Nat) (u0 v0 u1 v1 : Int),
      0 < a → 0 < b → a + b ≤ f →
      (atB = true → a < b) → (atB = false → b < a) →
      (a : Int) = u0 * A + v0 * C → (b : Int) = u1 * A + v1 * C →
      1 ≤ u0 → v0 ≤ 0 → u1 ≤ 0 → 1 ≤ v1 → (u1 = 0 → u0 = 1) →
      u0 * b - u1 * a = C → v1 * a - v0 * b = A →
      Ext1Bound A C (gcdext1Loop f atB a b u0 v0 u1 v1).1 (gcdext1Loop f atB a b u0 v0 u1 v1).2.1
        (gcdext1Loop f atB a b u0 v0 u1 v1).2.2
  | 0, atB, a, b, u0, v0, u1, v1 => by intro h1 h2 h3; omega
  | f + 1, false, a, b, u0, v0, u1, v1 => by
    intro ha0 hb0 hf _ hlt ea eb s1 s2 s3 s4 sz d1 d2
    have hlt : b < a := hlt rfl
    have hAi : (A : Int) < 2 ^ 64 := by exact_mod_cast hA
    have hCi : (C : Int) < 2 ^ 64 := by exact_mod_cast hC
    unfold gcdext1Loop
    simp only
    have hmod := sub_div_mul_eq_mod a b
    have hcast := natCast_sub_div_mul a b
    by_cases hz : a - a / b * b = 0
    · rw [if_pos hz]
      obtain ⟨hq2, hab⟩ := dvd_quot_ge_two hz hlt
      unfold Ext1Bound
      dsimp only
      right
      have hq2i : (2 : Int) ≤ ((a / b : Nat) : Int) := by exact_mod_cast hq2
      have habi : (a : Int) = ((a / b : Nat) : Int) * b := by exact_mod_cast hab
      have hbi : (0 : Int) < b := by exact_mod_cast hb0
      obtain ⟨r1, r2⟩ := ext1_exitF A C a b _ u0 v0 u1 v1 hq2i hbi habi s1 s2 s3 s4 d1 d2
      exact ⟨s3, by linarith, r1, r2⟩
    · rw [if_neg hz]
      have hrpos : 0 < a - a / b * b := Nat.pos_of_ne_zero hz
      have hrlt : a - a / b * b < b := by rw [hmod]; exact Nat.mod_lt _ hb0
      have hq : (0:Int) ≤ ((a / b : Nat) : Int) := Int.natCast_nonneg _
      obtain ⟨k1, k2, k3, k4, k5, k6, k7⟩ :=
        gcdext1_step A C a b ((a / b : Nat) : Int) u0 v0 u1 v1 hq
          (by rw [← hcast]; exact_mod_cast hrpos) (by rw [← hcast]; exact_mod_cast hrlt)
          ea eb (by linarith) s2 s3 (by linarith) d1 d2 hAi hCi
      have w1 : wrapS (u0 - ((a / b : Nat) : Int) * u1) = u0 - ((a / b : Nat) : Int) * u1 :=
        wrapS_id _ (by linarith) k6
      have w2 : wrapS (v0 - ((a / b : Nat) : Int) * v1) = v0 - ((a / b : Nat) : Int) * v1 :=
        wrapS_id _ k7 (by linarith)
      rw [w1, w2]
      have p1 : ((a / b : Nat) : Int) * u1 ≤ 0 := mul_nonpos_of_nonneg_of_nonpos hq s3
      refine gcdext1Loop_bound A C hA hC f true (a - a / b * b) b _ _ u1 v1 hrpos hb0
        (by omega) (fun _ => hrlt) (by intro h; cases h) (by rw [hcast]; exact k1) eb
        (by linarith) k3 s3 s4 ?_ (by rw [hcast]; exact k4) (by rw [hcast]; exact k5)
      intro h0; rw [h0, mul_zero, sub_zero]; exact sz h0
  | f + 1, true, a, b, u0, v0, u1, v1 => by
    intro ha0 hb0 hf hlt _ ea eb s1 s2 s3 s4 sz d1 d2
    have hlt : a < b := hlt rfl
    have hAi : (A : Int) < 2 ^ 64 := by exact_mod_cast hA
    have hCi : (C : Int) < 2 ^ 64 := by exact_mod_cast hC
    unfold gcdext1Loop
    simp only
    have hmod := sub_div_mul_eq_mod b a
    have hcast := natCast_sub_div_mul b a
    by_cases hz : b - b / a * a = 0
    · rw [if_pos hz]
      obtain ⟨hq2, hab⟩ := dvd_quot_ge_two hz hlt
      unfold Ext1Bound
      dsimp only
      left
      have hq2i : (2 : Int) ≤ ((b / a : Nat) : Int) := by exact_mod_cast hq2
      have habi : (b : Int) = ((b / a : Nat) : Int) * a := by exact_mod_cast hab
      have hai : (0 : Int) < a := by exact_mod_cast ha0
      obtain ⟨r1, r2, r3⟩ := ext1_exitT A C a b _ u0 v0 u1 v1 hq2i hai habi s1 s2 s3 s4 d1 d2
      exact ⟨by linarith, s2, r1, r2, fun heq => sz (r3 heq)⟩
    · rw [if_neg hz]
      have hrpos : 0 < b - b / a * a := Nat.pos_of_ne_zero hz
      have hrlt : b - b / a * a < a := by rw [hmod]; exact Nat.mod_lt _ ha0
      have hq : (0:Int) ≤ ((b / a : Nat) : Int) := Int.natCast_nonneg _
      have hq1 : (1:Int) ≤ ((b / a : Nat) : Int) := by
        have : 1 ≤ b / a := Nat.div_pos (le_of_lt hlt) ha0
        exact_mod_cast this
      obtain ⟨k1, k2, k3, k4, k5, k6, k7⟩ :=
        gcdext1_step C A b a ((b / a : Nat) : Int) v1 u1 v0 u0 hq
          (by rw [← hcast]; exact_mod_cast hrpos) (by rw [← hcast]; exact_mod_cast hrlt)
          (by rw [eb]; ring) (by rw [ea]; ring) (by linarith) s3 s2 (by linarith) d2 d1 hCi hAi
      have w1 : wrapS (u1 - ((b / a : Nat) : Int) * u0) = u1 - ((b / a : Nat) : Int) * u0 :=
        wrapS_id _ k7 (by linarith)
      have w2 : wrapS (v1 - ((b / a : Nat) : Int) * v0) = v1 - ((b / a : Nat) : Int) * v0 :=
        wrapS_id _ (by linarith) k6
      rw [w1, w2]
      have p1 : ((b / a : Nat) : Int) * v0 ≤ 0 := mul_nonpos_of_nonneg_of_nonpos hq s2
      have p2 : ((b / a : Nat) : Int) * 1 ≤ ((b / a : Nat) : Int) * u0 := mul_le_mul_of_nonneg_left s1 hq
      refine gcdext1Loop_bound A C hA hC f false a (b - b / a * a) u0 v0 _ _ ha0 hrpos
        (by omega) (by intro h; cases h) (fun _ => hrlt) ea
        (by rw [hcast, k1]; ring)
        s1 s2 k3 (by linarith) ?_ (by rw [hcast]; exact k5) (by rw [hcast]; exact k4)
      intro h0; exfalso; linarith

/-- mpn_gcdext_1 on two DIFFERENT non-zero limbs: sizes and signs of the cofactors. -/
theorem gcdext_1_bound (a b : Nat) (ha : 0 < a) (hb : 0 < b) (haB : a < B) (hbB : b < B) (hne : a ≠ b) :
    Ext1Bound a b (gcdext_1 a b).1 (gcdext_1 a b).2.1 (gcdext_1 a b).2.2 := by
  rw [B_eq] at haB hbB
  unfold gcdext_1
  exact gcdext1Loop_bound a b (by norm_num; exact haB) (by norm_num; exact hbB)
    (a + b) (decide (a < b)) a b 1 0 0 1 ha hb (le_refl _)
    (by simp) (by simp; omega) (by ring) (by ring)
    (le_refl _) (le_refl _) (le_refl _) (le_refl _) (fun _ => rfl) (by ring) (by ring)

/-! ### V = u0·a + u1·b -/

theorem cofOk_sum {A Bv a b u0 u1 : Nat} (h : CofOk A Bv a b u0 u1) :
    u0 * a + u1 * b = Bv ∧ 1 ≤ u1 ∧ (u0 = 0 → u1 = 1) ∧ (u0 = u1 → u1 = 1) := by
  obtain ⟨v0, v1, hd, ca, cb⟩ := h
  simp only at hd ca cb
  have hd' : (v0 : Int) * u1 = v1 * u0 + 1 := by exact_mod_cast hd
  have hs : ((u0 * a + u1 * b : Nat) : Int) = Bv := by
    push_cast
    linear_combination (u0 : Int) * ca + (u1 : Int) * cb + (Bv : Int) * hd'
  have h1 : 1 ≤ u1 := by
    rcases Nat.eq_zero_or_pos u1 with h | h
    · rw [h] at hd; simp at hd
    · exact h
  refine ⟨by exact_mod_cast hs, h1, ?_, ?_⟩
  · intro h0; rw [h0] at hd; simp at hd
    exact hd.2
  · intro he; rw [he] at hd
    have h2 : u1 ∣ v0 * u1 := Dvd.intro_left _ rfl
    have h3 : u1 ∣ v1 * u1 := Dvd.intro_left _ rfl
    rw [hd] at h2
    exact Nat.dvd_one.mp ((Nat.dvd_add_right h3).mp h2)

theorem bound_core (x y q V : Nat) (hV : V = y + q * x) (hq : 2 ≤ q) (hx : 1 ≤ x) : 2 * x < V ∨ (y = 0 ∧ q = 2) := by
  by_cases h2 : q = 2
  · subst h2; omega
  · have : 3 * x ≤ q * x := Nat.mul_le_mul_right _ (by omega)
    omega

/-- exit with the gcd at a, b = q·a (q ≥ 2): the cofactor is +u1 -/
theorem exit_d0 {A Bv a b u0 u1 q : Nat} (h : CofOk A Bv a b u0 u1) (ha : 0 < a) (hb : b = q * a) (hq : 2 ≤ q) :
    CofBound Bv a (u1 : Int) := by
  obtain ⟨hs, h1, hz, _⟩ := cofOk_sum h
  unfold CofBound
  rw [Int.natAbs_natCast]
  have hx : 1 ≤ u1 * a := Nat.mul_pos h1 ha
  have hV : Bv = u0 * a + q * (u1 * a) := by rw [← hs, hb]; ring
  rcases bound_core (u1 * a) (u0 * a) q Bv hV hq hx with hlt | ⟨hy, hq2⟩
  · left; calc 2 * a * u1 = 2 * (u1 * a) := by ring
      _ < Bv := hlt
  · right
    have hu0 : u0 = 0 := by
      rcases Nat.mul_eq_zero.mp hy with h | h
      · exact h
      · omega
    have hu1 := hz hu0
    refine ⟨by simp [hu1], ?_⟩
    rw [hV, hy, hq2, hu1]; ring

/-- exit with the gcd at b, a = q·b (q ≥ 2): the cofactor is -u0 -/
theorem exit_d1 {A Bv a b u0 u1 q : Nat} (h : CofOk A Bv a b u0 u1) (hb0 : 0 < b) (ha : a = q * b) (hq : 2 ≤ q) :
    CofBound Bv b (-(u0 : Int)) := by
  obtain ⟨hs, h1, _, _⟩ := cofOk_sum h
  unfold CofBound
  left
  rw [Int.natAbs_neg, Int.natAbs_natCast]
  have hx : 1 ≤ u1 * b := Nat.mul_pos h1 hb0
  have hV : Bv = u1 * b + q * (u0 * b) := by rw [← hs, ha]; ring
  have : 2 * (u0 * b) ≤ q * (u0 * b) := Nat.mul_le_mul_right _ hq
  calc 2 * b * u0 = 2 * (u0 * b) := by ring
    _ < Bv := by omega

/-- exit with a = b: the smaller of +u1, -u0 (u1 on a tie) -/
theorem exit_eq {A Bv a u0 u1 : Nat} (h : CofOk A Bv a a u0 u1) (ha : 0 < a) :
    CofBound Bv a (pickCofactor u0 u1 (-1)) := by
  obtain ⟨hs, h1, _, he⟩ := cofOk_sum h
  unfold CofBound pickCofactor
  simp only [show ((-1 : Int) < 0) from by decide, if_true]
  have hV : Bv = (u0 + u1) * a := by rw [← hs]; ring
  by_cases hlt : u0 < u1
  · simp only [hlt, decide_true, if_true]
    left
    rw [Int.natAbs_neg, Int.natAbs_natCast, hV]
    calc 2 * a * u0 = (u0 + u0) * a := by ring
      _ < (u0 + u1) * a := Nat.mul_lt_mul_of_pos_right (by omega) ha
  · simp only [hlt, decide_false, Bool.false_eq_true, if_false]
    rw [Int.natAbs_natCast]
    by_cases heq : u0 = u1
    · right
      have := he heq
      refine ⟨by simp [this], ?_⟩
      rw [hV, heq, this]; try ring
    · left
      rw [hV]
      calc 2 * a * u1 = (u1 + u1) * a := by ring
        _ < (u0 + u1) * a := Nat.mul_lt_mul_of_pos_right (by omega) ha

end Mpir.Gcdext
