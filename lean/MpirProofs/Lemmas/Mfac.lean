/-
  C16 part binsmall: mpz_mfac_uiui (mpz/mfac_uiui.c:46-124) = n!^(m) for every n, m.
-/
import MpirProofs.Lemmas.Numth
import Mathlib.Data.Nat.GCD.Basic
namespace Mpir.Numth
open Mpir Mpir.Gen.NumthTabs Nat

/-! ## Euclid with fuel (stands for mpn_gcd_1 (&sn, 1, m)) -/

theorem gcdNat_eq : ∀ e fuel a b, b < 2 ^ e → 2 * e + 1 ≤ fuel → gcdNat fuel a b = Nat.gcd a b := by
  intro e
  induction e with
  | zero =>
    intro fuel a b hb hf
    obtain ⟨f, rfl⟩ : ∃ f, fuel = f + 1 := ⟨fuel - 1, by omega⟩
    have : b = 0 := by simpa using hb
    subst this
    simp [gcdNat]
  | succ e ih =>
    intro fuel a b hb hf
    obtain ⟨f, rfl⟩ : ∃ f, fuel = f + 2 := ⟨fuel - 2, by omega⟩
    rw [gcdNat]
    by_cases h0 : b = 0
    · subst h0; simp
    · simp only [h0, if_false]
      rw [gcdNat]
      by_cases h1 : a % b = 0
      · simp only [h1, if_true]
        rw [Nat.gcd_comm, Nat.gcd_rec, h1, Nat.gcd_zero_left]
      · simp only [h1, if_false]
        have hr : a % b < b := Nat.mod_lt _ (by omega)
        have hhalf : b % (a % b) < 2 ^ e := by
          rw [pow_succ] at hb
          by_cases hle : 2 * (a % b) ≤ b
          · have := Nat.mod_lt b (show 0 < a % b by omega)
            omega
          · have : b % (a % b) = b - a % b := by
              rw [Nat.mod_eq_sub_mod (by omega), Nat.mod_eq_of_lt (by omega)]
            omega
        rw [ih f (a % b) (b % (a % b)) hhalf (by omega)]
        rw [Nat.gcd_comm (a % b), ← Nat.gcd_rec, Nat.gcd_comm a b, Nat.gcd_rec b a, Nat.gcd_comm]

/-! ## the multifactorial -/

theorem mf_one (n : ℕ) : multiFactorial n 1 = n ! := by
  induction n with
  | zero => rw [multiFactorial_rec 0 1 (le_refl 1)]; simp
  | succ n ih =>
    rw [multiFactorial_rec (n + 1) 1 (le_refl 1)]
    by_cases h : n + 1 ≤ 1
    · have : n = 0 := by omega
      subst this; simp
    · simp only [h, if_false, Nat.add_sub_cancel, ih, Nat.factorial_succ]

theorem mf_two (n : ℕ) : multiFactorial n 2 = n‼ := by
  induction n using Nat.strong_induction_on with
  | _ n ih =>
    rw [multiFactorial_rec n 2 (by omega)]
    by_cases h : n ≤ 2
    · simp only [h, if_true]
      interval_cases n <;> simp [Nat.doubleFactorial]
    · simp only [h, if_false]
      obtain ⟨k, rfl⟩ : ∃ k, n = k + 2 := ⟨n - 2, by omega⟩
      rw [Nat.add_sub_cancel, ih k (by omega), Nat.doubleFactorial_add_two]

/-- (g n)!^(g m) = g^⌈n/m⌉ · n!^(m) -/
theorem mf_scale (g m : ℕ) (hg : 1 ≤ g) (hm : 1 ≤ m) : ∀ n, multiFactorial (g * n) (g * m) = g ^ ((n + m - 1) / m) * multiFactorial n m := by
  intro n
  induction n using Nat.strong_induction_on with
  | _ n ih =>
    have hgm : 1 ≤ g * m := Nat.mul_pos hg hm
    rw [multiFactorial_rec (g * n) (g * m) hgm, multiFactorial_rec n m hm]
    by_cases h0 : n = 0
    · subst h0
      have : (m - 1) / m = 0 := Nat.div_eq_of_lt (by omega)
      simp [this]
    by_cases h : n ≤ m
    · have h' : g * n ≤ g * m := Nat.mul_le_mul_left g h
      have hne : g * n ≠ 0 := by
        have := Nat.mul_pos hg (show 0 < n by omega); omega
      have hc : (n + m - 1) / m = 1 := Nat.div_eq_of_lt_le (by omega) (by omega)
      simp only [h, h', hne, h0, if_true, if_false, hc, pow_one]
    · have h' : ¬ g * n ≤ g * m := by
        intro hle; exact h (Nat.le_of_mul_le_mul_left hle hg)
      simp only [h, h', if_false]
      rw [← Nat.mul_sub, ih (n - m) (by omega)]
      have hc : (n + m - 1) / m = (n - m + m - 1) / m + 1 := by
        rw [show n + m - 1 = (n - m + m - 1) + m by omega, Nat.add_div_right _ (by omega)]
      rw [hc, pow_succ]; ring

theorem ceil_div_of_not_dvd (n m : ℕ) (hm : 1 ≤ m) (h : n % m ≠ 0) : (n + m - 1) / m = n / m + 1 := by
  have h1 := Nat.div_add_mod n m
  have h2 := Nat.mod_lt n (show 0 < m by omega)
  apply Nat.div_eq_of_lt_le
  · rw [Nat.add_mul, Nat.one_mul, mul_comm]; omega
  · rw [Nat.add_mul, Nat.one_mul, Nat.add_mul, Nat.one_mul, mul_comm]; omega

/-! ## the product loop of the m ≥ 3 branch (mfac_uiui.c:94-98) -/

theorem mfacStore_val (m M n1 : ℕ) (hm : 2 ≤ m) (hM : M * n1 < B) :
    ∀ fuel n st, n ≤ fuel → n ≤ n1 → Nat.Coprime n m →
      (mfacStore m M fuel n st).2 * flVal (mfacStore m M fuel n st).1 = flVal st * multiFactorial n m := by
  intro fuel
  induction fuel with
  | zero =>
    intro n st h1 _ hc
    have : n = 0 := by omega
    subst this
    rw [Nat.coprime_zero_left] at hc; omega
  | succ fuel ih =>
    intro n st h1 h2 hc
    unfold mfacStore
    have hn0 : n ≠ 0 := by
      intro h; subst h; rw [Nat.coprime_zero_left] at hc; omega
    by_cases h : n > m
    · simp only [h, if_true]
      have hc' : Nat.Coprime (n - m) m := by
        have : n = (n - m) + m := by omega
        rw [this, Nat.coprime_add_self_left] at hc; exact hc
      rw [ih (n - m) (flStore n M st) (by omega) (by omega) hc']
      rw [flStore_val n M st (fun hle => lt_of_le_of_lt (Nat.mul_le_mul hle h2) hM)]
      rw [multiFactorial_rec n m (by omega)]
      simp only [show ¬ n ≤ m by omega, if_false]; ring
    · simp only [h, if_false]
      rw [multiFactorial_rec n m (by omega)]
      simp only [show n ≤ m by omega, if_true, hn0, if_false]; ring

/-- **mpz_mfac_uiui (n, m) = n!^(m)** for every n < 2^64 and 1 ≤ m < 2^64, given mpz_fac_ui = ! and mpz_2fac_ui = ‼
    (both proved for every argument in Props/C16_sieve.lean) -/
theorem mpz_mfac_uiui_eq (hfac : ∀ x < B, mpz_fac_ui x = x !) (h2fac : ∀ x < B, mpz_2fac_ui x = x‼)
    (n m : ℕ) (hm : 1 ≤ m) (hn : n < B) (hmB : m < B) : mpz_mfac_uiui n m = multiFactorial n m := by
  unfold mpz_mfac_uiui
  have hm1 : (m + B - 1) % B = m - 1 := by
    rw [show m + B - 1 = (m - 1) + B by omega, Nat.add_mod_right, Nat.mod_eq_of_lt (by omega)]
  rw [hm1]
  by_cases h1 : n < 3 ∨ n - 3 < m - 1
  · rw [if_pos h1]
    rw [multiFactorial_rec n m hm]
    by_cases hle : n ≤ m
    · simp only [hle, if_true]; split <;> omega
    · have hn1 : n = m + 1 := by omega
      simp only [hle, if_false]
      rw [hn1, Nat.add_sub_cancel_left, multiFactorial_rec 1 m hm]
      simp [hm]
  rw [if_neg h1]
  have hn3 : 3 ≤ n := by omega
  have hnm : m + 2 ≤ n := by omega
  rw [gcdNat_eq 64 200 n m (by rw [B_eq] at hmB; norm_num; exact hmB) (by omega)]
  have hgpos : 0 < Nat.gcd n m := Nat.gcd_pos_of_pos_right n (by omega)
  have hgn : Nat.gcd n m * (n / Nat.gcd n m) = n := Nat.mul_div_cancel' (Nat.gcd_dvd_left n m)
  have hgm : Nat.gcd n m * (m / Nat.gcd n m) = m := Nat.mul_div_cancel' (Nat.gcd_dvd_right n m)
  have hcop : Nat.Coprime (n / Nat.gcd n m) (m / Nat.gcd n m) := Nat.coprime_div_gcd_div_gcd hgpos
  have hn' : (if Nat.gcd n m ≠ 1 then n / Nat.gcd n m else n) = n / Nat.gcd n m := by
    split
    · rfl
    · rename_i h; rw [not_not] at h; rw [h, Nat.div_one]
  have hm' : (if Nat.gcd n m ≠ 1 then m / Nat.gcd n m else m) = m / Nat.gcd n m := by
    split
    · rfl
    · rename_i h; rw [not_not] at h; rw [h, Nat.div_one]
  simp only [hn', hm']
  obtain ⟨g, hg⟩ : ∃ g, g = Nat.gcd n m := ⟨_, rfl⟩
  rw [← hg] at hgpos hgn hgm hcop
  simp only [← hg]
  clear hn' hm' hg
  obtain ⟨n', hn''⟩ : ∃ n', n' = n / g := ⟨_, rfl⟩
  obtain ⟨m', hm''⟩ : ∃ m', m' = m / g := ⟨_, rfl⟩
  simp only [← hn'', ← hm''] at hgn hgm hcop ⊢
  clear hn'' hm''
  have hm'1 : 1 ≤ m' := by
    rcases Nat.eq_zero_or_pos m' with h | h
    · rw [h] at hgm; omega
    · exact h
  have hlt : m' < n' := by
    have : g * m' < g * n' := by omega
    exact Nat.lt_of_mul_lt_mul_left this
  have hn'B : n' < B := by
    have : n' ≤ g * n' := Nat.le_mul_of_pos_left n' hgpos
    omega
  have hscale := mf_scale g m' hgpos hm'1 n'
  rw [hgn, hgm] at hscale
  rw [hscale]
  by_cases hm2 : m' ≤ 2
  · rw [if_pos hm2]
    by_cases hm1' : m' = 1
    · subst hm1'
      simp only [if_true]
      have hc : (n' + 1 - 1) / 1 = n' := by simp
      rw [hc, mf_one]
      by_cases hg2 : g > 2
      · rw [if_pos hg2, hfac n' hn'B]
      · rw [if_neg hg2]
        by_cases hg2' : g = 2
        · subst hg2'
          rw [if_pos rfl, h2fac (n' * 2) (by omega)]
          have := mf_scale 2 1 (by omega) (le_refl 1) n'
          rw [hc, mf_one, Nat.mul_one, mf_two, mul_comm 2 n'] at this
          exact this
        · rw [if_neg hg2', hfac n' hn'B]
          have : g = 1 := by omega
          rw [this]; simp
    · have hm2' : m' = 2 := by omega
      subst hm2'
      simp only [show (2 : ℕ) ≠ 1 by omega, if_false]
      have hodd : n' % 2 = 1 := by
        rcases Nat.mod_two_eq_zero_or_one n' with h | h
        · exfalso
          have h2 : 2 ∣ Nat.gcd n' 2 := Nat.dvd_gcd (Nat.dvd_of_mod_eq_zero h) (dvd_refl 2)
          rw [hcop] at h2; omega
        · exact h
      have hc : (n' + 2 - 1) / 2 = n' / 2 + 1 := by omega
      rw [hc, mf_two, h2fac n' hn'B]
      split
      · rfl
      · rename_i h; rw [not_not] at h; rw [h]; simp
  · rw [if_neg hm2]
    have hm3 : 3 ≤ m' := by omega
    have hnd : n' % m' ≠ 0 := by
      intro h
      have h2 : m' ∣ Nat.gcd n' m' := Nat.dvd_gcd (Nat.dvd_of_mod_eq_zero h) (dvd_refl m')
      rw [hcop] at h2
      have := Nat.le_of_dvd (by omega) h2; omega
    rw [ceil_div_of_not_dvd n' m' hm'1 hnd]
    have hcop' : Nat.Coprime (n' - m') m' := by
      have : n' = (n' - m') + m' := by omega
      rw [this, Nat.coprime_add_self_left] at hcop; exact hcop
    have hMn : (B - 1) / (n' - m') * (n' - m') < B := by
      have := Nat.div_mul_le_self (B - 1) (n' - m')
      have := B_pos; omega
    have hst := mfacStore_val m' ((B - 1) / (n' - m')) (n' - m') (by omega) hMn n' (n' - m') ([], n') (by omega) (le_refl _) hcop'
    generalize mfacStore m' ((B - 1) / (n' - m')) n' (n' - m') ([], n') = res at hst ⊢
    obtain ⟨st, nl⟩ := res
    simp only at hst ⊢
    have hval : prodList (st.2 :: nl :: st.1) = multiFactorial n' m' := by
      rw [multiFactorial_rec n' m' hm'1]
      simp only [show ¬ n' ≤ m' by omega, if_false]
      have : flVal ([], n') = n' := by simp [flVal, prodList]
      rw [this] at hst
      rw [← hst]
      simp only [prodList, flVal]; ring
    rw [hval]
    split
    · rfl
    · rename_i h
      have : g = 1 := by omega
      rw [this]; simp

end Mpir.Numth
