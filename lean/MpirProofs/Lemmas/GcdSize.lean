/- Size bookkeeping shared by the mpz-level proofs: `nlimbs`, `natLimbs`, `ssize`. -/
import MpirProofs.Lemmas.Gcd
namespace Mpir.Gcd
open Mpir

theorem nlimbs_zero : nlimbs 0 = 0 := by simp [nlimbs]

theorem nlimbs_eq_zero_iff (n : Nat) : nlimbs n = 0 ↔ n = 0 := by
  unfold nlimbs; split <;> simp_all

theorem nlimbs_pos {n : Nat} (h : 0 < n) : 0 < nlimbs n := by
  unfold nlimbs; rw [if_neg (by omega)]; omega

/-- a non-zero n has at most k limbs iff n < B^k -/
theorem nlimbs_le_iff (n k : Nat) (h : n ≠ 0) : nlimbs n ≤ k ↔ n < B ^ k := by
  unfold nlimbs; rw [if_neg h]
  have hB : B ^ k = 2 ^ (64 * k) := by show (2 ^ 64) ^ k = _; rw [← pow_mul]
  rw [hB, ← Nat.log2_lt h]
  constructor
  · intro hle
    have : n.log2 / 64 < k := by omega
    have := (Nat.div_lt_iff_lt_mul (by norm_num : 0 < 64)).mp this
    omega
  · intro hlt
    have : n.log2 / 64 < k := (Nat.div_lt_iff_lt_mul (by norm_num : 0 < 64)).mpr (by omega)
    omega

theorem nlimbs_eq_one_iff (n : Nat) : nlimbs n = 1 ↔ 0 < n ∧ n < B := by
  constructor
  · intro h
    have h0 : n ≠ 0 := by intro h0; rw [h0, nlimbs_zero] at h; omega
    refine ⟨Nat.pos_of_ne_zero h0, ?_⟩
    have := (nlimbs_le_iff n 1 h0).mp (by omega)
    simpa using this
  · rintro ⟨h0, hB⟩
    have h1 := (nlimbs_le_iff n 1 (by omega)).mpr (by simpa using hB)
    have := nlimbs_pos h0
    omega

theorem natLimbs_zero : natLimbs 0 = [] := by rw [natLimbs]; simp

theorem natLimbs_pos (n : Nat) (h : n ≠ 0) : natLimbs n = n % B :: natLimbs (n / B) := by
  rw [natLimbs]; simp [h]

theorem val_natLimbs (n : Nat) : val (natLimbs n) = n := by
  induction n using Nat.strong_induction_on with
  | _ n ih =>
    by_cases h : n = 0
    · subst h; rw [natLimbs_zero]; rfl
    · rw [natLimbs_pos n h, val_cons, ih (n / B) (Nat.div_lt_self (Nat.pos_of_ne_zero h) (by decide))]
      exact Nat.mod_add_div n B

theorem Limbs_natLimbs (n : Nat) : Limbs (natLimbs n) := by
  induction n using Nat.strong_induction_on with
  | _ n ih =>
    by_cases h : n = 0
    · subst h; rw [natLimbs_zero]; exact Limbs_nil
    · rw [natLimbs_pos n h]
      exact Limbs_cons.mpr ⟨Nat.mod_lt _ B_pos, ih (n / B) (Nat.div_lt_self (Nat.pos_of_ne_zero h) (by decide))⟩

theorem natLimbs_single (n : Nat) (h0 : 0 < n) (hB : n < B) : natLimbs n = [n] := by
  rw [natLimbs_pos n (by omega), Nat.mod_eq_of_lt hB, Nat.div_eq_of_lt hB, natLimbs_zero]

theorem sgn_mul_natAbs (a : Int) : sgn a * (a.natAbs : Int) = a := by
  unfold sgn; split
  · omega
  · split <;> omega

theorem sgn_zero : sgn 0 = 0 := by simp [sgn]

end Mpir.Gcd
