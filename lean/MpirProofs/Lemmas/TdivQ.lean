/-
  C02 / mpn_tdiv_q: list-level helper lemmas for the model Mpir/Model/TdivQ.lean
  (toLimbs, drop, lshift, the top limb and count_leading_zeros, mpn_cmp, the callee oracle, the qh stores).
-/
import MpirProofs.Lemmas.SbDiv
import MpirProofs.Lemmas.TdivQCore
import Mpir.Model.TdivQ
namespace Mpir.TdivQ
open Mpir Mpir.DivWord

theorem Bpow_pos (k : Nat) : 0 < B ^ k := Nat.pow_pos B_pos

/-! ### toLimbs -/

theorem val_toLimbs : ∀ (k v : Nat), val (toLimbs k v) = v % B ^ k ∧ (toLimbs k v).length = k ∧ Limbs (toLimbs k v)
  | 0, v => by simp [toLimbs, Nat.mod_one, Limbs_nil]
  | k + 1, v => by
    obtain ⟨ih1, ih2, ih3⟩ := val_toLimbs k (v / B)
    refine ⟨?_, by simp [toLimbs, ih2], ?_⟩
    · simp only [toLimbs, val_cons, ih1]
      rw [Nat.pow_succ, Nat.mul_comm (B ^ k) B, Nat.mod_mul]
    · simp only [toLimbs]
      exact Limbs_cons.mpr ⟨Nat.mod_lt _ B_pos, ih3⟩

theorem toLimbs_length (k v : Nat) : (toLimbs k v).length = k := (val_toLimbs k v).2.1
theorem toLimbs_Limbs (k v : Nat) : Limbs (toLimbs k v) := (val_toLimbs k v).2.2
theorem toLimbs_val_lt (k v : Nat) (h : v < B ^ k) : val (toLimbs k v) = v := by
  rw [(val_toLimbs k v).1, Nat.mod_eq_of_lt h]

/-- a proper limb vector is the `toLimbs` of its value -/
theorem eq_toLimbs (l : List Nat) (k v : Nat) (hl : Limbs l) (hk : l.length = k) (hv : val l = v) :
    l = toLimbs k v := by
  have := SbDiv.toLimbs_val_add l 0 hl
  rw [Nat.mul_zero, Nat.add_zero, hk, hv] at this
  exact this.symm

/-- toLimbs (k+1) v = toLimbs k v followed by the limb of weight B^k -/
theorem toLimbs_snoc : ∀ (k v : Nat), toLimbs (k + 1) v = toLimbs k v ++ [v / B ^ k % B]
  | 0, v => by simp [toLimbs]
  | k + 1, v => by
    have ih := toLimbs_snoc k (v / B)
    have e : v / B / B ^ k = v / B ^ (k + 1) := by
      rw [Nat.div_div_eq_div_mul, pow_succ, Nat.mul_comm]
    rw [SbDiv.toLimbs_succ, ih, SbDiv.toLimbs_succ, e]; rfl

/-- the quotient limbs and the high limb together hold the whole number -/
theorem val_toLimbs_snoc_div (k v : Nat) : val (toLimbs k v ++ [v / B ^ k]) = v := by
  rw [SbDiv.val_top1, (val_toLimbs k v).1, toLimbs_length]
  exact Nat.mod_add_div v (B ^ k)

/-! ### drop / take / replicate -/

theorem val_drop (l : List Nat) (k : Nat) (hl : Limbs l) (hk : k ≤ l.length) : val (l.drop k) = val l / B ^ k := by
  have h := val_take_drop l k hk
  have hlt := val_lt (l.take k) (Limbs_take hl k)
  rw [List.length_take, Nat.min_eq_left hk] at hlt
  rw [h, Nat.add_mul_div_left _ _ (Bpow_pos k), Nat.div_eq_of_lt hlt, Nat.zero_add]

theorem val_replicate_max : ∀ (k : Nat), val (List.replicate k (B - 1)) + 1 = B ^ k
  | 0 => by simp
  | k + 1 => by
    have ih := val_replicate_max k
    have hB := B_pos
    rw [List.replicate_succ, val_cons, pow_succ]
    have : B - 1 + 1 = B := by omega
    nlinarith [ih]

theorem Limbs_replicate_max (k : Nat) : Limbs (List.replicate k (B - 1)) := by
  intro x hx
  rw [List.mem_replicate] at hx
  rw [hx.2]; have := B_pos; omega

/-- value of the tail and of the head limb of a non-empty proper vector -/
theorem val_tail_head (l : List Nat) (hl : Limbs l) (hk : 1 ≤ l.length) :
    val (l.drop 1) = val l / B ∧ l.getD 0 0 = val l % B := by
  match l, hk with
  | x :: xs, _ =>
    have ⟨hx, _⟩ := Limbs_cons.mp hl
    have hB := B_pos
    simp only [List.drop_succ_cons, List.drop_zero, val_cons, List.getD_cons_zero]
    refine ⟨?_, ?_⟩
    · rw [Nat.add_mul_div_left _ _ hB, Nat.div_eq_of_lt hx, Nat.zero_add]
    · rw [Nat.add_mul_mod_self_left, Nat.mod_eq_of_lt hx]

/-! ### the top limb -/

/-- the top limb brackets the value: dh·B^(k-1) ≤ val d < (dh+1)·B^(k-1) -/
theorem top_bracket (d : List Nat) (hd : Limbs d) (hk : 1 ≤ d.length) :
    B ^ (d.length - 1) * d.getD (d.length - 1) 0 ≤ val d ∧
    val d < B ^ (d.length - 1) * (d.getD (d.length - 1) 0 + 1) := by
  obtain ⟨j, hj⟩ : ∃ j, d.length = j + 1 := ⟨d.length - 1, by omega⟩
  have h := SbDiv.val_take_top d j hj
  have hlt := val_lt (d.take j) (Limbs_take hd j)
  rw [List.length_take, Nat.min_eq_left (by omega)] at hlt
  rw [hj, Nat.add_sub_cancel]
  constructor
  · omega
  · rw [Nat.mul_add, Nat.mul_one]; omega

/-- the top limb of `d.drop s` is the top limb of `d` -/
theorem getD_drop_top (d : List Nat) (s : Nat) (hs : s < d.length) :
    (d.drop s).getD ((d.drop s).length - 1) 0 = d.getD (d.length - 1) 0 := by
  rw [List.length_drop, List.getD_eq_getElem?_getD, List.getD_eq_getElem?_getD, List.getElem?_drop]
  congr 2; omega

/-- count_leading_zeros of the (non-zero, high bit clear or not) top limb: c = 2^cnt divides B, the shifted top limb
    is normalised and does not overflow -/
theorem clz_facts (dh : Nat) (h0 : dh ≠ 0) (hB : dh < B) :
    count_leading_zeros dh ≤ 63 ∧
    2 ^ count_leading_zeros dh * 2 ^ (64 - count_leading_zeros dh) = B ∧
    B ≤ 2 * (dh * 2 ^ count_leading_zeros dh) ∧ (dh + 1) * 2 ^ count_leading_zeros dh ≤ B := by
  obtain ⟨h1, h2, h3⟩ := clz_spec dh h0 hB
  have hs := Mpir.B_split (count_leading_zeros dh) (by omega)
  refine ⟨h1, hs.symm, ?_, ?_⟩
  · have : B = B / 2 * 2 := by simp only [B_eq]
    omega
  · -- dh·c < c·c' gives dh < c', so (dh+1)·c ≤ c'·c
    rw [hs, Nat.mul_comm dh] at h3
    have : dh < 2 ^ (64 - count_leading_zeros dh) := Nat.lt_of_mul_lt_mul_left h3
    rw [hs, Nat.mul_comm (2 ^ count_leading_zeros dh)]
    exact Nat.mul_le_mul_right _ this

/-- the C test `(dh & GMP_NUMB_HIGHBIT) == 0` -/
theorem highbit_clear (dh : Nat) (hB : dh < B) : (dh &&& HIGHBIT == 0) = decide (dh < B / 2) := by
  have h := highbit_test dh hB
  by_cases h2 : B / 2 ≤ dh
  · simp only [h2, decide_true] at h
    have : ¬ dh < B / 2 := by omega
    simp only [this, decide_false]
    simp only [bne_iff_ne, ne_eq] at h
    simpa using h
  · simp only [h2, decide_false] at h
    have : dh < B / 2 := by omega
    simp only [this, decide_true]
    simp only [bne_eq_false_iff_eq] at h
    simpa using h

/-! ### mpn_lshift -/

theorem lshift_val (u : List Nat) (c : Nat) (hc : c ≤ 64) (hu : Limbs u) :
    val (lshift u c).1 + B ^ u.length * (lshift u c).2 = val u * 2 ^ c ∧
    (lshift u c).2 < 2 ^ c ∧ Limbs (lshift u c).1 ∧ (lshift u c).1.length = u.length := by
  have := lshiftGo_val c hc u 0 hu (by positivity)
  simpa [lshift] using this

/-- mpn_lshift followed by `new_np[n] = cy` and `new_nn = n + (cy != 0)`: the new_nn limbs hold U·2^cnt -/
theorem lshift_ext (u : List Nat) (c : Nat) (hc : c ≤ 64) (hu : Limbs u) :
    let sh := lshift u c
    let new_nn := u.length + (if sh.2 ≠ 0 then 1 else 0)
    val ((sh.1 ++ [sh.2]).take new_nn) = val u * 2 ^ c ∧ ((sh.1 ++ [sh.2]).take new_nn).length = new_nn ∧
      Limbs ((sh.1 ++ [sh.2]).take new_nn) := by
  obtain ⟨hv, hcy, hl, hn⟩ := lshift_val u c hc hu
  have hcyB : (lshift u c).2 < B := by
    have : 2 ^ c ≤ B := by unfold B; exact Nat.pow_le_pow_right (by decide) hc
    omega
  intro sh new_nn
  have hfull : Limbs (sh.1 ++ [sh.2]) := SbDiv.Limbs_snoc hl hcyB
  refine ⟨?_, ?_, Limbs_take hfull _⟩
  · by_cases h0 : sh.2 = 0
    · have e : new_nn = sh.1.length := by simp only [new_nn, h0]; simp; exact hn.symm
      rw [e, List.take_left']
      · have := hv; rw [show (lshift u c).2 = 0 from h0] at this; simpa using this
      · rfl
    · have e : new_nn = (sh.1 ++ [sh.2]).length := by
        have : sh.1.length = u.length := hn
        simp only [new_nn, List.length_append, List.length_cons, List.length_nil, this]
        rw [if_pos h0]
      rw [e, List.take_length, SbDiv.val_top1, hn]; exact hv
  · rw [List.length_take, List.length_append, hn]
    simp only [List.length_cons, List.length_nil, new_nn]
    split <;> omega

/-- tdiv_q.c:214-215: shifting a vector and or-ing `b < 2^cnt` into its low limb is `lshiftGo` with carry-in b -/
theorem lshift_or_low (c x : Nat) (xs : List Nat) (b : Nat) :
    (((lshift (x :: xs) c).1.getD 0 0 ||| b) :: (lshift (x :: xs) c).1.drop 1) = (lshiftGo c (x :: xs) b).1 := by
  simp [lshift, lshiftGo]

/-! ### mpn_cmp -/

theorem cmp_lt_iff (u v : List Nat) (hu : Limbs u) (hv : Limbs v) (hl : u.length = v.length) :
    cmp u v < 0 ↔ val u < val v := by
  unfold cmp
  have h := cmpRev_spec u.reverse v.reverse (Limbs_reverse hu) (Limbs_reverse hv) (by simp [hl])
  rw [List.reverse_reverse, List.reverse_reverse] at h
  rcases h with ⟨e, h⟩ | ⟨e, h⟩ | ⟨e, h⟩ <;> rw [e] <;> constructor <;> intro h' <;> omega

/-! ### the callee oracle -/

/-- every (q, qh) a contract-abiding callee can return — m proper limbs and a number with
    qh·B^m + val q = ⌊N/D⌋ + e — is what `quotOracle e` returns -/
theorem oracle_complete (e : Nat) (np dp q : List Nat) (qh : Nat) (hq : Limbs q)
    (hl : q.length = np.length - dp.length)
    (hv : qh * B ^ (np.length - dp.length) + val q = val np / val dp + e) :
    quotOracle e np dp = (q, qh) := by
  unfold quotOracle
  simp only []
  rw [← hv, ← hl]
  have hlt := val_lt q hq
  refine Prod.ext ?_ ?_
  · simp only []
    rw [Nat.add_comm, Nat.mul_comm]; exact SbDiv.toLimbs_val_add q qh hq
  · simp only []
    rw [Nat.add_comm, Nat.add_mul_div_right _ _ (Bpow_pos _), Nat.div_eq_of_lt hlt, Nat.zero_add]

/-- the stores `if (cy == 0) qp[k] = qh; else if (qh != 0) fill with GMP_NUMB_MAX` (tdiv_q.c:152-163, :237-248).
    The callee wrote m = k (cy = 0) or k+1 (cy ≠ 0) limbs of Q'' and returned qh = ⌊Q''/B^m⌋.  If the exact quotient
    `lo ≤ Q''` fits k+1 limbs (and, for cy = 0, Q'' does), the k+1 limbs stored hold a value between `lo` and Q'':
    the all-ones saturation only ever LOWERS an overshooting estimate, never below the exact quotient. -/
theorem storeQh_spec (cy k Q'' lo : Nat) (hlo : lo ≤ Q'') (hfit : lo < B ^ (k + 1))
    (h0 : cy = 0 → Q'' < B ^ (k + 1)) :
    let m := k + (if cy ≠ 0 then 1 else 0)
    let tp := storeQh cy (toLimbs m Q'') (Q'' / B ^ m)
    tp.length = k + 1 ∧ Limbs tp ∧ lo ≤ val tp ∧ val tp ≤ Q'' ∧ (Q'' < B ^ (k + 1) → val tp = Q'') := by
  intro m tp
  by_cases hcy : cy = 0
  · have hm : m = k := by simp [m, hcy]
    have htp : tp = toLimbs k Q'' ++ [Q'' / B ^ k] := by simp [tp, storeQh, hcy, hm]
    have hv : val tp = Q'' := by rw [htp]; exact val_toLimbs_snoc_div k Q''
    have hqh : Q'' / B ^ k < B := by
      rw [Nat.div_lt_iff_lt_mul (Bpow_pos k), Nat.mul_comm, ← pow_succ]; exact h0 hcy
    refine ⟨by rw [htp]; simp [toLimbs_length], ?_, by omega, by omega, fun _ => hv⟩
    rw [htp]; exact SbDiv.Limbs_snoc (toLimbs_Limbs _ _) hqh
  · have hm : m = k + 1 := by simp [m, hcy]
    by_cases hqh : Q'' / B ^ (k + 1) = 0
    · have htp : tp = toLimbs (k + 1) Q'' := by simp [tp, storeQh, hcy, hm, hqh]
      have hlt : Q'' < B ^ (k + 1) := by
        rcases Nat.lt_or_ge Q'' (B ^ (k + 1)) with h | h
        · exact h
        · have := Nat.div_pos h (Bpow_pos (k + 1)); omega
      have hv : val tp = Q'' := by rw [htp]; exact toLimbs_val_lt _ _ hlt
      exact ⟨by rw [htp, toLimbs_length], by rw [htp]; exact toLimbs_Limbs _ _, by omega, by omega, fun _ => hv⟩
    · have htp : tp = List.replicate (k + 1) (B - 1) := by
        simp [tp, storeQh, hcy, hm, hqh, toLimbs_length]
      have hge : B ^ (k + 1) ≤ Q'' := by
        rcases Nat.lt_or_ge Q'' (B ^ (k + 1)) with h | h
        · exact absurd (Nat.div_eq_of_lt h) hqh
        · exact h
      have hv := val_replicate_max (k + 1)
      rw [← htp] at hv
      exact ⟨by rw [htp]; simp, by rw [htp]; exact Limbs_replicate_max _, by omega, by omega, fun h => by omega⟩

/-- a call followed by the stores: the k+1 limbs written hold a value between the exact quotient `lo` and `lo + e`
    (exactly `lo` for an exact callee) -/
theorem call_store_spec (c : Callee) (e : Nat) (np' dp' : List Nat) (cy k lo : Nat)
    (hm : np'.length - dp'.length = k + (if cy ≠ 0 then 1 else 0))
    (hlo : lo = val np' / val dp') (hfit : lo < B ^ (k + 1)) (h0 : cy = 0 → lo + e < B ^ (k + 1)) :
    (storeQh cy (call c e np' dp').1 (call c e np' dp').2).length = k + 1 ∧
    Limbs (storeQh cy (call c e np' dp').1 (call c e np' dp').2) ∧
    lo ≤ val (storeQh cy (call c e np' dp').1 (call c e np' dp').2) ∧
    val (storeQh cy (call c e np' dp').1 (call c e np' dp').2) ≤ lo + e ∧
    (c.approx = false → val (storeQh cy (call c e np' dp').1 (call c e np' dp').2) = lo) := by
  have hcall : call c e np' dp' =
      (toLimbs (k + (if cy ≠ 0 then 1 else 0)) (lo + (if c.approx then e else 0)),
       (lo + (if c.approx then e else 0)) / B ^ (k + (if cy ≠ 0 then 1 else 0))) := by
    simp only [call, quotOracle, hm, hlo]
  rw [hcall]
  dsimp only
  have he' : (if c.approx then e else 0) ≤ e := by split <;> omega
  obtain ⟨a1, a2, a3, a4, a5⟩ := storeQh_spec cy k (lo + (if c.approx then e else 0)) lo (by omega) hfit
    (fun h => by have := h0 h; omega)
  refine ⟨a1, a2, a3, by omega, ?_⟩
  intro hex
  have : (if c.approx then e else 0) = 0 := by rw [hex]; rfl
  rw [this, Nat.add_zero] at a5 ⊢
  exact a5 hfit

/-- the quotient of an nn-limb number by a dn-limb number with non-zero top limb fits nn-dn+1 limbs -/
theorem quot_fits (n d : List Nat) (hn : Limbs n) (hd : Limbs d) (hdn : 1 ≤ d.length) (hnn : d.length ≤ n.length)
    (htop : d.getD (d.length - 1) 0 ≠ 0) : val n < val d * B ^ (n.length - d.length + 1) := by
  have h1 := val_lt n hn
  have h2 := (top_bracket d hd hdn).1
  have h3 : B ^ (d.length - 1) ≤ val d := by
    calc B ^ (d.length - 1) = B ^ (d.length - 1) * 1 := (Nat.mul_one _).symm
      _ ≤ B ^ (d.length - 1) * d.getD (d.length - 1) 0 := Nat.mul_le_mul_left _ (Nat.pos_of_ne_zero htop)
      _ ≤ val d := h2
  have h4 : B ^ n.length = B ^ (d.length - 1) * B ^ (n.length - d.length + 1) := by
    rw [← pow_add]; congr 1; omega
  calc val n < B ^ n.length := h1
    _ = B ^ (d.length - 1) * B ^ (n.length - d.length + 1) := h4
    _ ≤ val d * B ^ (n.length - d.length + 1) := Nat.mul_le_mul_right _ h3

end Mpir.TdivQ
