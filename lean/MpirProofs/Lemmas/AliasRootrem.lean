/- mpz_rootrem on the pointer-level model (Mpir/Model/AliasMem.lean `rootrem`): root or remainder built in TMP space when
   the variable is the operand, copied back over the operand, TMP_FREE. -/
import MpirProofs.Lemmas.AliasRoot
import MpirProofs.Lemmas.Root
namespace Mpir.AliasMem
open Mpir
open Mpir.DivZ (sizeNat siz sameSign)

theorem St.ext' {a b : St} (h1 : a.nv = b.nv) (h2 : ∀ i, a.vars i = b.vars i) (h3 : ∀ q, a.blk q = b.blk q)
    (h4 : a.next = b.next) : a = b := by
  cases a; cases b
  simp only [St.mk.injEq] at *
  exact ⟨h1, funext h2, funext h3, h4⟩

/-- a limb vector is determined by its length and value (copy of MulLoops.eq_toLimbs) -/
theorem eq_toLimbs' : ∀ (r : List Nat), Limbs r → r = toLimbs r.length (val r)
  | [], _ => rfl
  | x :: xs, h => by
    have ⟨hx, hxs⟩ := Limbs_cons.mp h
    have ih := eq_toLimbs' xs hxs
    simp only [List.length_cons, toLimbs, val_cons]
    rw [Nat.add_mul_mod_self_left, Nat.mod_eq_of_lt hx, Nat.add_mul_div_left _ _ B_pos,
      Nat.div_eq_of_lt hx, Nat.zero_add, ← ih]

/-- the root of an `un`-limb number has exactly `(un - 1) / k + 1` limbs: rootrem.c:54 `rootn`, stored into SIZ (root)
    without a normalisation (:83) -/
theorem iroot_size {N un k : Nat} (h1 : B ^ (un - 1) ≤ N) (h2 : N < B ^ un) (hun : 1 ≤ un) (hk : 1 ≤ k) :
    sizeNat (Root.iroot k N) = (un - 1) / k + 1 := by
  obtain ⟨a, b⟩ := Root.iroot_spec k N hk
  generalize Root.iroot k N = r at a b
  generalize hm : (un - 1) / k = m
  have e := Nat.div_add_mod (un - 1) k
  have l := Nat.mod_lt (un - 1) hk
  rw [hm] at e
  have hmk : m * k ≤ un - 1 := by rw [Nat.mul_comm]; omega
  have hmk2 : un ≤ (m + 1) * k := by
    have : (m + 1) * k = k * m + k := by rw [Nat.add_mul, Nat.one_mul, Nat.mul_comm]
    omega
  apply sizeNat_eq
  · simp only [Nat.add_sub_cancel]
    by_contra hc
    have h3 : r + 1 ≤ B ^ m := by omega
    have h4 : (r + 1) ^ k ≤ (B ^ m) ^ k := Nat.pow_le_pow_left h3 k
    rw [← pow_mul] at h4
    have h5 : B ^ (m * k) ≤ B ^ (un - 1) := Nat.pow_le_pow_right B_pos hmk
    omega
  · by_contra hc
    have h3 : B ^ (m + 1) ≤ r := by omega
    have h4 : (B ^ (m + 1)) ^ k ≤ r ^ k := Nat.pow_le_pow_left h3 k
    rw [← pow_mul] at h4
    have h5 : B ^ un ≤ B ^ ((m + 1) * k) := Nat.pow_le_pow_right B_pos hmk2
    omega
  · omega


/-- rootrem.c:71-79 -/
def rrCompute (nth rootp remp up un : Nat) (s2 : St) : R (Nat × St) :=
  if nth = 1 then do
    let l ← s2.load up un
    let s ← s2.store rootp l
    pure (0, s)
  else mpn_rootrem rootp remp up un nth s2

/-- rootrem.c:69-92 as a function of the two result pointers chosen by :59-67 -/
def rrTail (root rem u nth : Nat) (us : Int) (rootn un rootp remp : Nat) (s2 : St) : R St := do
  let up := s2.ptr u
  let (remn, s3) ← rrCompute nth rootp remp up un s2
  let s4 := s3.setSize root (if us ≥ 0 then (rootn : Int) else -(rootn : Int))
  let s5 ← (if u = root then do
      let l ← s4.load rootp rootn
      s4.store up l
    else if u = rem then do
      let l ← s4.load remp remn
      s4.store up l
    else pure s4)
  let s6 := s5.setSize rem (if us < 0 ∧ remn > 0 then -(remn : Int) else (remn : Int))
  let s7 := if u = root then s6.free rootp else s6
  pure (if u = rem then s7.free remp else s7)

theorem rootrem_eq (root rem u nth : Nat) (s : St) (h1 : ¬ (s.size u < 0 ∧ nth % 2 = 0)) (h2 : nth ≠ 0) (h3 : s.size u ≠ 0)
    (hrm : root ≠ rem) :
    rootrem root rem u nth s =
      rrTail root rem u nth (s.size u) (((s.size u).natAbs - 1) / nth + 1) (s.size u).natAbs
        (if u ≠ root then (s.mpzRealloc root (((s.size u).natAbs - 1) / nth + 1)).ptr root else s.next)
        (if u ≠ rem then
          ((if u ≠ root then s.mpzRealloc root (((s.size u).natAbs - 1) / nth + 1) else (s.tmpAlloc (((s.size u).natAbs - 1) / nth + 1)).2).mpzRealloc rem (s.size u).natAbs).ptr rem
         else (if u ≠ root then s.mpzRealloc root (((s.size u).natAbs - 1) / nth + 1) else (s.tmpAlloc (((s.size u).natAbs - 1) / nth + 1)).2).next)
        (if u ≠ rem then
          (if u ≠ root then s.mpzRealloc root (((s.size u).natAbs - 1) / nth + 1) else (s.tmpAlloc (((s.size u).natAbs - 1) / nth + 1)).2).mpzRealloc rem (s.size u).natAbs
         else ((if u ≠ root then s.mpzRealloc root (((s.size u).natAbs - 1) / nth + 1) else (s.tmpAlloc (((s.size u).natAbs - 1) / nth + 1)).2).tmpAlloc (s.size u).natAbs).2) := by
  unfold rootrem rrTail
  simp only [bind, Except.bind, pure, Except.pure]
  rw [if_neg h1, if_neg h2, if_neg h3]
  by_cases e1 : u = root
  · subst e1
    have e2 : ¬ u = rem := hrm
    simp only [e2, ne_eq, not_true_eq_false, not_false_eq_true, if_true, if_false]
    rfl
  · by_cases e2 : u = rem
    · subst e2
      simp only [e1, ne_eq, not_true_eq_false, not_false_eq_true, if_true, if_false]
      rfl
    · simp only [e1, e2, ne_eq, not_false_eq_true, if_true, if_false]
      rfl


theorem load_blk {s : St} {p n : Nat} {b : List Nat} (h : s.blk p = some b) (hn : n ≤ b.length) :
    s.load p n = .ok (b.take n) := by
  unfold St.load; rw [h]; simp only []; rw [if_pos hn]

theorem store_blk {s : St} {p : Nat} {l b : List Nat} (h : s.blk p = some b) (hn : l.length ≤ b.length) :
    s.store p l = .ok (s.setBlk p (some (l ++ b.drop l.length))) := by
  unfold St.store; rw [h]; simp only []; rw [if_pos hn]

/-- rootrem.c:71-79: what the copy (nth = 1) or mpn_rootrem leaves in the two result blocks -/
theorem rrCompute_ok {s2 : St} {rootp remp up un nth : Nat} {Ul bR bM : List Nat}
    (hl : s2.load up un = .ok Ul) (hUL : Limbs Ul) (hUlen : Ul.length = un)
    (hbR : s2.blk rootp = some bR) (hbM : s2.blk remp = some bM)
    (h1 : rootp ≠ up) (h2 : rootp ≠ remp) (h3 : remp ≠ up) (hun : 1 ≤ un) (hn : 1 ≤ nth)
    (htop : Ul.getD (un - 1) 0 ≠ 0)
    (haR : (un - 1) / nth + 1 ≤ bR.length) (haM : un ≤ bM.length) :
    ∃ s3, rrCompute nth rootp remp up un s2 =
        .ok (sizeNat (val Ul - Root.iroot nth (val Ul) ^ nth), s3) ∧
      s3.nv = s2.nv ∧ s3.vars = s2.vars ∧ s3.next = s2.next ∧
      s3.blk rootp = some (toLimbs ((un - 1) / nth + 1) (Root.iroot nth (val Ul)) ++ bR.drop ((un - 1) / nth + 1)) ∧
      s3.blk remp = some (toLimbs (sizeNat (val Ul - Root.iroot nth (val Ul) ^ nth)) (val Ul - Root.iroot nth (val Ul) ^ nth)
        ++ bM.drop (sizeNat (val Ul - Root.iroot nth (val Ul) ^ nth))) ∧
      ∀ q, q ≠ rootp → q ≠ remp → s3.blk q = s2.blk q := by
  have hle : sizeNat (val Ul - Root.iroot nth (val Ul) ^ nth) ≤ un := by
    rw [DivZ.sizeNat_le_iff]
    have := val_lt Ul hUL; rw [hUlen] at this; omega
  unfold rrCompute
  by_cases h1n : nth = 1
  · subst h1n
    rw [if_pos rfl]
    simp only [bind, Except.bind, pure, Except.pure, hl]
    have e0 : (un - 1) / 1 + 1 = un := by rw [Nat.div_one]; omega
    rw [store_blk hbR (by rw [hUlen]; omega)]
    simp only [Root.iroot_one, pow_one, Nat.sub_self, DivZ.sizeNat_eq_zero.mpr rfl, e0]
    refine ⟨_, rfl, rfl, rfl, rfl, ?_, ?_, fun q hq _ => by simp [St.setBlk, hq]⟩
    · simp only [St.setBlk, if_true, hUlen]
      rw [← hUlen, ← eq_toLimbs' Ul hUL]
    · simp [St.setBlk, Ne.symm h2, hbM, toLimbs]
  · rw [if_neg h1n]
    unfold mpn_rootrem
    have hc : ¬ (rootp = up ∨ rootp = remp ∨ remp = up) := by tauto
    have hs : ¬ ¬ (1 ≤ un ∧ 2 ≤ nth) := by omega
    simp only [bind, Except.bind, hc, if_false, hl, hs, htop, pure, Except.pure, Root.irootFast_eq, Root.powS_eq]
    rw [store_blk hbR (by rw [toLimbs_length]; exact haR)]
    simp only [toLimbs_length]
    have hb2 : (s2.setBlk rootp (some (toLimbs ((un - 1) / nth + 1) (Root.iroot nth (val Ul)) ++ bR.drop ((un - 1) / nth + 1)))).blk remp
        = some bM := by simp [St.setBlk, Ne.symm h2, hbM]
    rw [store_blk hb2 (by rw [toLimbs_length]; omega)]
    simp only [toLimbs_length]
    refine ⟨_, rfl, rfl, rfl, rfl, ?_, ?_, fun q hq hq' => by simp [St.setBlk, hq, hq']⟩
    · simp [St.setBlk, h2]
    · simp [St.setBlk]


/-- two outputs written one after the other -/
theorem two_put_spec {s : St} (h : Inv s) {root rem : Nat} (hr : root < s.nv) (hm : rem < s.nv) (hrm : root ≠ rem)
    (b1 b2 : List Nat) (m1 m2 : Nat) (n1 n2 : Bool)
    (hl1 : b1.length = s.alloc root) (hL1 : Limbs b1) (hk1 : sizeNat m1 ≤ s.alloc root) (hv1 : val (b1.take (sizeNat m1)) = m1)
    (hl2 : b2.length = s.alloc rem) (hL2 : Limbs b2) (hk2 : sizeNat m2 ≤ s.alloc rem) (hv2 : val (b2.take (sizeNat m2)) = m2) :
    Inv ((s.put root b1 (if n1 then -(sizeNat m1 : Int) else (sizeNat m1 : Int))).put rem b2 (if n2 then -(sizeNat m2 : Int) else (sizeNat m2 : Int))) ∧
    ((s.put root b1 (if n1 then -(sizeNat m1 : Int) else (sizeNat m1 : Int))).put rem b2 (if n2 then -(sizeNat m2 : Int) else (sizeNat m2 : Int))).nv = s.nv ∧
    ((s.put root b1 (if n1 then -(sizeNat m1 : Int) else (sizeNat m1 : Int))).put rem b2 (if n2 then -(sizeNat m2 : Int) else (sizeNat m2 : Int))).value root
      = (if n1 then -(m1 : Int) else (m1 : Int)) ∧
    ((s.put root b1 (if n1 then -(sizeNat m1 : Int) else (sizeNat m1 : Int))).put rem b2 (if n2 then -(sizeNat m2 : Int) else (sizeNat m2 : Int))).value rem
      = (if n2 then -(m2 : Int) else (m2 : Int)) ∧
    (∀ i, i < s.nv → i ≠ root → i ≠ rem →
      ((s.put root b1 (if n1 then -(sizeNat m1 : Int) else (sizeNat m1 : Int))).put rem b2 (if n2 then -(sizeNat m2 : Int) else (sizeNat m2 : Int))).value i = s.value i) ∧
    (∀ i, ((s.put root b1 (if n1 then -(sizeNat m1 : Int) else (sizeNat m1 : Int))).put rem b2 (if n2 then -(sizeNat m2 : Int) else (sizeNat m2 : Int))).ptr i = s.ptr i) := by
  have p1 := put_upd h hr b1 m1 n1 hl1 hL1 hk1 hv1
  have hm1 : rem < (s.put root b1 (if n1 then -(sizeNat m1 : Int) else (sizeNat m1 : Int))).nv := by rw [p1.2.1.nv]; exact hm
  have p2 := put_upd p1.1 hm1 b2 m2 n2 (by rw [p1.2.1.alloc]; exact hl2) hL2 (by rw [p1.2.1.alloc]; exact hk2) hv2
  refine ⟨p2.1, by rw [p2.2.1.nv, p1.2.1.nv], ?_, p2.2.2, fun i hi hir him => ?_, fun i => by rw [p2.2.1.ptr, p1.2.1.ptr]⟩
  · rw [p2.2.1.value_o p1.1 hm1 (by rw [p1.2.1.nv]; exact hr) hrm, p1.2.2]
  · rw [p2.2.1.value_o p1.1 hm1 (by rw [p1.2.1.nv]; exact hi) him, p1.2.1.value_o h hr hi hir]

theorem two_put_blk (s : St) {root rem : Nat} (hrm : root ≠ rem) (b1 b2 : List Nat) (z1 z2 : Int) (q : Nat) :
    ((s.put root b1 z1).put rem b2 z2).blk q =
      if q = s.ptr rem then some b2 else if q = s.ptr root then some b1 else s.blk q := by
  simp only [St.put, St.setSize, St.setVar, St.setBlk, St.ptr, Ne.symm hrm, if_false, if_true]
  by_cases e1 : q = (s.vars rem).ptr <;> by_cases e2 : q = (s.vars root).ptr <;> simp [e1, e2]

theorem two_put_vars (s : St) (root rem : Nat) (b1 b2 : List Nat) (z1 z2 : Int) (i : Nat) :
    ((s.put root b1 z1).put rem b2 z2).vars i =
      if i = rem then { (if rem = root then { s.vars root with size := z1 } else s.vars rem) with size := z2 }
      else if i = root then { s.vars root with size := z1 } else s.vars i := by
  simp [St.put, St.setSize, St.setVar, St.setBlk]


theorem sgn_size_R (us : Int) (k : Nat) :
    (if us ≥ 0 then (k : Int) else -(k : Int)) = (if decide (us < 0) = true then -(k : Int) else (k : Int)) := by
  by_cases h : us < 0
  · simp [h]
  · simp [h]

theorem sgn_size_M (us : Int) (k : Nat) :
    (if us < 0 ∧ k > 0 then -(k : Int) else (k : Int)) = (if decide (us < 0) = true then -(k : Int) else (k : Int)) := by
  by_cases h : us < 0
  · by_cases hk : k > 0
    · simp [h, hk]
    · have : k = 0 := by omega
      subst this; simp
  · simp [h]

theorem sgnv_eq_ite (us : Int) (m : Nat) : (if decide (us < 0) = true then -(m : Int) else (m : Int)) = sgnv us m := by
  unfold sgnv; by_cases h : us < 0 <;> simp [h]

theorem rrTail_ok {s2 : St} (h : Inv s2) {root rem u : Nat} (hr : root < s2.nv) (hm : rem < s2.nv) (hu : u < s2.nv)
    (hrm : root ≠ rem) (nth : Nat) (hn : 1 ≤ nth) (hz : s2.size u ≠ 0) (rootp remp : Nat)
    (hroot : (u ≠ root ∧ rootp = s2.ptr root ∧ ((s2.size u).natAbs - 1) / nth + 1 ≤ s2.alloc root) ∨
             (u = root ∧ (∀ i, i < s2.nv → s2.ptr i ≠ rootp) ∧ rootp < s2.next ∧
               ∃ b, s2.blk rootp = some b ∧ ((s2.size u).natAbs - 1) / nth + 1 ≤ b.length))
    (hrem : (u ≠ rem ∧ remp = s2.ptr rem ∧ (s2.size u).natAbs ≤ s2.alloc rem) ∨
             (u = rem ∧ (∀ i, i < s2.nv → s2.ptr i ≠ remp) ∧ remp < s2.next ∧
               ∃ b, s2.blk remp = some b ∧ (s2.size u).natAbs ≤ b.length)) :
    ∃ s', rrTail root rem u nth (s2.size u) (((s2.size u).natAbs - 1) / nth + 1) (s2.size u).natAbs rootp remp s2 = .ok s' ∧
      Inv s' ∧ s'.nv = s2.nv ∧
      s'.value root = sgnv (s2.size u) (Root.iroot nth (s2.mag u)) ∧
      s'.value rem = sgnv (s2.size u) (s2.mag u - Root.iroot nth (s2.mag u) ^ nth) ∧
      ∀ i, i < s2.nv → i ≠ root → i ≠ rem → s'.value i = s2.value i := by
  have hun1 : 1 ≤ (s2.size u).natAbs := Int.natAbs_pos.mpr hz
  have hl := h.load_var hu
  have hls := h.limbs_spec hu
  have htop := h.top_ne_zero hu hz
  have hN1 := h.mag_ge hu hz
  have hN2 := h.mag_lt hu
  have hNdef : val (s2.limbs u) = s2.mag u := rfl
  have hRsz : sizeNat (Root.iroot nth (s2.mag u)) = ((s2.size u).natAbs - 1) / nth + 1 := iroot_size hN1 hN2 hun1 hn
  have hrootn_le : ((s2.size u).natAbs - 1) / nth + 1 ≤ (s2.size u).natAbs := by
    have := Nat.div_le_self ((s2.size u).natAbs - 1) nth
    clear hroot hrem
    generalize ((s2.size u).natAbs - 1) / nth = d at *
    omega
  have hMsz : sizeNat (s2.mag u - Root.iroot nth (s2.mag u) ^ nth) ≤ (s2.size u).natAbs := by
    rw [DivZ.sizeNat_le_iff]; clear hroot hrem; omega
  obtain ⟨bU, hbU, hbUl, hbUL⟩ := h.live u hu
  have hfitu := h.fits u hu
  obtain ⟨bR, hbR, haR, hRu⟩ : ∃ bR, s2.blk rootp = some bR ∧ ((s2.size u).natAbs - 1) / nth + 1 ≤ bR.length ∧ rootp ≠ s2.ptr u := by
    rcases hroot with ⟨e, hp, ha⟩ | ⟨e, hnv, _, b, hb, hbl⟩
    · obtain ⟨b, hb, hbl, _⟩ := h.live root hr
      exact ⟨b, by rw [hp]; exact hb, by omega, by rw [hp]; exact fun e' => e (h.inj root u hr hu e').symm⟩
    · exact ⟨b, hb, hbl, (hnv u hu).symm⟩
  obtain ⟨bM, hbM, haM, hMu⟩ : ∃ bM, s2.blk remp = some bM ∧ (s2.size u).natAbs ≤ bM.length ∧ remp ≠ s2.ptr u := by
    rcases hrem with ⟨e, hp, ha⟩ | ⟨e, hnv, _, b, hb, hbl⟩
    · obtain ⟨b, hb, hbl, _⟩ := h.live rem hm
      exact ⟨b, by rw [hp]; exact hb, by omega, by rw [hp]; exact fun e' => e (h.inj rem u hm hu e').symm⟩
    · exact ⟨b, hb, hbl, (hnv u hu).symm⟩
  have hpp : rootp ≠ remp := by
    rcases hroot with ⟨e, hp, _⟩ | ⟨e, hnv, _⟩ <;> rcases hrem with ⟨e', hp', _⟩ | ⟨e', hnv', _⟩
    · rw [hp, hp']; exact fun x => hrm (h.inj root rem hr hm x)
    · rw [hp]; exact hnv' root hr
    · rw [hp']; exact (hnv rem hm).symm
    · exact absurd (e.symm.trans e') hrm
  obtain ⟨s3, hc, nv3, vars3, next3, blkR3, blkM3, blkO3⟩ :=
    rrCompute_ok hl hls.2 hls.1 hbR hbM hRu hpp hMu hun1 hn htop haR haM
  rw [hNdef] at hc blkR3 blkM3
  unfold rrTail
  simp only [bind, Except.bind, pure, Except.pure]
  rw [hc]; simp only []
  rw [sgn_size_R, sgn_size_M, ← hRsz]
  generalize hRdef : Root.iroot nth (s2.mag u) = Rv at *
  generalize hMdef : s2.mag u - Rv ^ nth = Mv at *
  rw [← hRsz] at blkR3 haR hrootn_le hroot
  have hvR : val ((toLimbs (sizeNat Rv) Rv ++ bR.drop (sizeNat Rv)).take (sizeNat Rv)) = Rv := val_take_wr _ (Nat.le_refl _)
  rcases hroot with ⟨e1, hp, ha⟩ | ⟨e1, hnv, hlt, _⟩
  · obtain ⟨b, hb, hbRl, hbRL⟩ := h.live root hr
    rw [← hp, hbR] at hb; cases hb
    rcases hrem with ⟨e2, hp', ha'⟩ | ⟨e2, hnv', hlt', _⟩
    · -- neither output is the operand: both results are written in place
      obtain ⟨b, hb, hbMl, hbML⟩ := h.live rem hm
      rw [← hp', hbM] at hb; cases hb
      simp only [if_neg e1, if_neg e2]
      have T := two_put_spec h hr hm hrm (toLimbs (sizeNat Rv) Rv ++ bR.drop (sizeNat Rv))
        (toLimbs (sizeNat Mv) Mv ++ bM.drop (sizeNat Mv)) Rv Mv (decide (s2.size u < 0)) (decide (s2.size u < 0))
        (by rw [length_wr' haR]; exact hbRl) (Limbs_wr' (Limbs_toLimbs _ _) hbRL) ha hvR
        (by rw [length_wr' (by omega)]; exact hbMl) (Limbs_wr' (Limbs_toLimbs _ _) hbML) (by omega) (val_take_wr _ (Nat.le_refl _))
      have heq : (s3.setSize root (if decide (s2.size u < 0) = true then -(sizeNat Rv : Int) else (sizeNat Rv : Int))).setSize rem
            (if decide (s2.size u < 0) = true then -(sizeNat Mv : Int) else (sizeNat Mv : Int)) =
          (s2.put root (toLimbs (sizeNat Rv) Rv ++ bR.drop (sizeNat Rv)) (if decide (s2.size u < 0) = true then -(sizeNat Rv : Int) else (sizeNat Rv : Int))).put rem
            (toLimbs (sizeNat Mv) Mv ++ bM.drop (sizeNat Mv)) (if decide (s2.size u < 0) = true then -(sizeNat Mv : Int) else (sizeNat Mv : Int)) := by
        apply St.ext'
        · exact nv3
        · intro i; simp only [two_put_vars, St.setSize, St.setVar, vars3]
        · intro q
          rw [two_put_blk _ hrm]
          show s3.blk q = _
          by_cases q1 : q = s2.ptr rem
          · rw [if_pos q1, q1, ← hp', blkM3]
          · by_cases q2 : q = s2.ptr root
            · rw [if_neg q1, if_pos q2, q2, ← hp, blkR3]
            · rw [if_neg q1, if_neg q2, blkO3 q (by rw [hp]; exact q2) (by rw [hp']; exact q1)]
        · exact next3
      rw [heq]
      exact ⟨_, rfl, T.1, T.2.1, by rw [T.2.2.1, sgnv_eq_ite], by rw [T.2.2.2.1, sgnv_eq_ite], T.2.2.2.2.1⟩
    · -- rem is the operand: the remainder is built in TMP space and copied over the operand (rootrem.c:86-87)
      subst e2
      simp only [if_neg e1, if_true]
      have hbs : (s3.setSize root (if decide (s2.size u < 0) = true then -(sizeNat Rv : Int) else (sizeNat Rv : Int))).blk remp =
          some (toLimbs (sizeNat Mv) Mv ++ bM.drop (sizeNat Mv)) := blkM3
      rw [load_blk hbs (by simp [toLimbs_length])]
      simp only []
      rw [List.take_left' (toLimbs_length _ _)]
      have hbu : (s3.setSize root (if decide (s2.size u < 0) = true then -(sizeNat Rv : Int) else (sizeNat Rv : Int))).blk (s2.ptr u) = some bU := by
        show s3.blk (s2.ptr u) = some bU
        rw [blkO3 _ (Ne.symm hRu) (Ne.symm hMu), hbU]
      rw [store_blk hbu (by rw [toLimbs_length]; omega)]
      simp only [toLimbs_length]
      have T := two_put_spec h hr hu hrm (toLimbs (sizeNat Rv) Rv ++ bR.drop (sizeNat Rv))
        (toLimbs (sizeNat Mv) Mv ++ bU.drop (sizeNat Mv)) Rv Mv (decide (s2.size u < 0)) (decide (s2.size u < 0))
        (by rw [length_wr' haR]; exact hbRl) (Limbs_wr' (Limbs_toLimbs _ _) hbRL) ha hvR
        (by rw [length_wr' (by omega)]; exact hbUl) (Limbs_wr' (Limbs_toLimbs _ _) hbUL) (by omega) (val_take_wr _ (Nat.le_refl _))
      have heq : (((s3.setSize root (if decide (s2.size u < 0) = true then -(sizeNat Rv : Int) else (sizeNat Rv : Int))).setBlk (s2.ptr u)
            (some (toLimbs (sizeNat Mv) Mv ++ bU.drop (sizeNat Mv)))).setSize u
            (if decide (s2.size u < 0) = true then -(sizeNat Mv : Int) else (sizeNat Mv : Int))).free remp =
          ((s2.put root (toLimbs (sizeNat Rv) Rv ++ bR.drop (sizeNat Rv)) (if decide (s2.size u < 0) = true then -(sizeNat Rv : Int) else (sizeNat Rv : Int))).put u
            (toLimbs (sizeNat Mv) Mv ++ bU.drop (sizeNat Mv)) (if decide (s2.size u < 0) = true then -(sizeNat Mv : Int) else (sizeNat Mv : Int))).free remp := by
        apply St.ext'
        · exact nv3
        · intro i; simp only [two_put_vars, St.free, St.setSize, St.setVar, St.setBlk, vars3]
        · intro q
          show (if q = remp then none else if q = s2.ptr u then some _ else s3.blk q) = (if q = remp then none else _)
          rw [two_put_blk _ hrm]
          by_cases q0 : q = remp
          · rw [if_pos q0, if_pos q0]
          · rw [if_neg q0, if_neg q0]
            by_cases q1 : q = s2.ptr u
            · rw [if_pos q1, if_pos q1]
            · by_cases q2 : q = s2.ptr root
              · rw [if_neg q1, if_neg q1, if_pos q2, q2, ← hp, blkR3]
              · rw [if_neg q1, if_neg q1, if_neg q2, blkO3 q (by rw [hp]; exact q2) q0]
        · exact next3
      rw [heq]
      obtain ⟨i6, n6, _, v6⟩ := free_inv T.1 remp (fun i hi => by rw [T.2.1] at hi; rw [T.2.2.2.2.2]; exact hnv' i hi)
      exact ⟨_, rfl, i6, by rw [n6, T.2.1], by rw [v6 root (by rw [T.2.1]; exact hr), T.2.2.1, sgnv_eq_ite],
        by rw [v6 u (by rw [T.2.1]; exact hu), T.2.2.2.1, sgnv_eq_ite],
        fun i hi h1 h2 => by rw [v6 i (by rw [T.2.1]; exact hi), T.2.2.2.2.1 i hi h1 h2]⟩
  · -- root is the operand: the root is built in TMP space and copied over the operand (rootrem.c:84-85)
    subst e1
    rcases hrem with ⟨e2, hp', ha'⟩ | ⟨e2, _⟩
    swap
    · exact absurd e2 hrm
    obtain ⟨b, hb, hbMl, hbML⟩ := h.live rem hm
    rw [← hp', hbM] at hb; cases hb
    simp only [if_neg e2, if_true]
    have hbs : (s3.setSize u (if decide (s2.size u < 0) = true then -(sizeNat Rv : Int) else (sizeNat Rv : Int))).blk rootp =
        some (toLimbs (sizeNat Rv) Rv ++ bR.drop (sizeNat Rv)) := blkR3
    rw [load_blk hbs (by simp [toLimbs_length])]
    simp only []
    rw [List.take_left' (toLimbs_length _ _)]
    have hbu : (s3.setSize u (if decide (s2.size u < 0) = true then -(sizeNat Rv : Int) else (sizeNat Rv : Int))).blk (s2.ptr u) = some bU := by
      show s3.blk (s2.ptr u) = some bU
      rw [blkO3 _ (Ne.symm hRu) (Ne.symm hMu), hbU]
    rw [store_blk hbu (by rw [toLimbs_length]; omega)]
    simp only [toLimbs_length]
    have T := two_put_spec h hu hm hrm (toLimbs (sizeNat Rv) Rv ++ bU.drop (sizeNat Rv))
      (toLimbs (sizeNat Mv) Mv ++ bM.drop (sizeNat Mv)) Rv Mv (decide (s2.size u < 0)) (decide (s2.size u < 0))
      (by rw [length_wr' (by omega)]; exact hbUl) (Limbs_wr' (Limbs_toLimbs _ _) hbUL) (by omega) (val_take_wr _ (Nat.le_refl _))
      (by rw [length_wr' (by omega)]; exact hbMl) (Limbs_wr' (Limbs_toLimbs _ _) hbML) (by omega) (val_take_wr _ (Nat.le_refl _))
    have hpur : s2.ptr u ≠ s2.ptr rem := fun e => hrm (h.inj u rem hu hm e)
    have heq : (((s3.setSize u (if decide (s2.size u < 0) = true then -(sizeNat Rv : Int) else (sizeNat Rv : Int))).setBlk (s2.ptr u)
          (some (toLimbs (sizeNat Rv) Rv ++ bU.drop (sizeNat Rv)))).setSize rem
          (if decide (s2.size u < 0) = true then -(sizeNat Mv : Int) else (sizeNat Mv : Int))).free rootp =
        ((s2.put u (toLimbs (sizeNat Rv) Rv ++ bU.drop (sizeNat Rv)) (if decide (s2.size u < 0) = true then -(sizeNat Rv : Int) else (sizeNat Rv : Int))).put rem
          (toLimbs (sizeNat Mv) Mv ++ bM.drop (sizeNat Mv)) (if decide (s2.size u < 0) = true then -(sizeNat Mv : Int) else (sizeNat Mv : Int))).free rootp := by
      apply St.ext'
      · exact nv3
      · intro i; simp only [two_put_vars, St.free, St.setSize, St.setVar, St.setBlk, vars3]
      · intro q
        show (if q = rootp then none else if q = s2.ptr u then some _ else s3.blk q) = (if q = rootp then none else _)
        rw [two_put_blk _ hrm]
        by_cases q0 : q = rootp
        · rw [if_pos q0, if_pos q0]
        · rw [if_neg q0, if_neg q0]
          by_cases q1 : q = s2.ptr rem
          · rw [if_pos q1, if_neg (by rw [q1]; exact Ne.symm hpur), q1, ← hp', blkM3]
          · by_cases q2 : q = s2.ptr u
            · rw [if_neg q1, if_pos q2, if_pos q2]
            · rw [if_neg q1, if_neg q2, if_neg q2, blkO3 q q0 (by rw [hp']; exact q1)]
      · exact next3
    rw [heq]
    obtain ⟨i6, n6, _, v6⟩ := free_inv T.1 rootp (fun i hi => by rw [T.2.1] at hi; rw [T.2.2.2.2.2]; exact hnv i hi)
    exact ⟨_, rfl, i6, by rw [n6, T.2.1], by rw [v6 u (by rw [T.2.1]; exact hu), T.2.2.1, sgnv_eq_ite],
      by rw [v6 rem (by rw [T.2.1]; exact hm), T.2.2.2.1, sgnv_eq_ite],
      fun i hi h1 h2 => by rw [v6 i (by rw [T.2.1]; exact hi), T.2.2.2.2.1 i hi h1 h2]⟩

theorem mag_of_value {s s' : St} {i j : Nat} (h : s'.value i = s.value j) : s'.mag i = s.mag j := by
  rw [← value_natAbs, ← value_natAbs, h]

theorem rootrem_ok {s : St} (h : Inv s) {root rem u : Nat} (hr : root < s.nv) (hm : rem < s.nv) (hu : u < s.nv)
    (hrm : root ≠ rem) (nth : Nat) (hn : 1 ≤ nth) (hsgn : 0 ≤ s.value u ∨ nth % 2 = 1) :
    ∃ s', rootrem root rem u nth s = .ok s' ∧ Inv s' ∧ s'.nv = s.nv ∧
      s'.value root = sgnv (s.size u) (Root.iroot nth (s.mag u)) ∧
      s'.value rem = sgnv (s.size u) (s.mag u - Root.iroot nth (s.mag u) ^ nth) ∧
      ∀ i, i < s.nv → i ≠ root → i ≠ rem → s'.value i = s.value i := by
  have hneg : ¬ (s.size u < 0 ∧ nth % 2 = 0) := fun ⟨a, b⟩ => by
    have := (h.size_neg_iff hu).mp a; omega
  by_cases hz : s.size u = 0
  · unfold rootrem
    simp only [bind, Except.bind, pure, Except.pure]
    rw [if_neg hneg, if_neg (by omega), if_pos hz]
    have hm0 : s.mag u = 0 := h.mag_zero hu hz
    obtain ⟨i1, u1, v1⟩ := setSize_zero_spec h hr
    have hm1 : rem < (s.setSize root 0).nv := by rw [u1.nv]; exact hm
    obtain ⟨i2, u2, v2⟩ := setSize_zero_spec i1 hm1
    have hs0 : ∀ k : Nat, sgnv (s.size u) 0 = 0 := fun _ => by unfold sgnv; split <;> simp
    refine ⟨_, rfl, i2, by rw [u2.nv, u1.nv], ?_, ?_, fun i hi hir him => ?_⟩
    · rw [u2.value_o i1 hm1 (by rw [u1.nv]; exact hr) hrm, v1, hm0, Root.iroot_zero nth hn, hs0 0]
    · rw [v2, hm0, Nat.zero_sub, hs0 0]
    · rw [u2.value_o i1 hm1 (by rw [u1.nv]; exact hi) him, u1.value_o h hr hi hir]
  · rw [rootrem_eq root rem u nth s hneg (by omega) hz hrm]
    by_cases e1 : u = root
    · -- root = u: TMP block for the root, rem reallocated
      subst e1
      have e2 : ¬ u = rem := hrm
      simp only [e2, ne_eq, not_true_eq_false, not_false_eq_true, if_true, if_false]
      have i1 : Inv (s.tmpAlloc (((s.size u).natAbs - 1) / nth + 1)).2 := malloc_inv h _
      have x1 : Ext s (s.tmpAlloc (((s.size u).natAbs - 1) / nth + 1)).2 := malloc_ext h _
      have hb1 : (s.tmpAlloc (((s.size u).natAbs - 1) / nth + 1)).2.blk s.next = some (List.replicate (((s.size u).natAbs - 1) / nth + 1) junk) :=
        malloc_blk_new s _
      have nx1 : (s.tmpAlloc (((s.size u).natAbs - 1) / nth + 1)).2.next = s.next + 1 := rfl
      generalize (s.tmpAlloc (((s.size u).natAbs - 1) / nth + 1)).2 = s1 at *
      have hm1 : rem < s1.nv := by rw [x1.nv]; exact hm
      obtain ⟨i2, nv2, size2, val2, a2, ag2⟩ := realloc_spec i1 hm1 (s.size u).natAbs
      have hptr2 : ∀ i, i < s.nv → (s1.mpzRealloc rem (s.size u).natAbs).ptr i ≠ s.next := fun i hi => by
        rw [realloc_ptr]; split
        · omega
        · rw [x1.ptr]; exact Nat.ne_of_lt (h.lt i hi)
      have hblk2 : (s1.mpzRealloc rem (s.size u).natAbs).blk s.next = some (List.replicate (((s.size u).natAbs - 1) / nth + 1) junk) := by
        rw [realloc_blk_o i1 hm1 _ _ (by rw [x1.ptr]; exact Ne.symm (Nat.ne_of_lt (h.lt rem hm))) (by omega), hb1]
      have hnx2 := realloc_next_le s1 rem (s.size u).natAbs
      generalize s1.mpzRealloc rem (s.size u).natAbs = s2 at *
      have hsz : s2.size u = s.size u := by rw [size2, x1.size]
      have hval : ∀ i, i < s.nv → s2.value i = s.value i := fun i hi => by
        rw [val2 i (by rw [x1.nv]; exact hi), x1.value h hi]
      have T := rrTail_ok i2 (root := u) (rem := rem) (u := u) (by rw [nv2, x1.nv]; exact hu) (by rw [nv2, x1.nv]; exact hm)
        (by rw [nv2, x1.nv]; exact hu) hrm nth hn (by rw [hsz]; exact hz) s.next (s2.ptr rem)
        (Or.inr ⟨rfl, fun i hi => hptr2 i (by rw [nv2, x1.nv] at hi; exact hi), by omega, _, hblk2, by rw [hsz]; simp⟩)
        (Or.inl ⟨e2, rfl, by rw [hsz]; exact a2⟩)
      rw [hsz, mag_of_value (hval u hu)] at T
      obtain ⟨s', hs', i', n', vr, vm, vo⟩ := T
      exact ⟨s', hs', i', by rw [n', nv2, x1.nv], vr, vm, fun i hi a b => by rw [vo i (by rw [nv2, x1.nv]; exact hi) a b, hval i hi]⟩
    · by_cases e2 : u = rem
      · -- rem = u: root reallocated, TMP block for the remainder
        subst e2
        simp only [e1, ne_eq, not_true_eq_false, not_false_eq_true, if_true, if_false]
        obtain ⟨i1, nv1, size1, val1, a1, ag1⟩ := realloc_spec h hr (((s.size u).natAbs - 1) / nth + 1)
        generalize s.mpzRealloc root (((s.size u).natAbs - 1) / nth + 1) = s1 at *
        have i2 : Inv (s1.tmpAlloc (s.size u).natAbs).2 := malloc_inv i1 _
        have x2 : Ext s1 (s1.tmpAlloc (s.size u).natAbs).2 := malloc_ext i1 _
        have hb2 : (s1.tmpAlloc (s.size u).natAbs).2.blk s1.next = some (List.replicate (s.size u).natAbs junk) := malloc_blk_new s1 _
        have nx2 : (s1.tmpAlloc (s.size u).natAbs).2.next = s1.next + 1 := rfl
        generalize (s1.tmpAlloc (s.size u).natAbs).2 = s2 at *
        have hsz : s2.size u = s.size u := by rw [x2.size, size1]
        have hval : ∀ i, i < s.nv → s2.value i = s.value i := fun i hi => by
          rw [x2.value i1 (by rw [nv1]; exact hi), val1 i hi]
        have T := rrTail_ok i2 (root := root) (rem := u) (u := u) (by rw [x2.nv, nv1]; exact hr) (by rw [x2.nv, nv1]; exact hu)
          (by rw [x2.nv, nv1]; exact hu) hrm nth hn (by rw [hsz]; exact hz) (s1.ptr root) s1.next
          (Or.inl ⟨e1, (x2.ptr root).symm, by rw [hsz, x2.alloc]; exact a1⟩)
          (Or.inr ⟨rfl, fun i hi => by rw [x2.ptr]; exact Nat.ne_of_lt (i1.lt i (by rw [x2.nv] at hi; exact hi)), by omega, _, hb2,
            by rw [hsz]; simp⟩)
        rw [hsz, mag_of_value (hval u hu)] at T
        obtain ⟨s', hs', i', n', vr, vm, vo⟩ := T
        exact ⟨s', hs', i', by rw [n', x2.nv, nv1], vr, vm, fun i hi a b => by rw [vo i (by rw [x2.nv, nv1]; exact hi) a b, hval i hi]⟩
      · -- all three distinct: both outputs reallocated, `up` fetched afterwards
        simp only [e1, e2, ne_eq, not_false_eq_true, if_true]
        obtain ⟨i1, nv1, size1, val1, a1, ag1⟩ := realloc_spec h hr (((s.size u).natAbs - 1) / nth + 1)
        generalize s.mpzRealloc root (((s.size u).natAbs - 1) / nth + 1) = s1 at *
        have hm1 : rem < s1.nv := by rw [nv1]; exact hm
        obtain ⟨i2, nv2, size2, val2, a2, ag2⟩ := realloc_spec i1 hm1 (s.size u).natAbs
        have hp2 : (s1.mpzRealloc rem (s.size u).natAbs).ptr root = s1.ptr root := by
          rw [realloc_ptr, if_neg (fun x => hrm x.1)]
        generalize s1.mpzRealloc rem (s.size u).natAbs = s2 at *
        have hsz : s2.size u = s.size u := by rw [size2, size1]
        have hval : ∀ i, i < s.nv → s2.value i = s.value i := fun i hi => by
          rw [val2 i (by rw [nv1]; exact hi), val1 i hi]
        have T := rrTail_ok i2 (root := root) (rem := rem) (u := u) (by rw [nv2, nv1]; exact hr) (by rw [nv2, nv1]; exact hm)
          (by rw [nv2, nv1]; exact hu) hrm nth hn (by rw [hsz]; exact hz) (s1.ptr root) (s2.ptr rem)
          (Or.inl ⟨e1, hp2.symm, by rw [hsz]; exact Nat.le_trans a1 (ag2 root)⟩)
          (Or.inl ⟨e2, rfl, by rw [hsz]; exact a2⟩)
        rw [hsz, mag_of_value (hval u hu)] at T
        obtain ⟨s', hs', i', n', vr, vm, vo⟩ := T
        exact ⟨s', hs', i', by rw [n', nv2, nv1], vr, vm, fun i hi a b => by rw [vo i (by rw [nv2, nv1]; exact hi) a b, hval i hi]⟩

end Mpir.AliasMem
