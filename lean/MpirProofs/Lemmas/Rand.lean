/- Helper lemmas for C19: the functions built on `_gmp_rand`. -/
import MpirProofs.Lemmas.RandLc
import MpirProofs.Lemmas.RandMt
set_option linter.unusedSimpArgs false
namespace Mpir.Rand
open Mpir

/-! ### limb vectors of a number -/

theorem toLimbs_length (n v : Nat) : (toLimbs n v).length = n := by
  induction n generalizing v with
  | zero => rfl
  | succ n ih => simp [toLimbs, ih]

theorem toLimbs_Limbs (n v : Nat) : Limbs (toLimbs n v) := by
  induction n generalizing v with
  | zero => exact Limbs_nil
  | succ n ih => exact Limbs_cons.mpr ⟨Nat.mod_lt _ B_pos, ih _⟩

theorem val_toLimbs (n v : Nat) : val (toLimbs n v) = v % B ^ n := by
  induction n generalizing v with
  | zero => simp [toLimbs, Nat.mod_one]
  | succ n ih =>
    simp only [toLimbs, val_cons, ih, pow_succ]
    rw [Nat.mul_comm (B ^ n) B, Nat.mod_mul, Nat.add_comm]

theorem val_toLimbs_of_lt {n v : Nat} (h : v < B ^ n) : val (toLimbs n v) = v := by
  rw [val_toLimbs, Nat.mod_eq_of_lt h]

theorem B_pow (n : Nat) : B ^ n = 2 ^ (64 * n) := by unfold B; rw [← pow_mul]

/-- a proper limb vector whose value reaches `B^(n-1)` has a non-zero top limb. -/
theorem getLast_ne_zero {l : List Nat} (hl : Limbs l) (hn : l ≠ []) (hv : B ^ (l.length - 1) ≤ val l) :
    l.getLast hn ≠ 0 := by
  intro h0
  have e := List.dropLast_concat_getLast hn
  have hv2 : val l = val l.dropLast + B ^ l.dropLast.length * l.getLast hn := by
    conv_lhs => rw [← e]
    rw [val_append]; simp
  rw [h0, Nat.mul_zero, Nat.add_zero] at hv2
  have hlim : Limbs l.dropLast := fun x hx => hl x ((List.dropLast_sublist l).subset hx)
  have := val_lt _ hlim
  rw [List.length_dropLast] at this
  omega

/-! ### the generators deliver fewer than `2^n` -/

theorem Gen.get_lt (g : Gen) (hv : g.Valid) (n : Nat) : (g.get n).1 < 2 ^ n := by
  cases g with
  | mt s => exact randgetMt_lt s n
  | lc s => exact randgetLc_lt s n hv

theorem Gen.get_valid (g : Gen) (hv : g.Valid) (n : Nat) : (g.get n).2.Valid := by
  cases g with
  | mt s => trivial
  | lc s =>
    show 2 ≤ (randgetLc s n).2.m2exp
    rw [randgetLc_state s n hv, lcIter_m2exp]; exact hv

/-! ### rejection loops -/

theorem rejectLoop_lt {N size nbits fuel : Nat} {g g' : Gen} {r : Nat}
    (h : rejectLoop N size nbits fuel g = some (r, g')) : r < N := by
  induction fuel generalizing g with
  | zero => simp [rejectLoop] at h
  | succ f ih =>
    simp only [rejectLoop] at h
    split at h
    · next hlt => simp only [Option.some.injEq, Prod.mk.injEq] at h; rw [← h.1]; exact hlt
    · exact ih h

theorem rejectLoop_valid {N size nbits fuel : Nat} {g g' : Gen} {r : Nat} (hv : g.Valid)
    (h : rejectLoop N size nbits fuel g = some (r, g')) : g'.Valid := by
  induction fuel generalizing g with
  | zero => simp [rejectLoop] at h
  | succ f ih =>
    simp only [rejectLoop] at h
    split at h
    · simp only [Option.some.injEq, Prod.mk.injEq] at h; rw [← h.2]; exact Gen.get_valid g hv _
    · exact ih (Gen.get_valid g hv _) h

/-- the capped loop of `gmp_urandomm_ui`: an accepted value is below `n`; otherwise the last draw is
    returned, which is at least `n` and below `2^bits`. -/
theorem urandommUiLoop_spec (n bits : Nat) (k ret : Nat) (g : Gen) (hv : g.Valid) (hret : n ≤ ret ∧ ret < 2 ^ bits ∨ k ≠ 0) :
    let r := urandommUiLoop n bits k ret g
    (r.2.1 = true → r.1 < n) ∧ (r.2.1 = false → n ≤ r.1 ∧ r.1 < 2 ^ bits ∨ k = 0) := by
  induction k generalizing ret g with
  | zero =>
    simp only [urandommUiLoop]
    exact ⟨by simp, fun _ => Or.inr trivial⟩
  | succ k ih =>
    simp only [urandommUiLoop]
    split
    · next hlt => exact ⟨fun _ => hlt, by simp⟩
    · next hge =>
      have hb : (g.get bits).1 % 2 ^ 64 < 2 ^ bits :=
        Nat.lt_of_le_of_lt (Nat.mod_le _ _) (Gen.get_lt g hv bits)
      have := ih ((g.get bits).1 % 2 ^ 64) (g.get bits).2 (Gen.get_valid g hv bits) (Or.inl ⟨by omega, hb⟩)
      refine ⟨this.1, fun h => ?_⟩
      rcases this.2 h with h1 | h1
      · exact Or.inl h1
      · subst h1
        simp only [urandommUiLoop]
        exact Or.inl ⟨by omega, hb⟩

theorem log2_bits (n : Nat) (hn : 0 < n) (h64 : n < 2 ^ 64) :
    64 - clz n - boolToNat (pow2P n) ≤ n.log2 + 1 ∧ 2 ^ (n.log2 + 1) ≤ 2 * n := by
  have h1 : n.log2 < 64 := (Nat.log2_lt (by omega)).mpr h64
  have h2 : 2 ^ n.log2 ≤ n := Nat.log2_self_le (by omega)
  constructor
  · unfold clz; omega
  · rw [pow_succ]; omega

/-! ### `mpn_randomb` -/

theorem topLoop_spec {lo n fuel top : Nat} {g g' : Gen} {v : Nat} (htop : top < 2 ^ 64)
    (h : topLoop lo n fuel top g = some (v, g')) : ∃ t, t ≠ 0 ∧ t < 2 ^ 64 ∧ v = lo + t * 2 ^ (64 * (n - 1)) := by
  induction fuel generalizing top g with
  | zero => simp [topLoop] at h
  | succ f ih =>
    simp only [topLoop] at h
    split at h
    · next hne =>
      simp only [Option.some.injEq, Prod.mk.injEq] at h
      exact ⟨top, hne, htop, h.1.symm⟩
    · exact ih (Nat.mod_lt _ (by positivity)) h

/-! ### `mpf_urandomb` -/

theorem normalize_Limbs {l : List Nat} (h : Limbs l) : Limbs (normalize l) := by
  intro x hx
  unfold normalize at hx
  rw [List.mem_reverse] at hx
  exact h x (List.mem_reverse.mp ((List.dropWhile_sublist _).subset hx))

theorem normalize_length_le (l : List Nat) : (normalize l).length ≤ l.length := by
  unfold normalize
  rw [List.length_reverse]
  have := (List.dropWhile_sublist (fun x => x == 0) (l := l.reverse)).length_le
  rwa [List.length_reverse] at this

theorem mpfStrip_range (l : List Nat) (hl : Limbs l) :
    (mpfStrip l).2 ≤ 0 ∧ val (mpfStrip l).1 < B ^ (mpfStrip l).1.length ∧ Limbs (mpfStrip l).1 := by
  simp only [mpfStrip]
  exact ⟨by omega, val_lt _ (normalize_Limbs hl), normalize_Limbs hl⟩

theorem mpfFinish_range (l : List Nat) (hl : Limbs l) :
    (mpfFinish l).exp ≤ 0 ∧ val (mpfFinish l).d < B ^ (mpfFinish l).size ∧ (mpfFinish l).d.length = (mpfFinish l).size ∧
    Limbs (mpfFinish l).d ∧ ((mpfFinish l).size = 0 → (mpfFinish l).exp = 0) := by
  obtain ⟨h1, h2, h3⟩ := mpfStrip_range l hl
  refine ⟨?_, h2, rfl, h3, fun h => if_pos h⟩
  show (if _ then (0 : Int) else _) ≤ 0
  split
  · exact le_refl 0
  · exact h1

end Mpir.Rand
