/- mpn_gcd_subdiv_step, gcd_2 and the n ≤ 2 endgame of mpn_gcd (value-level models) against gcd. -/
import MpirProofs.Lemmas.GcdLehmer
namespace Mpir.Gcd
open Mpir

/-- what one mpn_gcd_subdiv_step guarantees w.r.t. G = gcd of the pair and S = its sum -/
def SubdivOk (G S : Nat) (r : Subdiv) : Prop :=
  (∀ g d, r.fin = some (g, d) → g = G) ∧
  (r.fin = none → 0 < r.a ∧ 0 < r.b ∧ Nat.gcd r.a r.b = G ∧ r.a + r.b < S ∧ r.n = nlimbs (max r.a r.b))

theorem subdivDivide_spec (la lb : Nat) (sw : Bool) (q1 : List (Nat × Bool)) (a b : Nat)
    (h0a : 0 < la) (h0b : 0 < lb) (hne : la ≠ lb) :
    SubdivOk (Nat.gcd la lb) (la + lb) (subdivDivide la lb sw q1 a b) := by
  -- reduce to lo < hi
  have key : ∀ (lo hi : Nat) (s : Bool), 0 < lo → lo < hi → Nat.gcd lo hi = Nat.gcd la lb → lo + hi = la + lb →
      SubdivOk (Nat.gcd la lb) (la + lb)
        (if hi % lo = 0 then ⟨q1, some (lo, if s then 1 else 0), a, b, 0⟩
         else if s then ⟨q1 ++ [(hi / lo, s)], none, hi % lo, lo, nlimbs lo⟩
         else ⟨q1 ++ [(hi / lo, s)], none, lo, hi % lo, nlimbs lo⟩) := by
    intro lo hi s hlo hlt hg hs
    have hrlt : hi % lo < lo := Nat.mod_lt _ hlo
    have hgr : Nat.gcd (hi % lo) lo = Nat.gcd la lb := by rw [← hg, Nat.gcd_rec lo hi]
    by_cases hr : hi % lo = 0
    · rw [if_pos hr]
      refine ⟨fun g d h => ?_, fun h => by simp at h⟩
      simp only [Option.some.injEq, Prod.mk.injEq] at h
      rw [← h.1, ← hgr, hr, Nat.gcd_zero_left]
    · rw [if_neg hr]
      have hrpos : 0 < hi % lo := Nat.pos_of_ne_zero hr
      have hmax1 : max (hi % lo) lo = lo := Nat.max_eq_right (le_of_lt hrlt)
      have hmax2 : max lo (hi % lo) = lo := Nat.max_eq_left (le_of_lt hrlt)
      cases s
      · simp only [Bool.false_eq_true, if_false]
        refine ⟨fun g d h => by simp at h, fun _ => ⟨hlo, hrpos, ?_, by show lo + hi % lo < la + lb; omega, by show nlimbs lo = nlimbs (max lo (hi % lo)); rw [hmax2]⟩⟩
        rw [Nat.gcd_comm]; exact hgr
      · simp only [if_true]
        exact ⟨fun g d h => by simp at h, fun _ => ⟨hrpos, hlo, hgr, by show hi % lo + lo < la + lb; omega, by show nlimbs lo = nlimbs (max (hi % lo) lo); rw [hmax1]⟩⟩
  unfold subdivDivide
  dsimp only
  by_cases h : la > lb
  · simp only [if_pos h]
    exact key lb la (!sw) h0b h (Nat.gcd_comm _ _) (Nat.add_comm _ _)
  · simp only [if_neg h]
    exact key la lb sw h0a (by omega) rfl rfl

theorem subdivOrdered_spec (la lb : Nat) (sw : Bool) (a b : Nat) (h0a : 0 < la) (hlt : la < lb) :
    SubdivOk (Nat.gcd la lb) (la + lb) (subdivOrdered la lb sw a b) := by
  unfold subdivOrdered
  rw [if_neg (by omega)]
  dsimp only
  have hg : Nat.gcd la (lb - la) = Nat.gcd la lb := by
    conv_rhs => rw [show lb = (lb - la) + la by omega]
    rw [Nat.gcd_add_self_right]
  by_cases he : la = lb - la
  · rw [if_pos he]
    refine ⟨fun g d h => ?_, fun h => by simp at h⟩
    simp only [Option.some.injEq, Prod.mk.injEq] at h
    rw [← h.1, ← hg, ← he, Nat.gcd_self]
  · rw [if_neg he]
    have := subdivDivide_spec la (lb - la) sw [(1, sw)] a b h0a (by omega) he
    rw [hg] at this
    obtain ⟨t1, t2⟩ := this
    exact ⟨t1, fun h => by obtain ⟨x1, x2, x3, x4, x5⟩ := t2 h; exact ⟨x1, x2, x3, by omega, x5⟩⟩

theorem subdivStep_spec (a b : Nat) (ha : 0 < a) (hb : 0 < b) :
    SubdivOk (Nat.gcd a b) (a + b) (subdivStep a b) := by
  unfold subdivStep
  by_cases hab : a = b
  · rw [if_pos hab]
    refine ⟨fun g d h => ?_, fun h => by simp at h⟩
    simp only [Option.some.injEq, Prod.mk.injEq] at h
    rw [← h.1, ← hab, Nat.gcd_self]
  · rw [if_neg hab]
    by_cases hgt : a > b
    · rw [if_pos hgt]
      have := subdivOrdered_spec b a true a b hb hgt
      rwa [Nat.gcd_comm, Nat.add_comm] at this
    · rw [if_neg hgt]
      exact subdivOrdered_spec a b false a b ha (by omega)

/-! ### gcd_2 -/

/-- trailing zeros are decided by the low limb when it is non-zero -/
theorem ctz_low (d : Nat) (h : d % B ≠ 0) : ctz (d % B) = ctz d := by
  have hB : B = 2 ^ 64 := rfl
  have h0 : 0 < d % B := Nat.pos_of_ne_zero h
  obtain ⟨h1, hodd⟩ := ctz_spec (d % B) h0
  have hc : ctz (d % B) < 64 := ctz_lt_of_lt_pow _ 64 h0 (by rw [← hB]; exact Nat.mod_lt _ B_pos)
  symm
  apply ctz_unique d (ctz (d % B)) ((d % B) / 2 ^ ctz (d % B) + 2 ^ (64 - ctz (d % B)) * (d / B))
  · obtain ⟨j, hj⟩ : ∃ j, 64 - ctz (d % B) = j + 1 := ⟨63 - ctz (d % B), by omega⟩
    rw [hj, pow_succ, Nat.mul_assoc, Nat.mul_comm (2 ^ j), Nat.mul_assoc]
    omega
  · rw [Nat.mul_add, ← h1, ← Nat.mul_assoc, ← Nat.pow_add]
    have : ctz (d % B) + (64 - ctz (d % B)) = 64 := by omega
    rw [this, ← hB]
    exact (Nat.mod_add_div d B).symm

theorem sub_mod_ne_zero (u v : Nat) (hle : v ≤ u) (h : u % B ≠ v % B) : (u - v) % B ≠ 0 := by
  intro h0
  apply h
  have : B ∣ u - v := Nat.dvd_of_mod_eq_zero h0
  exact ((Nat.modEq_iff_dvd' hle).mpr this).symm

/-- subtract-and-strip step on odd numbers -/
theorem odd_sub_strip (u v : Nat) (hu : u % 2 = 1) (hv : v % 2 = 1) (hlt : v < u) :
    ((u - v) >>> ctz (u - v)) % 2 = 1 ∧ Nat.gcd ((u - v) >>> ctz (u - v)) v = Nat.gcd u v ∧
    (u - v) >>> ctz (u - v) < u ∧ 0 < (u - v) >>> ctz (u - v) := by
  have h0 : 0 < u - v := by omega
  have hodd := ctz_odd (u - v) h0
  have hmul := ctz_mul (u - v) h0
  refine ⟨hodd, ?_, ?_, odd_pos hodd⟩
  · have : Nat.gcd (u - v) v = Nat.gcd u v := by
      conv_rhs => rw [show u = (u - v) + v by omega]
      rw [Nat.gcd_add_self_left]
    rw [← this]
    conv_rhs => rw [← hmul]
    exact (gcd_two_pow_odd _ _ _ hv).symm
  · exact lt_of_le_of_lt (Nat.shiftRight_le _ _) (by omega)

theorem gcd2Loop_spec : ∀ (f u v : Nat), u % 2 = 1 → v % 2 = 1 → u + v ≤ f →
    (gcd2Loop f u v).1 % 2 = 1 ∧ (gcd2Loop f u v).2 % 2 = 1 ∧
    Nat.gcd (gcd2Loop f u v).1 (gcd2Loop f u v).2 = Nat.gcd u v ∧
    (gcd2Loop f u v).1 ≤ u ∧ (gcd2Loop f u v).2 ≤ v ∧
    ((gcd2Loop f u v).1 / B = (gcd2Loop f u v).2 / B ∨ (gcd2Loop f u v).1 % B = (gcd2Loop f u v).2 % B)
  | 0, u, v, hu, hv, hf => by omega
  | f + 1, u, v, hu, hv, hf => by
    unfold gcd2Loop
    by_cases hc : u / B ≠ v / B ∧ u % B ≠ v % B
    · rw [if_pos hc]
      by_cases hgt : u / B > v / B
      · rw [if_pos hgt]
        dsimp only
        have hlt : v < u := Nat.lt_of_div_lt_div hgt
        rw [ctz_low _ (sub_mod_ne_zero u v (le_of_lt hlt) hc.2)]
        obtain ⟨o1, o2, o3, o4⟩ := odd_sub_strip u v hu hv hlt
        obtain ⟨i1, i2, i3, i4, i5, i6⟩ := gcd2Loop_spec f _ v o1 hv (by omega)
        exact ⟨i1, i2, by rw [i3, o2], by omega, i5, i6⟩
      · rw [if_neg hgt]
        dsimp only
        have hlt : u < v := Nat.lt_of_div_lt_div (by omega : u / B < v / B)
        rw [ctz_low _ (sub_mod_ne_zero v u (le_of_lt hlt) (fun h => hc.2 h.symm))]
        obtain ⟨o1, o2, o3, o4⟩ := odd_sub_strip v u hv hu hlt
        obtain ⟨i1, i2, i3, i4, i5, i6⟩ := gcd2Loop_spec f u _ hu o1 (by omega)
        exact ⟨i1, i2, by rw [i3, Nat.gcd_comm, o2, Nat.gcd_comm], i4, by omega, i6⟩
    · rw [if_neg hc]
      refine ⟨hu, hv, rfl, le_refl _, le_refl _, ?_⟩
      by_contra hcon
      apply hc
      constructor
      · intro h; exact hcon (Or.inl h)
      · intro h; exact hcon (Or.inr h)

theorem gcd_sub_right (x y : Nat) (h : y ≤ x) : Nat.gcd x (x - y) = Nat.gcd x y :=
  Nat.gcd_self_sub_right h

theorem gcd_sub_left (x y : Nat) (h : x ≤ y) : Nat.gcd x (y - x) = Nat.gcd x y :=
  Nat.gcd_sub_self_right h

theorem gcd_2_spec (u v : Nat) (hu : u % 2 = 1) (hv : v % 2 = 1) (huB : u < B * B) (hvB : v < B * B) :
    gcd_2 u v = Nat.gcd u v := by
  have hB : B = 2 ^ 64 := rfl
  obtain ⟨i1, i2, i3, i4, i5, i6⟩ := gcd2Loop_spec (u + v) u v hu hv (le_refl _)
  unfold gcd_2
  generalize gcd2Loop (u + v) u v = p at *
  obtain ⟨u', v'⟩ := p
  simp only at i1 i2 i3 i4 i5 i6 ⊢
  by_cases he : u' = v'
  · rw [if_pos he, ← i3, ← he, Nat.gcd_self]
  rw [if_neg he, ← i3]
  have hu'B : u' < B * B := lt_of_le_of_lt i4 huB
  have hv'B : v' < B * B := lt_of_le_of_lt i5 hvB
  have hu'pos : 0 < u' := odd_pos i1
  have hu1 : u' / B < B := Nat.div_lt_of_lt_mul hu'B
  have hv1 : v' / B < B := Nat.div_lt_of_lt_mul hv'B
  have hu0 : u' % B < B := Nat.mod_lt _ B_pos
  have hv0 : v' % B < B := Nat.mod_lt _ B_pos
  have eu := Nat.mod_add_div u' B
  have ev := Nat.mod_add_div v' B
  -- the limb list of u'
  have hlist : Limbs (if u' / B ≠ 0 then [u' % B, u' / B] else [u' % B]) ∧
      val (if u' / B ≠ 0 then [u' % B, u' / B] else [u' % B]) = u' := by
    split
    · refine ⟨Limbs_cons.mpr ⟨hu0, Limbs_cons.mpr ⟨hu1, Limbs_nil⟩⟩, ?_⟩
      simp only [val_cons, val_nil]; omega
    · rename_i h
      have : u' / B = 0 := by omega
      refine ⟨Limbs_cons.mpr ⟨hu0, Limbs_nil⟩, ?_⟩
      simp only [val_cons, val_nil]
      rw [this] at eu; omega
  -- the single limb w and its relation to v'
  have hw : ∀ w, 0 < w → w < B → Nat.gcd u' w = Nat.gcd u' v' →
      gcd_1 (if u' / B ≠ 0 then [u' % B, u' / B] else [u' % B]) w = Nat.gcd u' v' := by
    intro w hw0 hwB hg
    have := gcd_1_correct _ w hlist.1 (by rw [hlist.2]; omega) hw0 hwB
    rw [this, hlist.2, hg]
  by_cases h0 : u' % B = v' % B
  · rw [if_pos h0]
    have h1 : u' / B ≠ v' / B := by
      intro h; apply he; rw [← eu, ← ev, h0, h]
    by_cases hgt : u' / B > v' / B
    · rw [if_pos hgt]
      have hle : v' ≤ u' := by
        rw [← eu, ← ev, h0]; exact Nat.add_le_add_left (Nat.mul_le_mul_left _ (le_of_lt hgt)) _
      have : u' - v' = 2 ^ 64 * (u' / B - v' / B) := by
        rw [← hB, Nat.mul_sub]; omega
      apply hw _ (Nat.sub_pos_of_lt hgt) (lt_of_le_of_lt (Nat.sub_le _ _) hu1)
      rw [← gcd_sub_right u' v' hle, this, Nat.gcd_comm, Nat.gcd_comm u', gcd_two_pow_odd _ _ _ i1]
    · rw [if_neg hgt]
      have hlt : u' / B < v' / B := by omega
      have hle : u' ≤ v' := by
        rw [← eu, ← ev, h0]; exact Nat.add_le_add_left (Nat.mul_le_mul_left _ (le_of_lt hlt)) _
      have : v' - u' = 2 ^ 64 * (v' / B - u' / B) := by
        rw [← hB, Nat.mul_sub]; omega
      apply hw _ (Nat.sub_pos_of_lt hlt) (lt_of_le_of_lt (Nat.sub_le _ _) hv1)
      rw [← gcd_sub_left u' v' hle, this, Nat.gcd_comm, Nat.gcd_comm u', gcd_two_pow_odd _ _ _ i1]
  · rw [if_neg h0]
    have h1 : u' / B = v' / B := by
      rcases i6 with h | h
      · exact h
      · exact absurd h h0
    have e1 : u' = u' % B + B * (v' / B) := by rw [← h1]; exact eu.symm
    by_cases hgt : u' % B > v' % B
    · rw [if_pos hgt]
      have hle : v' ≤ u' := by omega
      have : u' - v' = u' % B - v' % B := by omega
      apply hw _ (by omega) (by omega)
      rw [← this, gcd_sub_right u' v' hle]
    · rw [if_neg hgt]
      have hle : u' ≤ v' := by omega
      have : v' - u' = v' % B - u' % B := by omega
      apply hw _ (by omega) (by omega)
      rw [← this, gcd_sub_left u' v' hle]

/-! ### the Lehmer loop of mpn_gcd -/

/-- loop invariant: both operands positive, within n limbs, and at least one of them uses the top limb
    (the C's `ASSERT (mask > 0)`) -/
def LInv (a b n : Nat) : Prop :=
  0 < a ∧ 0 < b ∧ a < B ^ n ∧ b < B ^ n ∧ (B ^ (n - 1) ≤ a ∨ B ^ (n - 1) ≤ b) ∧ 1 ≤ n

/-- The contract of mpn_hgcd2 as used by the Lehmer loops: whenever it returns a matrix for the
    (normalised) top two limbs of (a, b), M is unimodular, not the identity, M⁻¹(a; b) is positive
    and loses at most one limb.  (Checked on every call by the correspondence op `mpn_hgcd2`; not proved.) -/
def Hgcd2Contract : Prop :=
  ∀ (a b n : Nat) (m : M1), LInv a b n → 2 ≤ n →
    hgcd2 (top2 a b n).1 (top2 a b n).2.1 (top2 a b n).2.2.1 (top2 a b n).2.2.2 = some m →
    lehmerOk m a b ∧ (m.u01 ≠ 0 ∨ m.u10 ≠ 0) ∧
    0 < m.u11 * a - m.u01 * b ∧ 0 < m.u00 * b - m.u10 * a ∧
    (B ^ (n - 2) ≤ m.u11 * a - m.u01 * b ∨ B ^ (n - 2) ≤ m.u00 * b - m.u10 * a)

def LoopOk (G : Nat) : (Nat × Nat × Nat) ⊕ Nat → Prop
  | .inr g => g = G
  | .inl (a', b', n') => n' ≤ 2 ∧ LInv a' b' n' ∧ Nat.gcd a' b' = G

theorem limbAt_top_zero (x n : Nat) (hn : 1 ≤ n) (hx : x < B ^ n) : limbAt x (n - 1) = 0 ↔ x < B ^ (n - 1) := by
  unfold limbAt
  have hB : B = 2 ^ 64 := rfl
  rw [Nat.shiftRight_eq_div_pow, Nat.pow_mul, ← hB]
  have hlt : x / B ^ (n - 1) < B := by
    apply Nat.div_lt_of_lt_mul
    rw [← pow_succ]
    have : n - 1 + 1 = n := by omega
    rw [this]; exact hx
  rw [Nat.mod_eq_of_lt hlt, Nat.div_eq_zero_iff]
  constructor
  · rintro (h | h)
    · exact absurd h (pow_pos B_pos _).ne'
    · exact h
  · intro h; exact Or.inr h

theorem nlimbs_bounds (x : Nat) (h : 0 < x) : x < B ^ nlimbs x ∧ B ^ (nlimbs x - 1) ≤ x := by
  have h1 := (nlimbs_le_iff x (nlimbs x) (by omega)).mp (le_refl _)
  refine ⟨h1, ?_⟩
  by_contra hc
  have := (nlimbs_le_iff x (nlimbs x - 1) (by omega)).mpr (by omega)
  have := nlimbs_pos h
  omega

theorem gcdLehmerLoop_spec (hh : Hgcd2Contract) : ∀ (f a b n : Nat), LInv a b n → a + b < f →
    LoopOk (Nat.gcd a b) (gcdLehmerLoop f a b n)
  | 0, a, b, n, _, hf => by omega
  | f + 1, a, b, n, hinv, hf => by
    unfold gcdLehmerLoop
    by_cases hn : n > 2
    · rw [if_pos hn]
      have hc := hh a b n
      generalize top2 a b n = t at hc ⊢
      obtain ⟨uh, ul, vh, vl⟩ := t
      simp only at hc ⊢
      cases hm : hgcd2 uh ul vh vl with
      | some m =>
        simp only
        obtain ⟨hl, hne, hpa, hpb, hnorm⟩ := hc m hinv (by omega) hm
        obtain ⟨h0a, h0b, haB, hbB, _, _⟩ := hinv
        obtain ⟨hle1, hle2⟩ := lehmer_step_le m a b hl
        have hdec := lehmer_step_lt m a b hl hne hpa hpb
        have hg := lehmer_step_gcd m a b hl
        generalize m.u11 * a - m.u01 * b = a' at *
        generalize m.u00 * b - m.u10 * a = b' at *
        have ha'B : a' < B ^ n := lt_of_le_of_lt hle1 haB
        have hb'B : b' < B ^ n := lt_of_le_of_lt hle2 hbB
        have hinv' : LInv a' b' (shrinkN a' b' n) := by
          unfold shrinkN
          split
          · rename_i hz
            rw [Nat.or_eq_zero_iff] at hz
            have z1 := (limbAt_top_zero a' n (by omega) ha'B).mp hz.1
            have z2 := (limbAt_top_zero b' n (by omega) hb'B).mp hz.2
            refine ⟨hpa, hpb, z1, z2, ?_, by omega⟩
            have : n - 1 - 1 = n - 2 := by omega
            rw [this]; exact hnorm
          · rename_i hz
            refine ⟨hpa, hpb, ha'B, hb'B, ?_, by omega⟩
            by_contra hcon
            apply hz
            rw [Nat.or_eq_zero_iff]
            constructor
            · exact (limbAt_top_zero a' n (by omega) ha'B).mpr (by omega)
            · exact (limbAt_top_zero b' n (by omega) hb'B).mpr (by omega)
        have ih := gcdLehmerLoop_spec hh f a' b' _ hinv' (by omega)
        rw [hg] at ih
        exact ih
      | none =>
        simp only
        obtain ⟨h0a, h0b, _⟩ := hinv
        obtain ⟨s1, s2⟩ := subdivStep_spec a b h0a h0b
        cases hfin : (subdivStep a b).fin with
        | some gd =>
          obtain ⟨g, d⟩ := gd
          simp only
          exact s1 g d hfin
        | none =>
          simp only
          obtain ⟨x1, x2, x3, x4, x5⟩ := s2 hfin
          have hmax : 0 < max (subdivStep a b).a (subdivStep a b).b := lt_of_lt_of_le x1 (le_max_left _ _)
          obtain ⟨y1, y2⟩ := nlimbs_bounds _ hmax
          have hinv' : LInv (subdivStep a b).a (subdivStep a b).b (subdivStep a b).n := by
            rw [x5]
            refine ⟨x1, x2, lt_of_le_of_lt (le_max_left _ _) y1, lt_of_le_of_lt (le_max_right _ _) y1, ?_, nlimbs_pos hmax⟩
            rcases le_total (subdivStep a b).a (subdivStep a b).b with h | h
            · right; rw [max_eq_right h] at y2 ⊢; exact y2
            · left; rw [max_eq_left h] at y2 ⊢; exact y2
          have ih := gcdLehmerLoop_spec hh f _ _ _ hinv' (by omega)
          rw [x3] at ih
          exact ih
    · rw [if_neg hn]
      exact ⟨by omega, hinv, rfl⟩

theorem gcdEndgame_spec (a b n : Nat) (hinv : LInv a b n) (hn : n ≤ 2) (hodd : Nat.gcd a b % 2 = 1) :
    gcdEndgame a b n = Nat.gcd a b := by
  have hB : B = 2 ^ 64 := rfl
  obtain ⟨h0a, h0b, haB, hbB, _, h1n⟩ := hinv
  unfold gcdEndgame
  by_cases hn1 : n = 1
  · rw [if_pos hn1]
    subst hn1
    rw [pow_one] at haB hbB
    exact gcd_1_single a b h0a haB h0b hbB
  rw [if_neg hn1]
  have hn2 : n = 2 := by omega
  subst hn2
  rw [pow_two] at haB hbB
  dsimp only
  -- not both even
  have hnb : ¬ (a % 2 = 0 ∧ b % 2 = 0) := by
    rintro ⟨ea, eb⟩
    have : 2 ∣ Nat.gcd a b := Nat.dvd_gcd (Nat.dvd_of_mod_eq_zero ea) (Nat.dvd_of_mod_eq_zero eb)
    omega
  -- after the swap: a' odd
  have key : ∀ (a' b' : Nat), a' % 2 = 1 → 0 < b' → a' < B * B → b' < B * B → Nat.gcd a' b' = Nat.gcd a b →
      (if b' % B = 0 then gcd_1 [a' % B, a' / B] (b' / B)
       else gcd_2 a' (if b' % 2 = 0 then b' >>> ctz (b' % B) else b')) = Nat.gcd a b := by
    intro a' b' ha' hb' ha'B hb'B hg
    have ha'pos : 0 < a' := odd_pos ha'
    by_cases hz : b' % B = 0
    · rw [if_pos hz]
      have e := Nat.mod_add_div b' B
      rw [hz, Nat.zero_add] at e
      have hq0 : 0 < b' / B := by
        rcases Nat.eq_zero_or_pos (b' / B) with h | h
        · rw [h] at e; omega
        · exact h
      have hqB : b' / B < B := Nat.div_lt_of_lt_mul hb'B
      have hl : Limbs [a' % B, a' / B] :=
        Limbs_cons.mpr ⟨Nat.mod_lt _ B_pos, Limbs_cons.mpr ⟨Nat.div_lt_of_lt_mul ha'B, Limbs_nil⟩⟩
      have hv : val [a' % B, a' / B] = a' := by
        simp only [val_cons, val_nil]; have := Nat.mod_add_div a' B; omega
      rw [gcd_1_correct _ _ hl (by rw [hv]; omega) hq0 hqB, hv, ← hg]
      calc Nat.gcd a' (b' / B) = Nat.gcd a' (2 ^ 64 * (b' / B)) := by
            rw [Nat.gcd_comm, Nat.gcd_comm a', gcd_two_pow_odd _ _ _ ha']
        _ = Nat.gcd a' b' := by rw [← hB, e]
    · rw [if_neg hz]
      by_cases he : b' % 2 = 0
      · rw [if_pos he, ctz_low b' hz]
        have hodd' := ctz_odd b' hb'
        have hmul := ctz_mul b' hb'
        have hle : b' >>> ctz b' ≤ b' := Nat.shiftRight_le _ _
        rw [gcd_2_spec a' _ ha' hodd' ha'B (lt_of_le_of_lt hle hb'B), ← hg]
        conv_rhs => rw [← hmul, Nat.gcd_comm, gcd_two_pow_odd _ _ _ ha', Nat.gcd_comm]
      · rw [if_neg he]
        rw [gcd_2_spec a' b' ha' (by omega) ha'B hb'B, hg]
  by_cases hae : a % 2 = 0
  · simp only [if_pos hae]
    have hbo : b % 2 = 1 := by
      by_contra h; exact hnb ⟨hae, by omega⟩
    have := key b a hbo h0a hbB haB (Nat.gcd_comm _ _)
    simp only [if_pos hae] at this
    exact this
  · simp only [if_neg hae]
    exact key a b (by omega) h0b haB hbB rfl

theorem gcdLehmer_spec (hh : Hgcd2Contract) (a b n : Nat) (hinv : LInv a b n) (hodd : Nat.gcd a b % 2 = 1) :
    gcdLehmer a b n = Nat.gcd a b := by
  unfold gcdLehmer
  have h := gcdLehmerLoop_spec hh (a + b + 1) a b n hinv (by omega)
  cases hr : gcdLehmerLoop (a + b + 1) a b n with
  | inr g =>
    rw [hr] at h
    exact h
  | inl t =>
    obtain ⟨a', b', n'⟩ := t
    rw [hr] at h
    obtain ⟨h1, h2, h3⟩ := h
    simp only
    rw [gcdEndgame_spec a' b' n' h2 h1 (by rw [h3]; exact hodd), h3]

theorem odd_of_dvd_odd {g v : Nat} (h : g ∣ v) (hv : v % 2 = 1) : g % 2 = 1 := by
  obtain ⟨k, rfl⟩ := h
  by_contra hc
  have : g % 2 = 0 := by omega
  have : (g * k) % 2 = 0 := by rw [Nat.mul_mod, this]; simp
  omega

/-- mpn_gcd (value-level Lehmer model) computes the gcd on every call satisfying the C's ASSERTs,
    given the contract of hgcd2. -/
theorem mpn_gcd_of_hgcd2 (hh : Hgcd2Contract) : MpnGcdContract := by
  intro U V hV0 hVodd hle
  have hnV := nlimbs_bounds V hV0
  have hodd : Nat.gcd U V % 2 = 1 := odd_of_dvd_odd (Nat.gcd_dvd_right U V) hVodd
  unfold mpn_gcd
  by_cases hgt : nlimbs U > nlimbs V
  · rw [if_pos hgt]
    dsimp only
    have hg : Nat.gcd (U % V) V = Nat.gcd U V := by rw [Nat.gcd_comm U V, Nat.gcd_rec V U]
    by_cases hz : U % V = 0
    · rw [if_pos hz, ← hg, hz, Nat.gcd_zero_left]
    · rw [if_neg hz]
      have hlt : U % V < V := Nat.mod_lt _ hV0
      have hinv : LInv (U % V) V (nlimbs V) :=
        ⟨Nat.pos_of_ne_zero hz, hV0, lt_trans hlt hnV.1, hnV.1, Or.inr hnV.2, nlimbs_pos hV0⟩
      rw [gcdLehmer_spec hh _ _ _ hinv (by rw [hg]; exact hodd), hg]
  · rw [if_neg hgt]
    have hn : nlimbs U = nlimbs V := by omega
    have hU0 : 0 < U := by
      rcases Nat.eq_zero_or_pos U with h | h
      · rw [h, nlimbs_zero] at hn; have := nlimbs_pos hV0; omega
      · exact h
    have hnU := nlimbs_bounds U hU0
    rw [hn] at hnU
    have hinv : LInv U V (nlimbs V) := ⟨hU0, hV0, hnU.1, hnV.1, Or.inr hnV.2, nlimbs_pos hV0⟩
    exact gcdLehmer_spec hh _ _ _ hinv hodd

end Mpir.Gcd
