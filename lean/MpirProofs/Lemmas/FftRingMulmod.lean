/- FFT ring layer: mpn_mulmod_2expp1_basecase (the pointwise products of the FFT), whole-limb case b = 64·n. -/
import MpirProofs.Lemmas.FftRingBfly
import MpirProofs.Lemmas.FftRingSplit
namespace Mpir.Fft
open Mpir

theorem toLimbs_spec : ∀ (n v : Nat), val (toLimbs n v) = v % B ^ n ∧ (toLimbs n v).length = n ∧ Limbs (toLimbs n v)
  | 0, v => by simp [toLimbs, Nat.mod_one, Limbs_nil]
  | n + 1, v => by
    obtain ⟨h1, h2, h3⟩ := toLimbs_spec n (v / B)
    refine ⟨?_, by simp [toLimbs, h2], ?_⟩
    · simp only [toLimbs, val_cons, h1, pow_succ]
      rw [mul_comm (B ^ n) B, Nat.mod_mul]
    · simp only [toLimbs]; exact Limbs_cons.mpr ⟨Nat.mod_lt _ B_pos, h3⟩

theorem and_mask64 (a : Nat) (ha : a < B) : a &&& (2 ^ 64 - 1) = a := by
  rw [Nat.and_two_pow_sub_one_eq_mod]; exact Nat.mod_eq_of_lt ha

theorem setAt_self (x : List Nat) (i : Nat) (hi : i < x.length) : setAt x i (x.getD i 0) = x := by
  unfold setAt
  rw [List.getD_eq_getElem?_getD, List.getElem?_eq_getElem hi]
  simp only [Option.getD_some, List.append_assoc, List.singleton_append]
  rw [← List.drop_eq_getElem_cons hi, List.take_append_drop]

theorem Limbs_getD (x : List Nat) (hx : Limbs x) (i : Nat) : x.getD i 0 < B := by
  rw [List.getD_eq_getElem?_getD]
  by_cases h : i < x.length
  · rw [List.getElem?_eq_getElem h]; exact hx _ (List.getElem_mem h)
  · rw [List.getElem?_eq_none (by omega)]; exact B_pos

/-- `x[n-1] &= GMP_NUMB_MASK >> 0` does nothing -/
theorem mask_noop (x : List Nat) (hx : Limbs x) (n : Nat) (hn : 1 ≤ n) (hl : x.length = n) :
    setAt x (n - 1) (x.getD (n - 1) 0 &&& (2 ^ (64 - 0) - 1)) = x := by
  rw [Nat.sub_zero, and_mask64 _ (Limbs_getD x hx _)]
  exact setAt_self x _ (by omega)

/-- subtract-then-add-back (mulmod_2expp1_basecase.c:103-105): lo − hi modulo B^n + 1, fully reduced -/
theorem sub_fold (lo hi : List Nat) (hlo : Limbs lo) (hhi : Limbs hi) (hl : lo.length = hi.length) (hn : 1 ≤ lo.length) :
    let xc := sub_n lo hi
    let r := add_1 xc.1 xc.2
    r.1.length = lo.length ∧ Limbs r.1 ∧ r.2 ≤ 1 ∧ val r.1 + B ^ lo.length * r.2 ≤ B ^ lo.length ∧
    ∃ q : Int, (val r.1 : Int) + (B : Int) ^ lo.length * r.2 = (val lo : Int) - val hi + q * ((B : Int) ^ lo.length + 1) := by
  intro xc r
  obtain ⟨sv, sc, sL, sn⟩ := subNC_val lo hi 0 hlo hhi hl (by omega)
  have hxc : xc = subNC lo hi 0 := rfl
  rw [← hxc] at sv sc sL sn
  have hc : xc.2 < B := by have := B_eq; omega
  obtain ⟨av, ac, aL, an⟩ := add_1_spec xc.1 xc.2 sL (by omega) hc
  have hr : r = add_1 xc.1 xc.2 := rfl
  rw [← hr, sn] at av an
  have hlov := val_lt lo hlo
  have hhiv := val_lt hi hhi
  rw [← hl] at hhiv
  have ac' : r.2 ≤ 1 := ac
  have hxv := val_lt xc.1 sL
  rw [sn] at hxv
  have hrv := val_lt r.1 aL
  rw [an] at hrv
  refine ⟨an, aL, ac, ?_, xc.2, ?_⟩
  · generalize B ^ lo.length = P at *
    have hcc : xc.2 = 0 ∨ xc.2 = 1 := by omega
    rcases hcc with h0 | h1
    · rw [h0] at sv av
      have : r.2 = 0 ∨ r.2 = 1 := by omega
      rcases this with g | g <;> rw [g] at av ⊢ <;> simp only [Nat.mul_zero, Nat.mul_one, Nat.add_zero] at * <;> omega
    · rw [h1] at sv av
      have : r.2 = 0 ∨ r.2 = 1 := by omega
      rcases this with g | g <;> rw [g] at av ⊢ <;> simp only [Nat.mul_zero, Nat.mul_one, Nat.add_zero] at * <;> omega
  · have sv' := congrArg (fun z : Nat => (z : Int)) sv
    have av' := congrArg (fun z : Nat => (z : Int)) av
    push_cast at sv' av'
    linear_combination av' + sv'

theorem size_facts (n : Nat) : (64 * n + 63) / 64 = n ∧ 64 * ((64 * n + 63) / 64) - 64 * n = 0 := by
  constructor <;> omega

/-- mpn_mulmod_2expp1_internal, b = 64·n, non-FFT path (mulmod_2expp1_basecase.c:96-105) -/
theorem internal_spec (yp zp : List Nat) (n : Nat) (hn : 1 ≤ n) (hy : Limbs yp) (hz : Limbs zp)
    (hly : yp.length = n) (hlz : zp.length = n) :
    (mulmod_2expp1_internal yp zp (64 * n)).1.length = n ∧ Limbs (mulmod_2expp1_internal yp zp (64 * n)).1 ∧
    (mulmod_2expp1_internal yp zp (64 * n)).2 ≤ 1 ∧
    val (mulmod_2expp1_internal yp zp (64 * n)).1 + B ^ n * (mulmod_2expp1_internal yp zp (64 * n)).2 ≤ B ^ n ∧
    ∃ q : Int, (val (mulmod_2expp1_internal yp zp (64 * n)).1 : Int) +
      (B : Int) ^ n * (mulmod_2expp1_internal yp zp (64 * n)).2 = (val yp : Int) * val zp + q * ((B : Int) ^ n + 1) := by
  obtain ⟨s1, s2⟩ := size_facts n
  obtain ⟨tv, tl, tL⟩ := toLimbs_spec (2 * n) (val yp * val zp)
  have hyv := val_lt yp hy; rw [hly] at hyv
  have hzv := val_lt zp hz; rw [hlz] at hzv
  have hP : val yp * val zp < B ^ (2 * n) := by
    rw [two_mul, pow_add]; exact Nat.mul_lt_mul'' hyv hzv
  rw [Nat.mod_eq_of_lt hP] at tv
  set tp := toLimbs (2 * n) (val yp * val zp) with htp
  have hlo : (tp.take n).length = n := by simp [tl]; omega
  have hhi : (tp.drop n).length = n := by simp [tl]; omega
  have e : mulmod_2expp1_internal yp zp (64 * n) =
      add_1 (sub_n (tp.take n) (tp.drop n)).1 (sub_n (tp.take n) (tp.drop n)).2 := by
    unfold mulmod_2expp1_internal
    simp only [s1, Nat.sub_self, ↓reduceIte]
    rfl
  rw [e]
  obtain ⟨f1, f2, f3, f4, q, fq⟩ := sub_fold (tp.take n) (tp.drop n) (Limbs_take tL _) (Limbs_drop tL _)
    (by rw [hlo, hhi]) (by omega)
  rw [hlo] at f1 f4 fq
  refine ⟨f1, f2, f3, f4, q - val (tp.drop n), ?_⟩
  have hsplit := val_take_drop tp n (by omega)
  rw [tv] at hsplit
  have hs' := congrArg (fun z : Nat => (z : Int)) hsplit
  push_cast at hs'
  rw [fq]; linear_combination -hs'

/-- the negation branch (:182-184, :191-193) for b = 64·n: −u modulo B^n + 1, fully reduced -/
theorem negfold_spec (u : List Nat) (n : Nat) (hn : 1 ≤ n) (hu : Limbs u) (hl : u.length = n) :
    let xc := neg_n u
    let r := add_1 xc.1 xc.2
    r.1.length = n ∧ Limbs r.1 ∧ r.2 ≤ 1 ∧ val r.1 + B ^ n * r.2 ≤ B ^ n ∧
    ∃ q : Int, (val r.1 : Int) + (B : Int) ^ n * r.2 = -(val u : Int) + q * ((B : Int) ^ n + 1) := by
  intro xc r
  obtain ⟨nv, ncase, nL, nn⟩ := negNC_zero_val u hu
  have hxc : xc = negNC u 0 := rfl
  rw [← hxc, hl] at nv nn
  rw [← hxc] at ncase nL
  have hc1 : xc.2 ≤ 1 := by rcases ncase with ⟨h, _⟩ | ⟨h, _⟩ <;> omega
  obtain ⟨av, ac, aL, an⟩ := add_1_spec xc.1 xc.2 nL (by omega) (by have := B_eq; omega)
  have hr : r = add_1 xc.1 xc.2 := rfl
  rw [← hr, nn] at av an
  have ac' : r.2 ≤ 1 := ac
  have hrv := val_lt r.1 aL
  rw [an] at hrv
  refine ⟨an, aL, ac, ?_, xc.2, ?_⟩
  · generalize B ^ n = P at *
    rcases ncase with ⟨h0, hu0⟩ | ⟨h1, hu1⟩
    · rw [h0] at nv av
      have : r.2 = 0 ∨ r.2 = 1 := by omega
      rcases this with g | g <;> rw [g] at av ⊢ <;> simp only [Nat.mul_zero, Nat.mul_one, Nat.add_zero] at * <;> omega
    · rw [h1] at nv av
      have : r.2 = 0 ∨ r.2 = 1 := by omega
      rcases this with g | g <;> rw [g] at av ⊢ <;> simp only [Nat.mul_zero, Nat.mul_one, Nat.add_zero] at * <;> omega
  · have nv' := congrArg (fun z : Nat => (z : Int)) nv
    have av' := congrArg (fun z : Nat => (z : Int)) av
    push_cast at nv' av'
    linear_combination av' + nv'

/-- the operand a flag stands for: 2^b when the flag bit is set (then the limbs are zero) -/
def flagged (flag : Nat) (n : Nat) (u : List Nat) : Int := if flag = 1 then (B : Int) ^ n else (val u : Int)

theorem basecase_unfold (yp zp : List Nat) (c n : Nat) :
    mulmod_2expp1_basecase yp zp c (64 * n) =
      if c / 2 % 2 = 0 then
        if c % 2 = 0 then mulmod_2expp1_internal yp zp (64 * n)
        else (setAt (add_1 (neg_n yp).1 (neg_n yp).2).1 (n - 1)
               ((add_1 (neg_n yp).1 (neg_n yp).2).1.getD (n - 1) 0 &&& (2 ^ (64 - 0) - 1)),
              (add_1 (neg_n yp).1 (neg_n yp).2).2)
      else
        if c % 2 = 0 then
          (setAt (add_1 (neg_n zp).1 (neg_n zp).2).1 (n - 1)
             ((add_1 (neg_n zp).1 (neg_n zp).2).1.getD (n - 1) 0 &&& (2 ^ (64 - 0) - 1)),
            (add_1 (neg_n zp).1 (neg_n zp).2).2)
        else (1 :: List.replicate (n - 1) 0, 0) := by
  obtain ⟨s1, s2⟩ := size_facts n
  unfold mulmod_2expp1_basecase
  simp only [s1, Nat.sub_self]

/-- mpn_mulmod_2expp1_basecase for b = 64·n on its non-FFT path: the product modulo B^n + 1, fully reduced,
    for operands given as n limbs plus a flag bit saying "this operand is 2^b" -/
theorem basecase_spec (yp zp : List Nat) (c n : Nat) (hn : 1 ≤ n) (hy : Limbs yp) (hz : Limbs zp)
    (hly : yp.length = n) (hlz : zp.length = n) :
    (mulmod_2expp1_basecase yp zp c (64 * n)).1.length = n ∧ Limbs (mulmod_2expp1_basecase yp zp c (64 * n)).1 ∧
    (mulmod_2expp1_basecase yp zp c (64 * n)).2 ≤ 1 ∧
    val (mulmod_2expp1_basecase yp zp c (64 * n)).1 + B ^ n * (mulmod_2expp1_basecase yp zp c (64 * n)).2 ≤ B ^ n ∧
    ((val (mulmod_2expp1_basecase yp zp c (64 * n)).1 : Int) +
      (B : Int) ^ n * (mulmod_2expp1_basecase yp zp c (64 * n)).2 ≡
        flagged (c / 2 % 2) n yp * flagged (c % 2) n zp [ZMOD pmod n]) := by
  rw [basecase_unfold]
  have hy2 : c / 2 % 2 = 0 ∨ c / 2 % 2 = 1 := by omega
  have hz2 : c % 2 = 0 ∨ c % 2 = 1 := by omega
  have fl0 : ∀ u, flagged 0 n u = (val u : Int) := fun u => by simp [flagged]
  have fl1 : ∀ u, flagged 1 n u = (B : Int) ^ n := fun u => by simp [flagged]
  rcases hy2 with cy | cy <;> rcases hz2 with cz | cz <;>
    simp only [cy, cz, ↓reduceIte, one_ne_zero, fl0, fl1]
  · obtain ⟨i1, i2, i3, i4, q, iq⟩ := internal_spec yp zp n hn hy hz hly hlz
    exact ⟨i1, i2, i3, i4, by rw [modEq_pmod_iff]; exact ⟨q, by rw [iq]; ring⟩⟩
  · obtain ⟨f1, f2, f3, f4, q, fq⟩ := negfold_spec yp n hn hy hly
    rw [mask_noop _ f2 n hn f1]
    refine ⟨f1, f2, f3, f4, ?_⟩
    rw [modEq_pmod_iff]; exact ⟨q - val yp, by rw [fq]; ring⟩
  · obtain ⟨f1, f2, f3, f4, q, fq⟩ := negfold_spec zp n hn hz hlz
    rw [mask_noop _ f2 n hn f1]
    refine ⟨f1, f2, f3, f4, ?_⟩
    rw [modEq_pmod_iff]; exact ⟨q - val zp, by rw [fq]; ring⟩
  · have hv : val (1 :: List.replicate (n - 1) 0) = 1 := by simp [val_replicate_zero]
    have hL : Limbs (1 :: List.replicate (n - 1) 0) :=
      Limbs_cons.mpr ⟨by rw [B_eq]; norm_num, Limbs_replicate_zero _⟩
    refine ⟨by simp; omega, hL, by omega, ?_, ?_⟩
    · rw [hv]; simp only [Nat.mul_zero, Nat.add_zero]; exact Nat.one_le_pow _ _ B_pos
    · rw [hv, modEq_pmod_iff]; exact ⟨-((B : Int) ^ n - 1), by push_cast; ring⟩

/-! ### mpn_mulmod_Bexpp1 (limbs ≤ FFT_MULMOD_2EXPP1_CUTOFF): the product of two normalised residues -/

theorem canonical_val (xs : List Nat) (t : Nat) (hx : Limbs (xs ++ [t])) (hc : Canonical (xs ++ [t])) :
    t ≤ 1 ∧ rval (xs ++ [t]) = (val xs : Int) + (B : Int) ^ xs.length * t ∧ (t = 1 → val xs = 0) := by
  rcases hc with h | ⟨h, h0⟩
  · simp only [top_snoc] at h; subst h
    exact ⟨by omega, by rw [rval_snoc]; simp, by omega⟩
  · simp only [top_snoc, lo_snoc] at h h0; subst h
    exact ⟨by omega, by rw [rval_snoc]; simp, fun _ => h0⟩

/-- negating a normalised residue over all limbs+1 limbs (mulmod_bexpp1.c:47, :52) -/
theorem neg_canonical (xs : List Nat) (t : Nat) (hx : Limbs (xs ++ [t])) (hn : 1 ≤ xs.length)
    (hc : Canonical (xs ++ [t])) :
    ∃ ys g, (neg_n (xs ++ [t])).1 = ys ++ [g] ∧ ys.length = xs.length ∧ Limbs (ys ++ [g]) ∧ g ≠ B / 2 ∧
      rval (ys ++ [g]) = - rval (xs ++ [t]) := by
  obtain ⟨nv, _, nL, nn⟩ := neg_n_spec (xs ++ [t]) hx
  simp only [List.length_append, List.length_cons, List.length_nil] at nv nn
  obtain ⟨ys, g, e, l⟩ := exists_snoc _ xs.length nn
  rw [e] at nv nL
  obtain ⟨ht, hr, h0⟩ := canonical_val xs t hx hc
  have ⟨hxs, _⟩ := Limbs_snoc.mp hx
  have hv0 : (0 : Int) ≤ val xs := by positivity
  have hv1 := valZ_lt xs hxs
  have hP := B_le_pow xs.length hn
  have hrange : -((B : Int) ^ xs.length) ≤ -rval (xs ++ [t]) ∧ -rval (xs ++ [t]) ≤ 0 := by
    rw [hr]
    have : t = 0 ∨ t = 1 := by omega
    rcases this with h | h
    · subst h; simp only [Nat.cast_zero, mul_zero, add_zero]; constructor <;> linarith
    · have := h0 h; subst h; rw [this]; simp
  have hrv : rval (ys ++ [g]) = -rval (xs ++ [t]) := by
    apply rval_of_eq ys g nL _ ((neg_n (xs ++ [t])).2 : Int)
    · rw [l, hr]
      rw [val_snoc, val_snoc, l] at nv
      have nv' := congrArg (fun z : Nat => (z : Int)) nv
      rw [val_snoc, l]; push_cast at nv' ⊢
      linear_combination nv'
    · rw [l, pow_succ]; generalize (B : Int) ^ xs.length = P at *; rw [BZ_eq] at *; linarith [hrange.1]
    · rw [l, pow_succ]; generalize (B : Int) ^ xs.length = P at *; rw [BZ_eq] at *; linarith [hrange.2]
  refine ⟨ys, g, e, l, nL, ?_, hrv⟩
  have tb := top_bounds ys g nL (-1) 0 (by rw [l, hrv]; linarith [hrange.1])
    (by rw [l, hrv]; have := BZpow_pos xs.length; linarith [hrange.2])
  intro hg; rw [hg] at tb
  have : sint (B / 2) = -9223372036854775808 := by rw [sint_def]; simp only [B_eq]; norm_num
  rw [this] at tb; omega

theorem mulmod_Bexpp1_spec (A C : List Nat) (t1 t2 : Nat) (hA : Limbs (A ++ [t1])) (hC : Limbs (C ++ [t2]))
    (hl : A.length = C.length) (hn : 1 ≤ A.length)
    (c1 : Canonical (A ++ [t1])) (c2 : Canonical (C ++ [t2])) :
    ∃ ys g, (mulmod_Bexpp1 (A ++ [t1]) (C ++ [t2])).1 = ys ++ [g] ∧ ys.length = A.length ∧ Limbs (ys ++ [g]) ∧
      Canonical (ys ++ [g]) ∧
      rval (ys ++ [g]) ≡ rval (A ++ [t1]) * rval (C ++ [t2]) [ZMOD pmod A.length] := by
  obtain ⟨ht1, hr1, h01⟩ := canonical_val A t1 hA c1
  obtain ⟨ht2, hr2, h02⟩ := canonical_val C t2 hC c2
  have hB := B_eq
  unfold mulmod_Bexpp1
  simp only [top_snoc, lo_snoc]
  have hc : ladd (2 * t1 % B) t2 = 2 * t1 + t2 := by unfold ladd; rw [B_eq]; omega
  rw [hc]
  have hlen : (A ++ [t1]).length - 1 = A.length := by simp
  rw [hlen]
  by_cases o2 : t2 = 1
  · -- i2 = 2^(nw) ≡ −1
    have e1 : (2 * t1 + t2) % 2 = 1 := by omega
    simp only [e1, ↓reduceIte]
    obtain ⟨ns, ng, ne, nl, nL, nmin, nr⟩ := neg_canonical A t1 hA hn c1
    rw [ne]
    obtain ⟨ys, g, e, l, L, cn, r⟩ := normmod_spec ns ng nL (by omega) nmin
    refine ⟨ys, g, e, by rw [l, nl], L, cn, ?_⟩
    rw [nl] at r
    refine r.trans ?_
    rw [nr, hr2, h02 o2, o2, ← hl, modEq_pmod_iff]
    exact ⟨-rval (A ++ [t1]), by push_cast; ring⟩
  · have z2 : t2 = 0 := by omega
    by_cases o1 : t1 = 1
    · have e1 : (2 * t1 + t2) % 2 = 0 := by omega
      have e2 : (2 * t1 + t2) / 2 % 2 = 1 := by omega
      simp only [e1, e2, ↓reduceIte, zero_ne_one]
      obtain ⟨ns, ng, ne, nl, nL, nmin, nr⟩ := neg_canonical C t2 hC (by omega) c2
      rw [ne]
      obtain ⟨ys, g, e, l, L, cn, r⟩ := normmod_spec ns ng nL (by omega) nmin
      refine ⟨ys, g, e, by rw [l, nl, hl], L, cn, ?_⟩
      rw [nl, ← hl] at r
      refine r.trans ?_
      rw [nr, hr1, h01 o1, o1, modEq_pmod_iff]
      exact ⟨-rval (C ++ [t2]), by push_cast; ring⟩
    · have z1 : t1 = 0 := by omega
      subst z1 z2
      simp only [Nat.mul_zero, Nat.add_zero, Nat.zero_mod, Nat.zero_div, zero_ne_one, ↓reduceIte]
      rw [Nat.mul_comm A.length 64]
      obtain ⟨b1, b2, b3, b4, b5⟩ := basecase_spec A C 0 A.length hn (Limbs_snoc.mp hA).1 (Limbs_snoc.mp hC).1 rfl hl.symm
      generalize (mulmod_2expp1_basecase A C 0 (64 * A.length)).1 = r at *
      generalize (mulmod_2expp1_basecase A C 0 (64 * A.length)).2 = cc at *
      have hcL : Limbs (r ++ [cc]) := Limbs_snoc.mpr ⟨b2, by omega⟩
      refine ⟨r, cc, rfl, b1, hcL, ?_, ?_⟩
      · by_cases hcc : cc = 0
        · exact Or.inl (by simpa using hcc)
        · have : cc = 1 := by omega
          subst this
          refine Or.inr ⟨by simp, ?_⟩
          simp only [lo_snoc]; generalize B ^ A.length = P at *; omega
      · have hs : sint cc = cc := sint_bit cc b3
        rw [rval_snoc, b1, hs, hr1, hr2]
        simp only [flagged, Nat.zero_div, Nat.zero_mod, zero_ne_one, ↓reduceIte] at b5
        simpa using b5

end Mpir.Fft
