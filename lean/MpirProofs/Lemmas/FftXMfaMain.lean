/- mpir_fft_mfa_trunc_sqrt2 (model of Mpir/Model/FftX.lean): the first half matrix after the column and row passes
   holds the same values as the plain √2 transform, permuted (row j, column t) ↦ position rev(j + n2·t). -/
import MpirProofs.Lemmas.FftXPlumb
import MpirProofs.Lemmas.FftXSqrt2
import Mathlib.Data.List.Nodup
set_option linter.unusedSimpArgs false
namespace Mpir.FftX
open Mpir Finset

theorem clog2_pow (k : Nat) : clog2 (2 ^ (k + 1)) = k + 1 := by
  unfold clog2
  have h2 : 2 ≤ 2 ^ (k + 1) := by
    calc 2 = 2 ^ 1 := by norm_num
      _ ≤ 2 ^ (k + 1) := Nat.pow_le_pow_right (by norm_num) (by omega)
  rw [if_neg (by omega)]
  congr 1
  rw [Nat.log2_eq_iff (by omega)]
  constructor
  · rw [pow_succ]; omega
  · omega

theorem take_drop_eq_map (xs : List Int) (a n : Nat) (h : a + n ≤ xs.length) :
    (xs.drop a).take n = (List.range n).map fun i => el xs (a + i) := by
  apply List.ext_getElem
  · simp; omega
  · intro m h1 h2
    have hm : m < n := by simp at h2; exact h2
    simp only [List.getElem_take, List.getElem_drop, List.getElem_map, List.getElem_range, el,
      List.getD_eq_getElem?_getD]
    rw [List.getElem?_eq_getElem (by omega)]; simp

/-- row updates leave everything outside the matrix untouched -/
theorem onRows_outside (off n1 n2 : Nat) (f : List Int → List Int) (hf : ∀ r, r.length = n1 → (f r).length = n1)
    (rows : List Nat) (hr : ∀ i ∈ rows, i < n2) (xs : List Int) (hlen : off + n1 * n2 ≤ xs.length) :
    (onRows xs off n1 rows f).length = xs.length ∧
    ∀ k, (k < off ∨ off + n1 * n2 ≤ k) → el (onRows xs off n1 rows f) k = el xs k := by
  induction rows generalizing xs with
  | nil => simp [onRows]
  | cons i rest ih =>
    have hi : i < n2 := hr i (by simp)
    have hrow : off + i * n1 + n1 ≤ xs.length := by
      have : (i + 1) * n1 ≤ n2 * n1 := Nat.mul_le_mul_right _ hi
      rw [Nat.mul_comm n2 n1] at this
      have e : (i + 1) * n1 = i * n1 + n1 := by ring
      omega
    have hRl : ((xs.drop (off + i * n1)).take n1).length = n1 := by simp; omega
    set ys := xs.take (off + i * n1) ++ f ((xs.drop (off + i * n1)).take n1) ++ xs.drop (off + i * n1 + n1) with hys
    have hyl : ys.length = xs.length := length_row_upd _ _ _ _ (hf _ hRl) hrow
    have hstep : onRows xs off n1 (i :: rest) f = onRows ys off n1 rest f := by
      simp only [onRows, List.foldl_cons]; rfl
    obtain ⟨l1, l2⟩ := ih (fun x hx => hr x (by simp [hx])) ys (by rw [hyl]; exact hlen)
    rw [hstep]
    refine ⟨by rw [l1, hyl], ?_⟩
    intro k hk
    rw [l2 k hk, hys, el_row_upd xs _ n1 _ (hf _ hRl) hrow k, if_neg]
    rintro ⟨h1, h2⟩
    have : (i + 1) * n1 ≤ n2 * n1 := Nat.mul_le_mul_right _ hi
    rw [Nat.mul_comm n2 n1] at this
    have e : (i + 1) * n1 = i * n1 + n1 := by ring
    omega

/-- a fold of second-half column updates leaves the first half matrix untouched -/
theorem fold_hi_cols (n1 n2 : Nat) (H : Nat → List Int → List Int) (xs : List Int) (c : Nat) :
    ((List.range c).foldl (fun xs i => setCol xs (n1 * n2 + i) n1 (H i xs)) xs).length = xs.length ∧
    ∀ i < n1, ∀ j < n2,
      el ((List.range c).foldl (fun xs i => setCol xs (n1 * n2 + i) n1 (H i xs)) xs) (i + j * n1) = el xs (i + j * n1) := by
  induction c with
  | zero => simp
  | succ c ih =>
    obtain ⟨hl, hv⟩ := ih
    rw [List.range_succ, List.foldl_append, List.foldl_cons, List.foldl_nil]
    refine ⟨by rw [length_setCol, hl], ?_⟩
    intro i hi j hj
    by_cases hk : i + j * n1 < xs.length
    · rw [el_setCol_hi_lo _ n1 n2 c i j _ hi hj (by rw [hl]; exact hk), hv i hi j hj]
    · rw [el_ge_length _ _ (by rw [length_setCol, hl]; omega), el_ge_length _ _ (by omega)]

/-- the column update of the first loop of mpir_fft_mfa_trunc_sqrt2 (fft_mfa_trunc_sqrt2.c:160-207), n1 = 2^(e1+1),
    n2 = 2^(e2+1), n = 2^(e1+e2+1) -/
def mfaG (e1 e2 w trunc : Nat) (i : Nat) (ca cb : List Int) : List Int × List Int :=
  let f := fun m =>
    let j := i + m * 2 ^ (e1 + 1)
    if w % 2 = 1 then
      if j < trunc - 2 * 2 ^ (e1 + e2 + 1) then
        if j % 2 = 1 then bflySqrt2 (wnOf (2 ^ (e1 + e2 + 1)) w) (el ca m) (el cb m) j w
        else bfly (el ca m) (el cb m) (j / 2) w
      else
        (el ca m, if i % 2 = 1 then adjSqrt2 (wnOf (2 ^ (e1 + e2 + 1)) w) (el ca m) j w
                  else adj (el ca m) (j / 2) w)
    else
      if j < trunc - 2 * 2 ^ (e1 + e2 + 1) then bfly (el ca m) (el cb m) j (w / 2)
      else (el ca m, adj (el ca m) j (w / 2))
  (revPerm (e2 + 1) (fft_radix2_twiddle e2 (w * 2 ^ (e1 + 1)) w 0 i 1 (fsts (2 ^ (e2 + 1)) f)), snds (2 ^ (e2 + 1)) f)

/-- the column update of the third loop (:225-239) -/
def mfaH (e1 e2 w trunc : Nat) (i : Nat) (xs : List Int) : List Int :=
  revPerm (e2 + 1) (fft_trunc1_twiddle e2 (w * 2 ^ (e1 + 1)) w 0 i 1
    ((trunc - 2 * 2 ^ (e1 + e2 + 1)) / 2 ^ (e1 + 1)) (getCol xs (2 * 2 ^ (e1 + e2 + 1) + i) (2 ^ (e1 + 1)) (2 ^ (e2 + 1))))

/-- the row update (:211-219, :242-252) -/
def mfaRowF (e1 e2 w : Nat) (row : List Int) : List Int :=
  revPerm (e1 + 1) (fft_radix2 e1 (w * 2 ^ (e2 + 1)) row)

theorem fft_mfa_unfold (e1 e2 w trunc : Nat) (xs : List Int) :
    fft_mfa_trunc_sqrt2 (e1 + e2 + 1) w (2 ^ (e1 + 1)) trunc xs =
      onRows
        ((List.range (2 ^ (e1 + 1))).foldl
          (fun xs i => setCol xs (2 ^ (e1 + 1) * 2 ^ (e2 + 1) + i) (2 ^ (e1 + 1)) (mfaH e1 e2 w trunc i xs))
          (onRows
            ((List.range (2 ^ (e1 + 1))).foldl
              (colStep (2 ^ (e1 + 1)) (2 ^ (e2 + 1)) (2 ^ (e1 + 1) * 2 ^ (e2 + 1)) (mfaG e1 e2 w trunc)) xs)
            0 (2 ^ (e1 + 1)) (List.range (2 ^ (e2 + 1))) (mfaRowF e1 e2 w)))
        (2 ^ (e1 + 1) * 2 ^ (e2 + 1)) (2 ^ (e1 + 1))
        ((List.range ((trunc - 2 * 2 ^ (e1 + e2 + 1)) / 2 ^ (e1 + 1))).map fun s => revbin s (e2 + 1))
        (mfaRowF e1 e2 w) := by
  have hN : 2 ^ (e1 + 1) * 2 ^ (e2 + 1) = 2 * 2 ^ (e1 + e2 + 1) := by
    rw [← pow_add, ← pow_succ']; congr 1; ring
  have hn2 : 2 * 2 ^ (e1 + e2 + 1) / 2 ^ (e1 + 1) = 2 ^ (e2 + 1) := by
    rw [← hN]; exact Nat.mul_div_cancel_left _ (two_pow_pos' _)
  unfold fft_mfa_trunc_sqrt2
  simp only [hn2, clog2_pow, Nat.add_sub_cancel]
  rw [hN]
  rfl

/-- the sums of the first layer: what both the plain and the matrix Fourier transform feed to their first half -/
def layerSums (n : Nat) (xs : List Int) : List Int := (List.range (2 * n)).map fun k => el xs k + el xs (2 * n + k)

/-- the first 2n outputs of the full √2 transform are the radix-2 transform of the first-layer sums -/
theorem fft_full_sqrt2_low (d w : Nat) (xs : List Int) (k : Nat) (hk : k < 2 ^ (d + 1)) :
    el (fft_full_sqrt2 d w xs) k = el (fft_radix2 d w (layerSums (2 ^ d) xs)) k := by
  have hp : 2 ^ (d + 1) = 2 * 2 ^ d := by rw [pow_succ]; ring
  unfold fft_full_sqrt2
  simp only []
  split_ifs with hw
  · rw [el_fft_radix2_low d (w / 2) xs k hk]
    have hw2 : 2 * (w / 2) = w := by omega
    rw [hw2]
    congr 1
    apply fft_radix2_congr
    intro i hi
    rw [el_fsts _ _ _ hi, layerSums, el_range_map _ _ _ (by omega), hp]; simp [bfly]
  · rw [el_append_left _ _ _ (by rw [length_fft_radix2]; exact hk)]
    congr 1
    apply fft_radix2_congr
    intro i hi
    rw [el_fsts _ _ _ (by omega), layerSums, el_range_map _ _ _ (by omega)]
    split_ifs <;> simp [bfly, bflySqrt2]

/-- the first-half column of the first loop is the twiddled column transform of the first-layer sums -/
theorem mfaG_fst (e1 e2 w trunc : Nat) (xs : List Int) (ht2 : 2 * 2 ^ (e1 + e2 + 1) < trunc)
    (hz0 : ∀ j, trunc ≤ j → el xs j = 0) (i : Nat) (hi : i < 2 ^ (e1 + 1)) :
    (mfaG e1 e2 w trunc i (getCol xs i (2 ^ (e1 + 1)) (2 ^ (e2 + 1)))
      (getCol xs (2 ^ (e1 + 1) * 2 ^ (e2 + 1) + i) (2 ^ (e1 + 1)) (2 ^ (e2 + 1)))).1 =
    mfaCol e2 w (2 ^ (e1 + 1)) (layerSums (2 ^ (e1 + e2 + 1)) xs) i := by
  have hN : 2 ^ (e1 + 1) * 2 ^ (e2 + 1) = 2 * 2 ^ (e1 + e2 + 1) := by
    rw [← pow_add, ← pow_succ']; congr 1; ring
  unfold mfaG mfaCol
  simp only []
  congr 2
  unfold fsts getCol
  apply List.map_congr_left
  intro m hm
  have hm := List.mem_range.mp hm
  have hidx := idx_lt _ _ i m hi hm
  beta_reduce
  simp only [el_range_map _ _ _ hm]
  rw [layerSums, el_range_map _ _ _ (by omega)]
  have eb : 2 ^ (e1 + 1) * 2 ^ (e2 + 1) + i + m * 2 ^ (e1 + 1) = 2 * 2 ^ (e1 + e2 + 1) + (i + m * 2 ^ (e1 + 1)) := by omega
  rw [eb]
  have hzero : ¬ i + m * 2 ^ (e1 + 1) < trunc - 2 * 2 ^ (e1 + e2 + 1) →
      el xs (2 * 2 ^ (e1 + e2 + 1) + (i + m * 2 ^ (e1 + 1))) = 0 := fun h => hz0 _ (by omega)
  split_ifs with h1 h2 h3 h4 <;> simp [bfly, bflySqrt2, hzero, *]

theorem list_eq_of_el (a b : List Int) (n : Nat) (ha : a.length = n) (hb : b.length = n)
    (h : ∀ m < n, el a m = el b m) : a = b := by
  apply List.ext_getElem (by rw [ha, hb])
  intro m h1 h2
  have := h m (by omega)
  simp only [el, List.getD_eq_getElem?_getD, List.getElem?_eq_getElem h1, List.getElem?_eq_getElem h2] at this
  simpa using this

/-! ### the second half matrix -/

/-- a fold of second-half column updates that read only their own column: the values -/
theorem fold_hi_cols_val (n1 n2 off2 : Nat) (hoff : off2 = n1 * n2) (H : Nat → List Int → List Int)
    (hH : ∀ i c, (H i c).length = n2) (xs : List Int) (hlen : xs.length = 2 * (n1 * n2)) (c : Nat) (hc : c ≤ n1) :
    ∀ i < n1, ∀ j < n2,
      el ((List.range c).foldl (fun xs i => setCol xs (n1 * n2 + i) n1 (H i (getCol xs (off2 + i) n1 n2))) xs)
          (n1 * n2 + i + j * n1) =
        if i < c then el (H i (getCol xs (n1 * n2 + i) n1 n2)) j else el xs (n1 * n2 + i + j * n1) := by
  subst hoff
  induction c with
  | zero => simp
  | succ c ih =>
    have hv := ih (by omega)
    have hl := (fold_hi_cols n1 n2 (fun i xs => H i (getCol xs (n1 * n2 + i) n1 n2)) xs c).1
    rw [List.range_succ, List.foldl_append, List.foldl_cons, List.foldl_nil]
    set ys := (List.range c).foldl (fun xs i => setCol xs (n1 * n2 + i) n1 (H i (getCol xs (n1 * n2 + i) n1 n2))) xs with hys
    have gb : getCol ys (n1 * n2 + c) n1 n2 = getCol xs (n1 * n2 + c) n1 n2 := by
      unfold getCol; apply List.map_congr_left; intro j hj
      have := hv c (by omega) j (List.mem_range.mp hj)
      rw [if_neg (by omega)] at this; exact this
    rw [gb]
    intro i hi j hj
    have hb := idx_lt n1 n2 i j hi hj
    rw [el_setCol_same ys (n1 * n2) n1 n2 c i j _ (hH _ _) (by omega) hi hj (by rw [hl, hlen]; omega), hv i hi j hj]
    by_cases hic : i = c
    · subst hic; rw [if_pos rfl, if_pos (by omega)]
    · rw [if_neg hic]
      by_cases h : i < c
      · rw [if_pos h, if_pos (by omega)]
      · rw [if_neg h, if_neg (by omega)]

theorem length_fft_trunc1_twiddle (d w ws r c rs trunc : Nat) (xs : List Int) (ht : TruncOk d trunc)
    (hx : xs.length = 2 ^ (d + 1)) : (fft_trunc1_twiddle d w ws r c rs trunc xs).length = 2 ^ (d + 1) := by
  induction d generalizing w r rs trunc xs with
  | zero => rw [truncOk_zero ht]; simp [fft_trunc1_twiddle, length_fft_radix2_twiddle]
  | succ d ih =>
    have hp : 2 ^ (d + 1 + 1) = 2 * 2 ^ (d + 1) := by rw [pow_succ]; ring
    simp only [fft_trunc1_twiddle]
    split_ifs with h1 h2
    · exact length_fft_radix2_twiddle _ _ _ _ _ _ _
    · rw [List.length_append, ih _ _ _ _ _ (truncOk_low ht h2) (by simp), List.length_drop, hx]; omega
    · rw [List.length_append, length_fft_radix2_twiddle, ih _ _ _ _ _ (truncOk_high ht h2) (length_snds _ _)]; omega

/-- the twiddled differences of the first layer: what the plain transform feeds to its second half -/
def layerDiffs (n w : Nat) (xs : List Int) : List Int :=
  (List.range (2 * n)).map fun k =>
    (el xs k - el xs (2 * n + k)) *
      (if w % 2 = 0 then 2 ^ (k * (w / 2)) else if k % 2 = 0 then 2 ^ (k / 2 * w) else sq2 (wnOf n w) k w)

theorem fft_full_sqrt2_high (d w : Nat) (xs : List Int) (k : Nat) :
    el (fft_full_sqrt2 d w xs) (2 ^ (d + 1) + k) = el (fft_radix2 d w (layerDiffs (2 ^ d) w xs)) k := by
  have hp : 2 ^ (d + 1) = 2 * 2 ^ d := by rw [pow_succ]; ring
  unfold fft_full_sqrt2
  simp only []
  split_ifs with hw
  · rw [el_fft_radix2_high d (w / 2) xs k]
    have hw2 : 2 * (w / 2) = w := by omega
    rw [hw2]
    congr 1
    apply fft_radix2_congr
    intro i hi
    rw [el_snds _ _ _ hi, layerDiffs, el_range_map _ _ _ (by omega), hp, if_pos hw]; simp [bfly]
  · rw [hp, ← hp, el_append_right' _ _ _ _ (length_fft_radix2 _ _ _)]
    congr 1
    apply fft_radix2_congr
    intro i hi
    rw [el_snds _ _ _ (by omega), layerDiffs, el_range_map _ _ _ (by omega), if_neg hw]
    split_ifs <;> simp [bfly, bflySqrt2, hp]

/-- the second-half column of the first loop is the column of the twiddled first-layer differences -/
theorem mfaG_snd (e1 e2 w trunc : Nat) (xs : List Int) (ht2 : 2 * 2 ^ (e1 + e2 + 1) < trunc)
    (hz0 : ∀ j, trunc ≤ j → el xs j = 0) (i : Nat) (hi : i < 2 ^ (e1 + 1)) :
    (mfaG e1 e2 w trunc i (getCol xs i (2 ^ (e1 + 1)) (2 ^ (e2 + 1)))
      (getCol xs (2 ^ (e1 + 1) * 2 ^ (e2 + 1) + i) (2 ^ (e1 + 1)) (2 ^ (e2 + 1)))).2 =
    getCol (layerDiffs (2 ^ (e1 + e2 + 1)) w xs) i (2 ^ (e1 + 1)) (2 ^ (e2 + 1)) := by
  have hN : 2 ^ (e1 + 1) * 2 ^ (e2 + 1) = 2 * 2 ^ (e1 + e2 + 1) := by
    rw [← pow_add, ← pow_succ']; congr 1; ring
  unfold mfaG
  simp only []
  unfold snds getCol
  apply List.map_congr_left
  intro m hm
  have hm := List.mem_range.mp hm
  have hidx := idx_lt _ _ i m hi hm
  beta_reduce
  simp only [el_range_map _ _ _ hm]
  rw [layerDiffs, el_range_map _ _ _ (by omega)]
  have eb : 2 ^ (e1 + 1) * 2 ^ (e2 + 1) + i + m * 2 ^ (e1 + 1) = 2 * 2 ^ (e1 + e2 + 1) + (i + m * 2 ^ (e1 + 1)) := by omega
  rw [eb]
  have hzero : ¬ i + m * 2 ^ (e1 + 1) < trunc - 2 * 2 ^ (e1 + e2 + 1) →
      el xs (2 * 2 ^ (e1 + e2 + 1) + (i + m * 2 ^ (e1 + 1))) = 0 := fun h => hz0 _ (by omega)
  -- the parity of j = i + m·n1 is that of i (n1 is even)
  have hpar : (i + m * 2 ^ (e1 + 1)) % 2 = i % 2 := by
    rw [pow_succ, ← Nat.mul_assoc, Nat.add_mul_mod_self_right]
  by_cases hw : w % 2 = 0
  · rw [if_neg (by omega), if_pos hw]
    split_ifs with h1 <;> simp [bfly, adj, hzero, *]
  · rw [if_pos (by omega), if_neg hw, hpar]
    by_cases h1 : i + m * 2 ^ (e1 + 1) < trunc - 2 * 2 ^ (e1 + e2 + 1)
    · rw [if_pos h1]
      by_cases hp : i % 2 = 1
      · rw [if_pos hp, if_neg (by omega)]; simp [bflySqrt2]
      · rw [if_neg hp, if_pos (by omega)]; simp [bfly]
    · rw [if_neg h1, hzero h1]
      by_cases hp : i % 2 = 1
      · rw [if_pos hp, if_neg (by omega)]; simp [adjSqrt2]
      · rw [if_neg hp, if_pos (by omega)]; simp [adj]

/-- the C's requirement "trunc is a multiple of 2·n1" gives the requirement of the truncated column transforms -/
theorem truncOk_of_dvd (e1 e2 trunc : Nat) (ht : TruncSOk (e1 + e2 + 1) trunc) (hdiv : 2 * 2 ^ (e1 + 1) ∣ trunc) :
    TruncOk e2 ((trunc - 2 * 2 ^ (e1 + e2 + 1)) / 2 ^ (e1 + 1)) := by
  obtain ⟨q, rfl⟩ := hdiv
  obtain ⟨_, ht2, ht3⟩ := ht
  have hn1 := two_pow_pos' (e1 + 1)
  have e1' : 2 * 2 ^ (e1 + 1) * q = 2 ^ (e1 + 1) * (2 * q) := by ring
  have e2' : 2 * 2 ^ (e1 + e2 + 1) = 2 ^ (e1 + 1) * (2 * 2 ^ e2) := by
    rw [show e1 + e2 + 1 = (e1 + 1) + e2 by ring, pow_add]; ring
  have e3 : 4 * 2 ^ (e1 + e2 + 1) = 2 ^ (e1 + 1) * (4 * 2 ^ e2) := by
    rw [show e1 + e2 + 1 = (e1 + 1) + e2 by ring, pow_add]; ring
  rw [e1', e2'] at ht2
  rw [e1', e3] at ht3
  have h2 := Nat.lt_of_mul_lt_mul_left ht2
  have h3 := Nat.le_of_mul_le_mul_left ht3 hn1
  rw [e1', e2', ← Nat.mul_sub, Nat.mul_div_cancel_left _ hn1]
  have hp : 2 ^ (e2 + 1) = 2 * 2 ^ e2 := by rw [pow_succ]; ring
  exact ⟨by omega, by omega, by omega⟩

section ring
variable {S : Type} [CommRing S] (f : ℤ →+* S)

/-- first half of mpir_fft_mfa_trunc_sqrt2 (inputs zero from `trunc` on): entry (row j, column t) is the value the
    plain √2 transform has in position rev(j + n2·t) -/
theorem fft_mfa_first_half (e1 e2 w trunc : Nat) (xs : List Int) (hlen : xs.length = 4 * 2 ^ (e1 + e2 + 1))
    (ht : TruncSOk (e1 + e2 + 1) trunc) (hz0 : ∀ j, trunc ≤ j → el xs j = 0)
    (hz : f 2 ^ (2 ^ (e1 + e2 + 1) * w) = -1) (j t : Nat) (hj : j < 2 ^ (e2 + 1)) (htt : t < 2 ^ (e1 + 1)) :
    f (el (fft_mfa_trunc_sqrt2 (e1 + e2 + 1) w (2 ^ (e1 + 1)) trunc xs) (j * 2 ^ (e1 + 1) + t)) =
      f (el (fft_full_sqrt2 (e1 + e2 + 1) w xs) (rev (e1 + e2 + 1 + 1) (j + 2 ^ (e2 + 1) * t))) := by
  have hN : 2 ^ (e1 + 1) * 2 ^ (e2 + 1) = 2 * 2 ^ (e1 + e2 + 1) := by
    rw [← pow_add, ← pow_succ']; congr 1; ring
  obtain ⟨ht1, ht2, ht3⟩ := ht
  rw [fft_mfa_unfold, fft_full_sqrt2_low _ _ _ _ (rev_lt _ _), ← mfa_passes f e1 e2 w _ hz j t hj htt]
  congr 1
  have hxl : xs.length = 2 * (2 ^ (e1 + 1) * 2 ^ (e2 + 1)) := by rw [hlen, hN]; ring
  -- stage 1: the columns
  have hG : ∀ i ca cb, (mfaG e1 e2 w trunc i ca cb).1.length = 2 ^ (e2 + 1) ∧
      (mfaG e1 e2 w trunc i ca cb).2.length = 2 ^ (e2 + 1) := by
    intro i ca cb; simp [mfaG, length_revPerm, length_fft_radix2_twiddle, length_snds]
  obtain ⟨l1, v1⟩ := fold_cols (2 ^ (e1 + 1)) (2 ^ (e2 + 1)) (mfaG e1 e2 w trunc) hG xs hxl (2 ^ (e1 + 1)) le_rfl
  generalize hX1 : (List.range (2 ^ (e1 + 1))).foldl
    (colStep (2 ^ (e1 + 1)) (2 ^ (e2 + 1)) (2 ^ (e1 + 1) * 2 ^ (e2 + 1)) (mfaG e1 e2 w trunc)) xs = X1 at *
  -- stage 2: the rows
  have hrf : ∀ r : List Int, r.length = 2 ^ (e1 + 1) → (mfaRowF e1 e2 w r).length = 2 ^ (e1 + 1) := by
    intro r _; simp [mfaRowF, length_revPerm, length_fft_radix2]
  obtain ⟨l2, _, v2⟩ := onRows_spec 0 (2 ^ (e1 + 1)) (2 ^ (e2 + 1)) (mfaRowF e1 e2 w) hrf (List.range (2 ^ (e2 + 1)))
    List.nodup_range (fun i hi => List.mem_range.mp hi) X1 (by rw [l1, hxl]; omega)
  generalize hX2 : onRows X1 0 (2 ^ (e1 + 1)) (List.range (2 ^ (e2 + 1))) (mfaRowF e1 e2 w) = X2 at *
  -- stage 3: second-half columns
  obtain ⟨l3, v3⟩ := fold_hi_cols (2 ^ (e1 + 1)) (2 ^ (e2 + 1)) (mfaH e1 e2 w trunc) X2 (2 ^ (e1 + 1))
  generalize hX3 : (List.range (2 ^ (e1 + 1))).foldl
    (fun xs i => setCol xs (2 ^ (e1 + 1) * 2 ^ (e2 + 1) + i) (2 ^ (e1 + 1)) (mfaH e1 e2 w trunc i xs)) X2 = X3 at *
  -- stage 4: second-half rows
  have htr2 : (trunc - 2 * 2 ^ (e1 + e2 + 1)) / 2 ^ (e1 + 1) ≤ 2 ^ (e2 + 1) := by
    apply Nat.div_le_of_le_mul; rw [hN]; omega
  obtain ⟨_, o4⟩ := onRows_outside (2 ^ (e1 + 1) * 2 ^ (e2 + 1)) (2 ^ (e1 + 1)) (2 ^ (e2 + 1)) (mfaRowF e1 e2 w) hrf
    ((List.range ((trunc - 2 * 2 ^ (e1 + e2 + 1)) / 2 ^ (e1 + 1))).map fun s => revbin s (e2 + 1))
    (fun i hi => by
      obtain ⟨s, hs, rfl⟩ := List.mem_map.mp hi
      have hs := List.mem_range.mp hs
      rw [revbin_rev _ _ (by omega)]; exact rev_lt _ _)
    X3 (by rw [l3, l2, l1, hxl]; omega)
  have hidx := idx_lt (2 ^ (e1 + 1)) (2 ^ (e2 + 1)) t j htt hj
  rw [o4 _ (Or.inl (by omega)), show j * 2 ^ (e1 + 1) + t = t + j * 2 ^ (e1 + 1) by ring, v3 t htt j hj]
  have r2 := v2 j hj t htt
  simp only [Nat.zero_add] at r2
  rw [show t + j * 2 ^ (e1 + 1) = j * 2 ^ (e1 + 1) + t by ring, r2, if_pos (List.mem_range.mpr hj)]
  -- the row fed to the row transform
  unfold mfaRow mfaRowF
  congr 3
  rw [take_drop_eq_map _ _ _ (by
    rw [l1, hxl]
    have : (j + 1) * 2 ^ (e1 + 1) ≤ 2 ^ (e2 + 1) * 2 ^ (e1 + 1) := Nat.mul_le_mul_right _ hj
    have e : (j + 1) * 2 ^ (e1 + 1) = j * 2 ^ (e1 + 1) + 2 ^ (e1 + 1) := by ring
    rw [Nat.mul_comm (2 ^ (e2 + 1))] at this
    omega)]
  apply List.map_congr_left
  intro i hi
  have hi := List.mem_range.mp hi
  rw [show j * 2 ^ (e1 + 1) + i = i + j * 2 ^ (e1 + 1) by ring, (v1 i hi j hj).1, if_pos hi,
    mfaG_fst e1 e2 w trunc xs ht2 hz0 i hi]

/-- second half of mpir_fft_mfa_trunc_sqrt2: in the relevant rows jr = rev s, s < trunc2 = (trunc − 2n)/n1, entry
    (row jr, column t) is the value the plain √2 transform has in position 2n + rev(jr + n2·t) -/
theorem fft_mfa_second_half (e1 e2 w trunc : Nat) (xs : List Int) (hlen : xs.length = 4 * 2 ^ (e1 + e2 + 1))
    (ht : TruncSOk (e1 + e2 + 1) trunc)
    (ht2' : TruncOk e2 ((trunc - 2 * 2 ^ (e1 + e2 + 1)) / 2 ^ (e1 + 1)))
    (hz0 : ∀ j, trunc ≤ j → el xs j = 0)
    (hz : f 2 ^ (2 ^ (e1 + e2 + 1) * w) = -1) (s t : Nat) (hs : s < (trunc - 2 * 2 ^ (e1 + e2 + 1)) / 2 ^ (e1 + 1))
    (htt : t < 2 ^ (e1 + 1)) :
    f (el (fft_mfa_trunc_sqrt2 (e1 + e2 + 1) w (2 ^ (e1 + 1)) trunc xs)
        (2 ^ (e1 + 1) * 2 ^ (e2 + 1) + rev (e2 + 1) s * 2 ^ (e1 + 1) + t)) =
      f (el (fft_full_sqrt2 (e1 + e2 + 1) w xs)
        (2 ^ (e1 + e2 + 1 + 1) + rev (e1 + e2 + 1 + 1) (rev (e2 + 1) s + 2 ^ (e2 + 1) * t))) := by
  have hN : 2 ^ (e1 + 1) * 2 ^ (e2 + 1) = 2 * 2 ^ (e1 + e2 + 1) := by
    rw [← pow_add, ← pow_succ']; congr 1; ring
  obtain ⟨ht1, ht2, ht3⟩ := ht
  have hs2 : s < 2 ^ (e2 + 1) := lt_of_lt_of_le hs ht2'.2.2
  have hjr := rev_lt (e2 + 1) s
  rw [fft_mfa_unfold, fft_full_sqrt2_high, ← mfa_passes f e1 e2 w _ hz _ t hjr htt]
  congr 1
  have hxl : xs.length = 2 * (2 ^ (e1 + 1) * 2 ^ (e2 + 1)) := by rw [hlen, hN]; ring
  -- stage 1
  have hG : ∀ i ca cb, (mfaG e1 e2 w trunc i ca cb).1.length = 2 ^ (e2 + 1) ∧
      (mfaG e1 e2 w trunc i ca cb).2.length = 2 ^ (e2 + 1) := by
    intro i ca cb; simp [mfaG, length_revPerm, length_fft_radix2_twiddle, length_snds]
  obtain ⟨l1, v1⟩ := fold_cols (2 ^ (e1 + 1)) (2 ^ (e2 + 1)) (mfaG e1 e2 w trunc) hG xs hxl (2 ^ (e1 + 1)) le_rfl
  generalize hX1 : (List.range (2 ^ (e1 + 1))).foldl
    (colStep (2 ^ (e1 + 1)) (2 ^ (e2 + 1)) (2 ^ (e1 + 1) * 2 ^ (e2 + 1)) (mfaG e1 e2 w trunc)) xs = X1 at *
  -- stage 2
  have hrf : ∀ r : List Int, r.length = 2 ^ (e1 + 1) → (mfaRowF e1 e2 w r).length = 2 ^ (e1 + 1) := by
    intro r _; simp [mfaRowF, length_revPerm, length_fft_radix2]
  obtain ⟨l2, o2⟩ := onRows_outside 0 (2 ^ (e1 + 1)) (2 ^ (e2 + 1)) (mfaRowF e1 e2 w) hrf (List.range (2 ^ (e2 + 1)))
    (fun i hi => List.mem_range.mp hi) X1 (by rw [l1, hxl]; omega)
  generalize hX2 : onRows X1 0 (2 ^ (e1 + 1)) (List.range (2 ^ (e2 + 1))) (mfaRowF e1 e2 w) = X2 at *
  -- stage 3
  have hH : ∀ (i : Nat) (c : List Int), c.length = 2 ^ (e2 + 1) →
      (revPerm (e2 + 1) (fft_trunc1_twiddle e2 (w * 2 ^ (e1 + 1)) w 0 i 1
        ((trunc - 2 * 2 ^ (e1 + e2 + 1)) / 2 ^ (e1 + 1)) c)).length = 2 ^ (e2 + 1) := by
    intro i c hc; rw [length_revPerm, length_fft_trunc1_twiddle _ _ _ _ _ _ _ _ ht2' hc]
  have l3 := (fold_hi_cols (2 ^ (e1 + 1)) (2 ^ (e2 + 1)) (mfaH e1 e2 w trunc) X2 (2 ^ (e1 + 1))).1
  -- the values: columns of the second half
  have v3 : ∀ i < 2 ^ (e1 + 1), ∀ j < 2 ^ (e2 + 1),
      el ((List.range (2 ^ (e1 + 1))).foldl
          (fun xs i => setCol xs (2 ^ (e1 + 1) * 2 ^ (e2 + 1) + i) (2 ^ (e1 + 1)) (mfaH e1 e2 w trunc i xs)) X2)
        (2 ^ (e1 + 1) * 2 ^ (e2 + 1) + i + j * 2 ^ (e1 + 1)) =
      el (revPerm (e2 + 1) (fft_trunc1_twiddle e2 (w * 2 ^ (e1 + 1)) w 0 i 1
        ((trunc - 2 * 2 ^ (e1 + e2 + 1)) / 2 ^ (e1 + 1))
        (getCol (layerDiffs (2 ^ (e1 + e2 + 1)) w xs) i (2 ^ (e1 + 1)) (2 ^ (e2 + 1))))) j := by
    intro i hi j hj
    -- reading only its own column, of fixed length
    have key := fold_hi_cols_val (2 ^ (e1 + 1)) (2 ^ (e2 + 1)) (2 * 2 ^ (e1 + e2 + 1)) hN.symm
      (fun i c => if c.length = 2 ^ (e2 + 1) then
          revPerm (e2 + 1) (fft_trunc1_twiddle e2 (w * 2 ^ (e1 + 1)) w 0 i 1
            ((trunc - 2 * 2 ^ (e1 + e2 + 1)) / 2 ^ (e1 + 1)) c)
        else List.replicate (2 ^ (e2 + 1)) 0)
      (fun i c => by split_ifs with h; exact hH i c h; simp)
      X2 (by rw [l2, l1, hxl]) (2 ^ (e1 + 1)) le_rfl i hi j hj
    simp only [length_getCol, if_true] at key
    rw [if_pos hi] at key
    have ecol : getCol X2 (2 ^ (e1 + 1) * 2 ^ (e2 + 1) + i) (2 ^ (e1 + 1)) (2 ^ (e2 + 1)) =
        getCol (layerDiffs (2 ^ (e1 + e2 + 1)) w xs) i (2 ^ (e1 + 1)) (2 ^ (e2 + 1)) := by
      rw [← mfaG_snd e1 e2 w trunc xs ht2 hz0 i hi]
      apply list_eq_of_el _ _ (2 ^ (e2 + 1)) (length_getCol _ _ _ _) (hG _ _ _).2
      intro m hm
      rw [el_getCol _ _ _ _ _ hm, o2 _ (Or.inr (by omega)), (v1 i hi m hm).2, if_pos hi]
    rw [ecol] at key
    exact key
  generalize hX3 : (List.range (2 ^ (e1 + 1))).foldl
    (fun xs i => setCol xs (2 ^ (e1 + 1) * 2 ^ (e2 + 1) + i) (2 ^ (e1 + 1)) (mfaH e1 e2 w trunc i xs)) X2 = X3 at *
  -- stage 4
  have hrows : ∀ i ∈ (List.range ((trunc - 2 * 2 ^ (e1 + e2 + 1)) / 2 ^ (e1 + 1))).map (fun s => revbin s (e2 + 1)),
      i < 2 ^ (e2 + 1) := by
    intro i hi
    obtain ⟨s', hs', rfl⟩ := List.mem_map.mp hi
    have hs' := List.mem_range.mp hs'
    rw [revbin_rev _ _ (lt_of_lt_of_le hs' ht2'.2.2)]; exact rev_lt _ _
  have hnd : ((List.range ((trunc - 2 * 2 ^ (e1 + e2 + 1)) / 2 ^ (e1 + 1))).map (fun s => revbin s (e2 + 1))).Nodup := by
    apply List.Nodup.map_on _ List.nodup_range
    intro a ha b hb hab
    have ha := lt_of_lt_of_le (List.mem_range.mp ha) ht2'.2.2
    have hb := lt_of_lt_of_le (List.mem_range.mp hb) ht2'.2.2
    rw [revbin_rev _ _ ha, revbin_rev _ _ hb] at hab
    rw [← rev_rev _ _ ha, ← rev_rev _ _ hb, hab]
  obtain ⟨_, _, v4⟩ := onRows_spec (2 ^ (e1 + 1) * 2 ^ (e2 + 1)) (2 ^ (e1 + 1)) (2 ^ (e2 + 1)) (mfaRowF e1 e2 w) hrf _
    hnd hrows X3 (by rw [l3, l2, l1, hxl]; omega)
  have hmem : rev (e2 + 1) s ∈
      (List.range ((trunc - 2 * 2 ^ (e1 + e2 + 1)) / 2 ^ (e1 + 1))).map (fun s => revbin s (e2 + 1)) :=
    List.mem_map.mpr ⟨s, List.mem_range.mpr hs, revbin_rev _ _ hs2⟩
  rw [v4 _ hjr t htt, if_pos hmem]
  unfold mfaRow mfaRowF
  congr 3
  have hrowlen : 2 ^ (e1 + 1) * 2 ^ (e2 + 1) + rev (e2 + 1) s * 2 ^ (e1 + 1) + 2 ^ (e1 + 1) ≤ X3.length := by
    rw [l3, l2, l1, hxl]
    have : (rev (e2 + 1) s + 1) * 2 ^ (e1 + 1) ≤ 2 ^ (e2 + 1) * 2 ^ (e1 + 1) := Nat.mul_le_mul_right _ hjr
    have e : (rev (e2 + 1) s + 1) * 2 ^ (e1 + 1) = rev (e2 + 1) s * 2 ^ (e1 + 1) + 2 ^ (e1 + 1) := by ring
    rw [Nat.mul_comm (2 ^ (e2 + 1))] at this
    omega
  rw [take_drop_eq_map _ _ _ hrowlen]
  apply List.map_congr_left
  intro i hi
  have hi := List.mem_range.mp hi
  rw [show 2 ^ (e1 + 1) * 2 ^ (e2 + 1) + rev (e2 + 1) s * 2 ^ (e1 + 1) + i =
    2 ^ (e1 + 1) * 2 ^ (e2 + 1) + i + rev (e2 + 1) s * 2 ^ (e1 + 1) by ring, v3 i hi _ hjr]
  -- the truncated column transform at a relevant row is the full one
  unfold mfaCol
  rw [el_revPerm _ _ (length_fft_trunc1_twiddle _ _ _ _ _ _ _ _ ht2' (length_getCol _ _ _ _)) _ hjr,
    el_revPerm _ _ (length_fft_radix2_twiddle _ _ _ _ _ _ _) _ hjr, rev_rev _ _ hs2,
    fft_trunc1_twiddle_eq _ _ _ _ _ _ _ _ ht2' s hs]

end ring

end Mpir.FftX
