/- mpn_rootrem_internal as a whole (initial approximation + schedule + loop) and the dispatcher mpn_rootrem
   (basecase / padded approximate call / exact call). -/
import MpirProofs.Lemmas.RootremSched
namespace Mpir.Rootrem
open Mpir Mpir.Root Mpir.Gen.SqrtTabs

theorem bitLen_le_of_lt (a n : Nat) (h : a < 2 ^ n) : bitLen a ≤ n := by
  rcases Nat.eq_zero_or_pos a with h0 | hp
  · subst h0; simp [bitLen]
  · obtain ⟨b1, -, -⟩ := bitLen_spec a hp
    by_contra hc
    have : 2 ^ n ≤ 2 ^ (bitLen a - 1) := Nat.pow_le_pow_right (by norm_num) (by omega)
    omega

theorem bitLen_mono {a b : Nat} (h : a ≤ b) : bitLen a ≤ bitLen b := by
  rcases Nat.eq_zero_or_pos b with h0 | hp
  · subst h0; have : a = 0 := by omega
    subst this; exact Nat.le_refl _
  · exact bitLen_le_of_lt a _ (Nat.lt_of_le_of_lt h (bitLen_spec b hp).2.1)

theorem rrSizes_head_eq (logk fuel b : Nat) : (rrSizes logk (fuel + 1) b).head? = some b := by
  unfold rrSizes
  by_cases hb : b = 0
  · rw [if_pos hb]; simp [hb]
  · rw [if_neg hb]; simp

/-- the bit window of the operand: `2^(kT) ≤ U < 2^(k(T+1))` with `T = (bits(U) − 1) / k = xnb − 1`. -/
theorem root_window (U k : Nat) (hU : 0 < U) (hk : 0 < k) :
    2 ^ (k * ((bitLen U - 1) / k)) ≤ U ∧ U < 2 ^ (k * ((bitLen U - 1) / k + 1)) := by
  obtain ⟨b1, b2, b3⟩ := bitLen_spec U hU
  constructor
  · exact Nat.le_trans (Nat.pow_le_pow_right (by norm_num) (Nat.mul_div_le _ _)) b1
  · refine Nat.lt_of_lt_of_le b2 (Nat.pow_le_pow_right (by norm_num) ?_)
    have := Nat.lt_mul_div_succ (bitLen U - 1) hk
    omega

/-- mpn_rootrem_internal, both values of `approx`. -/
theorem rootremInternal_ok (U k : Nat) (approx : Bool) (hU : 0 < U) (hk : 2 ≤ k) (hsz : bitLen U ≤ 2 ^ 62) :
    ∃ S R ap, rootremInternal U k approx = some (S, R, ap) ∧
      (ap = false → S = iroot k U ∧ R = U - iroot k U ^ k) ∧
      (ap = true → approx = true ∧ iroot k U ≤ S ∧ S ≤ iroot k U + 1 ∧ 1 < S % B ∧ R = U) := by
  obtain ⟨w1, w2⟩ := root_window U k hU (by omega)
  obtain ⟨l0, l1, l2, l3⟩ := logk_spec k hk
  unfold rootremInternal
  dsimp only
  rw [l0]
  generalize hT : (bitLen U - 1) / k = T at *
  by_cases hx : T + 1 = 1
  · rw [if_pos hx]
    have hT0 : T = 0 := by omega
    subst hT0
    obtain ⟨s1, s2⟩ := iroot_trunc_bits U k 0 0 (by omega) (by omega) w1 w2
    simp only [Nat.sub_self, Nat.mul_zero, pow_zero, Nat.div_one, Nat.zero_add, pow_one] at s1 s2
    have : iroot k U = 1 := by omega
    exact ⟨1, U - 1, false, rfl, fun _ => by rw [this]; simp, by simp⟩
  · rw [if_neg hx]
    have hT1 : 1 ≤ T := by omega
    have hTk : T * k < 2 ^ 62 := by
      have := Nat.div_mul_le_self (bitLen U - 1) k
      rw [hT] at this
      have := (bitLen_spec U hU).2.2
      omega
    have e1 : T + 1 - 1 = T := by omega
    rw [e1]
    obtain ⟨f1, f2⟩ := rrSizes_fits k T hk hT1 hTk
    have hhead := rrSizes_head_eq (bitLen (k - 1)) 65 T
    have hchain := rrSizes_chain (bitLen (k - 1)) 66 T
    have hle := rrSizes_le (bitLen (k - 1)) 66 T
    generalize rrSizes (bitLen (k - 1)) 66 T = sizes at *
    rw [if_neg (by rw [f2]; simp; omega)]
    -- the state before the first round is the invariant at entry 0
    obtain ⟨s1, s2⟩ := iroot_trunc_bits U k T 0 (by omega) (by omega) w1 w2
    simp only [pow_zero, Nat.zero_add, pow_one] at s1 s2
    have h1 : iroot k (U / 2 ^ (k * (T - 0))) = 1 := by omega
    have hst : rrInv U k T 0 = (1, (U >>> (k * T)) - 1, 1, k * T) := by
      unfold rrInv
      rw [h1]
      simp [Nat.shiftRight_eq_div_pow]
    rw [← hst]
    -- shape of the reversed schedule
    have hrl : sizes.reverse.getLast? = some T := by rw [List.getLast?_reverse]; exact hhead
    have hrh : sizes.reverse.head? = some 0 := by rw [List.head?_reverse]; exact f2
    have hrc : List.IsChain (fun c a => SchedOK (bitLen (k - 1)) a c) sizes.reverse :=
      List.isChain_reverse.mpr hchain
    have hrle : ∀ x ∈ sizes.reverse, x ≤ T := fun x hx => hle x (List.mem_reverse.mp hx)
    generalize sizes.reverse = rs at *
    match rs, hrl, hrh, hrc, hrle with
    | [], hrl, _, _, _ => simp at hrl
    | [x], hrl, hrh, _, _ =>
      simp at hrl hrh; omega
    | hi :: lo :: rest, hrl, hrh, hrc, hrle =>
      have : hi = 0 := by simpa using hrh
      subst this
      exact rrLoop_spec U k T (bitLen (k - 1)) approx hk l2 w1 w2 rest 0 lo hrc hrle hrl

/-- the root of the operand padded with `k` zero limbs determines the root: `⌊(U·B^k)^(1/k)⌋ / B = ⌊U^(1/k)⌋`. -/
theorem iroot_padded (U k : Nat) (hk : 0 < k) :
    iroot k U * B ≤ iroot k (U * B ^ k) ∧ iroot k (U * B ^ k) < (iroot k U + 1) * B := by
  obtain ⟨r1, r2⟩ := iroot_spec k U hk
  constructor
  · apply le_iroot hk
    rw [Nat.mul_pow]; exact Nat.mul_le_mul_right _ r1
  · apply iroot_lt hk
    rw [Nat.mul_pow]; exact Nat.mul_lt_mul_of_pos_right r2 (pow_pos B_pos _)

/-- perfect powers through the padding: `U·B^k` is a k-th power iff `U` is. -/
theorem padded_exact_iff (U k : Nat) (hk : 0 < k) :
    iroot k (U * B ^ k) ^ k = U * B ^ k ↔ iroot k U ^ k = U := by
  obtain ⟨p1, p2⟩ := iroot_padded U k hk
  obtain ⟨r1, r2⟩ := iroot_spec k U hk
  obtain ⟨q1, q2⟩ := iroot_spec k (U * B ^ k) hk
  constructor
  · intro h
    have hd : B ∣ iroot k (U * B ^ k) := by
      rw [← Nat.pow_dvd_pow_iff (Nat.ne_of_gt hk), h]; exact Nat.dvd_mul_left _ _
    obtain ⟨t, ht⟩ := hd
    rw [ht, Nat.mul_pow, Nat.mul_comm] at h
    have hU : t ^ k = U := Nat.eq_of_mul_eq_mul_right (pow_pos B_pos _) h
    have : t = iroot k U := iroot_unique k U t hk (by omega) (by
      rw [← hU]; exact Nat.pow_lt_pow_left (Nat.lt_succ_self _) (Nat.ne_of_gt hk))
    rw [← this]; exact hU
  · intro h
    have e : (iroot k U * B) ^ k = U * B ^ k := by rw [Nat.mul_pow, h]
    have : iroot k U * B = iroot k (U * B ^ k) :=
      iroot_unique k _ _ hk (Nat.le_of_eq e) (by
        rw [← e]; exact Nat.pow_lt_pow_left (Nat.lt_succ_self _) (Nat.ne_of_gt hk))
    rw [← this]; exact e

/-- THE DISPATCHER mpn_rootrem on the model: the root is the floor root on every path; with a remainder pointer the
    remainder is exact, with `remp == NULL` the second component is zero exactly for perfect k-th powers. -/
theorem rootrem_ok (U k : Nat) (w : Bool) (hU : 0 < U) (hk : 2 ≤ k) (hkB : k < B) (hsz : bitLen U ≤ 2 ^ 61) :
    ∃ R, rootrem U k w = some (iroot k U, R) ∧ (w = true → R = U - iroot k U ^ k) ∧
      (R = 0 ↔ iroot k U ^ k = U) := by
  have hk0 : 0 < k := by omega
  obtain ⟨r1, r2⟩ := iroot_spec k U hk0
  unfold rootrem
  dsimp only
  by_cases h1 : limbLen U < rootremThreshold
  · rw [if_pos h1]
    have h : limbLen U < 2 ^ 26 := Nat.lt_trans h1 (by decide)
    have hb : bitLen U ≤ 2 ^ 32 := by unfold limbLen at h; omega
    exact ⟨_, rootremBasecase_ok U k hU hk hkB hb, fun _ => rfl, by omega⟩
  · rw [if_neg h1]
    by_cases h2 : (!w && decide (limbLen U / k > 2)) = true
    · rw [if_pos h2]
      simp only [Bool.and_eq_true, Bool.not_eq_true', decide_eq_true_eq] at h2
      obtain ⟨hw, hq⟩ := h2
      subst hw
      -- size of the padded operand
      have h3k : 3 * k ≤ limbLen U := by
        have := (Nat.le_div_iff_mul_le hk0).mp hq
        omega
      have hpadsz : bitLen (U * B ^ k) ≤ 2 ^ 62 := by
        have hlt : U * B ^ k < 2 ^ (bitLen U + 64 * k) := by
          rw [pow_add]
          have : B ^ k = 2 ^ (64 * k) := by unfold B; rw [← pow_mul]
          rw [this]
          exact Nat.mul_lt_mul_of_pos_right (bitLen_spec U hU).2.1 (Nat.two_pow_pos _)
        have := bitLen_le_of_lt _ _ hlt
        unfold limbLen at h3k
        omega
      obtain ⟨S, R, ap, e, p1, p2⟩ := rootremInternal_ok (U * B ^ k) k true
        (Nat.mul_pos hU (pow_pos B_pos _)) hk hpadsz
      obtain ⟨q1, q2⟩ := iroot_padded U k hk0
      rw [e]
      simp only [Option.map_some]
      cases ap with
      | false =>
        obtain ⟨pS, pR⟩ := p1 rfl
        have hdiv : S / B = iroot k U := by
          rw [pS]
          apply Nat.div_eq_of_lt_le
          · exact q1
          · exact q2
        refine ⟨R, by rw [hdiv], by simp, ?_⟩
        have hle := (iroot_spec k (U * B ^ k) hk0).1
        rw [← padded_exact_iff U k hk0, pR]
        omega
      | true =>
        obtain ⟨-, a1, a2, a3, a4⟩ := p2 rfl
        have hdiv : S / B = iroot k U := by
          apply Nat.div_eq_of_lt_le
          · exact Nat.le_trans q1 a1
          · have hne : S ≠ (iroot k U + 1) * B := by
              intro h; rw [h, Nat.mul_mod_left] at a3; omega
            omega
        refine ⟨R, by rw [hdiv], by simp, ?_⟩
        have hRpos : 0 < R := by rw [a4]; exact Nat.mul_pos hU (pow_pos B_pos _)
        constructor
        · intro h; omega
        · intro h
          exfalso
          have e : (iroot k U * B) ^ k = U * B ^ k := by rw [Nat.mul_pow, h]
          have hs : iroot k U * B = iroot k (U * B ^ k) :=
            iroot_unique k _ _ hk0 (Nat.le_of_eq e) (by
              rw [← e]; exact Nat.pow_lt_pow_left (Nat.lt_succ_self _) (Nat.ne_of_gt hk0))
          have hB2 : 2 ≤ B := by unfold B; norm_num
          rcases Nat.lt_or_ge (iroot k (U * B ^ k)) S with hlt | hge
          · have : S = iroot k U * B + 1 := by omega
            rw [this, Nat.mul_add_mod_self_right, Nat.mod_eq_of_lt (by omega)] at a3
            omega
          · have : S = iroot k U * B := by omega
            rw [this, Nat.mul_mod_left] at a3
            omega
    · rw [if_neg h2]
      obtain ⟨S, R, ap, e, p1, p2⟩ := rootremInternal_ok U k false hU hk (by omega)
      cases ap with
      | true => exact absurd (p2 rfl).1 (by simp)
      | false =>
        obtain ⟨pS, pR⟩ := p1 rfl
        rw [e]
        simp only [Option.map_some]
        exact ⟨R, by rw [pS], fun _ => pR, by omega⟩

end Mpir.Rootrem
