/-
  Lemmas for C02 (schoolbook division, mpn_sb_div_qr): model equations on a window split into its low limbs
  and two top limbs, the arithmetic core of one loop iteration (special branch q = B-1; ordinary branch with the
  3/2 quotient estimate, borrow test and single add-back), the step specification and the loop invariant.
  Model: Mpir/Model/SbDiv.lean.  Property theorems: MpirProofs/Props/C02_sb.lean.
-/
import MpirProofs.Lemmas.Kernels
import MpirProofs.Lemmas.DivWord3by2
import Mpir.Model.SbDiv
import Mpir.Model.DivZ
namespace Mpir.SbDiv
open Mpir Mpir.DivWord

theorem getD_top0 (l : List Nat) (x y : Nat) : (l ++ [x, y]).getD l.length 0 = x := by
  simp [List.getD_eq_getElem?_getD]
theorem getD_top1 (l : List Nat) (x y : Nat) : (l ++ [x, y]).getD (l.length + 1) 0 = y := by
  simp [List.getD_eq_getElem?_getD]
theorem take_top (l : List Nat) (x y : Nat) : (l ++ [x, y]).take l.length = l := by
  simp
theorem take_top1 (l : List Nat) (x y : Nat) : (l ++ [x, y]).take (l.length + 1) = l ++ [x] := by
  rw [List.take_append, List.take_of_length_le (Nat.le_succ _)]; simp
theorem len_top (l : List Nat) (x y : Nat) : (l ++ [x, y]).length - 2 = l.length := by simp

theorem split_top2 (l : List Nat) (k : Nat) (h : l.length = k + 2) :
    l = l.take k ++ [l.getD k 0, l.getD (k + 1) 0] := by
  have h1 : l = l.take k ++ l.drop k := (List.take_append_drop k l).symm
  have h2 : (l.drop k).length = 2 := by simp [h]
  match hd : l.drop k, h2 with
  | [a, b], _ =>
    have ha : l.getD k 0 = a := by
      have := congrArg (fun t => t.getD 0 0) hd; simpa [List.getD_eq_getElem?_getD] using this
    have hb : l.getD (k + 1) 0 = b := by
      have := congrArg (fun t => t.getD 1 0) hd; simpa [List.getD_eq_getElem?_getD] using this
    rw [ha, hb, ← hd]; exact h1

theorem val_top2 (l : List Nat) (x y : Nat) : val (l ++ [x, y]) = val l + B ^ l.length * (x + B * y) := by
  rw [val_append]; simp [val_cons]
theorem val_top1 (l : List Nat) (x : Nat) : val (l ++ [x]) = val l + B ^ l.length * x := by
  rw [val_append]; simp [val_cons]

theorem val_take_top (l : List Nat) (j : Nat) (h : l.length = j + 1) :
    val (l.take j) + B ^ j * l.getD j 0 = val l := by
  have h2 : (l.drop j).length = 1 := by simp [h]
  rw [val_take_drop l j (by omega)]
  match hd : l.drop j, h2 with
  | [a], _ =>
    have ha : l.getD j 0 = a := by
      have := congrArg (fun t => t.getD 0 0) hd; simpa [List.getD_eq_getElem?_getD] using this
    rw [ha]; simp [val_cons]

theorem limb_getD {l : List Nat} (h : Limbs l) (i : Nat) : l.getD i 0 < B := by
  rw [List.getD_eq_getElem?_getD]
  rcases hi : l[i]? with _ | x
  · simpa using B_pos
  · simp only [Option.getD_some]
    exact h x (List.mem_of_getElem? hi)

/-- model equation of the special branch on a window split into low part and two top limbs -/
theorem sbSpecial_eq (dlo a : List Nat) (d0 d1 : Nat) :
    sbSpecial (dlo ++ [d0, d1]) a =
      (B - 1, ((submul_1 a (dlo ++ [d0, d1]) (B - 1)).1).take (dlo.length + 1),
        ((submul_1 a (dlo ++ [d0, d1]) (B - 1)).1).getD (dlo.length + 1) 0) := by
  unfold sbSpecial; simp only [len_top]

theorem sbRegular_eq (dlo alo : List Nat) (d0 d1 m0 m1 n1 dinv : Nat) (hlen : alo.length = dlo.length) :
    sbRegular (dlo ++ [d0, d1]) d1 d0 dinv (alo ++ [m0, m1]) n1 =
      (let qr := udiv_qr_3by2 n1 m1 m0 d1 d0 dinv
       let rc := submul_1 alo dlo qr.1
       let s := sub_333_0 qr.2.1 qr.2.2 rc.2
       if s.1 ≠ 0 then
         ((qr.1 + B - 1) % B, (add_n (rc.1 ++ [s.2.2]) (dlo ++ [d0])).1,
           (s.2.1 + d1 + (add_n (rc.1 ++ [s.2.2]) (dlo ++ [d0])).2) % B)
       else (qr.1, rc.1 ++ [s.2.2], s.2.1)) := by
  unfold sbRegular sbAddBack
  simp only [len_top, take_top, take_top1]
  rw [← hlen]
  simp only [getD_top0, getD_top1, take_top]

theorem sbStep_eq (dlo alo : List Nat) (d0 d1 m0 m1 n1 dinv : Nat) (hlen : alo.length = dlo.length) :
    sbStep (dlo ++ [d0, d1]) d1 d0 dinv (alo ++ [m0, m1]) n1 =
      if n1 = d1 ∧ m1 = d0 then sbSpecial (dlo ++ [d0, d1]) (alo ++ [m0, m1])
      else sbRegular (dlo ++ [d0, d1]) d1 d0 dinv (alo ++ [m0, m1]) n1 := by
  unfold sbStep
  simp only [len_top]
  rw [← hlen]
  simp only [getD_top1]
/-- the two top limbs of the partial remainder do not exceed the two top limbs of the divisor -/
theorem top2_le (P A Dl dd m0 m1 n1 : Nat) (_hP : 0 < P) (hDl : Dl < P)
    (hW : A + P * (m0 + B * m1) + P * B * B * n1 < B * (Dl + P * dd)) : n1 * B + m1 ≤ dd := by
  have hB := B_pos
  have h0 : B * Dl < B * P := Nat.mul_lt_mul_of_pos_left hDl hB
  have h1 : P * B * (n1 * B + m1) < P * B * (dd + 1) := by linarith [Nat.zero_le (P * m0)]
  have := Nat.lt_of_mul_lt_mul_left h1
  omega

theorem special_ge (P A Dl dd m0 b1 : Nat) (hDl : Dl < P) (hdd : b1 ≤ dd) :
    b1 * (Dl + P * dd) ≤ A + P * (m0 + (b1 + 1) * dd) := by
  have : b1 * Dl ≤ dd * P := Nat.mul_le_mul hdd hDl.le
  linarith [Nat.zero_le (P * m0), Nat.zero_le (P * dd)]

theorem special_arith (PD V va n1 cy vr b1 : Nat) (hV : V < PD) (hvr : vr < PD)
    (hsub : vr + V * b1 = va + PD * cy) (hW : va + PD * n1 < (b1 + 1) * V) (hge : b1 * V ≤ va + PD * n1) :
    cy = n1 ∧ va + PD * n1 = b1 * V + vr ∧ vr < V := by
  have hcy : cy = n1 := by
    rcases Nat.lt_trichotomy cy n1 with h | h | h
    · exfalso
      have : PD * (cy + 1) ≤ PD * n1 := Nat.mul_le_mul_left _ h
      linarith
    · exact h
    · exfalso
      have : PD * (n1 + 1) ≤ PD * cy := Nat.mul_le_mul_left _ h
      linarith
  subst hcy
  refine ⟨rfl, by linarith, by linarith⟩

theorem regular_nb (P A Dl dd q rem cy2 vrl t : Nat) (hA : A < P) (hrem : rem < dd)
    (hsub : vrl + Dl * q = A + P * cy2) (ht : t + cy2 = rem) :
    A + P * (dd * q + rem) = q * (Dl + P * dd) + (vrl + P * t) ∧ vrl + P * t < Dl + P * dd := by
  subst ht
  have : P * (t + cy2 + 1) ≤ P * dd := Nat.mul_le_mul_left _ hrem
  constructor
  · linarith
  · linarith [Nat.zero_le (Dl * q)]

theorem regular_b (P A Dl dd d1 d0 q rem cy2 vrl n1s n0s vs c : Nat) (hDl : Dl < P)
    (hvrl : vrl < P) (hq : q < B) (hrem : rem < dd) (hb : rem < cy2) (hdd : dd = d1 * B + d0) (hddB : B ≤ dd)
    (hddlt : dd < B * B)
    (hsub : vrl + Dl * q = A + P * cy2) (ht : n1s * B + n0s + cy2 = rem + B * B)
    (hadd : vs + P * B * c = vrl + P * n0s + (Dl + P * d0)) (hvs : vs < P * B) :
    ∃ q' K', q = q' + 1 ∧ n1s + d1 + c = K' + B ∧ K' < B ∧
      A + P * (dd * q + rem) = q' * (Dl + P * dd) + (vs + P * B * K') ∧ vs + P * B * K' < Dl + P * dd := by
  have hB := B_pos
  -- (ii) W < q V
  have h2 : A + P * rem < Dl * q := by
    have : P * (rem + 1) ≤ P * cy2 := Nat.mul_le_mul_left _ hb
    linarith
  have hq1 : 1 ≤ q := by
    rcases Nat.eq_zero_or_pos q with h | h
    · subst h; simp at h2
    · exact h
  obtain ⟨q', rfl⟩ : ∃ q', q = q' + 1 := ⟨q - 1, by omega⟩
  -- (iii) q Dl ≤ P dd
  have h3 : Dl * (q' + 1) ≤ P * dd := by
    have : Dl * (q' + 1) ≤ P * B := Nat.mul_le_mul hDl.le hq.le
    have : P * B ≤ P * dd := Nat.mul_le_mul_left _ hddB
    linarith
  -- (i) E + q V = W + V + PD
  have hE : vs + P * B * (n1s + d1 + c) + (q' + 1) * (Dl + P * dd) =
      A + P * (dd * (q' + 1) + rem) + (Dl + P * dd) + P * B * B := by
    subst hdd
    have h5 : P * (n1s * B + n0s + cy2) = P * (rem + B * B) := by rw [ht]
    linarith
  have hVlt : Dl + P * dd < P * B * B := by
    have : P * (dd + 1) ≤ P * (B * B) := Nat.mul_le_mul_left _ hddlt
    linarith
  generalize n1s + d1 + c = K at *
  have hK1 : B ≤ K := by
    by_contra hlt
    have : P * B * (K + 1) ≤ P * B * B := Nat.mul_le_mul_left _ (by omega)
    linarith [Nat.zero_le (P * rem)]
  have hK2 : K < 2 * B := by
    by_contra hge
    have : P * B * (2 * B) ≤ P * B * K := Nat.mul_le_mul_left _ (by omega)
    linarith
  obtain ⟨K', rfl⟩ : ∃ K', K = K' + B := ⟨K - B, by omega⟩
  refine ⟨q', K', rfl, rfl, by omega, ?_, ?_⟩
  · linarith
  · linarith
theorem sub_333_0_spec (rem cy2 : Nat) (hrem : rem < B * B) (hcy : cy2 < B) :
    (sub_333_0 (rem / B) (rem % B) cy2).2.1 < B ∧ (sub_333_0 (rem / B) (rem % B) cy2).2.2 < B ∧
    (cy2 ≤ rem → (sub_333_0 (rem / B) (rem % B) cy2).1 = 0 ∧
      (sub_333_0 (rem / B) (rem % B) cy2).2.1 * B + (sub_333_0 (rem / B) (rem % B) cy2).2.2 + cy2 = rem) ∧
    (rem < cy2 → (sub_333_0 (rem / B) (rem % B) cy2).1 ≠ 0 ∧
      (sub_333_0 (rem / B) (rem % B) cy2).2.1 * B + (sub_333_0 (rem / B) (rem % B) cy2).2.2 + cy2 = rem + B * B) := by
  unfold sub_333_0
  simp only [B_eq] at *
  norm_num at *
  omega

theorem pow_k2 (k : Nat) : B ^ (k + 2) = B ^ k * B * B := by rw [pow_succ, pow_succ]
theorem pow_k1 (k : Nat) : B ^ (k + 1) = B ^ k * B := by rw [pow_succ]

theorem val_d_lt (dlo : List Nat) (d0 d1 : Nat) (hdlo : Limbs dlo) (hd0 : d0 < B) (hd1 : d1 < B) :
    val dlo + B ^ dlo.length * (d0 + B * d1) < B ^ dlo.length * B * B := by
  have h1 := val_lt dlo hdlo
  generalize B ^ dlo.length = P at *
  have : P * (d0 + B * d1 + 1) ≤ P * (B * B) := Nat.mul_le_mul_left _ (by nlinarith)
  linarith

/-- the branch `n1 == d1 && np[1] == d0`: q = B-1 is the exact quotient limb -/
theorem sbSpecial_spec (dlo alo : List Nat) (d0 d1 m0 : Nat) (hlen : alo.length = dlo.length)
    (hdlo : Limbs dlo) (halo : Limbs alo) (hd0 : d0 < B) (hd1 : d1 < B) (hm0 : m0 < B)
    (hnorm : B / 2 ≤ d1)
    (hW : val (alo ++ [m0, d0]) + B ^ (dlo.length + 2) * d1 < B * val (dlo ++ [d0, d1])) :
    ∃ w n1', sbSpecial (dlo ++ [d0, d1]) (alo ++ [m0, d0]) = (B - 1, w, n1') ∧
      val (alo ++ [m0, d0]) + B ^ (dlo.length + 2) * d1
        = (B - 1) * val (dlo ++ [d0, d1]) + (val w + B ^ (dlo.length + 1) * n1') ∧
      val w + B ^ (dlo.length + 1) * n1' < val (dlo ++ [d0, d1]) ∧
      Limbs w ∧ w.length = dlo.length + 1 ∧ n1' < B := by
  have hB := B_pos
  have hd : Limbs (dlo ++ [d0, d1]) := Limbs_append.mpr ⟨hdlo, by
    intro x hx; simp at hx; rcases hx with rfl | rfl <;> assumption⟩
  have ha : Limbs (alo ++ [m0, d0]) := Limbs_append.mpr ⟨halo, by
    intro x hx; simp at hx; rcases hx with rfl | rfl <;> assumption⟩
  have hl : (alo ++ [m0, d0]).length = (dlo ++ [d0, d1]).length := by simp [hlen]
  obtain ⟨hv, hc, hrl, hrn⟩ := submul1C_val (B - 1) (by omega) _ _ 0 ha hd hl hB
  rw [sbSpecial_eq]
  change val (submul_1 _ _ _).1 + _ + 0 = _ + _ * (submul_1 _ _ _).2 at hv
  change (submul_1 _ _ _).2 < B at hc
  change Limbs (submul_1 _ _ _).1 at hrl
  change (submul_1 _ _ _).1.length = _ at hrn
  generalize submul_1 (alo ++ [m0, d0]) (dlo ++ [d0, d1]) (B - 1) = res at *
  obtain ⟨r, cy⟩ := res
  simp only at hv hc hrl hrn ⊢
  have hrn' : r.length = (dlo.length + 1) + 1 := by rw [hrn]; simp
  have eV : val (dlo ++ [d0, d1]) = val dlo + B ^ dlo.length * (d0 + B * d1) := val_top2 _ _ _
  have eA : val (alo ++ [m0, d0]) = val alo + B ^ dlo.length * (m0 + B * d0) := by rw [val_top2, hlen]
  have eL : (dlo ++ [d0, d1]).length = dlo.length + 2 := by simp
  have hvr := val_lt r hrl
  have hVlt := val_d_lt dlo d0 d1 hdlo hd0 hd1
  have hDlt := val_lt dlo hdlo
  rw [hrn', show dlo.length + 1 + 1 = dlo.length + 2 from rfl, pow_k2] at hvr
  rw [eL, eV, eA, pow_k2] at hv
  rw [eV, eA, pow_k2] at hW
  obtain ⟨b1, hb1⟩ : ∃ b1, B = b1 + 1 := ⟨B - 1, by omega⟩
  have hbb : B - 1 = b1 := by omega
  have hdd : b1 ≤ d0 + B * d1 := by
    have : B / 2 * 2 ≤ d1 * 2 := Nat.mul_le_mul_right _ hnorm
    simp only [B_eq] at *; omega
  have hge := special_ge (B ^ dlo.length) (val alo) (val dlo) (d0 + B * d1) m0 b1 hDlt hdd
  rw [← hb1] at hge
  rw [hbb] at hv
  have key := special_arith (B ^ dlo.length * B * B) (val dlo + B ^ dlo.length * (d0 + B * d1))
    (val alo + B ^ dlo.length * (m0 + B * d0)) d1 cy (val r) b1 hVlt hvr (by linarith)
    (by rw [← hb1]; exact hW) (by
      have e : val alo + B ^ dlo.length * (m0 + B * d0) + B ^ dlo.length * B * B * d1
          = val alo + B ^ dlo.length * (m0 + B * (d0 + B * d1)) := by ring
      rw [e]; exact hge)
  refine ⟨_, _, rfl, ?_, ?_, Limbs_take hrl _, by simp [hrn'], limb_getD hrl _⟩
  · rw [val_take_top r _ hrn', eV, eA, pow_k2, hbb]; exact key.2.1
  · rw [val_take_top r _ hrn', eV]; exact key.2.2

theorem Limbs_snoc {l : List Nat} {x : Nat} (hl : Limbs l) (hx : x < B) : Limbs (l ++ [x]) :=
  Limbs_append.mpr ⟨hl, by intro y hy; simp at hy; subst hy; exact hx⟩

/-- the ordinary branch: 3/2 quotient estimate, submul_1, borrow test, at most one add-back -/
theorem sbRegular_spec (dlo alo : List Nat) (d0 d1 m0 m1 n1 dinv : Nat) (hlen : alo.length = dlo.length)
    (hdlo : Limbs dlo) (halo : Limbs alo) (hd0 : d0 < B) (hd1 : d1 < B) (hm0 : m0 < B) (hm1 : m1 < B)
    (hn1 : n1 < B) (hnorm : B / 2 ≤ d1) (hdinv : dinv = invert_pi1 d1 d0)
    (hN : n1 * B + m1 < d1 * B + d0) :
    ∃ q w n1', sbRegular (dlo ++ [d0, d1]) d1 d0 dinv (alo ++ [m0, m1]) n1 = (q, w, n1') ∧
      val (alo ++ [m0, m1]) + B ^ (dlo.length + 2) * n1
        = q * val (dlo ++ [d0, d1]) + (val w + B ^ (dlo.length + 1) * n1') ∧
      val w + B ^ (dlo.length + 1) * n1' < val (dlo ++ [d0, d1]) ∧
      q < B ∧ Limbs w ∧ w.length = dlo.length + 1 ∧ n1' < B := by
  have hB := B_pos
  have eV : val (dlo ++ [d0, d1]) = val dlo + B ^ dlo.length * (d0 + B * d1) := val_top2 _ _ _
  have eA : val (alo ++ [m0, m1]) = val alo + B ^ dlo.length * (m0 + B * m1) := by rw [val_top2, hlen]
  have hDlt := val_lt dlo hdlo
  have hAlt := val_lt alo halo
  rw [hlen] at hAlt
  rw [sbRegular_eq _ _ _ _ _ _ _ _ hlen,
    udiv_qr_3by2_eq n1 m1 m0 d1 d0 dinv hn1 hm1 hm0 hd1 hd0 hnorm hN
      (by rw [hdinv]; exact invert_pi1_eq d1 d0 hnorm hd1 hd0)]
  simp only []
  -- the 3/2 division
  have hddpos : 0 < d1 * B + d0 := by omega
  have hdm := Nat.div_add_mod (n1 * B * B + m1 * B + m0) (d1 * B + d0)
  have hrem := Nat.mod_lt (n1 * B * B + m1 * B + m0) hddpos
  have hddlt : d1 * B + d0 < B * B := by nlinarith
  have hqB : (n1 * B * B + m1 * B + m0) / (d1 * B + d0) < B := by
    rw [Nat.div_lt_iff_lt_mul hddpos]
    nlinarith
  have hddB : B ≤ d1 * B + d0 := by
    have : B / 2 * 2 ≤ d1 * 2 := Nat.mul_le_mul_right _ hnorm
    have : 1 * B ≤ d1 * B := Nat.mul_le_mul_right _ (by simp only [B_eq] at *; omega)
    omega
  generalize (n1 * B * B + m1 * B + m0) / (d1 * B + d0) = q at *
  generalize (n1 * B * B + m1 * B + m0) % (d1 * B + d0) = rem at *
  -- submul_1 on the low limbs
  obtain ⟨hv, hc, hrl, hrn⟩ := submul1C_val q hqB alo dlo 0 halo hdlo hlen hB
  change val (submul_1 _ _ _).1 + _ + 0 = _ + _ * (submul_1 _ _ _).2 at hv
  change (submul_1 _ _ _).2 < B at hc
  change Limbs (submul_1 _ _ _).1 at hrl
  change (submul_1 _ _ _).1.length = _ at hrn
  generalize submul_1 alo dlo q = res at *
  obtain ⟨rl, cy2⟩ := res
  simp only at hv hc hrl hrn ⊢
  have hrlt := val_lt rl hrl
  rw [hrn] at hrlt
  -- the borrow
  obtain ⟨hs1, hs0, hnb, hbo⟩ := sub_333_0_spec rem cy2 (by omega) hc
  generalize sub_333_0 (rem / B) (rem % B) cy2 = s at *
  obtain ⟨cy, n1s, n0s⟩ := s
  simp only at hs1 hs0 hnb hbo ⊢
  have hWN : val alo + B ^ dlo.length * (m0 + B * m1) + B ^ dlo.length * B * B * n1
      = val alo + B ^ dlo.length * ((d1 * B + d0) * q + rem) := by rw [hdm]; ring
  by_cases hcase : cy2 ≤ rem
  · obtain ⟨hcy, ht⟩ := hnb hcase
    rw [if_neg (by simpa using hcy)]
    obtain ⟨k1, k2⟩ := regular_nb (B ^ dlo.length) (val alo) (val dlo) (d1 * B + d0) q rem cy2 (val rl)
      (n1s * B + n0s) hAlt hrem (by linarith) ht
    refine ⟨_, _, _, rfl, ?_, ?_, hqB, Limbs_snoc hrl hs0, by simp [hrn], hs1⟩
    · rw [eV, eA, pow_k2, pow_k1, val_top1, hrn, hWN, k1]; ring
    · rw [eV, val_top1, hrn, pow_k1]
      have e : val rl + B ^ dlo.length * n0s + B ^ dlo.length * B * n1s
          = val rl + B ^ dlo.length * (n1s * B + n0s) := by ring
      have e2 : val dlo + B ^ dlo.length * (d0 + B * d1) = val dlo + B ^ dlo.length * (d1 * B + d0) := by ring
      rw [e, e2]; exact k2
  · obtain ⟨hcy, ht⟩ := hbo (by omega)
    rw [if_pos hcy]
    have hr1 : Limbs (rl ++ [n0s]) := Limbs_snoc hrl hs0
    have hd1' : Limbs (dlo ++ [d0]) := Limbs_snoc hdlo hd0
    obtain ⟨av, ac, al, an⟩ := addNC_val (rl ++ [n0s]) (dlo ++ [d0]) 0 hr1 hd1' (by simp [hrn]) (by omega)
    change val (add_n _ _).1 + _ * (add_n _ _).2 = _ at av
    change (add_n _ _).2 ≤ 1 at ac
    change Limbs (add_n _ _).1 at al
    change (add_n _ _).1.length = _ at an
    generalize add_n (rl ++ [n0s]) (dlo ++ [d0]) = sc at *
    obtain ⟨vs, c⟩ := sc
    simp only at av ac al an ⊢
    have hvs := val_lt vs al
    have hlen1 : (rl ++ [n0s]).length = dlo.length + 1 := by simp [hrn]
    rw [an, hlen1, pow_k1] at hvs
    rw [hlen1, pow_k1, val_top1, val_top1, hrn] at av
    obtain ⟨q', K', e1, e2, e3, e4, e5⟩ := regular_b (B ^ dlo.length) (val alo) (val dlo) (d1 * B + d0) d1 d0 q rem
      cy2 (val rl) n1s n0s (val vs) c hDlt hrlt hqB hrem (by omega) rfl hddB hddlt
      (by linarith) ht (by linarith) hvs
    have eq' : (q + B - 1) % B = q' := by
      rw [e1, show q' + 1 + B - 1 = q' + B by omega, Nat.add_mod_right, Nat.mod_eq_of_lt (by omega)]
    have eK : (n1s + d1 + c) % B = K' := by rw [e2, Nat.add_mod_right, Nat.mod_eq_of_lt e3]
    rw [eq', eK]
    refine ⟨_, _, _, rfl, ?_, ?_, by omega, al, by rw [an, hlen1], e3⟩
    · rw [eV, eA, pow_k2, pow_k1, hWN, e4]; ring
    · rw [eV, pow_k1]
      have e2 : val dlo + B ^ dlo.length * (d0 + B * d1) = val dlo + B ^ dlo.length * (d1 * B + d0) := by ring
      rw [e2]; exact e5

theorem Limbs_pair {x y : Nat} (hx : x < B) (hy : y < B) : Limbs [x, y] := by
  intro z hz; simp at hz; rcases hz with rfl | rfl <;> assumption

/-- one loop iteration: if the window (dn+1 limbs, top limb in the register) is below B·d, the step returns the
    exact quotient limb and leaves the exact remainder (dn limbs, top limb in the register) -/
theorem sbStep_spec (dlo alo : List Nat) (d0 d1 m0 m1 n1 dinv : Nat) (hlen : alo.length = dlo.length)
    (hdlo : Limbs dlo) (halo : Limbs alo) (hd0 : d0 < B) (hd1 : d1 < B) (hm0 : m0 < B) (hm1 : m1 < B)
    (hn1 : n1 < B) (hnorm : B / 2 ≤ d1) (hdinv : dinv = invert_pi1 d1 d0)
    (hW : val (alo ++ [m0, m1]) + B ^ (dlo.length + 2) * n1 < B * val (dlo ++ [d0, d1])) :
    ∃ q w n1', sbStep (dlo ++ [d0, d1]) d1 d0 dinv (alo ++ [m0, m1]) n1 = (q, w, n1') ∧
      val (alo ++ [m0, m1]) + B ^ (dlo.length + 2) * n1
        = q * val (dlo ++ [d0, d1]) + (val w + B ^ (dlo.length + 1) * n1') ∧
      val w + B ^ (dlo.length + 1) * n1' < val (dlo ++ [d0, d1]) ∧
      q < B ∧ Limbs w ∧ w.length = dlo.length + 1 ∧ n1' < B := by
  rw [sbStep_eq _ _ _ _ _ _ _ _ hlen]
  by_cases h : n1 = d1 ∧ m1 = d0
  · obtain ⟨rfl, rfl⟩ := h
    rw [if_pos ⟨rfl, rfl⟩]
    obtain ⟨w, n1', e, h1, h2, h3, h4, h5⟩ := sbSpecial_spec dlo alo m1 n1 m0 hlen hdlo halo hd0 hd1 hm0 hnorm hW
    exact ⟨_, w, n1', e, h1, h2, by have := B_pos; omega, h3, h4, h5⟩
  · rw [if_neg h]
    have hN : n1 * B + m1 < d1 * B + d0 := by
      have hW' := hW
      rw [val_top2, val_top2, hlen, pow_k2] at hW'
      have := top2_le (B ^ dlo.length) (val alo) (val dlo) (d0 + B * d1) m0 m1 n1 (by have := B_pos; positivity)
        (val_lt dlo hdlo) hW'
      simp only [B_eq] at *; omega
    exact sbRegular_spec dlo alo d0 d1 m0 m1 n1 dinv hlen hdlo halo hd0 hd1 hm0 hm1 hn1 hnorm hdinv hN

theorem sbLoop_cons (dp : List Nat) (d1 d0 dinv x : Nat) (xs w : List Nat) (n1 : Nat) (qs : List Nat) :
    sbLoop dp d1 d0 dinv (x :: xs) w n1 qs =
      sbLoop dp d1 d0 dinv xs (sbStep dp d1 d0 dinv (x :: w) n1).2.1 (sbStep dp d1 d0 dinv (x :: w) n1).2.2
        ((sbStep dp d1 d0 dinv (x :: w) n1).1 :: qs) := rfl

/-- loop invariant of sb_div_qr.c:75-102: the partial remainder stays below d and quotient limbs times d plus
    remainder reconstitute the consumed dividend limbs -/
theorem sbLoop_spec (dlo : List Nat) (d0 d1 dinv : Nat) (hdlo : Limbs dlo) (hd0 : d0 < B) (hd1 : d1 < B)
    (hnorm : B / 2 ≤ d1) (hdinv : dinv = invert_pi1 d1 d0) :
    ∀ (xs w : List Nat) (n1 : Nat) (qs : List Nat), Limbs xs → Limbs w → w.length = dlo.length + 1 → n1 < B →
      val w + B ^ (dlo.length + 1) * n1 < val (dlo ++ [d0, d1]) →
      ∃ ql w' n1', sbLoop (dlo ++ [d0, d1]) d1 d0 dinv xs w n1 qs = (ql ++ qs, w', n1') ∧
        ql.length = xs.length ∧ Limbs ql ∧
        val xs.reverse + B ^ xs.length * (val w + B ^ (dlo.length + 1) * n1)
          = val ql * val (dlo ++ [d0, d1]) + (val w' + B ^ (dlo.length + 1) * n1') ∧
        val w' + B ^ (dlo.length + 1) * n1' < val (dlo ++ [d0, d1]) ∧
        Limbs w' ∧ w'.length = dlo.length + 1 ∧ n1' < B
  | [], w, n1, qs, _, hw, hwl, hn1, hR => by
    refine ⟨[], w, n1, rfl, rfl, Limbs_nil, by simp, hR, hw, hwl, hn1⟩
  | x :: xs, w, n1, qs, hxs, hw, hwl, hn1, hR => by
    have ⟨hx, hxs'⟩ := Limbs_cons.mp hxs
    have ha : Limbs (x :: w) := Limbs_cons.mpr ⟨hx, hw⟩
    have hal : (x :: w).length = dlo.length + 2 := by simp [hwl]
    have hsplit := split_top2 (x :: w) dlo.length hal
    have halo : Limbs ((x :: w).take dlo.length) := Limbs_take ha _
    have hm0 := limb_getD ha dlo.length
    have hm1 := limb_getD ha (dlo.length + 1)
    have hlen : ((x :: w).take dlo.length).length = dlo.length := by
      rw [List.length_take, hal]; omega
    generalize (x :: w).take dlo.length = alo at *
    generalize (x :: w).getD dlo.length 0 = m0 at *
    generalize (x :: w).getD (dlo.length + 1) 0 = m1 at *
    have hW : val (alo ++ [m0, m1]) + B ^ (dlo.length + 2) * n1 < B * val (dlo ++ [d0, d1]) := by
      rw [← hsplit, val_cons, pow_succ]
      have : B * (val w + B ^ (dlo.length + 1) * n1 + 1) ≤ B * val (dlo ++ [d0, d1]) := Nat.mul_le_mul_left _ hR
      have e : x + B * val w + B ^ (dlo.length + 1) * B * n1 + B
          = B * (val w + B ^ (dlo.length + 1) * n1 + 1) + x := by ring
      omega
    obtain ⟨q, w1, n1a, es, h1, h2, hq, hw1, hw1l, hn1a⟩ :=
      sbStep_spec dlo alo d0 d1 m0 m1 n1 dinv hlen hdlo halo hd0 hd1 hm0 hm1 hn1 hnorm hdinv hW
    obtain ⟨ql, w', n1', el, hqll, hql, h3, h4, hw', hw'l, hn1'⟩ :=
      sbLoop_spec dlo d0 d1 dinv hdlo hd0 hd1 hnorm hdinv xs w1 n1a (q :: qs) hxs' hw1 hw1l hn1a h2
    rw [sbLoop_cons, hsplit, es]
    simp only []
    rw [el]
    refine ⟨ql ++ [q], w', n1', by simp, by simp [hqll], Limbs_snoc hql hq, ?_, h4, hw', hw'l, hn1'⟩
    rw [List.reverse_cons, val_top1, val_top1, List.length_reverse, hqll, List.length_cons, pow_succ]
    rw [← hsplit, val_cons, pow_succ] at h1
    have e : val xs.reverse + B ^ xs.length * x + B ^ xs.length * B * (val w + B ^ (dlo.length + 1) * n1)
        = val xs.reverse + B ^ xs.length * (x + B * val w + B ^ (dlo.length + 1) * B * n1) := by ring
    rw [e, h1]
    have e2 : (val ql + B ^ xs.length * q) * val (dlo ++ [d0, d1]) + (val w' + B ^ (dlo.length + 1) * n1')
        = B ^ xs.length * (q * val (dlo ++ [d0, d1]))
          + (val ql * val (dlo ++ [d0, d1]) + (val w' + B ^ (dlo.length + 1) * n1')) := by ring
    rw [e2, ← h3]; ring

/-- the initial compare-and-subtract sb_div_qr.c:64-66 on the dn high limbs -/
theorem sb_init (hi d : List Nat) (hhi : Limbs hi) (hd : Limbs d) (hl : hi.length = d.length)
    (h2 : B ^ d.length ≤ 2 * val d) :
    ∃ qh hi', (if cmp hi d ≥ 0 then 1 else 0) = qh ∧
      (if qh ≠ 0 then (sub_n hi d).1 else hi) = hi' ∧
      qh ≤ 1 ∧ val hi = qh * val d + val hi' ∧ val hi' < val d ∧ Limbs hi' ∧ hi'.length = d.length := by
  have hc := cmpRev_spec hi.reverse d.reverse (Limbs_reverse hhi) (Limbs_reverse hd) (by simpa using hl)
  rw [List.reverse_reverse, List.reverse_reverse] at hc
  change (cmp hi d = -1 ∧ _) ∨ (cmp hi d = 0 ∧ _) ∨ (cmp hi d = 1 ∧ _) at hc
  have hlt := val_lt hi hhi
  rw [hl] at hlt
  have hge : cmp hi d ≥ 0 → val d ≤ val hi := by
    rcases hc with ⟨e, _⟩ | ⟨_, h⟩ | ⟨_, h⟩
    · rw [e]; intro h; exact absurd h (by decide)
    · intro _; omega
    · intro _; omega
  have hlt' : ¬ cmp hi d ≥ 0 → val hi < val d := by
    rcases hc with ⟨_, h⟩ | ⟨e, _⟩ | ⟨e, _⟩
    · intro _; exact h
    · rw [e]; intro h; exact absurd (by decide) h
    · rw [e]; intro h; exact absurd (by decide) h
  by_cases hq : cmp hi d ≥ 0
  · obtain ⟨sv, sc, sl, sn⟩ := subNC_val hi d 0 hhi hd hl (by omega)
    change val (sub_n hi d).1 + _ + 0 = _ + _ * (sub_n hi d).2 at sv
    change (sub_n hi d).2 ≤ 1 at sc
    change Limbs (sub_n hi d).1 at sl
    change (sub_n hi d).1.length = _ at sn
    refine ⟨1, (sub_n hi d).1, by rw [if_pos hq], by simp, le_refl _, ?_, ?_, sl, by rw [sn, hl]⟩
    all_goals
      have := hge hq
      have hr := val_lt _ sl
      rw [sn, hl] at hr
      rw [hl] at sv
      generalize (sub_n hi d) = res at *
      obtain ⟨r, c⟩ := res
      simp only at sv sc hr ⊢
      have hc0 : c = 0 := by
        rcases Nat.eq_zero_or_pos c with h | h
        · exact h
        · have : c = 1 := by omega
          subst this; omega
      subst hc0
      omega
  · exact ⟨0, hi, by rw [if_neg hq], by simp, by omega, by simp, hlt' hq, hhi, hl⟩

theorem sb_div_qr_eq (n dlo : List Nat) (d0 d1 dinv : Nat) :
    sb_div_qr n (dlo ++ [d0, d1]) dinv =
      (let hi := n.drop (n.length - (dlo.length + 2))
       let qh := if cmp hi (dlo ++ [d0, d1]) ≥ 0 then 1 else 0
       let hi' := if qh ≠ 0 then (sub_n hi (dlo ++ [d0, d1])).1 else hi
       let s := sbLoop (dlo ++ [d0, d1]) d1 d0 dinv (n.take (n.length - (dlo.length + 2))).reverse
         (hi'.take (dlo.length + 1)) (hi'.getD (dlo.length + 1) 0) []
       (s.1, s.2.1 ++ [s.2.2], qh)) := by
  have e0 : (dlo ++ [d0, d1]).length = dlo.length + 2 := by simp
  unfold sb_div_qr
  simp only [e0, show dlo.length + 2 - 1 = dlo.length + 1 from rfl, show dlo.length + 2 - 2 = dlo.length from rfl,
    getD_top0, getD_top1]

theorem norm_pow (dlo : List Nat) (d0 d1 : Nat) (hnorm : B / 2 ≤ d1) :
    B ^ (dlo.length + 2) ≤ 2 * val (dlo ++ [d0, d1]) := by
  rw [val_top2, pow_k2]
  have : B ≤ 2 * d1 := by simp only [B_eq] at *; omega
  have : B ^ dlo.length * B * B ≤ B ^ dlo.length * B * (2 * d1) := Nat.mul_le_mul_left _ this
  have e : 2 * (val dlo + B ^ dlo.length * (d0 + B * d1))
      = B ^ dlo.length * B * (2 * d1) + (2 * val dlo + 2 * (B ^ dlo.length * d0)) := by ring
  omega

/-- mpn_sb_div_qr on a divisor written as low limbs and two top limbs -/
theorem sb_div_qr_split (n dlo : List Nat) (d0 d1 dinv : Nat) (hnn : dlo.length + 2 ≤ n.length)
    (hn : Limbs n) (hdlo : Limbs dlo) (hd0 : d0 < B) (hd1 : d1 < B) (hnorm : B / 2 ≤ d1)
    (hdinv : dinv = invert_pi1 d1 d0) :
    ∃ q r qh, sb_div_qr n (dlo ++ [d0, d1]) dinv = (q, r, qh) ∧
      val n = (qh * B ^ (n.length - (dlo.length + 2)) + val q) * val (dlo ++ [d0, d1]) + val r ∧
      val r < val (dlo ++ [d0, d1]) ∧ qh ≤ 1 ∧ Limbs q ∧ q.length = n.length - (dlo.length + 2) ∧
      Limbs r ∧ r.length = dlo.length + 2 := by
  have hd : Limbs (dlo ++ [d0, d1]) := Limbs_append.mpr ⟨hdlo, Limbs_pair hd0 hd1⟩
  have hdl : (dlo ++ [d0, d1]).length = dlo.length + 2 := by simp
  have hhi : Limbs (n.drop (n.length - (dlo.length + 2))) := Limbs_drop hn _
  have hhil : (n.drop (n.length - (dlo.length + 2))).length = (dlo ++ [d0, d1]).length := by
    rw [List.length_drop, hdl]; omega
  have hlo : Limbs (n.take (n.length - (dlo.length + 2))).reverse := Limbs_reverse (Limbs_take hn _)
  have hnv := val_take_drop n (n.length - (dlo.length + 2)) (by omega)
  have hlol : (n.take (n.length - (dlo.length + 2))).reverse.length = n.length - (dlo.length + 2) := by
    rw [List.length_reverse, List.length_take]; omega
  obtain ⟨qh, hi', e1, e2, hqh, hv, hlt, hl', hll'⟩ :=
    sb_init _ _ hhi hd hhil (by rw [hdl]; exact norm_pow dlo d0 d1 hnorm)
  rw [sb_div_qr_eq]
  simp only []
  rw [e1, e2]
  rw [hdl] at hll'
  have htop := val_take_top hi' (dlo.length + 1) hll'
  obtain ⟨ql, w', n1', el, hqll, hql, h3, h4, hw', hw'l, hn1'⟩ :=
    sbLoop_spec dlo d0 d1 dinv hdlo hd0 hd1 hnorm hdinv (n.take (n.length - (dlo.length + 2))).reverse
      (hi'.take (dlo.length + 1)) (hi'.getD (dlo.length + 1) 0) [] hlo (Limbs_take hl' _)
      (by rw [List.length_take, hll']; omega) (limb_getD hl' _) (by rw [htop]; exact hlt)
  rw [el]
  simp only [List.append_nil]
  rw [htop, List.reverse_reverse, hlol] at h3
  refine ⟨ql, w' ++ [n1'], qh, rfl, ?_, ?_, hqh, hql, by rw [hqll, hlol], Limbs_snoc hw' hn1', by simp [hw'l]⟩
  · rw [val_top1, hw'l, hnv, hv]
    generalize val (dlo ++ [d0, d1]) = V at *
    generalize B ^ (n.length - (dlo.length + 2)) = Q at *
    have e : val (List.take (n.length - (dlo.length + 2)) n) + Q * (qh * V + val hi')
        = (val (List.take (n.length - (dlo.length + 2)) n) + Q * val hi') + Q * qh * V := by ring
    rw [e, h3]; ring
  · rw [val_top1, hw'l]; exact h4

/-- full correctness of the model of mpn_sb_div_qr -/
theorem sb_div_qr_correct (n d : List Nat) (dinv : Nat) (hdn : 3 ≤ d.length) (hnn : d.length ≤ n.length)
    (hnorm : B / 2 ≤ d.getD (d.length - 1) 0) (hn : Limbs n) (hd : Limbs d)
    (hdinv : dinv = invert_pi1 (d.getD (d.length - 1) 0) (d.getD (d.length - 2) 0)) :
    ∃ q r qh, sb_div_qr n d dinv = (q, r, qh) ∧
      val n = (qh * B ^ (n.length - d.length) + val q) * val d + val r ∧
      val r < val d ∧ qh ≤ 1 ∧ Limbs q ∧ q.length = n.length - d.length ∧ Limbs r ∧ r.length = d.length := by
  obtain ⟨k, hk⟩ : ∃ k, d.length = k + 2 := ⟨d.length - 2, by omega⟩
  have hsplit := split_top2 d k hk
  have hdlo := Limbs_take hd k
  have hd0 := limb_getD hd k
  have hd1 := limb_getD hd (k + 1)
  have hlen : (d.take k).length = k := by rw [List.length_take, hk]; omega
  rw [hk, show k + 2 - 1 = k + 1 from rfl] at hnorm hdinv
  rw [show k + 2 - 2 = k from rfl] at hdinv
  rw [hk] at hnn ⊢
  generalize d.take k = dlo at *
  generalize d.getD k 0 = d0 at *
  generalize d.getD (k + 1) 0 = d1 at *
  subst hsplit
  subst hlen
  exact sb_div_qr_split n dlo d0 d1 dinv hnn hn hdlo hd0 hd1 hnorm hdinv

/-! ### link to the value-level contract `DivZ.mpnDivQr` -/

theorem toLimbs_succ (k v : Nat) : toLimbs (k + 1) v = v % B :: toLimbs k (v / B) := rfl

theorem toLimbs_val_add : ∀ (l : List Nat) (h : Nat), Limbs l → toLimbs l.length (val l + B ^ l.length * h) = l
  | [], _, _ => rfl
  | x :: xs, h, hl => by
    have ⟨hx, hxs⟩ := Limbs_cons.mp hl
    have hB := B_pos
    rw [List.length_cons, toLimbs_succ, val_cons, pow_succ]
    have e : x + B * val xs + B ^ xs.length * B * h = x + B * (val xs + B ^ xs.length * h) := by ring
    rw [e, Nat.add_mul_mod_self_left, Nat.mod_eq_of_lt hx, Nat.add_mul_div_left _ _ hB,
      Nat.div_eq_of_lt hx, Nat.zero_add, toLimbs_val_add xs h hxs]

theorem normalised_of_top (dlo : List Nat) (d0 d1 : Nat) (h : B / 2 ≤ d1) :
    DivZ.normalised (dlo ++ [d0, d1]) = true := by
  unfold DivZ.normalised
  simp [h]

end Mpir.SbDiv
