/- mpz_2multiswing_1 (oddfac_1.c:199-262) assembled: the three sieve loops give the odd part of the swing number. -/
import MpirProofs.Lemmas.Swing
namespace Mpir.Numth
open Mpir Mpir.Gen.NumthTabs Mpir.Sieve
open Nat

/-- the prime-power factor the algorithm accumulates for x -/
def swG (n : ℕ) (x : ℕ) : ℕ := x ^ swExp x 64 n

theorem nprod_one_of_noprime' : ∀ c lo, nprod (fun _ => 1) c lo = 1 := by
  intro c
  induction c with
  | zero => intro lo; rfl
  | succ c ih => intro lo; simp [nprod, ih]

theorem n_to_bit_five : n_to_bit 5 = 0 := by decide

theorem prime_ge5_odd {x : ℕ} (hx : x.Prime) (h5 : 5 ≤ x) : x ≠ 2 ∧ x % 2 = 1 := by
  have := prime_mod6 hx h5; omega

/-- mpz_2multiswing_1 n0 = (n0 if odd) · ∏_{odd primes p ≤ n} p^(swing exponent of p in n), n = n0 rounded down to even -/
theorem mpz_2multiswing_1_eq (n0 : ℕ) (h26 : 26 ≤ n0) (hB : n0 < B) :
    mpz_2multiswing_1 n0 = (if n0 % 2 = 1 then n0 else 1) *
      nprod (swG (n0 - n0 % 2)) (bit_to_n (nb (n0 - n0 % 2) + 1) - 3) 3 := by
  unfold mpz_2multiswing_1
  simp only []
  generalize hn : n0 - n0 % 2 = n
  have hn26 : 26 ≤ n := by omega
  have hne : n % 2 = 0 := by omega
  have hnB : n < B := by omega
  -- max_prod
  have hBv := B_eq
  have hM1 : 1 ≤ (B - 1) / (n - 1) := by
    rw [Nat.le_div_iff_mul_le (by omega)]; omega
  have hMn : (B - 1) / (n - 1) * (n - 1) < B := by
    have := Nat.div_mul_le_self (B - 1) (n - 1); omega
  have hM25 : (B - 1) / (n - 1) * 25 ≤ (B - 1) / (n - 1) * (n - 1) := Nat.mul_le_mul_left _ (by omega)
  generalize hM : (B - 1) / (n - 1) = M at *
  have hM3 : M * 3 % B = M * 3 := Nat.mod_eq_of_lt (by omega)
  -- the square root bound and the ranges
  obtain ⟨hr1, hr2⟩ := apprsqrt_bounds n (by omega)
  have hrange := swing_ranges n (by omega)
  generalize hr : limb_apprsqrt n = r at *
  have hr5 : 5 ≤ r := by
    by_contra hlt
    have : r * r ≤ 4 * 4 := Nat.mul_le_mul (by omega) (by omega)
    omega
  have hrB : r < B := by
    by_contra hge
    have : B * 5 ≤ r * r := Nat.mul_le_mul (by omega) hr5
    omega
  rw [n_to_bit_five, n_to_bit_eq_nb r hr5 hrB, n_to_bit_eq_nb (n / 3) (by omega) (by omega),
    n_to_bit_eq_nb (n / 2) (by omega) (by omega), n_to_bit_eq_nb n (by omega) hnB, hM3]
  obtain ⟨hs1, hs2⟩ := nb_le_succ r hr5
  obtain ⟨ht1, ht2⟩ := nb_le_succ (n / 3) (by omega)
  obtain ⟨hu1, hu2⟩ := nb_le_succ (n / 2) (by omega)
  obtain ⟨hw1, hw2⟩ := nb_le_succ n (by omega)
  have htu : nb (n / 3) ≤ nb (n / 2) := nb_mono (by omega)
  have huw : nb (n / 2) + 1 ≤ nb n := by rw [nb_eq, nb_eq]; omega
  generalize hs : nb r = s at *
  generalize ht : nb (n / 3) = t at *
  generalize hu : nb (n / 2) = u at *
  generalize hw : nb n = w at *
  -- the three loops
  have hfitG : ∀ x, x.Prime → x ≠ 2 → M * x ^ swExp x 64 n < B := by
    intro x hx h2
    have := pow_swExp_le_pred x n hx h2 (by omega) hne
    exact Nat.lt_of_le_of_lt (Nat.mul_le_mul_left _ this) hMn
  have L1 : ∀ st, flVal (loopOnSieve 0 s (swingAPrime n M) st) = flVal st * wprod (swG n) (s + 1) 0 := by
    intro st
    unfold loopOnSieve
    simp only [Nat.not_lt_zero, if_false, Nat.sub_zero]
    apply sieveWalk_val
    intro j st' _ _ hp
    exact swingAPrime_val n M _ (by have := bit_to_n_ge j; omega) hM1 (hfitG _ hp (prime_ge5_odd hp (bit_to_n_ge j)).1) st'
  have L2 : ∀ st, flVal (loopOnSieve (s + 1) t (shSwingAPrime n (M * 3)) st) =
      flVal st * wprod (fun x => if (n / x) % 2 = 1 then x else 1) (t - s) (s + 1) := by
    intro st
    unfold loopOnSieve
    have : ¬ t < s + 1 := by omega
    simp only [this, if_false, show t - (s + 1) + 1 = t - s by omega]
    apply sieveWalk_val
    intro j st' _ h2 hp
    apply shSwingAPrime_val
    have hx : bit_to_n j ≤ n / 3 := Nat.le_trans (bit_to_n_le (by omega)) ht1
    have hodd := (prime_ge5_odd hp (bit_to_n_ge j)).2
    have : M * 3 * bit_to_n j = M * (3 * bit_to_n j) := by ring
    rw [this]
    exact Nat.lt_of_le_of_lt (Nat.mul_le_mul_left _ (by omega)) hMn
  have L3 : ∀ st, flVal (loopOnSieve (u + 1) w (fun p => flStore p M) st) =
      flVal st * wprod (fun x => x) (w - u) (u + 1) := by
    intro st
    unfold loopOnSieve
    have : ¬ w < u + 1 := by omega
    simp only [this, if_false, show w - (u + 1) + 1 = w - u by omega]
    apply sieveWalk_val
    intro j st' _ h2 hp
    apply flStore_val'
    have hx : bit_to_n j ≤ n := Nat.le_trans (bit_to_n_le (by omega)) hw1
    have hodd := (prime_ge5_odd hp (bit_to_n_ge j)).2
    exact Nat.lt_of_le_of_lt (Nat.mul_le_mul_left _ (by omega)) hMn
  have L0 : flVal (swingAPrime n M 3 ([], if n0 % 2 = 1 then n0 else 1)) =
      (if n0 % 2 = 1 then n0 else 1) * 3 ^ swExp 3 64 n := by
    rw [swingAPrime_val n M 3 (by norm_num) hM1 (hfitG 3 Nat.prime_three (by norm_num))]
    simp [flVal_mk, prodList]
  change flVal _ = _
  rw [L3, L2, L1, L0]
  -- the right-hand side, range by range
  have m1 : bit_to_n 0 = 5 := by decide
  have m2 : 5 < bit_to_n (s + 1) := by rw [← m1]; exact bit_to_n_lt (by omega)
  have m3 : bit_to_n (s + 1) ≤ bit_to_n (t + 1) := bit_to_n_le (by omega)
  have m4 : bit_to_n (t + 1) ≤ bit_to_n (u + 1) := bit_to_n_le (by omega)
  have m5 : bit_to_n (u + 1) ≤ bit_to_n (w + 1) := bit_to_n_le (by omega)
  have hdec : bit_to_n (w + 1) - 3 = 2 + ((bit_to_n (s + 1) - 5) + ((bit_to_n (t + 1) - bit_to_n (s + 1)) +
      ((bit_to_n (u + 1) - bit_to_n (t + 1)) + (bit_to_n (w + 1) - bit_to_n (u + 1))))) := by omega
  rw [hdec, nprod_add, nprod_add, nprod_add, nprod_add]
  rw [show 3 + 2 = 5 by rfl, show 5 + (bit_to_n (s + 1) - 5) = bit_to_n (s + 1) by omega,
    show bit_to_n (s + 1) + (bit_to_n (t + 1) - bit_to_n (s + 1)) = bit_to_n (t + 1) by omega,
    show bit_to_n (t + 1) + (bit_to_n (u + 1) - bit_to_n (t + 1)) = bit_to_n (u + 1) by omega]
  have f0 : nprod (swG n) 2 3 = 3 ^ swExp 3 64 n := by
    simp [nprod, swG, Nat.prime_three, show ¬ Nat.Prime 4 by decide]
  have f1 : nprod (swG n) (bit_to_n (s + 1) - 5) 5 = wprod (swG n) (s + 1) 0 := by
    rw [wprod_eq_nprod, Nat.zero_add, m1]
  have f2 : nprod (swG n) (bit_to_n (t + 1) - bit_to_n (s + 1)) (bit_to_n (s + 1)) =
      wprod (fun x => if (n / x) % 2 = 1 then x else 1) (t - s) (s + 1) := by
    rw [wprod_eq_nprod, show s + 1 + (t - s) = t + 1 by omega]
    apply nprod_congr
    intro x h1 h2 hp
    have hlt : n / x < x := by
      rw [Nat.div_lt_iff_lt_mul (by omega)]
      have : r * r < x * x := Nat.mul_lt_mul'' (by omega) (by omega)
      omega
    have : ¬ (n / x ≥ x) := by omega
    simp only [swG, swExp, this, if_false, Nat.add_zero]
    rcases Nat.mod_two_eq_zero_or_one (n / x) with h | h <;> simp [h]
  have f3 : nprod (swG n) (bit_to_n (u + 1) - bit_to_n (t + 1)) (bit_to_n (t + 1)) = 1 := by
    rw [nprod_congr (swG n) (fun _ => 1)]
    · exact nprod_one_of_noprime' _ _
    · intro x h1 h2 hp
      have h5 : 5 ≤ x := by have := bit_to_n_ge (t + 1); omega
      have hxu : x ≤ bit_to_n u := by
        rcases prime_lt_next hp h5 (show x < bit_to_n (u + 1) by omega) with h | h <;> omega
      have hd := div_eq_two (n := n) (x := x) (by omega) (by omega)
      have : ¬ (2 ≥ x) := by omega
      simp [swG, swExp, hd, this]
  have f4 : nprod (swG n) (bit_to_n (w + 1) - bit_to_n (u + 1)) (bit_to_n (u + 1)) =
      wprod (fun x => x) (w - u) (u + 1) := by
    rw [wprod_eq_nprod, show u + 1 + (w - u) = w + 1 by omega]
    apply nprod_congr
    intro x h1 h2 hp
    have h5 : 5 ≤ x := by have := bit_to_n_ge (u + 1); omega
    have hxw : x ≤ bit_to_n w := by
      rcases prime_lt_next hp h5 (show x < bit_to_n (w + 1) by omega) with h | h <;> omega
    have hd := div_eq_one (n := n) (x := x) (by omega) (by omega)
    have : ¬ (1 ≥ x) := by omega
    simp [swG, swExp, hd, this]
  rw [f0, f1, f2, f3, f4]
  ring


/-- mpz_2multiswing_1 m is the odd part of the swing number m! / ⌊m/2⌋!², for every 26 ≤ m < 2^64 -/
theorem mpz_2multiswing_1_spec (m : ℕ) (h26 : 26 ≤ m) (hB : m < B) :
    mpz_2multiswing_1 m * oddPart ((m / 2)!) ^ 2 = oddPart (m !) := by
  rw [mpz_2multiswing_1_eq m h26 hB]
  have hB64 : B = 2 ^ 64 := rfl
  have hsw := oddPart_factorial_swing (m - m % 2) (bit_to_n (nb (m - m % 2) + 1) - 3) (by omega)
    (by have := (nb_le_succ (m - m % 2) (by omega)).2; omega)
  have hhalf : (m - m % 2) / 2 = m / 2 := by omega
  rw [hhalf] at hsw
  change oddPart ((m - m % 2)!) = nprod (swG (m - m % 2)) _ 3 * _ at hsw
  rcases Nat.mod_two_eq_zero_or_one m with h | h
  · simp only [h, Nat.sub_zero, show ¬ ((0 : ℕ) = 1) by omega, if_false, Nat.one_mul] at hsw ⊢
    exact hsw.symm
  · simp only [h, if_true] at hsw ⊢
    rw [Nat.mul_assoc, ← hsw]
    obtain ⟨ho, t, ht⟩ := oddPart_spec ((m - 1)!) (Nat.factorial_ne_zero _)
    symm
    apply oddPart_of_eq (t := t)
    · rw [Nat.mul_mod, h, ho]
    · obtain ⟨j, rfl⟩ : ∃ j, m = j + 1 := ⟨m - 1, by omega⟩
      rw [Nat.factorial_succ]
      simp only [Nat.add_sub_cancel] at ht ⊢
      conv_lhs => rw [ht]
      ring

theorem dsc_threshold_ge : 26 ≤ FAC_DSC_THRESHOLD := by decide

/-- mpz_oddfac_1 n 0 is the odd part of n! for EVERY n < 2^64 -/
theorem mpz_oddfac_1_eq (n : ℕ) (hn : n < B) : mpz_oddfac_1 n 0 = oddPart (n !) :=
  mpz_oddfac_1_of_swing n hn (fun m h1 h2 =>
    mpz_2multiswing_1_spec m (Nat.le_trans dsc_threshold_ge h1) (Nat.lt_of_le_of_lt h2 hn))

end Mpir.Numth
