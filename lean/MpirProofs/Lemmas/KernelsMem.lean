/- Helper lemmas for the memory-level kernel models (Mpir/Model/KernelsMem.lean): generic facts about
   `read` / `write` / `writeList`, then one loop lemma per kernel of the shape
   "under the permitted-overlap hypothesis the loop's final memory is `writeList m rp (list-level result of
   the words read from the ORIGINAL memory)`". -/
import MpirProofs.Lemmas.Kernels
import Mpir.Model.KernelsMem
namespace Mpir.Mem
open Mpir

/-! ### read / write / writeList -/

theorem Memory.ext' {m m' : Memory} (h : ∀ a, m a = m' a) : m = m' := by
  cases m; cases m'; congr; funext a; exact h a

@[simp] theorem write_same (m : Memory) (p v : Nat) : write m p v p = v := by simp [write]

theorem write_other (m : Memory) {p a : Nat} (v : Nat) (h : a ≠ p) : write m p v a = m a := by
  simp [write, h]

theorem write_self (m : Memory) (p : Nat) : write m p (m p) = m := by
  apply Memory.ext'; intro a
  show (if a = p then m p else m a) = m a
  split
  · next h => rw [h]
  · rfl

@[simp] theorem read_length (m : Memory) : ∀ (n p : Nat), (read m p n).length = n
  | 0, _ => rfl
  | n + 1, p => by simp [read, read_length m n]

theorem read_succ (m : Memory) (p n : Nat) : read m p (n + 1) = m p :: read m (p + 1) n := rfl

theorem read_snoc (m : Memory) : ∀ (n p : Nat), read m p (n + 1) = read m p n ++ [m (p + n)]
  | 0, p => by simp [read]
  | n + 1, p => by
      rw [read_succ, read_snoc m n (p + 1), read_succ]
      simp [Nat.add_assoc, Nat.add_comm 1 n]

theorem read_congr {m m' : Memory} : ∀ (n p : Nat), (∀ a, p ≤ a → a < p + n → m a = m' a) →
    read m p n = read m' p n
  | 0, _, _ => rfl
  | n + 1, p, h => by
      rw [read_succ, read_succ, h p (Nat.le_refl _) (by omega),
        read_congr n (p + 1) (fun a h1 h2 => h a (by omega) (by omega))]

theorem read_write_outside (m : Memory) (a v p n : Nat) (h : a < p ∨ p + n ≤ a) :
    read (write m a v) p n = read m p n :=
  read_congr n p (fun b h1 h2 => write_other m v (by omega))

theorem writeList_outside : ∀ (l : List Nat) (m : Memory) (p a : Nat), a < p ∨ p + l.length ≤ a →
    writeList m p l a = m a
  | [], _, _, _, _ => rfl
  | x :: xs, m, p, a, h => by
      simp only [writeList, List.length_cons] at *
      rw [writeList_outside xs _ _ _ (by omega), write_other _ _ (by omega)]

theorem read_writeList : ∀ (l : List Nat) (m : Memory) (p : Nat), read (writeList m p l) p l.length = l
  | [], _, _ => rfl
  | x :: xs, m, p => by
      simp only [writeList, List.length_cons, read_succ]
      rw [read_writeList xs, writeList_outside xs _ _ _ (by omega), write_same]

theorem write_comm (m : Memory) {a b : Nat} (v w : Nat) (h : a ≠ b) :
    write (write m a v) b w = write (write m b w) a v := by
  apply Memory.ext'; intro c
  show (if c = b then w else if c = a then v else m c) = (if c = a then v else if c = b then w else m c)
  by_cases h1 : c = b <;> by_cases h2 : c = a <;> simp_all

theorem writeList_write_comm : ∀ (l : List Nat) (m : Memory) (p a v : Nat), a < p ∨ p + l.length ≤ a →
    writeList (write m a v) p l = write (writeList m p l) a v
  | [], _, _, _, _, _ => rfl
  | x :: xs, m, p, a, v, h => by
      simp only [writeList, List.length_cons] at *
      rw [write_comm m v x (by omega), writeList_write_comm xs _ _ _ _ (by omega)]

theorem writeList_snoc : ∀ (l : List Nat) (m : Memory) (p v : Nat),
    writeList m p (l ++ [v]) = write (writeList m p l) (p + l.length) v
  | [], _, _, _ => rfl
  | x :: xs, m, p, v => by
      simp only [List.cons_append, writeList, List.length_cons]
      rw [writeList_snoc xs]; congr 1; omega

theorem writeList_read_self (m : Memory) : ∀ (n p : Nat), writeList m p (read m p n) = m
  | 0, _ => rfl
  | n + 1, p => by rw [read_succ, writeList, write_self, writeList_read_self m n]

/-- the three observable consequences of "final memory = writeList m rp l" -/
theorem writeList_spec (m : Memory) (rp n : Nat) (l : List Nat) (hl : l.length = n) :
    read (writeList m rp l) rp n = l ∧ ∀ a, a < rp ∨ rp + n ≤ a → writeList m rp l a = m a := by
  subst hl
  exact ⟨read_writeList l m rp, fun a h => writeList_outside l m rp a h⟩

/-! ### overlap predicates: what they say in linear arithmetic -/

theorem sameOrSeparate_iff (x y n : Nat) : SameOrSeparate x y n ↔ (x = y ∨ x + n ≤ y ∨ y + n ≤ x) := by
  unfold SameOrSeparate SameOrSeparate2 Overlap; omega
theorem sameOrSeparate2_iff (x xn y yn : Nat) : SameOrSeparate2 x xn y yn ↔ (x = y ∨ x + xn ≤ y ∨ y + yn ≤ x) := by
  unfold SameOrSeparate2 Overlap; omega
theorem sameOrIncr_iff (d s n : Nat) : SameOrIncr d s n ↔ (d ≤ s ∨ s + n ≤ d) := by
  unfold SameOrIncr Overlap; omega
theorem sameOrDecr_iff (d s n : Nat) : SameOrDecr d s n ↔ (s ≤ d ∨ d + n ≤ s) := by
  unfold SameOrDecr Overlap; omega

/-! ### ascending kernels -/

theorem addNLoop_eq : ∀ (n : Nat) (m : Memory) (rp up vp cy : Nat),
    (rp = up ∨ rp + n ≤ up ∨ up + n ≤ rp) → (rp = vp ∨ rp + n ≤ vp ∨ vp + n ≤ rp) →
    addNLoop n m rp up vp cy =
      (writeList m rp (addNC (read m up n) (read m vp n) cy).1, (addNC (read m up n) (read m vp n) cy).2)
  | 0, _, _, _, _, _, _, _ => rfl
  | n + 1, m, rp, up, vp, cy, hu, hv => by
      simp only [addNLoop, read_succ, addNC]
      rw [addNLoop_eq n _ _ _ _ _ (by omega) (by omega),
        read_write_outside m rp _ (up + 1) n (by omega), read_write_outside m rp _ (vp + 1) n (by omega)]
      rfl

theorem wsub_eq (a b : Nat) : wsub a b = (a + B - b) % B := by unfold wsub; rw [Nat.add_comm]

theorem subNLoop_eq : ∀ (n : Nat) (m : Memory) (rp up vp cy : Nat),
    (rp = up ∨ rp + n ≤ up ∨ up + n ≤ rp) → (rp = vp ∨ rp + n ≤ vp ∨ vp + n ≤ rp) →
    subNLoop n m rp up vp cy =
      (writeList m rp (subNC (read m up n) (read m vp n) cy).1, (subNC (read m up n) (read m vp n) cy).2)
  | 0, _, _, _, _, _, _, _ => rfl
  | n + 1, m, rp, up, vp, cy, hu, hv => by
      simp only [subNLoop, read_succ, subNC, wsub_eq]
      rw [subNLoop_eq n _ _ _ _ _ (by omega) (by omega),
        read_write_outside m rp _ (up + 1) n (by omega), read_write_outside m rp _ (vp + 1) n (by omega)]
      rfl

/-- mul_1 tolerates every `rp ≤ up` (MPN_SAME_OR_INCR_P): a limb is loaded before the store to the same
    or a lower address. -/
theorem mul1Loop_eq (vl : Nat) : ∀ (n : Nat) (m : Memory) (rp up cl : Nat),
    (rp ≤ up ∨ up + n ≤ rp) →
    mul1Loop vl n m rp up cl =
      (writeList m rp (mul1C (read m up n) vl cl).1, (mul1C (read m up n) vl cl).2)
  | 0, _, _, _, _, _ => rfl
  | n + 1, m, rp, up, cl, h => by
      simp only [mul1Loop, read_succ, mul1C]
      rw [mul1Loop_eq vl n _ _ _ _ (by omega), read_write_outside m rp _ (up + 1) n (by omega)]
      rfl

theorem addmul1Loop_eq (vl : Nat) : ∀ (n : Nat) (m : Memory) (rp up cl : Nat),
    (rp = up ∨ rp + n ≤ up ∨ up + n ≤ rp) →
    addmul1Loop vl n m rp up cl =
      (writeList m rp (addmul1C (read m rp n) (read m up n) vl cl).1,
       (addmul1C (read m rp n) (read m up n) vl cl).2)
  | 0, _, _, _, _, _ => rfl
  | n + 1, m, rp, up, cl, h => by
      simp only [addmul1Loop, read_succ, addmul1C]
      rw [addmul1Loop_eq vl n _ _ _ _ (by omega), read_write_outside m rp _ (up + 1) n (by omega),
        read_write_outside m rp _ (rp + 1) n (by omega)]
      rfl

theorem submul1Loop_eq (vl : Nat) : ∀ (n : Nat) (m : Memory) (rp up cl : Nat),
    (rp = up ∨ rp + n ≤ up ∨ up + n ≤ rp) →
    submul1Loop vl n m rp up cl =
      (writeList m rp (submul1C (read m rp n) (read m up n) vl cl).1,
       (submul1C (read m rp n) (read m up n) vl cl).2)
  | 0, _, _, _, _, _ => rfl
  | n + 1, m, rp, up, cl, h => by
      simp only [submul1Loop, read_succ, submul1C, wsub_eq]
      rw [submul1Loop_eq vl n _ _ _ _ (by omega), read_write_outside m rp _ (up + 1) n (by omega),
        read_write_outside m rp _ (rp + 1) n (by omega)]
      rfl

/-- com_n is an ascending load/store loop: correct for every `rp ≤ up` (the documented rule is the
    narrower same-or-separate). -/
theorem comNLoop_eq : ∀ (n : Nat) (m : Memory) (rp up : Nat), (rp ≤ up ∨ up + n ≤ rp) →
    comNLoop n m rp up = writeList m rp (Mpir.com_n (read m up n))
  | 0, _, _, _, _ => rfl
  | n + 1, m, rp, up, h => by
      simp only [comNLoop, read_succ, Mpir.com_n, List.map_cons]
      rw [comNLoop_eq n _ _ _ (by omega), read_write_outside m rp _ (up + 1) n (by omega)]
      rfl

/-- list-level rshift seen from inside the loop: the limb already loaded enters only as `x >>> cnt` -/
def rshiftTail (cnt : Nat) : Nat → List Nat → List Nat
  | low, [] => [low]
  | low, y :: ys => (low ||| ((y <<< (64 - cnt)) % B)) :: rshiftTail cnt (y >>> cnt) ys

theorem rshiftGo_cons (cnt x : Nat) : ∀ (l : List Nat), rshiftGo cnt (x :: l) = rshiftTail cnt (x >>> cnt) l
  | [] => rfl
  | y :: ys => by rw [rshiftGo, rshiftTail, rshiftGo_cons cnt y ys]

/-- `up` is the C pointer after the first `*up++` (so `up = up₀ + 1`): hypothesis `rp < up` is `rp ≤ up₀`. -/
theorem rshiftLoop_eq (cnt : Nat) : ∀ (i : Nat) (m : Memory) (rp up low : Nat), (rp < up ∨ up + i ≤ rp) →
    rshiftLoop cnt i m rp up low = writeList m rp (rshiftTail cnt low (read m up i))
  | 0, _, _, _, _, _ => rfl
  | i + 1, m, rp, up, low, h => by
      simp only [rshiftLoop, read_succ, rshiftTail]
      rw [rshiftLoop_eq cnt i _ _ _ _ (by omega), read_write_outside m rp _ (up + 1) i (by omega)]
      rfl

theorem copyiLoop_eq : ∀ (k : Nat) (m : Memory) (rp up x : Nat), (rp < up ∨ up + k ≤ rp) →
    copyiLoop k m rp up x = writeList m rp (x :: read m up k)
  | 0, _, _, _, _, _ => rfl
  | k + 1, m, rp, up, x, h => by
      simp only [copyiLoop, read_succ]
      rw [copyiLoop_eq k _ _ _ _ (by omega), read_write_outside m rp _ (up + 1) k (by omega),
        write_other m x (by omega : up ≠ rp)]
      rfl

/-! ### descending kernels -/

theorem copydLoop_eq (rp up : Nat) : ∀ (k : Nat) (m : Memory) (x : Nat), (up ≤ rp ∨ rp + k + 1 ≤ up) →
    copydLoop rp up k m x = writeList m rp (read m up k ++ [x])
  | 0, _, _, _ => rfl
  | k + 1, m, x, h => by
      simp only [copydLoop]
      rw [copydLoop_eq rp up k _ _ (by omega), read_write_outside m _ _ up k (by omega),
        write_other m x (by omega : up + k ≠ rp + (k + 1)),
        writeList_write_comm _ m rp _ x (by simp), read_snoc, writeList_snoc (read m up k ++ [m (up + k)])]
      simp

/-- list-level lshift seen from the top: `us` = the limbs below the one already loaded, most significant
    first; `high` = `(loaded limb << cnt) mod B`; `lo` = bits entering limb 0.  Result most significant first. -/
def lshiftDown (cnt lo : Nat) : List Nat → Nat → List Nat
  | [], high => [high ||| lo]
  | low :: rest, high => (high ||| (low >>> (64 - cnt))) :: lshiftDown cnt lo rest ((low <<< cnt) % B)

theorem lshiftDown_length (cnt lo : Nat) : ∀ (l : List Nat) (h : Nat), (lshiftDown cnt lo l h).length = l.length + 1
  | [], _ => rfl
  | x :: xs, h => by simp [lshiftDown, lshiftDown_length cnt lo xs]

theorem lshiftDown_snoc (cnt lo y : Nat) : ∀ (zs : List Nat) (h : Nat),
    lshiftDown cnt lo (zs ++ [y]) h = lshiftDown cnt (y >>> (64 - cnt)) zs h ++ [((y <<< cnt) % B) ||| lo]
  | [], h => by simp [lshiftDown]
  | z :: zs, h => by simp [lshiftDown, lshiftDown_snoc cnt lo y zs]

theorem lshiftGo_snoc (cnt x : Nat) : ∀ (xs : List Nat) (lo : Nat),
    lshiftGo cnt (xs ++ [x]) lo = ((lshiftDown cnt lo xs.reverse ((x <<< cnt) % B)).reverse, x >>> (64 - cnt))
  | [], lo => by simp [lshiftGo, lshiftDown]
  | y :: ys, lo => by
      simp only [List.cons_append, lshiftGo, lshiftGo_snoc cnt x ys, List.reverse_cons, lshiftDown_snoc]
      simp

theorem lshiftLoop_eq (cnt rp up : Nat) : ∀ (i : Nat) (m : Memory) (high : Nat), (up ≤ rp ∨ rp + i + 1 ≤ up) →
    lshiftLoop cnt rp up i m high = writeList m rp (lshiftDown cnt 0 (read m up i).reverse high).reverse
  | 0, m, high, _ => by simp [lshiftLoop, lshiftDown, read, writeList]
  | i + 1, m, high, h => by
      simp only [lshiftLoop]
      rw [lshiftLoop_eq cnt rp up i _ _ (by omega), read_write_outside m _ _ up i (by omega),
        writeList_write_comm _ m rp _ _ (by simp [lshiftDown_length]), read_snoc]
      simp only [List.reverse_append, List.reverse_cons, List.reverse_nil, List.nil_append, List.cons_append,
        lshiftDown]
      rw [writeList_snoc]
      simp [lshiftDown_length]

/-! ### __GMPN_COPY_REST, __GMPN_AORS_1 -/

theorem copyRestLoop_eq (dst src : Nat) : ∀ (k j : Nat) (m : Memory), (dst ≤ src ∨ src + (j + k) ≤ dst) →
    copyRestLoop dst src k j m = writeList m (dst + j) (read m (src + j) k)
  | 0, _, _, _ => rfl
  | k + 1, j, m, h => by
      simp only [copyRestLoop, read_succ, writeList]
      rw [copyRestLoop_eq dst src k (j + 1) _ (by omega),
        read_write_outside m (dst + j) _ (src + (j + 1)) k (by omega)]
      rfl

theorem copyRest_eq (m : Memory) (dst src size start : Nat) (hs : start ≤ size)
    (h : dst ≤ src ∨ src + size ≤ dst) :
    copyRest m dst src size start = writeList m (dst + start) (read m (src + start) (size - start)) := by
  unfold copyRest
  exact copyRestLoop_eq dst src _ _ m (by omega)


/-- the exit of __GMPN_AORS_1 / __GMPN_AORS after the store of limb `i`:
    `if ((src) != (dst)) __GMPN_COPY_REST (dst, src, n, i + 1);` leaves `r` followed by the source's
    remaining limbs, whether the copy is done (separate) or skipped (same pointer). -/
theorem copyTail_eq (m : Memory) (dst src n i k r : Nat) (hk : i + (k + 1) = n)
    (h : dst = src ∨ dst + n ≤ src ∨ src + n ≤ dst) :
    (if src ≠ dst then copyRest (write m (dst + i) r) dst src n (i + 1) else write m (dst + i) r)
      = writeList m (dst + i) (r :: read m (src + i + 1) k) := by
  by_cases hsd : src = dst
  · subst hsd
    rw [if_neg (by simp), writeList, ← read_write_outside m (src + i) r (src + i + 1) k (by omega),
      writeList_read_self]
  · rw [if_pos hsd, copyRest_eq _ dst src n (i + 1) (by omega) (by omega),
      read_write_outside m (dst + i) r _ _ (by omega), writeList]
    have : n - (i + 1) = k := by omega
    rw [this]; rfl

theorem incrLoop_eq (dst src n : Nat) (h : dst = src ∨ dst + n ≤ src ∨ src + n ≤ dst) :
    ∀ (k i : Nat) (m : Memory), i + k = n →
    incrLoop dst src n k i m =
      (writeList m (dst + i) (incr (read m (src + i) k)).1, (incr (read m (src + i) k)).2)
  | 0, _, _, _ => rfl
  | k + 1, i, m, hk => by
      simp only [incrLoop, read_succ, incr]
      by_cases hc : (m (src + i) + 1) % B < 1
      · simp only [hc, if_true]
        rw [incrLoop_eq dst src n h k (i + 1) _ (by omega),
          read_write_outside m (dst + i) _ (src + (i + 1)) k (by omega)]
        rfl
      · simp only [hc, if_false]
        rw [copyTail_eq m dst src n i k _ hk h]

theorem decrLoop_eq (dst src n : Nat) (h : dst = src ∨ dst + n ≤ src ∨ src + n ≤ dst) :
    ∀ (k i : Nat) (m : Memory), i + k = n →
    decrLoop dst src n k i m =
      (writeList m (dst + i) (decr (read m (src + i) k)).1, (decr (read m (src + i) k)).2)
  | 0, _, _, _ => rfl
  | k + 1, i, m, hk => by
      simp only [decrLoop, read_succ, decr, wsub_eq]
      by_cases hc : m (src + i) < 1
      · simp only [hc, if_true]
        rw [decrLoop_eq dst src n h k (i + 1) _ (by omega),
          read_write_outside m (dst + i) _ (src + (i + 1)) k (by omega)]
        rfl
      · simp only [hc, if_false]
        rw [copyTail_eq m dst src n i k _ hk h]

theorem add_1_eq (m : Memory) (dst src n v : Nat) (hn : 1 ≤ n) (h : dst = src ∨ dst + n ≤ src ∨ src + n ≤ dst) :
    add_1 m dst src n v = (writeList m dst (Mpir.add_1 (read m src n) v).1, (Mpir.add_1 (read m src n) v).2) := by
  obtain ⟨k, rfl⟩ : ∃ k, n = k + 1 := ⟨n - 1, by omega⟩
  simp only [add_1, read_succ, Mpir.add_1, Nat.add_sub_cancel]
  by_cases hc : (m src + v) % B < v
  · simp only [hc, if_true]
    rw [incrLoop_eq dst src (k + 1) h k 1 _ (by omega), read_write_outside m dst _ (src + 1) k (by omega)]
    rfl
  · simp only [hc, if_false]
    have := copyTail_eq m dst src (k + 1) 0 k ((m src + v) % B) (by omega) h
    simpa using this

theorem sub_1_eq (m : Memory) (dst src n v : Nat) (hn : 1 ≤ n) (h : dst = src ∨ dst + n ≤ src ∨ src + n ≤ dst) :
    sub_1 m dst src n v = (writeList m dst (Mpir.sub_1 (read m src n) v).1, (Mpir.sub_1 (read m src n) v).2) := by
  obtain ⟨k, rfl⟩ : ∃ k, n = k + 1 := ⟨n - 1, by omega⟩
  simp only [sub_1, read_succ, Mpir.sub_1, Nat.add_sub_cancel, wsub_eq]
  by_cases hc : m src < v
  · simp only [hc, if_true]
    rw [decrLoop_eq dst src (k + 1) h k 1 _ (by omega), read_write_outside m dst _ (src + 1) k (by omega)]
    rfl
  · simp only [hc, if_false]
    have := copyTail_eq m dst src (k + 1) 0 k ((m src + B - v) % B) (by omega) h
    simpa using this

/-! ### mpn_neg_n -/

theorem negNLoop_eq : ∀ (n : Nat) (m : Memory) (rp up : Nat), (rp = up ∨ rp + n ≤ up ∨ up + n ≤ rp) →
    negNLoop n m rp up = (writeList m rp (negNC (read m up n) 0).1, (negNC (read m up n) 0).2)
  | 0, _, _, _, _ => rfl
  | n + 1, m, rp, up, h => by
      simp only [negNLoop, read_succ, negNC, if_true]
      by_cases hz : m up = 0
      · simp only [hz, if_true]
        have e : (if n = 0 then (write m rp 0, 0) else negNLoop n (write m rp 0) (rp + 1) (up + 1))
            = negNLoop n (write m rp 0) (rp + 1) (up + 1) := by
          cases n <;> simp [negNLoop]
        rw [e, negNLoop_eq n _ _ _ (by omega), read_write_outside m rp _ (up + 1) n (by omega)]
        rfl
      · simp only [hz, if_false, negNC_one]
        have e : (if n ≠ 0 then com_n (write m rp ((B - m up) % B)) (rp + 1) (up + 1) n
              else write m rp ((B - m up) % B))
            = com_n (write m rp ((B - m up) % B)) (rp + 1) (up + 1) n := by
          cases n <;> simp [com_n, comNLoop]
        rw [e, com_n, comNLoop_eq n _ _ _ (by omega), read_write_outside m rp _ (up + 1) n (by omega)]
        rfl
/-! ### mpn_add / mpn_sub (__GMPN_AORS) -/

theorem read_append (m : Memory) : ∀ (a p b : Nat), read m p (a + b) = read m p a ++ read m (p + a) b
  | 0, p, b => by simp [read]
  | a + 1, p, b => by
      rw [show a + 1 + b = (a + b) + 1 by omega, read_succ, read_succ, read_append m a (p + 1) b]
      simp [Nat.add_assoc, Nat.add_comm 1 a]

theorem read_take (m : Memory) (p a n : Nat) (h : a ≤ n) : (read m p n).take a = read m p a := by
  obtain ⟨b, rfl⟩ : ∃ b, n = a + b := ⟨n - a, by omega⟩
  rw [read_append, List.take_left' (read_length m a p)]

theorem read_drop (m : Memory) (p a n : Nat) (h : a ≤ n) : (read m p n).drop a = read m (p + a) (n - a) := by
  obtain ⟨b, rfl⟩ : ∃ b, n = a + b := ⟨n - a, by omega⟩
  rw [read_append, List.drop_left' (read_length m a p), Nat.add_sub_cancel_left]

theorem writeList_append : ∀ (l₁ l₂ : List Nat) (m : Memory) (p : Nat),
    writeList m p (l₁ ++ l₂) = writeList (writeList m p l₁) (p + l₁.length) l₂
  | [], _, _, _ => rfl
  | x :: xs, l₂, m, p => by
      simp only [List.cons_append, writeList, List.length_cons]
      rw [writeList_append xs]; congr 1; omega

theorem read_writeList_outside (m : Memory) (p : Nat) (l : List Nat) (q n : Nat)
    (h : p + l.length ≤ q ∨ q + n ≤ p) : read (writeList m p l) q n = read m q n :=
  read_congr n q (fun a h1 h2 => writeList_outside l m p a (by omega))

theorem addNC_length : ∀ (u v : List Nat) (cy : Nat), u.length = v.length → (addNC u v cy).1.length = u.length
  | [], [], _, _ => rfl
  | [], _ :: _, _, h => by simp at h
  | _ :: _, [], _, h => by simp at h
  | u :: us, v :: vs, cy, h => by
      simp only [addNC, List.length_cons]
      rw [addNC_length us vs _ (by simpa using h)]

theorem subNC_length : ∀ (u v : List Nat) (cy : Nat), u.length = v.length → (subNC u v cy).1.length = u.length
  | [], [], _, _ => rfl
  | [], _ :: _, _, h => by simp at h
  | _ :: _, [], _, h => by simp at h
  | u :: us, v :: vs, cy, h => by
      simp only [subNC, List.length_cons]
      rw [subNC_length us vs _ (by simpa using h)]

/-- `if ((wp) != (xp)) __GMPN_COPY_REST (wp, xp, size, start);` — copy done or skipped, the region
    `[wp+start, wp+size)` holds the source's limbs afterwards and nothing else changed. -/
theorem copyOrSkip_eq (m : Memory) (wp xp size start : Nat) (hs : start ≤ size)
    (h : wp = xp ∨ wp + size ≤ xp ∨ xp + size ≤ wp) :
    (if wp ≠ xp then copyRest m wp xp size start else m)
      = writeList m (wp + start) (read m (xp + start) (size - start)) := by
  by_cases hsd : wp = xp
  · subst hsd; rw [if_neg (by simp), writeList_read_self]
  · rw [if_pos hsd, copyRest_eq _ wp xp size start hs (by omega)]

theorem addTestLoop_eq (wp xp xsize : Nat) (h : wp = xp ∨ wp + xsize ≤ xp ∨ xp + xsize ≤ wp) :
    ∀ (k i : Nat) (m : Memory), i + k = xsize →
    addTestLoop wp xp xsize k i m =
      (writeList m (wp + i) (incr (read m (xp + i) k)).1, (incr (read m (xp + i) k)).2)
  | 0, _, _, _ => rfl
  | k + 1, i, m, hk => by
      simp only [addTestLoop, read_succ, incr, Nat.lt_one_iff]
      by_cases hc : (m (xp + i) + 1) % B = 0
      · simp only [hc, if_true]
        rw [addTestLoop_eq wp xp xsize h k (i + 1) _ (by omega),
          read_write_outside m (wp + i) _ (xp + (i + 1)) k (by omega)]
        rfl
      · simp only [hc, if_false]
        have := copyTail_eq m wp xp xsize i k ((m (xp + i) + 1) % B) hk h
        rw [← this]; simp only [ne_comm]

theorem subTestLoop_eq (wp xp xsize : Nat) (h : wp = xp ∨ wp + xsize ≤ xp ∨ xp + xsize ≤ wp) :
    ∀ (k i : Nat) (m : Memory), i + k = xsize →
    subTestLoop wp xp xsize k i m =
      (writeList m (wp + i) (decr (read m (xp + i) k)).1, (decr (read m (xp + i) k)).2)
  | 0, _, _, _ => rfl
  | k + 1, i, m, hk => by
      simp only [subTestLoop, read_succ, decr, Nat.lt_one_iff, wsub_eq]
      by_cases hc : m (xp + i) = 0
      · simp only [hc, if_true]
        rw [subTestLoop_eq wp xp xsize h k (i + 1) _ (by omega),
          read_write_outside m (wp + i) _ (xp + (i + 1)) k (by omega)]
        rfl
      · simp only [hc, if_false]
        have := copyTail_eq m wp xp xsize i k ((m (xp + i) + B - 1) % B) hk h
        rw [← this]; simp only [ne_comm]

theorem add_eq (m : Memory) (wp xp xsize yp ysize : Nat) (hs : ysize ≤ xsize)
    (hx : wp = xp ∨ wp + xsize ≤ xp ∨ xp + xsize ≤ wp) (hy : wp = yp ∨ wp + xsize ≤ yp ∨ yp + ysize ≤ wp) :
    add m wp xp xsize yp ysize =
      (writeList m wp (Mpir.add (read m xp xsize) (read m yp ysize)).1,
       (Mpir.add (read m xp xsize) (read m yp ysize)).2) := by
  by_cases hy0 : ysize = 0
  · subst hy0
    have := copyOrSkip_eq m wp xp xsize 0 (by omega) hx
    simp only [add, Mpir.add, read, List.length_nil, List.take_zero, Mpir.add_n, addNC, List.drop_zero,
      List.nil_append, ne_eq, not_true, if_false, bne_self_eq_false, Bool.false_eq_true]
    simpa using this
  · unfold add Mpir.add
    simp only [read_length, read_take m xp ysize xsize hs, read_drop m xp ysize xsize hs, add_n, Mpir.add_n,
      addNLoop_eq ysize m wp xp yp 0 (by omega) (by omega), ne_eq, hy0, not_false_eq_true, if_true]
    have hlen : (addNC (read m xp ysize) (read m yp ysize) 0).1.length = ysize := by
      rw [addNC_length _ _ _ (by simp), read_length]
    generalize addNC (read m xp ysize) (read m yp ysize) 0 = r at hlen ⊢
    obtain ⟨lo, c⟩ := r
    simp only at hlen ⊢
    have hrd : read (writeList m wp lo) (xp + ysize) (xsize - ysize) = read m (xp + ysize) (xsize - ysize) :=
      read_writeList_outside m wp lo _ _ (by omega)
    by_cases hc : c = 0
    · simp only [hc, not_true, if_false, bne_self_eq_false, Bool.false_eq_true]
      have := copyOrSkip_eq (writeList m wp lo) wp xp xsize ysize hs hx
      simp only [ne_eq] at this
      rw [this, hrd, writeList_append, hlen]
    · have hb : (c != 0) = true := by simpa using hc
      simp only [hc, not_false_eq_true, if_true, hb]
      rw [addTestLoop_eq wp xp xsize hx (xsize - ysize) ysize _ (by omega), hrd, writeList_append, hlen]

theorem sub_eq (m : Memory) (wp xp xsize yp ysize : Nat) (hs : ysize ≤ xsize)
    (hx : wp = xp ∨ wp + xsize ≤ xp ∨ xp + xsize ≤ wp) (hy : wp = yp ∨ wp + xsize ≤ yp ∨ yp + ysize ≤ wp) :
    sub m wp xp xsize yp ysize =
      (writeList m wp (Mpir.sub (read m xp xsize) (read m yp ysize)).1,
       (Mpir.sub (read m xp xsize) (read m yp ysize)).2) := by
  by_cases hy0 : ysize = 0
  · subst hy0
    have := copyOrSkip_eq m wp xp xsize 0 (by omega) hx
    simp only [sub, Mpir.sub, read, List.length_nil, List.take_zero, Mpir.sub_n, subNC, List.drop_zero,
      List.nil_append, ne_eq, not_true, if_false, bne_self_eq_false, Bool.false_eq_true]
    simpa using this
  · unfold sub Mpir.sub
    simp only [read_length, read_take m xp ysize xsize hs, read_drop m xp ysize xsize hs, sub_n, Mpir.sub_n,
      subNLoop_eq ysize m wp xp yp 0 (by omega) (by omega), ne_eq, hy0, not_false_eq_true, if_true]
    have hlen : (subNC (read m xp ysize) (read m yp ysize) 0).1.length = ysize := by
      rw [subNC_length _ _ _ (by simp), read_length]
    generalize subNC (read m xp ysize) (read m yp ysize) 0 = r at hlen ⊢
    obtain ⟨lo, c⟩ := r
    simp only at hlen ⊢
    have hrd : read (writeList m wp lo) (xp + ysize) (xsize - ysize) = read m (xp + ysize) (xsize - ysize) :=
      read_writeList_outside m wp lo _ _ (by omega)
    by_cases hc : c = 0
    · simp only [hc, not_true, if_false, bne_self_eq_false, Bool.false_eq_true]
      have := copyOrSkip_eq (writeList m wp lo) wp xp xsize ysize hs hx
      simp only [ne_eq] at this
      rw [this, hrd, writeList_append, hlen]
    · have hb : (c != 0) = true := by simpa using hc
      simp only [hc, not_false_eq_true, if_true, hb]
      rw [subTestLoop_eq wp xp xsize hx (xsize - ysize) ysize _ (by omega), hrd, writeList_append, hlen]

/-! ### whole-function forms and lengths of the list-level results (no `Limbs` hypothesis needed) -/

theorem lshiftGo_length (cnt : Nat) : ∀ (u : List Nat) (lo : Nat), (lshiftGo cnt u lo).1.length = u.length
  | [], _ => rfl
  | x :: xs, lo => by simp [lshiftGo, lshiftGo_length cnt xs]

theorem rshiftGo_length (cnt : Nat) : ∀ (u : List Nat), (rshiftGo cnt u).length = u.length
  | [] => rfl
  | [_] => rfl
  | x :: y :: ys => by simp [rshiftGo, rshiftGo_length cnt (y :: ys)]

theorem mul1C_length (vl : Nat) : ∀ (u : List Nat) (cl : Nat), (mul1C u vl cl).1.length = u.length
  | [], _ => rfl
  | x :: xs, cl => by simp [mul1C, mul1C_length vl xs]

theorem addmul1C_length (vl : Nat) : ∀ (r u : List Nat) (cl : Nat), r.length = u.length →
    (addmul1C r u vl cl).1.length = u.length
  | [], [], _, _ => rfl
  | [], _ :: _, _, h => by simp at h
  | _ :: _, [], _, h => by simp at h
  | r :: rs, u :: us, cl, h => by
      simp only [addmul1C, List.length_cons]
      rw [addmul1C_length vl rs us _ (by simpa using h)]

theorem submul1C_length (vl : Nat) : ∀ (r u : List Nat) (cl : Nat), r.length = u.length →
    (submul1C r u vl cl).1.length = u.length
  | [], [], _, _ => rfl
  | [], _ :: _, _, h => by simp at h
  | _ :: _, [], _, h => by simp at h
  | r :: rs, u :: us, cl, h => by
      simp only [submul1C, List.length_cons]
      rw [submul1C_length vl rs us _ (by simpa using h)]

theorem negNC_length : ∀ (u : List Nat) (c : Nat), (negNC u c).1.length = u.length
  | [], _ => rfl
  | x :: xs, c => by
      simp only [negNC]
      split
      · split <;> simp [negNC_length xs]
      · simp [negNC_length xs]

theorem incr_length : ∀ (u : List Nat), (incr u).1.length = u.length
  | [] => rfl
  | x :: xs => by
      simp only [incr]; split <;> simp [incr_length xs]

theorem decr_length : ∀ (u : List Nat), (decr u).1.length = u.length
  | [] => rfl
  | x :: xs => by
      simp only [decr]; split <;> simp [decr_length xs]

theorem add_1_length (u : List Nat) (v : Nat) : (Mpir.add_1 u v).1.length = u.length := by
  cases u with
  | nil => rfl
  | cons x xs => simp only [Mpir.add_1]; split <;> simp [incr_length]

theorem sub_1_length (u : List Nat) (v : Nat) : (Mpir.sub_1 u v).1.length = u.length := by
  cases u with
  | nil => rfl
  | cons x xs => simp only [Mpir.sub_1]; split <;> simp [decr_length]

theorem add_length (x y : List Nat) (h : y.length ≤ x.length) : (Mpir.add x y).1.length = x.length := by
  unfold Mpir.add Mpir.add_n
  simp only
  split <;> simp [addNC_length, incr_length, h]

theorem sub_length (x y : List Nat) (h : y.length ≤ x.length) : (Mpir.sub x y).1.length = x.length := by
  unfold Mpir.sub Mpir.sub_n
  simp only
  split <;> simp [subNC_length, decr_length, h]

/-- what a caller can observe of "the call stored the list `l` at `[rp, rp+n)` and returned `r`" -/
theorem mem_spec {m : Memory} {rp n r : Nat} {l : List Nat} {res : Memory × Nat}
    (h : res = (writeList m rp l, r)) (hl : l.length = n) :
    read res.1 rp n = l ∧ res.2 = r ∧ ∀ a, a < rp ∨ rp + n ≤ a → res.1 a = m a := by
  subst h; subst hl
  exact ⟨read_writeList l m rp, rfl, fun a h => writeList_outside l m rp a h⟩

theorem lshift_eq (m : Memory) (rp up n cnt : Nat) (hn : 1 ≤ n) (h : up ≤ rp ∨ rp + n ≤ up) :
    lshift m rp up n cnt =
      (writeList m rp (Mpir.lshift (read m up n) cnt).1, (Mpir.lshift (read m up n) cnt).2) := by
  obtain ⟨k, rfl⟩ : ∃ k, n = k + 1 := ⟨n - 1, by omega⟩
  simp only [lshift, Mpir.lshift, Nat.add_sub_cancel, read_snoc, lshiftGo_snoc]
  rw [lshiftLoop_eq cnt rp up k m _ (by omega)]

theorem rshift_eq (m : Memory) (rp up n cnt : Nat) (hn : 1 ≤ n) (h : rp ≤ up ∨ up + n ≤ rp) :
    rshift m rp up n cnt =
      (writeList m rp (Mpir.rshift (read m up n) cnt).1, (Mpir.rshift (read m up n) cnt).2) := by
  obtain ⟨k, rfl⟩ : ∃ k, n = k + 1 := ⟨n - 1, by omega⟩
  simp only [rshift, Mpir.rshift, Nat.add_sub_cancel, read_succ, rshiftGo_cons]
  rw [rshiftLoop_eq cnt k m rp (up + 1) _ (by omega)]

theorem copyi_eq (m : Memory) (rp up n : Nat) (h : rp ≤ up ∨ up + n ≤ rp) :
    copyi m rp up n = writeList m rp (read m up n) := by
  cases n with
  | zero => rfl
  | succ k =>
    simp only [copyi, ne_eq, Nat.add_one_ne_zero, not_false_eq_true, if_true, Nat.add_sub_cancel, read_succ]
    rw [copyiLoop_eq k m rp (up + 1) _ (by omega)]

theorem copyd_eq (m : Memory) (rp up n : Nat) (h : up ≤ rp ∨ rp + n ≤ up) :
    copyd m rp up n = writeList m rp (read m up n) := by
  cases n with
  | zero => rfl
  | succ k =>
    simp only [copyd, ne_eq, Nat.add_one_ne_zero, not_false_eq_true, if_true, Nat.add_sub_cancel, read_snoc]
    rw [copydLoop_eq rp up k m _ (by omega)]

end Mpir.Mem
