/- mpn_mulmod_bnm1_next_size (gmp-impl.h:3876) over mpir_fft_adjust_limbs (fft/mulmod_2expp1.c:181), model
   Mpir.Hgcd.bnm1NextSize / fftAdjustLimbs with the constants of the pinned build: n ≤ rn < 2n for every n. -/
import Mpir.Model.Hgcd
import Mathlib.Tactic.Ring
import Mathlib.Tactic.Linarith
import Mathlib.Tactic.NormNum
import Mathlib.Tactic.IntervalCases
namespace Mpir.Mm1
open Mpir Mpir.Hgcd

local macro "clogE " x:term:max : term => `(if $x ≤ 2 then 1 else ($x - 1).log2 + 1)

theorem clog_unique (x d : Nat) (hd : 1 ≤ d) (hx : 3 ≤ x) (h1 : 2 ^ (d - 1) < x) (h2 : x ≤ 2 ^ d) :
    (clogE x) = d := by
  rw [if_neg (by omega)]
  have hy : x - 1 ≠ 0 := by omega
  have a : d - 1 ≤ (x - 1).log2 := (Nat.le_log2 hy).mpr (by omega)
  have b : (x - 1).log2 < d := (Nat.log2_lt hy).mpr (by omega)
  omega

theorem clog_bounds (x : Nat) (hx : 3 ≤ x) :
    2 ^ ((clogE x) - 1) < x ∧ x ≤ 2 ^ (clogE x) ∧ 2 ≤ (clogE x) := by
  rw [if_neg (by omega)]
  have hy : x - 1 ≠ 0 := by omega
  have a := Nat.log2_self_le hy
  have b := @Nat.lt_log2_self (x - 1)
  have c : 1 ≤ (x - 1).log2 := (Nat.le_log2 hy).mpr (by omega)
  refine ⟨?_, by omega, by omega⟩
  rw [Nat.add_sub_cancel]; omega

theorem ceil_bounds (x a : Nat) (ha : 0 < a) : x ≤ a * ((x + a - 1) / a) ∧ a * ((x + a - 1) / a) ≤ x + a - 1 := by
  have h := Nat.div_add_mod (x + a - 1) a
  have hr := Nat.mod_lt (x + a - 1) ha
  generalize a * ((x + a - 1) / a) = q at *
  omega

/-- the two roundings of mpir_fft_adjust_limbs for a depth `D` with `2^(D+1) + P + 1 ≤ L`, `2^(2D) ≤ 64·P` -/
theorem adjust_core (L D P : Nat) (hLD : 2 ^ (D + 1) + P + 1 ≤ L) (hP : 2 ^ (D * 2) ≤ 64 * P) :
    L ≤ 2 ^ (D * 2) * ((2 ^ (D + 1) * ((L + 2 ^ (D + 1) - 1) / 2 ^ (D + 1)) * 64 + 2 ^ (D * 2) - 1) / 2 ^ (D * 2)) / 64 ∧
    2 ^ (D * 2) * ((2 ^ (D + 1) * ((L + 2 ^ (D + 1) - 1) / 2 ^ (D + 1)) * 64 + 2 ^ (D * 2) - 1) / 2 ^ (D * 2)) / 64 + 2 ≤ 2 * L := by
  have hA := Nat.two_pow_pos (D + 1)
  have hT := Nat.two_pow_pos (D * 2)
  generalize 2 ^ (D + 1) = A at *
  generalize 2 ^ (D * 2) = T at *
  obtain ⟨a1, a2⟩ := ceil_bounds L A hA
  generalize A * ((L + A - 1) / A) = l2 at *
  obtain ⟨b1, b2⟩ := ceil_bounds (l2 * 64) T hT
  generalize T * ((l2 * 64 + T - 1) / T) = b at *
  omega

def tab19 : List Nat := [4, 3, 3, 4, 3, 3, 3, 3, 3, 2, 2, 2, 2, 2, 2, 2, 2, 1, 1]

theorem tab19_pos (i : Nat) (hi : i ≤ 18) : 1 ≤ tab19.getD i 0 := by
  interval_cases i <;> decide

/-- mpir_fft_adjust_limbs above the cutoff, pinned constants: `L ≤ adjust L ≤ 2L − 2` -/
theorem adjust_bounds (L : Nat) (hL : 128 < L) :
    L ≤ fftAdjustLimbs 128 19 tab19 L ∧ fftAdjustLimbs 128 19 tab19 L + 2 ≤ 2 * L := by
  obtain ⟨c1, c2, c3⟩ := clog_bounds L (by omega)
  unfold fftAdjustLimbs
  rw [if_neg (by omega)]
  simp only []
  generalize hj : (clogE L) = j at *
  have hj8 : 8 ≤ j := by
    by_contra h
    have : 2 ^ j ≤ 2 ^ 7 := Nat.pow_le_pow_right (by norm_num) (by omega)
    omega
  have p5 : 2 ^ (j + 6 - 1) = 2 ^ (j - 1) * 64 := by
    rw [show j + 6 - 1 = (j - 1) + 6 by omega, pow_add]; norm_num
  have p6 : 2 ^ (j + 6) = 2 ^ j * 64 := by rw [pow_add]; norm_num
  have hpos : 0 < 2 ^ (j - 1) := Nat.two_pow_pos _
  have hjj : 2 ^ j = 2 * 2 ^ (j - 1) := by rw [← pow_succ']; congr 1; omega
  have e1 : (clogE (L * 64)) = j + 6 := clog_unique _ _ (by omega) (by omega) (by rw [p5]; omega) (by rw [p6]; omega)
  have e2 : (clogE (2 ^ j * 64)) = j + 6 := clog_unique _ _ (by omega) (by omega) (by rw [p5]; omega) (by rw [p6])
  rw [e1, e2, Nat.max_self, if_neg (by omega)]
  have hidx : min (j + 6) (19 + 11) - 12 ≤ 18 := by omega
  rcases Nat.lt_or_ge j 10 with hlt | hge
  · rcases (show j = 8 ∨ j = 9 by omega) with rfl | rfl
    · have : (8 + 6) / 2 - tab19.getD (min (8 + 6) (19 + 11) - 12) 0 = 4 := by decide
      rw [this]
      exact adjust_core L 4 4 (by norm_num; omega) (by norm_num)
    · have : (9 + 6) / 2 - tab19.getD (min (9 + 6) (19 + 11) - 12) 0 = 3 := by decide
      rw [this]
      have h9 : (2 : Nat) ^ (9 - 1) = 256 := by norm_num
      exact adjust_core L 3 1 (by norm_num; omega) (by norm_num)
  · have hoff := tab19_pos _ hidx
    generalize tab19.getD (min (j + 6) (19 + 11) - 12) 0 = off at *
    generalize hD : (j + 6) / 2 - off = D
    have hD1 : D + 1 ≤ j - 2 := by omega
    have hD2 : D * 2 ≤ (j - 2) + 6 := by omega
    have q1 : 2 ^ (D + 1) ≤ 2 ^ (j - 2) := Nat.pow_le_pow_right (by norm_num) hD1
    have q2 : 2 ^ (D * 2) ≤ 2 ^ ((j - 2) + 6) := Nat.pow_le_pow_right (by norm_num) hD2
    have q3 : 2 ^ ((j - 2) + 6) = 64 * 2 ^ (j - 2) := by rw [pow_add]; ring
    have q4 : 2 ^ (j - 1) = 2 * 2 ^ (j - 2) := by rw [← pow_succ']; congr 1; omega
    exact adjust_core L D (2 ^ (j - 2)) (by omega) (by omega)

/-- **mpn_mulmod_bnm1_next_size** with the constants of the pinned build -/
theorem bnm1NextSize_bounds (n : Nat) (hn : 1 ≤ n) :
    n ≤ bnm1NextSize 128 19 tab19 n ∧ bnm1NextSize 128 19 tab19 n < 2 * n := by
  unfold bnm1NextSize
  by_cases h : n ≤ 2 * 128
  · rw [if_pos h]; omega
  · rw [if_neg h]
    obtain ⟨a, b⟩ := adjust_bounds ((n + 1) / 2) (by omega)
    omega

/-! ### monotonicity -/

/-- the two roundings of mpir_fft_adjust_limbs for the depth `D` -/
def adjCore (L D : Nat) : Nat :=
  2 ^ (D * 2) * ((2 ^ (D + 1) * ((L + 2 ^ (D + 1) - 1) / 2 ^ (D + 1)) * 64 + 2 ^ (D * 2) - 1) / 2 ^ (D * 2)) / 64

/-- the depth mpir_fft_adjust_limbs uses for operands with `2^(j−1) < limbs ≤ 2^j` (pinned MULMOD_TAB) -/
def depthOf (j : Nat) : Nat := (j + 6) / 2 - tab19.getD (min (j + 6) (19 + 11) - 12) 0

theorem adjust_eq (L : Nat) (hL : 128 < L) :
    ∃ j, 8 ≤ j ∧ 2 ^ (j - 1) < L ∧ L ≤ 2 ^ j ∧ fftAdjustLimbs 128 19 tab19 L = adjCore L (depthOf j) := by
  obtain ⟨c1, c2, c3⟩ := clog_bounds L (by omega)
  unfold fftAdjustLimbs
  rw [if_neg (by omega)]
  simp only []
  generalize hj : (clogE L) = j at *
  have hj8 : 8 ≤ j := by
    by_contra h
    have : 2 ^ j ≤ 2 ^ 7 := Nat.pow_le_pow_right (by norm_num) (by omega)
    omega
  have p5 : 2 ^ (j + 6 - 1) = 2 ^ (j - 1) * 64 := by
    rw [show j + 6 - 1 = (j - 1) + 6 by omega, pow_add]; norm_num
  have p6 : 2 ^ (j + 6) = 2 ^ j * 64 := by rw [pow_add]; norm_num
  have hpos : 0 < 2 ^ (j - 1) := Nat.two_pow_pos _
  have hjj : 2 ^ j = 2 * 2 ^ (j - 1) := by rw [← pow_succ']; congr 1; omega
  have e1 : (clogE (L * 64)) = j + 6 := clog_unique _ _ (by omega) (by omega) (by rw [p5]; omega) (by rw [p6]; omega)
  have e2 : (clogE (2 ^ j * 64)) = j + 6 := clog_unique _ _ (by omega) (by omega) (by rw [p5]; omega) (by rw [p6])
  rw [e1, e2, Nat.max_self, if_neg (by omega)]
  exact ⟨j, hj8, c1, c2, rfl⟩

theorem ceil_mono (x y a : Nat) (h : x ≤ y) : a * ((x + a - 1) / a) ≤ a * ((y + a - 1) / a) :=
  Nat.mul_le_mul_left _ (Nat.div_le_div_right (by omega))

theorem ceil_le_of_dvd (x M a : Nat) (ha : 0 < a) (hx : x ≤ M) (hd : a ∣ M) : a * ((x + a - 1) / a) ≤ M := by
  obtain ⟨q, rfl⟩ := hd
  apply Nat.mul_le_mul_left
  have : (x + a - 1) / a ≤ (a * q + a - 1) / a := Nat.div_le_div_right (by omega)
  have e : (a * q + a - 1) / a = q := by
    have : a * q + a - 1 = (a - 1) + a * q := by omega
    rw [this, Nat.add_mul_div_left _ _ ha, Nat.div_eq_of_lt (by omega)]; simp
  omega

theorem adjCore_mono (L1 L2 D : Nat) (h : L1 ≤ L2) : adjCore L1 D ≤ adjCore L2 D := by
  unfold adjCore
  apply Nat.div_le_div_right
  apply ceil_mono
  exact Nat.mul_le_mul_right _ (ceil_mono _ _ _ h)

theorem adjCore_le_pow (L D j : Nat) (hL : L ≤ 2 ^ j) (h1 : D + 1 ≤ j) (h2 : D * 2 ≤ j + 6) : adjCore L D ≤ 2 ^ j := by
  unfold adjCore
  have a1 := ceil_le_of_dvd L (2 ^ j) (2 ^ (D + 1)) (Nat.two_pow_pos _) hL (pow_dvd_pow 2 h1)
  have e : 2 ^ (j + 6) = 2 ^ j * 64 := by rw [pow_add]; norm_num
  have a2 := ceil_le_of_dvd (2 ^ (D + 1) * ((L + 2 ^ (D + 1) - 1) / 2 ^ (D + 1)) * 64) (2 ^ (j + 6)) (2 ^ (D * 2))
    (Nat.two_pow_pos _) (by rw [e]; exact Nat.mul_le_mul_right _ a1) (pow_dvd_pow 2 h2)
  rw [e] at a2
  exact Nat.div_le_of_le_mul (by rw [Nat.mul_comm (2 ^ j)] at a2; exact a2)

theorem depthOf_le (j : Nat) : depthOf j ≤ (j + 6) / 2 := Nat.sub_le _ _

theorem adjust_mono (L1 L2 : Nat) (h1 : 128 < L1) (h : L1 ≤ L2) :
    fftAdjustLimbs 128 19 tab19 L1 ≤ fftAdjustLimbs 128 19 tab19 L2 := by
  obtain ⟨j1, a1, a2, a3, a4⟩ := adjust_eq L1 h1
  obtain ⟨j2, b1, b2, b3, b4⟩ := adjust_eq L2 (by omega)
  rw [a4, b4]
  rcases Nat.lt_or_ge j1 j2 with hlt | hge
  · -- a power of two separates them
    have hd := depthOf_le j1
    have c1 := adjCore_le_pow L1 (depthOf j1) j1 a3 (by omega) (by omega)
    have c2 : 2 ^ j1 ≤ 2 ^ (j2 - 1) := Nat.pow_le_pow_right (by norm_num) (by omega)
    have c3 := (adjust_bounds L2 (by omega)).1
    rw [b4] at c3
    omega
  · have : j1 = j2 := by
      by_contra hne
      have hlt : j2 < j1 := by omega
      have : 2 ^ j2 ≤ 2 ^ (j1 - 1) := Nat.pow_le_pow_right (by norm_num) (by omega)
      omega
    subst this
    exact adjCore_mono L1 L2 _ h

/-- mpn_mulmod_bnm1_next_size is monotone (pinned constants) -/
theorem bnm1NextSize_mono (n1 n2 : Nat) (h : n1 ≤ n2) :
    bnm1NextSize 128 19 tab19 n1 ≤ bnm1NextSize 128 19 tab19 n2 := by
  rcases Nat.eq_zero_or_pos n2 with h0 | hpos
  · have : n1 = 0 := by omega
    subst this h0; exact le_refl _
  · have hb := (bnm1NextSize_bounds n2 hpos).1
    unfold bnm1NextSize at hb ⊢
    by_cases c1 : n1 ≤ 2 * 128
    · rw [if_pos c1]; omega
    · have c2 : ¬ n2 ≤ 2 * 128 := by omega
      rw [if_neg c1, if_neg c2]
      have := adjust_mono ((n1 + 1) / 2) ((n2 + 1) / 2) (by omega) (by omega)
      omega
end Mpir.Mm1
