/- The abstract reduction invariant behind mpn_gcd / mpn_gcdext (Lehmer steps, hgcd steps,
   subtract/divide steps): unimodular non-negative matrix steps preserve the gcd and the cofactor
   relation; the measure a + b decreases. -/
import MpirProofs.Lemmas.Gcd
import Mathlib.Tactic.LinearCombination
namespace Mpir.Gcd
open Mpir

/-- cofactor invariant of a reduction state w.r.t. the inputs (A, B): the accumulated matrix
    (v0 v1; u0 u1) has determinant 1 and a = u1·A - v1·B, b = -u0·A + v0·B. -/
def CofInv (A B : Nat) (s : RState) (v0 v1 : Nat) : Prop :=
  v0 * s.u1 = v1 * s.u0 + 1 ∧ (s.a : Int) = s.u1 * A - v1 * B ∧ (s.b : Int) = -(s.u0 * A) + v0 * B

theorem stepOk_inverse {m : M1} {s s' : RState} (h : StepOk m s s') :
    m.u11 * s.a = s'.a + m.u01 * s.b ∧ m.u00 * s.b = s'.b + m.u10 * s.a := by
  obtain ⟨hd, ha, hb, _, _⟩ := h
  constructor
  · rw [ha, hb]
    calc m.u11 * (m.u00 * s'.a + m.u01 * s'.b) = (m.u00 * m.u11) * s'.a + m.u11 * m.u01 * s'.b := by ring
      _ = (m.u01 * m.u10 + 1) * s'.a + m.u11 * m.u01 * s'.b := by rw [hd]
      _ = s'.a + m.u01 * (m.u10 * s'.a + m.u11 * s'.b) := by ring
  · rw [ha, hb]
    calc m.u00 * (m.u10 * s'.a + m.u11 * s'.b) = (m.u00 * m.u11) * s'.b + m.u00 * m.u10 * s'.a := by ring
      _ = (m.u01 * m.u10 + 1) * s'.b + m.u00 * m.u10 * s'.a := by rw [hd]
      _ = s'.b + m.u10 * (m.u00 * s'.a + m.u01 * s'.b) := by ring

theorem stepOk_gcd {m : M1} {s s' : RState} (h : StepOk m s s') :
    Nat.gcd s.a s.b = Nat.gcd s'.a s'.b := by
  have hinv := stepOk_inverse h
  obtain ⟨_, ha, hb, _, _⟩ := h
  apply Nat.dvd_antisymm
  · apply Nat.dvd_gcd
    · have h1 : Nat.gcd s.a s.b ∣ m.u11 * s.a := Dvd.dvd.mul_left (Nat.gcd_dvd_left _ _) _
      have h2 : Nat.gcd s.a s.b ∣ m.u01 * s.b := Dvd.dvd.mul_left (Nat.gcd_dvd_right _ _) _
      rw [hinv.1] at h1
      exact (Nat.dvd_add_left h2).mp h1
    · have h1 : Nat.gcd s.a s.b ∣ m.u00 * s.b := Dvd.dvd.mul_left (Nat.gcd_dvd_right _ _) _
      have h2 : Nat.gcd s.a s.b ∣ m.u10 * s.a := Dvd.dvd.mul_left (Nat.gcd_dvd_left _ _) _
      rw [hinv.2] at h1
      exact (Nat.dvd_add_left h2).mp h1
  · apply Nat.dvd_gcd
    · rw [ha]
      exact Nat.dvd_add (Dvd.dvd.mul_left (Nat.gcd_dvd_left _ _) _) (Dvd.dvd.mul_left (Nat.gcd_dvd_right _ _) _)
    · rw [hb]
      exact Nat.dvd_add (Dvd.dvd.mul_left (Nat.gcd_dvd_left _ _) _) (Dvd.dvd.mul_left (Nat.gcd_dvd_right _ _) _)

theorem stepOk_cof {m : M1} {s s' : RState} (h : StepOk m s s') {A B v0 v1 : Nat}
    (hc : CofInv A B s v0 v1) : CofInv A B s' (v0 * m.u00 + v1 * m.u10) (v0 * m.u01 + v1 * m.u11) := by
  have hinv := stepOk_inverse h
  obtain ⟨hd, ha, hb, hu0, hu1⟩ := h
  obtain ⟨cd, ca, cb⟩ := hc
  refine ⟨?_, ?_, ?_⟩
  · rw [hu0, hu1]
    have e1 : (v0 * m.u00 + v1 * m.u10) * (s.u0 * m.u01 + s.u1 * m.u11)
        = (v0 * m.u01 + v1 * m.u11) * (s.u0 * m.u00 + s.u1 * m.u10)
          + (v0 * s.u1) * (m.u00 * m.u11) + (v1 * s.u0) * (m.u01 * m.u10)
          - ((v0 * s.u1) * (m.u01 * m.u10) + (v1 * s.u0) * (m.u00 * m.u11)) := by
      have : (v0 * m.u00 + v1 * m.u10) * (s.u0 * m.u01 + s.u1 * m.u11)
          + ((v0 * s.u1) * (m.u01 * m.u10) + (v1 * s.u0) * (m.u00 * m.u11))
          = (v0 * m.u01 + v1 * m.u11) * (s.u0 * m.u00 + s.u1 * m.u10)
          + (v0 * s.u1) * (m.u00 * m.u11) + (v1 * s.u0) * (m.u01 * m.u10) := by ring
      omega
    rw [e1, cd, hd]
    have : (v0 * m.u01 + v1 * m.u11) * (s.u0 * m.u00 + s.u1 * m.u10) + (v1 * s.u0 + 1) * (m.u01 * m.u10 + 1)
        + v1 * s.u0 * (m.u01 * m.u10)
        = (v0 * m.u01 + v1 * m.u11) * (s.u0 * m.u00 + s.u1 * m.u10) + 1
          + ((v1 * s.u0 + 1) * (m.u01 * m.u10) + v1 * s.u0 * (m.u01 * m.u10 + 1)) := by ring
    omega
  · have h1 : ((m.u11 * s.a : Nat) : Int) = ((s'.a + m.u01 * s.b : Nat) : Int) := by rw [hinv.1]
    push_cast at h1 ⊢
    rw [hu1]; push_cast
    linear_combination (-1 : Int) * h1 + (m.u11 : Int) * ca - (m.u01 : Int) * cb
  · have h2 : ((m.u00 * s.b : Nat) : Int) = ((s'.b + m.u10 * s.a : Nat) : Int) := by rw [hinv.2]
    push_cast at h2 ⊢
    rw [hu0]; push_cast
    linear_combination (-1 : Int) * h2 + (m.u00 : Int) * cb - (m.u10 : Int) * ca

/-- Any sequence of contract steps preserves the gcd and the cofactor invariant. -/
theorem reach_inv {s s' : RState} (h : Reach s s') {A B : Nat} :
    Nat.gcd s.a s.b = Nat.gcd s'.a s'.b ∧
    ∀ v0 v1, CofInv A B s v0 v1 → ∃ v0' v1', CofInv A B s' v0' v1' := by
  induction h with
  | refl s => exact ⟨rfl, fun v0 v1 h => ⟨v0, v1, h⟩⟩
  | step m hs _ ih =>
    refine ⟨(stepOk_gcd hs).trans ih.1, fun v0 v1 hc => ?_⟩
    exact ih.2 _ _ (stepOk_cof hs hc)

theorem cofInv_init (A B : Nat) : CofInv A B ⟨A, B, 0, 1⟩ 1 0 := by
  refine ⟨by simp, by simp, by simp⟩

/-- a proper step (M ≠ identity onto a pair of positive numbers) decreases a + b -/
theorem stepOk_decreases {m : M1} {s s' : RState} (h : StepOk m s s')
    (hne : m.u01 ≠ 0 ∨ m.u10 ≠ 0) (ha' : 0 < s'.a) (hb' : 0 < s'.b) : s'.a + s'.b < s.a + s.b := by
  obtain ⟨hd, ha, hb, _, _⟩ := h
  have h00 : 1 ≤ m.u00 := by
    rcases Nat.eq_zero_or_pos m.u00 with h | h
    · rw [h] at hd; simp at hd
    · exact h
  have h11 : 1 ≤ m.u11 := by
    rcases Nat.eq_zero_or_pos m.u11 with h | h
    · rw [h] at hd; simp at hd
    · exact h
  have e1 : s'.a ≤ m.u00 * s'.a := Nat.le_mul_of_pos_left _ h00
  have e2 : s'.b ≤ m.u11 * s'.b := Nat.le_mul_of_pos_left _ h11
  rcases hne with h | h
  · have : s'.b ≤ m.u01 * s'.b := Nat.le_mul_of_pos_left _ (Nat.pos_of_ne_zero h)
    omega
  · have : s'.a ≤ m.u10 * s'.a := Nat.le_mul_of_pos_left _ (Nat.pos_of_ne_zero h)
    omega

theorem pickCofactor_cases (u0 u1 : Nat) (d : Int) :
    pickCofactor u0 u1 d = -(u0 : Int) ∨ pickCofactor u0 u1 d = u1 := by
  unfold pickCofactor
  dsimp only
  split <;> split <;> simp

end Mpir.Gcd
