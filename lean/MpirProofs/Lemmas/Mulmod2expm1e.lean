/- mpn_mulmod_2expm1: the final halving (mulmod_2expm1.c:267-291). -/
import MpirProofs.Lemmas.Mulmod2expm1d
namespace Mpir.Mm1
open Mpir Mpir.Fft

/-- `xp[n-1] |= e·2^j` on a number below `2^(64(n−1)+j)` adds `e·2^(64(n−1)+j)` -/
theorem set_top_or (x : List Nat) (n j e : Nat) (hx : Limbs x) (hl : x.length = n) (hn : 1 ≤ n) (hj : j ≤ 63) (he : e ≤ 1)
    (hv : val x < 2 ^ (64 * (n - 1) + j)) :
    val (setAt x (n - 1) (x.getD (n - 1) 0 ||| (e * 2 ^ j))) = val x + e * 2 ^ (64 * (n - 1) + j) ∧
    (setAt x (n - 1) (x.getD (n - 1) 0 ||| (e * 2 ^ j))).length = n ∧
    Limbs (setAt x (n - 1) (x.getD (n - 1) 0 ||| (e * 2 ^ j))) := by
  obtain ⟨xs, t, rfl, hxs⟩ := exists_snoc x (n - 1) (by omega)
  have hg : (xs ++ [t]).getD (n - 1) 0 = t := by
    rw [List.getD_eq_getElem?_getD, List.getElem?_append_right (by omega), hxs]; simp
  have hset : ∀ v, setAt (xs ++ [t]) (n - 1) v = xs ++ [v] := by
    intro v; unfold setAt
    rw [List.take_append_of_le_length (by omega), List.take_of_length_le (by omega),
      List.drop_of_length_le (by simp; omega)]; simp
  have hxsL := Limbs_snoc.mp hx
  have hB : B ^ (n - 1) * 2 ^ j = 2 ^ (64 * (n - 1) + j) := by rw [B_pow_two', ← pow_add]
  have ht : t < 2 ^ j := by
    rw [val_snoc, hxs, ← hB] at hv
    by_contra hge
    have hge' : 2 ^ j ≤ t := by omega
    have : B ^ (n - 1) * 2 ^ j ≤ B ^ (n - 1) * t := Nat.mul_le_mul_left _ hge'
    omega
  have hor : t ||| e * 2 ^ j = e * 2 ^ j + t := by
    rw [Nat.or_comm]; exact or_low _ _ j (Dvd.intro_left _ rfl) ht
  rw [hg, hset, hor]
  have h2j : 2 ^ j * 2 ≤ B := by
    have : 2 ^ j * 2 = 2 ^ (j + 1) := by rw [pow_succ]
    rw [this]; unfold B; exact Nat.pow_le_pow_right (by norm_num) (by omega)
  refine ⟨?_, by simp [hxs]; omega, Limbs_snoc.mpr ⟨hxsL.1, ?_⟩⟩
  · rw [val_snoc, val_snoc, hxs, ← hB]; ring
  · rcases Nat.eq_zero_or_pos e with h | h
    · subst h; omega
    · have : e = 1 := by omega
      subst this; omega

/-- mpn_half (= mpn_rshift1): the halved number and the bit shifted out, in the top bit of the returned limb -/
theorem half_spec (u : List Nat) (hu : Limbs u) (hne : 0 < u.length) :
    val (rshift u 1).1 = val u / 2 ∧ (rshift u 1).2 = (val u % 2) * 2 ^ 63 ∧ Limbs (rshift u 1).1 ∧
    (rshift u 1).1.length = u.length := by
  obtain ⟨x, xs, rfl⟩ := List.exists_cons_of_length_pos hne
  obtain ⟨_, _, h3, h4, h5, h6⟩ := rshift_val' x xs 1 hu (by omega) (by omega)
  exact ⟨by simpa using h5, by simpa using h6, h3, h4⟩

/-- mulmod_2expm1.c:267-291: `S + 2^h·D` rotated right by one bit inside `b = 2h` bits -/
theorem assemble_spec (S D : List Nat) (b n m k : Nat) (hm : 1 ≤ m) (hk : k ≤ 63) (hh1 : 1 ≤ 64 * m - k)
    (hb : b = 2 * (64 * m - k)) (hn : n = (b + 63) / 64) (hS : Limbs S) (hD : Limbs D)
    (hSl : S.length = m) (hDl : D.length = m)
    (hSv : val S < 2 ^ (64 * m - k)) (hDv : val D < 2 ^ (64 * m - k)) :
    (assemble S D b n m k).length = n ∧ Limbs (assemble S D b n m k) ∧
    val (assemble S D b n m k) = (val S + 2 ^ (64 * m - k) * val D) / 2 +
      (val S + 2 ^ (64 * m - k) * val D) % 2 * 2 ^ (b - 1) := by
  have hB := B_eq
  by_cases hk0 : k = 0
  · subst hk0
    have hn2 : n = 2 * m := by omega
    have e : assemble S D b n m 0 = setAt (rshift (S ++ D) 1).1 (n - 1)
        ((rshift (S ++ D) 1).1.getD (n - 1) 0 ||| (rshift (S ++ D) 1).2) := by
      unfold assemble; simp only [↓reduceIte]
    rw [e]
    simp only [Nat.sub_zero] at *
    have hxl : (S ++ D).length = n := by simp [hSl, hDl]; omega
    have hxL : Limbs (S ++ D) := Limbs_append.mpr ⟨hS, hD⟩
    have hxv : val (S ++ D) = val S + 2 ^ (64 * m) * val D := by rw [val_append, hSl, B_pow_two']
    obtain ⟨r1, r2, r3, r4⟩ := half_spec (S ++ D) hxL (by omega)
    rw [hxl] at r4
    have hW := val_lt _ hxL
    rw [hxl, B_pow_two'] at hW
    rw [hxv] at r1 r2 hW
    generalize val S + 2 ^ (64 * m) * val D = W at *
    generalize rshift (S ++ D) 1 = r at *
    have h2 : 2 ^ (64 * n) = 2 * 2 ^ (64 * (n - 1) + 63) := by
      rw [← pow_succ']; congr 1; omega
    rw [r2]
    obtain ⟨o1, o2, o3⟩ := set_top_or r.1 n 63 (W % 2) r3 r4 (by omega) (by omega) (by omega) (by rw [r1]; omega)
    refine ⟨o2, o3, ?_⟩
    rw [o1, r1]; congr 3; omega
  · have hk1 : 1 ≤ k := by omega
    have hBm := Bn_eq m k hm hk
    obtain ⟨r1, r2, r3, r4⟩ := half_spec S hS (by omega)
    rw [hSl] at r4
    -- the shifted D
    obtain ⟨Dl, Dm, hDD, dv, dL, dl⟩ : ∃ Dl Dm, (if 64 - k - 1 ≠ 0 then lshift D (64 - k - 1) else (D, 0)) = (Dl, Dm) ∧
        val Dl + B ^ m * Dm = val D * 2 ^ (63 - k) ∧ Limbs Dl ∧ Dl.length = m := by
      by_cases hs : 64 - k - 1 = 0
      · refine ⟨D, 0, by simp [hs], ?_, hD, hDl⟩
        have : 63 - k = 0 := by omega
        rw [this]; simp
      · obtain ⟨lv, lc, ll, ln⟩ := lshiftGo_val (64 - k - 1) (by omega) D 0 hD (Nat.two_pow_pos _)
        refine ⟨(lshiftGo (64 - k - 1) D 0).1, (lshiftGo (64 - k - 1) D 0).2, by simp [hs, lshift], ?_, ll, by rw [ln, hDl]⟩
        rw [hDl, Nat.add_zero] at lv
        have e63 : 63 - k = 64 - k - 1 := by omega
        rw [e63]; exact lv
    have e : assemble S D b n m k =
        let xp := (rshift S 1).1.take (m - 1) ++ Dl
        let xp := setAt xp (m - 1) (xp.getD (m - 1) 0 ||| (rshift S 1).1.getD (m - 1) 0)
        let xp := if 2 * m = n then xp ++ [Dm] else xp
        setAt xp (n - 1) (xp.getD (n - 1) 0 ||| ((rshift S 1).2 >>> (64 * n - b))) := by
      unfold assemble
      simp only [hk0, ↓reduceIte, hDD]
    rw [e]
    generalize rshift S 1 = r at *
    simp only
    -- Sh = A ++ [car1]
    have hA : r.1 = r.1.take (m - 1) ++ [r.1.getD (m - 1) 0] := by
      have := take_succ_getD r.1 (m - 1) (by omega)
      rw [show m - 1 + 1 = m by omega, List.take_of_length_le (by omega)] at this; exact this
    have hAl : (r.1.take (m - 1)).length = m - 1 := by rw [List.length_take, r4]; omega
    have hAL : Limbs (r.1.take (m - 1)) := Limbs_take r3 _
    generalize r.1.take (m - 1) = A at *
    generalize r.1.getD (m - 1) 0 = car1 at *
    have hShv : val r.1 = val A + B ^ (m - 1) * car1 := by rw [hA, val_snoc, hAl]
    have hHh : 2 ^ (64 * m - k) = 2 * (B ^ (m - 1) * 2 ^ (63 - k)) := by
      rw [B_pow_two', ← pow_add, ← pow_succ']; congr 1; omega
    have hcar1 : car1 < 2 ^ (63 - k) := by
      have h1 : val r.1 < B ^ (m - 1) * 2 ^ (63 - k) := by rw [r1]; omega
      by_contra hge
      have hge' : 2 ^ (63 - k) ≤ car1 := by omega
      have : B ^ (m - 1) * 2 ^ (63 - k) ≤ B ^ (m - 1) * car1 := Nat.mul_le_mul_left _ hge'
      omega
    have hcar1B : car1 < B := by
      have : Limbs (A ++ [car1]) := hA ▸ r3
      exact (Limbs_snoc.mp this).2
    -- Dl = d0 :: Dt, d0 a multiple of 2^(63-k)
    obtain ⟨d0, Dt, rfl⟩ : ∃ d0 Dt, Dl = d0 :: Dt := List.exists_cons_of_length_pos (by omega)
    have ⟨hd0B, hDtL⟩ := Limbs_cons.mp dL
    have hdvd : 2 ^ (63 - k) ∣ d0 := by
      have hv : val (d0 :: Dt) = d0 + B * val Dt := rfl
      have d1 : 2 ^ (63 - k) ∣ val (d0 :: Dt) + B ^ m * Dm := by rw [dv]; exact Dvd.intro_left _ rfl
      have d2 : 2 ^ (63 - k) ∣ B * val Dt := Dvd.dvd.mul_right (two_pow_dvd_B _ (by omega)) _
      have d3 : 2 ^ (63 - k) ∣ B ^ m * Dm := by
        apply Dvd.dvd.mul_right
        obtain ⟨m', rfl⟩ : ∃ m', m = m' + 1 := ⟨m - 1, by omega⟩
        rw [pow_succ]; exact Dvd.dvd.mul_left (two_pow_dvd_B _ (by omega)) _
      rw [hv] at d1
      have d4 : 2 ^ (63 - k) ∣ d0 + B * val Dt := (Nat.dvd_add_left d3).mp d1
      exact (Nat.dvd_add_left d2).mp d4
    have hor : d0 ||| car1 = d0 + car1 := or_low _ _ _ hdvd hcar1
    have horB : d0 + car1 < B := by
      rw [← hor]
      have : d0 ||| car1 < 2 ^ 64 := Nat.or_lt_two_pow hd0B hcar1B
      exact this
    have hget : (A ++ d0 :: Dt).getD (m - 1) 0 = d0 := by
      rw [List.getD_eq_getElem?_getD, List.getElem?_append_right (by omega), hAl]; simp
    have hset : setAt (A ++ d0 :: Dt) (m - 1) (d0 + car1) = A ++ (d0 + car1) :: Dt := by
      unfold setAt
      rw [List.take_left' hAl]
      have : A ++ d0 :: Dt = (A ++ [d0]) ++ Dt := by simp
      rw [this, List.drop_left' (by simp [hAl])]; simp
    rw [hget, hor, hset]
    have hDtl : Dt.length = m - 1 := by simp at dl; omega
    have hx2l : (A ++ (d0 + car1) :: Dt).length = 2 * m - 1 := by simp [hAl, hDtl]; omega
    have hx2L : Limbs (A ++ (d0 + car1) :: Dt) := Limbs_append.mpr ⟨hAL, Limbs_cons.mpr ⟨horB, hDtL⟩⟩
    have hx2v : val (A ++ (d0 + car1) :: Dt) = val r.1 + B ^ (m - 1) * val (d0 :: Dt) := by
      rw [val_append, hAl, hShv]; simp only [val_cons]; ring
    generalize A ++ (d0 + car1) :: Dt = x2 at *
    -- the value S/2 + 2^(h-1)·D in n limbs
    have hW2 : (val S + 2 ^ (64 * m - k) * val D) / 2 = val S / 2 + B ^ (m - 1) * 2 ^ (63 - k) * val D := by
      rw [hHh, Nat.mul_assoc 2, Nat.add_mul_div_left _ _ (by norm_num : 0 < 2)]
    have hWm : (val S + 2 ^ (64 * m - k) * val D) % 2 = val S % 2 := by
      rw [hHh, Nat.mul_assoc 2, Nat.add_mul_mod_self_left]
    have hx3 : ∃ x3, (if 2 * m = n then x2 ++ [Dm] else x2) = x3 ∧ x3.length = n ∧ Limbs x3 ∧
        val x3 = val S / 2 + B ^ (m - 1) * 2 ^ (63 - k) * val D := by
      by_cases hn2 : 2 * m = n
      · refine ⟨x2 ++ [Dm], by rw [if_pos hn2], by simp [hx2l]; omega, Limbs_snoc.mpr ⟨hx2L, ?_⟩, ?_⟩
        · by_contra hge
          have hge' : B ≤ Dm := by omega
          have h1 : B ^ m * B ≤ B ^ m * Dm := Nat.mul_le_mul_left _ hge'
          have h2 : val D * 2 ^ (63 - k) < B ^ m * B := by
            have hDB := val_lt D hD; rw [hDl] at hDB
            have : 2 ^ (63 - k) < B := by unfold B; exact Nat.pow_lt_pow_right (by norm_num) (by omega)
            exact Nat.mul_lt_mul'' hDB this
          omega
        · rw [val_snoc, hx2l, hx2v, r1]
          have e1 : B ^ (2 * m - 1) = B ^ (m - 1) * B ^ m := by rw [← pow_add]; congr 1; omega
          rw [e1]
          have : B ^ (m - 1) * val (d0 :: Dt) + B ^ (m - 1) * B ^ m * Dm = B ^ (m - 1) * (val D * 2 ^ (63 - k)) := by
            rw [← dv]; ring
          rw [Nat.add_assoc, this]; ring
      · have hk32 : 32 ≤ k := by omega
        have hn1 : n = 2 * m - 1 := by omega
        have hDm0 : Dm = 0 := by
          by_contra hne
          have h1 : B ^ m * 1 ≤ B ^ m * Dm := Nat.mul_le_mul_left _ (Nat.one_le_iff_ne_zero.mpr hne)
          have h2 : val D * 2 ^ (63 - k) < 2 ^ (64 * m - k) * 2 ^ (63 - k) :=
            Nat.mul_lt_mul_of_pos_right hDv (Nat.two_pow_pos _)
          have h3 : 2 ^ (64 * m - k) * 2 ^ (63 - k) ≤ B ^ m := by
            rw [B_pow_two', ← pow_add]; exact Nat.pow_le_pow_right (by norm_num) (by omega)
          omega
        refine ⟨x2, by rw [if_neg hn2], by rw [hx2l, hn1], hx2L, ?_⟩
        rw [hx2v, r1]
        have : val (d0 :: Dt) = val D * 2 ^ (63 - k) := by rw [← dv, hDm0]; simp
        rw [this]; ring
    obtain ⟨x3, hx3e, x3l, x3L, x3v⟩ := hx3
    rw [hx3e]
    have hcar : r.2 >>> (64 * n - b) = val S % 2 * 2 ^ (63 - (64 * n - b)) := by
      rw [r2, Nat.shiftRight_eq_div_pow]
      have : 2 ^ 63 = 2 ^ (63 - (64 * n - b)) * 2 ^ (64 * n - b) := by rw [← pow_add]; congr 1; omega
      rw [this, ← Nat.mul_assoc, Nat.mul_div_cancel _ (Nat.two_pow_pos _)]
    rw [hcar]
    have hbb : 64 * (n - 1) + (63 - (64 * n - b)) = b - 1 := by omega
    have hb1 : 2 ^ (b - 1) = B ^ (m - 1) * 2 ^ (63 - k) * 2 ^ (64 * m - k) := by
      rw [B_pow_two', ← pow_add, ← pow_add]; congr 1; omega
    obtain ⟨o1, o2, o3⟩ := set_top_or x3 n (63 - (64 * n - b)) (val S % 2) x3L x3l (by omega) (by omega) (by omega)
      (by
        rw [hbb, x3v, hb1]
        have h1 : val S / 2 < B ^ (m - 1) * 2 ^ (63 - k) := by omega
        have h2 : B ^ (m - 1) * 2 ^ (63 - k) * (val D + 1) ≤ B ^ (m - 1) * 2 ^ (63 - k) * 2 ^ (64 * m - k) :=
          Nat.mul_le_mul_left _ (by omega)
        have h3 : B ^ (m - 1) * 2 ^ (63 - k) * (val D + 1) = B ^ (m - 1) * 2 ^ (63 - k) * val D + B ^ (m - 1) * 2 ^ (63 - k) := by ring
        omega)
    refine ⟨o2, o3, ?_⟩
    rw [o1, x3v, hW2, hWm, hbb]
end Mpir.Mm1
