/- The squaring variants of Mpir/Model/SqrAlgo.lean: Karatsuba squaring by strong induction; Toom-3 and Toom-4 squaring
   are the multiplication models of Mpir/Model/MulAlgo.lean with both operands equal. -/
import Mpir.Model.SqrAlgo
import MpirProofs.Lemmas.MulAlgo
namespace Mpir.SqrAlgo
open Mpir Mpir.MulAlgo

theorem kara_sq_combine (t xl xh : Nat) :
    xl * xl + t ^ 2 * (xh * xh) + t * (xl * xl + xh * xh - absDiff xh xl * absDiff xh xl) =
      (xl + t * xh) * (xl + t * xh) := by
  unfold absDiff
  by_cases h : xh ≥ xl
  · rw [if_pos h]
    obtain ⟨a, rfl⟩ := Nat.exists_eq_add_of_le h
    rw [Nat.add_sub_cancel_left]
    have : xl * xl + (xl + a) * (xl + a) - a * a = 2 * (xl * xl) + 2 * (xl * a) := by
      apply Nat.sub_eq_of_eq_add; ring
    rw [this]; ring
  · rw [if_neg h]
    have h' : xh ≤ xl := by omega
    obtain ⟨a, rfl⟩ := Nat.exists_eq_add_of_le h'
    rw [Nat.add_sub_cancel_left]
    have : (xh + a) * (xh + a) + xh * xh - a * a = 2 * (xh * xh) + 2 * (xh * a) := by
      apply Nat.sub_eq_of_eq_add; ring
    rw [this]; ring

/-- `mpn_kara_sqr_n` returns the square for every n ≥ 2, every basecase threshold T1 and every recursion threshold
    T2 ≥ 3 (strong induction on n; the recursion of mul_n.c:274-276 is modelled, not assumed). -/
theorem kara_sqr_n_eq (T1 T2 : Nat) (hT : 3 ≤ T2) : ∀ (n : Nat), 2 ≤ n → ∀ x, kara_sqr_n T1 T2 x n = some (x * x) := by
  intro n
  induction n using Nat.strong_induction_on with
  | _ n ih =>
    intro hn x
    rw [kara_sqr_n]
    have hn2 : ¬ n < 2 := by omega
    simp only [hn2, dite_false]
    have hx : x = x % B ^ (n / 2) + B ^ (n / 2) * (x / B ^ (n / 2)) := (Nat.mod_add_div x _).symm
    have hpow : B ^ (2 * (n / 2)) = (B ^ (n / 2)) ^ 2 := by ring
    have key := kara_sq_combine (B ^ (n / 2)) (x % B ^ (n / 2)) (x / B ^ (n / 2))
    by_cases hb1 : n - n / 2 < T1
    · simp only [hb1, if_true, hpow]
      rw [key, ← hx]
    · by_cases hb2 : n - n / 2 < T2
      · simp only [hb1, hb2, if_false, if_true, hpow]
        rw [key, ← hx]
      · have h1 : n / 2 < n := by omega
        have h2 : n - n / 2 < n := by omega
        have g1 : 2 ≤ n / 2 := by omega
        have g2 : 2 ≤ n - n / 2 := by omega
        simp only [hb1, hb2, if_false, h1, h2, dite_true, ih _ h1 g1, ih _ h2 g2, hpow]
        rw [key, ← hx]

/-- the interpolation only tests `sa < 0`: a square of a sign is as good as 1 -/
theorem toom3Interp_sign (v0 v1 v2 vm1 vinf s : Int) :
    toom3Interp v0 v1 v2 vm1 vinf (s * s) = toom3Interp v0 v1 v2 vm1 vinf 1 := by
  unfold toom3Interp
  have h1 : ¬ (s * s < 0) := not_lt.mpr (mul_self_nonneg s)
  have h2 : ¬ ((1 : Int) < 0) := by norm_num
  simp only [h1, h2, if_false]

/-- mpn_toom3_sqr_n is mpn_toom3_mul_n with both operands equal (value level): same evaluation points in the same
    form, same products, and the sign handed to the interpolation (the constant 1) is equivalent to sa·sa -/
theorem toom3_sqr_n_eq_mul (sqr : Nat → Nat) (hsqr : ∀ x, sqr x = x * x) (a n : Nat) :
    toom3_sqr_n sqr a n = toom3_mul_n (fun x y => x * y) a a n := by
  unfold toom3_sqr_n toom3_mul_n toom3_mul
  simp only [hsqr, toom3Interp_sign]

theorem toom3_sqr_n_eq (sqr : Nat → Nat) (hsqr : ∀ x, sqr x = x * x) (a n : Nat) : toom3_sqr_n sqr a n = a * a := by
  rw [toom3_sqr_n_eq_mul sqr hsqr]; exact toom3_mul_eq _ (fun _ _ => rfl) a n a n

/-- mpn_toom4_sqr_n is mpn_toom4_mul_n with both operands equal (value level); the C differs in the order of the
    additions forming the evaluation points and passes non-negative n4, n6 (the values at −1 and −1/2 are squares) -/
theorem toom4_sqr_n_eq_mul (sqr : Nat → Nat) (hsqr : ∀ x, sqr x = x * x) (a n : Nat) (hn : 1 ≤ n) :
    toom4_sqr_n sqr a n = toom4_mul_n (fun x y => x * y) a a n := by
  have hs : (n - 1) / 4 + 1 = (n + 3) / 4 := by omega
  unfold toom4_sqr_n toom4_mul_n toom4_mul
  simp only [hsqr, hs, bne_self_eq_false, Bool.false_and]
  generalize a % B ^ ((n + 3) / 4) = a0
  generalize a / B ^ ((n + 3) / 4) % B ^ ((n + 3) / 4) = a1
  generalize a / (B ^ ((n + 3) / 4)) ^ 2 % B ^ ((n + 3) / 4) = a2
  generalize a / (B ^ ((n + 3) / 4)) ^ 3 = a3
  rw [Nat.add_comm a3 a1, Nat.add_comm (8 * a0) (2 * a2), Nat.add_comm (4 * a1) a3,
    show 8 * a3 + 4 * a2 + 2 * a1 + a0 = a0 + 2 * a1 + 4 * a2 + 8 * a3 by ring]

theorem toom4_sqr_n_eq (sqr : Nat → Nat) (hsqr : ∀ x, sqr x = x * x) (a n : Nat) (hn : 1 ≤ n) :
    toom4_sqr_n sqr a n = a * a := by
  rw [toom4_sqr_n_eq_mul sqr hsqr a n hn]; exact toom4_mul_eq _ (fun _ _ => rfl) a n a n

end Mpir.SqrAlgo
