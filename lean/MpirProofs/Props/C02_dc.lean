/-
  C02 (multi-limb layer) — divide-and-conquer division: mpn_dc_div_qr_n and mpn_dc_div_qr return the exact Euclidean
  quotient and remainder for ALL sizes and ALL thresholds DC_DIV_QR_THRESHOLD = T ≥ 6 with a normalised divisor; every
  `while (cy != 0)` correction loop ends after at most 4 add-backs (at most 2 when the quotient block being corrected
  has no high limb); every callee is used inside its ASSERTed domain; mpn_dc_div_q turns the approximate quotient of
  its callee into the exact one.  Property theorems only; helper lemmas live in MpirProofs/Lemmas/DcDiv.lean.

  The theorems are about the executable value-level model Mpir/Model/DcDiv.lean of mpn/generic/dc_div_qr_n.c,
  dc_div_qr.c, dc_div_q.c, which the correspondence check runs against the real functions (ops `dc_div_qr_n`,
  `dc_div_qr_model`, `dc_div_q`) on every run.  Limb areas are naturals with explicit limb counts; `ok` records that
  every mpn_sb_div_qr / mpn_divrem_2 / mpn_dc_div_qr_n call had > 2 (resp. 2, ≥ 6) limbs and a normalised divisor,
  that every correction loop left through `cy == 0`, and that the ASSERT_NOCARRY of dc_div_qr.c:155 held.
  The leaf mpn_sb_div_qr enters through its contract, proved limb for limb in MpirProofs/Props/C02_sb.lean.

  Minimal sizes.  mpn_dc_div_qr_n calls mpn_sb_div_qr on ⌈n/2⌉ and ⌊n/2⌋ limbs (ASSERT dn > 2), so n ≥ 6; it
  recurses on ⌈n/2⌉ or ⌊n/2⌋ as soon as that is ≥ T, so T ≥ 6 (T = 5, n = 10 reaches mpn_sb_div_qr with 2 limbs:
  see the examples at the end).

  A remark on the number of add-backs.  The often quoted bound "at most 2" holds only when the divided window is below
  D·B^k, i.e. when the block quotient has no high limb qh.  mpn_dc_div_qr_n accepts any 2n-limb dividend (it returns
  qh); for N ≥ D·B^n the first loop needs up to 4 add-backs (examples below, also run against the real function).
-/
import MpirProofs.Lemmas.DcDiv
namespace Mpir.DcDiv
open Mpir

private theorem norm_of_half {n D : Nat} (hn : 1 ≤ n) (h : B ^ n / 2 ≤ D) : B ^ n ≤ 2 * D := by
  obtain ⟨j, hj⟩ : ∃ j, n = j + 1 := ⟨n - 1, by omega⟩
  have he : B ^ n = 2 * (B ^ n / 2) := by rw [hj, pow_succ, B_eq]; omega
  omega

/-- The multiply–subtract–correct block that follows every 2k/k division (dc_div_qr_n.c:49-59, :66-76,
    dc_div_qr.c:133-146, :172-185).  D has k+m limbs and its k top limbs Dt = ⌊D/B^m⌋ are normalised; the division
    left Wt = (qh·B^k + Q)·Dt + R1 < B^(2k) with R1 < Dt; Wl are the m limbs below.  Then the block ends (`ok`) with the
    exact quotient and remainder of W = Wt·B^m + Wl by D, the number of add-backs is ⌊Wt/Dt⌋ - ⌊W/D⌋ ≤ 4, and it is
    ≤ 2 with final high limb 0 when W < D·B^k. -/
theorem mulSubCorr_exact (k m D Q qh R1 Wl : Nat)
    (hDn : D < B ^ (k + m)) (hnorm : B ^ k ≤ 2 * (D / B ^ m))
    (hQ : Q < B ^ k) (hqh : qh ≤ 1) (hR1 : R1 < D / B ^ m) (hWl : Wl < B ^ m)
    (hWt : (qh * B ^ k + Q) * (D / B ^ m) + R1 < B ^ k * B ^ k) :
    let W := ((qh * B ^ k + Q) * (D / B ^ m) + R1) * B ^ m + Wl
    let b := mulSubCorr k m D Q qh R1 Wl
    b.ok = true ∧ W = (b.qh * B ^ k + b.q) * D + b.r ∧ b.r < D ∧ b.q < B ^ k ∧ b.qh ≤ 1 ∧
      b.adds = (qh * B ^ k + Q) - W / D ∧ b.adds ≤ 4 ∧ (W < D * B ^ k → b.adds ≤ 2 ∧ b.qh = 0) :=
  mulSubCorr_spec k m D Q qh R1 Wl hDn hnorm hQ hqh hR1 hWl hWt

-- k = m = 3: the estimate 3B^3/4 is two too large
example : mulSubCorr 3 3 0x800000000000000000000000000000000000000000000000ffffffffffffffffffffffffffffffffffffffffffffffff 0xc00000000000000000000000000000000000000000000000 0 7 9 =
    { q := 0xbffffffffffffffffffffffffffffffffffffffffffffffe, qh := 0, r := 0x400000000000000000000000000000000000000000000009c00000000000000000000000000000000000000000000007, adds := 2, ok := true } := by decide

/-- mpn_dc_div_qr_n (qp, np, dp, n, dinv, tp), dc_div_qr_n.c:33-79, for EVERY n ≥ 6 and EVERY threshold T ≥ 6,
    normalised D (B^n/2 ≤ D < B^n) and any 2n-limb N:  N = (qh·B^n + Q)·D + R, R < D, Q < B^n, qh ≤ 1, and every
    callee was inside its ASSERTed domain and every correction loop ended (`ok`). -/
theorem dcDivQrN_exact (T n N D : Nat) (hT : 6 ≤ T) (hn : 6 ≤ n) (hnorm : B ^ n / 2 ≤ D) (hD : D < B ^ n)
    (hN : N < B ^ (2 * n)) :
    let r := dcDivQrN T n N D
    N = (r.qh * B ^ n + r.q) * D + r.r ∧ r.r < D ∧ r.q < B ^ n ∧ r.qh ≤ 1 ∧ r.ok = true := by
  rw [two_pow] at hN
  obtain ⟨⟨ok, id, hr, hq, hqh, _⟩, _⟩ := dcDivQrN_spec T n N D hT hn (norm_of_half (by omega) hnorm) hD hN
  exact ⟨id, hr, hq, hqh, ok⟩

-- n = 12, T = 6: both halves recurse (hi = lo = 6 ≥ T); two add-backs in each top-level loop, remainder D-1
example : dcDivQrN 6 12 0x6000000000000000000000000000000000000000000000000000000000000000000000000000000000000000000000014000000000000000000000000000000000000000000000000000000000000000000000000000000000000000000000003ffffffffffffffffffffffffffffffffffffffffffffffffffffffffffffffffffffffffffffffffffffffffffffffeffffffffffffffffffffffffffffffffffffffffffffffffffffffffffffffffffffffffffffffffffffffffffffffff 0x800000000000000000000000000000000000000000000000000000000000000000000000000000000000000000000000ffffffffffffffffffffffffffffffffffffffffffffffffffffffffffffffffffffffffffffffffffffffffffffffff =
    { q := 0xc00000000000000000000000000000000000000000000000000000000000000000000000000000000000000000000000ffffffffffffffffffffffffffffffffffffffffffffffffffffffffffffffffffffffffffffffffffffffffffffffff, r := 0x800000000000000000000000000000000000000000000000000000000000000000000000000000000000000000000000fffffffffffffffffffffffffffffffffffffffffffffffffffffffffffffffffffffffffffffffffffffffffffffffe, qh := 0, ah := 2, al := 2, mx := 2, ok := true } := by decide

-- n = 13, T = 7: hi = 7 recurses, lo = 6 is schoolbook; random operands, no add-back
example : dcDivQrN 7 13 0x807c0ba2e83e10825ea6d130a6f441a76ce894240915c845b32d98c889e378a346ca45a45a347a406b6564dc48fa11367d7104f579c2bd6892d479929c10c06472080542cb37dd64322e234d72ac82a4f233652e6b31660b8feefdc3f4ef06f80fca977a8848a5942b2c8418920f3448cbd65e13eaf2b87d6719e75899df1f85274e11b7202d155abd76a5e4fb4252182ea829662f2978189577aa25ea66ad899616ad9cd04bbe5a5336ef6e28375b9d28b43fa55ddcabd3df186baada386caa4f3211fa828487e8428db8a258e47f17 0xee82ec3ffee5a5b28d1fe1daff6665896822a6b24735af1ca7a114907513923715c1d2dfa9964aef012d0ea67ff122294b4d8474a3ea284d3bd0334684e55160320094ead7a94ded97491e2370c6a5b85387f61376c468aec7321cc007b37e14998092253deffa38 =
    { q := 0x89e7d15f17362f25244caf9c4dabb4817253edc6181879932fa91425cb0088539d2c67eda13ffe7979cb9e86830c71c2cdcc69292f45e678309d6b79965eda32dae445508201e2bd73ab48767734d7c1c7fde805ec99108ddb5b5fab8f4d3e27dda1494c73cf256d, r := 0xe12b2b8f30b17d0b09208a650f3ebdd3102b938b8743feb6d4ea65d003d716849f8558a628518867a66b0d389d95847ebd299753a767779673f778aaf6fa5db8656abd72fb710734986e86cb0ab8ab67a26b7f62b1852f27e3eff9c0cf44dd3f, qh := 0, ah := 0, al := 0, mx := 0, ok := true } := by decide

/-- the same as floor division: qh·B^n + Q = ⌊N/D⌋ and R = N mod D -/
theorem dcDivQrN_floor (T n N D : Nat) (hT : 6 ≤ T) (hn : 6 ≤ n) (hnorm : B ^ n / 2 ≤ D) (hD : D < B ^ n)
    (hN : N < B ^ (2 * n)) :
    (dcDivQrN T n N D).qh * B ^ n + (dcDivQrN T n N D).q = N / D ∧ (dcDivQrN T n N D).r = N % D := by
  obtain ⟨id, hr, _⟩ := dcDivQrN_exact T n N D hT hn hnorm hD hN
  have := Mpir.DivWord.divmod_of_eq N D _ _ id hr
  exact ⟨this.1.symm, this.2.symm⟩

-- (the two examples above: 0x… = ⌊N/D⌋ and N mod D, checked by the python mirror's divmod and by the real function)
example : (dcDivQrN 6 6 (7 * (B ^ 6 - 1) + 5) (B ^ 6 - 1)).q = 7 ∧ (dcDivQrN 6 6 (7 * (B ^ 6 - 1) + 5) (B ^ 6 - 1)).r = 5 := by decide

/-- Add-backs of mpn_dc_div_qr_n: no correction loop anywhere in the call tree runs more than 4 times (`mx`), the
    second loop (dc_div_qr_n.c:72) of the call itself at most twice (`al`), and its first loop (:55) at most twice
    when N < D·B^n — then the returned qh is 0 (the situation of every call from mpn_dc_div_qr's main loop). -/
theorem dcDivQrN_addbacks (T n N D : Nat) (hT : 6 ≤ T) (hn : 6 ≤ n) (hnorm : B ^ n / 2 ≤ D) (hD : D < B ^ n)
    (hN : N < B ^ (2 * n)) :
    let r := dcDivQrN T n N D
    r.mx ≤ 4 ∧ r.ah ≤ 4 ∧ r.al ≤ 2 ∧ (N < D * B ^ n → r.ah ≤ 2 ∧ r.qh = 0) := by
  rw [two_pow] at hN
  obtain ⟨⟨_, _, _, _, _, mx⟩, al, ah, h2⟩ := dcDivQrN_spec T n N D hT hn (norm_of_half (by omega) hnorm) hD hN
  exact ⟨mx, ah, al, h2⟩

-- n = 6 (the smallest size): N ≥ D·B^n, qh = 1 and FOUR add-backs in the first loop — the bound 4 is attained
example : dcDivQrN 6 6 0xffffffffffffffffffffffffffffffffffffffffffffffff800000000000000000000000000000000000000000000000000000000000000000000000000000000000000000000000000000000000000000000000000000000000000000000000 0x800000000000000000000000000000000000000000000000ffffffffffffffffffffffffffffffffffffffffffffffff =
    { q := 0xfffffffffffffffffffffffffffffffffffffffffffffffb00000000000000000000000000000000000000000000000d, r := 0x7fffffffffffffffffffffffffffffffffffffffffffffee00000000000000000000000000000000000000000000000d, qh := 1, ah := 4, al := 0, mx := 4, ok := true } := by decide

-- n = 13, T = 6 (hi = 7, lo = 6, both recurse): qh = 1, three add-backs
example : dcDivQrN 6 13 0xc0000000000000000000000000000000000000000000000000000000000000000000000000000000000000000000000000000000000000019ffffffffffffffffffffffffffffffffffffffffffffffffffffffffffffffffffffffffffffffffffffffffffffffe80000000000000003fffffffffffffffffffffffffffffffffffffffffffffffffffffffffffffffffffffffffffffffffffffffffffffffc00000000000000000000000000000000000000000000000000000000000000000000000000000000000000000003039 0x8000000000000000000000000000000000000000000000000000000000000000000000000000000000000000000000000000000000000000ffffffffffffffffffffffffffffffffffffffffffffffffffffffffffffffffffffffffffffffffffffffffffffffff =
    { q := 0x8000000000000000000000000000000000000000000000000000000000000000000000000000000000000000000000000000000000000000400000000000000000000000000000000000000000000000000000000000000000000000000000000000000000000000, r := 0x3039, qh := 1, ah := 3, al := 0, mx := 3, ok := true } := by decide

-- T = 5 is too small: n = 10 recurses on 5 limbs and reaches mpn_sb_div_qr with 2 limbs (`ok` = false); T = 6 is fine
example : (dcDivQrN 5 10 0xffffffffffffffffffffffffffffffffffffffffffffffffffffffffffffffffffffffffffffffffffffffffffffffffffffffffffffffffffffffffffffffffffffffffffffffffffffffffffffffffffffffffffffffffffffffffffffffffffffffffffffffffffffffffffffffffffffffffffffffffffffffffffffffffffffffffffffffffffffffffffffffffffffffffffffffffffffffffffffffff 0xffffffffffffffffffffffffffffffffffffffffffffffffffffffffffffffffffffffffffffffffffffffffffffffffffffffffffffffffffffffffffffffffffffffffffffffffffffffffffffffff).ok = false ∧ (dcDivQrN 6 10 0xffffffffffffffffffffffffffffffffffffffffffffffffffffffffffffffffffffffffffffffffffffffffffffffffffffffffffffffffffffffffffffffffffffffffffffffffffffffffffffffffffffffffffffffffffffffffffffffffffffffffffffffffffffffffffffffffffffffffffffffffffffffffffffffffffffffffffffffffffffffffffffffffffffffffffffffffffffffffffffffff 0xffffffffffffffffffffffffffffffffffffffffffffffffffffffffffffffffffffffffffffffffffffffffffffffffffffffffffffffffffffffffffffffffffffffffffffffffffffffffffffffff).ok = true := by decide
-- n = 5 is too small (mpn_sb_div_qr on 2 limbs)
example : (dcDivQrN 6 5 0xffffffffffffffffffffffffffffffffffffffffffffffffffffffffffffffffffffffffffffffffffffffffffffffffffffffffffffffffffffffffffffffffffffffffffffffffffffffffffffffff 0xffffffffffffffffffffffffffffffffffffffffffffffffffffffffffffffffffffffffffffffff).ok = false := by decide

/-- On limb vectors the model returns exactly the value-level contract `DivZ.mpnDivQr 6 0` (⌊n/d⌋ split into n limbs
    and qh, n mod d on n limbs): the handler's `!modelspec` / `!modeldomain` markers are unreachable. -/
theorem dc_div_qr_n_contract (T : Nat) (np dp : List Nat) (hT : 6 ≤ T) (hdn : 6 ≤ dp.length)
    (hnn : np.length = 2 * dp.length) (hnorm : B / 2 ≤ dp.getD (dp.length - 1) 0) (hn : Limbs np) (hd : Limbs dp) :
    DivZ.mpnDivQr 6 0 np dp = some (dc_div_qr_n T np dp) ∧ (dcDivQrN T dp.length (val np) (val dp)).ok = true := by
  obtain ⟨n1, n2, n3⟩ := norm_val dp hd (by omega) hnorm
  have hN : val np < B ^ dp.length * B ^ dp.length := by
    have := val_lt np hn
    rw [hnn, two_pow] at this; exact this
  obtain ⟨⟨ok, id, hr, hq, hqh, _⟩, _⟩ := dcDivQrN_spec T dp.length (val np) (val dp) hT hdn n1 n2 hN
  obtain ⟨hQ, hR⟩ := Mpir.DivWord.divmod_of_eq (val np) (val dp) _ _ id hr
  refine ⟨?_, ok⟩
  unfold DivZ.mpnDivQr dc_div_qr_n
  rw [if_neg (by simp [n3]; omega)]
  simp only []
  have e0 : np.length - dp.length = dp.length := by omega
  rw [hQ, hR, e0]
  generalize dcDivQrN T dp.length (val np) (val dp) = r at *
  have hP := pow_pos' dp.length
  have e1 : toLimbs dp.length (r.qh * B ^ dp.length + r.q) = toLimbs dp.length r.q := by
    rw [Nat.add_comm, Nat.mul_comm]; exact toLimbs_add_high _ _ _
  have e3 : (r.qh * B ^ dp.length + r.q) / B ^ dp.length = r.qh := by
    rw [Nat.add_comm, Nat.add_mul_div_right _ _ hP, Nat.div_eq_of_lt hq, Nat.zero_add]
  rw [e1, e3]

example : dc_div_qr_n 6 [0x9c3ecb54c5cefdd8, 0xd48dd9f354366c21, 0x62dc08d64bdbf090, 0x1304145212ca3f70, 0x356f8bd11711eb57, 0xa2f7647a952e1b8b, 0x3f8670d3e361858, 0x5e617f8e99edbce7, 0x9f452c075f27ff08, 0x20918fa774057241, 0x965768e0f589d99a, 0xd5157e9d7bd55ee6]
      [0x9a1de24edab871d5, 0x93b3a3d9a44f576a, 0xac793f519af685d, 0x2577c1ecfd42e044, 0x7108e02236971e1b, 0x827385c9421e7a60] =
    ([0xe8866c5d4b96d632, 0x51d10eb7234fb6b9, 0x8f47f04e871e9e76, 0xbaaf410706be3fc2, 0xe93382038911429, 0xa228f391d1fb79d1],
     [0xf06d454ac4d2b43e, 0x83f9934982425e1d, 0xd339c5451c095c8c, 0x32f87b99cf2eb2c7, 0x90b821c6393e1654, 0x7730093c54ee61b4], 1) := by decide

/-- mpn_dc_div_qr (qp, np, nn, dp, dn, dinv), dc_div_qr.c:32-191, for every nn, dn with the C's ASSERTs dn ≥ 6,
    nn - dn ≥ 3, normalised D, and every threshold T ≥ 6:  N = (qh·B^qn + Q)·D + R, R < D, Q < B^qn, qh ≤ 1
    (qn = nn - dn), every callee inside its domain, every loop ended, the ASSERT_NOCARRY of :155 holds (`ok`). -/
theorem dcDivQr_exact (T nn dn N D : Nat) (hT : 6 ≤ T) (hdn : 6 ≤ dn) (hqn : 3 ≤ nn - dn) (hnorm : B ^ dn / 2 ≤ D)
    (hD : D < B ^ dn) (hN : N < B ^ nn) :
    let r := dcDivQr T nn dn N D
    N = (r.qh * B ^ (nn - dn) + r.q) * D + r.r ∧ r.r < D ∧ r.q < B ^ (nn - dn) ∧ r.qh ≤ 1 ∧ r.ok = true := by
  obtain ⟨⟨ok, id, hr, hq, hqh, _⟩, _⟩ :=
    dcDivQr_spec T nn dn N D hT hdn (by omega) (norm_of_half (by omega) hnorm) hD hN
  exact ⟨id, hr, hq, hqh, ok⟩

-- qn = 3 ≤ dn = 6 (the smallest sizes): schoolbook 6/3, then the correction block with two add-backs
example : dcDivQr 6 9 6 0x6000000000000000000000000000000000000000000000014000000000000000000000000000000000000000000000003ffffffffffffffffffffffffffffffffffffffffffffffe 0x800000000000000000000000000000000000000000000000ffffffffffffffffffffffffffffffffffffffffffffffff =
    { q := 0xc00000000000000000000000000000000000000000000000, r := 0x800000000000000000000000000000000000000000000000fffffffffffffffffffffffffffffffffffffffffffffffe, qh := 0, ah := 2, al := 0, mx := 2, ok := true } := by decide

-- qn = 7 = dn + 1: the qn == 1 step with qh = 1, then one mpn_dc_div_qr_n block (two add-backs in its second loop)
example : dcDivQr 6 13 6 0xc000000000000000800000000000000000000000000000018000000000000000fffffffffffffffffffffffffffffffe7ffffffffffffffe7fffffffffffffffffffffffffffffffffffffffffffffff000000000000000000000000000000000000000000000006 0x800000000000000000000000000000000000000000000000ffffffffffffffffffffffffffffffffffffffffffffffff =
    { q := 0x8000000000000000ffffffffffffffffffffffffffffffffffffffffffffffffffffffffffffffffffffffffffffffffffffffffffffffff, r := 0x5, qh := 1, ah := 0, al := 2, mx := 2, ok := true } := by decide

/-- the same as floor division -/
theorem dcDivQr_floor (T nn dn N D : Nat) (hT : 6 ≤ T) (hdn : 6 ≤ dn) (hqn : 3 ≤ nn - dn) (hnorm : B ^ dn / 2 ≤ D)
    (hD : D < B ^ dn) (hN : N < B ^ nn) :
    (dcDivQr T nn dn N D).qh * B ^ (nn - dn) + (dcDivQr T nn dn N D).q = N / D ∧ (dcDivQr T nn dn N D).r = N % D := by
  obtain ⟨id, hr, _⟩ := dcDivQr_exact T nn dn N D hT hdn hqn hnorm hD hN
  have := Mpir.DivWord.divmod_of_eq N D _ _ id hr
  exact ⟨this.1.symm, this.2.symm⟩

example : (dcDivQr 6 9 6 (7 * (B ^ 6 - 1) + 5) (B ^ 6 - 1)).q = 7 ∧ (dcDivQr 6 9 6 (7 * (B ^ 6 - 1) + 5) (B ^ 6 - 1)).r = 5 := by decide

/-- Add-backs of mpn_dc_div_qr: no correction loop anywhere runs more than 4 times (`mx`); the two top-level loops of
    every mpn_dc_div_qr_n call of the main loop (dc_div_qr.c:151-158) run at most twice (`al`). -/
theorem dcDivQr_addbacks (T nn dn N D : Nat) (hT : 6 ≤ T) (hdn : 6 ≤ dn) (hqn : 3 ≤ nn - dn) (hnorm : B ^ dn / 2 ≤ D)
    (hD : D < B ^ dn) (hN : N < B ^ nn) :
    (dcDivQr T nn dn N D).mx ≤ 4 ∧ (dcDivQr T nn dn N D).al ≤ 2 := by
  obtain ⟨⟨_, _, _, _, _, mx⟩, al⟩ :=
    dcDivQr_spec T nn dn N D hT hdn (by omega) (norm_of_half (by omega) hnorm) hD hN
  exact ⟨mx, al⟩

-- qn = 8 = dn + 2: mpn_divrem_2 with qh = 1 and THREE add-backs in the first block's loop, then one block
example : dcDivQr 6 14 6 0xc0000000000000000000000000000001e0000000000000000000000000000000bffffffffffffffffffffffffffffffe7fffffffffffffffffffffffffffffffc0000000000000000000000000000000fffffffffffffffffffffffffffffffffffffffffffffffffffffffffffffffe 0x80000000000000000000000000000000ffffffffffffffffffffffffffffffffffffffffffffffffffffffffffffffff =
    { q := 0x80000000000000000000000000000000c00000000000000000000000000000000000000000000000000000000000000000000000000000000000000000000000, r := 0x80000000000000000000000000000000fffffffffffffffffffffffffffffffffffffffffffffffffffffffffffffffe, qh := 1, ah := 3, al := 1, mx := 3, ok := true } := by decide

-- dn = 7, qn = 20 = 6 + 2·7: first block of 6 limbs by mpn_dc_div_qr_n (6 ≥ T), two main-loop blocks
example : dcDivQr 6 27 7 0x59681feed091fa80c87a9c070959520a35bbb987b2decd65dabd350efd7c66d562df6d805d4c800597a7b9c787366e846220c43000959ff51dfe302fd9e6b3e926d3dbaed213177e241707e67deb1c22c065fd786c308337fbc5fef3742f7aa8afbceb6e2322033da4d0d95c21a7f28122888a72ebcbebf79ef214f224cfac1f58ec411b8ea407276b8b5fe58993e554663460ef13d9f7e1f6ab3fcb4f0a1a8c8a20396394d4a4e81e214ac100cac8a0a26113266202304395e140b1f17150648d9fcc7bc59913171538cf458fdd005c977a0647f0341ef5 0x8000000000000000000000000000000000000000000000000000000000000000ffffffffffffffffffffffffffffffffffffffffffffffff =
    { q := 0xb2d03fdda123f50190f5380e12b2a4146b77730f65bd9acbb57a6a1dfaf8cda9601e5b45785116080d650372e90794dfed52a24135b00a5436a80bdf0023b682af5570eed8e94b150452ef05f542441d111b8aaa62f28d1a4a789cb3d8b9b45c1b98fbe466809a111ba1192ec42b7170902a174f11fa2ac0079dd25a49fe85b0834c687a3acb6266c20ba2c250b601fc4105cca7b53302fc154cd2aad7185dda, r := 0x2274ea181e34b3f1ec3fbf4dc20ef16468f918d8f6cdb2f803e0d681552454f14fab6f3e164f1513563e9bed45100358acc6d8f2c74c7ccf, qh := 0, ah := 2, al := 1, mx := 2, ok := true } := by decide

/-- On limb vectors the model returns exactly the value contract `DivZ.mpnDivQr 6 3 n d` that the existing op
    `mpn_dc_div_qr` is compared with. -/
theorem dc_div_qr_contract (T : Nat) (n d : List Nat) (hT : 6 ≤ T) (hdn : 6 ≤ d.length) (hnn : d.length + 3 ≤ n.length)
    (hnorm : B / 2 ≤ d.getD (d.length - 1) 0) (hn : Limbs n) (hd : Limbs d) :
    DivZ.mpnDivQr 6 3 n d = some (dc_div_qr T n d) ∧ (dcDivQr T n.length d.length (val n) (val d)).ok = true := by
  obtain ⟨n1, n2, n3⟩ := norm_val d hd (by omega) hnorm
  obtain ⟨⟨ok, id, hr, hq, hqh, _⟩, _⟩ := dcDivQr_spec T n.length d.length (val n) (val d) hT hdn hnn n1 n2 (val_lt n hn)
  obtain ⟨hQ, hR⟩ := Mpir.DivWord.divmod_of_eq (val n) (val d) _ _ id hr
  refine ⟨?_, ok⟩
  unfold DivZ.mpnDivQr dc_div_qr
  rw [if_neg (by simp [n3]; omega)]
  simp only []
  rw [hQ, hR]
  generalize dcDivQr T n.length d.length (val n) (val d) = r at *
  have hP := pow_pos' (n.length - d.length)
  have e1 : toLimbs (n.length - d.length) (r.qh * B ^ (n.length - d.length) + r.q) = toLimbs (n.length - d.length) r.q := by
    rw [Nat.add_comm, Nat.mul_comm]; exact toLimbs_add_high _ _ _
  have e3 : (r.qh * B ^ (n.length - d.length) + r.q) / B ^ (n.length - d.length) = r.qh := by
    rw [Nat.add_comm, Nat.add_mul_div_right _ _ hP, Nat.div_eq_of_lt hq, Nat.zero_add]
  rw [e1, e3]

example : dc_div_qr 6 [0x22bfb8e0931719fd, 0x62d74145ddd4a054, 0xa0931ed42ecdcc0a, 0x4f91540c27756991, 0x3a775505e88e752f, 0x9c461cb5d15b77f2, 0xb9b338eb3fdf2348, 0x2891dd3c3096c6c8, 0xa104a795bd4aeab0, 0x8dce6f52f0be600d]
      [0x9a1de24edab871d5, 0x93b3a3d9a44f576a, 0xac793f519af685d, 0x2577c1ecfd42e044, 0x7108e02236971e1b, 0x827385c9421e7a60] =
    ([0x6b2cc30209d4c801, 0x6ae4cde687d58782, 0x47c810747222e788, 0x16489442ab24a494],
     [0x35147c48de0c4028, 0x24234514e806ad24, 0x42f8887c863478f, 0xdcdc3ff04487063f, 0x4cf7481b2452c45c, 0x4c1d5e66b2bac555], 1) := by decide

/-- mpn_dc_div_q (qp, np, nn, dp, dn, dinv), dc_div_q.c:31-76.  GIVEN the contract of the callee mpn_dc_divappr_q on
    the dividend extended by a zero low limb — it returns qn+1 limbs A and a high limb ah ≤ 1 with
    ah·B^(qn+1) + A = ⌊N·B/D⌋ or ⌊N·B/D⌋ + 1 — the result is exactly ⌊N/D⌋: qh·B^qn + Q = ⌊N/D⌋, Q < B^qn, qh ≤ 1.
    Covers the guard-limb test `wp[0] == 0`, the multiplication back, the `qh != 0` addition with its carry and the
    test `cy || mpn_cmp (tp, np, nn) > 0` in the C's order.  (ah ≤ 1 is needed: with ah = 2, A = 0 — an answer
    ⌊N·B/D⌋ + 1 = 2·B^(qn+1), arithmetically possible for N = B^nn - 1, D = B^dn/2 — the C adds D only once.) -/
theorem dcDivQ_exact (nn dn N D A ah : Nat) (hnn : dn ≤ nn) (hD0 : 0 < D) (hD : D < B ^ dn) (hN : N < B ^ nn)
    (hA : A < B ^ (nn - dn + 1)) (hah : ah ≤ 1)
    (hX : ah * B ^ (nn - dn + 1) + A = N * B / D ∨ ah * B ^ (nn - dn + 1) + A = N * B / D + 1) :
    (dcDivQ nn dn N D A ah).2 * B ^ (nn - dn) + (dcDivQ nn dn N D A ah).1 = N / D ∧
      (dcDivQ nn dn N D A ah).1 < B ^ (nn - dn) ∧ (dcDivQ nn dn N D A ah).2 ≤ 1 :=
  dcDivQ_spec nn dn N D A ah hnn hD0 hD hN hA hah hX

-- qh = 1, the callee one too large with guard limb 0: multiply back, add D (carry out of tp), decrement
example : dcDivQ 9 6 0xb03a07b28f2df760ae9ca08b2d7c50487ca07386cc099a21e82872a8db3b01776bdd1566fd4bbd2c242142503b434a76531f7cdc4ca9dee40e05bd6b8156dac888fb03673b606755 0xb03a07b28f2df760ae9ca08b2d7c50487ca07386cc099a1e77064c2c0f552c9402cdf2af19de2bc1b4ff00ae3f1347de 0x50000000000000000 1 = (0x4, 1) := by decide
-- guard limb 0, callee one too large: mpn_cmp (tp, np, nn) > 0, decrement
example : dcDivQ 9 6 0x879c3d225ecaef84471c8a48f16d5a7771d0ee5ca0b4c102de4a1178d2f904014c4b2bc03dec737da44ccd9c3788129587f3f78f0ba36df40aaa87c946754638b327a15bf66c5e81 0xb03a07b28f2df760ae9ca08b2d7c50487ca07386cc099a1e77064c2c0f552c9402cdf2af19de2bc1b4ff00ae3f1347de 0xc4ff64debb5d6b48fc3b66fa30d0b19482450164728a6fcf0000000000000000 0 = (0xc4ff64debb5d6b48fc3b66fa30d0b19482450164728a6fce, 0) := by decide
-- guard limb 0 and the callee exact: the product is not above N, copy
example : dcDivQ 9 6 0x45956d3e90047acd8d431729b26226511c11ee4a0ee627e5afa4a7b9b4b994bc5bdfcff17ab9ed37670c75e0188e36fd05f7b060b0a0e65519fd134fe00a8d66582731e35b1c188a 0xb03a07b28f2df760ae9ca08b2d7c50487ca07386cc099a1e77064c2c0f552c9402cdf2af19de2bc1b4ff00ae3f1347de 0x65151c401dd377bf623d8eb7a4ca83b26b52b08d21870f0b0000000000000000 0 = (0x65151c401dd377bf623d8eb7a4ca83b26b52b08d21870f0b, 0) := by decide
-- guard limb non-zero: the high limbs are the quotient whether or not the callee was one too large
example : dcDivQ 9 6 0xfeef16e964ef2ebe2ff3600735f11af2050684bfe286852cff769e374ddc74c897bdd982cdac6046f9903b72f88ece64dd44fd3645114889001edc8e367e5d6dfd7410696bb6a3de 0xb03a07b28f2df760ae9ca08b2d7c50487ca07386cc099a1e77064c2c0f552c9402cdf2af19de2bc1b4ff00ae3f1347de 0x7256063c1a7b22b5d5c17cecd6366039220fd9c6557149f1caa33184bba7e303 1 = (0x7256063c1a7b22b5d5c17cecd6366039220fd9c6557149f1, 1) := by decide

end Mpir.DcDiv
