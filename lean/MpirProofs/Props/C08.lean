/-
  C08 — powers and modular powers.  Property theorems only; helper lemmas live in
  MpirProofs/Lemmas/Powm.lean.  Every theorem is about the executable models in Mpir/Model/Powm.lean,
  which the correspondence check runs against the rebuilt library (ops in Mpir/Ops/Powm.lean).
-/
import MpirProofs.Lemmas.Powm
namespace Mpir.Powm
open Mpir

/-- The sliding-window recoding of mpn_powm / mpn_powlo (first window, INNERLOOP, `getbits`, `getbit`,
    trailing-zero stripping) computes `b^e` in any monoid, for every window size the C can use
    (`getbits` shifts a limb by `nbits`, so `1 ≤ w ≤ 63`; `win_size` returns 1..10) and every
    exponent `{ep,en}` in normal form (`ep[en-1] ≠ 0`, what MPN_SIZEINBASE_2EXP asserts).
    The table is the one the C precomputes: entry `i` holds `b^(2i+1)`. -/
theorem window_exp_correct {M : Type} [Monoid M] (b : M) (ep : List Nat) (w : Nat)
    (hw : 1 ≤ w) (hw63 : w ≤ 63) (hl : Limbs ep) (hne : ep ≠ []) (htop : ep.getLast hne ≠ 0) :
    windowExp (fun x => x * x) (fun x y => x * y) (fun i => b ^ (2 * i + 1)) ep (sizeinbase2 ep) w
      = b ^ val ep := by
  apply windowExp_rel (fun x => x * x) (fun x y => x * y) (fun i => b ^ (2 * i + 1))
    (fun (r : M) (k : Nat) => r = b ^ k) ep hl hne htop w hw hw63
  · intro r k hr; rw [hr, ← pow_add]; congr 1; omega
  · intro r k i _ hr; rw [hr, ← pow_add]
  · intro i _; rfl

-- non-vacuity: e = 0x1_0000_0000_0000_00b5 (two limbs), window 3, in the monoid (ℕ, ·) with b = 1 … and
-- a computed instance in (ℕ,+)-free form: 3^181 with window 4.
example : windowExp (fun x => x * x) (fun x y => x * y) (fun i => 3 ^ (2 * i + 1)) [181] (sizeinbase2 [181]) 4
    = 3 ^ 181 := by decide +kernel
example : (sizeinbase2 [181, 1], win_size 65) = (65, 3) := by decide

end Mpir.Powm
