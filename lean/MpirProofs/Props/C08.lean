/-
  C08 — powers and modular powers.  Property theorems only; helper lemmas live in
  MpirProofs/Lemmas/Powm.lean.  Every theorem is about the executable models in Mpir/Model/Powm.lean,
  which the correspondence check runs against the rebuilt library (ops in Mpir/Ops/Powm.lean).
-/
import MpirProofs.Lemmas.Powm
namespace Mpir.Powm
open Mpir

/-- The sliding-window recoding of mpn_powm / mpn_powlo (first window, INNERLOOP, `getbits`, `getbit`,
    trailing-zero stripping) computes `b^e` in any monoid, for every window size the C can use
    (`getbits` shifts a limb by `nbits`, so `1 ≤ w ≤ 63`; `win_size` returns 1..10) and every
    exponent `{ep,en}` in normal form (`ep[en-1] ≠ 0`, what MPN_SIZEINBASE_2EXP asserts).
    The table is the one the C precomputes: entry `i` holds `b^(2i+1)`. -/
theorem window_exp_correct {M : Type} [Monoid M] (b : M) (ep : List Nat) (w : Nat)
    (hw : 1 ≤ w) (hw63 : w ≤ 63) (hl : Limbs ep) (hne : ep ≠ []) (htop : ep.getLast hne ≠ 0) :
    windowExp (fun x => x * x) (fun x y => x * y) (fun i => b ^ (2 * i + 1)) ep (sizeinbase2 ep) w
      = b ^ val ep := by
  apply windowExp_rel (fun x => x * x) (fun x y => x * y) (fun i => b ^ (2 * i + 1))
    (fun (r : M) (k : Nat) => r = b ^ k) ep hl hne htop w hw hw63
  · intro r k hr; rw [hr, ← pow_add]; congr 1; omega
  · intro r k i _ hr; rw [hr, ← pow_add]
  · intro i _; rfl

-- non-vacuity: 3^181 in (ℕ, ·) with window 4 (181 = 0b10110101: windows 1011, 0101 → 101);
-- a two-limb exponent has 65 bits and gets window size 3
example : windowExp (fun x => x * x) (fun x y => x * y) (fun i => 3 ^ (2 * i + 1)) [181] (sizeinbase2 [181]) 4
    = 3 ^ 181 := by decide +kernel
example : (sizeinbase2 [181, 1], win_size 65) = (65, 3) := by decide


/-- powm.c:118-151, the early `b^1 mod m` path (the path of the defect fixed by a1bb758): for every base
    and modulus in normal form, every sign of the base, `bn ≥ n` or `bn < n`, the result `{rp, rn}` is well
    formed (no zero top limb — with the old `rn -= (rp[rn-1] == 0)` this is false) and equals `(±b) mod m`. -/
theorem powmE1_spec (bneg : Bool) (bp mp : List Nat) (hb : Norm bp) (hbne : bp ≠ []) (hm : Norm mp)
    (hmne : mp ≠ []) :
    (Res.mk (powmE1 bneg bp mp).1 (powmE1 bneg bp mp).2).wf = true ∧
    ((val ((powmE1 bneg bp mp).1.take (powmE1 bneg bp mp).2) : Nat) : Int)
      = (if bneg then -(val bp : Int) else (val bp : Int)) % (val mp : Int) :=
  powmE1_correct bneg bp mp hb hbne hm hmne

-- non-vacuity: the witness of the fixed defect, m = 2^128 (3 limbs), b = -(2^128 - 1) (2 limbs): size 1, value 1
example : powmE1 true [B - 1, B - 1] [0, 0, 1] = ([1, 0, 0], 1) := by decide +kernel
-- the code before a1bb758 (`rn = n; rn -= (rp[rn - 1] == 0);`) on the same witness: size 2 over a zero top limb
example : (Res.mk (sub [0, 0, 1] [B - 1, B - 1]).1
    (3 - (if (sub [0, 0, 1] [B - 1, B - 1]).1.getD 2 0 = 0 then 1 else 0))).wf = false := by decide +kernel

/-- Result well-formedness of mpz_powm on **every** path (m = 0, e = 0, negative e, b = 0, the early
    b^1 path, odd and even moduli, negative-base fix-up): `SIZ(r) = 0` or the top limb `PTR(r)[SIZ(r)-1]`
    is non-zero.  For all `b`, `e`, `m`. -/
theorem mpz_powm_wf (b e m : Int) : (mpz_powm b e m).wf = true := by
  have hgo : ∀ ep bneg bp, Norm bp → m.natAbs ≠ 0 → (powmGo ep (natLimbs m.natAbs) bneg bp).wf = true := by
    intro ep bneg bp hbp hm0
    unfold powmGo
    by_cases hb0 : bp.length = 0
    · simp [hb0, Res.wf]
    · simp only [hb0, if_false]
      split_ifs
      · have hbne : bp ≠ [] := fun h => hb0 (by rw [h]; rfl)
        have hmne : natLimbs m.natAbs ≠ [] := fun h => hm0 ((natLimbs_eq_nil _).mp h)
        exact (powmE1_correct bneg bp _ hbp hbne (Norm_natLimbs _) hmne).1
      · exact powmMain_wf _ _ _ _
  unfold mpz_powm
  simp only
  by_cases hn : (natLimbs m.natAbs).length = 0
  · simp [hn, Res.wf]
  · have hm0 : m.natAbs ≠ 0 := fun h => hn ((natLimbs_length_eq_zero _).mpr h)
    simp only [hn, if_false]
    by_cases he : e = 0
    · simp only [he, if_true]
      split_ifs <;> simp [Res.wf]
    · simp only [he, if_false]
      by_cases hneg : e < 0
      · simp only [hneg, if_true]
        cases mpz_invert b m with
        | none => rfl
        | some nb => exact hgo _ _ _ (Norm_natLimbs _) hm0
      · simp only [hneg, if_false]
        exact hgo _ _ _ (Norm_natLimbs _) hm0

-- non-vacuity: results with high zero limbs before normalisation
example : (mpz_powm (-(2 ^ 128 - 1)) 1 (2 ^ 128)) = .mk [1, 0, 0] 1 := by decide +kernel
example : (mpz_powm 3 5 7).limbs = [5] := by decide +kernel

/-- `mpz_powm` agrees with the specification, and is well formed, on the paths that do not call
    mpn_powm: `m = 0` (exception), `e = 0` (`1 mod m`, 0 for `m = ±1`), `e = 1` and `e = -1` (the early
    path, after `mpz_invert` for `-1`; exception if not invertible), `b = 0`.
    All signs of `b` and `m`, all sizes. -/
theorem mpz_powm_small_paths_spec (b e m : Int) (h : m = 0 ∨ e = 0 ∨ e = 1 ∨ e = -1 ∨ (b = 0 ∧ 0 ≤ e)) :
    (mpz_powm b e m).value? = powmSpec b e m ∧ (mpz_powm b e m).wf = true := by
  refine ⟨?_, mpz_powm_wf b e m⟩
  -- the early path as a function of (b, m)
  have hE1 : ∀ (x : Int), m ≠ 0 → (powmGo [1] (natLimbs m.natAbs) (decide (x < 0)) (natLimbs x.natAbs)).value?
      = some (x % (m.natAbs : Int)) := by
    intro x hm0
    have hmn : m.natAbs ≠ 0 := Int.natAbs_ne_zero.mpr hm0
    unfold powmGo
    by_cases hx : x = 0
    · subst hx; simp [natLimbs_zero, Res.value?]
    · have hxn : x.natAbs ≠ 0 := Int.natAbs_ne_zero.mpr hx
      have hbne : natLimbs x.natAbs ≠ [] := fun h => hxn ((natLimbs_eq_nil _).mp h)
      have hmne : natLimbs m.natAbs ≠ [] := fun h => hmn ((natLimbs_eq_nil _).mp h)
      have hl : (natLimbs x.natAbs).length ≠ 0 := fun h => hbne (List.length_eq_zero_iff.mp h)
      simp only [hl, if_false, List.length_singleton, List.headD_cons, decide_true, Bool.and_self, if_true]
      have hc := (powmE1_correct (decide (x < 0)) _ _ (Norm_natLimbs x.natAbs) hbne (Norm_natLimbs m.natAbs) hmne).2
      unfold Res.value?
      simp only [Option.some.injEq]
      rw [hc, val_natLimbs, val_natLimbs]
      by_cases hneg : x < 0
      · simp only [hneg, decide_true, if_true]
        congr 1; omega
      · simp only [hneg, decide_false, Bool.false_eq_true, if_false]
        congr 1; omega
  -- e = 0
  have hE0 : m.natAbs ≠ 0 → (Res.mk [1] (if ((natLimbs m.natAbs).length != 1 || (natLimbs m.natAbs).headD 0 != 1) = true then 1 else 0)).value?
      = some (1 % (m.natAbs : Int)) := by
    intro hmn
    by_cases h1 : m.natAbs = 1
    · have hc := (natLimbs_is_one m.natAbs).not.mpr (by simpa using h1)
      simp only [Bool.not_eq_true] at hc
      simp only [hc, Bool.false_eq_true, if_false, Res.value?, List.take_zero, val_nil]
      rw [h1]; rfl
    · have hc := (natLimbs_is_one m.natAbs).mpr h1
      have h2 : (1 : Int) % (m.natAbs : Int) = 1 := Int.emod_eq_of_lt (by omega) (by omega)
      simp only [hc, if_true, Res.value?, h2]
      rfl
  unfold mpz_powm powmSpec
  simp only
  by_cases hm0 : m = 0
  · subst hm0; simp [natLimbs_zero, Res.value?]
  · have hmn : m.natAbs ≠ 0 := Int.natAbs_ne_zero.mpr hm0
    have hn : (natLimbs m.natAbs).length ≠ 0 := fun h => hmn ((natLimbs_length_eq_zero _).mp h)
    simp only [hn, hm0, if_false]
    rcases h with h | h | h | h | h
    · exact absurd h hm0
    · -- e = 0
      subst h
      simp only [if_true, le_refl, Int.toNat_zero, pow_zero]
      exact hE0 hmn
    · -- e = 1
      subst h
      have e1 : natLimbs (1 : Int).natAbs = [1] := by
        have : (1 : Int).natAbs = 1 := rfl
        rw [this, natLimbs_pos 1 (by decide)]
        have : (1 : Nat) / B = 0 := by simp [B_eq]
        rw [this, natLimbs_zero]; simp [B_eq]
      simp only [show (1 : Int) ≠ 0 by decide, show ¬ (1 : Int) < 0 by decide, if_false, e1,
        show (0 : Int) ≤ 1 by decide, if_true]
      rw [hE1 b hm0]; simp
    · -- e = -1
      subst h
      have e1 : natLimbs (-1 : Int).natAbs = [1] := by
        have : (-1 : Int).natAbs = 1 := rfl
        rw [this, natLimbs_pos 1 (by decide)]
        have : (1 : Nat) / B = 0 := by simp [B_eq]
        rw [this, natLimbs_zero]; simp [B_eq]
      simp only [show (-1 : Int) ≠ 0 by decide, show (-1 : Int) < 0 by decide, if_false, if_true, e1,
        show ¬ (0 : Int) ≤ -1 by decide]
      unfold mpz_invert
      by_cases h1 : m.natAbs = 1
      · simp [h1, Res.value?]
      · by_cases hb0 : b = 0
        · subst hb0; simp [h1, modInv_zero _ h1, Res.value?]
        · simp only [hb0, h1, decide_false, Bool.or_self, Bool.false_eq_true, if_false]
          cases hinv : modInv? b m.natAbs with
          | none => rfl
          | some i =>
            simp only
            have := hE1 (i : Int) hm0
            simp only [Int.natAbs_natCast, show ¬ ((i : Int) < 0) by omega, decide_false] at this
            rw [this]; simp
    · -- b = 0, e ≥ 0
      obtain ⟨hb, he⟩ := h
      subst hb
      by_cases he0 : e = 0
      · subst he0
        simp only [if_true, le_refl, Int.toNat_zero, pow_zero]
        exact hE0 hmn
      · have hpos : 0 < e.toNat := by omega
        simp only [he0, if_false, show ¬ e < 0 by omega, he, if_true, Int.natAbs_zero, natLimbs_zero]
        unfold powmGo
        simp [Res.value?, zero_pow (Nat.ne_of_gt hpos)]

-- non-vacuity: each listed path with concrete values
example : powmSpec 3 0 (-1) = some 0 ∧ powmSpec 3 (-1) 7 = some 5 ∧ powmSpec 3 (-5) 6 = none ∧
    powmSpec (-3) 5 (-8) = some 5 ∧ powmSpec 5 3 0 = none := by decide +kernel
example : (mpz_powm 3 (-1) 7).value? = some 5 ∧ (mpz_powm 2 (-1) 6) = .div0 ∧ (mpz_powm (-10) 1 7).value? = some 4 := by
  decide +kernel


/-- powm.c:196-268 — CRT recombination for an even modulus `m = 2^t · modd`, `modd` odd, `t ≥ 1` low zero
    bits given as `ncnt` limbs of which the top one holds `cnt` bits when `cnt ≠ 0`
    (`t = tbits ncnt cnt`, any 2-adic valuation including whole zero limbs).
    From the odd-part result `rodd = b^e mod modd` (mpn_powm's output) the code computes
    `r2 = b^e mod 2^t` (mpn_powlo, or 0 through one of the two even-base shortcuts),
    `x = (r2 − rodd)·modd⁻¹ mod 2^t` (mpn_binvert, mpn_sub, mpn_mullow_n, mask) and `rp = x·modd + rodd`.
    The theorem: `rp[0..n)` holds exactly `b^e mod m`, with `n` proper limbs — for every base (odd,
    even, shorter or longer than `ncnt` limbs) and every normalised exponent.
    The two callees are discharged by their own theorems (`powlo_spec`, `binvert_correct` below). -/
theorem even_modulus_crt (n : Nat) (bp ep modd rodd : List Nat) (nodd ncnt cnt : Nat)
    (hbp : Limbs bp) (hbne : bp ≠ []) (hep : Norm ep) (hepne : ep ≠ []) (h2 : 2 ≤ val ep)
    (hmodd : Limbs modd) (hml : modd.length = nodd) (hodd : val modd % 2 = 1)
    (hncnt : 1 ≤ ncnt) (hcnt : cnt < 64) (hn1 : nodd ≤ n) (hn2 : n ≤ nodd + ncnt)
    (hfit : 2 ^ tbits ncnt cnt * val modd < B ^ n) (hsz : ncnt * 64 < B)
    (hrodd : rodd = toLimbs nodd (val bp ^ val ep % val modd)) :
    val (powmEven n bp ep modd nodd ncnt cnt rodd) = val bp ^ val ep % (2 ^ tbits ncnt cnt * val modd) ∧
    Limbs (powmEven n bp ep modd nodd ncnt cnt rodd) ∧ (powmEven n bp ep modd nodd ncnt cnt rodd).length = n :=
  powmEven_correct n bp ep modd rodd nodd ncnt cnt hbp hbne hep hepne hmodd hml hodd hncnt hcnt hn1 hn2 hfit hsz
    hrodd (fun bq hbq => mpn_powlo_spec bq ep ncnt hbq hep hepne h2) (fun u hu => binvert_spec u ncnt hncnt hu)

-- non-vacuity: m = 12 = 2^2·3, b = 5, e = 3: 125 mod 12 = 5;  m = 2^64·3 (whole zero limb), b = 7, e = 2
example : powmEven 1 [5] [3] [3] 1 1 2 (toLimbs 1 (5 ^ 3 % 3)) = [5 ^ 3 % 12] := by decide +kernel
example : powmEven 2 [7] [2] [3] 1 1 0 (toLimbs 1 (7 ^ 2 % 3)) = [49, 0] ∧ tbits 1 0 = 64 := by decide +kernel


/-- mpn_redc_1 (mpn/generic/redc_1.c), limb-level model: the loop of `addmul_1` with `q = tp[0]·Nprim`,
    the parked carries, `mpn_add_n` and the conditional `mpn_sub_n`.
    For every `n ≥ 1`, every `tp` of `2n` limbs, every modulus with `Nprim·m[0] ≡ −1 (mod B)` (so `m` is odd):
    * the result has `n` proper limbs (`< B^n`);
    * `result · B^n ≡ T (mod m)`, i.e. `result ≡ T·B^{-n}`; more exactly `B^n·r + k·B^n·m = T + Q·m` with
      `Q < B^n`, `k ∈ {0,1}`;
    * if `T < B^n` (the conversion out of Montgomery form at the end of mpn_powm) then `result ≤ m`.
    Note: DESIGN.md states `result < m`; that is *not* a property of MPIR's redc_1 — it subtracts `m` only
    on a carry out of `B^n`, so for `T < m·B^n` the result lies in `[0, B^n)` and may be `≥ m` (example
    below).  mpn_powm only needs residues below `B^n` and canonicalises once at the end. -/
theorem redc_1_spec (tp mp : List Nat) (invm : Nat) (hn : 1 ≤ mp.length) (htp : Limbs tp) (hmp : Limbs mp)
    (hlen : tp.length = 2 * mp.length) (hinv : (invm * mp.headD 0) % B = B - 1) :
    Limbs (redc_1 tp mp invm) ∧ (redc_1 tp mp invm).length = mp.length ∧
    val (redc_1 tp mp invm) < B ^ mp.length ∧
    (val (redc_1 tp mp invm) * B ^ mp.length ≡ val tp [MOD val mp]) ∧
    (∃ Q k, Q < B ^ mp.length ∧ k ≤ 1 ∧
      B ^ mp.length * val (redc_1 tp mp invm) + k * (B ^ mp.length * val mp) = val tp + Q * val mp) ∧
    (val tp < B ^ mp.length → val (redc_1 tp mp invm) ≤ val mp) := by
  obtain ⟨Q, k, hQ, hk, he, hL, hlen'⟩ := redc_1_identity tp mp invm hn htp hmp hlen hinv
  have hlt := val_lt _ hL
  rw [hlen'] at hlt
  refine ⟨hL, hlen', hlt, ?_, ⟨Q, k, hQ, hk, he⟩, ?_⟩
  · -- r·B^n + (k·B^n)·m = T + Q·m
    have h1 : val (redc_1 tp mp invm) * B ^ mp.length + (k * B ^ mp.length) * val mp ≡ val tp + Q * val mp [MOD val mp] := by
      have : val (redc_1 tp mp invm) * B ^ mp.length + (k * B ^ mp.length) * val mp = val tp + Q * val mp := by
        rw [← he]; ring
      rw [this]
    have h2 : val (redc_1 tp mp invm) * B ^ mp.length + (k * B ^ mp.length) * val mp ≡ val (redc_1 tp mp invm) * B ^ mp.length [MOD val mp] := by
      unfold Nat.ModEq; rw [Nat.add_mul_mod_self_right]
    have h3 : val tp + Q * val mp ≡ val tp [MOD val mp] := by
      unfold Nat.ModEq; rw [Nat.add_mul_mod_self_right]
    exact h2.symm.trans (h1.trans h3)
  · intro hT
    set N := B ^ mp.length with hN
    have hNpos : 0 < N := Nat.pow_pos B_pos
    have h1 : N * (val (redc_1 tp mp invm) + k * val mp) < N * (1 + val mp) := by
      have e : N * (val (redc_1 tp mp invm) + k * val mp) = val tp + Q * val mp := by rw [← he]; ring
      have : Q * val mp ≤ N * val mp := Nat.mul_le_mul_right _ (le_of_lt hQ)
      rw [e, Nat.mul_add, Nat.mul_one]; omega
    have := Nat.lt_of_mul_lt_mul_left h1
    have hk0 : 0 ≤ k * val mp := Nat.zero_le _
    omega

-- non-vacuity: m = 3, Nprim = −3⁻¹ = 0x5555555555555555, T = 2·B + 1 < m·B: the result is 3 = m, not < m
example : redc_1 [1, 2] [3] 0x5555555555555555 = [3] ∧ (0x5555555555555555 * 3) % B = B - 1 := by decide +kernel
-- a carry out of B^n: T = B^2 − 1, m = B − 1 (Nprim = 1)
example : redc_1 [B - 1, B - 1] [B - 1] 1 = [B - 1] := by decide +kernel


/-- **mpz_powm** (mpz/powm.c).  For every base `b` (negative, zero, shorter or longer than the modulus),
    every exponent `e` (zero, one, any length and bit pattern; negative when `b` is invertible) and every
    modulus `m ≠ 0` (odd, even with any 2-adic valuation, a power of two, `±1`):
    the model returns exactly `powmSpec b e m` — `b^e mod |m|` in `[0,|m|)`, the division-by-zero exception
    for `m = 0` or a non-invertible base with `e < 0` — and the result object is well formed on every path.
    `hsz`: the modulus has fewer than `2^58` limbs (`SIZ` is a 32-bit `int`), so the bit count `t` of
    powm.c:221 cannot wrap. -/
theorem mpz_powm_spec (b e m : Int) (hsz : (natLimbs m.natAbs).length * 64 < B) :
    (mpz_powm b e m).value? = powmSpec b e m ∧ (mpz_powm b e m).wf = true := by
  refine ⟨?_, mpz_powm_wf b e m⟩
  by_cases hsmall : m = 0 ∨ e = 0
  · exact (mpz_powm_small_paths_spec b e m (by tauto)).1
  · have hm0 : m ≠ 0 := fun h => hsmall (Or.inl h)
    have he0 : e ≠ 0 := fun h => hsmall (Or.inr h)
    have hmn : m.natAbs ≠ 0 := Int.natAbs_ne_zero.mpr hm0
    have hen : e.natAbs ≠ 0 := Int.natAbs_ne_zero.mpr he0
    have hn : (natLimbs m.natAbs).length ≠ 0 := fun h => hmn ((natLimbs_length_eq_zero _).mp h)
    have hmne : natLimbs m.natAbs ≠ [] := fun h => hmn ((natLimbs_eq_nil _).mp h)
    have hepne : natLimbs e.natAbs ≠ [] := fun h => hen ((natLimbs_eq_nil _).mp h)
    have hgo := fun bneg x => powmGo_correct (natLimbs e.natAbs) (natLimbs m.natAbs) bneg x
      (Norm_natLimbs _) hepne (Norm_natLimbs _) hmne hsz
    simp only [val_natLimbs] at hgo
    unfold mpz_powm powmSpec
    simp only [hn, hm0, he0, if_false]
    by_cases hneg : e < 0
    · simp only [hneg, if_true, show ¬ (0 ≤ e) by omega, if_false]
      have hee : (-e).toNat = e.natAbs := by omega
      unfold mpz_invert
      by_cases h1 : m.natAbs = 1
      · simp [h1, Res.value?]
      · by_cases hb0 : b = 0
        · subst hb0; simp [h1, modInv_zero _ h1, Res.value?]
        · simp only [hb0, h1, decide_false, Bool.or_self, Bool.false_eq_true, if_false]
          cases hinv : modInv? b m.natAbs with
          | none => rfl
          | some i =>
            simp only
            rw [(hgo false i).1, hee]; simp
    · simp only [hneg, if_false, show 0 ≤ e by omega, if_true]
      have hee : e.toNat = e.natAbs := by omega
      rw [(hgo (decide (b < 0)) b.natAbs).1, hee]
      congr 2
      by_cases hb : b < 0
      · simp only [hb, decide_true, if_true]; congr 1; omega
      · simp only [hb, decide_false, Bool.false_eq_true, if_false]; congr 1; omega

-- non-vacuity: odd modulus through REDC; even modulus through powlo + CRT; power of two; negative base
example : (mpz_powm 3 200 1000001).value? = some (3 ^ 200 % 1000001) := by decide +kernel
example : (mpz_powm (-7) 13 (12 * 2 ^ 70)).value? = powmSpec (-7) 13 (12 * 2 ^ 70) ∧
    (mpz_powm 5 1000 (2 ^ 130)).value? = some (5 ^ 1000 % 2 ^ 130) ∧
    (mpz_powm 3 (-7) (2 ^ 64 + 13)).value? = powmSpec 3 (-7) (2 ^ 64 + 13) := by decide +kernel

/-- mpn_powm (mpn/generic/powm.c): conversion to Montgomery form, table of odd powers, sliding window
    with `win_size`/`getbits`, REDC by `redc_1` (limb level) or `redc_n`, final conversion and canonicalising
    subtraction.  For every odd modulus of `n ≥ 1` limbs, every base, every exponent in normal form and every
    value of the REDC threshold: the `n` result limbs are `b^e mod m`. -/
theorem mpn_powm_spec (thr : Nat) (bp ep mp : List Nat) (hep : Norm ep) (hne : ep ≠ [])
    (hmp : Limbs mp) (hn : 1 ≤ mp.length) (hodd : val mp % 2 = 1) :
    mpn_powm_val thr bp ep mp = val bp ^ val ep % val mp ∧
    val (toLimbs mp.length (mpn_powm_val thr bp ep mp)) = val bp ^ val ep % val mp := by
  have h := mpn_powm_val_spec thr bp ep mp hep hne hmp hn hodd
  refine ⟨h, ?_⟩
  rw [h, val_toLimbs_lt]
  exact lt_trans (Nat.mod_lt _ (by omega)) (val_lt mp hmp)

example : mpn_powm [3, 4, 5] [77] [7, 9] = toLimbs 2 (val [3, 4, 5] ^ 77 % val [7, 9]) := by decide +kernel

/-- mpn_powlo: `b^e mod B^n` for every `n`, base and exponent `> 1` in normal form. -/
theorem powlo_spec (bp ep : List Nat) (n : Nat) (hbp : Limbs bp) (hep : Norm ep) (hne : ep ≠ [])
    (h2 : 2 ≤ val ep) : val (mpn_powlo bp ep n) = val bp ^ val ep % B ^ n :=
  mpn_powlo_spec bp ep n hbp hep hne h2

example : mpn_powlo [3, 4, 5] [77] 2 = toLimbs 2 (val [3, 4, 5] ^ 77) := by decide +kernel

/-- mpn_binvert (value level) and modlimb_invert: the inverse of an odd number modulo `B^n` / `B`. -/
theorem binvert_correct (u n : Nat) (hn : 1 ≤ n) (hodd : u % 2 = 1) :
    (binvert u n * u) % B ^ n = 1 ∧ (modlimb_invert u * u) % B = 1 :=
  ⟨binvert_spec u n hn hodd, modlimb_invert_spec u hodd⟩

example : binvert 3 2 = 0xaaaaaaaaaaaaaaaaaaaaaaaaaaaaaaab := by decide +kernel


/-- mpz_pow_ui / mpz_ui_pow_ui (mpz/n_pow_ui.c, value-level model: stripping of low zero limbs and bits,
    powering inside one limb while it fits, merging of the left-over shift, the one-limb / two-limb /
    many-limb square-and-multiply loops, final shift): the exact power for every base and exponent,
    `0^0 = 1`, sign `(−)^e`.
    `hfeas`: for `|b| ≥ 2` the result has at least `e` bits; `e < 2^58` keeps `rtwos_bits = e * btwos`
    (unsigned long arithmetic in the C) from wrapping — beyond that the result is not addressable anyway. -/
theorem n_pow_ui_spec (b : Int) (e : Nat) (heB : e < B) (hfeas : 2 ≤ b.natAbs → e * 64 < B) :
    mpz_pow_ui b e = powSpec b e ∧ (0 ≤ b → mpz_ui_pow_ui b.toNat e = powSpec b e) ∧ mpz_pow_ui 0 0 = 1 := by
  have h1 : mpz_pow_ui b e = powSpec b e := by
    unfold mpz_pow_ui powSpec
    rw [n_pow_ui_correct _ _ e (Norm_natLimbs _) heB (by rw [val_natLimbs]; exact hfeas), val_natLimbs]
    congr 1
    by_cases hb : b < 0
    · simp only [hb, decide_true, if_true]; omega
    · simp only [hb, decide_false, Bool.false_eq_true, if_false]; omega
  refine ⟨h1, ?_, by decide⟩
  intro hb0
  unfold mpz_ui_pow_ui powSpec
  rw [n_pow_ui_correct _ _ e (Norm_natLimbs _) heB (by rw [val_natLimbs]; intro h; exact hfeas (by omega)), val_natLimbs]
  simp only [Bool.false_eq_true, if_false]
  congr 1; omega

-- non-vacuity: 0^0, a negative base with low zero limbs and bits, a two-limb base that shrinks to one limb
example : mpz_pow_ui 0 0 = 1 ∧ mpz_ui_pow_ui 0 0 = 1 ∧ mpz_pow_ui 0 5 = 0 := by decide +kernel
example : mpz_pow_ui (-(3 * 2 ^ 70)) 3 = (-(3 * 2 ^ 70)) ^ 3 ∧ mpz_pow_ui (5 * 2 ^ 62) 7 = (5 * 2 ^ 62) ^ 7 ∧
    mpz_ui_pow_ui (2 ^ 64 - 1) 3 = (2 ^ 64 - 1) ^ 3 := by decide +kernel


/-- **mpz_powm_ui** (mpz/powm_ui.c): for `el < 20` the old binary algorithm on the modulus shifted to
    normal form (reduction of a long base, the single conditional subtraction for `el = 1`, square /
    multiply with a reduction whenever the product has `mn` limbs, final reduction by the unshifted modulus,
    negative-base fix-up); for `el ≥ 20` the deflection to mpz_powm.  For every base, every `el` and every
    modulus: `b^el mod |m|` in `[0,|m|)`, the exception for `m = 0`, and a well-formed result. -/
theorem powm_ui_spec (b : Int) (el : Nat) (m : Int) (hsz : (natLimbs m.natAbs).length * 64 < B) :
    (mpz_powm_ui b el m).value? = powmSpec b (el : Int) m ∧ (mpz_powm_ui b el m).wf = true := by
  by_cases h20 : el < 20
  · exact mpz_powm_ui_small b el m h20
  · have : mpz_powm_ui b el m = mpz_powm b (el : Int) m := by
      unfold mpz_powm_ui; simp only [h20, if_false]
    rw [this]; exact mpz_powm_spec b el m hsz

-- non-vacuity: both sides of the `el = 20` switch, a modulus that needs shifting, a long negative base
example : (mpz_powm_ui (-(2 ^ 200 + 12345)) 19 (2 ^ 70 + 3)).value? = powmSpec (-(2 ^ 200 + 12345)) 19 (2 ^ 70 + 3) ∧
    (mpz_powm_ui 7 20 (3 * 2 ^ 65)).value? = some (7 ^ 20 % (3 * 2 ^ 65)) ∧
    (mpz_powm_ui (2 ^ 64 - 1) 1 (2 ^ 63 + 1)).value? = some ((2 ^ 64 - 1) % (2 ^ 63 + 1)) := by decide +kernel


/-- What `powmSpec` means (so that the theorems above say what C08 says): `none` for `m = 0`;
    `b^e mod |m|` in `[0,|m|)` for `e ≥ 0`; for `e < 0` and `|m| > 1` a value `r ∈ [0,|m|)` with
    `r · b^(−e) ≡ 1 (mod |m|)` when it exists, and `none` only if `gcd(b, m) ≠ 1`. -/
theorem powmSpec_char (b e m : Int) :
    (m = 0 → powmSpec b e m = none) ∧
    (m ≠ 0 → 0 ≤ e → powmSpec b e m = some (b ^ e.toNat % (m.natAbs : Int)) ∧
        0 ≤ b ^ e.toNat % (m.natAbs : Int) ∧ b ^ e.toNat % (m.natAbs : Int) < m.natAbs) ∧
    (1 < m.natAbs → e < 0 → ∀ r, powmSpec b e m = some r →
        0 ≤ r ∧ r < m.natAbs ∧ (r * b ^ (-e).toNat) % (m.natAbs : Int) = 1) ∧
    (1 < m.natAbs → e < 0 → powmSpec b e m = none → Int.gcd b m ≠ 1) := by
  refine ⟨fun h => by simp [powmSpec, h], ?_, ?_, ?_⟩
  · intro hm he
    have hpos : (0 : Int) < m.natAbs := by
      have := Int.natAbs_pos.mpr hm; exact_mod_cast this
    exact ⟨by simp [powmSpec, hm, he], Int.emod_nonneg _ (ne_of_gt hpos), Int.emod_lt_of_pos _ hpos⟩
  · intro hm he r hr
    have hm0 : m ≠ 0 := by intro h; rw [h] at hm; simp at hm
    have hpos : (0 : Int) < m.natAbs := by omega
    unfold powmSpec at hr
    simp only [hm0, if_false, show ¬ (0 ≤ e) by omega, show m.natAbs ≠ 1 by omega] at hr
    cases hinv : modInv? b m.natAbs with
    | none => rw [hinv] at hr; simp at hr
    | some i =>
      rw [hinv] at hr
      simp only [Option.some.injEq] at hr
      obtain ⟨_, hi⟩ := modInv_sound b m.natAbs (by omega) i hinv
      subst hr
      refine ⟨Int.emod_nonneg _ (ne_of_gt hpos), Int.emod_lt_of_pos _ hpos, ?_⟩
      have h1 : (i : Int) ^ (-e).toNat % (m.natAbs : Int) * b ^ (-e).toNat ≡ ((i : Int) * b) ^ (-e).toNat [ZMOD (m.natAbs : Int)] := by
        rw [mul_pow]; exact (Int.mod_modEq _ _).mul_right _
      have h2 : (i : Int) * b ≡ 1 [ZMOD (m.natAbs : Int)] := by
        have : b * (i : Int) ≡ 1 [ZMOD (m.natAbs : Int)] := hi
        rwa [mul_comm] at this
      have h3 := h1.trans (h2.pow _)
      rw [one_pow] at h3
      have : (1 : Int) % (m.natAbs : Int) = 1 := Int.emod_eq_of_lt (by omega) (by omega)
      rw [← this]; exact h3
  · intro hm he hn
    have hm0 : m ≠ 0 := by intro h; rw [h] at hm; simp at hm
    unfold powmSpec at hn
    simp only [hm0, if_false, show ¬ (0 ≤ e) by omega, show m.natAbs ≠ 1 by omega] at hn
    cases hinv : modInv? b m.natAbs with
    | none =>
      exact modInv_none b m.natAbs (by omega) hinv
    | some i => rw [hinv] at hn; simp at hn

example : powmSpec 3 (-2) 7 = some 4 ∧ (4 * 3 ^ 2) % 7 = 1 := by decide +kernel


/-- mpn_pow_1 (mpn/generic/pow_1.c, value-level model with the C's size bookkeeping): for every base in
    normal form and every exponent the `rn` returned limbs hold `b^exp` exactly and `rn` is the normalised
    size (`B^(rn-1) ≤ value`). -/
theorem pow_1_spec (bp : List Nat) (exp : Nat) (hb : Norm bp) (hne : bp ≠ []) :
    val (mpn_pow_1 bp exp) = val bp ^ exp ∧ Limbs (mpn_pow_1 bp exp) ∧
    B ^ ((mpn_pow_1 bp exp).length - 1) ≤ val (mpn_pow_1 bp exp) :=
  mpn_pow_1_spec bp exp hb hne

example : mpn_pow_1 [3, 4] 5 = toLimbs 6 (val [3, 4] ^ 5) ∧ mpn_pow_1 [3] 0 = [1] := by decide +kernel

end Mpir.Powm
