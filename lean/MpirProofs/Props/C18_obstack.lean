/-
  C18, part `c18_obstack` — the obstack member of the printf family produces the same text and the same count as the
  other members.  Property theorems only; helper lemmas live in MpirProofs/Lemmas/Obstack.lean.

  `gmp_obstack_printf` / `gmp_obstack_vprintf` (printf/obprintf.c, obvprintf.c) are `__gmp_doprnt` run with the callback
  table `__gmp_obstack_printf_funs` of printf/obprntffuns.c.  The model (lean/Mpir/Model/Obstack.lean) runs the SAME call
  sequence `Printf.doprnt` computes for gmp_asprintf / gmp_snprintf through `obMemory` (obstack_grow), `obReps`
  (obstack_blank, then memset at next_free - reps, next_free read after the blank) and `obFormat` (glibc's obstack_vprintf)
  on a model of the obstack in which the object moves to a new chunk whenever the room runs out and a byte is
  uninitialised until stored.  The theorems hold for EVERY chunk geometry (any chunk size, any room left, any earlier
  content), so in particular wherever inside a padding run, a digit string or a C-library piece the move happens.

  The correspondence run (ops gmp_obstack_seq / vseq / mix / vmix, harness/ops_obstack.c) compares the bytes of the whole
  object, the sum of the return values and, for formats made of MPIR conversions only, the number of chunks allocated and
  freed, with this model, on the plain and on the AddressSanitizer build.
-/
import MpirProofs.Lemmas.Obstack
import MpirProofs.Props.C18
namespace Mpir.Obstack
open Mpir.Printf

/-- `obstack_funs_refine`: the refinement lemma over the `funs` table.  For every obstack state (any chunk size, any
    room left in the current chunk, any bytes already in the growing object, initialised or not) and every sequence of
    output callbacks (`format` pieces of the C library, `memory` digit strings, `reps` padding runs of any length,
    including 0): after `__gmp_doprnt` has run them through gmp_obstack_memory / gmp_obstack_reps / obstack_vprintf
    the object is the old object followed by exactly the bytes of the calls, every one of them stored (no byte left as
    obstack_blank made it); the value accumulated is the number of those bytes; no store went beyond the chunk limit
    (`ok`) or through a pointer outside the object (`stale`), however often the object was moved. -/
theorem obstack_funs_refine (o : Ob) (cs : List Call) (ret : Nat) :
    (obCalls o cs ret).1.obj = o.obj ++ (callsBytes cs).map some ∧
    (obCalls o cs ret).2 = ret + (callsBytes cs).length ∧
    (obCalls o cs ret).1.ok = o.ok ∧ (obCalls o cs ret).1.stale = o.stale := by
  obtain ⟨a, b, c, _, e⟩ := obCalls_spec cs o ret
  exact ⟨a, e, b, c⟩

-- non-vacuity: 60 blanks and three digits into a fresh 64-byte chunk (48 bytes of room): the padding run crosses the
-- chunk end, the object is moved once (chunk 0 freed), all 63 bytes are stored
example : let r := obCalls (init 64 0) [.reps ' ' 60, .memory ['1', '2', '3']] 0
    (r.2, r.1.text == List.replicate 60 ' ' ++ ['1', '2', '3'], r.1.initialised, r.1.cur, r.1.freed, r.1.ok, r.1.stale) =
    (63, true, true, 1, [0], true, 0) := by decide +kernel
-- the digits cross: 40 blanks fit, the 20 digits do not
example : let r := obCalls (init 64 0) [.reps ' ' 40, .memory (List.replicate 20 '7')] 0
    (r.2, r.1.initialised, r.1.cur, r.1.room) = (60, true, 1, 40 + 20 + 15 + 40 / 8 + 100 - 16 - 40 - 20) := by decide +kernel

/-- `obstack_eq_asprintf`: for every call sequence the obstack member appends the very text gmp_asprintf would hand back
    for it and returns the same count (also what gmp_snprintf returns for any buffer size), whatever object `t` was
    already being grown and whatever the chunk geometry; the appended bytes are all initialised. -/
theorem obstack_eq_asprintf (o : Ob) (t : List Char) (ho : o.obj = t.map some) (cs : List Call) :
    ∃ r, asRun cs = some r ∧
      (obCalls o cs 0).1.text = t ++ r.text ∧ (obCalls o cs 0).2 = r.ret ∧
      (∀ size, (snRun size cs).ret = (obCalls o cs 0).2) ∧
      (obCalls o cs 0).1.initialised = true ∧ (obCalls o cs 0).1.ok = o.ok ∧ (obCalls o cs 0).1.stale = o.stale := by
  obtain ⟨r, hr, _, hret, htext, _⟩ := asprintf_block cs
  obtain ⟨a, b, c, d⟩ := obstack_funs_refine o cs 0
  have hobj : (obCalls o cs 0).1.obj = (t ++ callsBytes cs).map some := by rw [a, ho]; simp
  obtain ⟨ht, hi⟩ := text_of_some _ _ hobj
  refine ⟨r, hr, by rw [ht, htext], by rw [b, hret]; simp, ?_, hi, c, d⟩
  intro size
  rw [(snprintf_bound size cs).2.1, b]; simp

-- non-vacuity through the whole model: "%60Zd|" of 7 appended to an object that already holds "ab", 64-byte chunks
example : (doprnt "%60Zd|".toList [.mpz 7]).map (fun r =>
      let ob := obCalls (grow (init 64 0) ['a', 'b']) r.calls 0
      (some (ob.1.text.drop 2) == (asRun r.calls).map (·.text), ob.2, r.retval, ob.1.cur, ob.1.initialised)) =
    some (true, 61, 61, 1, true) := by decide +kernel

/-- `obstack_printf_seq`: any number of gmp_obstack_printf / gmp_obstack_vprintf calls appending to ONE object (what the
    ops gmp_obstack_seq / gmp_obstack_mix do): the object ends as the old object followed by the gmp_asprintf texts of the
    calls in order, the sum of the return values is the sum of gmp_asprintf's, every byte is initialised, no store went
    outside — for every chunk geometry and every list of call sequences. -/
theorem obstack_printf_seq (o : Ob) (t : List Char) (ho : o.obj = t.map some) (css : List (List Call)) :
    ∃ rs : List AsResult, css.map asRun = rs.map some ∧
      (obSeq o css 0).1.text = t ++ rs.flatMap (·.text) ∧ (obSeq o css 0).2 = (rs.map (·.ret)).sum ∧
      (obSeq o css 0).1.initialised = true ∧ (obSeq o css 0).1.ok = o.ok ∧ (obSeq o css 0).1.stale = o.stale := by
  have hrs : ∀ css : List (List Call), ∃ rs : List AsResult, css.map asRun = rs.map some ∧
      rs.flatMap (·.text) = css.flatMap callsBytes ∧
      (rs.map (·.ret)).sum = (css.map (fun cs => (callsBytes cs).length)).sum := by
    intro css
    induction css with
    | nil => exact ⟨[], rfl, rfl, rfl⟩
    | cons cs css ih =>
      obtain ⟨r, hr, _, hret, htext, _⟩ := asprintf_block cs
      obtain ⟨rs, h1, h2, h3⟩ := ih
      refine ⟨r :: rs, by simp [hr, h1], by simp [htext, h2], by simp [hret, h3]⟩
  obtain ⟨rs, h1, h2, h3⟩ := hrs css
  obtain ⟨a, b, c, d⟩ := obSeq_spec css o 0
  have hobj : (obSeq o css 0).1.obj = (t ++ css.flatMap callsBytes).map some := by rw [a, ho]; simp
  obtain ⟨ht, hi⟩ := text_of_some _ _ hobj
  exact ⟨rs, h1, by rw [ht, h2], by rw [d, h3]; simp, hi, b, c⟩

-- non-vacuity: three calls, the second one's padding crosses the first chunk, the third one's the second chunk
example : let r := obSeq (init 64 0) [[.memory ['x'], .reps '0' 30], [.reps ' ' 40, .format ['<', '>']], [.reps '-' 200]] 0
    (r.2, r.1.text.length, r.1.initialised, r.1.cur, r.1.freed, r.1.stale) = (273, 273, true, 2, [0, 1], 0) := by decide +kernel

/-- `obstack_doprnt_count`: for every format string and argument list the model of `__gmp_doprnt` covers:
    gmp_obstack_printf (ob, fmt, …) appends exactly the bytes `__gmp_doprnt` produces and returns exactly `__gmp_doprnt`'s
    own total — the number of bytes appended, the value gmp_asprintf, gmp_sprintf and (for any size) gmp_snprintf return
    for the same format and arguments. -/
theorem obstack_doprnt_count (fmt : List Char) (args : List Arg) (r : DoprntResult) (h : doprnt fmt args = some r) (o : Ob) :
    (obCalls o r.calls 0).1.obj = o.obj ++ (callsBytes r.calls).map some ∧
    (obCalls o r.calls 0).2 = r.retval ∧ r.retval = (callsBytes r.calls).length ∧
    (∀ size, (snRun size r.calls).ret = r.retval) ∧
    (asRun r.calls).map (·.ret) = some r.retval := by
  have hc := doprnt_counted false fmt args r h
  obtain ⟨a, b, _, _⟩ := obstack_funs_refine o r.calls 0
  obtain ⟨ra, hra, _, hret, _, _⟩ := asprintf_block r.calls
  refine ⟨a, by rw [b, hc]; simp, hc, ?_, by rw [hra]; simp [hret, hc]⟩
  intro size
  rw [(snprintf_bound size r.calls).2.1, hc]

-- non-vacuity: a mixed format; the count is that of the bytes, `%n` in the middle sees the running total
example : (doprnt "%-8Zd|%s%n|%#Qx".toList [.mpz (-5), .str "ab".toList, .cell, .mpq 255 16]).map (fun r =>
      (r.retval, (obCalls (init 64 0) r.calls 0).2, String.ofList (obCalls (init 64 0) r.calls 0).1.text, r.stores.length)) =
    some (21, 21, "-5      |ab|0xff/0x10", 1) := by decide +kernel

/-- `obstack_reps_stale_differs`: what the model (and so the correspondence run) distinguishes.  The variant of
    gmp_obstack_reps that takes the pointer BEFORE obstack_blank (`obRepsStale`, not the code) is indistinguishable from
    the code exactly as long as the padding run fits the current chunk; as soon as the run makes `_obstack_newchunk` move
    the object, all `n` bytes go through a pointer into the old chunk (`stale`) and the object's `n` new bytes stay
    uninitialised — while the code (`obReps`) stores them in the object in both cases (`obstack_funs_refine`). -/
theorem obstack_reps_stale_differs (o : Ob) (c : Char) (n : Nat) :
    (n ≤ o.room → obRepsStale o c n = obReps o c n) ∧
    (o.room < n → (obRepsStale o c n).1.obj = o.obj ++ List.replicate n none ∧
                  (obRepsStale o c n).1.stale = o.stale + n) := by
  obtain ⟨h1, _, h3, _, h5⟩ := blank_spec o n
  constructor
  · intro hn
    have hcur : (blank o n).cur = o.cur := h5.mpr hn
    have hp : ({ chunk := o.cur, off := o.obj.length } : Ptr) =
        { chunk := (blank o n).cur, off := (blank o n).obj.length - n } := by
      simp [hcur, h1]
    simp only [obRepsStale, obReps, nextFree, hp]
  · intro hn
    have hcur : ¬ (blank o n).cur = o.cur := fun h => by have := h5.mp h; omega
    have hne : ¬ ((nextFree o).chunk = (blank o n).cur ∧ (nextFree o).off + n ≤ (blank o n).obj.length) := by
      intro h; exact hcur h.1.symm
    have e : obRepsStale o c n = (memset (blank o n) (nextFree o) c n, n) := rfl
    rw [e]
    unfold memset
    rw [if_neg hne]
    exact ⟨h1, by simp only [h3]⟩

-- non-vacuity: 60 blanks into 48 bytes of room — the code stores 60 bytes in the moved object, the variant stores 60
-- bytes into the released chunk and leaves 60 uninitialised bytes (0xEE in the harness) in the object
example : ((obReps (init 64 0) ' ' 60).1.initialised, (obReps (init 64 0) ' ' 60).1.stale,
           (obRepsStale (init 64 0) ' ' 60).1.initialised, (obRepsStale (init 64 0) ' ' 60).1.stale,
           (obRepsStale (init 64 0) ' ' 60).1.freed) = (true, 0, false, 60, [0]) := by decide +kernel
example : (obRepsStale (init 64 0) ' ' 48).1.text = (obReps (init 64 0) ' ' 48).1.text ∧
          (obRepsStale (init 64 0) ' ' 48).1.stale = 0 := by decide +kernel

end Mpir.Obstack
