/-
  C03, overlap clause — "…for every source/destination overlap the manual permits".
  Property theorems only; helper lemmas live in MpirProofs/Lemmas/KernelsMem.lean.

  The theorems are about the memory-level models of Mpir/Model/KernelsMem.lean (namespace `Mpir.Mem`:
  memory = address → limb, pointers = addresses, loads and stores in the order of the C text), which the
  correspondence check runs against the real functions on a guarded buffer (ops `mem_*`).  Each theorem
  says, for ALL sizes, ALL memory contents and ALL pointer positions satisfying the overlap predicate the C
  ASSERTs (`MPN_SAME_OR_SEPARATE_P`, `MPN_SAME_OR_INCR_P`, `MPN_SAME_OR_DECR_P` of gmp-impl.h, mirrored
  verbatim as `SameOrSeparate`, `SameOrIncr`, `SameOrDecr`):
    (1) the words in `[rp, rp+n)` after the call are exactly the list-level result computed from the words
        the sources held BEFORE the call (`Mpir.lshift (read m up n) cnt` etc., whose value theorems are in
        Props/C03.lean and C01_leaves.lean),
    (2) the returned limb is the list-level one,
    (3) every word outside `[rp, rp+n)` is unchanged (frame; in particular source words that are not also
        destination words survive).
  No `Limbs` hypothesis is needed: both layers compute with the same `% B` arithmetic.
  The `example`s after each theorem are non-vacuity instances; the block at the end shows concrete
  memories where a FORBIDDEN overlap makes the C's load/store order produce a different result, i.e. the
  hypotheses are needed and the model really distinguishes the orders.
-/
import MpirProofs.Lemmas.KernelsMem
import MpirProofs.Props.C03
namespace Mpir.Mem
open Mpir

/-- mpn_lshift (lshift.c, works downwards from the top limb): correct when `rp ≥ up` or the regions are
    separate (`MPN_SAME_OR_DECR_P (rp, up, n)`), n ≥ 1. -/
theorem lshift_mem_overlap (m : Memory) (rp up n cnt : Nat) (hn : 1 ≤ n) (h : SameOrDecr rp up n) :
    read (lshift m rp up n cnt).1 rp n = (Mpir.lshift (read m up n) cnt).1 ∧
    (lshift m rp up n cnt).2 = (Mpir.lshift (read m up n) cnt).2 ∧
    ∀ a, a < rp ∨ rp + n ≤ a → (lshift m rp up n cnt).1 a = m a :=
  mem_spec (lshift_eq m rp up n cnt hn ((sameOrDecr_iff _ _ _).mp h))
    (by simp [Mpir.lshift, lshiftGo_length])

-- non-vacuity: rp = up + 1 (overlapping, permitted), bits cross the limb boundaries
example : read (lshift (ofList [7, B - 1, 2 ^ 63 + 1, 3, 9]) 2 1 3 4).1 0 5 = [7, B - 1, B - 16, 31, 56] ∧
    (lshift (ofList [7, B - 1, 2 ^ 63 + 1, 3, 9]) 2 1 3 4).2 = 0 ∧
    Mpir.lshift [B - 1, 2 ^ 63 + 1, 3] 4 = ([B - 16, 31, 56], 0) := by decide

/-- mpn_rshift (rshift.c, works upwards from the bottom limb): correct when `rp ≤ up` or separate
    (`MPN_SAME_OR_INCR_P (rp, up, n)`), n ≥ 1. -/
theorem rshift_mem_overlap (m : Memory) (rp up n cnt : Nat) (hn : 1 ≤ n) (h : SameOrIncr rp up n) :
    read (rshift m rp up n cnt).1 rp n = (Mpir.rshift (read m up n) cnt).1 ∧
    (rshift m rp up n cnt).2 = (Mpir.rshift (read m up n) cnt).2 ∧
    ∀ a, a < rp ∨ rp + n ≤ a → (rshift m rp up n cnt).1 a = m a :=
  mem_spec (rshift_eq m rp up n cnt hn ((sameOrIncr_iff _ _ _).mp h))
    (by simp [Mpir.rshift, rshiftGo_length])

example : read (rshift (ofList [7, 5, 3, B - 1, 9]) 0 1 3 1).1 0 5 = [2 ^ 63 + 2, 2 ^ 63 + 1, 2 ^ 63 - 1, B - 1, 9] ∧
    (rshift (ofList [7, 5, 3, B - 1, 9]) 0 1 3 1).2 = 2 ^ 63 ∧
    Mpir.rshift [5, 3, B - 1] 1 = ([2 ^ 63 + 2, 2 ^ 63 + 1, 2 ^ 63 - 1], 2 ^ 63) := by decide

/-- mpn_copyi (MPN_COPY_INCR): correct when `rp ≤ up` or separate; n = 0 allowed. -/
theorem copyi_mem_overlap (m : Memory) (rp up n : Nat) (h : SameOrIncr rp up n) :
    read (copyi m rp up n) rp n = read m up n ∧
    ∀ a, a < rp ∨ rp + n ≤ a → copyi m rp up n a = m a := by
  rw [copyi_eq m rp up n ((sameOrIncr_iff _ _ _).mp h)]
  exact writeList_spec m rp n _ (read_length m n up)

example : read (copyi (ofList [1, 2, 3, 4, 5]) 0 1 3) 0 5 = [2, 3, 4, 4, 5] := by decide

/-- mpn_copyd (MPN_COPY_DECR): correct when `rp ≥ up` or separate; n = 0 allowed. -/
theorem copyd_mem_overlap (m : Memory) (rp up n : Nat) (h : SameOrDecr rp up n) :
    read (copyd m rp up n) rp n = read m up n ∧
    ∀ a, a < rp ∨ rp + n ≤ a → copyd m rp up n a = m a := by
  rw [copyd_eq m rp up n ((sameOrDecr_iff _ _ _).mp h)]
  exact writeList_spec m rp n _ (read_length m n up)

example : read (copyd (ofList [1, 2, 3, 4, 5]) 1 0 3) 0 5 = [1, 1, 2, 3, 5] := by decide

/-- mpn_add_n (add_n.c): each source is the destination itself or separate from it
    (`MPN_SAME_OR_SEPARATE_P (rp, up, n)`, `MPN_SAME_OR_SEPARATE_P (rp, vp, n)`): covers rp = up,
    rp = vp, rp = up = vp and all separate; the two sources may overlap each other in any way. -/
theorem add_n_mem_inplace (m : Memory) (rp up vp n : Nat) (_hn : 1 ≤ n)
    (hu : SameOrSeparate rp up n) (hv : SameOrSeparate rp vp n) :
    read (add_n m rp up vp n).1 rp n = (Mpir.add_n (read m up n) (read m vp n)).1 ∧
    (add_n m rp up vp n).2 = (Mpir.add_n (read m up n) (read m vp n)).2 ∧
    ∀ a, a < rp ∨ rp + n ≤ a → (add_n m rp up vp n).1 a = m a :=
  mem_spec (addNLoop_eq n m rp up vp 0 ((sameOrSeparate_iff _ _ _).mp hu) ((sameOrSeparate_iff _ _ _).mp hv))
    (by simp [Mpir.add_n, addNC_length])

-- rp = up, vp separate; then rp = up = vp; then sources overlapping each other (vp = up + 1), rp separate
example : read (add_n (ofList [B - 1, B - 1, 1, 0, 7]) 0 0 2 2).1 0 5 = [0, 0, 1, 0, 7] ∧
    (add_n (ofList [B - 1, B - 1, 1, 0, 7]) 0 0 2 2).2 = 1 := by decide
example : read (add_n (ofList [2 ^ 63, 5]) 0 0 0 2).1 0 2 = [0, 11] := by decide
example : read (add_n (ofList [1, 2, 3, 0, 0]) 3 0 1 2).1 0 5 = [1, 2, 3, 3, 5] := by decide

/-- mpn_sub_n (sub_n.c): as add_n. -/
theorem sub_n_mem_inplace (m : Memory) (rp up vp n : Nat) (_hn : 1 ≤ n)
    (hu : SameOrSeparate rp up n) (hv : SameOrSeparate rp vp n) :
    read (sub_n m rp up vp n).1 rp n = (Mpir.sub_n (read m up n) (read m vp n)).1 ∧
    (sub_n m rp up vp n).2 = (Mpir.sub_n (read m up n) (read m vp n)).2 ∧
    ∀ a, a < rp ∨ rp + n ≤ a → (sub_n m rp up vp n).1 a = m a :=
  mem_spec (subNLoop_eq n m rp up vp 0 ((sameOrSeparate_iff _ _ _).mp hu) ((sameOrSeparate_iff _ _ _).mp hv))
    (by simp [Mpir.sub_n, subNC_length])

-- rp = vp (the subtrahend is overwritten)
example : read (sub_n (ofList [0, 0, 1, 0, 7]) 2 0 2 2).1 0 5 = [0, 0, B - 1, B - 1, 7] ∧
    (sub_n (ofList [0, 0, 1, 0, 7]) 2 0 2 2).2 = 1 := by decide

/-- mpn_add_1 (__GMPN_AORS_1 with +): dst = src or separate, n ≥ 1; covers the carry loop, the
    early exit with `__GMPN_COPY_REST` (separate) and the early exit without copy (dst = src). -/
theorem add_1_mem (m : Memory) (rp up n v : Nat) (hn : 1 ≤ n) (h : SameOrSeparate rp up n) :
    read (add_1 m rp up n v).1 rp n = (Mpir.add_1 (read m up n) v).1 ∧
    (add_1 m rp up n v).2 = (Mpir.add_1 (read m up n) v).2 ∧
    ∀ a, a < rp ∨ rp + n ≤ a → (add_1 m rp up n v).1 a = m a :=
  mem_spec (add_1_eq m rp up n v hn ((sameOrSeparate_iff _ _ _).mp h)) (by simp [add_1_length])

-- separate, carry stops at limb 1, limb 2 copied by COPY_REST; in place, same; carry out of the top
example : read (add_1 (ofList [B - 1, 5, 7, 0, 0, 0, 9]) 3 0 3 3).1 0 7 = [B - 1, 5, 7, 2, 6, 7, 9] := by decide
example : read (add_1 (ofList [B - 1, 5, 7, 9]) 0 0 3 3).1 0 4 = [2, 6, 7, 9] := by decide
example : (add_1 (ofList [B - 1, B - 1]) 0 0 2 1).2 = 1 := by decide

/-- mpn_sub_1 (__GMPN_AORS_1 with −): as add_1. -/
theorem sub_1_mem (m : Memory) (rp up n v : Nat) (hn : 1 ≤ n) (h : SameOrSeparate rp up n) :
    read (sub_1 m rp up n v).1 rp n = (Mpir.sub_1 (read m up n) v).1 ∧
    (sub_1 m rp up n v).2 = (Mpir.sub_1 (read m up n) v).2 ∧
    ∀ a, a < rp ∨ rp + n ≤ a → (sub_1 m rp up n v).1 a = m a :=
  mem_spec (sub_1_eq m rp up n v hn ((sameOrSeparate_iff _ _ _).mp h)) (by simp [sub_1_length])

example : read (sub_1 (ofList [1, 0, 7, 0, 0, 0, 9]) 3 0 3 3).1 0 7 = [1, 0, 7, B - 2, B - 1, 6, 9] := by decide
example : read (sub_1 (ofList [1, 0, 7, 9]) 0 0 3 3).1 0 4 = [B - 2, B - 1, 6, 9] := by decide

/-- mpn_add (__GMPN_AORS/__GMPN_ADD), xsize ≥ ysize ≥ 0: wp = xp or separate from {xp, xsize}; wp = yp or
    separate from {yp, ysize} (`MPN_SAME_OR_SEPARATE2_P`, the ASSERTs in the macro's comment). -/
theorem add_mem (m : Memory) (wp xp xsize yp ysize : Nat) (hs : ysize ≤ xsize)
    (hx : SameOrSeparate2 wp xsize xp xsize) (hy : SameOrSeparate2 wp xsize yp ysize) :
    read (add m wp xp xsize yp ysize).1 wp xsize = (Mpir.add (read m xp xsize) (read m yp ysize)).1 ∧
    (add m wp xp xsize yp ysize).2 = (Mpir.add (read m xp xsize) (read m yp ysize)).2 ∧
    ∀ a, a < wp ∨ wp + xsize ≤ a → (add m wp xp xsize yp ysize).1 a = m a :=
  mem_spec (add_eq m wp xp xsize yp ysize hs ((sameOrSeparate2_iff _ _ _ _).mp hx) ((sameOrSeparate2_iff _ _ _ _).mp hy))
    (by rw [add_length _ _ (by simpa using hs), read_length])

-- wp = yp with ysize < xsize (the destination grows over what follows y); wp = xp
example : read (add (ofList [B - 1, B - 1, 5, 1, 9, 9, 9]) 3 0 3 3 1).1 0 7 = [B - 1, B - 1, 5, 0, 0, 6, 9] := by decide
example : read (add (ofList [B - 1, B - 1, 5, 1]) 0 0 3 3 1).1 0 4 = [0, 0, 6, 1] := by decide

/-- mpn_sub (__GMPN_AORS/__GMPN_SUB): as mpn_add. -/
theorem sub_mem (m : Memory) (wp xp xsize yp ysize : Nat) (hs : ysize ≤ xsize)
    (hx : SameOrSeparate2 wp xsize xp xsize) (hy : SameOrSeparate2 wp xsize yp ysize) :
    read (sub m wp xp xsize yp ysize).1 wp xsize = (Mpir.sub (read m xp xsize) (read m yp ysize)).1 ∧
    (sub m wp xp xsize yp ysize).2 = (Mpir.sub (read m xp xsize) (read m yp ysize)).2 ∧
    ∀ a, a < wp ∨ wp + xsize ≤ a → (sub m wp xp xsize yp ysize).1 a = m a :=
  mem_spec (sub_eq m wp xp xsize yp ysize hs ((sameOrSeparate2_iff _ _ _ _).mp hx) ((sameOrSeparate2_iff _ _ _ _).mp hy))
    (by rw [sub_length _ _ (by simpa using hs), read_length])

example : read (sub (ofList [0, 0, 5, 1]) 0 0 3 3 1).1 0 4 = [B - 1, B - 1, 4, 1] := by decide

/-- mpn_mul_1 (mul_1.c): correct when `rp ≤ up` or separate (`MPN_SAME_OR_INCR_P (rp, up, n)`), n ≥ 1. -/
theorem mul_1_mem_overlap (m : Memory) (rp up n vl : Nat) (_hn : 1 ≤ n) (h : SameOrIncr rp up n) :
    read (mul_1 m rp up n vl).1 rp n = (Mpir.mul_1 (read m up n) vl).1 ∧
    (mul_1 m rp up n vl).2 = (Mpir.mul_1 (read m up n) vl).2 ∧
    ∀ a, a < rp ∨ rp + n ≤ a → (mul_1 m rp up n vl).1 a = m a :=
  mem_spec (mul1Loop_eq vl n m rp up 0 ((sameOrIncr_iff _ _ _).mp h)) (by simp [Mpir.mul_1, mul1C_length])

-- rp = up − 1 (overlapping, permitted)
example : read (mul_1 (ofList [7, B - 1, 2, 9]) 0 1 2 3).1 0 4 = [B - 3, 8, 2, 9] ∧
    (mul_1 (ofList [7, B - 1, 2, 9]) 0 1 2 3).2 = 0 ∧ Mpir.mul_1 [B - 1, 2] 3 = ([B - 3, 8], 0) := by decide

/-- mpn_addmul_1 (addmul_1.c): rp = up or separate, n ≥ 1; the addend is what `[rp, rp+n)` held before. -/
theorem addmul_1_mem (m : Memory) (rp up n vl : Nat) (_hn : 1 ≤ n) (h : SameOrSeparate rp up n) :
    read (addmul_1 m rp up n vl).1 rp n = (Mpir.addmul_1 (read m rp n) (read m up n) vl).1 ∧
    (addmul_1 m rp up n vl).2 = (Mpir.addmul_1 (read m rp n) (read m up n) vl).2 ∧
    ∀ a, a < rp ∨ rp + n ≤ a → (addmul_1 m rp up n vl).1 a = m a :=
  mem_spec (addmul1Loop_eq vl n m rp up 0 ((sameOrSeparate_iff _ _ _).mp h))
    (by simp [Mpir.addmul_1, addmul1C_length])

-- rp = up: r := r + r·3 = 4r
example : read (addmul_1 (ofList [2 ^ 62, 1, 9]) 0 0 2 3).1 0 3 = [0, 5, 9] := by decide

/-- mpn_submul_1 (submul_1.c): rp = up or separate, n ≥ 1. -/
theorem submul_1_mem (m : Memory) (rp up n vl : Nat) (_hn : 1 ≤ n) (h : SameOrSeparate rp up n) :
    read (submul_1 m rp up n vl).1 rp n = (Mpir.submul_1 (read m rp n) (read m up n) vl).1 ∧
    (submul_1 m rp up n vl).2 = (Mpir.submul_1 (read m rp n) (read m up n) vl).2 ∧
    ∀ a, a < rp ∨ rp + n ≤ a → (submul_1 m rp up n vl).1 a = m a :=
  mem_spec (submul1Loop_eq vl n m rp up 0 ((sameOrSeparate_iff _ _ _).mp h))
    (by simp [Mpir.submul_1, submul1C_length])

-- rp = up: r := r − r·1 = 0
example : read (submul_1 (ofList [5, 7, 9]) 0 0 2 1).1 0 3 = [0, 0, 9] ∧
    (submul_1 (ofList [5, 7, 9]) 0 0 2 1).2 = 0 := by decide

/-- mpn_com_n (com_n.c): rp = up or separate, n ≥ 1. -/
theorem com_n_mem (m : Memory) (rp up n : Nat) (_hn : 1 ≤ n) (h : SameOrSeparate rp up n) :
    read (com_n m rp up n) rp n = Mpir.com_n (read m up n) ∧
    ∀ a, a < rp ∨ rp + n ≤ a → com_n m rp up n a = m a := by
  have h' := (sameOrSeparate_iff _ _ _).mp h
  rw [com_n, comNLoop_eq n m rp up (by omega)]
  exact writeList_spec m rp n _ (by simp [Mpir.com_n])

example : read (com_n (ofList [0, 5, B - 1, 9]) 0 0 3) 0 4 = [B - 1, B - 6, 0, 9] := by decide

/-- mpn_neg_n (mpir.h): rp = up or separate, n ≥ 1; zero run, negated limb, complemented rest. -/
theorem neg_n_mem (m : Memory) (rp up n : Nat) (_hn : 1 ≤ n) (h : SameOrSeparate rp up n) :
    read (neg_n m rp up n).1 rp n = (Mpir.neg_n (read m up n)).1 ∧
    (neg_n m rp up n).2 = (Mpir.neg_n (read m up n)).2 ∧
    ∀ a, a < rp ∨ rp + n ≤ a → (neg_n m rp up n).1 a = m a :=
  mem_spec (negNLoop_eq n m rp up ((sameOrSeparate_iff _ _ _).mp h)) (by simp [Mpir.neg_n, negNC_length])

example : read (neg_n (ofList [0, 5, 7, 9]) 0 0 3).1 0 4 = [0, B - 5, B - 8, 9] ∧
    (neg_n (ofList [0, 5, 7, 9]) 0 0 3).2 = 1 := by decide
example : (neg_n (ofList [0, 0, 9]) 0 0 2).2 = 0 := by decide

/-- The chain to the documented function, spelled out once: under the permitted overlap the limbs found at
    `rp` and the returned limb satisfy the value identity of `lshift_val` w.r.t. the limbs found at `up`
    before the call. -/
theorem lshift_mem_val (m : Memory) (rp up n cnt : Nat) (hn : 1 ≤ n) (h : SameOrDecr rp up n)
    (hu : Limbs (read m up n)) (hc1 : 1 ≤ cnt) (hc : cnt ≤ 63) :
    val (read (lshift m rp up n cnt).1 rp n) + B ^ n * (lshift m rp up n cnt).2 = val (read m up n) * 2 ^ cnt := by
  obtain ⟨h1, h2, _⟩ := lshift_mem_overlap m rp up n cnt hn h
  have := (lshift_val (read m up n) cnt hu hc1 hc).1
  rw [read_length] at this
  rw [h1, h2]; exact this

/-! ### The hypotheses are needed: forbidden overlaps change the result (in the model as in the C) -/

-- lshift with rp = up − 2 (rp < up, overlapping): the store to rp[2] destroys up[0] before it is loaded
example : read (lshift (ofList [0, 0, 1, 2, 3]) 0 2 3 1).1 0 3 ≠ (Mpir.lshift (read (ofList [0, 0, 1, 2, 3]) 2 3) 1).1 := by
  decide
example : read (lshift (ofList [0, 0, 1, 2, 3]) 0 2 3 1).1 0 3 = [12, 4, 6] ∧
    Mpir.lshift [1, 2, 3] 1 = ([2, 4, 6], 0) ∧ ¬ SameOrDecr 0 2 3 := by decide
-- rshift with rp = up + 2
example : read (rshift (ofList [2, 4, 6, 0, 0]) 2 0 3 1).1 2 3 ≠ (Mpir.rshift [2, 4, 6] 1).1 ∧ ¬ SameOrIncr 2 0 3 := by
  decide
-- copyd with rp = up − 1 smears the top limb; copyi with rp = up + 1 smears the bottom limb
example : read (copyd (ofList [0, 1, 2, 3]) 0 1 3) 0 3 = [3, 3, 3] ∧ ¬ SameOrDecr 0 1 3 := by decide
example : read (copyi (ofList [1, 2, 3, 0]) 1 0 3) 1 3 = [1, 1, 1] ∧ ¬ SameOrIncr 1 0 3 := by decide
-- mul_1 with rp = up + 1: each product is multiplied again
example : read (mul_1 (ofList [1, 1, 1, 0]) 1 0 3 2).1 1 3 = [2, 4, 8] ∧
    (Mpir.mul_1 [1, 1, 1] 2).1 = [2, 2, 2] ∧ ¬ SameOrIncr 1 0 3 := by decide
-- add_n with rp = up + 1 (partial overlap with a source)
example : read (add_n (ofList [1, 1, 1, 0, 5, 5, 5]) 1 0 4 3).1 1 3 ≠ (Mpir.add_n [1, 1, 1] [5, 5, 5]).1 ∧
    ¬ SameOrSeparate 1 0 3 := by decide

end Mpir.Mem
