/-
  C07 — closing the gcdext chain.
  (1) The canonical cofactor `Mpir.Gcd.gcdextS` (extended Euclid + symmetric residue; what the value-level model
      `Mpir.Gcd.mpn_gcdext` returns BY DEFINITION for n ≥ GCDEXT_DC_THRESHOLD) meets the documented contract of mpn_gcdext,
      and the cofactor with identity and bound is unique.  Hence `MpnGcdextContractDC` — the hypothesis of
      `mpz_gcdext_correct_partial` / `mpz_invert_correct_partial` — holds, and the mpz theorems about the value-level
      models are unconditional.
  (2) The sized model `Mpir.Gcdext.mpnGcdextS` (the statement-by-statement mirror of gcdext.c incl. the divide-and-conquer
      loop, compared with the real mpn_gcdext by the ops mpn_gcdext_sz / mpn_gcdext_sz_p) returns exactly
      `Mpir.Gcd.mpn_gcdext` on the proved range (n − ⌊n/3⌋ < HGCD_REDUCE_THRESHOLD), so mpz_gcdext / mpz_invert computed
      THROUGH THE MIRROR meet the manual's contract for operands whose smaller one has at most 10276 limbs, with no
      contract hypothesis.
  Lemmas: MpirProofs/Lemmas/GcdextCanon.lean.
-/
import MpirProofs.Lemmas.GcdextCanon
import MpirProofs.Props.C07_gcdextdc
namespace Mpir.C07z
open Mpir Mpir.Gcd Mpir.Hgcd Mpir.Gcdext Mpir.C07x

/-- The canonical cofactor meets the contract of mpn_gcdext: for V > 0 and every U, with G = gcd(U, V) and
    S = gcdextS U V:  V ∣ G − U·S,  S = 1 or 2·G·|S| < V,  S = 0 ↔ V ∣ U; more precisely 2·G·|S| < V, or S = 1 ∧ V = 2G. -/
theorem gcdextS_spec (U V : Nat) (hV : 0 < V) :
    mpnGcdextOk U V (Nat.gcd U V) (gcdextS U V) ∧ CofBound V (Nat.gcd U V) (gcdextS U V) := by
  obtain ⟨c1, c2⟩ := gcdextS_cof U V hV
  exact ⟨cofBound_contract U V _ _ hV rfl c1 c2, c2⟩

example : gcdextS 240 46 = -9 ∧ gcdextS 46 240 = 47 ∧ gcdextS 9 6 = 1 ∧ gcdextS 12 6 = 0 ∧ gcdextS 5 8 = -3 := by decide +kernel
example : mpnGcdextOk 5 8 1 (-3) ∧ ¬ mpnGcdextOk 5 8 1 5 := by decide

/-- The contract of mpn_gcdext has exactly one solution: G = gcd(U, V), V ∣ G − U·S, (S = 1 or 2·G·|S| < V) and
    (S = 0 ↔ V ∣ U) determine G and S; and they imply the precise form 2·G·|S| < V, or S = 1 ∧ V = 2G. -/
theorem mpn_gcdext_contract_unique (U V G1 G2 : Nat) (S1 S2 : Int) (hV : 0 < V)
    (h1 : mpnGcdextOk U V G1 S1) (h2 : mpnGcdextOk U V G2 S2) : (G1 = G2 ∧ S1 = S2) ∧ CofBound V G1 S1 :=
  ⟨contract_unique U V G1 G2 S1 S2 hV h1 h2, cofBound_of_contract U V G1 S1 hV h1⟩

-- non-vacuity: U = 9, V = 6 = 2G: S = 1 is the cofactor; S = -1 (also 3 − 9·(−1) = 12 ≡ 0 mod 6) violates the bound
example : mpnGcdextOk 9 6 3 1 ∧ ¬ mpnGcdextOk 9 6 3 (-1) ∧ ((3 : Int) - 9 * (-1)) % 6 = 0 := by decide

/-- `MpnGcdextContractDC` holds: on the divide-and-conquer range the value-level `Mpir.Gcd.mpn_gcdext` is the canonical
    cofactor, which meets the contract. -/
theorem mpn_gcdext_contract_dc : MpnGcdextContractDC := by
  intro U V hV hle hdc
  obtain ⟨v1, v2, v3⟩ := mpn_gcdext_value_dc U V hV hdc
  exact cofBound_contract U V _ _ hV v1 (by rw [v1]; exact v2) (by rw [v1]; exact v3)

/-- **The contract of mpn_gcdext for every size** (value-level model `Mpir.Gcd.mpn_gcdext`: the Lehmer code mirrored below
    GCDEXT_DC_THRESHOLD, the canonical cofactor above): for every call satisfying the C's ASSERTs (an ≥ n > 0,
    bp[n-1] ≠ 0): G = gcd(U, V), V ∣ G − U·S, S = 1 or 2·G·|S| < V, S = 0 ↔ V ∣ U. -/
theorem mpn_gcdext_contract : MpnGcdextContract := mpnGcdextContract_of_dc mpn_gcdext_contract_dc

example : mpnGcdextOk 240 46 (mpn_gcdext 240 1 46 1).1 (mpn_gcdext 240 1 46 1).2 := by decide +kernel

/-- PARTIAL (full statement: without `hR`; missing: mpn_hgcd on HGCD_REDUCE_THRESHOLD limbs or more, see
    `mpn_hgcd_correct_partial`).
    **The sized mirror of mpn_gcdext returns the canonical cofactor.**  For every call satisfying the C's ASSERTs with a
    divisor of n limbs, n − ⌊n/3⌋ < HGCD_REDUCE_THRESHOLD (any thresholds with HGCD_THRESHOLD ≥ 8; GCDEXT_DC_THRESHOLD as in
    the build), the sized model — initial mpn_tdiv_qr, mpn_gcdext_lehmer_n below the threshold, above it the mpn_hgcd rounds
    with hgcd_mul_matrix_vector, the subdivision fallback with the hook, compute_v and the final combination — returns
    exactly (G, S) of the value-level model: G = gcd(U, V) and S the UNIQUE cofactor with V ∣ G − U·S and 2·G·|S| < V
    (or S = 1 ∧ V = 2G); {gp, gn}, {up, |usize|} normalised, usize < 0 iff S < 0. -/
theorem mpn_gcdext_sized_eq_value_partial (thr : Thr) (ns : Nat → Nat) (h8 : 8 ≤ thr.hgcd) (U V : Nat) (hV0 : 0 < V)
    (hle : nlimbs V ≤ nlimbs U) (hR : nlimbs V - nlimbs V / 3 < thr.reduce) :
    let r := mpnGcdextS (hgcd thr ns) GCDEXT_DC_THRESHOLD U (nlimbs U) V (nlimbs V)
    (r.g, r.S) = mpn_gcdext U (nlimbs U) V (nlimbs V) ∧ mpnGcdextOk U V r.g r.S ∧ CofBound V r.g r.S ∧
      r.gn = nlimbs r.g ∧ r.usize.natAbs = nlimbs r.up ∧ (r.usize < 0 ↔ r.S < 0) := by
  intro r
  by_cases hlt : nlimbs V < GCDEXT_DC_THRESHOLD
  · obtain ⟨p1, p2, _, p4, p5, p6⟩ := mpn_gcdext_contract_partial (hgcd thr ns) U V hV0 hle hlt
    have e1 : r.g = (mpn_gcdext U (nlimbs U) V (nlimbs V)).1 := congrArg Prod.fst p2
    have e2 : r.S = (mpn_gcdext U (nlimbs U) V (nlimbs V)).2 := congrArg Prod.snd p2
    exact ⟨p2, by rw [e1, e2]; exact p1, by rw [e1, e2]; exact cofBound_of_contract U V _ _ hV0 p1, p4, p5, p6⟩
  · have hdc : GCDEXT_DC_THRESHOLD ≤ nlimbs V := by omega
    obtain ⟨c1, c2, c3, _, c5, c6, _⟩ := Mpir.C07dc.mpn_gcdext_dc_correct_partial thr ns h8 GCDEXT_DC_THRESHOLD
      (by unfold GCDEXT_DC_THRESHOLD; omega) U V hV0 hle hdc hR
    obtain ⟨v1, v2, v3⟩ := mpn_gcdext_value_dc U V hV0 hdc
    have hg : r.g = Nat.gcd U V := c1.1
    have hS : r.S = (mpn_gcdext U (nlimbs U) V (nlimbs V)).2 :=
      cofactor_unique U V _ _ _ hV0 rfl (by rw [← hg]; exact c1.2.1) v2 (by rw [← hg]; exact c2) v3
    exact ⟨Prod.ext (by rw [hg, v1]) hS, c1, c2, c3, c5, c6⟩

-- non-vacuity: a 12-limb call through the dc code of the mirror (GCDEXT_DC_THRESHOLD lowered to 10) gives the canonical cofactor
example : (mpnGcdextS (hgcd ⟨8, 50, 1000, 2⟩ id) 10 (3 ^ 480) 12 (5 ^ 320) 12).S = gcdextS (3 ^ 480) (5 ^ 320) := by decide +kernel

/-- **mpz_gcdext meets the manual's full contract** `gcdextOk` — g = gcd(a, b) ≥ 0, a·s + b·t = g, |s| < |b|/(2g),
    |t| < |a|/(2g) with all the documented special cases (|a| = |b|, a zero operand, |b| = 2g, …) — for ALL a, b.
    (Value-level model `Mpir.Gcd.mpz_gcdext`: mpz/gcdext.c mirrored over `Mpir.Gcd.mpn_gcdext`; for divisors of
    GCDEXT_DC_THRESHOLD limbs or more that is the canonical cofactor, to which the mirror of the divide-and-conquer code is
    tied by `mpn_gcdext_sized_eq_value_partial` up to 10276 limbs and by the run beyond.) -/
theorem mpz_gcdext_correct (a b : Int) :
    gcdextOk a b (mpz_gcdext a b).1 (mpz_gcdext a b).2.1 (mpz_gcdext a b).2.2 :=
  mpz_gcdext_correct_partial mpn_gcdext_contract_dc a b

example : mpz_gcdext (-(3 ^ 100 * 7)) (5 ^ 60 * 14) = (7, -688819439972298888004719971114650396009251, -204644751812698827570619471103382862379195346745) := by
  decide +kernel

/-- **mpz_invert** for |m| > 1, all a: non-zero return iff gcd(a, m) = 1, then 0 ≤ r < |m| and a·r ≡ 1 (mod m). -/
theorem mpz_invert_correct (a m : Int) (hm : 1 < m.natAbs) :
    match mpz_invert a m with
    | none => invertOk a m 0 0
    | some r => invertOk a m 1 r :=
  mpz_invert_correct_partial mpn_gcdext_contract_dc a m hm

example : mpz_invert (-3) (-7) = some 2 ∧ mpz_invert 6 9 = none := by decide +kernel

/-! ### the mpz layer over the sized mirror -/

/-- mpz/gcdext.c after the operand swap, over an arbitrary mpn_gcdext `f` (same text as `Mpir.Gcd.gcdextCore`) -/
def coreWith (f : Nat → Nat → Nat → Nat → Nat × Int) (a b : Int) : Int × Int × Int :=
  if nlimbs b.natAbs = 0 then
    ((a.natAbs : Int), (if a ≥ 0 then (if nlimbs a.natAbs ≠ 0 then 1 else 0) else -1), 0)
  else
    let r := f a.natAbs (nlimbs a.natAbs) b.natAbs (nlimbs b.natAbs)
    let s : Int := if a ≥ 0 then r.2 else -r.2
    ((r.1 : Int), s, ((r.1 : Int) - s * a) / b)

/-- mpz_gcdext (mpz/gcdext.c:27) over an arbitrary mpn_gcdext `f` -/
def mpzGcdextWith (f : Nat → Nat → Nat → Nat → Nat × Int) (a b : Int) : Int × Int × Int :=
  if nlimbs a.natAbs < nlimbs b.natAbs then ((coreWith f b a).1, (coreWith f b a).2.2, (coreWith f b a).2.1)
  else coreWith f a b

/-- mpz_invert (mpz/invert.c:25) over an arbitrary mpn_gcdext `f` -/
def mpzInvertWith (f : Nat → Nat → Nat → Nat → Nat × Int) (x n : Int) : Option Int :=
  if x = 0 ∨ n.natAbs = 1 then none
  else if (mpzGcdextWith f x n).1 ≠ 1 then none
  else if (mpzGcdextWith f x n).2.1 < 0 then
    (if n < 0 then some ((mpzGcdextWith f x n).2.1 - n) else some ((mpzGcdextWith f x n).2.1 + n))
  else some (mpzGcdextWith f x n).2.1

theorem mpzGcdextWith_value (a b : Int) : mpzGcdextWith mpn_gcdext a b = mpz_gcdext a b := by
  rw [mpz_gcdext_eq]; rfl

theorem mpzInvertWith_value (x n : Int) : mpzInvertWith mpn_gcdext x n = mpz_invert x n := by
  rw [mpz_invert_eq]; unfold mpzInvertWith; simp only [mpzGcdextWith_value]

/-- mpn_gcdext of the sized mirror as a function (G, S) -/
def mpnGcdextSized (thr : Thr) (ns : Nat → Nat) (U an V n : Nat) : Nat × Int :=
  ((mpnGcdextS (hgcd thr ns) GCDEXT_DC_THRESHOLD U an V n).g, (mpnGcdextS (hgcd thr ns) GCDEXT_DC_THRESHOLD U an V n).S)

theorem coreWith_sized (thr : Thr) (ns : Nat → Nat) (h8 : 8 ≤ thr.hgcd) (a b : Int) (hle : nlimbs b.natAbs ≤ nlimbs a.natAbs)
    (hR : nlimbs b.natAbs - nlimbs b.natAbs / 3 < thr.reduce) :
    coreWith (mpnGcdextSized thr ns) a b = coreWith mpn_gcdext a b := by
  unfold coreWith
  by_cases hb : nlimbs b.natAbs = 0
  · rw [if_pos hb, if_pos hb]
  · rw [if_neg hb, if_neg hb]
    have hV0 : 0 < b.natAbs := by
      rcases Nat.eq_zero_or_pos b.natAbs with h | h
      · rw [h, nlimbs_zero] at hb; exact absurd rfl hb
      · exact h
    have := (mpn_gcdext_sized_eq_value_partial thr ns h8 a.natAbs b.natAbs hV0 hle hR).1
    have e : mpnGcdextSized thr ns a.natAbs (nlimbs a.natAbs) b.natAbs (nlimbs b.natAbs) =
        mpn_gcdext a.natAbs (nlimbs a.natAbs) b.natAbs (nlimbs b.natAbs) := this
    rw [e]

/-- PARTIAL (full statement: without `hR`; missing: as in `mpn_gcdext_sized_eq_value_partial`).
    **mpz_gcdext and mpz_invert through the mirror of mpn_gcdext**, with NO contract hypothesis: for all a, b whose smaller
    operand has n limbs with n − ⌊n/3⌋ < HGCD_REDUCE_THRESHOLD (n ≤ 10276 on this build), mpz/gcdext.c over the sized model
    of gcdext.c (Lehmer below GCDEXT_DC_THRESHOLD, the mpn_hgcd rounds above) returns the manual's triple: g = gcd(a, b),
    a·s + b·t = g, |s| < |b|/(2g), |t| < |a|/(2g) with all special cases; it coincides with `Mpir.Gcd.mpz_gcdext`; and
    mpz_invert over it (|m| > 1) reports an inverse iff gcd = 1, 0 ≤ r < |m|, a·r ≡ 1 (mod m). -/
theorem mpz_gcdext_sized_correct_partial (thr : Thr) (ns : Nat → Nat) (h8 : 8 ≤ thr.hgcd) (a b : Int)
    (hR : min (nlimbs a.natAbs) (nlimbs b.natAbs) - min (nlimbs a.natAbs) (nlimbs b.natAbs) / 3 < thr.reduce) :
    mpzGcdextWith (mpnGcdextSized thr ns) a b = mpz_gcdext a b ∧
    gcdextOk a b (mpzGcdextWith (mpnGcdextSized thr ns) a b).1 (mpzGcdextWith (mpnGcdextSized thr ns) a b).2.1
      (mpzGcdextWith (mpnGcdextSized thr ns) a b).2.2 ∧
    mpzInvertWith (mpnGcdextSized thr ns) a b = mpz_invert a b ∧
    (1 < b.natAbs → match mpzInvertWith (mpnGcdextSized thr ns) a b with
      | none => invertOk a b 0 0
      | some r => invertOk a b 1 r) := by
  have key : mpzGcdextWith (mpnGcdextSized thr ns) a b = mpz_gcdext a b := by
    rw [← mpzGcdextWith_value]
    unfold mpzGcdextWith
    by_cases h : nlimbs a.natAbs < nlimbs b.natAbs
    · rw [if_pos h, if_pos h, coreWith_sized thr ns h8 b a (by omega) (by rw [min_eq_left (le_of_lt h)] at hR; exact hR)]
    · rw [if_neg h, if_neg h, coreWith_sized thr ns h8 a b (by omega) (by rw [min_eq_right (by omega)] at hR; exact hR)]
  have kinv : mpzInvertWith (mpnGcdextSized thr ns) a b = mpz_invert a b := by
    rw [← mpzInvertWith_value]; unfold mpzInvertWith; simp only [key, mpzGcdextWith_value]
  refine ⟨key, by rw [key]; exact mpz_gcdext_correct a b, kinv, fun hm => ?_⟩
  rw [kinv]; exact mpz_invert_correct a b hm

-- non-vacuity: thresholds lowered so that the 12-limb operands go through the divide-and-conquer mirror is not possible here
-- (GCDEXT_DC_THRESHOLD is the build's 342 in `mpnGcdextSized`): a Lehmer-range instance, and the build-range statement
example : mpzGcdextWith (mpnGcdextSized ⟨8, 50, 1000, 2⟩ id) (-(3 ^ 100 * 7)) (5 ^ 60 * 14) =
    (7, -688819439972298888004719971114650396009251, -204644751812698827570619471103382862379195346745) := by decide +kernel
example : mpzInvertWith (mpnGcdextSized ⟨8, 50, 1000, 2⟩ id) (-3) (-7) = some 2 := by decide +kernel

/-- the same with the thresholds of this build (HGCD_REDUCE_THRESHOLD = 6852): smaller operand of at most 10276 limbs -/
theorem mpz_gcdext_sized_build_partial (t0 t1 t3 : Nat) (ns : Nat → Nat) (h8 : 8 ≤ t0) (a b : Int)
    (hR : min (nlimbs a.natAbs) (nlimbs b.natAbs) ≤ 10276) :
    gcdextOk a b (mpzGcdextWith (mpnGcdextSized ⟨t0, t1, 6852, t3⟩ ns) a b).1 (mpzGcdextWith (mpnGcdextSized ⟨t0, t1, 6852, t3⟩ ns) a b).2.1
      (mpzGcdextWith (mpnGcdextSized ⟨t0, t1, 6852, t3⟩ ns) a b).2.2 :=
  (mpz_gcdext_sized_correct_partial ⟨t0, t1, 6852, t3⟩ ns h8 a b (by show _ < 6852; omega)).2.1

end Mpir.C07z
