/-
  C01 (middle product) — the limb-level models of Mpir/Model/MulMid.lean (mirrors of mpn/generic/mulmid_basecase.c, mulmid_n.c,
  mulmid.c; run against the real functions on every check, ops mm_basecase / mm_mulmid_n / mm_mulmid, all output limbs).
  Property theorems only; lemmas in MpirProofs/Lemmas/MulMid.lean.

  Specification (header comments of the three C files): MP(a, m, b, n) = Σ_{0≤i<m, 0≤j<n, n-1 ≤ i+j ≤ m-1} a_i b_j B^(i+j-n+1),
  stored in m-n+3 limbs.  `mpW rn a b` is that sum with the inner index eliminated: Σ_j b_j · val {a + (n-1-j), rn}, rn = m-n+1.

    mulmid_basecase_spec   {rp, un-vn+3} = MP exactly: all un ≥ vn ≥ 1, vn ≤ B (the C: "vn << GMP_NUMBMAX")
    mulmid_n_spec          mpn_mulmid_n, every n ≥ 1 and every MULMID_TOOM42_THRESHOLD, toom42_mulmid by its specification
    mulmid_spec            mpn_mulmid, all an ≥ bn ≥ 1, every threshold: all four regions of mulmid.c (wide/tall basecase chunks,
                           wide/tall toom42 chunks with the recursive last chunk), every add-back and mpn_add_n exact (no carry lost)
    mp_pairs_spec          the row form `mpW` used above IS the header's sum over index pairs (i, j), n-1 ≤ i+j ≤ m-1
    mulmid_pairs_spec      mpn_mulmid on operands of exactly an and bn limbs against the pair sum directly
    toom42_odd_fixup_partial   mpn_toom42_mulmid (model Mpir/Model/MulMidToom.lean, op mm_toom42): the odd row and diagonal step
                           (toom42_mulmid.c:208-232) turns MP of the even sub-problem into MP({ap,2n-1},{bp,n}) exactly
    toom42_mulmid_spec_partial the model of mpn_toom42_mulmid meets `TmSpec T` (so mulmid_n_spec / mulmid_spec apply to the real callee)
                           for every n ≥ T ≥ 4 PROVIDED its even core is correct (`EvenCore`): recursion, threshold dispatch,
                           `ap += n & 1`, odd row and diagonal are proved; the core is the one thing missing
  Not covered (run only, op mm_toom42 compares all n+2 limbs): the even core of mpn_toom42_mulmid — transposed interpolation with the
  correction terms e0..e5 of add_err1_n/add_err2_n/sub_err2_n, the neg flag, the in-place corrections and the transposed
  evaluation (`toomFix`); so `TmSpec` of the toom42 model is NOT proved and `mulmid_n_spec` / `mulmid_spec` keep it as a hypothesis
  (`tmSpec_ok` shows it is satisfiable).  mpn_mulhigh_n.
-/
import MpirProofs.Lemmas.MulMid
import MpirProofs.Lemmas.MulMidToom
namespace Mpir.MulMid
open Mpir

/-- mpn_mulmid_basecase (mulmid_basecase.c:48-184, plain configuration: one mpn_mul_1 row, then mpn_addmul_1 rows whose carry-outs
    are accumulated in the limb pair (hi, lo) by add_ssaaaa, stored at rp[un], rp[un+1]): for all sizes un ≥ vn ≥ 1 (the C's
    ASSERTs) with vn ≤ B = 2^64 (the C's "vn << GMP_NUMBMAX"; beyond it `hi` could wrap) the un - vn + 3 output limbs are proper
    limbs whose value is exactly MP(a, un, b, vn).  `a` may extend beyond un (it is the memory from the pointer on). -/
theorem mulmid_basecase_spec (a b : List Nat) (un : Nat) (ha : Limbs a) (hb : Limbs b)
    (hvn : 1 ≤ b.length) (hun : b.length ≤ un) (hal : un ≤ a.length) (hB : b.length ≤ B) :
    val (mulmid_basecase a un b) = mpW (un - b.length + 1) a b ∧
    Limbs (mulmid_basecase a un b) ∧ (mulmid_basecase a un b).length = un - b.length + 3 := by
  cases b with
  | nil => simp at hvn
  | cons v0 vs =>
    simp only [List.length_cons] at *
    obtain ⟨h1, h2, h3⟩ := basecase_val a un v0 vs ha hb hun hal hB
    have e : un - (vs.length + 1) + 1 = un - vs.length := by omega
    rw [e]; exact ⟨h1, h2, by rw [h3]; omega⟩

-- non-vacuity: all-ones 3 × 2 (two diagonals, the carry limb pair is used), and the value against the pair-sum formula
example : mulmid_basecase [B - 1, B - 1, B - 1] 3 [B - 1, B - 1] = [2, B - 2, B - 3, 1] := by decide +kernel
example : mpW 2 [B - 1, B - 1, B - 1] [B - 1, B - 1] = mpPairs [B - 1, B - 1, B - 1] [B - 1, B - 1] := by decide +kernel
example : val (mulmid_basecase [B - 1, B - 1, B - 1] 3 [B - 1, B - 1]) = mpW 2 [B - 1, B - 1, B - 1] [B - 1, B - 1] :=
  (mulmid_basecase_spec _ _ 3 (by decide) (by decide) (by decide) (by decide) (by decide) (by decide)).1

/-- mpn_mulmid_n (mulmid_n.c:45-72): for every n ≥ 1 (the C's ASSERT), every threshold T = MULMID_TOOM42_THRESHOLD and every
    function `tm` that meets the specification of mpn_toom42_mulmid, the n + 2 output limbs are MP({ap, 2n-1}, {bp, n}) exactly. -/
theorem mulmid_n_spec (T : Nat) (tm : List Nat → List Nat → Nat → List Nat) (htm : TmSpec T tm)
    (a b : List Nat) (n : Nat) (ha : Limbs a) (hb : Limbs b) (hn : 1 ≤ n) (hbl : b.length = n) (hal : 2 * n - 1 ≤ a.length)
    (hB : n ≤ B) :
    val (mulmid_n T tm a b n) = mpW n a b ∧ Limbs (mulmid_n T tm a b n) ∧ (mulmid_n T tm a b n).length = n + 2 := by
  unfold mulmid_n
  split
  · obtain ⟨h1, h2, h3⟩ := mulmid_basecase_spec a b (2 * n - 1) ha hb (by omega) (by omega) hal (by omega)
    have e : 2 * n - 1 - b.length + 1 = n := by omega
    rw [e] at h1
    exact ⟨h1, h2, by rw [h3]; omega⟩
  · exact htm a b n ha hb hbl hn (by omega) hB hal

example : mulmid_n 5 tmSpec [1, 2, B - 1] [B - 1, 3] 2 = mulmid_n 0 tmSpec [1, 2, B - 1] [B - 1, 3] 2 := by decide +kernel

/-- mpn_mulmid (mulmid.c:47-258): for all sizes an ≥ bn ≥ 1 (the C's ASSERTs) with bn < B (the C's "bn << GMP_NUMBMAX"), every
    T = MULMID_TOOM42_THRESHOLD (CHUNK = 200 + T) and every `tm` meeting the specification of mpn_toom42_mulmid, the an - bn + 3
    output limbs are proper limbs whose value is exactly MP(a, an, b, bn): the direct basecase calls, the wide basecase chunks
    (k = CHUNK - bn + 1 diagonals each, two saved limbs added back by ADDC_LIMB / MPN_INCR_U — the increment t1 + cy does not
    wrap and MPN_INCR_U does not run off the region), the tall basecase chunks (mpn_add_n of rn + 2 limbs, carry 0), and the
    two toom42 regions including the recursive call on the last chunk.  `fuel` ≥ an bounds that recursion (the driver passes an). -/
theorem mulmid_spec (T : Nat) (tm : List Nat → List Nat → Nat → List Nat) (htm : TmSpec T tm)
    (fuel : Nat) (a : List Nat) (an : Nat) (b : List Nat) (ha : Limbs a) (hb : Limbs b)
    (hbn : 1 ≤ b.length) (han : b.length ≤ an) (hal : an ≤ a.length) (hB : b.length < B) (hfuel : an ≤ fuel) :
    val (mulmid T tm fuel a an b) = mpW (an - b.length + 1) a b ∧
    Limbs (mulmid T tm fuel a an b) ∧ (mulmid T tm fuel a an b).length = an - b.length + 3 := by
  obtain ⟨h1, h2, h3⟩ := mulmid_isMP T tm htm fuel a an b ha hb hbn han hal hB hfuel
  exact ⟨h1, h2, by rw [h3]⟩

-- non-vacuity: the hypothesis on tm is satisfiable (by the stand-in the driver uses); a toom42 region with a recursive last
-- chunk at T = 1 (bn = 2 ≤ rn = 3: one toom42 chunk of 2 diagonals, last chunk of 1 diagonal by mpn_mulmid, add-back)
example : TmSpec 36 tmSpec := tmSpec_ok 36
example : mulmid 1 tmSpec 4 [B - 1, B - 1, B - 1, B - 1] 4 [B - 1, B - 1] = [2, B - 2, B - 1, B - 3, 1] := by decide +kernel
example : val (mulmid 1 tmSpec 4 [B - 1, B - 1, B - 1, B - 1] 4 [B - 1, B - 1]) = mpPairs [B - 1, B - 1, B - 1, B - 1] [B - 1, B - 1] := by
  decide +kernel

/-- The specification used by the theorems of this file is the formula of the C headers (mulmid.c:38): for m = |a| ≥ n = |b| ≥ 1,
    Σ_{0≤i<m, 0≤j<n, n-1 ≤ i+j ≤ m-1} a_i b_j B^(i+j-n+1) (`mpPairs`, a literal double sum over index pairs) equals the row form
    `mpW (m-n+1) a b` = Σ_j b_j · val {a + (n-1-j), m-n+1}. -/
theorem mp_pairs_spec (a b : List Nat) (hbn : 1 ≤ b.length) (hab : b.length ≤ a.length) :
    mpPairs a b = mpW (a.length - b.length + 1) a b := mpPairs_eq a b hbn hab

example : mpPairs [1, 2, 3, 4] [5, 6] = 5 * 2 + 6 * 1 + (5 * 3 + 6 * 2) * B + (5 * 4 + 6 * 3) * B ^ 2 := by decide +kernel

/-- mpn_mulmid against the pair sum: operands of exactly an = |a| and bn = |b| limbs, an ≥ bn ≥ 1, bn < B:
    {rp, an-bn+3} = Σ_{bn-1 ≤ i+j ≤ an-1} a_i b_j B^(i+j-bn+1), exactly. -/
theorem mulmid_pairs_spec (T : Nat) (tm : List Nat → List Nat → Nat → List Nat) (htm : TmSpec T tm)
    (a b : List Nat) (ha : Limbs a) (hb : Limbs b) (hbn : 1 ≤ b.length) (han : b.length ≤ a.length) (hB : b.length < B) :
    val (mulmid T tm a.length a a.length b) = mpPairs a b ∧
    Limbs (mulmid T tm a.length a a.length b) ∧ (mulmid T tm a.length a a.length b).length = a.length - b.length + 3 := by
  rw [mp_pairs_spec a b hbn han]
  exact mulmid_spec T tm htm a.length a a.length b ha hb hbn han (le_refl _) hB (le_refl _)

example : val (mulmid 1 tmSpec 4 [B - 1, B - 1, B - 1, B - 1] 4 [B - 1, B - 1]) = mpPairs [B - 1, B - 1, B - 1, B - 1] [B - 1, B - 1] :=
  (mulmid_pairs_spec 1 tmSpec (tmSpec_ok 1) [B - 1, B - 1, B - 1, B - 1] [B - 1, B - 1] (by decide) (by decide) (by decide) (by decide)
    (by decide)).1

/-- FULL STATEMENT (not proved): `TmSpec (fun a b n => toom42 T n a b n)` for every n ≥ 4 (the C's ASSERT) and T ≥ 4.
    PROVED PART — the odd row and diagonal of mpn_toom42_mulmid (toom42_mulmid.c:208-232, `toomOdd`): for n ≥ 2 (odd n ≥ 5 in the C),
    if R = {rp, n+1} holds the cells already done, MP({ap+1, 2n-3}, {bp, n-1}) (the even sub-problem on the advanced ap and the low
    n-1 limbs of b), then after `cy = mpn_addmul_1 (rp, ap-1, n, bp[n-1]); ADDC_LIMB (rp[n+1], rp[n], rp[n], cy);
    mpn_mulmid_basecase (e, ap+n-1, n-1, bp, n-1); mpn_add_n (rp+n-1, rp+n-1, e, 3)` the n+2 limbs are MP({ap,2n-1},{bp,n})
    exactly (the ADDC and the 3-limb add lose no carry).  MISSING: the even core (interpolation, e0..e5 corrections, neg,
    evaluation) computing MP for n = 2m from the three half-size middle products. -/
theorem toom42_odd_fixup_partial (a b R : List Nat) (n : Nat) (ha : Limbs a) (hb : Limbs b) (hbl : b.length = n) (hn : 2 ≤ n)
    (hnB : n ≤ B) (hal : 2 * n - 1 ≤ a.length)
    (hR : val R = mpW (n - 1) (a.drop 1) (b.take (n - 1)) ∧ Limbs R ∧ R.length = n + 1) :
    val (toomOdd a b n R) = mpW n a b ∧ Limbs (toomOdd a b n R) ∧ (toomOdd a b n R).length = n + 2 := by
  obtain ⟨k, rfl⟩ : ∃ k, n = k + 1 := ⟨n - 1, by omega⟩
  simp only [Nat.add_sub_cancel] at hR
  exact toomOdd_isMP a b R k ha hb hbl (by omega) hnB hal hR

/-- FULL STATEMENT (not proved): `TmSpec T (fun a b n => toom42 T n a b n)` for T ≥ 4.
    PROVED: it follows from `EvenCore` alone — the statement that the even core `toomEven` (toom42_mulmid.c:66-205: transposed
    interpolation by add_err1_n / add_err2_n / sub_err2_n with the correction terms e0..e5, the neg flag, the three half-size middle
    products by a correct `recf`, the corrections applied in place, the sign adjustment and the transposed evaluation) returns
    {rp, 2m+2} = MP({ap, 4m-1}, {bp, 2m}) for m ≥ 2.  Proved here around it: the recursion on n / 2 (ASSERT (n >= 4) holds for the
    recursive calls because T ≥ 4), the threshold dispatch to mpn_mulmid_basecase, `ap += n & 1`, and the odd row and diagonal.
    MISSING: a proof of `EvenCore` (it is run against the library by op mm_toom42, every limb, n = 4..40 and recursive sizes).
    With it, `mulmid_n_spec` and `mulmid_spec` hold for the modelled callee instead of the stand-in `tmSpec`. -/
theorem toom42_mulmid_spec_partial (hcore : EvenCore) (T : Nat) (hT : 4 ≤ T) : TmSpec T (fun a b n => toom42 T n a b n) := by
  intro a b n ha hb hbl hn hTn hnB hal
  exact toom42_of_core hcore T hT n a b n ha hb hbl (by omega) hnB hal (le_refl _)

-- non-vacuity: n = 3 on all-ones operands, R computed by the basecase for the even sub-problem; and the whole model at n = 5, 4
example : toomOdd [B - 1, B - 1, B - 1, B - 1, B - 1] [B - 1, B - 1, B - 1] 3
    (mulmid_basecase [B - 1, B - 1, B - 1, B - 1] 3 [B - 1, B - 1]) = mulmid_basecase [B - 1, B - 1, B - 1, B - 1, B - 1] 5 [B - 1, B - 1, B - 1] := by
  decide +kernel
example : toom42 36 5 [1, 2, 3, 4, 5, 6, 7, 8, B - 1] [B - 1, 1, 2, 3, B - 2] 5 =
    mulmid_basecase [1, 2, 3, 4, 5, 6, 7, 8, B - 1] 9 [B - 1, 1, 2, 3, B - 2] := by decide +kernel
example : toom42 36 4 [1, 2, 3, B - 4, 5, 6, B - 1] [B - 1, 1, 2, B - 2] 4 =
    mulmid_basecase [1, 2, 3, B - 4, 5, 6, B - 1] 7 [B - 1, 1, 2, B - 2] := by decide +kernel

end Mpir.MulMid
