/-
  C01 (the squaring variants) — the squaring-specific C of mpn_kara_sqr_n, mpn_toom3_sqr_n, mpn_toom4_sqr_n
  (value-level models in Mpir/Model/SqrAlgo.lean, mirrored statement by statement; run against the real functions on
  every check, ops sqrx_*).  Property theorems only; lemmas in MpirProofs/Lemmas/SqrAlgo.lean.

    kara_sqr_n_val          mpn_kara_sqr_n = x², every n ≥ 2 and every threshold pair (recursion modelled)
    toom3_sqr_n_is_mul_n    the evaluation / interpolation sequence of mpn_toom3_sqr_n is that of mpn_toom3_mul_n with b = a
    toom3_sqr_n_val         … hence = a²
    toom4_sqr_n_is_mul_n    the same for mpn_toom4_sqr_n / mpn_toom4_mul_n
    toom4_sqr_n_val         … hence = a²
  Statements of the C that differ from the multiplication functions and are covered by the run only (limb level): the
  single-operand evaluation code (toom3_mul_n.c:287-342 reuses c / t2 for a0+a2 and a0+a1+a2; toom4_mul_n.c:769-794 with the
  tc4_* helpers on signed lengths), the saved limb vinf0 / r30, r31 around the recursive squarings, the scratch layout
  (trec = t + 4k + 3), TOOM3_SQR_REC / SQR_TC4 dispatch to mpn_sqr_basecase (assembly) and the interpolation functions
  at limb level (shared with the multiplications).
-/
import MpirProofs.Lemmas.SqrAlgo
namespace Mpir.SqrAlgo
open Mpir Mpir.MulAlgo

/-- mpn_kara_sqr_n (mul_n.c:226-280): |xh − xl|, three squares (mpn_mul_basecase below T1 = SQR_BASECASE_THRESHOLD,
    mpn_sqr_basecase below T2 = SQR_KARATSUBA_THRESHOLD, else recursively), mpn_karasub: the square, for every n ≥ 2,
    every x, every T1 and every T2 ≥ 3 (so that the halves of a recursive call are again ≥ 2 limbs). -/
theorem kara_sqr_n_val (T1 T2 : Nat) (hT : 3 ≤ T2) (n : Nat) (hn : 2 ≤ n) (x : Nat) :
    kara_sqr_n T1 T2 x n = some (x * x) := kara_sqr_n_eq T1 T2 hT n hn x

-- non-vacuity: odd size, xh < xl at the top level, thresholds 0 / 3 force a recursion at n = 7
example : kara_sqr_n 0 3 (5 + B * 7 + B ^ 2 * 1 + B ^ 6 * 2) 7 = some ((5 + B * 7 + B ^ 2 * 1 + B ^ 6 * 2) * (5 + B * 7 + B ^ 2 * 1 + B ^ 6 * 2)) :=
  kara_sqr_n_val 0 3 (by decide) 7 (by decide) _
example : kara_sqr_n 0 3 0 1 = none := by rw [kara_sqr_n]; simp

/-- mpn_toom3_sqr_n (toom3_mul_n.c:253-404) computes exactly the values mpn_toom3_mul_n computes for b = a: the same five
    evaluation points formed the same way, and the constant sign 1 it hands to mpn_toom3_interpolate is equivalent to the
    product sa·sa of the multiplication (the interpolation only tests `sa < 0`). -/
theorem toom3_sqr_n_is_mul_n (sqr : Nat → Nat) (hsqr : ∀ x, sqr x = x * x) (a n : Nat) :
    toom3_sqr_n sqr a n = toom3_mul_n (fun x y => x * y) a a n := toom3_sqr_n_eq_mul sqr hsqr a n

/-- … and therefore returns the square (for every a and n; the C's domain is n ≥ 17). -/
theorem toom3_sqr_n_val (sqr : Nat → Nat) (hsqr : ∀ x, sqr x = x * x) (a n : Nat) : toom3_sqr_n sqr a n = a * a :=
  toom3_sqr_n_eq sqr hsqr a n

example : toom3_sqr_n (fun x => x * x) (3 + B * 5 + B ^ 2 * 7) 3 = (3 + B * 5 + B ^ 2 * 7) * (3 + B * 5 + B ^ 2 * 7) :=
  toom3_sqr_n_val _ (fun _ => rfl) _ _
-- a1 > a0 + a2: the |a0 − a1 + a2| branch
example : toom3_sqr_n (fun x => x * x) (1 + B * (B - 1) + B ^ 2 * 2) 3 = (1 + B * (B - 1) + B ^ 2 * 2) * (1 + B * (B - 1) + B ^ 2 * 2) := by
  decide +kernel

/-- mpn_toom4_sqr_n (toom4_mul_n.c:743-826) computes exactly the values mpn_toom4_mul_n computes for b = a (n ≥ 1): the
    evaluation points are the same sums written in another order, the values at −1 and −1/2 are squares of magnitudes and
    the signs n4, n6 handed to mpn_toom4_interpolate are non-negative — what the multiplication's `n4 ^ n5` gives for
    equal operands. -/
theorem toom4_sqr_n_is_mul_n (sqr : Nat → Nat) (hsqr : ∀ x, sqr x = x * x) (a n : Nat) (hn : 1 ≤ n) :
    toom4_sqr_n sqr a n = toom4_mul_n (fun x y => x * y) a a n := toom4_sqr_n_eq_mul sqr hsqr a n hn

/-- … and therefore returns the square. -/
theorem toom4_sqr_n_val (sqr : Nat → Nat) (hsqr : ∀ x, sqr x = x * x) (a n : Nat) (hn : 1 ≤ n) :
    toom4_sqr_n sqr a n = a * a := toom4_sqr_n_eq sqr hsqr a n hn

-- non-vacuity: a1 + a3 > a0 + a2 (negative value at −1) and 4 a1 + a3 > 8 a0 + 2 a2 (negative value at −1/2)
example : toom4_sqr_n (fun x => x * x) (1 + B * 9 + B ^ 2 * 3 + B ^ 3 * 4) 4 =
    (1 + B * 9 + B ^ 2 * 3 + B ^ 3 * 4) * (1 + B * 9 + B ^ 2 * 3 + B ^ 3 * 4) := by decide +kernel

end Mpir.SqrAlgo
