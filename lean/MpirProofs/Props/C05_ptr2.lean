/-
  C05 (aliasing) — pointer-level alias theorems, second batch (part c05_ptr2): mpz_rootrem, mpz_mul, … on the memory
  model of Mpir/Model/AliasMem.lean.  Property theorems only; proofs in MpirProofs/Lemmas/AliasRootrem.lean, AliasMul.lean, ….
  Same shape as C05_div.lean / C05_mpz.lean: every state with the object invariant, EVERY choice of variable ids the manual
  allows (so `w = u` is one instance), the call succeeds (no stale read, no forbidden overlap, no write past a block), the
  invariant holds again, the outputs hold the specified values of the values before the call, every other variable keeps
  its value.
-/
import Mpir.Model.AliasMul
import MpirProofs.Lemmas.AliasRoot
namespace Mpir.AliasMem
open Mpir

end Mpir.AliasMem
