/-
  C05 (aliasing) — pointer-level alias theorems, second batch (part c05_ptr2): mpz_rootrem, mpz_mul, … on the memory
  model of Mpir/Model/AliasMem.lean.  Property theorems only; proofs in MpirProofs/Lemmas/AliasRootrem.lean, AliasMul.lean, ….
  Same shape as C05_div.lean / C05_mpz.lean: every state with the object invariant, EVERY choice of variable ids the manual
  allows (so `w = u` is one instance), the call succeeds (no stale read, no forbidden overlap, no write past a block), the
  invariant holds again, the outputs hold the specified values of the values before the call, every other variable keeps
  its value.
-/
import MpirProofs.Lemmas.AliasRootrem
import MpirProofs.Lemmas.AliasMul
import MpirProofs.Lemmas.AliasGcdext
import MpirProofs.Props.C07_gcdextdc2
import MpirProofs.Lemmas.AliasMpfDiv
import MpirProofs.Lemmas.AliasMpf2
import MpirProofs.Lemmas.AliasPowm
import MpirProofs.Lemmas.AliasMisc
import MpirProofs.Lemmas.AliasMpf3
namespace Mpir.AliasMem
open Mpir

def look3 (r : R St) (k : Nat) : Except String (List (Int × Nat × Nat)) := r.map (·.view k)
def errOf3 (r : R St) : String := match r with | .error e => e | .ok _ => "ok"

/-! ## mpz_rootrem -/

/-- mpz_rootrem (mpz/rootrem.c), every choice of root, rem, u with root ≠ rem (root = u: the root is built in TMP space
    because mpn_rootrem's operands may not overlap, and copied back over the operand, :59-62, :84-85; rem = u likewise,
    :64-67, :86-87; `up = PTR (u)` is fetched after the two reallocations, :69), nth ≥ 1, u ≥ 0 or nth odd:
    root = sgn (u) ⌊|u|^(1/nth)⌋ (`Root.iroot`: the t with t^nth ≤ |u| < (t+1)^nth, `Root.iroot_spec`), rem = u - root^nth,
    both computed from the value of u before the call; SIZ (root) = ±((un-1)/nth + 1) is stored without a normalisation
    (:83) and is right (`iroot_size`). -/
theorem rootrem_ptr_spec {s : St} (h : Inv s) {root rem u : Nat} (hr : root < s.nv) (hm : rem < s.nv) (hu : u < s.nv)
    (hrm : root ≠ rem) (nth : Nat) (hn : 1 ≤ nth) (hsgn : 0 ≤ s.value u ∨ nth % 2 = 1) :
    ∃ s', rootrem root rem u nth s = .ok s' ∧ Inv s' ∧ s'.nv = s.nv ∧
      s'.value root = (if s.value u < 0 then -(Root.iroot nth (s.value u).natAbs : Int) else (Root.iroot nth (s.value u).natAbs : Int)) ∧
      s'.value rem = s.value u - s'.value root ^ nth ∧
      ∀ i, i < s.nv → i ≠ root → i ≠ rem → s'.value i = s.value i := by
  obtain ⟨s', hs', i', n', vr, vm, vo⟩ := rootrem_ok h hr hm hu hrm nth hn hsgn
  have hsz := h.size_neg_iff hu
  have hle := (Root.iroot_spec nth (s.mag u) hn).1
  have hvr : s'.value root = (if s.value u < 0 then -(Root.iroot nth (s.value u).natAbs : Int) else (Root.iroot nth (s.value u).natAbs : Int)) := by
    rw [vr, value_natAbs]; unfold sgnv
    by_cases h0 : s.value u < 0
    · rw [if_pos (hsz.mpr h0), if_pos h0]
    · rw [if_neg (fun x => h0 (hsz.mp x)), if_neg h0]
  refine ⟨s', hs', i', n', hvr, ?_, vo⟩
  rw [vm, hvr, value_natAbs]; unfold sgnv
  have hv := value_eq_sgnv s u
  unfold sgnv at hv
  by_cases h0 : s.value u < 0
  · have hodd : Odd nth := by
      rcases hsgn with x | x
      · omega
      · exact Nat.odd_iff.mpr x
    rw [if_pos (hsz.mpr h0), if_pos h0, hodd.neg_pow]
    rw [if_pos (hsz.mpr h0)] at hv
    rw [hv]; push_cast [hle]; ring
  · rw [if_neg (fun x => h0 (hsz.mp x)), if_neg h0]
    rw [if_neg (fun x => h0 (hsz.mp x))] at hv
    rw [hv]; push_cast [hle]; ring

/-- the exceptions come first and leave every variable alone: even root of a negative number, zeroth root
    (rootrem.c:36-43, in this order) -/
theorem rootrem_exceptions (s : St) (root rem u nth : Nat) :
    (s.size u < 0 ∧ nth % 2 = 0 → rootrem root rem u nth s = .error "sqrtneg") ∧
    (¬ (s.size u < 0 ∧ nth % 2 = 0) → nth = 0 → rootrem root rem u nth s = .error "div0") := by
  constructor
  · intro hx; unfold rootrem; simp only [bind, Except.bind]; rw [if_pos hx]; rfl
  · intro hx h0; unfold rootrem; simp only [bind, Except.bind]; rw [if_neg hx, if_pos h0]; rfl

def exSt6 : St := ofInts [2 ^ 200 + 12345, -(2 ^ 70 + 3), 7, 0]
-- root = u: cube root of 2^200 + 12345 in place (TMP root copied back: 2 limbs stay in the 4-limb block), rem grows to 4 limbs
example : look3 (rootrem 0 3 0 3 exSt6) 4 =
    .ok [(117129523791978766508, 4, 0), (-(2 ^ 70 + 3), 2, 1), (7, 1, 2), (2 ^ 200 + 12345 - 117129523791978766508 ^ 3, 4, 5)] := by
  decide +kernel
-- rem = u, negative operand, odd root: root = -⌊(2^70+3)^(1/3)⌋, rem = u - root^3 ≤ 0 over the operand, root grows
example : look3 (rootrem 3 1 1 3 exSt6) 4 =
    .ok [(2 ^ 200 + 12345, 4, 0), (-(2 ^ 70 + 3) + 10568983 ^ 3, 2, 1), (7, 1, 2), (-10568983, 1, 3)] := by decide +kernel
-- nth = 1: root := u (copied through TMP space when root = u), rem := 0
example : look3 (rootrem 1 2 1 1 exSt6) 3 = .ok [(2 ^ 200 + 12345, 4, 0), (-(2 ^ 70 + 3), 2, 1), (0, 2, 5)] := by decide +kernel
example : errOf3 (rootrem 0 3 1 2 exSt6) = "sqrtneg" := by decide
example : errOf3 (rootrem 0 3 1 0 exSt6) = "sqrtneg" := by decide
example : errOf3 (rootrem 0 3 0 0 exSt6) = "div0" := by decide
-- negative example: what `rootp = PTR (root)` with root = u would be (rootrem.c:59-62 without the TMP block): mpn_rootrem
-- refuses a root that overlaps the operand — and a remainder that does (:64-67)
example : (match mpn_rootrem 0 3 0 4 3 exSt6 with | .error e => e | .ok _ => "ok") = "ub:mpn_rootrem operands overlap" := by decide
example : (match mpn_rootrem 3 0 0 4 3 exSt6 with | .error e => e | .ok _ => "ok") = "ub:mpn_rootrem operands overlap" := by decide

/-! ## mpz_mul -/

/-- mpz_mul (mpz/mul.c), every choice of w, u, v (w = u, w = v, u = v, all three the same variable, all distinct):
    w holds the product of the values u and v had before the call, every other variable keeps its value.  What the C does
    for it: the one-limb arm works in place through mpn_mul_1 (:69-78, `PTR (u)`, `PTR (v)[0]` fetched after the
    reallocation); the basecase shortcut is taken only if `w != u && w != v` (:83); otherwise, if the block of w is too
    small it is replaced by free + allocate — with the release postponed until after the multiplication when that block is
    an operand (`free_me`, :118-131, :164-165) — and if it is large enough and is an operand, the operand is copied to TMP
    space, `vp` following `up` when all three are the same block (:133-152).  SIZ (w) from the top product limb (:100,
    :160-161) is the normalised size (`mul_size`). -/
theorem mpz_mul_ptr_spec {s : St} (h : Inv s) {w u v : Nat} (hw : w < s.nv) (hu : u < s.nv) (hv : v < s.nv) :
    ∃ s', mpz_mul w u v s = .ok s' ∧ Inv s' ∧ s'.nv = s.nv ∧ s'.value w = s.value u * s.value v ∧
      ∀ i, i < s.nv → i ≠ w → s'.value i = s.value i := by
  obtain ⟨s', e, r, _⟩ := mpz_mul_ok h hw hu hv
  exact ⟨s', e, r⟩

def exSt8 : St := ofInts [2 ^ 200 + 12345, -(2 ^ 130 + 7), 7, 2 ^ 70 + 1]
/-- variable 0 holds a 2-limb value in a 4-limb block -/
def exSt9 : St := match mpz_set 0 3 exSt8 with | .ok s => s | .error _ => exSt8
-- w = u with a block that is too small (4 < 7 limbs): new block 4, the old block 0 is released after the product (free_me)
example : look3 (mpz_mul 0 0 1 exSt8) 2 = .ok [((2 ^ 200 + 12345) * -(2 ^ 130 + 7), 7, 4), (-(2 ^ 130 + 7), 3, 1)] := by decide +kernel
-- w = u = v: a square, both factors are the old block
example : look3 (mpz_mul 3 3 3 exSt8) 4 =
    .ok [(2 ^ 200 + 12345, 4, 0), (-(2 ^ 130 + 7), 3, 1), (7, 1, 2), ((2 ^ 70 + 1) * (2 ^ 70 + 1), 4, 4)] := by decide +kernel
-- all distinct, 7 limbs ≤ MUL_KARATSUBA_THRESHOLD: MPZ_REALLOC and the basecase
example : look3 (mpz_mul 2 0 1 exSt8) 3 =
    .ok [(2 ^ 200 + 12345, 4, 0), (-(2 ^ 130 + 7), 3, 1), ((2 ^ 200 + 12345) * -(2 ^ 130 + 7), 7, 4)] := by decide +kernel
-- one-limb v: mpn_mul_1 in place after the block of w = u moved; w = v: the limb of v is read from the moved block
example : look3 (mpz_mul 0 0 2 exSt8) 1 = .ok [((2 ^ 200 + 12345) * 7, 5, 4)] := by decide +kernel
example : look3 (mpz_mul 2 1 2 exSt8) 3 = .ok [(2 ^ 200 + 12345, 4, 0), (-(2 ^ 130 + 7), 3, 1), (-(2 ^ 130 + 7) * 7, 4, 4)] := by
  decide +kernel
-- w = u resp. w = v in a block that is large enough (2 + 2 ≤ 4 limbs): TMP copy of the operand, the block stays
example : look3 (mpz_mul 0 0 3 exSt9) 4 =
    .ok [((2 ^ 70 + 1) * (2 ^ 70 + 1), 4, 0), (-(2 ^ 130 + 7), 3, 1), (7, 1, 2), (2 ^ 70 + 1, 2, 3)] := by decide +kernel
example : look3 (mpz_mul 0 3 0 exSt9) 4 =
    .ok [((2 ^ 70 + 1) * (2 ^ 70 + 1), 4, 0), (-(2 ^ 130 + 7), 3, 1), (7, 1, 2), (2 ^ 70 + 1, 2, 3)] := by decide +kernel
-- negative examples: each precaution of mul.c removed
-- (a) the old block released at once although it is an operand (no `free_me`): the product reads a freed block
example : errOf3 (mpz_mulV { deferFree := false } 0 0 1 exSt8) = "ub:read of a freed block" := by decide +kernel
-- (b) the basecase shortcut without `(w != u) && (w != v)`: mpn_mul_basecase would write the product over its factor
example : errOf3 (mpz_mulV { smallGuard := false } 0 0 1 exSt8) = "ub:mpn_mul product overlaps a factor" := by decide +kernel
-- (c) no TMP copy of the operand that is the destination
example : errOf3 (mpz_mulV { copyOperand := false } 0 0 3 exSt9) = "ub:mpn_mul product overlaps a factor" := by decide +kernel
example : errOf3 (mpz_mulV { copyOperand := false } 0 3 0 exSt9) = "ub:mpn_mul product overlaps a factor" := by decide +kernel

/-! ## mpz_gcdext -/

/-- mpz_gcdext (mpz/gcdext.c), every choice of g, s, t, a, b the manual allows: g, s, t pairwise distinct, s and/or t NULL
    (`none`), each output possibly one of the operands, a = b allowed.  The outputs hold the values the value-level model
    `Gcd.mpz_gcdext` computes from the values of a and b BEFORE the call (that triple is the one the manual describes:
    C07 `mpz_gcdext_correct`), every other variable keeps its value.  What the C does for it: `SIZ (a)` is read (:53, :80) before
    any output is written; mpn_gcdext — which destroys its inputs — works on TMP copies of both operands (:71-73) and into TMP
    blocks (:75); t = (g - s a) / b is computed (:82-97, three local mpz variables, mpz_mul / mpz_sub / mpz_divexact) BEFORE s
    (:99-106) and g (:108-110) are stored; the `bsize == 0` exit copies |a| to g before it touches s and t (:55-65).
    `1 ≤ ALLOC` of s and t is MPIR's object invariant: `PTR (s)[0] = 1` (:64) is stored without a realloc.  The contract of
    mpn_gcdext used inside is the theorem `C07z.mpn_gcdext_contract`. -/
theorem gcdext_ptr_spec {st : St} (h : Inv st) {g a b : Nat} {sv tv : Option Nat}
    (hg : g < st.nv) (ha : a < st.nv) (hb : b < st.nv) (hs : ∀ x ∈ sv, x < st.nv) (ht : ∀ x ∈ tv, x < st.nv)
    (hgs : g ∉ sv) (hgt : g ∉ tv) (hst : ∀ x ∈ sv, x ∉ tv)
    (has : ∀ x ∈ sv, 1 ≤ st.alloc x) (hat : ∀ x ∈ tv, 1 ≤ st.alloc x) :
    ∃ st', gcdext g sv tv a b st = .ok st' ∧ Inv st' ∧ st'.nv = st.nv ∧
      st'.value g = (Gcd.mpz_gcdext (st.value a) (st.value b)).1 ∧
      (∀ x ∈ sv, st'.value x = (Gcd.mpz_gcdext (st.value a) (st.value b)).2.1) ∧
      (∀ x ∈ tv, st'.value x = (Gcd.mpz_gcdext (st.value a) (st.value b)).2.2) ∧
      ∀ i, i < st.nv → i ≠ g → i ∉ sv → i ∉ tv → st'.value i = st.value i :=
  gcdext_ok Mpir.C07z.mpn_gcdext_contract h hg ha hb hs ht hgs hgt hst has hat

-- g = a and s = b in place; t = a; s = NULL; a = b = g (one variable); the bsize = 0 exit with s = a
example : lookG (gcdext 0 (some 1) (some 2) 0 1 (ofInts [gxA, gxB, 0])) 3 = .ok [(3, 3, 0), (gxS, 2, 1), (gxT, 3, 8)] := by decide +kernel
example : lookG (gcdext 0 (some 1) (some 2) 2 3 (ofInts [0, 0, gxA, gxB])) 4 =
    .ok [(3, 1, 0), (gxS, 2, 9), (gxT, 3, 2), (gxB, 2, 3)] := by decide +kernel
example : lookG (gcdext 0 none (some 2) 2 3 (ofInts [0, 0, gxA, gxB])) 4 =
    .ok [(3, 1, 0), (0, 1, 1), (gxT, 3, 2), (gxB, 2, 3)] := by decide +kernel
example : lookG (gcdext 3 (some 1) (some 2) 3 3 (ofInts [5, 6, 7, gxA])) 4 = .ok [(5, 1, 0), (0, 1, 1), (1, 1, 2), (gxA, 3, 3)] := by
  decide +kernel
example : lookG (gcdext 0 (some 1) (some 2) 1 3 (ofInts [5, -gxA, 7, 0])) 4 = .ok [(gxA, 3, 4), (-1, 3, 1), (0, 1, 2), (0, 1, 3)] := by
  decide +kernel
example : gxA * gxS + gxB * gxT = 3 := by decide +kernel
-- negative examples (more in Lemmas/AliasGcdext.lean): s stored before t is computed, s = a: t is wrong (right: gxT);
-- no TMP copies of the operands and a = b: mpn_gcdext's two source operands overlap
example : lookG (gcdextV { tBeforeS := false } 0 (some 1) (some 2) 1 3 (ofInts [0, gxA, 0, gxB])) 4 =
    .ok [(3, 1, 0), (gxS, 3, 1), (1955453703669360966019249215, 2, 9), (gxB, 2, 3)] := by decide +kernel
example : lookG (gcdextV { copyOperands := false } 0 (some 1) (some 2) 3 3 (ofInts [0, 0, 0, gxA])) 4 =
    .error "ub:mpn_gcdext operands overlap" := by decide +kernel

/-! ## mpf with raw-precision operands: mpf_div -/

def showF (r : R FSt) : Except String (List Mpf.F) := r.map fun s => (List.range 3).map s.F
def errOfF (r : R FSt) : String := match r with | .error e => e | .ok _ => "ok"

/-- mpf_div (mpf/div.c) on the pointer-level mpf model (Mpir/Model/AliasMpf.lean: header {prec, size, exp, ptr}, a block that is
    never reallocated, `PREC + 1 ≤` block length; an operand may have MORE than PREC + 1 limbs — the state mpf_set_prec_raw
    leaves behind), every choice of r, u, v (r = u, r = v, u = v, all the same variable), v ≠ 0: the call succeeds, r holds
    EXACTLY size, exponent and limbs of the bit-exact model `Mpf.div (PREC r) u v` (C13) applied to the operands as they were
    before the call, every other variable (header and limbs) is untouched, the invariant holds again.  What the C does for it:
    the dividend is copied to TMP space when it must be padded OR when `rp == up` (:96) — also when it is chopped (`up += chop`,
    :98-100: with r = u the quotient is written over the low end of the very block whose high end is the dividend); the divisor is
    copied when `rp == vp` (:131-135); sizes, exponents and pointers are fetched before anything is stored (:68-90). -/
theorem mpf_div_ptr_spec {s : FSt} (h : FInv s) {r u v : Nat} (hr : r < s.st.nv) (hu : u < s.st.nv) (hv : v < s.st.nv)
    (hv0 : s.st.size v ≠ 0) :
    ∃ s' f, mpf_div r u v s = .ok s' ∧ Mpf.div (s.prec r) (s.F u) (s.F v) = .ok f ∧
      FInv s' ∧ s'.st.nv = s.st.nv ∧ s'.F r = f ∧ ∀ i, i < s.st.nv → i ≠ r → s'.F i = s.F i :=
  mpf_div_ok h hr hu hv hv0

theorem mpf_div_by_zero (s : FSt) (r u v : Nat) (hv0 : s.st.size v = 0) : mpf_div r u v s = .error "div0" := by
  unfold mpf_div mpf_divV
  simp only [bind, Except.bind]
  rw [if_pos (by omega)]; rfl

/-- variable 0: precision 2 but 5 limbs (raw precision); variable 1: precision 3, two limbs, negative; variable 2: zero -/
def fs1 : FSt := ofFs [⟨2, 5, 3, [1, 2, 3, 4, 5]⟩, ⟨3, -2, 1, [9, 11]⟩, ⟨2, 0, 0, []⟩]
-- r = u in place on the long operand: the same answer as into the separate variable 2, and as the bit-exact model
example : (showF (mpf_div 0 0 1 fs1)).map (·.getD 0 default) = (showF (mpf_div 2 0 1 fs1)).map (·.getD 2 default) := by decide +kernel
example : (showF (mpf_div 0 0 1 fs1)).map (·.getD 0 default) = .ok (match Mpf.div 2 (fs1.F 0) (fs1.F 1) with | .ok f => f | _ => default) := by
  decide +kernel
-- r = v (destination precision 3), and all three the same variable (u / u = 1)
example : (showF (mpf_div 1 0 1 fs1)).map (·.getD 1 default) = .ok (match Mpf.div 3 (fs1.F 0) (fs1.F 1) with | .ok f => f | _ => default) := by
  decide +kernel
example : showF (mpf_div 0 0 0 fs1) = .ok [⟨2, 3, 1, [0, 0, 1]⟩, ⟨3, -2, 1, [9, 11]⟩, ⟨2, 0, 0, []⟩] := by decide +kernel
example : errOfF (mpf_div 0 1 2 fs1) = "div0" := by decide
-- negative examples: `copy_u` without `|| rp == up` (the seeded defect C05_c_2: "u is chopped anyway"), r = u; no copy of v, r = v
example : errOfF (mpf_divV { copyUIfOverlap := false } 0 0 1 fs1) = "ub:mpn_tdiv_qr operands overlap" := by decide +kernel
example : errOfF (mpf_divV { copyV := false } 1 0 1 fs1) = "ub:mpn_tdiv_qr operands overlap" := by decide +kernel

/-! ## mpf_mul, mpf_sqrt, mpf_div_ui with raw-precision operands -/

/-- mpf_mul (mpf/mul.c), every choice of r, u, v, operands of any length: r holds exactly `Mpf.mul (PREC r) u v` of the operands
    before the call.  The product of the (at most PREC) top limbs of each operand is formed in TMP space (:68-71: mpn_mul
    does not allow the product to overlap a factor, and r has only PREC + 1 limbs) and its top limbs copied to r (:76-82);
    `u->_mp_exp`, `v->_mp_exp` are read in the statement that stores `r->_mp_exp` (:83), before `r->_mp_size` (:84). -/
theorem mpf_mul_ptr_spec {s : FSt} (h : FInv s) {r u v : Nat} (hr : r < s.st.nv) (hu : u < s.st.nv) (hv : v < s.st.nv) :
    ∃ s', mpf_mul r u v s = .ok s' ∧ FInv s' ∧ s'.st.nv = s.st.nv ∧ s'.F r = Mpf.mul (s.prec r) (s.F u) (s.F v) ∧
      ∀ i, i < s.st.nv → i ≠ r → s'.F i = s.F i :=
  mpf_mul_ok h hr hu hv

/-- mpf_sqrt (mpf/sqrt.c), r = u or not, u ≥ 0, operands of any length: `usize`, `uexp`, `up` are cached in locals (:63,
    :75-77) BEFORE `r->_mp_size`, `r->_mp_exp` are stored (:81-82) — with r = u the header of u is gone afterwards —, the
    2 PREC or 2 PREC - 1 top limbs (or the padded operand) go to TMP space, mpn_sqrtrem writes the root into r.
    `1 ≤ PREC (r)`: the library never makes a smaller precision (`__GMPF_BITS_TO_PREC ≥ 2`). -/
theorem mpf_sqrt_ptr_spec {s : FSt} (h : FInv s) {r u : Nat} (hr : r < s.st.nv) (hu : u < s.st.nv) (hu0 : 0 ≤ s.st.size u)
    (hp : 1 ≤ s.prec r) :
    ∃ s' f, mpf_sqrt r u s = .ok s' ∧ Mpf.sqrt (s.prec r) (s.F u) = .ok f ∧
      FInv s' ∧ s'.st.nv = s.st.nv ∧ s'.F r = f ∧ ∀ i, i < s.st.nv → i ≠ r → s'.F i = s.F i :=
  mpf_sqrt_ok h hr hu hu0 hp

/-- mpf_div_ui (mpf/div_ui.c), r = u or not, 0 < v < 2^64: the dividend is moved to TMP space (:75-91), mpn_divmod_1 writes
    the PREC + 1 quotient limbs into r (:93), `u->_mp_exp` is read afterwards (:97: limbs only have been written). -/
theorem mpf_div_ui_ptr_spec {s : FSt} (h : FInv s) {r u : Nat} (hr : r < s.st.nv) (hu : u < s.st.nv) {v : Nat} (hv : 0 < v)
    (hvB : v < B) :
    ∃ s' f, mpf_div_ui r u v s = .ok s' ∧ Mpf.div_ui (s.prec r) (s.F u) v = .ok f ∧
      FInv s' ∧ s'.st.nv = s.st.nv ∧ s'.F r = f ∧ ∀ i, i < s.st.nv → i ≠ r → s'.F i = s.F i :=
  mpf_div_ui_ok h hr hu hv hvB

theorem mpf_sqrt_div_ui_exceptions (s : FSt) (r u : Nat) :
    (s.st.size u < 0 → mpf_sqrt r u s = .error "sqrtneg") ∧ mpf_div_ui r u 0 s = .error "div0" :=
  ⟨fun hneg => (mpf_sqrt_neg hneg).1, mpf_div_ui_zero.1⟩

-- r = u in place on operands longer than PREC + 1 (precision 2, four resp. five limbs)
example : lookF (mpf_mul 0 0 1 (ofFs [⟨2, 4, 3, [5, 6, 7, 8]⟩, ⟨2, -1, 1, [3]⟩])) 2 = .ok [⟨2, -2, 3, [21, 24]⟩, ⟨2, -1, 1, [3]⟩] := by
  decide +kernel
example : lookF (mpf_mul 0 0 0 (ofFs [⟨2, 4, 3, [5, 6, 7, 2 ^ 63]⟩])) 1 = .ok [⟨2, 3, 6, [0, 7, 2 ^ 62]⟩] := by decide +kernel
example : lookF (mpf_sqrt 0 0 (ofFs [⟨2, 5, 3, [5, 6, 7, 8, 9]⟩])) 1 = .ok [⟨2, 2, 2, [1, 3]⟩] := by decide +kernel
example : lookF (mpf_div_ui 0 0 3 (ofFs [⟨2, -5, 3, [5, 6, 7, 8, 9]⟩])) 1 = .ok [⟨2, -3, 3, [12297829382473034413, 2, 3]⟩] := by
  decide +kernel
-- negative examples: the product formed in r's block (r = u: overlap; r distinct: 2 PREC limbs do not fit PREC + 1); u's size
-- re-read after r's header was stored (r = u: a different root); the long dividend divided where it is (r = u)
example : errOfF (mpf_mulV { productInTmp := false } 0 0 1 (ofFs [⟨2, 4, 3, [5, 6, 7, 8]⟩, ⟨2, -1, 1, [3]⟩])) =
    "ub:mpn_mul product overlaps a factor" := by decide +kernel
example : lookF (mpf_sqrtV { sqrtLocals := false } 0 0 (ofFs [⟨2, 5, 3, [5, 6, 7, 8, 9]⟩])) 1 ≠
    lookF (mpf_sqrt 0 0 (ofFs [⟨2, 5, 3, [5, 6, 7, 8, 9]⟩])) 1 := by decide +kernel
example : errOfF (mpf_div_uiV { dividendInTmp := false } 0 0 3 (ofFs [⟨2, -5, 3, [5, 6, 7, 8, 9]⟩])) =
    "ub:mpn_divrem_1 quotient overlaps the dividend at an offset" := by decide +kernel

/-! ## mpz_powm, mpz_powm_ui -/

/-- mpz_powm (mpz/powm.c), every choice of r, b, e, m (r = b, r = e, r = m, b = e = m, …), m ≠ 0: either the value-level model
    `Powm.mpz_powm` (C08: `mpz_powm_spec`, b^e mod m with 0 ≤ result < |m|; a negative exponent goes through mpz_invert) reports
    DIVIDE_BY_ZERO and so does the call, or the call succeeds, r holds that model's result computed from the values of b, e, m
    BEFORE the call and every other variable keeps its value.  What the C does for it: `mp = PTR (m)`, `ep = PTR (e)`,
    `bp = PTR (b)` are fetched early (:77, :115, :121/:191) and stay valid because r is touched only at `ret:` (:279-283
    `MPZ_REALLOC (r, rn); SIZ (r) = rn; MPN_COPY (PTR (r), rp, rn)`) — everything before, including the correction that re-reads
    `PTR (m)` (:272-277), works in TMP space; the `es == 0` exit reads `mp[0]` before it stores `PTR (r)[0] = 1` (:88-89, no
    realloc: `1 ≤ ALLOC (r)`, MPIR's object invariant).  `hsz` (|m| shorter than 2^58 limbs) is the size hypothesis of C08. -/
theorem powm_ptr_spec {s : St} (h : Inv s) {r b e m : Nat} (hr : r < s.nv) (hb : b < s.nv) (he : e < s.nv) (hm : m < s.nv)
    (ha : 1 ≤ s.alloc r) (hm0 : s.value m ≠ 0) (hsz : (s.size m).natAbs * 64 < B) :
    (Powm.mpz_powm (s.value b) (s.value e) (s.value m) = .div0 ∧ powm r b e m s = .error "div0") ∨
    ∃ s', powm r b e m s = .ok s' ∧ Inv s' ∧ s'.nv = s.nv ∧
      s'.value r = ((val (Powm.mpz_powm (s.value b) (s.value e) (s.value m)).limbs : Nat) : Int) ∧
      ∀ i, i < s.nv → i ≠ r → s'.value i = s.value i :=
  powm_ok h hr hb he hm ha hm0 hsz

/-- mpz_powm_ui (mpz/powm_ui.c), every choice of r, b, m: `el = 0` exit (:135-141, `mp[0]` read before `PTR (r)[0] = 1`), the
    small-exponent loop in TMP space (el < 20), the deflection to mpz_powm through a local mpz_t (el ≥ 20). -/
theorem powm_ui_ptr_spec {s : St} (h : Inv s) {r b m : Nat} (hr : r < s.nv) (hb : b < s.nv) (hm : m < s.nv)
    (el : Nat) (hel : el < B) (ha : 1 ≤ s.alloc r) (hm0 : s.value m ≠ 0) (hsz : (s.size m).natAbs * 64 < B) :
    ∃ s', powm_ui r b el m s = .ok s' ∧ Inv s' ∧ s'.nv = s.nv ∧
      s'.value r = ((val (Powm.mpz_powm_ui (s.value b) el (s.value m)).limbs : Nat) : Int) ∧
      ∀ i, i < s.nv → i ≠ r → s'.value i = s.value i :=
  powm_ui_ok h hr hb hm el hel ha hm0 hsz

-- r = m in place; r = b = e = m; negative exponent with r = m; es = 0 with r = m
example : lookP (powm 3 1 2 3 (ofInts [0, -(2^70+5), 13, 2^130+12345])) 4 =
    .ok [(0, 1, 0), (-(2^70+5), 2, 1), (13, 1, 2), ((-(2^70+5 : Int))^13 % (2^130+12345), 3, 3)] := by decide +kernel
example : lookP (powm 1 1 1 1 (ofInts [0, 2^70+1])) 2 = .ok [(0, 1, 0), (0, 2, 1)] := by decide +kernel
example : lookP (powm 3 1 2 3 (ofInts [0, 6, 0, 7])) 4 = .ok [(0, 1, 0), (6, 1, 1), (0, 1, 2), (1, 1, 3)] := by decide +kernel
example : lookP (powm 0 1 2 3 (ofInts [0, 6, -5, 2^70*3])) 4 = .error "div0" := by decide +kernel
example : lookP (powm_ui 3 1 0 3 (ofInts [0, 5, 13, 1])) 4 = .ok [(0, 1, 0), (5, 1, 1), (13, 1, 2), (0, 1, 3)] := by decide +kernel
-- negative examples: `PTR (r)[0] = 1` before `mp[0] != 1` is tested (r = m = 7: 0 instead of 1); the result written into
-- PTR (r) before the final correction reads m (r = m, negative b, odd e: 0 instead of (-b)^13 mod m)
example : lookP (powmV { readBeforeWrite := false } 3 1 2 3 (ofInts [0, 6, 0, 7])) 4 =
    .ok [(0, 1, 0), (6, 1, 1), (0, 1, 2), (0, 1, 3)] := by decide +kernel
example : (lookP (powmV { resultInTmp := false } 3 1 2 3 (ofInts [0, -(2^70+5), 13, 2^130+12345])) 4).map (·.getD 3 default) =
    .ok (0, 3, 3) := by decide +kernel

/-! ## mpz_addmul, mpz_submul -/

/-- mpz_addmul / mpz_submul (mpz/aorsmul.c, with mpz_aorsmul_1 of aorsmul_i.c for a one-limb y), every choice of w, x, y
    (w = x, w = y, x = y, all equal): w ± x y of the values before the call.  What the C does for it: `MPZ_REALLOC (w, …)` first,
    `wp = PTR (w)`, `PTR (x)`, `PTR (y)` fetched afterwards (aorsmul.c:81-82, :88/:97); the product goes to TMP space because w
    is still needed (:95-97), except when w = 0 (:84-91: x, y ≠ 0 then, so no overlap). -/
theorem addmul_ptr_spec {s : St} (h : Inv s) {w x y : Nat} (hw : w < s.nv) (hx : x < s.nv) (hy : y < s.nv) :
    ∃ s', addmul w x y s = .ok s' ∧ Inv s' ∧ s'.nv = s.nv ∧ s'.value w = s.value w + s.value x * s.value y ∧
      ∀ i, i < s.nv → i ≠ w → s'.value i = s.value i :=
  addmul_ok h hw hx hy

theorem submul_ptr_spec {s : St} (h : Inv s) {w x y : Nat} (hw : w < s.nv) (hx : x < s.nv) (hy : y < s.nv) :
    ∃ s', submul w x y s = .ok s' ∧ Inv s' ∧ s'.nv = s.nv ∧ s'.value w = s.value w - s.value x * s.value y ∧
      ∀ i, i < s.nv → i ≠ w → s'.value i = s.value i :=
  submul_ok h hw hx hy

example : lookP (submul 1 1 1 (ofInts [2^100, 2^70+1, -(2^65+7)])) 2 = .ok [(2^100, 2, 0), (2^70+1 - (2^70+1)*(2^70+1), 5, 3)] := by
  decide +kernel
example : (lookP (addmul 1 1 2 (ofInts [2^100, 2^70+1, -(2^65+7)])) 3).map (·.map (·.1)) =
    .ok [2^100, 2^70+1 + (2^70+1) * -(2^65+7), -(2^65+7)] := by decide +kernel
-- negative examples: PTR (x) fetched before MPZ_REALLOC (w) with w = x; the product formed in wp with w = x
example : lookP (aorsmulV { reallocThenPtr := false } false 1 1 2 (ofInts [2^100, 2^70+1, -(2^65+7)])) 3 =
    .error "ub:read of a freed block" := by decide +kernel
example : lookP (aorsmulV { productInTmp := false } false 1 1 2 (ofInts [2^100, 2^70+1, -(2^65+7)])) 3 =
    .error "ub:mpn_mul product overlaps a factor" := by decide +kernel

/-! ## mpz_sqrt, mpz_lcm, mpz_invert -/

/-- mpz_sqrt (mpz/sqrt.c), root = op or not, op ≥ 0: the operand is copied to TMP space when `root_ptr == op_ptr` (:69-76);
    a root block that is too small is replaced by free + allocate (:51-67). -/
theorem mpz_sqrt_ptr_spec {s : St} (h : Inv s) {root op : Nat} (hr : root < s.nv) (ho : op < s.nv) (hop : 0 ≤ s.value op) :
    ∃ s', mpz_sqrt root op s = .ok s' ∧ Inv s' ∧ s'.nv = s.nv ∧ s'.value root = (Nat.sqrt (s.value op).toNat : Int) ∧
      ∀ i, i < s.nv → i ≠ root → s'.value i = s.value i :=
  mpz_sqrt_ok h hr ho hop

/-- mpz_lcm (mpz/lcm.c), every choice of r, u, v: the one-limb arms (`MPZ_REALLOC (r, usize+1)` first, then `PTR (u)`,
    `PTR (v)[0]`, mpn_mul_1 in place; this is the function of finding C05_a_2) and the general arm through a local g
    (mpz_gcd, mpz_divexact, mpz_mul into r). -/
theorem mpz_lcm_ptr_spec {s : St} (h : Inv s) {r u v : Nat} (hr : r < s.nv) (hu : u < s.nv) (hv : v < s.nv) :
    ∃ s', mpz_lcm r u v s = .ok s' ∧ Inv s' ∧ s'.nv = s.nv ∧ s'.value r = ((Int.lcm (s.value u) (s.value v) : Nat) : Int) ∧
      ∀ i, i < s.nv → i ≠ r → s'.value i = s.value i :=
  mpz_lcm_ok h hr hu hv

/-- mpz_invert (mpz/invert.c), every choice of inverse, x, n: gcd and cofactor are computed into two local variables
    (`mpz_gcdext (gcd, tmp, NULL, x, n)`, taken at the value-level `Gcd.mpz_gcdext`), `inverse` is written only when the
    inverse exists — otherwise EVERY variable keeps its value. -/
theorem mpz_invert_ptr_spec {s : St} (h : Inv s) {inv x n : Nat} (hi : inv < s.nv) (hx : x < s.nv) (hn : n < s.nv) :
    match Gcd.mpz_invert (s.value x) (s.value n) with
    | none => ∃ s', mpz_invert inv x n s = .ok (false, s') ∧ Inv s' ∧ s'.nv = s.nv ∧ ∀ i, i < s.nv → s'.value i = s.value i
    | some z => ∃ s', mpz_invert inv x n s = .ok (true, s') ∧ Inv s' ∧ s'.nv = s.nv ∧ s'.value inv = z ∧
        ∀ i, i < s.nv → i ≠ inv → s'.value i = s.value i :=
  mpz_invert_ok Mpir.C07z.mpn_gcdext_contract h hi hx hn

example : lookP (mpz_sqrt 1 1 (ofInts [0, 2^200+12345])) 2 = .ok [(0, 1, 0), (2^100, 4, 1)] := by decide +kernel
example : lookP (mpz_sqrtV { copyOp := false } 1 1 (ofInts [0, 2^200+12345])) 2 = .error "ub:mpn_sqrtrem operands overlap" := by
  decide +kernel
example : lookP (mpz_lcm 1 1 1 (ofInts [0, -(2^70*6), 7])) 3 = .ok [(0, 1, 0), (2^70*6, 3, 5), (7, 1, 2)] := by decide +kernel
example : (lookP (mpz_lcm 2 1 2 (ofInts [0, 2^70*6, -15])) 3).map (·.map (·.1)) = .ok [0, 2^70*6, 2^70*30] := by decide +kernel
example : (mpz_invert 2 1 2 (ofInts [0, 6, 2^70*3])).map (fun r => (r.1, r.2.view 3)) =
    .ok (false, [(0, 1, 0), (6, 1, 1), (2^70*3, 2, 2)]) := by decide +kernel

/-! ## mpz_root, mpz_remove, mpz_bin_ui -/

/-- mpz_root (mpz/root.c), root = u or not, nth ≥ 1, u ≥ 0 or nth odd: the root is built in TMP space when root = u (:56-59:
    mpn_rootrem's operands may not overlap) and copied back; the return value says whether the root is exact. -/
theorem mpz_root_ptr_spec {s : St} (h : Inv s) {root u : Nat} (hr : root < s.nv) (hu : u < s.nv) (nth : Nat) (hn : 1 ≤ nth)
    (hsgn : 0 ≤ s.value u ∨ nth % 2 = 1) :
    ∃ s', mpz_root root u nth s = .ok (decide (Root.iroot nth (s.mag u) ^ nth = s.mag u), s') ∧ Inv s' ∧ s'.nv = s.nv ∧
      s'.value root = sgnv (s.size u) (Root.iroot nth (s.mag u)) ∧ ∀ i, i < s.nv → i ≠ root → s'.value i = s.value i :=
  mpz_root_ok h hr hu nth hn hsgn

/-- mpz_remove (mpz/remove.c), every choice of dest, src, f: `f` is copied to the local fpow[0] BEFORE `mpz_set (dest, src)`
    (:60-61 — the order that makes dest = f work), all divisions go through local variables; f ≤ 1 is DIVIDE_BY_ZERO (:33-34);
    quotient and multiplicity are those of the value-level model `Numth.mpz_remove` (C09).  `1 ≤ ALLOC (dest)`: the f = 2 arm
    ends in mpz_fdiv_q_2exp, which stores `PTR (w)[0]` without a realloc. -/
theorem mpz_remove_ptr_spec {s : St} (h : Inv s) {dest src f : Nat} (hd : dest < s.nv) (hs : src < s.nv) (hf : f < s.nv)
    (ha : 1 ≤ s.alloc dest) :
    match Numth.mpz_remove (s.value src) (s.value f) with
    | none => mpz_remove dest src f s = .error "div0"
    | some (z, pwr) => ∃ s', mpz_remove dest src f s = .ok (pwr, s') ∧ Inv s' ∧ s'.nv = s.nv ∧ s'.value dest = z ∧
        ∀ i, i < s.nv → i ≠ dest → s'.value i = s.value i :=
  mpz_remove_ok h hd hs hf ha

/- FULL statement wanted for mpz_bin_ui: as below without `hP`.  `hP` (`binPos …`) says that the ASSERT `SIZ (r) > 0` inside the
   DIVIDE() macro (bin_ui.c:35) holds along the value-level run, i.e. that no intermediate quotient is 0 — true (the accumulated
   product of j consecutive integers is divisible by j! and positive) but not proved here; it is decidable (`binPosDec`), the
   examples below discharge it by evaluation. -/
/-- mpz_bin_ui (mpz/bin_ui.c), r = n or not: ni is computed from n (into a local) BEFORE `SIZ (r) = 1; PTR (r)[0] = 1` (:75). -/
theorem mpz_bin_ui_ptr_spec_partial {s : St} (h : Inv s) {r n : Nat} (hr : r < s.nv) (hn : n < s.nv) (ha : 1 ≤ s.alloc r) (k : Nat)
    (hkB : k < B)
    (hP : binPos (if binNi (s.value n) k < k then binNi (s.value n) k else k) (if binNi (s.value n) k < k then binNi (s.value n) k else k)
      1 (if binNi (s.value n) k < k then k else binNi (s.value n) k) 1 1 1) :
    ∃ s', mpz_bin_ui r n k s = .ok s' ∧ Inv s' ∧ s'.nv = s.nv ∧ s'.value r = Numth.mpz_bin_ui (s.value n) k ∧
      ∀ i, i < s.nv → i ≠ r → s'.value i = s.value i :=
  mpz_bin_ui_ok h hr hn ha k hkB hP

example : lookN (mpz_root 1 1 3 (ofInts [0, (2^70+1)^3])) 2 = .ok (true, [(0, 1, 0), (2^70+1, 4, 1)], 2) := by decide +kernel
example : lookN (mpz_rootV { rootInTmp := false } 1 1 3 (ofInts [0, (2^70+1)^3])) 2 = .error "ub:mpn_rootrem operands overlap" := by
  decide +kernel
-- dest = f: 3^50 removed from -(3^50 · 7 · 2^70); with `mpz_set (dest, src)` BEFORE the copy of f the answer is wrong
example : (lookN (mpz_remove 2 1 2 (ofInts [0, -(3^50 * 7 * 2^70), 3])) 3).map (fun r => (r.1, r.2.1.getD 2 default)) =
    .ok (50, (-(7 * 2^70), 3, 6)) := by decide +kernel
example : (lookN (mpz_removeV { copyFFirst := false } 2 1 2 (ofInts [0, -(3^50 * 7 * 2^70), 3])) 3).map (fun r => r.1) = .ok 1 := by
  decide +kernel
example : (lookP (mpz_bin_ui 1 1 30 (ofInts [0, 2^70+3])) 2).map (·.map (·.1)) = .ok [0, Numth.mpz_bin_ui (2^70+3) 30] := by decide +kernel
example : binPos 30 30 1 (2^70 + 3 - 30) 1 1 1 := by decide +kernel
example : lookP (mpz_bin_uiV { niBeforeR := false } 1 1 5 (ofInts [0, 2^70])) 2 = .ok [(0, 1, 0), (1, 2, 1)] := by decide +kernel

/-! ## mpf_floor / mpf_ceil / mpf_trunc, mpf_mul_2exp / mpf_div_2exp, mpf_ui_div -/

/-- mpf_floor, mpf_ceil (mpf/ceilfloor.c), mpf_trunc (mpf/trunc.c), r = u or not, operands of any length: the fraction limbs are
    scanned (and the ±1 added into r) BEFORE the integer limbs are moved down inside the block with MPN_COPY_INCR — the
    function family of the seeded defect C05_b_3. -/
theorem mpf_floor_ceil_trunc_ptr_spec {s : FSt} (h : FInv s) {r u : Nat} (hr : r < s.st.nv) (hu : u < s.st.nv) :
    (∃ s', mpf_floor r u s = .ok s' ∧ FRes s s' r (Mpf.floor (s.prec r) (s.F u))) ∧
    (∃ s', mpf_ceil r u s = .ok s' ∧ FRes s s' r (Mpf.ceil (s.prec r) (s.F u))) ∧
    (∃ s', mpf_trunc r u s = .ok s' ∧ FRes s s' r (Mpf.trunc (s.prec r) (s.F u))) :=
  ⟨mpf_floor_ok h hr hu, mpf_ceil_ok h hr hu, mpf_trunc_ok h hr hu⟩

/-- mpf_mul_2exp / mpf_div_2exp (mpf/mul_2exp.c, mpf/div_2exp.c), r = u or not: whole-limb shifts are an MPN_COPY_INCR of the
    top limbs, bit shifts go through mpn_rshift by 64 - k into rp + 1 when u is longer than PREC (so that source and
    destination overlap in the permitted direction) and mpn_lshift otherwise.  `1 ≤ PREC (r)`: never smaller in the library. -/
theorem mpf_2exp_ptr_spec {s : FSt} (h : FInv s) {r u : Nat} (hr : r < s.st.nv) (hu : u < s.st.nv) (e : Nat) (hp : 1 ≤ s.prec r) :
    (∃ s', mpf_mul_2exp r u e s = .ok s' ∧ FRes s s' r (Mpf.mul_2exp (s.prec r) (s.F u) e)) ∧
    (∃ s', mpf_div_2exp r u e s = .ok s' ∧ FRes s s' r (Mpf.div_2exp (s.prec r) (s.F u) e)) :=
  ⟨mpf_mul_2exp_ok h hr hu e hp, mpf_div_2exp_ok h hr hu e hp⟩

/-- mpf_ui_div (mpf/ui_div.c), r = v or not, v ≠ 0: the divisor is copied when `rp == vp` (:96-100), the dividend u·B^zeros is
    built in TMP space. -/
theorem mpf_ui_div_ptr_spec {s : FSt} (h : FInv s) {r v : Nat} (hr : r < s.st.nv) (hv : v < s.st.nv) {u : Nat} (huB : u < B)
    (hvz : s.st.size v ≠ 0) :
    ∃ s' f, mpf_ui_div r u v s = .ok s' ∧ Mpf.ui_div (s.prec r) u (s.F v) = .ok f ∧ FRes s s' r f :=
  mpf_ui_div_ok h hr hv huB hvz

-- the C05_b_3 pattern: ceil in place of 5.0 held as {0, 5} with exponent 1 (one fraction limb, zero): 5, not 6
example : lookF (mpf_ceil 0 0 (ofFs [⟨2, 2, 1, [0, 5]⟩])) 1 = .ok [⟨2, 1, 1, [5]⟩] := by decide +kernel
example : lookF (mpf_ceilfloorV { scanBeforeMove := false } 0 0 1 (ofFs [⟨2, 2, 1, [0, 5]⟩])) 1 = .ok [⟨2, 1, 1, [6]⟩] := by decide +kernel
example : errOfF (mpf_truncV { copyIncr := false } 0 0 (ofFs [⟨2, 5, 9, [0, 2, 3, 4, 5]⟩])) = "ub:MPN_COPY_DECR overlap" := by decide +kernel
example : errOfF (mpf_2expV { rshiftWhenLong := false } true 0 0 3 (ofFs [⟨2, 3, 9, [2, 3, 4]⟩])) = "ub:mpn_lshift overlap" := by
  decide +kernel
example : errOfF (mpf_ui_divV { copyV := false } 0 7 0 (ofFs [⟨2, -4, 3, [5, 6, 7, 8]⟩])) = "ub:mpn_tdiv_qr operands overlap" := by
  decide +kernel

end Mpir.AliasMem
