/- Property C13, part c13_parse: the input language of mpf_set_str as a grammar.
   `MpfParse.recog` (Model/MpfParse.lean) describes the language left to right:
       space* '-'? mant [ marker ( junk | expo junk ) ]
   independently of the scanner model `MpfStr.parse`, which mirrors set_str.c (marker searched from the right, then
   the mantissa loop).  The theorems say that the two coincide on EVERY byte string and EVERY value of `base`
   (legal ones: 2..62, -62..-2 and 0 = 10; all others are rejected by both). -/
import MpirProofs.Lemmas.MpfParse
import MpirProofs.Lemmas.MpfParseLang
namespace Mpir.MpfParse
open Mpir Mpir.MpfStr

private def str (s : String) : List Nat := s.toList.map Char.toNat

/-- **Scanner model = grammar**, as functions: for every byte string and every base the scanner model of
    mpf_set_str's reading (set_str.c:207-304, 352-376) rejects exactly when the grammar does, and otherwise both
    yield the same sign, digit base, mantissa digits, fraction length and written exponent. -/
theorem parse_eq_recog (base : Int) (s : List Nat) : parse base s = recog base s :=
  parse_eq_recog' base s

example : recog 10 (str " -12.50e-3xyz") = some ⟨true, 10, [1, 2, 5, 0], 2, -3⟩ := by decide +kernel
example : parse 10 (str " -12.50e-3xyz") = some ⟨true, 10, [1, 2, 5, 0], 2, -3⟩ := by decide +kernel

/-- **parse_iff.**  The model of mpf_set_str returns 0 (accepts) if and only if the string is in the grammar — for
    every string, every base (in particular 2..62 and -62..-2), every destination. -/
theorem parse_iff (prec : Nat) (dst : Mpf.F) (base : Int) (s : List Nat) :
    (set_str prec dst base s).1 = 0 ↔ accepts base s = true := by
  unfold set_str accepts
  rw [parse_eq_recog]
  cases recog base s <;> simp

-- in the language: trailing junk after the exponent, unread exponent after a zero mantissa, interior white space
example : accepts 10 (str "1e5xyz") = true ∧ accepts 10 (str "0e+") = true ∧ accepts (-16) (str "f F.8@-10") = true ∧
    accepts 62 (str "zZ.9@A") = true ∧ accepts 0 (str "\t.5") = true := by decide +kernel
-- not in the language: a second marker, white space after the sign / after an initial point / in the exponent,
-- '+' before the mantissa, two points, digit >= base, marker without digits, base out of range
example : accepts 10 (str "1e5xe") = false ∧ accepts 10 (str "- 5") = false ∧ accepts 10 (str ". 5") = false ∧
    accepts 10 (str "1e 5") = false ∧ accepts 10 (str "+5") = false ∧ accepts 10 (str "1.2.3") = false ∧
    accepts 8 (str "8") = false ∧ accepts 36 (str "1@") = false ∧ accepts 63 (str "1") = false ∧
    accepts 1 (str "1") = false ∧ accepts 10 (str "") = false := by decide +kernel
example : (set_str 2 ⟨2, 2, -3, [5, 7]⟩ 10 (str "1e5xe")).1 = -1 := by decide +kernel

/-- **parse_value.**  For a string of the grammar, what the scanner extracts — sign, mantissa digits, number of
    digits after the point, exponent — is what the grammar's derivation denotes, and the model of mpf_set_str
    stores the conversion of exactly that (`MpfStr.convert`, whose accuracy is `mpf_set_str_correct`). -/
theorem parse_value (prec : Nat) (dst : Mpf.F) (base : Int) (s : List Nat) (p : Parsed)
    (h : recog base s = some p) :
    parse base s = some p ∧ set_str prec dst base s = (0, convert prec p) := by
  have h' : parse base s = some p := by rw [parse_eq_recog]; exact h
  exact ⟨h', by simp [set_str, h']⟩

example : recog (-16) (str " -fF.8@-10") = some ⟨true, 16, [15, 15, 8], 1, -10⟩ := by decide +kernel
example : recog 37 (str "aA. 0 @+1a") = some ⟨false, 37, [36, 10, 0], 1, 1 * 37 + 36⟩ := by decide +kernel

/-- **The recogniser is sound and complete for the inductive grammar** `Lang` (Model/MpfParse.lean: productions for
    leading white space, sign, mantissa `Mant` with optional point and interspersed white space beginning with a digit
    or point-digit, marker, exponent `Expo` with optional sign and longest digit run, ignored tail without marker, and
    the zero-mantissa rule): for every base and every byte string `s0`, `recog` yields `p` if and only if the C
    string (`s0` up to its first NUL) derives `p`. -/
theorem recog_iff_lang (base : Int) (s0 : List Nat) (p : Parsed) :
    recog base s0 = some p ↔ Lang base (cstr s0) p := by
  rw [recog_eq_recogS]; exact recogS_iff base (cstr s0) p

/-- **parse_iff_lang.**  The scanner model of mpf_set_str (set_str.c:207-304, 352-376) extracts `p` from `s0` if and
    only if the grammar derives `p` from the C string; in particular the model returns 0 exactly on the strings
    that have a derivation. -/
theorem parse_iff_lang (base : Int) (s0 : List Nat) (p : Parsed) :
    parse base s0 = some p ↔ Lang base (cstr s0) p := by
  rw [parse_eq_recog]; exact recog_iff_lang base s0 p

/-- acceptance: `mpf_set_str` (model) returns 0 iff the C string has a derivation in the grammar -/
theorem set_str_accepts_iff_lang (prec : Nat) (dst : Mpf.F) (base : Int) (s0 : List Nat) :
    (set_str prec dst base s0).1 = 0 ↔ ∃ p, Lang base (cstr s0) p := by
  unfold set_str
  cases h : parse base s0 with
  | none =>
    simp only [show ((-1 : Int) = 0) = False by decide, false_iff]
    rintro ⟨p, hp⟩
    rw [← parse_iff_lang, h] at hp; cases hp
  | some p => exact ⟨fun _ => ⟨p, (parse_iff_lang base s0 p).1 h⟩, fun _ => rfl⟩

-- a derivation exists (non-vacuity), and an explicit one built from the productions
example : Lang 10 (str " -12.50e-3xyz") ⟨true, 10, [1, 2, 5, 0], 2, -3⟩ :=
  (recog_iff_lang 10 (str " -12.50e-3xyz") _).1 (by decide +kernel)
example : Lang 10 ([32] ++ 45 :: ([49, 46] ++ 101 :: 45 :: ([51] ++ [120]))) ⟨true, 10, [1], 0, -3⟩ :=
  Lang.neg (by decide) (by decide) (by decide)
    (Body.expo (m := [49, 46]) (ds := [1]) (pt := some 0) (Or.inl ⟨49, [46], rfl, by decide +kernel⟩)
      (Mant.digit (c := 49) (by decide +kernel) (Mant.point Mant.nil)) (by decide) (by decide)
      (by unfold NoMarker; decide +kernel) (Expo.minus (run := [51]) (tail := [120]) (by decide) (by decide +kernel) (by decide +kernel)))
example : ¬ ∃ p, Lang 10 (str "1e5xe") p := by
  rintro ⟨p, hp⟩
  have := (recog_iff_lang 10 (str "1e5xe") p).2 hp
  have hn : recog 10 (str "1e5xe") = none := by decide +kernel
  rw [hn] at this; cases this

end Mpir.MpfParse
