/- Property C13, part c13_parse: the input language of mpf_set_str as a grammar.
   `MpfParse.recog` (Model/MpfParse.lean) describes the language left to right:
       space* '-'? mant [ marker ( junk | expo junk ) ]
   independently of the scanner model `MpfStr.parse`, which mirrors set_str.c (marker searched from the right, then
   the mantissa loop).  The theorems say that the two coincide on EVERY byte string and EVERY value of `base`
   (legal ones: 2..62, -62..-2 and 0 = 10; all others are rejected by both). -/
import MpirProofs.Lemmas.MpfParse
namespace Mpir.MpfParse
open Mpir Mpir.MpfStr

private def str (s : String) : List Nat := s.toList.map Char.toNat

/-- **Scanner model = grammar**, as functions: for every byte string and every base the scanner model of
    mpf_set_str's reading (set_str.c:207-304, 352-376) rejects exactly when the grammar does, and otherwise both
    yield the same sign, digit base, mantissa digits, fraction length and written exponent. -/
theorem parse_eq_recog (base : Int) (s : List Nat) : parse base s = recog base s :=
  parse_eq_recog' base s

example : recog 10 (str " -12.50e-3xyz") = some ⟨true, 10, [1, 2, 5, 0], 2, -3⟩ := by decide +kernel
example : parse 10 (str " -12.50e-3xyz") = some ⟨true, 10, [1, 2, 5, 0], 2, -3⟩ := by decide +kernel

/-- **parse_iff.**  The model of mpf_set_str returns 0 (accepts) if and only if the string is in the grammar — for
    every string, every base (in particular 2..62 and -62..-2), every destination. -/
theorem parse_iff (prec : Nat) (dst : Mpf.F) (base : Int) (s : List Nat) :
    (set_str prec dst base s).1 = 0 ↔ accepts base s = true := by
  unfold set_str accepts
  rw [parse_eq_recog]
  cases recog base s <;> simp

-- in the language: trailing junk after the exponent, unread exponent after a zero mantissa, interior white space
example : accepts 10 (str "1e5xyz") = true ∧ accepts 10 (str "0e+") = true ∧ accepts (-16) (str "f F.8@-10") = true ∧
    accepts 62 (str "zZ.9@A") = true ∧ accepts 0 (str "\t.5") = true := by decide +kernel
-- not in the language: a second marker, white space after the sign / after an initial point / in the exponent,
-- '+' before the mantissa, two points, digit >= base, marker without digits, base out of range
example : accepts 10 (str "1e5xe") = false ∧ accepts 10 (str "- 5") = false ∧ accepts 10 (str ". 5") = false ∧
    accepts 10 (str "1e 5") = false ∧ accepts 10 (str "+5") = false ∧ accepts 10 (str "1.2.3") = false ∧
    accepts 8 (str "8") = false ∧ accepts 36 (str "1@") = false ∧ accepts 63 (str "1") = false ∧
    accepts 1 (str "1") = false ∧ accepts 10 (str "") = false := by decide +kernel
example : (set_str 2 ⟨2, 2, -3, [5, 7]⟩ 10 (str "1e5xe")).1 = -1 := by decide +kernel

/-- **parse_value.**  For a string of the grammar, what the scanner extracts — sign, mantissa digits, number of
    digits after the point, exponent — is what the grammar's derivation denotes, and the model of mpf_set_str
    stores the conversion of exactly that (`MpfStr.convert`, whose accuracy is `mpf_set_str_correct`). -/
theorem parse_value (prec : Nat) (dst : Mpf.F) (base : Int) (s : List Nat) (p : Parsed)
    (h : recog base s = some p) :
    parse base s = some p ∧ set_str prec dst base s = (0, convert prec p) := by
  have h' : parse base s = some p := by rw [parse_eq_recog]; exact h
  exact ⟨h', by simp [set_str, h']⟩

example : recog (-16) (str " -fF.8@-10") = some ⟨true, 16, [15, 15, 8], 1, -10⟩ := by decide +kernel
example : recog 37 (str "aA. 0 @+1a") = some ⟨false, 37, [36, 10, 0], 1, 1 * 37 + 36⟩ := by decide +kernel

end Mpir.MpfParse
