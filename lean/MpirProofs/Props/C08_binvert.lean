/-
  C08: mpn_binvert (mpn/generic/binvert.c) — property theorems only; helper lemmas in MpirProofs/Lemmas/Binvert.lean.
  Model: Mpir/Model/Binvert.lean (binvert.c statement by statement on bounds-checked areas), run against the rebuilt
  library by the ops `bi_*` of Mpir/Ops/Binvert.lean.
-/
import MpirProofs.Lemmas.Binvert
namespace Mpir.Binvert
open Mpir Mpir.Powm Mpir.PowmL

/-- **The precision schedule of mpn_binvert terminates** (binvert.c:69-71) for every `n ≥ 1` and every
    BINV_NEWTON_THRESHOLD ≥ 2 (with 0 or 1 the C loop `rn = (rn + 1) >> 1` stays at 1 above the threshold for ever):
    the loop ends within `n` rounds, the entries of `sizes[]` are `n, ⌈n/2⌉, ⌈n/4⌉, …`, all at or above the threshold,
    and the base case size `rn` is the first one below it, `1 ≤ rn ≤ n`. -/
theorem binvert_schedule_ok (thr n : Nat) (hthr : 2 ≤ thr) (hn : 1 ≤ n) :
    (schedule thr n n).2.2 = true ∧ ChainOk thr n (schedule thr n n).1 (schedule thr n n).2.1 ∧
    1 ≤ (schedule thr n n).2.1 ∧ (schedule thr n n).2.1 ≤ n :=
  schedule_chain thr hthr n n hn (le_refl _)

-- non-vacuity: BINV_NEWTON_THRESHOLD = 300, n = 1000: three Newton steps from a 125-limb base value
example : schedule 300 1000 1000 = ([1000, 500], 250, true) ∧ schedule 300 299 299 = ([], 299, true) ∧
    schedule 1 5 5 = ([5, 3, 2, 1, 1], 1, false) := by decide +kernel

end Mpir.Binvert
