/-
  C08: mpn_binvert (mpn/generic/binvert.c) — property theorems only; helper lemmas in MpirProofs/Lemmas/Binvert.lean.
  Model: Mpir/Model/Binvert.lean (binvert.c statement by statement on bounds-checked areas), run against the rebuilt
  library by the ops `bi_*` of Mpir/Ops/Binvert.lean.
-/
import MpirProofs.Lemmas.BinvertMain
import MpirProofs.Lemmas.BinvertPinned
import MpirProofs.Lemmas.BinvertBdiv
namespace Mpir.Binvert
open Mpir Mpir.Powm Mpir.PowmL Mpir.Mm1 Mpir.Hgcd

/-- **The precision schedule of mpn_binvert terminates** (binvert.c:69-71) for every `n ≥ 1` and every
    BINV_NEWTON_THRESHOLD ≥ 2 (with 0 or 1 the C loop `rn = (rn + 1) >> 1` stays at 1 above the threshold for ever):
    the loop ends within `n` rounds, the entries of `sizes[]` are `n, ⌈n/2⌉, ⌈n/4⌉, …`, all at or above the threshold,
    and the base case size `rn` is the first one below it, `1 ≤ rn ≤ n`. -/
theorem binvert_schedule_ok (thr n : Nat) (hthr : 2 ≤ thr) (hn : 1 ≤ n) :
    (schedule thr n n).2.2 = true ∧ ChainOk thr n (schedule thr n n).1 (schedule thr n n).2.1 ∧
    1 ≤ (schedule thr n n).2.1 ∧ (schedule thr n n).2.1 ≤ n :=
  schedule_chain thr hthr n n hn (le_refl _)

-- non-vacuity: BINV_NEWTON_THRESHOLD = 300, n = 1000: three Newton steps from a 125-limb base value
example : schedule 300 1000 1000 = ([1000, 500], 250, true) ∧ schedule 300 299 299 = ([], 299, true) ∧
    schedule 1 5 5 = ([5, 3, 2, 1, 1], 1, false) := by decide +kernel

/-- **mpn_binvert is correct on memory** (binvert.c:61-124 over sb_bdiv_q.c, mulmod_2expm1.c): for EVERY `n ≥ 1`, every
    `U = {up, n}` with an odd low limb, every BINV_NEWTON_THRESHOLD ≥ 2 (below that the schedule loop does not end, see
    `binvert_schedule_ok`), every DC_BDIV_Q_THRESHOLD ≥ 6 (mpn_dc_bdiv_q's `ASSERT (dn >= 6)`), every
    MULMOD_2EXPM1_THRESHOLD, any +1 half meeting `P1Spec`, ARBITRARY initial contents of `rp` (n limbs) and of the scratch
    (at least `mpn_binvert_itch (n)` limbs), arbitrary junk `jk` in the upper halves that mpn_mullow_n stores and in the
    operand mpn_dc_bdiv_q destroys:  every access to `rp` and to the scratch is in range (including the 2(newrn − rn) limbs
    of the mpn_mullow_n in the loop, which fit into `rp` only because `newrn ≤ (n + 1)/2` there, and those of the last
    iteration, which go to `xp + newrn`), the ASSERTs of mpn_mulmod_bnm1 / mpn_sub_1 / mpn_mullow_n hold (in particular
    `rn − (m − newrn) ≥ 1`), `sizes[]` is never popped below its first entry, and `R = {rp, n}` has n limbs with
    `R·U ≡ 1 (mod B^n)`.  The wrap-around product `U·R mod B^m − 1` is decoded correctly also when it is ≡ 0
    (U = B^n − 1: mpn_mulmod_bnm1 returns `B^m − 1`, not 0 — `mpn_mulmod_bnm1_val`).
    Hypotheses on mpn_mulmod_bnm1_next_size (`k ≤ next_size k`, `next_size k − k < ⌈k/2⌉`, monotone) and
    `|sizes[]| ≤ NPOWS` are discharged for the pinned build in `mpn_binvert_correct_pinned` below. -/
theorem mpn_binvert_correct (thr dcThr mthr : Nat) (pp1 : List Nat → List Nat → Nat → Nat → List Nat × Nat)
    (hpp1 : P1Spec pp1) (nextSize : Nat → Nat) (jk : Nat → Nat) (up rp0 xp0 : List Nat)
    (hn : 1 ≤ rp0.length) (hup : Limbs up) (hlen : up.length = rp0.length) (hodd : up.headD 0 % 2 = 1)
    (hthr : 2 ≤ thr) (hdc : 6 ≤ dcThr) (hitch : binvItch nextSize rp0.length ≤ xp0.length)
    (hns : ∀ k, 1 ≤ k → k ≤ nextSize k ∧ nextSize k - k < (k + 1) / 2)
    (hmono : ∀ a b, a ≤ b → nextSize a ≤ nextSize b)
    (hnp : (schedule thr rp0.length rp0.length).1.length ≤ npows thr) :
    (mpnBinvert thr dcThr mthr pp1 nextSize jk up rp0 xp0).2 = true ∧
    Limbs (mpnBinvert thr dcThr mthr pp1 nextSize jk up rp0 xp0).1 ∧
    (mpnBinvert thr dcThr mthr pp1 nextSize jk up rp0 xp0).1.length = rp0.length ∧
    (val (mpnBinvert thr dcThr mthr pp1 nextSize jk up rp0 xp0).1 * val up) % B ^ rp0.length = 1 := by
  obtain ⟨c1, c2, c3, c4⟩ := schedule_chain thr hthr rp0.length rp0.length hn (le_refl _)
  have hnn := (hns rp0.length hn).1
  have hI0 : 6 * nextSize rp0.length + 220 ≤ xp0.length := by simp only [binvItch] at hitch; omega
  have hB := base_inv dcThr jk up (schedule thr rp0.length rp0.length).2.1 rp0 xp0 rp0.length xp0.length hup hlen hodd
    c3 c4 rfl rfl (by omega) hdc
  have fin : ∀ s : St, Inv rp0.length xp0.length (val up) s rp0.length →
      s.ok = true ∧ Limbs s.rp ∧ s.rp.length = rp0.length ∧ (val s.rp * val up) % B ^ rp0.length = 1 := by
    intro s ⟨i1, i2, i3, i4, i5⟩
    rw [List.take_of_length_le (by omega)] at i4 i5
    exact ⟨i1, i4, i2, i5⟩
  unfold mpnBinvert
  simp only
  by_cases he : (schedule thr rp0.length rp0.length).2.1 = rp0.length
  · rw [if_pos he]
    rw [he] at hB
    obtain ⟨f1, f2, f3, f4⟩ := fin _ hB
    rw [he]
    refine ⟨?_, f2, f3, f4⟩
    simp [f1, c1, hnp]
  · rw [if_neg he]
    have hasc := Asc_of_chain thr hthr _ _ _ c2
    have hN := newton_inv mthr pp1 hpp1 nextSize jk up rp0.length xp0.length hup hlen
      (fun k hk2 hkn => by
        obtain ⟨a, b⟩ := hns k (by omega)
        have := hmono k rp0.length hkn
        exact ⟨a, b, by omega⟩)
      _ _ _ hasc (by omega) c3 hB
    obtain ⟨f1, f2, f3, f4⟩ := fin _ hN
    refine ⟨?_, f2, f3, f4⟩
    simp [f1, c1, hnp]

-- non-vacuity: thresholds 2 / 6 / 12, n = 3 (base value of 1 limb by the Hensel loop, Newton steps 1 -> 2 -> 3 limbs),
-- U = B^3 − 1 (the product is ≡ 0 modulo B^m − 1), junk 7 in the scratch halves, poisoned rp and scratch
example : mpnBinvert 2 6 12 Fft.mulmod_2expp1_basecase id (fun _ => 7) [B - 1, B - 1, B - 1] [5, 5, 5] (List.replicate 238 9) =
    ([B - 1, B - 1, B - 1], true) := by decide +kernel
example : (mpnBinvert 2 6 12 Fft.mulmod_2expp1_basecase id (fun _ => 7) [3, 5, 9] [5, 5, 5] (List.replicate 238 9)).2 = true ∧
    (val (mpnBinvert 2 6 12 Fft.mulmod_2expp1_basecase id (fun _ => 7) [3, 5, 9] [5, 5, 5] (List.replicate 238 9)).1 * val [3, 5, 9])
      % B ^ 3 = 1 := by decide +kernel

/-- **`sizes[NPOWS]` is large enough** (binvert.c:43-50, :64, :69-71): for every BINV_NEWTON_THRESHOLD ≥ 2 and every
    `n ≤ 2^46` limbs (beyond that the operand is not addressable) the schedule pushes at most
    `NPOWS = 48 − LOG2C (BINV_NEWTON_THRESHOLD)` entries. -/
theorem binvert_npows_ok (thr n : Nat) (hthr : 2 ≤ thr) (hn : 1 ≤ n) (hn46 : n ≤ 2 ^ 46) :
    (schedule thr n n).1.length ≤ npows thr :=
  schedule_len thr n n (npows thr) hn (by have := npows_bound thr hthr; omega)

-- non-vacuity: threshold 300: NPOWS = 39; 2^46 limbs need 38 entries; threshold 2 needs 46 of 46
example : npows 300 = 39 ∧ (schedule 300 (2 ^ 46) (2 ^ 46)).1.length = 38 ∧ npows 2 = 46 ∧
    (schedule 2 (2 ^ 46) (2 ^ 46)).1.length = 46 := by decide +kernel

/-- **mpn_binvert of the pinned build, unconditionally** (FFT_MULMOD_2EXPP1_CUTOFF = 128, FFT_N_NUM = 19, MULMOD_TAB):
    `mpn_binvert_correct` with its hypotheses on mpn_mulmod_bnm1_next_size discharged (`bnm1NextSize_gap`: the rounding of
    mpir_fft_adjust_limbs adds less than ⌈k/2⌉ limbs for EVERY k — for depths ≥ 7 because the two roundings collapse into
    one —, `bnm1NextSize_mono`) and `sizes[NPOWS]` by `binvert_npows_ok`: for every `1 ≤ n ≤ 2^46`, every odd U, every
    BINV_NEWTON_THRESHOLD ≥ 2, DC_BDIV_Q_THRESHOLD ≥ 6, any MULMOD_2EXPM1_THRESHOLD, scratch of `mpn_binvert_itch (n)` limbs
    with arbitrary contents: all accesses in range, n limbs, `R·U ≡ 1 (mod B^n)`.  Remaining assumptions: the contract
    `P1Spec` of the +1 half (FFT branch) and the contract of mpn_dc_bdiv_q for base sizes ≥ DC_BDIV_Q_THRESHOLD. -/
theorem mpn_binvert_correct_pinned (thr dcThr mthr : Nat) (pp1 : List Nat → List Nat → Nat → Nat → List Nat × Nat)
    (hpp1 : P1Spec pp1) (jk : Nat → Nat) (up rp0 xp0 : List Nat)
    (hn : 1 ≤ rp0.length) (hn46 : rp0.length ≤ 2 ^ 46) (hup : Limbs up) (hlen : up.length = rp0.length)
    (hodd : up.headD 0 % 2 = 1) (hthr : 2 ≤ thr) (hdc : 6 ≤ dcThr)
    (hitch : binvItch (bnm1NextSize 128 19 tab19) rp0.length ≤ xp0.length) :
    (mpnBinvert thr dcThr mthr pp1 (bnm1NextSize 128 19 tab19) jk up rp0 xp0).2 = true ∧
    Limbs (mpnBinvert thr dcThr mthr pp1 (bnm1NextSize 128 19 tab19) jk up rp0 xp0).1 ∧
    (mpnBinvert thr dcThr mthr pp1 (bnm1NextSize 128 19 tab19) jk up rp0 xp0).1.length = rp0.length ∧
    (val (mpnBinvert thr dcThr mthr pp1 (bnm1NextSize 128 19 tab19) jk up rp0 xp0).1 * val up) % B ^ rp0.length = 1 :=
  mpn_binvert_correct thr dcThr mthr pp1 hpp1 _ jk up rp0 xp0 hn hup hlen hodd hthr hdc hitch
    bnm1NextSize_gap bnm1NextSize_mono (binvert_npows_ok thr _ hthr hn hn46)

-- the function the driver runs (generated parameters) is this next-size function; the gap at the worst small size
example : Mpir.Ops.Hgcd.nextSize = bnm1NextSize 128 19 tab19 := by rfl
example : bnm1NextSize 128 19 tab19 257 = 320 ∧ binvItch (bnm1NextSize 128 19 tab19) 1000 = 6364 := by decide +kernel

/-- **The limbs mpn_binvert leaves at `rp` are those of the value-level `Powm.binvert`** — the `mip` that `mpn_powm`'s
    model `PowmL.mipOf` and `redc_n` take (hypothesis `ip·m ≡ 1 (mod B^n)` of `redc_n_limb_spec` / `redc_n_unconditional`,
    positive inverse): by uniqueness of the inverse modulo `B^n`, the memory model of mpn_binvert (binvert.c as it is, run
    in the caller's scratch `tp`) returns exactly `toLimbs n (binvert U n)` with every access in range.  So the line
    `mpn_binvert (mip, mp, n, tp)` of powm.c:219 is covered by `mpn_powm_correct_pinned` for `binvItch n ≤ itch`. -/
theorem mpn_binvert_value (thr dcThr mthr : Nat) (pp1 : List Nat → List Nat → Nat → Nat → List Nat × Nat)
    (hpp1 : P1Spec pp1) (jk : Nat → Nat) (up rp0 xp0 : List Nat)
    (hn : 1 ≤ rp0.length) (hn46 : rp0.length ≤ 2 ^ 46) (hup : Limbs up) (hlen : up.length = rp0.length)
    (hodd : up.headD 0 % 2 = 1) (hthr : 2 ≤ thr) (hdc : 6 ≤ dcThr)
    (hitch : binvItch (bnm1NextSize 128 19 tab19) rp0.length ≤ xp0.length) :
    mpnBinvert thr dcThr mthr pp1 (bnm1NextSize 128 19 tab19) jk up rp0 xp0 =
      (toLimbs rp0.length (binvert (val up) rp0.length), true) := by
  obtain ⟨h1, h2, h3, h4⟩ := mpn_binvert_correct_pinned thr dcThr mthr pp1 hpp1 jk up rp0 xp0 hn hn46 hup hlen hodd hthr
    hdc hitch
  have hs := binvert_spec (val up) rp0.length hn (by rw [val_mod_two]; exact hodd)
  have hlt := val_lt _ h2
  rw [h3] at hlt
  have hb : binvert (val up) rp0.length < B ^ rp0.length := by unfold binvert; exact binvertLoop_lt _ _ _ _ _
  have hv := inverse_unique _ _ _ _ hlt hb h4 hs
  exact Prod.ext (PowmL.eq_toLimbs _ _ _ h2 h3 hv) h1

/-- the `mip` of mpn_powm's memory model (`PowmL.mipOf`, REDC_N branch) IS the output of mpn_binvert's memory model -/
theorem mipOf_eq_mpn_binvert (rthr thr dcThr mthr : Nat) (pp1 : List Nat → List Nat → Nat → Nat → List Nat × Nat)
    (hpp1 : P1Spec pp1) (jk : Nat → Nat) (mp rp0 tp : List Nat)
    (hr : rthr ≤ mp.length) (hn : 1 ≤ mp.length) (hn46 : mp.length ≤ 2 ^ 46) (hmp : Limbs mp) (hlen : rp0.length = mp.length)
    (hodd : val mp % 2 = 1) (hthr : 2 ≤ thr) (hdc : 6 ≤ dcThr)
    (hitch : binvItch (bnm1NextSize 128 19 tab19) mp.length ≤ tp.length) :
    (mipOf rthr mp, true) = mpnBinvert thr dcThr mthr pp1 (bnm1NextSize 128 19 tab19) jk mp rp0 tp := by
  rw [mpn_binvert_value thr dcThr mthr pp1 hpp1 jk mp rp0 tp (by omega) (by omega) hmp hlen.symm
    (by rw [← val_mod_two]; exact hodd) hthr hdc (by rw [hlen]; exact hitch)]
  unfold mipOf
  rw [if_neg (by omega), hlen]

example : mpnBinvert 2 6 12 Fft.mulmod_2expp1_basecase (bnm1NextSize 128 19 tab19) (fun _ => 7) [3, 5, 9] [5, 5, 5]
    (List.replicate 238 9) = (toLimbs 3 (binvert (val [3, 5, 9]) 3), true) := by decide +kernel

/-! ## the Hensel divisions under the base case (Mpir/Model/BinvertBdiv.lean, value level) -/

/-- **mpn_dc_bdiv_qr_n** (dc_bdiv_qr_n.c:42-75, the recursion mirrored on values: low ⌊n/2⌋ quotient limbs, the
    `mpn_mul` correction with the carried borrow `mpn_incr_u`'d in, `mpn_sub` over n + ⌈n/2⌉ limbs, high ⌈n/2⌉ quotient limbs,
    second correction, `mpn_sub_n`, the two borrows added): for EVERY n ≥ 2, every `N < B^2n`, every odd `D < B^n`, every
    DC_BDIV_QR_THRESHOLD ≥ 2 (with 0 or 1 the C recursion reaches n = 1, whose low half is empty) and any base case meeting
    `SbSpec` (the contract of mpn_sb_bdiv_qr):  `Q < B^n`, the n remainder limbs `R < B^n`, the returned borrow is 0 or 1
    (the sum of the two borrows never reaches 2), `N + rh·B^2n = Q·D + R·B^n` exactly, hence `Q·D ≡ N (mod B^n)`. -/
theorem dc_bdiv_qr_n_spec (thr : Nat) (hthr : 2 ≤ thr) (sb : Nat → Nat → Nat → Nat × Nat × Nat) (hsb : SbSpec sb)
    (f N D n : Nat) (hn : 2 ≤ n) (hN : N < B ^ (2 * n)) (hD : D < B ^ n) (hodd : D % 2 = 1) :
    (dcBdivQrN thr sb f N D n).1 < B ^ n ∧ (dcBdivQrN thr sb f N D n).2.1 < B ^ n ∧ (dcBdivQrN thr sb f N D n).2.2 ≤ 1 ∧
    N + (dcBdivQrN thr sb f N D n).2.2 * B ^ (2 * n) =
      (dcBdivQrN thr sb f N D n).1 * D + (dcBdivQrN thr sb f N D n).2.1 * B ^ n ∧
    ((dcBdivQrN thr sb f N D n).1 * D) % B ^ n = N % B ^ n := by
  obtain ⟨h1, h2, h3, h4⟩ := dcBdivQrN_spec thr hthr sb hsb f N D n hn hN hD hodd
  refine ⟨h1, h2, h3, h4, ?_⟩
  have e : B ^ (2 * n) = B ^ n * B ^ n := by rw [← pow_add]; congr 1; omega
  have := congrArg (· % B ^ n) h4
  simp only [e, ← Nat.mul_assoc, Nat.add_mul_mod_self_right] at this
  exact this.symm

/-- **mpn_dc_bdiv_qr_n over the base case the driver runs** (`sbBdivQrVal`: the unique quotient, remainder limbs and
    borrow — shown to meet `SbSpec` by `sbSpec_val`, from `binvert_spec`): `dc_bdiv_qr_n_spec` without hypothesis on the
    base case, for every n ≥ 2, every DC_BDIV_QR_THRESHOLD ≥ 2, every recursion depth.  (What stays assumed is that the limb
    loop of mpn_sb_bdiv_qr returns that unique triple: tied by op `bi_dc_bdiv_qr_n` on sizes below the threshold.) -/
theorem dc_bdiv_qr_n_unconditional (thr : Nat) (hthr : 2 ≤ thr) (f N D n : Nat) (hn : 2 ≤ n) (hN : N < B ^ (2 * n))
    (hD : D < B ^ n) (hodd : D % 2 = 1) :
    (dcBdivQrN thr sbBdivQrVal f N D n).1 < B ^ n ∧ (dcBdivQrN thr sbBdivQrVal f N D n).2.1 < B ^ n ∧
    (dcBdivQrN thr sbBdivQrVal f N D n).2.2 ≤ 1 ∧
    N + (dcBdivQrN thr sbBdivQrVal f N D n).2.2 * B ^ (2 * n) =
      (dcBdivQrN thr sbBdivQrVal f N D n).1 * D + (dcBdivQrN thr sbBdivQrVal f N D n).2.1 * B ^ n ∧
    ((dcBdivQrN thr sbBdivQrVal f N D n).1 * D) % B ^ n = N % B ^ n :=
  dc_bdiv_qr_n_spec thr hthr sbBdivQrVal sbSpec_val f N D n hn hN hD hodd

example : dcBdivQrN 3 sbBdivQrVal 7 (B ^ 14 - 5) 3 7 = sbBdivQrVal (B ^ 14 - 5) 3 7 := by decide +kernel

/-- **mpn_dc_bdiv_q, PARTIAL**: what is proved of `dc_bdiv_q_spec` (Q·D ≡ N (mod B^nn) for mpn_dc_bdiv_q) is the block
    division it is built from for nn > dn, mpn_dc_bdiv_qr_n (`dc_bdiv_qr_n_spec`), with the contract `SbSpec` of
    mpn_sb_bdiv_qr as hypothesis.  MISSING for the full
    `dc_bdiv_q_spec` and for removing the contract from `mpn_binvert_correct` (whose base case calls mpn_dc_bdiv_q with
    nn = dn, i.e. goes straight to mpn_dc_bdiv_q_n): (1) mpn_dc_bdiv_q_n (dc_bdiv_q_n.c:34-90) — MPIR's version is not
    GMP's mullo recursion but a mulmid recursion (`mpn_mulmid_n (scratch, dp + 1, qp + (n & 1), t)`, an extra
    `mpn_addmul_1` row for odd n) that carries the two overflow limbs `wp[0..2)` of mpn_sb_bdiv_q through `ADDC_LIMB` /
    `MPN_INCR_U`; its invariant is about the truncated product Σ_{i+j<n} d_i·q_j·B^(i+j) = N + W·B^n, a statement on limb
    indices, not on values; (2) the block loop of mpn_dc_bdiv_q for nn > dn (dc_bdiv_q.c:57-95); (3) the limb loop of
    mpn_sb_bdiv_qr (contract `SbSpec`).  The run covers all three: op `bi_dc_bdiv_q` compares every limb of the real
    mpn_dc_bdiv_q with the unique quotient. -/
theorem dc_bdiv_q_spec_partial (thr : Nat) (hthr : 2 ≤ thr) (sb : Nat → Nat → Nat → Nat × Nat × Nat) (hsb : SbSpec sb)
    (N D n : Nat) (hn : 2 ≤ n) (hN : N < B ^ (2 * n)) (hD : D < B ^ n) (hodd : D % 2 = 1) :
    ((dcBdivQrN thr sb n N D n).1 * D) % B ^ n = N % B ^ n ∧ (dcBdivQrN thr sb n N D n).1 < B ^ n :=
  let h := dc_bdiv_qr_n_spec thr hthr sb hsb n N D n hn hN hD hodd
  ⟨h.2.2.2.2, h.1⟩

-- non-vacuity: n = 5 with threshold 2 (two levels of recursion, odd split), N = B^10 − 1 and N = 1 (borrow returned), D = B^5 − 1
example : dcBdivQrN 2 sbBdivQrVal 5 (B ^ 10 - 1) (B ^ 5 - 1) 5 = (1, B ^ 5 - 1, 0) ∧
    dcBdivQrN 2 sbBdivQrVal 5 1 (B ^ 5 - 1) 5 = (B ^ 5 - 1, 2, 1) := by decide +kernel

end Mpir.Binvert
