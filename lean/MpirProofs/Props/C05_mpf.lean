/-
  C05 (aliasing) — mpf, on the BIT-EXACT model Mpir/Model/Mpf.lean (limbs, size, exponent as the C).
  The model takes the pointer identities the C tests (`r != u`, `rp != up`: neg.c:31, abs.c:31, add.c:42-53,
  sub.c:42-52, add_ui.c:56-64, sub_ui.c, ui_sub.c) as Boolean parameters `rIsU`, `rIsV`.  The theorems say that those
  flags do not change the result — limb for limb, size and exponent — when the aliased operand has at most prec+1
  limbs, which is what `MPF_CHECK_FORMAT` guarantees for the variable that is ALSO the destination (its own precision
  is `prec`); the only way round it is a precision lowered by mpf_set_prec_raw, where the manual lets results differ.
  mpf_mul / div / sqrt / floor / ceil / trunc / mul_2exp / div_2exp / mul_ui / div_ui contain no pointer test: their
  models are functions of the operand VALUES only (same function for r = u, r = v, u = v), so alias independence at
  this level holds by construction and what remains — order of limb reads and writes inside the mpn calls — rests on
  the differential aliased-vs-distinct run.
-/
import Mpir.Model.Mpf
import Mathlib.Tactic.Linarith
namespace Mpir.Mpf
open Mpir

theorem top_all {l : List Nat} {n : Nat} (h : l.length ≤ n) : top n l = l := by
  unfold top; rw [Nat.sub_eq_zero_of_le h]; rfl

/-- an operand that fits the destination's precision is copied unchanged -/
theorem set_fit (prec : Nat) (u : F) (hu : OpWF u) (hlen : u.d.length ≤ prec + 1) : set prec u = { u with prec := prec } := by
  unfold set
  simp only [top_all hlen]
  have := hu.2.1
  cases u with
  | mk p sz e d =>
    simp only at this ⊢
    congr 1
    split <;> omega

/-- mpf_neg (neg.c): r = u gives the limbs, size and exponent of the distinct-variable call. -/
theorem mpf_neg_alias (prec : Nat) (u : F) (hu : OpWF u) (hlen : u.d.length ≤ prec + 1) :
    neg prec true u = neg prec false u := by
  unfold neg
  simp only [if_true, Bool.false_eq_true, if_false, top_all hlen]
  have := hu.2.1
  congr 1
  split <;> omega

example : neg 2 true ⟨2, -2, 5, [7, 9]⟩ = ⟨2, 2, 5, [7, 9]⟩ ∧ neg 2 false ⟨2, -2, 5, [7, 9]⟩ = ⟨2, 2, 5, [7, 9]⟩ := by decide
-- the hypothesis matters: an operand longer than the destination's precision (after mpf_set_prec_raw) is truncated
-- by the distinct-variable call and kept whole by the in-place one
example : neg 1 true ⟨1, 3, 5, [7, 9, 11]⟩ ≠ neg 1 false ⟨1, 3, 5, [7, 9, 11]⟩ := by decide

/-- mpf_abs (abs.c) -/
theorem mpf_abs_alias (prec : Nat) (u : F) (hu : OpWF u) (hlen : u.d.length ≤ prec + 1) :
    Mpf.abs prec true u = Mpf.abs prec false u := by
  unfold Mpf.abs
  simp only [if_true, Bool.false_eq_true, if_false, top_all hlen]
  have := hu.2.1
  congr 1
  omega

example : Mpf.abs 2 true ⟨2, -2, 5, [7, 9]⟩ = Mpf.abs 2 false ⟨2, -2, 5, [7, 9]⟩ := by decide

/-- mpf_add (add.c): r = u, r = v (and both: u = v = r) against distinct variables. -/
theorem mpf_add_alias (prec : Nat) (rIsU rIsV : Bool) (u v : F) (hu : OpWF u) (hv : OpWF v)
    (hau : rIsU = true → u.d.length ≤ prec + 1) (hav : rIsV = true → v.d.length ≤ prec + 1) :
    add prec rIsU rIsV u v = add prec false false u v := by
  unfold add
  cases rIsU <;> cases rIsV <;> simp only [if_true, Bool.false_eq_true, if_false]
  · rw [set_fit prec v hv (hav rfl)]
  · rw [set_fit prec u hu (hau rfl)]
  · rw [set_fit prec u hu (hau rfl), set_fit prec v hv (hav rfl)]

example : add 2 true false ⟨2, 1, 1, [5]⟩ ⟨2, 0, 0, []⟩ = add 2 false false ⟨2, 1, 1, [5]⟩ ⟨2, 0, 0, []⟩ := by decide
example : add 2 false true ⟨2, 0, 0, []⟩ ⟨2, -2, 3, [1, 2]⟩ = ⟨2, -2, 3, [1, 2]⟩ := by decide

/-- mpf_sub (sub.c) -/
theorem mpf_sub_alias (prec : Nat) (rIsU rIsV : Bool) (u v : F) (hu : OpWF u) (hv : OpWF v)
    (hau : rIsU = true → u.d.length ≤ prec + 1) (hav : rIsV = true → v.d.length ≤ prec + 1) :
    sub prec rIsU rIsV u v = sub prec false false u v := by
  unfold sub
  cases rIsU <;> cases rIsV <;> simp only [if_true, Bool.false_eq_true, if_false]
  · rw [mpf_neg_alias prec v hv (hav rfl)]
  · rw [set_fit prec u hu (hau rfl)]
  · rw [set_fit prec u hu (hau rfl), mpf_neg_alias prec v hv (hav rfl)]

example : sub 2 false true ⟨2, 0, 0, []⟩ ⟨2, -2, 3, [1, 2]⟩ = ⟨2, 2, 3, [1, 2]⟩ := by decide

/-- mpf_sub_ui (sub_ui.c), mpf_ui_sub (ui_sub.c): wrappers around mpf_sub / mpf_neg; `v`, `u` are limbs -/
theorem mpf_sub_ui_alias (prec : Nat) (u : F) (v : Nat) (hvB : v < B) (hu : OpWF u) (hlen : u.d.length ≤ prec + 1) :
    sub_ui prec true u v = sub_ui prec false u v := by
  unfold sub_ui
  split
  · rfl
  · rename_i hv0
    have hw : OpWF ⟨2, 1, 1, [v]⟩ :=
      ⟨fun x hx => by simp at hx; rw [hx]; exact hvB, rfl, by simpa using hv0, by simp⟩
    exact mpf_sub_alias prec true false u _ hu hw (fun _ => hlen) (fun h => by cases h)

theorem mpf_ui_sub_alias (prec : Nat) (u : Nat) (v : F) (huB : u < B) (hv : OpWF v) (hlen : v.d.length ≤ prec + 1) :
    ui_sub prec true u v = ui_sub prec false u v := by
  unfold ui_sub
  split
  · exact mpf_neg_alias prec v hv hlen
  · rename_i hu0
    have hw : OpWF ⟨2, 1, 1, [u]⟩ :=
      ⟨fun x hx => by simp at hx; rw [hx]; exact huB, rfl, by simpa using hu0, by simp⟩
    exact mpf_sub_alias prec false true _ v hw hv (fun h => by cases h) (fun _ => hlen)

example : sub_ui 2 true ⟨2, 2, 2, [3, 4]⟩ 9 = sub_ui 2 false ⟨2, 2, 2, [3, 4]⟩ 9 := by decide
example : ui_sub 2 true 9 ⟨2, 2, 2, [3, 4]⟩ = ui_sub 2 false 9 ⟨2, 2, 2, [3, 4]⟩ := by decide

/-- mpf_add_ui (add_ui.c:56-64 `if (sum != u)`) -/
theorem mpf_add_ui_alias (prec : Nat) (u : F) (v : Nat) (hu : OpWF u) (hlen : u.d.length ≤ prec + 1) :
    add_ui prec true u v = add_ui prec false u v := by
  unfold add_ui
  split
  · rfl
  · split
    · rfl
    · rename_i h0 hneg
      have hsz := hu.2.1
      have e : ({ u with prec := prec } : F) = ⟨prec, (top (prec + 1) u.d).length, u.exp, top (prec + 1) u.d⟩ := by
        rw [top_all hlen]
        cases u with
        | mk p sz ex d =>
          simp only at hsz h0 hneg ⊢
          congr 1
          omega
      simp only [if_true, Bool.false_eq_true, if_false, e]

example : add_ui 2 true ⟨2, 2, 2, [3, 4]⟩ 9 = add_ui 2 false ⟨2, 2, 2, [3, 4]⟩ 9 := by decide

end Mpir.Mpf
