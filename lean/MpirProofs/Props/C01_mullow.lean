/-
  C01 (mpn_mullow_n) — the value-level model of Mpir/Model/MulLow.lean (mirror of mpn/generic/mullow_n.c; run against the
  real function on every check with the thresholds of the tree, op mlx_mullow_n).  Property theorems only; lemmas in
  MpirProofs/Lemmas/MulLow.lean.

    splitAt_ok       the C's ASSERT (n / 2 <= m), ASSERT (m <= n) hold, and both recursive calls get a size in [1, n)
    mullow_n_val     the low n limbs of rp are x·y mod B^n: every n ≥ 1, all operand values, every threshold triple with
                     max(MULLOW_BASECASE_THRESHOLD, MULLOW_DC_THRESHOLD) ≥ 2
  Not covered here (run only, ops mpn_mulhigh_n / mpn_mulmid_n / mpn_mulmid of part c01_algo against their specifications):
  mpn_mulhigh_n (the error-bounded short product of mulhigh_n.c), mpn_mulmid, mpn_mulmid_n, mpn_toom42_mulmid.
-/
import MpirProofs.Lemmas.MulLow
import Mpir.Gen.Params
namespace Mpir.MulLow
open Mpir

/-- mullow_n.c:61-69: m = n·87/128, raised to ⌈n/2⌉ when 2m < n, capped at n.  For n ≥ 2: n ≤ 2m (the two cross products
    x_lo·y_hi, x_hi·y_lo of n − m limbs suffice; x_hi·y_hi lies beyond B^n), m < n and m ≥ 1, i.e. ASSERT (n / 2 <= m),
    ASSERT (m <= n) hold and the recursive calls have 1 ≤ n − m < n. -/
theorem splitAt_ok (n : Nat) (hn : 2 ≤ n) : n / 2 ≤ splitAt n ∧ n ≤ 2 * splitAt n ∧ splitAt n < n ∧ 1 ≤ n - splitAt n := by
  obtain ⟨a, b, c⟩ := splitAt_spec n hn
  exact ⟨by omega, a, b, by omega⟩

example : splitAt 14 = 9 ∧ splitAt 2 = 1 ∧ splitAt 3 = 2 ∧ splitAt 100 = 67 := by decide

/-- mpn_mullow_n (mullow_n.c:32-80): the value of the low n limbs of rp is x·y mod B^n — through mpn_mul_basecase below
    T0 = MULLOW_BASECASE_THRESHOLD, mpn_mullow_n_basecase below T1 = MULLOW_DC_THRESHOLD, mpn_mul_n above
    T2 = MULLOW_MUL_THRESHOLD, and otherwise the divide-and-conquer step (one full product of m limbs, two recursive low
    products of n − m limbs added into the window rp[m, n) with the carries dropped), for every n ≥ 1 and all x, y.
    Hypothesis on the thresholds: T0 ≥ 2 or T1 ≥ 2 — with both below 2 and T2 ≥ 1 the C itself would, for n = 1, choose
    m = 1 and call mpn_mullow_n with n − m = 0, violating its ASSERT (n > 0). -/
theorem mullow_n_val (T0 T1 T2 : Nat) (hT : 2 ≤ T0 ∨ 2 ≤ T1) (n : Nat) (hn : 1 ≤ n) (x y : Nat) :
    mullow_n T0 T1 T2 x y n = some (x * y % B ^ n) := mullow_n_eq T0 T1 T2 hT n hn x y

-- non-vacuity: the thresholds of the tree under check are admissible; a recursion of depth 2 at thresholds (0, 2, 100)
example : 2 ≤ Mpir.Gen.params.MULLOW_BASECASE_THRESHOLD.toNat ∨ 2 ≤ Mpir.Gen.params.MULLOW_DC_THRESHOLD.toNat := by decide
example : mullow_n 0 2 100 (B ^ 5 - 1) (B ^ 5 - 3) 5 = some ((B ^ 5 - 1) * (B ^ 5 - 3) % B ^ 5) :=
  mullow_n_val 0 2 100 (Or.inr (by decide)) 5 (by decide) _ _
example : mullow_n 0 2 100 (B ^ 5 - 1) (B ^ 5 - 3) 5 = some 3 := by decide +kernel
example : mullow_n 0 0 100 7 9 1 = none := by decide +kernel       -- thresholds below 2: the model leaves the domain, as the C does

end Mpir.MulLow
