/-
  C04, object-layer memory safety as theorems — third continuation (same statement shape `Safe` as C04_allocsafe{,2,3}.lean:
  `ok = true`, destination well formed, every other variable untouched, value-level view = the list-level result; plus the
  integer identity).  Property theorems only; helper lemmas live in MpirProofs/Lemmas/AllocSafeCfdiv2.lean (mpz/cfdiv_q_2exp.c),
  AllocSafeAorsmul.lean (mpz/aorsmul_i.c, aorsmul.c).

  Models: Mpir/Model/AllocSafeMpz3.lean (cfdiv_q_2exp), Mpir/Model/AllocSafeMpz4.lean (everything else here).
  Tied by ops `as3_cdiv_q_2exp`, `as3_fdiv_q_2exp` (part c04_allocsafe3) and `as4_*` (harness/ops_allocsafe4.c; ALLOC SIZ value
  compared exactly) and pins on every C file mirrored.
-/
import MpirProofs.Props.C04_allocsafe3
import MpirProofs.Lemmas.AllocSafeCfdiv2
namespace Mpir.AllocSafe
open Mpir

/-! ## mpz_cdiv_q_2exp / mpz_fdiv_q_2exp (mpz/cfdiv_q_2exp.c) -/

/-- mpz_cdiv_q_2exp (mpz/cfdiv_q_2exp.c with dir = 1), every allocation and both alias modes: `MPZ_REALLOC (w, wsize + 1)`
    ("+1 limb to allow for mpn_add_1 below") covers the shifted limbs and `wp[wsize] = cy` of the rounding step; the skipped low
    limbs `up[0, limb_cnt)` are inspected before anything is stored (w == u); `PTR(w)[0] = 1` of the `wsize <= 0` case needs
    no reallocation because a block never has zero limbs; the result is ⌈u / 2^cnt⌉ (`-⌊-u / 2^cnt⌋`). -/
theorem mpz_cdiv_q_2exp_alloc_safe (s : St) (w u : Nat) (cnt : Nat) (hs : s.ok = true)
    (hw : OWF (s.h w)) (hu : OWF (s.h u)) :
    Safe s (mpz_cdiv_q_2exp s w u cnt) w (Spec.cfdiv_q_2exp (view (s.h w)) (view (s.h u)) cnt 1) ∧
    Mpz.toInt (view ((mpz_cdiv_q_2exp s w u cnt).h w)) = -Int.fdiv (-Mpz.toInt (view (s.h u))) (2 ^ cnt) := by
  have R := cfdiv_q_2exp_refines s w u cnt 1 (by decide) hs hw hu
  have E := Spec.cfdiv_q_2exp_spec (view (s.h w)) (view (s.h u)) cnt 1 (Or.inr rfl) hw.2.1 hu.2
  refine ⟨R.safe E.1, ?_⟩
  show Mpz.toInt (view ((cfdiv_q_2exp 1 s w u cnt 1).h w)) = _
  rw [R.view, E.2]
  simp [DivZ.specQ, DivZ.cdivQ]

/-- mpz_fdiv_q_2exp (dir = -1): the same code, rounding away from zero for negative u; the result is ⌊u / 2^cnt⌋. -/
theorem mpz_fdiv_q_2exp_alloc_safe (s : St) (w u : Nat) (cnt : Nat) (hs : s.ok = true)
    (hw : OWF (s.h w)) (hu : OWF (s.h u)) :
    Safe s (mpz_fdiv_q_2exp s w u cnt) w (Spec.cfdiv_q_2exp (view (s.h w)) (view (s.h u)) cnt (-1)) ∧
    Mpz.toInt (view ((mpz_fdiv_q_2exp s w u cnt).h w)) = Int.fdiv (Mpz.toInt (view (s.h u))) (2 ^ cnt) := by
  have R := cfdiv_q_2exp_refines s w u cnt (-1) (by decide) hs hw hu
  have E := Spec.cfdiv_q_2exp_spec (view (s.h w)) (view (s.h u)) cnt (-1) (Or.inl rfl) hw.2.1 hu.2
  refine ⟨R.safe E.1, ?_⟩
  show Mpz.toInt (view ((cfdiv_q_2exp 1 s w u cnt (-1)).h w)) = _
  rw [R.view, E.2]
  simp [DivZ.specQ]

-- ⌈(B^2-1) / 2^64⌉ = B: the rounding carries into a new top limb (one-limb destination grown 1 → 2, and in place);
-- ⌊-(B^2) / 2^200⌋ = -1 without any reallocation; ⌈-(B^2-1) / 2^65⌉ = -(2^63 - 1) (no rounding for a negative ceiling)
example : (mpz_cdiv_q_2exp ex 0 1 64).ok = true ∧ Mpz.toInt (view ((mpz_cdiv_q_2exp ex 0 1 64).h 0)) = (B : Int) := by decide
example : (mpz_cdiv_q_2exp ex 1 1 64).ok = true ∧ view ((mpz_cdiv_q_2exp ex 1 1 64).h 1) = ⟨2, 2, [0, 1]⟩ := by decide
example : view ((mpz_fdiv_q_2exp ex3 0 1 200).h 0) = ⟨1, -1, [1]⟩ := by decide
example : view ((mpz_cdiv_q_2exp ⟨fun _ => ⟨-2, 0, ⟨2, [B - 1, B - 1]⟩⟩, true⟩ 0 1 65).h 0) = ⟨2, -1, [2 ^ 63 - 1]⟩ := by decide
-- negative: `MPZ_REALLOC (w, wsize)` without the "+1 limb to allow for mpn_add_1 below" — `wp[wsize] = cy` is outside the block
example : (cfdiv_q_2exp 0 ex 0 1 64 1).ok = false := by decide

end Mpir.AllocSafe
