/-
  C04, object-layer memory safety as theorems — third continuation (same statement shape `Safe` as C04_allocsafe{,2,3}.lean:
  `ok = true`, destination well formed, every other variable untouched, value-level view = the list-level result; plus the
  integer identity).  Property theorems only; helper lemmas live in MpirProofs/Lemmas/AllocSafeCfdiv2.lean (mpz/cfdiv_q_2exp.c),
  AllocSafeAorsmul.lean (mpz/aorsmul_i.c, aorsmul.c), AllocSafeMulC.lean (mpz/mul.c), AllocSafeTdiv.lean (mpz/tdiv_q.c, tdiv_r.c), AllocSafeMpf.lean (mpf/urandomb.c), AllocSafeSqrt.lean (mpz/sqrt.c), AllocSafeTdivQr.lean (mpz/tdiv_qr.c), AllocSafeSqrtrem.lean (mpz/sqrtrem.c), AllocSafeSetD.lean (mpz/set_d.c), AllocSafeMpqInv.lean (mpq/inv.c).

  Models: Mpir/Model/AllocSafeMpz3.lean (cfdiv_q_2exp), Mpir/Model/AllocSafeMpz4.lean (everything else here).
  Tied by ops `as3_cdiv_q_2exp`, `as3_fdiv_q_2exp` (part c04_allocsafe3) and `as4_*` (harness/ops_allocsafe4.c; ALLOC SIZ value
  compared exactly) and pins on every C file mirrored.
-/
import MpirProofs.Props.C04_allocsafe3
import MpirProofs.Lemmas.AllocSafeCfdiv2
import MpirProofs.Lemmas.AllocSafeAorsmul
import MpirProofs.Lemmas.AllocSafeMulC
import MpirProofs.Lemmas.AllocSafeTdiv
import MpirProofs.Lemmas.AllocSafeMpf
import MpirProofs.Lemmas.AllocSafeSqrt
import MpirProofs.Lemmas.AllocSafeTdivQr
import MpirProofs.Lemmas.AllocSafeSqrtrem
import MpirProofs.Lemmas.AllocSafeSetD
import MpirProofs.Lemmas.AllocSafeMpqInv
import MpirProofs.Props.C01_mpz
namespace Mpir.AllocSafe
open Mpir

/-! ## mpz_cdiv_q_2exp / mpz_fdiv_q_2exp (mpz/cfdiv_q_2exp.c) -/

/-- mpz_cdiv_q_2exp (mpz/cfdiv_q_2exp.c with dir = 1), every allocation and both alias modes: `MPZ_REALLOC (w, wsize + 1)`
    ("+1 limb to allow for mpn_add_1 below") covers the shifted limbs and `wp[wsize] = cy` of the rounding step; the skipped low
    limbs `up[0, limb_cnt)` are inspected before anything is stored (w == u); `PTR(w)[0] = 1` of the `wsize <= 0` case needs
    no reallocation because a block never has zero limbs; the result is ⌈u / 2^cnt⌉ (`-⌊-u / 2^cnt⌋`). -/
theorem mpz_cdiv_q_2exp_alloc_safe (s : St) (w u : Nat) (cnt : Nat) (hs : s.ok = true)
    (hw : OWF (s.h w)) (hu : OWF (s.h u)) :
    Safe s (mpz_cdiv_q_2exp s w u cnt) w (Spec.cfdiv_q_2exp (view (s.h w)) (view (s.h u)) cnt 1) ∧
    Mpz.toInt (view ((mpz_cdiv_q_2exp s w u cnt).h w)) = -Int.fdiv (-Mpz.toInt (view (s.h u))) (2 ^ cnt) := by
  have R := cfdiv_q_2exp_refines s w u cnt 1 (by decide) hs hw hu
  have E := Spec.cfdiv_q_2exp_spec (view (s.h w)) (view (s.h u)) cnt 1 (Or.inr rfl) hw.2.1 hu.2
  refine ⟨R.safe E.1, ?_⟩
  show Mpz.toInt (view ((cfdiv_q_2exp 1 s w u cnt 1).h w)) = _
  rw [R.view, E.2]
  simp [DivZ.specQ, DivZ.cdivQ]

/-- mpz_fdiv_q_2exp (dir = -1): the same code, rounding away from zero for negative u; the result is ⌊u / 2^cnt⌋. -/
theorem mpz_fdiv_q_2exp_alloc_safe (s : St) (w u : Nat) (cnt : Nat) (hs : s.ok = true)
    (hw : OWF (s.h w)) (hu : OWF (s.h u)) :
    Safe s (mpz_fdiv_q_2exp s w u cnt) w (Spec.cfdiv_q_2exp (view (s.h w)) (view (s.h u)) cnt (-1)) ∧
    Mpz.toInt (view ((mpz_fdiv_q_2exp s w u cnt).h w)) = Int.fdiv (Mpz.toInt (view (s.h u))) (2 ^ cnt) := by
  have R := cfdiv_q_2exp_refines s w u cnt (-1) (by decide) hs hw hu
  have E := Spec.cfdiv_q_2exp_spec (view (s.h w)) (view (s.h u)) cnt (-1) (Or.inl rfl) hw.2.1 hu.2
  refine ⟨R.safe E.1, ?_⟩
  show Mpz.toInt (view ((cfdiv_q_2exp 1 s w u cnt (-1)).h w)) = _
  rw [R.view, E.2]
  simp [DivZ.specQ]

-- ⌈(B^2-1) / 2^64⌉ = B: the rounding carries into a new top limb (one-limb destination grown 1 → 2, and in place);
-- ⌊-(B^2) / 2^200⌋ = -1 without any reallocation; ⌈-(B^2-1) / 2^65⌉ = -(2^63 - 1) (no rounding for a negative ceiling)
example : (mpz_cdiv_q_2exp ex 0 1 64).ok = true ∧ Mpz.toInt (view ((mpz_cdiv_q_2exp ex 0 1 64).h 0)) = (B : Int) := by decide
example : (mpz_cdiv_q_2exp ex 1 1 64).ok = true ∧ view ((mpz_cdiv_q_2exp ex 1 1 64).h 1) = ⟨2, 2, [0, 1]⟩ := by decide
example : view ((mpz_fdiv_q_2exp ex3 0 1 200).h 0) = ⟨1, -1, [1]⟩ := by decide
example : view ((mpz_cdiv_q_2exp ⟨fun _ => ⟨-2, 0, ⟨2, [B - 1, B - 1]⟩⟩, true⟩ 0 1 65).h 0) = ⟨2, -1, [2 ^ 63 - 1]⟩ := by decide
-- negative: `MPZ_REALLOC (w, wsize)` without the "+1 limb to allow for mpn_add_1 below" — `wp[wsize] = cy` is outside the block
example : (cfdiv_q_2exp 0 ex 0 1 64 1).ok = false := by decide

/-! ## mpz_addmul_ui / mpz_submul_ui (mpz/aorsmul_i.c), mpz_addmul / mpz_submul (mpz/aorsmul.c) -/

/-- heap for the accumulate examples: 0 = 5 (one limb), 1 = 3 (one limb), 2 = B^2 - 1, 3 = B^3 - 1, 4 = 1 (exact blocks) -/
def ex4 : St := ⟨fun i => if i = 0 then ⟨1, 0, ⟨1, [5]⟩⟩ else if i = 1 then ⟨1, 0, ⟨1, [3]⟩⟩
                  else if i = 2 then ⟨2, 0, ⟨2, [B - 1, B - 1]⟩⟩ else if i = 3 then ⟨3, 0, ⟨3, [B - 1, B - 1, B - 1]⟩⟩
                  else ⟨1, 0, ⟨1, [1]⟩⟩, true⟩

/-- mpz_addmul_ui (mpz/aorsmul_i.c: mpz_aorsmul_1 with sub = 0), every sign combination, allocation and both alias modes
    (w == x included): `MPZ_REALLOC (w, new_wsize+1)` with `new_wsize = MAX (wsize, xsize)` covers, in the addmul of
    magnitudes, `wp[dsize] = cy` after mpn_addmul_1 + (mpn_mul_1 of x's high limbs | mpn_add_1 through w's high limbs); in the
    submul of magnitudes with w at least as long, the extra limb `wp[new_wsize] = ~-cy` of the borrow-out path, the
    two's-complement negate over `new_wsize + 1` limbs (mpn_not + MPN_INCR_U stop inside them); with x longer, MPN_MUL_1C on
    `wp + wsize`, `wp[new_wsize] = cy`, the held `-1` applied by MPN_DECR_U inside `new_wsize - wsize` limbs; MPN_NORMALIZE reads
    only what was written; x's high limbs are read after w's low limbs were overwritten only when x is another variable.
    Result: `w + x*y` exactly. -/
theorem mpz_addmul_ui_alloc_safe (s : St) (w x : Nat) (y : Nat) (hs : s.ok = true)
    (hw : OWF (s.h w)) (hx : OWF (s.h x)) (hy : y < B) :
    Safe s (mpz_addmul_ui s w x y) w (Mpz.addmul_ui (view (s.h w)) (view (s.h x)) y) ∧
    Mpz.toInt (view ((mpz_addmul_ui s w x y).h w)) = Mpz.toInt (view (s.h w)) + Mpz.toInt (view (s.h x)) * (y : Int) := by
  have R := aorsmul_1_refines s w x y false hs hw hx hy
  have E := Mpz.mpz_addmul_ui_exact (view (s.h w)) (view (s.h x)) y hw.2 hx.2 hy
  refine ⟨R.safe E.2, ?_⟩
  show Mpz.toInt (view ((aorsmul_1 1 s w x y false).h w)) = _
  rw [R.view]; exact E.1

/-- mpz_submul_ui (mpz_aorsmul_1 with sub = -1): `w - x*y` exactly, same paths with the roles of the signs exchanged. -/
theorem mpz_submul_ui_alloc_safe (s : St) (w x : Nat) (y : Nat) (hs : s.ok = true)
    (hw : OWF (s.h w)) (hx : OWF (s.h x)) (hy : y < B) :
    Safe s (mpz_submul_ui s w x y) w (Mpz.submul_ui (view (s.h w)) (view (s.h x)) y) ∧
    Mpz.toInt (view ((mpz_submul_ui s w x y).h w)) = Mpz.toInt (view (s.h w)) - Mpz.toInt (view (s.h x)) * (y : Int) := by
  have R := aorsmul_1_refines s w x y true hs hw hx hy
  have E := Mpz.mpz_submul_ui_exact (view (s.h w)) (view (s.h x)) y hw.2 hx.2 hy
  refine ⟨R.safe E.2, ?_⟩
  show Mpz.toInt (view ((aorsmul_1 1 s w x y true).h w)) = _
  rw [R.view]; exact E.1

-- (B^2-1) += (B^2-1)*(B-1) in place (w == x): = (B^2-1)*B, block grown 2 → 3, the carry limb of mpn_addmul_1 stored at index 2
example : (mpz_addmul_ui ex4 2 2 (B - 1)).ok = true ∧ view ((mpz_addmul_ui ex4 2 2 (B - 1)).h 2) = ⟨3, 3, [0, B - 1, B - 1]⟩ := by
  decide
-- 5 -= 3*2: borrow out of w, `wp[1] = ~-cy`, two's-complement negate, sign flipped: -1 in a block grown 1 → 2
example : (mpz_submul_ui ex4 0 1 2).ok = true ∧ view ((mpz_submul_ui ex4 0 1 2).h 0) = ⟨2, -1, [1]⟩ := by decide
-- 5 -= (B^2-1)*(B-1): x longer than w, submul on one limb, complement, MPN_MUL_1C on the two high limbs, `wp[2] = cy`
example : (mpz_submul_ui ex4 0 2 (B - 1)).ok = true ∧
    Mpz.toInt (view ((mpz_submul_ui ex4 0 2 (B - 1)).h 0)) = 5 - ((B : Int) ^ 2 - 1) * (B - 1) := by decide
-- 5 += (B^2-1)*1: x longer than w, mpn_mul_1 of the high limb plus the carry of the low part
example : (mpz_addmul_ui ex4 0 2 1).ok = true ∧ view ((mpz_addmul_ui ex4 0 2 1).h 0) = ⟨3, 3, [4, 0, 1]⟩ := by decide
-- negative: `MPZ_REALLOC (w, new_wsize)` without the `+1` — the carry store / `wp[new_wsize] = ~-cy` is outside the block
example : (aorsmul_1 0 ex4 2 2 (B - 1) false).ok = false := by decide
example : (aorsmul_1 0 ex4 0 1 2 true).ok = false := by decide

/-- mpz_addmul (mpz/aorsmul.c), every sign combination, allocation and alias pattern (w == x, w == y, x == y, all one): the
    one-limb shortcut reads `PTR(y)[0]` and enters mpz_aorsmul_1; otherwise `MPZ_REALLOC (w, MAX (wsize, tsize) + 1)` with
    `tsize = xsize + ysize` covers the product written straight to `wp` when w = 0 (then w is neither x nor y), and, the product
    formed in temporary space, the sum of the longer and the shorter magnitude with the carry stored unconditionally at
    `wp[wsize]`, resp. the difference and MPN_NORMALIZE over what was written.  Result: `w + x*y` exactly. -/
theorem mpz_addmul_alloc_safe (s : St) (w x y : Nat) (hs : s.ok = true)
    (hw : OWF (s.h w)) (hx : OWF (s.h x)) (hy : OWF (s.h y)) :
    Safe s (mpz_addmul s w x y) w (Mpz.addmul (view (s.h w)) (view (s.h x)) (view (s.h y))) ∧
    Mpz.toInt (view ((mpz_addmul s w x y).h w)) =
      Mpz.toInt (view (s.h w)) + Mpz.toInt (view (s.h x)) * Mpz.toInt (view (s.h y)) := by
  have R := aorsmul_refines s w x y false hs hw hx hy
  have E := Mpz.mpz_addmul_exact (view (s.h w)) (view (s.h x)) (view (s.h y)) hw.2 hx.2 hy.2
  refine ⟨R.safe E.2, ?_⟩
  show Mpz.toInt (view ((aorsmul (fun a b => max a b + 1) true s w x y false).h w)) = _
  rw [R.view]; exact E.1

/-- mpz_submul (mpz/aorsmul.c with sub = -1): `w - x*y` exactly. -/
theorem mpz_submul_alloc_safe (s : St) (w x y : Nat) (hs : s.ok = true)
    (hw : OWF (s.h w)) (hx : OWF (s.h x)) (hy : OWF (s.h y)) :
    Safe s (mpz_submul s w x y) w (Mpz.submul (view (s.h w)) (view (s.h x)) (view (s.h y))) ∧
    Mpz.toInt (view ((mpz_submul s w x y).h w)) =
      Mpz.toInt (view (s.h w)) - Mpz.toInt (view (s.h x)) * Mpz.toInt (view (s.h y)) := by
  have R := aorsmul_refines s w x y true hs hw hx hy
  have E := Mpz.mpz_submul_exact (view (s.h w)) (view (s.h x)) (view (s.h y)) hw.2 hx.2 hy.2
  refine ⟨R.safe E.2, ?_⟩
  show Mpz.toInt (view ((aorsmul (fun a b => max a b + 1) true s w x y true).h w)) = _
  rw [R.view]; exact E.1

-- all ones: (B^3-1) += (B^2-1)*(B^2-1) = B^4 + B^3 - 2B^2: w one limb shorter than the product, the carry limb goes to wp[4]
-- of a block grown 3 → 5
example : (mpz_addmul ex4 3 2 2).ok = true ∧ view ((mpz_addmul ex4 3 2 2).h 3) = ⟨5, 5, [0, 0, B - 2, 0, 1]⟩ := by decide
-- in place on an operand: (B^2-1) -= (B^2-1)*(B^2-1) (w == x == y), the product in temporary space, sign flips
example : (mpz_submul ex4 2 2 2).ok = true ∧
    Mpz.toInt (view ((mpz_submul ex4 2 2 2).h 2)) = ((B : Int) ^ 2 - 1) - ((B : Int) ^ 2 - 1) * ((B : Int) ^ 2 - 1) := by decide
-- the one-limb shortcut: 5 += (B^2-1)*3 and, operands swapped, 5 += 3*(B^2-1)
example : (mpz_addmul ex4 0 2 1).ok = true ∧ view ((mpz_addmul ex4 0 2 1).h 0) = view ((mpz_addmul ex4 0 1 2).h 0) := by decide
-- negative (the seeded bug of the brief): `MPZ_REALLOC (w, MAX (wsize + 1, tsize))` and the carry stored only when non-zero —
-- on the all-ones operands above the carry limb `wp[4]` is one past the block of 4 limbs …
example : (aorsmul (fun a b => max (a + 1) b) false ex4 3 2 2 false).ok = false := by decide
-- … and goes unnoticed whenever no carry comes out (5 += (B^2-1)*(B^2-1))
example : (aorsmul (fun a b => max (a + 1) b) false ex4 0 2 2 false).ok = true := by decide

/-! ## mpz_mul (mpz/mul.c) -/

/-- mpz_mul (mpz/mul.c), for every threshold, sign, allocation and alias pattern (w == u, w == v, u == v, all one variable):
    * one-limb v: `MPZ_REALLOC (w, usize+1)` covers `wp[usize] = cy_limb`; `PTR(v)[0]` and `PTR(u)` are read after the
      reallocation (w may be u or v);
    * basecase shortcut (w neither operand): `MPZ_REALLOC (w, usize + vsize)`, `wp[wsize - 1]` inside what was written;
    * generic path: when the block is too small a FRESH block of exactly `usize + vsize` limbs is installed whose contents
      are not copied — the operands are read from the old block, which is kept (`free_me`) exactly when w is u or v, and
      from their own blocks otherwise; when the block is large enough an operand that is w is copied to temporary space
      first (v kept identical to u when all three coincide); `mpn_sqr` + `wp[2*usize-1]` resp. `mpn_mul`.
    The allocation left is `wsize` if the block was smaller, else unchanged; the product is exact. -/
theorem mpz_mul_alloc_safe (thr : Nat) (s : St) (w u v : Nat) (hs : s.ok = true)
    (hw : OWF (s.h w)) (hu : OWF (s.h u)) (hv : OWF (s.h v)) :
    Safe s (mul thr true 1 s w u v) w (Mpz.mul thr ⟨w == u, w == v, u == v⟩ (view (s.h w)) (view (s.h u)) (view (s.h v))) ∧
    Mpz.toInt (view ((mul thr true 1 s w u v).h w)) = Mpz.toInt (view (s.h u)) * Mpz.toInt (view (s.h v)) := by
  have R := mul_refines thr s w u v hs hw hu hv
  have E := Mpz.mpz_mul_exact thr ⟨w == u, w == v, u == v⟩ (view (s.h w)) (view (s.h u)) (view (s.h v)) hw.2.1 hu.2 hv.2
    (by intro h; have : u = v := by simpa using h
        rw [this])
  refine ⟨R.safe E.2, ?_⟩
  rw [R.view]; exact E.1

-- (B^2-1)^2 in place through one variable (w == u == v), exact block of 2: fresh block of 4, operands read from the kept old block
example : (mpz_mul ex4 2 2 2).ok = true ∧ view ((mpz_mul ex4 2 2 2).h 2) = ⟨4, 4, [1, 0, B - 2, B - 1]⟩ := by decide
-- (B^3-1)*(B^2-1) into the 2-limb variable that is also v (free_me), and into a distinct one-limb destination (freed at once)
example : (mpz_mul ex4 2 3 2).ok = true ∧ (mpz_mul ex4 2 3 2).ALLOC 2 = 5 ∧
    Mpz.toInt (view ((mpz_mul ex4 2 3 2).h 2)) = ((B : Int) ^ 3 - 1) * ((B : Int) ^ 2 - 1) := by decide
example : (mpz_mul ex4 0 3 2).ok = true ∧ (mpz_mul ex4 0 3 2).ALLOC 0 = 5 := by decide
-- B * B in a block with room (w == u == v, alloc 4): temporary copy, squaring, top limb zero
example : view ((mpz_mul ⟨fun _ => ⟨2, 0, ⟨4, [0, 1, junk, junk]⟩⟩, true⟩ 0 0 0).h 0) = ⟨4, 3, [0, 0, 1]⟩ := by decide
-- (B^2-1) * 3 in place (one-limb v): block grown 2 → 3
example : (mpz_mul ex4 2 2 1).ok = true ∧ view ((mpz_mul ex4 2 2 1).h 2) = ⟨3, 3, [B - 3, B - 1, 2]⟩ := by decide
-- negative: the old block freed at once although w is an operand (no `free_me`): the operands are read through dangling pointers
example : (mul 17 false 1 ex4 2 2 2).ok = false := by decide
example : (mul 17 false 1 ex4 2 3 2).ok = false := by decide
-- … harmless when w is neither operand; negative: `MPZ_REALLOC (w, usize)` in the one-limb path
example : (mul 17 false 1 ex4 0 3 2).ok = true := by decide
example : (mul 17 true 0 ex4 2 2 1).ok = false := by decide

/-! ## mpz_tdiv_q (mpz/tdiv_q.c), mpz_tdiv_r (mpz/tdiv_r.c)
    (the rest of the division family: pointer-level theorems of part c05_ptr, Props/C05_mpz.lean) -/

/-- mpz_tdiv_q (mpz/tdiv_q.c), den ≠ 0 (the C raises DIVIDE_BY_ZERO otherwise), every allocation and alias pattern
    (quot == num, quot == den, num == den, all one): `MPZ_REALLOC (quot, ql)` with `ql = nl - dl + 1` is exactly the number of
    limbs mpn_tdiv_q stores (SUFFICIENT); an operand that is quot is copied to temporary space after the reallocation, from the
    block that then holds it; `qp[ql - 1]` is inside what was written; nothing is requested when `ql <= 0`.  The quotient is
    truncated towards zero. -/
theorem mpz_tdiv_q_alloc_safe (s : St) (q n d : Nat) (hs : s.ok = true)
    (hq : OWF (s.h q)) (hn : OWF (s.h n)) (hd : OWF (s.h d)) (hd0 : (s.h d).size ≠ 0) :
    ∃ s', mpz_tdiv_q s q n d = some s' ∧
      Safe s s' q (Spec.tdiv_q (view (s.h q)) (view (s.h n)) (view (s.h d))) ∧
      Mpz.toInt (view (s'.h q)) = Int.tdiv (Mpz.toInt (view (s.h n))) (Mpz.toInt (view (s.h d))) := by
  obtain ⟨s', e, R⟩ := tdiv_q_refines s q n d hs hq hn hd hd0
  have E := Spec.tdiv_q_spec (view (s.h q)) (view (s.h n)) (view (s.h d)) hq.2.1 hn.2 hd.2 hd0
  exact ⟨s', e, R.safe E.1, by rw [R.view]; exact E.2⟩

/-- … and NECESSARY: the same function requesting `ql - 1` limbs clears `ok` (the quotient store leaves the block) in every
    state in which quot's block has fewer than `ql` limbs, quot is neither operand and the numerator is at least as long
    as the denominator. -/
theorem mpz_tdiv_q_request_necessary (s : St) (q n d : Nat) (hs : s.ok = true) (hq : OWF (s.h q))
    (hd0 : (s.h d).size ≠ 0) (hnq : n ≠ q) (hdq : d ≠ q) (hge : (s.h d).size.natAbs ≤ (s.h n).size.natAbs)
    (hsmall : (s.h q).buf.alloc < (s.h n).size.natAbs - (s.h d).size.natAbs + 1) :
    ∃ s', tdiv_q 1 s q n d = some s' ∧ s'.ok = false :=
  tdiv_q_request_necessary s q n d hs hq hd0 hnq hdq hge hsmall

/-- heap for the division examples: 0 = 5 (one limb), 1 = B^3 - 1, 2 = B + 1, 3 = 0 (exact blocks) -/
def ex5 : St := ⟨fun i => if i = 0 then ⟨1, 0, ⟨1, [5]⟩⟩ else if i = 1 then ⟨3, 0, ⟨3, [B - 1, B - 1, B - 1]⟩⟩
                  else if i = 2 then ⟨2, 0, ⟨2, [1, 1]⟩⟩ else ⟨0, 0, ⟨1, [junk]⟩⟩, true⟩

-- (B^3-1) / (B+1) = B^2 - B (two limbs) into the one-limb variable, in place on the numerator and on the denominator
example : (mpz_tdiv_q ex5 0 1 2).map (fun s => (s.ok, view (s.h 0))) = some (true, ⟨2, 2, [0, B - 1]⟩) := by decide
example : (mpz_tdiv_q ex5 1 1 2).map (fun s => (s.ok, view (s.h 1))) = some (true, ⟨3, 2, [0, B - 1]⟩) := by decide
example : (mpz_tdiv_q ex5 2 1 2).map (fun s => (s.ok, view (s.h 2))) = some (true, ⟨2, 2, [0, B - 1]⟩) := by decide
-- 5 / (B+1) = 0 without any reallocation; x / 0: DIVIDE_BY_ZERO
example : (mpz_tdiv_q ex5 0 0 2).map (fun s => view (s.h 0)) = some ⟨1, 0, []⟩ ∧ mpz_tdiv_q ex5 0 1 3 = none := by decide
-- negative: `MPZ_REALLOC (quot, ql - 1)`
example : (tdiv_q 1 ex5 0 1 2).map (fun s => s.ok) = some false := by decide

/-- mpz_tdiv_r (mpz/tdiv_r.c), den ≠ 0: `MPZ_REALLOC (rem, dl)` is exactly the `dl` remainder limbs mpn_tdiv_qr stores (and
    covers the `nl < dl` copy of the numerator when `ql <= 0`); the quotient goes to `ql` limbs of temporary space; an operand
    that is rem is copied to temporary space first; MPN_NORMALIZE reads what was written.  The remainder has the sign of the
    numerator (`Int.tmod`). -/
theorem mpz_tdiv_r_alloc_safe (s : St) (r n d : Nat) (hs : s.ok = true)
    (hr : OWF (s.h r)) (hn : OWF (s.h n)) (hd : OWF (s.h d)) (hd0 : (s.h d).size ≠ 0) :
    ∃ s', mpz_tdiv_r s r n d = some s' ∧
      Safe s s' r (Spec.tdiv_r (n == r) (view (s.h r)) (view (s.h n)) (view (s.h d))) ∧
      Mpz.toInt (view (s'.h r)) = Int.tmod (Mpz.toInt (view (s.h n))) (Mpz.toInt (view (s.h d))) := by
  obtain ⟨s', e, R⟩ := tdiv_r_refines s r n d hs hr hn hd hd0
  have E := Spec.tdiv_r_spec (n == r) (view (s.h r)) (view (s.h n)) (view (s.h d)) hr.2 hn.2 hd.2 hd0
    (by intro h; have : n = r := by simpa using h
        rw [this])
  exact ⟨s', e, R.safe E.1, by rw [R.view]; exact E.2⟩

/-- … and NECESSARY for mpz_tdiv_r too: requesting `dl - 1` limbs clears `ok` (mpn_tdiv_qr's `dl` remainder limbs leave the block)
    in every state in which rem's block has fewer than `dl` limbs, rem is neither operand and `nl ≥ dl`. -/
theorem mpz_tdiv_r_request_necessary (s : St) (r n d : Nat) (hr : OWF (s.h r)) (hd0 : (s.h d).size ≠ 0)
    (hnr : n ≠ r) (hdr : d ≠ r) (hge : (s.h d).size.natAbs ≤ (s.h n).size.natAbs)
    (hsmall : (s.h r).buf.alloc < (s.h d).size.natAbs) :
    ∃ s', tdiv_r 1 s r n d = some s' ∧ s'.ok = false :=
  tdiv_r_request_necessary s r n d hr hd0 hnr hdr hge hsmall

-- (B^3-1) mod (B+1) = B - 1 into the one-limb variable (block grown to dl = 2), in place on the numerator and the denominator
example : (mpz_tdiv_r ex5 0 1 2).map (fun s => (s.ok, view (s.h 0))) = some (true, ⟨2, 1, [B - 1]⟩) := by decide
example : (mpz_tdiv_r ex5 1 1 2).map (fun s => (s.ok, view (s.h 1))) = some (true, ⟨3, 1, [B - 1]⟩) := by decide
example : (mpz_tdiv_r ex5 2 1 2).map (fun s => (s.ok, view (s.h 2))) = some (true, ⟨2, 1, [B - 1]⟩) := by decide
-- 5 mod (B+1) = 5: the numerator is copied (`ql <= 0`), the block still grows to dl limbs
example : (mpz_tdiv_r ex5 3 0 2).map (fun s => (s.ok, view (s.h 3))) = some (true, ⟨2, 1, [5]⟩) := by decide
-- negative: `MPZ_REALLOC (rem, dl - 1)` — mpn_tdiv_qr's dl remainder limbs do not fit
example : (tdiv_r 1 ex5 0 1 2).map (fun s => s.ok) = some false := by decide

/-! ## mpf_urandomb (mpf/urandomb.c): a destination of PREC + 1 limbs that is never reallocated -/

/-- mpf_urandomb, for every destination (block of `PREC + 1` limbs, as mpf_init2 makes it), generator state and bit count:
    `nlimbs = BITS_TO_LIMBS (nbits)` is clamped to `PREC + 1`, so the `nlimbs` limbs `_gmp_rand` stores, the in-place
    mpn_lshift and the strip loop stay inside the block; SIZ, EXP and the limbs are those of C19's value-level model
    (`Rand.mpfUrandomb`), the generator is left in the same state, the block is not touched beyond `PREC + 1` limbs. -/
theorem mpf_urandomb_dest_safe (s : FSt) (g : Rand.Gen) (nbits : Nat) (hs : s.ok = true) (hw : FWF s) :
    (mpf_urandomb 0 s g nbits).1.ok = true ∧
    (mpf_urandomb 0 s g nbits).1.out = (s.o.prec + 1, (Rand.mpfUrandomb g s.o.prec nbits).1) ∧
    (mpf_urandomb 0 s g nbits).2 = (Rand.mpfUrandomb g s.o.prec nbits).2 ∧
    FWF (mpf_urandomb 0 s g nbits).1 :=
  mpf_urandomb_alloc_safe s g nbits hs hw

/-- negative (the seeded bug of the brief), for ALL destinations and generators: with `prec = PREC (rop) + 1` any request of
    more than `64 (PREC + 1)` bits stores `PREC + 2` limbs. -/
theorem mpf_urandomb_seeded_overruns (s : FSt) (g : Rand.Gen) (nbits : Nat) (hw : FWF s)
    (hn : 64 * (s.o.prec + 1) < nbits) : (mpf_urandomb 1 s g nbits).1.ok = false :=
  mpf_urandomb_prec_plus_one_overruns s g nbits hw hn

-- a destination of mpf_init2 (f, 64) (PREC = 2, three limbs), the default generator, 200 bits requested
example : (mpf_urandomb 0 (mkF 2) (.mt Rand.mtDefault) 200).1.ok = true :=
  (mpf_urandomb_dest_safe _ _ _ rfl ⟨by simp [mkF, Buf.new], rfl⟩).1
example : (mpf_urandomb 1 (mkF 2) (.mt Rand.mtDefault) 200).1.ok = false :=
  mpf_urandomb_seeded_overruns _ _ _ ⟨by simp [mkF, Buf.new], rfl⟩ (by decide)

/-! ## mpz_tdiv_qr (mpz/tdiv_qr.c): two destinations -/

/-- mpz_tdiv_qr (mpz/tdiv_qr.c), den ≠ 0, quot and rem different variables (the manual), every allocation and every other alias
    pattern (quot or rem may be num or den, num may be den): `MPZ_REALLOC (rem, dl)` and `MPZ_REALLOC (quot, ql)` are exactly the
    limbs mpn_tdiv_qr stores; the operand pointers are fetched after both reallocations; an operand that is one of the outputs is
    copied to temporary space; `qp[ql - 1]` and MPN_NORMALIZE (rp, dl) read what was written — the quotient limb after the
    remainder has been stored into the other block; `SIZ (quot) = 0` follows the copy to rem when `ql <= 0`.  Both outputs are
    well formed, no other variable is touched, `quot = tdiv (num, den)`, `rem = tmod (num, den)`. -/
theorem mpz_tdiv_qr_alloc_safe (s : St) (q r n d : Nat) (hs : s.ok = true)
    (hq : OWF (s.h q)) (hr : OWF (s.h r)) (hn : OWF (s.h n)) (hd : OWF (s.h d)) (hd0 : (s.h d).size ≠ 0) (hqr : q ≠ r) :
    ∃ s', mpz_tdiv_qr s q r n d = some s' ∧ s'.ok = true ∧ OWF (s'.h q) ∧ OWF (s'.h r) ∧
      (∀ x, x ≠ q → x ≠ r → s'.h x = s.h x) ∧
      view (s'.h q) = Spec.tdiv_q (view (s.h q)) (view (s.h n)) (view (s.h d)) ∧
      view (s'.h r) = Spec.tdiv_r (n == r) (view (s.h r)) (view (s.h n)) (view (s.h d)) ∧
      Mpz.toInt (view (s'.h q)) = Int.tdiv (Mpz.toInt (view (s.h n))) (Mpz.toInt (view (s.h d))) ∧
      Mpz.toInt (view (s'.h r)) = Int.tmod (Mpz.toInt (view (s.h n))) (Mpz.toInt (view (s.h d))) := by
  obtain ⟨s', e, S⟩ := tdiv_qr_refines s q r n d hs hq hr hn hd hd0 hqr
  have Eq := Spec.tdiv_q_spec (view (s.h q)) (view (s.h n)) (view (s.h d)) hq.2.1 hn.2 hd.2 hd0
  have Er := Spec.tdiv_r_spec (n == r) (view (s.h r)) (view (s.h n)) (view (s.h d)) hr.2 hn.2 hd.2 hd0
    (by intro h; have : n = r := by simpa using h
        rw [this])
  exact ⟨s', e, S.ok, ⟨S.bq, by rw [S.vq]; exact Eq.1⟩, ⟨S.br, by rw [S.vr]; exact Er.1⟩, S.frame, S.vq, S.vr,
    by rw [S.vq]; exact Eq.2, by rw [S.vr]; exact Er.2⟩

-- (B^3-1) = (B^2 - B)(B+1) + (B - 1): quotient into the one-limb variable 0, remainder in place on the denominator (variable 2);
-- and quotient in place on the numerator, remainder into variable 0
example : (mpz_tdiv_qr ex5 0 2 1 2).map (fun s => (s.ok, view (s.h 0), view (s.h 2))) =
    some (true, ⟨2, 2, [0, B - 1]⟩, ⟨2, 1, [B - 1]⟩) := by decide
example : (mpz_tdiv_qr ex5 1 0 1 2).map (fun s => (s.ok, view (s.h 1), view (s.h 0))) =
    some (true, ⟨3, 2, [0, B - 1]⟩, ⟨2, 1, [B - 1]⟩) := by decide
-- negative: `MPZ_REALLOC (quot, ql - 1)`, `MPZ_REALLOC (rem, dl - 1)`
example : (tdiv_qr 1 0 ex5 0 3 1 2).map (fun s => s.ok) = some false := by decide
example : (tdiv_qr 0 1 ex5 3 0 1 2).map (fun s => s.ok) = some false := by decide

/-! ## mpz_sqrt (mpz/sqrt.c) -/

/-- mpz_sqrt (mpz/sqrt.c), op ≥ 0 (the C raises SQRT_OF_NEGATIVE otherwise), every allocation, root == op included: the root
    gets a FRESH block of exactly `(op_size + 1) / 2` limbs when its block is smaller (contents not copied: then root is not
    op), op is copied to temporary space when it is root; `(op_size + 1) / 2` is exactly what mpn_sqrtrem stores and exactly
    the size of ⌊√op⌋ ("The size of the root is accurate after this simple calculation").  Stated for both values of `retain`:
    the `free_me` arm cannot be reached. -/
theorem mpz_sqrt_alloc_safe (retain : Bool) (s : St) (root op : Nat) (hs : s.ok = true)
    (hr : OWF (s.h root)) (ho : OWF (s.h op)) (hpos : 0 ≤ (s.h op).size) :
    ∃ s', sqrt_ retain s root op = some s' ∧
      Safe s s' root (Spec.sqrt (view (s.h root)) (view (s.h op))) ∧
      Mpz.toInt (view (s'.h root)) = ((Nat.sqrt (Mpz.toInt (view (s.h op))).toNat : Nat) : Int) := by
  obtain ⟨s', e, R⟩ := sqrt_refines retain s root op hs hr ho hpos
  have E := Spec.sqrt_spec (view (s.h root)) (view (s.h op)) hr.2.1 ho.2 hpos
  exact ⟨s', e, R.safe E.1, by rw [R.view]; exact E.2⟩

/-- necessary-or-harmless: the `free_me` bookkeeping of sqrt.c:53-57, 85-86 is dead code — a variable that is both root and op
    already owns `op_size ≥ (op_size + 1) / 2` limbs. -/
theorem mpz_sqrt_free_me_dead (s : St) (root op : Nat) (ho : OWF (s.h op)) :
    sqrt_ false s root op = sqrt_ true s root op := sqrt_free_me_dead s root op ho

-- √(B^3 - 1) = B·2^32 - 1 … (two limbs) into the one-limb variable (fresh block of 2), and in place (temporary copy, block kept)
example : (mpz_sqrt ex5 0 1).map (fun s => (s.ok, (s.ALLOC 0, (s.h 0).size))) = some (true, (2, 2)) := by decide
example : (mpz_sqrt ex5 1 1).map (fun s => (s.ok, (s.ALLOC 1, (s.h 1).size))) = some (true, (3, 2)) := by decide
example : mpz_sqrt ⟨fun _ => ⟨-1, 0, ⟨1, [4]⟩⟩, true⟩ 0 1 = none := by decide
-- negative: a root block of one limb less — mpn_sqrtrem's store leaves it
example : (sqrtTail (freshBlock ex5 0 1) 0 (.ptr (ex5.PTR 1)) 3 2).ok = false := by decide

/-! ## mpz_sqrtrem (mpz/sqrtrem.c): two destinations -/

/-- mpz_sqrtrem (mpz/sqrtrem.c), op ≥ 0, root and rem different variables, either may be op: `_mpz_realloc (rem, op_size)` gives
    mpn_sqrtrem the `op_size` limbs it works in (op's pointer is fetched AFTER it: rem may be op and move); the root block as in
    mpz_sqrt (fresh block of `(op_size + 1) / 2` limbs, or op copied to temporary space when it is root); both sizes are stored
    after the call.  Both outputs well formed, nothing else touched, `root = ⌊√op⌋`, `rem = op - root²`. -/
theorem mpz_sqrtrem_alloc_safe (s : St) (root rem op : Nat) (hs : s.ok = true)
    (hq : OWF (s.h root)) (hr : OWF (s.h rem)) (ho : OWF (s.h op)) (hpos : 0 ≤ (s.h op).size) (hne : root ≠ rem) :
    ∃ s', mpz_sqrtrem s root rem op = some s' ∧ s'.ok = true ∧ OWF (s'.h root) ∧ OWF (s'.h rem) ∧
      (∀ x, x ≠ root → x ≠ rem → s'.h x = s.h x) ∧
      view (s'.h root) = Spec.sqrt (view (s.h root)) (view (s.h op)) ∧
      view (s'.h rem) = Spec.sqrtrem_rem (view (s.h rem)) (view (s.h op)) ∧
      Mpz.toInt (view (s'.h root)) = ((Nat.sqrt (Mpz.toInt (view (s.h op))).toNat : Nat) : Int) ∧
      Mpz.toInt (view (s'.h rem)) = (((Mpz.toInt (view (s.h op))).toNat -
        Nat.sqrt (Mpz.toInt (view (s.h op))).toNat * Nat.sqrt (Mpz.toInt (view (s.h op))).toNat : Nat) : Int) := by
  obtain ⟨s', e, S⟩ := sqrtrem_refines s root rem op hs hq hr ho hpos hne
  have Eq := Spec.sqrt_spec (view (s.h root)) (view (s.h op)) hq.2.1 ho.2 hpos
  have Er := Spec.sqrtrem_rem_spec (view (s.h rem)) (view (s.h op)) hr.2.1 ho.2 hpos
  exact ⟨s', e, S.ok, ⟨S.bq, by rw [S.vq]; exact Eq.1⟩, ⟨S.br, by rw [S.vr]; exact Er.1⟩, S.frame, S.vq, S.vr,
    by rw [S.vq]; exact Eq.2, by rw [S.vr]; exact Er.2⟩

-- B^3 - 1: root into the one-limb variable 0 (fresh block of 2), remainder in place on op (variable 1)
example : (mpz_sqrtrem ex5 0 1 1).map (fun s => (s.ok, s.ALLOC 0, (s.h 0).size, s.ALLOC 1)) = some (true, 2, 2, 3) := by decide
-- root in place on op (temporary copy), remainder into the one-limb variable 0 (grown to op_size = 3 limbs)
example : (mpz_sqrtrem ex5 1 0 1).map (fun s => (s.ok, s.ALLOC 1, (s.h 1).size, s.ALLOC 0)) = some (true, 3, 2, 3) := by decide
-- negative: `_mpz_realloc (rem, op_size - 1)`
example : (sqrtrem 1 ex5 3 0 1).map (fun s => s.ok) = some false := by decide

/-! ## mpz_set_d (mpz/set_d.c) -/

/-- mpz_set_d (mpz/set_d.c), d finite (the C raises the invalid-operation exception for NaN and ±∞), every allocation:
    `_mpz_realloc (r, rn)` with `rn` the limb count __gmp_extract_double returns covers the zero fill of `rn - 2` limbs and the two
    limbs of the double above it (one limb when rn = 1, nothing when |d| < 1: no reallocation for `rn <= 0`); the limbs and the
    size are those of C11's value-level model `Conv.mpz_set_d`, i.e. d truncated towards zero. -/
theorem mpz_set_d_alloc_safe (s : St) (r : Nat) (d : Nat) (hs : s.ok = true) (hr : OWF (s.h r)) (hfin : Conv.expOf d ≠ 2047) :
    ∃ s' z, mpz_set_d s r d = some s' ∧ Conv.mpz_set_d d = some z ∧
      Safe s s' r ⟨(Mpz.grow (view (s.h r)) (Conv.extract_double (Conv.absBits d)).2.2.toNat).alloc, z.size, z.d⟩ ∧
      Mpz.toInt (view (s'.h r)) = (if Conv.sigOf d = 1 then -1 else 1) * ((Conv.dblNum d / 2 ^ 1074 : Nat) : Int) := by
  obtain ⟨s', z, e1, e2, R, hz⟩ := set_d_refines s r d hs hr (finite_of_exp d hfin) (extract_double_limbs d hfin)
  obtain ⟨z', e3, wf, tv⟩ := (Conv.set_d_spec d).2 hfin
  rw [e2] at e3
  cases e3
  rw [← hz] at R
  obtain ⟨ga1, ga2⟩ := Mpz.grow_alloc (view (s.h r)) (Conv.extract_double (Conv.absBits d)).2.2.toNat
  have hnat : z.size.natAbs = (Conv.extract_double (Conv.absBits d)).2.2.toNat := by rw [hz, Mpz.natAbs_sgn]
  have hWF : Mpz.WF ⟨(Mpz.grow (view (s.h r)) (Conv.extract_double (Conv.absBits d)).2.2.toNat).alloc, z.size, z.d⟩ := by
    have h1 : 1 ≤ (view (s.h r)).alloc := hr.2.1
    refine (Mpz.WF_iff _).mpr ⟨by show 1 ≤ (Mpz.grow (view (s.h r)) (Conv.extract_double (Conv.absBits d)).2.2.toNat).alloc; omega,
      by show z.size.natAbs ≤ (Mpz.grow (view (s.h r)) (Conv.extract_double (Conv.absBits d)).2.2.toNat).alloc; omega,
      wf.1, wf.2.1, ?_⟩
    by_cases hd : z.d = []
    · rw [hd]; simp
    · exact wf.2.2 hd
  refine ⟨s', z, e1, e2, R.safe hWF, ?_⟩
  rw [R.view, ← tv]; rfl

-- 2^64 (bits 0x43F0…) into a one-limb variable: block grown to rn = 2 limbs; -1.5 → -1; 2^-1022·… (|d| < 1) → 0 without realloc
example : (mpz_set_d ex5 0 0x43F0000000000000).map (fun s => (s.ok, view (s.h 0))) = some (true, ⟨2, 2, [0, 1]⟩) := by decide
example : (mpz_set_d ex5 1 0xBFF8000000000000).map (fun s => (s.ok, view (s.h 1))) = some (true, ⟨3, -1, [1]⟩) := by decide
example : (mpz_set_d ex5 0 0x000FFFFFFFFFFFFF).map (fun s => (s.ok, view (s.h 0))) = some (true, ⟨1, 0, []⟩) := by decide
example : mpz_set_d ex5 0 0x7FF8000000000000 = none := by decide
-- 2^200: zero fill of two limbs below the two limbs of the double
example : (mpz_set_d ex5 0 0x4C70000000000000).map (fun s => (s.ok, view (s.h 0))) = some (true, ⟨4, 4, [0, 0, 0, 256]⟩) := by decide
-- negative: `_mpz_realloc (r, rn - 1)`
example : (set_d 1 ex5 0 0x43F0000000000000).map (fun s => s.ok) = some false := by decide

/-! ## mpq_inv (mpq/inv.c): an mpq_t is its two mpz_t fields -/

theorem WF_resize {a : Nat} {z : Int} {m : Mpz.Mpz} (hm : Mpz.WF m) (hz : z.natAbs = m.size.natAbs) (ha : m.size.natAbs ≤ a)
    (h1 : 1 ≤ a) : Mpz.WF ⟨a, z, m.d⟩ := by
  obtain ⟨_, _, hl, hN⟩ := (Mpz.WF_iff m).mp hm
  exact (Mpz.WF_iff _).mpr ⟨h1, by show z.natAbs ≤ a; omega, by show m.d.length = z.natAbs; omega, hN⟩

/-- mpq_inv (mpq/inv.c), numerator ≠ 0 (the C raises DIVIDE_BY_ZERO otherwise), dest = (dn, dd), src = (sn, sd) either the same
    variable or two variables with four distinct fields: in place the two blocks are exchanged and only the size fields are
    rewritten; otherwise `_mpz_realloc (num (dest), |den_size|)` and `_mpz_realloc (den (dest), num_size)` — issued AFTER the new
    sizes have been stored in both fields, which `_mpz_realloc` tolerates because the new block is at least that large — cover
    the two MPN_COPYs.  Both fields are well formed afterwards, no other variable is touched, the new numerator holds the limbs
    of the old denominator with the sign of the old numerator, the new denominator the limbs of the old numerator. -/
theorem mpq_inv_alloc_safe (s : St) (dn dd sn sd : Nat) (hs : s.ok = true)
    (hdn : OWF (s.h dn)) (hdd : OWF (s.h dd)) (hsn : OWF (s.h sn)) (hsd : OWF (s.h sd)) (hn0 : (s.h sn).size ≠ 0)
    (hfields : dn ≠ dd)
    (hal : (dn = sn ∧ dd = sd) ∨ (dn ≠ sn ∧ dn ≠ sd ∧ dd ≠ sn ∧ dd ≠ sd)) :
    ∃ s', mpq_inv s dn dd sn sd = some s' ∧ s'.ok = true ∧ OWF (s'.h dn) ∧ OWF (s'.h dd) ∧
      (∀ x, x ≠ dn → x ≠ dd → s'.h x = s.h x) ∧
      (view (s'.h dn)).size = invNum (s.h sn).size (s.h sd).size ∧ (view (s'.h dn)).d = (view (s.h sd)).d ∧
      (view (s'.h dd)).size = invDen (s.h sn).size ∧ (view (s'.h dd)).d = (view (s.h sn)).d := by
  have hfn := view_fit hsn
  have hfd := view_fit hsd
  rcases hal with ⟨e1, e2⟩ | ⟨h2, h3, h4, h5⟩
  · subst e1 e2
    obtain ⟨s', e, S⟩ := mpq_inv_inplace s dn dd hs hdn hdd hn0 hfields
    refine ⟨s', e, S.ok, ⟨S.bq, ?_⟩, ⟨S.br, ?_⟩, S.frame, by rw [S.vq], by rw [S.vq], by rw [S.vr], by rw [S.vr]⟩
    · rw [S.vq]; exact WF_resize hdd.2 (natAbs_invNum _ _) hfd hdd.2.1
    · rw [S.vr]; exact WF_resize hdn.2 (natAbs_invDen _) hfn hdn.2.1
  · obtain ⟨s', e, S⟩ := mpq_inv_distinct s dn dd sn sd hs hdn hdd hsn hsd hn0 hfields h2 h3 h4 h5
    obtain ⟨g1, g2⟩ := Mpz.grow_alloc (view (s.h dn)) (s.h sd).size.natAbs
    obtain ⟨g3, g4⟩ := Mpz.grow_alloc (view (s.h dd)) (s.h sn).size.natAbs
    have a1 : 1 ≤ (view (s.h dn)).alloc := hdn.2.1
    have a2 : 1 ≤ (view (s.h dd)).alloc := hdd.2.1
    refine ⟨s', e, S.ok, ⟨S.bq, ?_⟩, ⟨S.br, ?_⟩, S.frame, by rw [S.vq], by rw [S.vq], by rw [S.vr], by rw [S.vr]⟩
    · rw [S.vq]; exact WF_resize hsd.2 (natAbs_invNum _ _) g1 (by omega)
    · rw [S.vr]; exact WF_resize hsn.2 (natAbs_invDen _) g3 (by omega)

/-- heap for the mpq examples: dest = (0, 1) = 5/3 in one-limb blocks, src = (2, 3) = -(B^2-1)/(B^3-1) in exact blocks -/
def exq : St := ⟨fun i => if i = 0 then ⟨1, 0, ⟨1, [5]⟩⟩ else if i = 1 then ⟨1, 0, ⟨1, [3]⟩⟩
                  else if i = 2 then ⟨-2, 0, ⟨2, [B - 1, B - 1]⟩⟩ else ⟨3, 0, ⟨3, [B - 1, B - 1, B - 1]⟩⟩, true⟩

-- into another variable: both fields grow (1 → 3 and 1 → 2 limbs), the sign moves to the numerator
example : (mpq_inv exq 0 1 2 3).map (fun s => (s.ok, view (s.h 0), view (s.h 1))) =
    some (true, ⟨3, -3, [B - 1, B - 1, B - 1]⟩, ⟨2, 2, [B - 1, B - 1]⟩) := by decide
-- in place: the blocks are exchanged (allocations 2 and 3 swap)
example : (mpq_inv exq 2 3 2 3).map (fun s => (s.ok, view (s.h 2), view (s.h 3))) =
    some (true, ⟨3, -3, [B - 1, B - 1, B - 1]⟩, ⟨2, 2, [B - 1, B - 1]⟩) := by decide

end Mpir.AllocSafe
