/-
  C08 (and C01): mpn_mulmod_2expm1 / mpn_mulmod_bnm1 — property theorems only; helper lemmas in
  MpirProofs/Lemmas/Mulmod2expm1*.lean.  Model: Mpir/Model/Mulmod2expm1.lean (mulmod_2expm1.c statement by
  statement on limb lists), run against the rebuilt library by the exact ops of Mpir/Ops/Mulmod2expm1.lean.
-/
import MpirProofs.Lemmas.Mulmod2expm1f
import MpirProofs.Props.C01_fftring
namespace Mpir.Mm1
open Mpir Mpir.Fft

/-- the model of mpn_mulmod_2expp1_basecase (non-FFT branch) meets the contract `P1Spec` -/
theorem p1spec_basecase : P1Spec Fft.mulmod_2expp1_basecase :=
  fun yp zp c b hb hy hz hly hlz hyb hzb => mulmod_2expp1_basecase_val yp zp c b hb hy hz hly hlz hyb hzb

/-- **mpn_mulmod_2expm1_basecase** (mulmod_2expm1.c:37-100), both the whole-limb path (k == 0) and the masked,
    shifted path: for `b ≥ 1` and n-limb operands below `2^b` (the C's ASSERTs), no carry leaves `MPN_INCR_U`,
    `ASSERT (c == 0)` holds, the result has n limbs, is below `2^b`, is `≡ y·z (mod 2^b − 1)`, and is 0 only
    when `y·z = 0` — a non-zero multiple of `2^b − 1` comes back as `2^b − 1` ("only 0 has two representations"). -/
theorem basecase_val (yp zp : List Nat) (b : Nat) (hb : 1 ≤ b) (hy : Limbs yp) (hz : Limbs zp)
    (hly : yp.length = (b + 63) / 64) (hlz : zp.length = (b + 63) / 64)
    (hyb : val yp < 2 ^ b) (hzb : val zp < 2 ^ b) :
    (basecase yp zp b).2 = true ∧ (basecase yp zp b).1.length = (b + 63) / 64 ∧ Limbs (basecase yp zp b).1 ∧
    val (basecase yp zp b).1 < 2 ^ b ∧
    val (basecase yp zp b).1 % (2 ^ b - 1) = (val yp * val zp) % (2 ^ b - 1) ∧
    (val (basecase yp zp b).1 = 0 ↔ val yp * val zp = 0) :=
  basecase_spec yp zp b hb hy hz hly hlz hyb hzb

-- non-vacuity: b = 100 (k = 28): (2^100 − 1)·(2^100 − 1) ≡ 0 comes back as 2^100 − 1; 3·5 = 15; 0·x = 0
example : basecase [B - 1, 2 ^ 36 - 1] [B - 1, 2 ^ 36 - 1] 100 = ([B - 1, 2 ^ 36 - 1], true) ∧
    basecase [3, 0] [5, 0] 100 = ([15, 0], true) ∧ basecase [0, 0] [77, 5] 100 = ([0, 0], true) ∧
    basecase [B - 1, B - 1] [2, 0] 128 = ([B - 1, B - 1], true) := by decide +kernel

/-- **mpn_mulmod_2expm1** (mulmod_2expm1.c:114-291): for EVERY `b ≥ 1`, every threshold, all n-limb inputs below
    `2^b` (the C's ASSERTs) and every +1 half `pp1` meeting the contract of mpn_mulmod_2expp1_basecase
    (`P1Spec`; `p1spec_basecase` for the model of its non-FFT branch):
    * no carry is lost in any `MPN_INCR_U` at any level of the recursion and `ASSERT (c == 0)` holds;
    * the result has `n = ⌈b/64⌉` limbs and lies in `[0, 2^b − 1]`;
    * it is `≡ y·z (mod 2^b − 1)` — through the split into the residues modulo `2^h − 1` and `2^h + 1` on both
      the k == 0 and k != 0 paths, the special-value flags `c1·2 + c2`, the recursion on `S`, the recombination
      with its carry/borrow folding and the final halving;
    * representative rule: the limbs are 0 exactly when `y·z = 0`; a non-zero product that is a multiple of
      `2^b − 1` (in particular an operand `2^b − 1`) is returned as `2^b − 1`, all ones. -/
theorem mulmod_2expm1_val (thr : Nat) (pp1 : List Nat → List Nat → Nat → Nat → List Nat × Nat) (hpp1 : P1Spec pp1)
    (yp zp : List Nat) (b : Nat) (hb : 1 ≤ b) (hy : Limbs yp) (hz : Limbs zp)
    (hly : yp.length = (b + 63) / 64) (hlz : zp.length = (b + 63) / 64)
    (hyb : val yp < 2 ^ b) (hzb : val zp < 2 ^ b) :
    (mm1 thr pp1 yp zp b).2 = true ∧ (mm1 thr pp1 yp zp b).1.length = (b + 63) / 64 ∧ Limbs (mm1 thr pp1 yp zp b).1 ∧
    val (mm1 thr pp1 yp zp b).1 ≤ 2 ^ b - 1 ∧
    val (mm1 thr pp1 yp zp b).1 % (2 ^ b - 1) = (val yp * val zp) % (2 ^ b - 1) ∧
    (val (mm1 thr pp1 yp zp b).1 = 0 ↔ val yp * val zp = 0) ∧
    ((val yp * val zp) % (2 ^ b - 1) = 0 → val yp * val zp ≠ 0 → val (mm1 thr pp1 yp zp b).1 = 2 ^ b - 1) := by
  obtain ⟨h1, h2, h3, h4, h5, h6⟩ := mm1F_spec thr pp1 hpp1 b b yp zp (le_refl _) hb hy hz hly hlz hyb hzb
  have h2b := two_le_two_pow b hb
  refine ⟨h1, h2, h3, by unfold mm1; omega, h5, h6, ?_⟩
  intro hm hne
  unfold mm1
  rw [← h5] at hm
  have hx0 : val (mm1F thr pp1 b yp zp b).1 ≠ 0 := fun h => hne (h6.mp h)
  generalize val (mm1F thr pp1 b yp zp b).1 = x at *
  obtain ⟨q, hq⟩ := Nat.dvd_of_mod_eq_zero hm
  have hq1 : q = 1 := by
    rcases Nat.lt_or_ge q 2 with h | h
    · have : q ≠ 0 := by rintro rfl; omega
      omega
    · have : (2 ^ b - 1) * 2 ≤ (2 ^ b - 1) * q := Nat.mul_le_mul_left _ h
      omega
  rw [hq, hq1, Nat.mul_one]

-- non-vacuity, recursive path (thr = 1 forces the CRT split at every even b): b = 128 (k = 0 at the top, h = 64),
-- b = 100 (h = 50: k = 14, n = 2m), b = 40 (h = 20, n = 2m − 1 = 1): operand halves ≡ −1 (upper = lower + 1) set the
-- flags; the class of 0 comes back as all ones; 0 as 0
example : mm1 1 Fft.mulmod_2expp1_basecase [5, 6] [7, 8] 128 = ([83, 82], true) ∧
    mm1 1 Fft.mulmod_2expp1_basecase [5, 6] [B - 1, B - 1] 128 = ([B - 1, B - 1], true) ∧
    mm1 1 Fft.mulmod_2expp1_basecase [0, 0] [7, 8] 128 = ([0, 0], true) ∧
    val (mm1 1 Fft.mulmod_2expp1_basecase [2 ^ 50 * 4 + 3, 0] [2 ^ 50 * 8 + 7, 0] 100).1 % (2 ^ 100 - 1) =
      ((2 ^ 50 * 4 + 3) * (2 ^ 50 * 8 + 7)) % (2 ^ 100 - 1) ∧
    val (mm1 1 Fft.mulmod_2expp1_basecase [2 ^ 20 * 4 + 3] [2 ^ 20 * 8 + 7] 40).1 % (2 ^ 40 - 1) =
      ((2 ^ 20 * 4 + 3) * (2 ^ 20 * 8 + 7)) % (2 ^ 40 - 1) := by decide +kernel

/-- **mpn_mulmod_bnm1** (mulmod_2expm1.c:296-338) for `0 < bn ≤ an ≤ rn` (its ASSERTs): `min (rn, an + bn)`
    limbs; for `an + bn ≥ rn` a residue of `a·b` modulo `B^rn − 1` in `[0, B^rn − 1]`, zero exactly for the product
    zero — precisely the hypothesis that `redc_n_limb_spec` had about the call in mpn_redc_n; for
    `an + bn < rn` the exact product. -/
theorem mpn_mulmod_bnm1_val (thr : Nat) (pp1 : List Nat → List Nat → Nat → Nat → List Nat × Nat) (hpp1 : P1Spec pp1)
    (rn : Nat) (ap bp : List Nat) (ha : Limbs ap) (hb : Limbs bp)
    (hbn : 0 < bp.length) (hab : bp.length ≤ ap.length) (han : ap.length ≤ rn) :
    (bnm1 thr pp1 rn ap bp).2 = true ∧ Limbs (bnm1 thr pp1 rn ap bp).1 ∧
    (bnm1 thr pp1 rn ap bp).1.length = min rn (ap.length + bp.length) ∧
    val (bnm1 thr pp1 rn ap bp).1 % (B ^ rn - 1) = (val ap * val bp) % (B ^ rn - 1) ∧
    (val (bnm1 thr pp1 rn ap bp).1 = 0 ↔ val ap * val bp = 0) ∧
    (ap.length + bp.length < rn → val (bnm1 thr pp1 rn ap bp).1 = val ap * val bp) := by
  have hrn : 1 ≤ rn := by omega
  have hsz : (rn * 64 + 63) / 64 = rn := by omega
  have hpad : ∀ (l : List Nat), Limbs l → l.length ≤ rn →
      Limbs (if l.length < rn then l ++ List.replicate (rn - l.length) 0 else l) ∧
      (if l.length < rn then l ++ List.replicate (rn - l.length) 0 else l).length = rn ∧
      val (if l.length < rn then l ++ List.replicate (rn - l.length) 0 else l) = val l := by
    intro l hl hln
    by_cases h : l.length < rn
    · rw [if_pos h]
      refine ⟨Limbs_append.mpr ⟨hl, Limbs_replicate_zero _⟩, by simp; omega, ?_⟩
      rw [val_append, val_replicate_zero]; simp
    · rw [if_neg h]; exact ⟨hl, by omega, rfl⟩
  obtain ⟨pa1, pa2, pa3⟩ := hpad ap ha han
  obtain ⟨pb1, pb2, pb3⟩ := hpad bp hb (by omega)
  have hBr : 2 ^ (rn * 64) = B ^ rn := by rw [B_pow_two', Nat.mul_comm]
  have hav := val_lt ap ha
  have hbv := val_lt bp hb
  have hle : ∀ j, j ≤ rn → B ^ j ≤ B ^ rn := fun j hj => Nat.pow_le_pow_right B_pos hj
  obtain ⟨h1, h2, h3, h4, h5, h6, _⟩ := mulmod_2expm1_val thr pp1 hpp1 _ _ (rn * 64) (by omega) pa1 pb1
    (by rw [hsz]; exact pa2) (by rw [hsz]; exact pb2)
    (by rw [pa3, hBr]; exact lt_of_lt_of_le hav (hle _ han))
    (by rw [pb3, hBr]; exact lt_of_lt_of_le hbv (hle _ (by omega)))
  rw [hsz] at h2
  rw [pa3, pb3, hBr] at h5
  rw [pa3, pb3] at h6
  rw [hBr] at h4
  unfold bnm1
  simp only
  generalize mm1 thr pp1 (if ap.length < rn then ap ++ List.replicate (rn - ap.length) 0 else ap)
    (if bp.length < rn then bp ++ List.replicate (rn - bp.length) 0 else bp) (rn * 64) = r at *
  by_cases hs : ap.length + bp.length < rn
  · rw [if_pos hs]
    -- the residue is the product itself
    have hP : val ap * val bp < B ^ (ap.length + bp.length) := by rw [pow_add]; exact Nat.mul_lt_mul'' hav hbv
    have hP1 : B ^ (ap.length + bp.length) * B ≤ B ^ rn := by
      rw [← pow_succ]; exact hle _ (by omega)
    have hBg : 2 ≤ B := by rw [B_eq]; norm_num
    have hPlt : val ap * val bp < B ^ rn - 1 := by
      have : B ^ (ap.length + bp.length) * 2 ≤ B ^ (ap.length + bp.length) * B := Nat.mul_le_mul_left _ hBg
      have : 0 < B ^ (ap.length + bp.length) := Bpow_pos _
      omega
    have hre : val r.1 = val ap * val bp := by
      rw [Nat.mod_eq_of_lt hPlt] at h5
      rcases Nat.lt_or_ge (val r.1) (B ^ rn - 1) with hlt | hge
      · rw [Nat.mod_eq_of_lt hlt] at h5; exact h5
      · have : val r.1 = B ^ rn - 1 := by omega
        rw [this, Nat.mod_self] at h5
        have := h6.mpr h5.symm
        omega
    have htk : val (r.1.take (ap.length + bp.length)) = val ap * val bp := by
      rw [(val_take_mod r.1 h3 _ (by omega)).1, hre, Nat.mod_eq_of_lt hP]
    refine ⟨h1, Limbs_take h3 _, by rw [List.length_take, h2]; omega, by rw [htk], by rw [htk], fun _ => htk⟩
  · rw [if_neg hs]
    exact ⟨h1, h3, by rw [h2]; omega, h5, h6, fun h => absurd h hs⟩

-- non-vacuity: rn = 3 with an + bn = 4 ≥ rn (wrapped) and an + bn = 2 < rn (exact product, 2 limbs)
example : bnm1 12 Fft.mulmod_2expp1_basecase 3 [0, 0, 1] [0, 5] = ([5, 0, 0], true) ∧
    bnm1 12 Fft.mulmod_2expp1_basecase 3 [B - 1] [B - 1] = ([1, B - 2], true) := by decide +kernel

end Mpir.Mm1
