/-
  C08 (and C01): mpn_mulmod_2expm1 / mpn_mulmod_bnm1 — property theorems only; helper lemmas in
  MpirProofs/Lemmas/Mulmod2expm1*.lean.  Model: Mpir/Model/Mulmod2expm1.lean (mulmod_2expm1.c statement by
  statement on limb lists), run against the rebuilt library by the exact ops of Mpir/Ops/Mulmod2expm1.lean.
-/
import MpirProofs.Lemmas.Mulmod2expm1f
import MpirProofs.Props.C01_fftring
import MpirProofs.Props.C08_limb
import MpirProofs.Lemmas.PowmReal
import MpirProofs.Lemmas.NextSize
import MpirProofs.Lemmas.PowmCrtMem
import MpirProofs.Props.C08
import Mpir.Ops.Hgcd
namespace Mpir.Mm1
open Mpir Mpir.Fft

/-- the model of mpn_mulmod_2expp1_basecase (non-FFT branch) meets the contract `P1Spec` -/
theorem p1spec_basecase : P1Spec Fft.mulmod_2expp1_basecase :=
  fun yp zp c b hb hy hz hly hlz hyb hzb => mulmod_2expp1_basecase_val yp zp c b hb hy hz hly hlz hyb hzb

/-- **mpn_mulmod_2expm1_basecase** (mulmod_2expm1.c:37-100), both the whole-limb path (k == 0) and the masked,
    shifted path: for `b ≥ 1` and n-limb operands below `2^b` (the C's ASSERTs), no carry leaves `MPN_INCR_U`,
    `ASSERT (c == 0)` holds, the result has n limbs, is below `2^b`, is `≡ y·z (mod 2^b − 1)`, and is 0 only
    when `y·z = 0` — a non-zero multiple of `2^b − 1` comes back as `2^b − 1` ("only 0 has two representations"). -/
theorem basecase_val (yp zp : List Nat) (b : Nat) (hb : 1 ≤ b) (hy : Limbs yp) (hz : Limbs zp)
    (hly : yp.length = (b + 63) / 64) (hlz : zp.length = (b + 63) / 64)
    (hyb : val yp < 2 ^ b) (hzb : val zp < 2 ^ b) :
    (basecase yp zp b).2 = true ∧ (basecase yp zp b).1.length = (b + 63) / 64 ∧ Limbs (basecase yp zp b).1 ∧
    val (basecase yp zp b).1 < 2 ^ b ∧
    val (basecase yp zp b).1 % (2 ^ b - 1) = (val yp * val zp) % (2 ^ b - 1) ∧
    (val (basecase yp zp b).1 = 0 ↔ val yp * val zp = 0) :=
  basecase_spec yp zp b hb hy hz hly hlz hyb hzb

-- non-vacuity: b = 100 (k = 28): (2^100 − 1)·(2^100 − 1) ≡ 0 comes back as 2^100 − 1; 3·5 = 15; 0·x = 0
example : basecase [B - 1, 2 ^ 36 - 1] [B - 1, 2 ^ 36 - 1] 100 = ([B - 1, 2 ^ 36 - 1], true) ∧
    basecase [3, 0] [5, 0] 100 = ([15, 0], true) ∧ basecase [0, 0] [77, 5] 100 = ([0, 0], true) ∧
    basecase [B - 1, B - 1] [2, 0] 128 = ([B - 1, B - 1], true) := by decide +kernel

/-- **mpn_mulmod_2expm1** (mulmod_2expm1.c:114-291): for EVERY `b ≥ 1`, every threshold, all n-limb inputs below
    `2^b` (the C's ASSERTs) and every +1 half `pp1` meeting the contract of mpn_mulmod_2expp1_basecase
    (`P1Spec`; `p1spec_basecase` for the model of its non-FFT branch):
    * no carry is lost in any `MPN_INCR_U` at any level of the recursion and `ASSERT (c == 0)` holds;
    * the result has `n = ⌈b/64⌉` limbs and lies in `[0, 2^b − 1]`;
    * it is `≡ y·z (mod 2^b − 1)` — through the split into the residues modulo `2^h − 1` and `2^h + 1` on both
      the k == 0 and k != 0 paths, the special-value flags `c1·2 + c2`, the recursion on `S`, the recombination
      with its carry/borrow folding and the final halving;
    * representative rule: the limbs are 0 exactly when `y·z = 0`; a non-zero product that is a multiple of
      `2^b − 1` (in particular an operand `2^b − 1`) is returned as `2^b − 1`, all ones. -/
theorem mulmod_2expm1_val (thr : Nat) (pp1 : List Nat → List Nat → Nat → Nat → List Nat × Nat) (hpp1 : P1Spec pp1)
    (yp zp : List Nat) (b : Nat) (hb : 1 ≤ b) (hy : Limbs yp) (hz : Limbs zp)
    (hly : yp.length = (b + 63) / 64) (hlz : zp.length = (b + 63) / 64)
    (hyb : val yp < 2 ^ b) (hzb : val zp < 2 ^ b) :
    (mm1 thr pp1 yp zp b).2 = true ∧ (mm1 thr pp1 yp zp b).1.length = (b + 63) / 64 ∧ Limbs (mm1 thr pp1 yp zp b).1 ∧
    val (mm1 thr pp1 yp zp b).1 ≤ 2 ^ b - 1 ∧
    val (mm1 thr pp1 yp zp b).1 % (2 ^ b - 1) = (val yp * val zp) % (2 ^ b - 1) ∧
    (val (mm1 thr pp1 yp zp b).1 = 0 ↔ val yp * val zp = 0) ∧
    ((val yp * val zp) % (2 ^ b - 1) = 0 → val yp * val zp ≠ 0 → val (mm1 thr pp1 yp zp b).1 = 2 ^ b - 1) := by
  obtain ⟨h1, h2, h3, h4, h5, h6⟩ := mm1F_spec thr pp1 hpp1 b b yp zp (le_refl _) hb hy hz hly hlz hyb hzb
  have h2b := two_le_two_pow b hb
  refine ⟨h1, h2, h3, by unfold mm1; omega, h5, h6, ?_⟩
  intro hm hne
  unfold mm1
  rw [← h5] at hm
  have hx0 : val (mm1F thr pp1 b yp zp b).1 ≠ 0 := fun h => hne (h6.mp h)
  generalize val (mm1F thr pp1 b yp zp b).1 = x at *
  obtain ⟨q, hq⟩ := Nat.dvd_of_mod_eq_zero hm
  have hq1 : q = 1 := by
    rcases Nat.lt_or_ge q 2 with h | h
    · have : q ≠ 0 := by rintro rfl; omega
      omega
    · have : (2 ^ b - 1) * 2 ≤ (2 ^ b - 1) * q := Nat.mul_le_mul_left _ h
      omega
  rw [hq, hq1, Nat.mul_one]

-- non-vacuity, recursive path (thr = 1 forces the CRT split at every even b): b = 128 (k = 0 at the top, h = 64),
-- b = 100 (h = 50: k = 14, n = 2m), b = 40 (h = 20, n = 2m − 1 = 1): operand halves ≡ −1 (upper = lower + 1) set the
-- flags; the class of 0 comes back as all ones; 0 as 0
example : mm1 1 Fft.mulmod_2expp1_basecase [5, 6] [7, 8] 128 = ([83, 82], true) ∧
    mm1 1 Fft.mulmod_2expp1_basecase [5, 6] [B - 1, B - 1] 128 = ([B - 1, B - 1], true) ∧
    mm1 1 Fft.mulmod_2expp1_basecase [0, 0] [7, 8] 128 = ([0, 0], true) ∧
    val (mm1 1 Fft.mulmod_2expp1_basecase [2 ^ 50 * 4 + 3, 0] [2 ^ 50 * 8 + 7, 0] 100).1 % (2 ^ 100 - 1) =
      ((2 ^ 50 * 4 + 3) * (2 ^ 50 * 8 + 7)) % (2 ^ 100 - 1) ∧
    val (mm1 1 Fft.mulmod_2expp1_basecase [2 ^ 20 * 4 + 3] [2 ^ 20 * 8 + 7] 40).1 % (2 ^ 40 - 1) =
      ((2 ^ 20 * 4 + 3) * (2 ^ 20 * 8 + 7)) % (2 ^ 40 - 1) := by decide +kernel

/-- **mpn_mulmod_bnm1** (mulmod_2expm1.c:296-338) for `0 < bn ≤ an ≤ rn` (its ASSERTs): `min (rn, an + bn)`
    limbs; for `an + bn ≥ rn` a residue of `a·b` modulo `B^rn − 1` in `[0, B^rn − 1]`, zero exactly for the product
    zero — precisely the hypothesis that `redc_n_limb_spec` had about the call in mpn_redc_n; for
    `an + bn < rn` the exact product. -/
theorem mpn_mulmod_bnm1_val (thr : Nat) (pp1 : List Nat → List Nat → Nat → Nat → List Nat × Nat) (hpp1 : P1Spec pp1)
    (rn : Nat) (ap bp : List Nat) (ha : Limbs ap) (hb : Limbs bp)
    (hbn : 0 < bp.length) (hab : bp.length ≤ ap.length) (han : ap.length ≤ rn) :
    (bnm1 thr pp1 rn ap bp).2 = true ∧ Limbs (bnm1 thr pp1 rn ap bp).1 ∧
    (bnm1 thr pp1 rn ap bp).1.length = min rn (ap.length + bp.length) ∧
    val (bnm1 thr pp1 rn ap bp).1 % (B ^ rn - 1) = (val ap * val bp) % (B ^ rn - 1) ∧
    (val (bnm1 thr pp1 rn ap bp).1 = 0 ↔ val ap * val bp = 0) ∧
    (ap.length + bp.length < rn → val (bnm1 thr pp1 rn ap bp).1 = val ap * val bp) := by
  have hrn : 1 ≤ rn := by omega
  have hsz : (rn * 64 + 63) / 64 = rn := by omega
  have hpad : ∀ (l : List Nat), Limbs l → l.length ≤ rn →
      Limbs (if l.length < rn then l ++ List.replicate (rn - l.length) 0 else l) ∧
      (if l.length < rn then l ++ List.replicate (rn - l.length) 0 else l).length = rn ∧
      val (if l.length < rn then l ++ List.replicate (rn - l.length) 0 else l) = val l := by
    intro l hl hln
    by_cases h : l.length < rn
    · rw [if_pos h]
      refine ⟨Limbs_append.mpr ⟨hl, Limbs_replicate_zero _⟩, by simp; omega, ?_⟩
      rw [val_append, val_replicate_zero]; simp
    · rw [if_neg h]; exact ⟨hl, by omega, rfl⟩
  obtain ⟨pa1, pa2, pa3⟩ := hpad ap ha han
  obtain ⟨pb1, pb2, pb3⟩ := hpad bp hb (by omega)
  have hBr : 2 ^ (rn * 64) = B ^ rn := by rw [B_pow_two', Nat.mul_comm]
  have hav := val_lt ap ha
  have hbv := val_lt bp hb
  have hle : ∀ j, j ≤ rn → B ^ j ≤ B ^ rn := fun j hj => Nat.pow_le_pow_right B_pos hj
  obtain ⟨h1, h2, h3, h4, h5, h6, _⟩ := mulmod_2expm1_val thr pp1 hpp1 _ _ (rn * 64) (by omega) pa1 pb1
    (by rw [hsz]; exact pa2) (by rw [hsz]; exact pb2)
    (by rw [pa3, hBr]; exact lt_of_lt_of_le hav (hle _ han))
    (by rw [pb3, hBr]; exact lt_of_lt_of_le hbv (hle _ (by omega)))
  rw [hsz] at h2
  rw [pa3, pb3, hBr] at h5
  rw [pa3, pb3] at h6
  rw [hBr] at h4
  unfold bnm1
  simp only
  generalize mm1 thr pp1 (if ap.length < rn then ap ++ List.replicate (rn - ap.length) 0 else ap)
    (if bp.length < rn then bp ++ List.replicate (rn - bp.length) 0 else bp) (rn * 64) = r at *
  by_cases hs : ap.length + bp.length < rn
  · rw [if_pos hs]
    -- the residue is the product itself
    have hP : val ap * val bp < B ^ (ap.length + bp.length) := by rw [pow_add]; exact Nat.mul_lt_mul'' hav hbv
    have hP1 : B ^ (ap.length + bp.length) * B ≤ B ^ rn := by
      rw [← pow_succ]; exact hle _ (by omega)
    have hBg : 2 ≤ B := by rw [B_eq]; norm_num
    have hPlt : val ap * val bp < B ^ rn - 1 := by
      have : B ^ (ap.length + bp.length) * 2 ≤ B ^ (ap.length + bp.length) * B := Nat.mul_le_mul_left _ hBg
      have : 0 < B ^ (ap.length + bp.length) := Bpow_pos _
      omega
    have hre : val r.1 = val ap * val bp := by
      rw [Nat.mod_eq_of_lt hPlt] at h5
      rcases Nat.lt_or_ge (val r.1) (B ^ rn - 1) with hlt | hge
      · rw [Nat.mod_eq_of_lt hlt] at h5; exact h5
      · have : val r.1 = B ^ rn - 1 := by omega
        rw [this, Nat.mod_self] at h5
        have := h6.mpr h5.symm
        omega
    have htk : val (r.1.take (ap.length + bp.length)) = val ap * val bp := by
      rw [(val_take_mod r.1 h3 _ (by omega)).1, hre, Nat.mod_eq_of_lt hP]
    refine ⟨h1, Limbs_take h3 _, by rw [List.length_take, h2]; omega, by rw [htk], by rw [htk], fun _ => htk⟩
  · rw [if_neg hs]
    exact ⟨h1, h3, by rw [h2]; omega, h5, h6, fun h => absurd h hs⟩

-- non-vacuity: rn = 3 with an + bn = 4 ≥ rn (wrapped) and an + bn = 2 < rn (exact product, 2 limbs)
example : bnm1 12 Fft.mulmod_2expp1_basecase 3 [0, 0, 1] [0, 5] = ([5, 0, 0], true) ∧
    bnm1 12 Fft.mulmod_2expp1_basecase 3 [B - 1] [B - 1] = ([1, B - 2], true) := by decide +kernel


/-! ## mpn_redc_n and mpn_powm with the real mpn_mulmod_bnm1 (Mpir/Model/PowmReal.lean) -/
open Mpir.Powm Mpir.PowmL Mpir.PowmR

/-- **mpn_redc_n with mpn_mulmod_bnm1 as it is** (redc_n.c:47-80 over mulmod_2expm1.c): `redc_n_limb_spec`
    without its hypothesis about the wrap-around product.  For `up` of 2n limbs, `mp`, `ip` with
    `ip·m ≡ 1 (mod B^n)`, `n ≤ rn < 2n` (mulmod_bnm1's ASSERT, redc_n's ASSERT_ALWAYS) and any +1 half meeting
    `P1Spec`: no carry is lost inside mpn_mulmod_2expm1, the borrow of the recovery stops inside `yp[0..2n)`,
    and `rp[0..n)` are the limbs of `redc_n U m n ip` with `R < B^n`, `R·B^n ≡ U (mod m)`, `R < m` for `U < m·B^n`. -/
theorem redc_n_unconditional (mthr : Nat) (pp1 : P1) (hpp1 : P1Spec pp1) (rn : Nat) (up mp ip : List Nat)
    (hup : Limbs up) (hmp : Limbs mp) (hlen : up.length = 2 * mp.length) (hn : 1 ≤ mp.length)
    (hrn1 : mp.length ≤ rn) (hrn2 : rn < 2 * mp.length)
    (hinv : (val ip * val mp) % B ^ mp.length = 1) :
    (redcNR mthr pp1 rn up mp ip).2 = true ∧
    (redcNR mthr pp1 rn up mp ip).1 = toLimbs mp.length (redc_n (val up) (val mp) mp.length (val ip)) ∧
    redc_n (val up) (val mp) mp.length (val ip) < B ^ mp.length ∧
    (redc_n (val up) (val mp) mp.length (val ip) * B ^ mp.length ≡ val up [MOD val mp]) ∧
    (val up < val mp * B ^ mp.length → redc_n (val up) (val mp) mp.length (val ip) < val mp) := by
  obtain ⟨xv, xl, xL⟩ := toLimbs_spec mp.length (val (up.take mp.length) * val ip)
  have xv' : val (toLimbs mp.length (val (up.take mp.length) * val ip)) =
      (val up % B ^ mp.length * val ip) % B ^ mp.length := by
    rw [xv, (val_take_mod up hup mp.length (by omega)).1]
  obtain ⟨b1, b2, b3, b4, b5, _⟩ := mpn_mulmod_bnm1_val mthr pp1 hpp1 rn
    (toLimbs mp.length (val (up.take mp.length) * val ip)) mp xL hmp (by omega) (by rw [xl]) (by rw [xl]; exact hrn1)
  rw [xl] at b3
  rw [xv'] at b4 b5
  have hy3 : (bnm1 mthr pp1 rn (toLimbs mp.length (val (up.take mp.length) * val ip)) mp).1.length = rn := by
    rw [b3]; omega
  obtain ⟨c1, c2, c3, c4, c5⟩ := redc_n_limb_spec rn up mp ip _ hup hmp b2 hlen hy3 hn hrn1 hrn2 hinv b4
    (fun h => b5.mpr h)
  refine ⟨?_, ?_, c3, c4, c5⟩
  · unfold redcNR; simp only; rw [b1, c1]; rfl
  · unfold redcNR; simp only; exact c2

-- non-vacuity: the example of `redc_n_exec_spec`, now through mpn_mulmod_2expm1 (n = rn = 9 limbs, basecase)
-- and with the CRT recursion forced (threshold 1)
example : redcNR 12 Fft.mulmod_2expp1_basecase 9 (toLimbs 18 (3 ^ 700)) (toLimbs 9 (5 ^ 200)) (toLimbs 9 (binvert (5 ^ 200) 9)) =
    (toLimbs 9 (redc_n (3 ^ 700) (5 ^ 200 % B ^ 9) 9 (binvert (5 ^ 200) 9)), true) ∧
    redcNR 1 Fft.mulmod_2expp1_basecase 10 (toLimbs 20 (3 ^ 800)) (toLimbs 10 (5 ^ 250)) (toLimbs 10 (binvert (5 ^ 250) 10)) =
    (toLimbs 10 (redc_n (3 ^ 800) (5 ^ 250 % B ^ 10) 10 (binvert (5 ^ 250) 10)), true) := by decide +kernel

/-- The reduction mpn_powm uses, with the real mpn_mulmod_bnm1 inside mpn_redc_n, returns exactly the limbs and
    the flag of the reduction of part c08_limb (whose redc_n takes the least residue for mulmod_bnm1). -/
theorem reduceLR_eq (thr mthr : Nat) (pp1 : P1) (hpp1 : P1Spec pp1) (nextSize : Nat → Nat) (mp : List Nat)
    (hmp : Limbs mp) (hn : 1 ≤ mp.length) (hodd : val mp % 2 = 1)
    (hns : thr ≤ mp.length → mp.length ≤ nextSize mp.length ∧ nextSize mp.length < 2 * mp.length)
    (u : List Nat) (hu : Limbs u) (hul : u.length = 2 * mp.length) :
    reduceLR thr mthr pp1 nextSize mp (mipOf thr mp) u = reduceL thr nextSize mp (mipOf thr mp) u := by
  by_cases hthr : mp.length < thr
  · unfold reduceLR reduceL; rw [if_pos hthr, if_pos hthr]
  · obtain ⟨hr1, hr2⟩ := hns (by omega)
    have hipv : (val (toLimbs mp.length (binvert (val mp) mp.length)) * val mp) % B ^ mp.length = 1 := by
      rw [(toLimbs_spec _ _).1, Nat.mod_mul_mod]
      exact binvert_spec (val mp) mp.length hn hodd
    have hmip : mipOf thr mp = toLimbs mp.length (binvert (val mp) mp.length) := by
      unfold mipOf; rw [if_neg hthr]
    obtain ⟨a1, a2, _⟩ := redc_n_unconditional mthr pp1 hpp1 (nextSize mp.length) u mp _ hu hmp hul hn hr1 hr2 hipv
    obtain ⟨e1, e2⟩ := redc_n_exec_spec (nextSize mp.length) u mp _ hu hmp hul hn hr1 hr2 hipv
    unfold reduceLR reduceL
    rw [if_neg hthr, if_neg hthr, hmip]
    exact Prod.ext (by rw [a2, e2]) (by rw [a1, e1])

/-- **mpn_powm on memory with the real mpn_redc_n / mpn_mulmod_bnm1 / mpn_mulmod_2expm1** (powm.c over redc_n.c over
    mulmod_2expm1.c): `mpn_powm_correct` with nothing assumed about the wrap-around product.  Preconditions are
    the C's (see `mpn_powm_correct`); `hns` is `n ≤ mpn_mulmod_bnm1_next_size (n) < 2n` (`next_size_bounds` for the
    pinned tables).  Then every access stays inside `tp` / `pp`, no carry is lost inside any mpn_mulmod_2expm1 call,
    every redc_n recovers its product, and `rp[0..n)` = `b^e mod m` in `[0, m)`. -/
theorem mpn_powm_correct_all_sizes (thr mthr : Nat) (pp1 : P1) (hpp1 : P1Spec pp1) (nextSize binvItch : Nat → Nat)
    (itch : Nat) (bp ep mp : List Nat)
    (hep : Norm ep) (hne : ep ≠ []) (hmp : Limbs mp) (hn : 1 ≤ mp.length) (hodd : val mp % 2 = 1)
    (hns : thr ≤ mp.length → mp.length ≤ nextSize mp.length ∧ nextSize mp.length < 2 * mp.length)
    (hitch : 2 * mp.length ≤ itch) (hbinv : thr ≤ mp.length → binvItch mp.length ≤ itch) :
    (mpnPowmMemR thr mthr pp1 nextSize binvItch itch bp ep mp).2 = true ∧
    (mpnPowmMemR thr mthr pp1 nextSize binvItch itch bp ep mp).1 = toLimbs mp.length (val bp ^ val ep % val mp) ∧
    val (mpnPowmMemR thr mthr pp1 nextSize binvItch itch bp ep mp).1 = val bp ^ val ep % val mp ∧
    val (mpnPowmMemR thr mthr pp1 nextSize binvItch itch bp ep mp).1 < val mp := by
  have hred : RedOK (reduceLR thr mthr pp1 nextSize mp (mipOf thr mp)) mp := by
    intro u hu hul
    rw [reduceLR_eq thr mthr pp1 hpp1 nextSize mp hmp hn hodd hns u hu hul]
    exact reduceL_spec thr nextSize mp hmp hn hodd hns u hu hul
  obtain ⟨h1, h2⟩ := mpnPowmMemG_correct _ thr binvItch itch bp ep mp hred hep hne hmp hn hodd hitch hbinv
  have hmpos : 0 < val mp := by omega
  have hlt : val bp ^ val ep % val mp < B ^ mp.length := lt_trans (Nat.mod_lt _ hmpos) (val_lt mp hmp)
  unfold mpnPowmMemR
  refine ⟨h1, h2, ?_, ?_⟩
  · rw [h2, (toLimbs_spec _ _).1, Nat.mod_eq_of_lt hlt]
  · rw [h2, (toLimbs_spec _ _).1, Nat.mod_eq_of_lt hlt]; exact Nat.mod_lt _ hmpos

-- non-vacuity: redc_n branch forced (thr = 1) with the CRT recursion inside (mthr = 1) and with the basecase (mthr = 12)
example : mpnPowmMemR 1 1 Fft.mulmod_2expp1_basecase id (fun n => 6 * n + 220) 232 [3, 4, 5] [77] [7, 9] =
    (toLimbs 2 (val [3, 4, 5] ^ 77 % val [7, 9]), true) ∧
    mpnPowmMemR 1 12 Fft.mulmod_2expp1_basecase id (fun n => 6 * n + 220) 232 [3, 4, 5] [77] [7, 9] =
    (toLimbs 2 (val [3, 4, 5] ^ 77 % val [7, 9]), true) := by decide +kernel

/-! ## mpn_mulmod_bnm1_next_size -/

/-- **mpn_mulmod_bnm1_next_size** (gmp-impl.h:3876, `2·mpir_fft_adjust_limbs ((n + 1)/2)` above
    `2·FFT_MULMOD_2EXPP1_CUTOFF`; fft/mulmod_2expp1.c:181) with the constants of the pinned build
    (FFT_MULMOD_2EXPP1_CUTOFF = 128, FFT_N_NUM = 19, MULMOD_TAB): `n ≤ rn < 2n` for EVERY `n ≥ 1` — mulmod_bnm1's
    `ASSERT (an <= rn)` and redc_n's `ASSERT_ALWAYS (2 * n > rn)` hold for every size. -/
theorem next_size_bounds (n : Nat) (hn : 1 ≤ n) :
    n ≤ Mpir.Hgcd.bnm1NextSize 128 19 [4, 3, 3, 4, 3, 3, 3, 3, 3, 2, 2, 2, 2, 2, 2, 2, 2, 1, 1] n ∧
    Mpir.Hgcd.bnm1NextSize 128 19 [4, 3, 3, 4, 3, 3, 3, 3, 3, 2, 2, 2, 2, 2, 2, 2, 2, 1, 1] n < 2 * n :=
  bnm1NextSize_bounds n hn

-- the function the driver compares with the library (generated parameters) is this one; values beyond the cutoff
example : Mpir.Ops.Hgcd.nextSize = Mpir.Hgcd.bnm1NextSize 128 19 [4, 3, 3, 4, 3, 3, 3, 3, 3, 2, 2, 2, 2, 2, 2, 2, 2, 1, 1] := by rfl
example : Mpir.Hgcd.bnm1NextSize 128 19 tab19 257 = 320 ∧ Mpir.Hgcd.bnm1NextSize 128 19 tab19 256 = 256 ∧
    Mpir.Hgcd.bnm1NextSize 128 19 tab19 1000 = 1024 := by decide +kernel

/-- `mpn_powm_correct_all_sizes` for the pinned build: the next-size hypothesis is discharged by `next_size_bounds`,
    so mpn_powm on memory — over the real mpn_redc_n, mpn_mulmod_bnm1, mpn_mulmod_2expm1 — is correct for every
    odd modulus of every size, every exponent and base, assuming only the contract `P1Spec` of the +1 half. -/
theorem mpn_powm_correct_pinned (thr mthr : Nat) (pp1 : P1) (hpp1 : P1Spec pp1) (binvItch : Nat → Nat)
    (itch : Nat) (bp ep mp : List Nat)
    (hep : Norm ep) (hne : ep ≠ []) (hmp : Limbs mp) (hn : 1 ≤ mp.length) (hodd : val mp % 2 = 1)
    (hitch : 2 * mp.length ≤ itch) (hbinv : thr ≤ mp.length → binvItch mp.length ≤ itch) :
    (mpnPowmMemR thr mthr pp1 (Mpir.Hgcd.bnm1NextSize 128 19 tab19) binvItch itch bp ep mp).2 = true ∧
    (mpnPowmMemR thr mthr pp1 (Mpir.Hgcd.bnm1NextSize 128 19 tab19) binvItch itch bp ep mp).1 =
      toLimbs mp.length (val bp ^ val ep % val mp) :=
  let h := mpn_powm_correct_all_sizes thr mthr pp1 hpp1 _ binvItch itch bp ep mp hep hne hmp hn hodd
    (fun _ => bnm1NextSize_bounds mp.length hn) hitch hbinv
  ⟨h.1, h.2.1⟩

/-- mpn_mulmod_bnm1_next_size (hence mpn_binvert_itch = `rn + mpn_mulmod_bnm1_itch (rn)` = `6·rn + 220`) is monotone:
    the rounding granules of mpir_fft_adjust_limbs are powers of two that divide the next power of two above the
    operand, so the value never jumps back when the depth changes (pinned constants). -/
theorem next_size_mono (n1 n2 : Nat) (h : n1 ≤ n2) :
    Mpir.Hgcd.bnm1NextSize 128 19 [4, 3, 3, 4, 3, 3, 3, 3, 3, 2, 2, 2, 2, 2, 2, 2, 2, 1, 1] n1 ≤
    Mpir.Hgcd.bnm1NextSize 128 19 [4, 3, 3, 4, 3, 3, 3, 3, 3, 2, 2, 2, 2, 2, 2, 2, 2, 1, 1] n2 :=
  bnm1NextSize_mono n1 n2 h

/-- mpn_binvert_itch (binvert.c:53) with the pinned mpn_mulmod_bnm1_next_size: `rn + mpn_mulmod_bnm1_itch (rn, ..)` -/
def binvItchP (k : Nat) : Nat :=
  Mpir.Hgcd.bnm1NextSize 128 19 tab19 k + (5 * Mpir.Hgcd.bnm1NextSize 128 19 tab19 k + 220)

/-- **The scratch mpz_powm hands to mpn_powm, odd AND even modulus** (mpz/powm.c:176-193): with `n = ABSIZ (m)`, `ncnt` the
    limbs of the power-of-two part, `mp` the odd part (`nodd = mp.length ≤ n` limbs), the area after `rp = tp; tp += n` has
    `2n + MAX (mpn_binvert_itch (MAX (ncnt, nodd)), 2n)` limbs for an even modulus (`extra = 2n`) and
    `MAX (mpn_binvert_itch (nodd), 2n)` for an odd one (`extra = 0`, `ncnt = 0`).  Both are enough for mpn_powm on the
    odd part — the even case needs `mpn_binvert_itch (nodd) ≤ mpn_binvert_itch (MAX (ncnt, nodd))`, i.e. the
    monotonicity of mpn_mulmod_bnm1_next_size. -/
theorem mpz_powm_scratch_ok_even (thr mthr : Nat) (pp1 : P1) (hpp1 : P1Spec pp1) (n ncnt extra : Nat) (bp ep mp : List Nat)
    (hep : Norm ep) (hne : ep ≠ []) (hmp : Limbs mp) (hn : 1 ≤ mp.length) (hodd : val mp % 2 = 1)
    (hnodd : mp.length ≤ n) :
    (mpnPowmMemR thr mthr pp1 (Mpir.Hgcd.bnm1NextSize 128 19 tab19) binvItchP
      (extra + max (binvItchP (max ncnt mp.length)) (2 * n)) bp ep mp).2 = true ∧
    (mpnPowmMemR thr mthr pp1 (Mpir.Hgcd.bnm1NextSize 128 19 tab19) binvItchP
      (extra + max (binvItchP (max ncnt mp.length)) (2 * n)) bp ep mp).1 =
      toLimbs mp.length (val bp ^ val ep % val mp) := by
  have hmono : binvItchP mp.length ≤ binvItchP (max ncnt mp.length) := by
    have := bnm1NextSize_mono mp.length (max ncnt mp.length) (le_max_right _ _)
    unfold binvItchP
    omega
  have h1 : 2 * mp.length ≤ extra + max (binvItchP (max ncnt mp.length)) (2 * n) := by
    have := le_max_right (binvItchP (max ncnt mp.length)) (2 * n); omega
  have h2 : binvItchP mp.length ≤ extra + max (binvItchP (max ncnt mp.length)) (2 * n) := by
    have := le_max_left (binvItchP (max ncnt mp.length)) (2 * n); omega
  exact mpn_powm_correct_pinned thr mthr pp1 hpp1 binvItchP _ bp ep mp hep hne hmp hn hodd h1 (fun _ => h2)

-- non-vacuity: m = 2^192·(9·B + 7): n = 5, ncnt = 3 (+1 for the bit shift would be cnt = 0 here), nodd = 2, redc_n branch forced
example : (mpnPowmMemR 1 12 Fft.mulmod_2expp1_basecase (Mpir.Hgcd.bnm1NextSize 128 19 tab19) binvItchP
    (2 * 5 + max (binvItchP (max 3 2)) (2 * 5)) [3, 4, 5] [77] [7, 9]) = (toLimbs 2 (val [3, 4, 5] ^ 77 % val [7, 9]), true) := by
  decide +kernel

/-- **The CRT path of mpz_powm, scratch indices** (mpz/powm.c:176-268, even modulus): with the single block of
    `itch = 3n + MAX (mpn_binvert_itch (MAX (ncnt, nodd)), 2n)` limbs, `rp = tp; tp += n`, every callee stays inside the
    block and never overlaps an operand it still needs: mpn_powlo (`r2 = tp[0..ncnt)`, scratch `tp[ncnt..4·ncnt)`),
    mpn_binvert (`tp[n..n+ncnt)`, scratch `tp[2n..2n + mpn_binvert_itch (ncnt))` — inside by the monotonicity of
    mpn_mulmod_bnm1_next_size), mpn_sub in place, mpn_mullow_n (the `2·ncnt` limbs it sets at `tp + 2n`), mpn_mul into
    `tp[0..nodd+ncnt)` apart from `xp`, and mpn_add reading `yp[0..n)`.  For every modulus in normal form.
    This is a statement about index ranges (model `PowmCrt.crtOk`); the values are those of `powmEven`
    (`powmEven_correct`), the mpn_powm call inside the same block is `mpz_powm_scratch_ok_even`. -/
theorem mpz_powm_crt_indices_ok (mp : List Nat) (hm : Norm mp) (hne : mp ≠ []) :
    Mpir.PowmCrt.mpzPowmCrtOk mp binvItchP = true := by
  obtain ⟨_, _, s3, _, _, s6, s7, s8, _, _⟩ := stripM_spec mp hm hne
  unfold Mpir.PowmCrt.mpzPowmCrtOk
  simp only at s3 s6 s7 s8 ⊢
  by_cases h0 : (stripM mp).2.2.1 = 0
  · rw [if_pos h0]
  · rw [if_neg h0]
    refine Mpir.PowmCrt.crtOk_true _ _ _ binvItchP ?_ s3 (by omega) s6 s8 s7
    intro a b hab
    have := bnm1NextSize_mono a b hab
    unfold binvItchP; omega

-- non-vacuity: the flags are not constant (one limb less than the C allocates breaks mpn_binvert's scratch), and a concrete
-- even modulus 2^70·(2^130 + 1)
example : Mpir.PowmCrt.crtOk 5 3 3 (2 * 5 + max (binvItchP 3) (2 * 5)) binvItchP = true ∧
    Mpir.PowmCrt.crtOk 5 3 3 (2 * 5 + max (binvItchP 3) (2 * 5) - 1) binvItchP = false ∧
    Mpir.PowmCrt.mpzPowmCrtOk [0, 64, 0, 256] binvItchP = true := by decide +kernel

/-- **The CRT path of mpz_powm with every operand going through the single scratch block** (mpz/powm.c:204-270, model
    `PowmCrt.powmEvenMemF`: the block as a map offset → limb; `r2 = tp`, mpn_powlo's scratch at `tp + ncnt`,
    `odd_inv_2exp = tp + n`, mpn_binvert's scratch at `tp + 2n`, mpn_sub in place, mpn_mullow_n setting `2·ncnt` limbs at
    `xp = tp + 2n`, the mask, mpn_mul into `yp = tp`, mpn_add reading `yp[0..n)`).  For ANY contents the callees leave in
    their scratch areas and any initial contents of the block, the limbs delivered to `rp` are exactly those of the
    value-level `powmEven` — no callee overwrites an operand that is still needed — hence (`even_modulus_crt`) they are
    `b^e mod 2^t·modd` in `n` proper limbs.  Hypotheses: those of `even_modulus_crt` (what `stripM` delivers, the C's
    ASSERTs at powm.c:272-273) and `ncnt ≤ n`. -/
theorem mpz_powm_crt_mem_correct (n : Nat) (bp ep modd rodd : List Nat) (nodd ncnt cnt bi : Nat)
    (junkP junkB : List Nat) (mem0 : Mpir.PowmCrt.Mem)
    (hbp : Limbs bp) (hbne : bp ≠ []) (hep : Norm ep) (hepne : ep ≠ []) (h2 : 2 ≤ val ep)
    (hmodd : Limbs modd) (hml : modd.length = nodd) (hodd : val modd % 2 = 1)
    (hncnt : 1 ≤ ncnt) (hcnt : cnt < 64) (hn1 : nodd ≤ n) (hn2 : n ≤ nodd + ncnt) (hn3 : ncnt ≤ n)
    (hfit : 2 ^ tbits ncnt cnt * val modd < B ^ n) (hsz : ncnt * 64 < B)
    (hrodd : rodd = toLimbs nodd (val bp ^ val ep % val modd)) :
    Mpir.PowmCrt.powmEvenMemF n bp ep modd nodd ncnt cnt rodd bi junkP junkB mem0 =
      powmEven n bp ep modd nodd ncnt cnt rodd ∧
    val (Mpir.PowmCrt.powmEvenMemF n bp ep modd nodd ncnt cnt rodd bi junkP junkB mem0) =
      val bp ^ val ep % (2 ^ tbits ncnt cnt * val modd) ∧
    Limbs (Mpir.PowmCrt.powmEvenMemF n bp ep modd nodd ncnt cnt rodd bi junkP junkB mem0) ∧
    (Mpir.PowmCrt.powmEvenMemF n bp ep modd nodd ncnt cnt rodd bi junkP junkB mem0).length = n := by
  have hrL : Limbs rodd := by rw [hrodd]; exact (toLimbs_spec _ _).2.2
  have e := Mpir.PowmCrt.powmEvenMemF_eq n bp ep modd nodd ncnt cnt rodd bi junkP junkB mem0 hrL hncnt hn3
    (by omega) (by omega) hcnt
  obtain ⟨c1, c2, c3⟩ := even_modulus_crt n bp ep modd rodd nodd ncnt cnt hbp hbne hep hepne h2 hmodd hml hodd hncnt hcnt
    hn1 hn2 hfit hsz hrodd
  rw [e]; exact ⟨rfl, c1, c2, c3⟩

-- non-vacuity: m = 12 = 2^2·3 (n = 1, ncnt = 1, cnt = 2), b = 5, e = 3, and m = 2^64·3 (whole zero limb), b = 7, e = 2 —
-- with junk in the scratch areas and a block full of ones
example : Mpir.PowmCrt.powmEvenMemF 1 [5] [3] [3] 1 1 2 (toLimbs 1 (5 ^ 3 % 3)) 226 [7, 7, 7] [9, 9, 9, 9] (fun _ => B - 1) =
      [5 ^ 3 % 12] ∧
    Mpir.PowmCrt.powmEvenMemF 2 [7] [2] [3] 1 1 0 (toLimbs 1 (7 ^ 2 % 3)) 226 [1, 2, 3] [4, 5] (fun i => i) = [49, 0] := by
  decide +kernel

end Mpir.Mm1
