/-
  C18, scanf side, second part — `%Zi` (base detection) and `%Q` round trips.  Property theorems only; helper
  lemmas are in MpirProofs/Lemmas/ScanfI.lean (field reader for every scan base) and Lemmas/ScanfQ.lean (text of `%Q`).
  Models: Mpir/Model/Printf.lean (`layoutModel`, `doprntIntegerG`), Mpir/Model/Scanf.lean (`doscan`, `gmpscan`);
  tie: ops gmp_rt_Z / gmp_rtf_Z / gmp_rt_Q / gmp_rtf_Q (harness/ops_scanrt.c) on the grids of tools/props/c18_scanrt2.py.
-/
import MpirProofs.Props.C18_scanrt
import MpirProofs.Lemmas.ScanfI
import MpirProofs.Lemmas.ScanfQ
namespace Mpir.Scanf
open Mpir.Printf

/-- when pad = 0 the `0` flag has no effect on the C99 layout -/
theorem layoutFrom_zero_irrel (f : Flags) (width : Nat) (prec : Option Nat) (base : Nat) (upper : Bool)
    (sign : List Char) (mag : Nat) (ds0 : List Char)
    (hw : width ≤ sign.length + ds0.length) :
    layoutFrom f width prec base upper sign mag ds0 = layoutFrom { f with zero := false } width prec base upper sign mag ds0 := by
  unfold layoutFrom
  simp only
  have hpad : ∀ (pre ds1 : List Char), width - (sign.length + pre.length + (List.replicate (prec.getD 1 - ds0.length) '0' ++ ds1 ++ ds0).length) = 0 := by
    intro pre ds1; simp only [List.length_append]; omega
  have h0 : ∀ (pre : List Char) (ds : List Char), ds0.length ≤ ds.length → width - (sign.length + pre.length + ds.length) = 0 := by
    intro pre ds h; omega
  generalize hds : (if f.hash = true ∧ base = 8 ∧ (List.replicate (prec.getD 1 - ds0.length) '0' ++ ds0).head? ≠ some '0'
    then '0' :: (List.replicate (prec.getD 1 - ds0.length) '0' ++ ds0) else List.replicate (prec.getD 1 - ds0.length) '0' ++ ds0) = ds
  have hl : ds0.length ≤ ds.length := by
    rw [← hds]; split <;> simp only [List.length_cons, List.length_append] <;> omega
  rw [h0 _ ds hl]
  simp

/-- `print_scan_roundtrip_Zi` (item 1): for EVERY mpz value `v`, every list of flag characters, every width and precision
    form (as in `print_scan_roundtrip_Z`) and every conversion d i u o x X: `gmp_sscanf (text, "%Zi%n", x, &n)` — base
    detection: leading `0x`/`0X` hexadecimal, leading `0` octal, else decimal (doscan.c:246-266, then mpz_set_str with
    base 0) — applied to the text of `gmp_printf ("%<flags><width><prec>Z<conv>", v)` returns 1, assigns exactly `v`, and
    `%n` = the length of the text up to the `t` trailing blanks of left adjustment, which are what is left unread.
    Precision zeros and `0`-flag zeros after a `0x`/`0X` prefix or after the `0` of `%#Zo` are read as leading zeros of
    that base.  The exceptions, exactly:
    * `hdig`: no digit printed (value 0 with precision 0; `%#.0Zo` of 0 prints "0" and is read back);
    * `hhash`: a non-zero value printed by o / x / X carries its base only with the `#` flag ("17" is read as decimal,
      "ff" is no number); the value 0 needs no `#`: it prints as zeros only (`%#Zo`, `%#Zx` of 0 print "0": octal zero);
    * `hdec`: a non-zero value printed by d / i / u must not get a zero in front of its first digit, which `%Zi` would
      take for the octal indicator ("0019" reads as 1, "0017" as 15): the precision does not exceed the number of digits,
      and the `0` flag is not in effect (absent, or cancelled by `-` or a precision, or the width needs no padding);
    * `hlen`: the text is shorter than INT_MAX-1 characters (doscan.c:230 cuts a field there). -/
theorem print_scan_roundtrip_Zi (fl : List Char) (w : WidthArg) (p : PrecArg) (conv : Conv) (v : Int)
    (hp : p ≠ .dot)
    (hdig : ¬ (v = 0 ∧ cPrec p = some 0 ∧ ¬ ('#' ∈ fl ∧ conv = .o)))
    (hhash : conv.base ≠ 10 → v ≠ 0 → '#' ∈ fl)
    (hdec : conv.base = 10 → v ≠ 0 →
      (cPrec p).getD 1 ≤ (natDigits conv.base conv.upper v.natAbs).length ∧
      (¬ '0' ∈ fl ∨ (cFlags fl w).minus = true ∨ (cPrec p).isSome = true ∨
        cWidth w ≤ (signChars (cFlags fl w) (decide (v < 0))).length + (natDigits conv.base conv.upper v.natAbs).length))
    (hlen : (layoutModel fl w p conv v).length < 2147483646) :
    ∃ t, doscan ['%', 'Z', 'i', '%', 'n'] (layoutModel fl w p conv v) =
        some { fields := 1, outs := [.z v, .int (((layoutModel fl w p conv v).length - t : Nat) : Int)],
               rest := List.replicate t ' ' } ∧
      t ≤ (layoutModel fl w p conv v).length ∧ ((cFlags fl w).minus = false → t = 0) := by
  have hx' : ¬ ('#' ∈ fl ∧ cPrec p = some 0 ∧ v = 0 ∧ conv.base = 16) := by
    rintro ⟨h1, h2, h3, h4⟩
    apply hdig
    refine ⟨h3, h2, ?_⟩
    rintro ⟨-, h6⟩; rw [h6] at h4; cases h4
  rw [layoutModel_eq_spec fl w p conv v hp hx'] at hlen ⊢
  unfold gmpLayoutSpec at hlen ⊢
  have hcb := conv_ConvBase conv
  have hb := ConvBase_base _ _ hcb
  have hb2 : 2 ≤ conv.base := by omega
  have hb36 : conv.base ≤ 36 := by omega
  -- the flags used for the shape: without the `0` flag when the width needs no padding
  obtain ⟨f, hfeq, hfm, hfh, hfsign, hfz⟩ : ∃ f : Flags,
      layoutCore (cFlags fl w) (cWidth w) (cPrec p) conv.base conv.upper (signChars (cFlags fl w) (decide (v < 0))) v.natAbs =
        layoutCore f (cWidth w) (cPrec p) conv.base conv.upper (signChars f (decide (v < 0))) v.natAbs ∧
      f.minus = (cFlags fl w).minus ∧ f.hash = (cFlags fl w).hash ∧
      printedSign f (decide (v < 0)) = printedSign (cFlags fl w) (decide (v < 0)) ∧
      (conv.base = 10 → v ≠ 0 → (f.zero = false ∨ f.minus = true ∨ (cPrec p).isSome = true)) := by
    by_cases hsmall : conv.base = 10 ∧ v ≠ 0 ∧
        cWidth w ≤ (signChars (cFlags fl w) (decide (v < 0))).length + (natDigits conv.base conv.upper v.natAbs).length
    · refine ⟨{ (cFlags fl w) with zero := false }, ?_, rfl, rfl, rfl, fun _ _ => Or.inl rfl⟩
      have hs : signChars { (cFlags fl w) with zero := false } (decide (v < 0)) = signChars (cFlags fl w) (decide (v < 0)) := rfl
      rw [hs]
      unfold layoutCore
      have hm : ¬ (v.natAbs = 0 ∧ (cPrec p).getD 1 = 0) := fun h => hsmall.2.1 (by omega)
      rw [if_neg hm]
      exact layoutFrom_zero_irrel _ _ _ _ _ _ _ _ hsmall.2.2
    · refine ⟨cFlags fl w, rfl, rfl, rfl, rfl, fun h10 hv => ?_⟩
      rcases (hdec h10 hv).2 with h | h | h | h
      · left; simpa [cFlags] using h
      · right; left; exact h
      · right; right; exact h
      · exact absurd ⟨h10, hv, h⟩ hsmall
  rw [hfeq] at hlen ⊢
  obtain ⟨a, k, t, htext, ht, hk8, hk0⟩ :=
    layoutCore_shape f (cWidth w) (cPrec p) conv.base conv.upper (decide (v < 0)) v.natAbs
  rw [htext] at hlen ⊢
  rw [hfsign] at hlen ⊢
  rw [hfm] at ht
  have hhashf : f.hash = true ↔ '#' ∈ fl := by rw [hfh]; simp [cFlags]
  obtain ⟨hval, hdigs⟩ := natDigits_props conv.base conv.upper (by omega) (digitChar_props _ _ hcb) v.natAbs
  have hsp : ∀ b, b = 8 ∨ b = 10 ∨ b = 16 → ∀ c, (List.replicate t ' ').head? = some c → isDigitIn b c = false := by
    intro b hb c hc
    cases t with
    | zero => simp at hc
    | succ n =>
      simp [List.replicate_succ] at hc; subst hc
      rcases hb with h | h | h <;> rw [h] <;> decide
  have hz0 : ∀ b, b = 8 ∨ b = 10 ∨ b = 16 → isDigitIn b '0' = true := by
    intro b hb; rcases hb with h | h | h <;> rw [h] <;> decide
  -- the field: base indicator, digits, value
  have key : ∃ pre body b, printedPrefix f conv.base conv.upper v.natAbs ++
        (List.replicate k '0' ++ (printedDigits (cPrec p) conv.base conv.upper v.natAbs ++ List.replicate t ' ')) =
        pre ++ (body ++ List.replicate t ' ') ∧
      Shape 0 b pre body (List.replicate t ' ') ∧ (pre = ['0'] ∨ body ≠ []) ∧ strVal b body = v.natAbs := by
    by_cases hv : v = 0
    · -- zeros only
      have hm : v.natAbs = 0 := by omega
      have hpre : printedPrefix f conv.base conv.upper v.natAbs = [] := by
        unfold printedPrefix; rw [if_neg]; rintro ⟨-, -, h⟩; exact h hm
      obtain ⟨m, hm1⟩ : ∃ m, List.replicate k '0' ++ printedDigits (cPrec p) conv.base conv.upper v.natAbs =
          '0' :: List.replicate m '0' := by
        unfold printedDigits at hk8 ⊢
        rw [hm, natDigits_zero] at hk8 ⊢
        split
        · rename_i h3
          have hk1 : 1 ≤ k := by
            by_contra hk
            apply hdig
            refine ⟨hv, ?_, ?_⟩
            · have := h3.2; cases hcp : cPrec p <;> simp_all
            · intro h4
              have := hk8 ⟨hhashf.mpr h4.1, by rw [h4.2]; rfl⟩
              rw [if_pos h3] at this
              rcases this with h5 | h5
              · omega
              · cases h5
          exact ⟨k - 1, by rw [List.append_nil, ← List.replicate_succ]; congr 1; omega⟩
        · exact ⟨k, by rw [← List.replicate_succ, List.replicate_succ']⟩
      refine ⟨['0'], List.replicate m '0', 8, ?_, ⟨?_, hsp 8 (by simp), Or.inr (Or.inr (Or.inl ⟨rfl, rfl, rfl, ?_, ?_⟩))⟩,
        Or.inl rfl, ?_⟩
      · rw [hpre, List.nil_append, ← List.append_assoc, hm1]; rfl
      · intro c hc; rw [(List.mem_replicate.mp hc).2]; decide
      · cases m <;> cases t <;> simp [List.replicate_succ]
      · cases m <;> cases t <;> simp [List.replicate_succ]
      · have := strVal_zeros 8 m []; rw [List.append_nil] at this; rw [this, hm]; rfl
    · have hm : v.natAbs ≠ 0 := by omega
      have hpd : printedDigits (cPrec p) conv.base conv.upper v.natAbs = natDigits conv.base conv.upper v.natAbs := by
        unfold printedDigits; rw [if_neg]; rintro ⟨h, -⟩; exact hm h
      have hhd := natDigits_head_ne_zero conv.base conv.upper hb2 hb36 v.natAbs hm
      have hne := natDigits_ne_nil conv.base conv.upper v.natAbs
      rw [hpd] at hk8 hk0 ⊢
      generalize natDigits conv.base conv.upper v.natAbs = ds at *
      obtain ⟨d0, dt, rfl⟩ : ∃ d0 dt, ds = d0 :: dt := by
        cases ds with
        | nil => exact absurd rfl hne
        | cons c t => exact ⟨c, t, rfl⟩
      have hd0 : d0 ≠ '0' := by simpa using hhd
      have hd0s := digit_not_special conv.base d0 (hdigs d0 List.mem_cons_self)
      rcases hb with h8 | h10 | h16
      · -- octal with `#`
        have hh : '#' ∈ fl := hhash (by rw [h8]; decide) hv
        have hpre : printedPrefix f conv.base conv.upper v.natAbs = [] := by
          unfold printedPrefix; rw [if_neg]; rintro ⟨-, h, -⟩; omega
        have hk1 : 1 ≤ k := by
          rcases hk8 ⟨hhashf.mpr hh, h8⟩ with h | h
          · exact h
          · simp at h; exact absurd h hd0
        obtain ⟨k', rfl⟩ : ∃ k', k = k' + 1 := ⟨k - 1, by omega⟩
        rw [h8] at hval hdigs
        refine ⟨['0'], List.replicate k' '0' ++ (d0 :: dt), 8, ?_,
          ⟨?_, hsp 8 (by simp), Or.inr (Or.inr (Or.inl ⟨rfl, rfl, rfl, ?_, ?_⟩))⟩, Or.inl rfl, ?_⟩
        · rw [hpre]; simp [List.replicate_succ]
        · intro c hc
          rcases List.mem_append.mp hc with h | h
          · rw [(List.mem_replicate.mp h).2]; decide
          · exact hdigs c h
        · cases k' with
          | zero => simpa using hd0s.2.2.2.1
          | succ n => simp [List.replicate_succ]
        · cases k' with
          | zero => simpa using hd0s.2.2.2.2.1
          | succ n => simp [List.replicate_succ]
        · rw [strVal_zeros]; exact hval
      · -- decimal
        have hpre : printedPrefix f conv.base conv.upper v.natAbs = [] := by
          unfold printedPrefix; rw [if_neg]; rintro ⟨-, h, -⟩; omega
        have hk : k = 0 := hk0 (hdec h10 hv).1 (hfz h10 hv) (by rintro ⟨-, h⟩; omega)
        rw [h10] at hval hdigs
        refine ⟨[], d0 :: dt, 10, ?_, ⟨hdigs, hsp 10 (by simp), Or.inr (Or.inl ⟨rfl, rfl, rfl, by simpa using hd0⟩)⟩,
          Or.inr (by simp), hval⟩
        rw [hpre, hk]; simp
      · -- hexadecimal with `#`
        have hh : '#' ∈ fl := hhash (by rw [h16]; decide) hv
        have hpre : printedPrefix f conv.base conv.upper v.natAbs = (if conv.upper then ['0', 'X'] else ['0', 'x']) := by
          unfold printedPrefix; rw [if_pos ⟨hhashf.mpr hh, h16, hm⟩]
        rw [h16] at hval hdigs
        refine ⟨if conv.upper then ['0', 'X'] else ['0', 'x'], List.replicate k '0' ++ (d0 :: dt), 16, ?_,
          ⟨?_, hsp 16 (by simp), Or.inr (Or.inr (Or.inr ⟨rfl, rfl, ?_⟩))⟩, Or.inr (by simp), ?_⟩
        · rw [hpre]; simp
        · intro c hc
          rcases List.mem_append.mp hc with h | h
          · rw [(List.mem_replicate.mp h).2]; decide
          · exact hdigs c h
        · cases conv.upper <;> simp
        · rw [strVal_zeros]; exact hval
  obtain ⟨pre, body, b, hkey, hsh, hvalid, hbv⟩ := key
  rw [hkey] at hlen ⊢
  have hsg : printedSign (cFlags fl w) (decide (v < 0)) = [] ∨ printedSign (cFlags fl w) (decide (v < 0)) = ['-'] ∨
      printedSign (cFlags fl w) (decide (v < 0)) = ['+'] := by
    unfold printedSign; split
    · right; left; rfl
    · split
      · right; right; rfl
      · left; rfl
  have hsgneg : printedSign (cFlags fl w) (decide (v < 0)) = ['-'] ↔ v < 0 := by
    unfold printedSign; split
    · rename_i h; simpa using h
    · rename_i h; split <;> simpa using h
  generalize printedSign (cFlags fl w) (decide (v < 0)) = sg at *
  have hhead := shape_head 0 b pre body _ hsh hvalid
  have hsok := signOK_of_head sg _ hsg hhead
  have hws : ∀ c, (sg ++ (pre ++ (body ++ List.replicate t ' '))).head? = some c → isSpace c = false := by
    intro c hc
    obtain ⟨c1, h1, -, -, h4⟩ := hhead
    rcases hsg with h | h | h <;> subst h
    · rw [List.nil_append, h1] at hc; cases hc; exact h4
    · simp at hc; subst hc; decide
    · simp at hc; subst hc; decide
  have hlen2 : (sg ++ (pre ++ (body ++ List.replicate t ' '))).length < 2147483646 := by
    simp only [List.length_append, List.length_replicate] at hlen ⊢; omega
  have hvv : (if sg = ['-'] then -((strVal b body : Nat) : Int) else ((strVal b body : Nat) : Int)) = v := by
    rw [hbv]
    by_cases hv : v < 0
    · rw [if_pos (hsgneg.mpr hv)]; omega
    · rw [if_neg (fun h => hv (hsgneg.mp h))]; omega
  have hn : (List.replicate a ' ' ++ (sg ++ (pre ++ (body ++ List.replicate t ' ')))).length - t =
      a + (sg.length + pre.length + body.length) := by
    simp only [List.length_append, List.length_replicate]; omega
  refine ⟨t, ?_, by simp only [List.length_append, List.length_replicate]; omega, ht⟩
  rw [doscan_Tn 'Z' 'i' 0 (Or.inl rfl) (by simp [ConvChar]), skipWhite_spaces a _ hws]
  simp only
  rw [gmpscan_field_Z 0 b false sg pre body _ hsok hsh hvalid hlen2]
  have e2 : ¬ (((sg.length + pre.length + body.length : Nat) : Int) = -2) := by omega
  have e1 : ¬ (((sg.length + pre.length + body.length : Nat) : Int) = -1) := by omega
  simp only [e2, e1, if_false, valOuts, Bool.false_eq_true, Int.toNat_natCast, hvv, hn, List.cons_append, List.nil_append]

-- non-vacuity: the three base indicators, zeros after the prefix, blanks on both sides
example : String.ofList (layoutModel ['#', '0'] (.num 9) .none .x (-255)) = "-0x0000ff" ∧
    view (doscan "%Zi%n".toList (layoutModel ['#', '0'] (.num 9) .none .x (-255))) = some (1, [-255, 9], "") := by decide +kernel
example : String.ofList (layoutModel ['#', '-'] (.num 9) (.num 5) .X 255) = "0X000FF  " ∧
    view (doscan "%Zi%n".toList (layoutModel ['#', '-'] (.num 9) (.num 5) .X 255)) = some (1, [255, 7], "  ") := by decide +kernel
example : String.ofList (layoutModel ['#'] (.num 6) .none .o 15) = "   017" ∧
    view (doscan "%Zi%n".toList (layoutModel ['#'] (.num 6) .none .o 15)) = some (1, [15, 6], "") := by decide +kernel
example : view (doscan "%Zi%n".toList (layoutModel ['+'] (.num 6) .none .d 190)) = some (1, [190, 6], "") ∧
    view (doscan "%Zi%n".toList (layoutModel ['#'] .none (.num 3) .o 0)) = some (1, [0, 3], "") := by decide +kernel
-- the `0` flag without effect (width 3 needs no padding) is inside the theorem; with effect it is the exception:
example : view (doscan "%Zi%n".toList (layoutModel ['0'] (.num 3) .none .d 190)) = some (1, [190, 3], "") := by decide +kernel
-- the exceptions are real: "0019" is octal 1 then stops at the 9; "17" printed by %Zo is decimal 17; "ff" is no number
example : String.ofList (layoutModel [] .none (.num 4) .d 19) = "0019" ∧
    view (doscan "%Zi%n".toList (layoutModel [] .none (.num 4) .d 19)) = some (1, [1, 3], "9") := by decide +kernel
example : view (doscan "%Zi%n".toList (layoutModel ['0'] (.num 4) .none .d 17)) = some (1, [15, 4], "") := by decide +kernel
example : view (doscan "%Zi%n".toList (layoutModel [] .none .none .o 15)) = some (1, [17, 2], "") ∧
    view (doscan "%Zi%n".toList (layoutModel [] .none .none .x 255)) = some (0, [], "ff") := by decide +kernel


/-! ## `%Q` -/

theorem qSign_cases (fl : List Char) (n : Int) :
    (qSign fl n = [] ∨ qSign fl n = ['-'] ∨ qSign fl n = ['+']) ∧ (qSign fl n = ['-'] ↔ n < 0) := by
  unfold qSign
  by_cases h : n < 0
  · simp [h]
  · by_cases h2 : '+' ∈ fl <;> simp [h, h2]

theorem blank_not_digit (b : Nat) (hb : b = 8 ∨ b = 10 ∨ b = 16) (t : Nat) :
    ∀ c, (List.replicate t ' ').head? = some c → isDigitIn b c = false := by
  intro c hc
  cases t with
  | zero => simp at hc
  | succ n =>
    simp [List.replicate_succ] at hc; subst hc
    rcases hb with h | h | h <;> rw [h] <;> decide

/-- `print_scan_roundtrip_Q` (item 2, matching conversion): for EVERY rational as stored — numerator `n` of any sign,
    denominator `d > 0`, canonical or not (2/4 is printed and read back as 2/4: neither side canonicalises), denominator 1
    printed without `/` and read back as 1 — every list of flag characters, every width and precision form (here the
    empty precision `.` is included) and every conversion d i u o x X:
    `gmp_sscanf (text, "%Q<c>%n", q, &n)` with the matching conversion c applied to the text of
    `gmp_printf ("%<flags><width><prec>Q<conv>", q)` returns 1, assigns exactly `n`/`d`, `%n` = length of the text up to the
    `t` blanks of left adjustment, which stay unread.  The precision counts the whole string "num/den" (doprnti.c:66,90) and
    its zeros go in front of the numerator; with `#` and o the `0` goes in front of both parts and is read as a digit.
    The exceptions, exactly:
    * `hdig`: numerator 0 with precision 0 prints no numerator digit ("" or "/den"), unless `#` with o supplies a "0";
    * `hx`: `%Qx`/`%QX` do not accept the `0x` prefix that `#` puts in front of a non-zero numerator and of every
      denominator (that text is read by `%Qi`: `print_scan_roundtrip_Qi`);
    * `hlen` as in `print_scan_roundtrip_Zi`. -/
theorem print_scan_roundtrip_Q (fl : List Char) (w : WidthArg) (p : PrecArg) (conv : Conv) (n d : Int) (hd : 0 < d)
    (hdig : ¬ (n = 0 ∧ precInt p = 0 ∧ ¬ ('#' ∈ fl ∧ conv = .o)))
    (hx : ¬ ('#' ∈ fl ∧ conv.base = 16 ∧ (n ≠ 0 ∨ d ≠ 1)))
    (hlen : (layoutModelQ fl w p conv n d).length < 2147483646) :
    ∃ t, doscan ['%', 'Q', readConv conv, '%', 'n'] (layoutModelQ fl w p conv n d) =
        some { fields := 1, outs := [.q n d, .int (((layoutModelQ fl w p conv n d).length - t : Nat) : Int)],
               rest := List.replicate t ' ' } ∧
      t ≤ (layoutModelQ fl w p conv n d).length ∧ (¬ leftP fl w → t = 0) := by
  obtain ⟨a, k, t, htext, ht, hk8, -⟩ := layoutModelQ_shape fl w p conv n d hd
  rw [htext] at hlen ⊢
  have hcb := conv_ConvBase conv
  have hb := ConvBase_base _ _ hcb
  have hb2 : 2 ≤ conv.base := by omega
  have hb36 : conv.base ≤ 36 := by omega
  obtain ⟨hvaln, hdign⟩ := natDigits_props conv.base conv.upper (by omega) (digitChar_props _ _ hcb) n.natAbs
  obtain ⟨hvald, hdigd⟩ := natDigits_props conv.base conv.upper (by omega) (digitChar_props _ _ hcb) d.natAbs
  have hz0 : isDigitIn conv.base '0' = true := by rcases hb with h | h | h <;> rw [h] <;> decide
  have hsl : isDigitIn conv.base '/' = false := by rcases hb with h | h | h <;> rw [h] <;> decide
  -- no `0x` anywhere
  have hsb16 : conv.base = 16 → (n ≠ 0 ∨ d ≠ 1) → qSb fl conv = [] := by
    intro h16 hnd; unfold qSb; rw [if_neg]; intro hh; exact hx ⟨hh, h16, hnd⟩
  have hqn0 : n = 0 → qNum p conv n = [] ∨ qNum p conv n = ['0'] := by
    intro h; unfold qNum; rw [h]; split
    · left; rfl
    · right; exact natDigits_zero _ _
  have hpre : qPrefix fl p conv n = [] := by
    unfold qPrefix
    by_cases h16 : conv.base = 16
    · by_cases hn : n = 0
      · rcases hqn0 hn with h | h
        · -- nothing printed for the numerator: only with `#` and o
          exfalso; apply hdig
          have hq : qNum p conv n = [] := h
          unfold qNum at hq
          split at hq
          · rename_i h3; refine ⟨h3.1, h3.2, ?_⟩; rintro ⟨-, h6⟩; rw [h6] at h16; cases h16
          · exact absurd hq (natDigits_ne_nil _ _ _)
        · simp [h]
      · rw [hsb16 h16 (Or.inl hn)]; simp
    · simp [h16]
  rw [hpre, List.nil_append] at hlen ⊢
  -- the numerator
  have hnum_all : ∀ c ∈ List.replicate k '0' ++ qNum p conv n, isDigitIn conv.base c = true := by
    intro c hc
    rcases List.mem_append.mp hc with h | h
    · rw [(List.mem_replicate.mp h).2]; exact hz0
    · unfold qNum at h; split at h
      · cases h
      · exact hdign c h
  have hnum_ne : List.replicate k '0' ++ qNum p conv n ≠ [] := by
    intro h
    obtain ⟨h1, h2⟩ := List.append_eq_nil_iff.mp h
    have hk0 : k = 0 := by cases k <;> simp_all [List.replicate_succ]
    have hq := h2
    unfold qNum at hq
    split at hq
    · rename_i h3
      apply hdig
      refine ⟨h3.1, h3.2, ?_⟩
      intro h4
      rcases hk8 ⟨h4.1, by rw [h4.2]; rfl⟩ with h5 | h5
      · omega
      · rw [h2] at h5; cases h5
    · exact natDigits_ne_nil _ _ _ hq
  have hnum_val : strVal conv.base (List.replicate k '0' ++ qNum p conv n) = n.natAbs := by
    rw [strVal_zeros]; unfold qNum; split
    · rename_i h; rw [h.1]; rfl
    · exact hvaln
  rw [← List.append_assoc (List.replicate k '0')] at hlen ⊢
  generalize List.replicate k '0' ++ qNum p conv n = body1 at *
  obtain ⟨hsg, hsgneg⟩ := qSign_cases fl n
  generalize qSign fl n = sg at *
  have hvv : (if sg = ['-'] then -((strVal conv.base body1 : Nat) : Int) else ((strVal conv.base body1 : Nat) : Int)) = n := by
    rw [hnum_val]
    by_cases hv : n < 0
    · rw [if_pos (hsgneg.mpr hv)]; omega
    · rw [if_neg (fun h => hv (hsgneg.mp h))]; omega
  have hsp := blank_not_digit conv.base hb t
  by_cases hd1 : d = 1
  · -- no `/`
    have hden : qDen fl conv d = [] := by unfold qDen; simp [hd1]
    rw [hden, List.nil_append] at hlen ⊢
    have hsh : Shape conv.base conv.base [] body1 (List.replicate t ' ') := ⟨hnum_all, hsp, Or.inl ⟨rfl, hb, rfl⟩⟩
    have hvalid : ([] : List Char) = ['0'] ∨ body1 ≠ [] := Or.inr hnum_ne
    have hhead := shape_head _ _ _ _ _ hsh hvalid
    have hsok := signOK_of_head sg _ hsg hhead
    have hws : ∀ c, (sg ++ ([] ++ (body1 ++ List.replicate t ' '))).head? = some c → isSpace c = false := by
      intro c hc
      obtain ⟨c1, h1, -, -, h4⟩ := hhead
      rcases hsg with h | h | h <;> subst h
      · rw [List.nil_append, h1] at hc; cases hc; exact h4
      · simp at hc; subst hc; decide
      · simp at hc; subst hc; decide
    have hns : (List.replicate t ' ').head? ≠ some '/' := by cases t <;> simp [List.replicate_succ]
    have hlen2 : (sg ++ ([] ++ (body1 ++ List.replicate t ' '))).length < 2147483646 := by
      simp only [List.length_append, List.length_replicate, List.length_nil] at hlen ⊢; omega
    have hn : (List.replicate a ' ' ++ (sg ++ (body1 ++ List.replicate t ' '))).length - t = a + (sg.length + 0 + body1.length) := by
      simp only [List.length_append, List.length_replicate]; omega
    refine ⟨t, ?_, by simp only [List.length_append, List.length_replicate]; omega, ht⟩
    rw [doscan_Tn 'Q' (readConv conv) conv.base (Or.inr rfl) (readConv_convChar conv),
      show sg ++ (body1 ++ List.replicate t ' ') = sg ++ ([] ++ (body1 ++ List.replicate t ' ')) from rfl,
      skipWhite_spaces a _ hws]
    simp only
    rw [gmpscan_field_Q1 conv.base conv.base false sg [] body1 _ hsok hsh hvalid hns hlen2]
    have e2 : ¬ (((sg.length + 0 + body1.length : Nat) : Int) = -2) := by omega
    have e1 : ¬ (((sg.length + 0 + body1.length : Nat) : Int) = -1) := by omega
    simp only [valOuts, Bool.false_eq_true, if_false, Int.toNat_natCast, hvv, hn, hd1, List.cons_append, List.nil_append,
      List.length_nil]
    rw [if_neg e2, if_neg e1]
  · -- numerator / denominator
    have hsb : ∀ c ∈ qSb fl conv, isDigitIn conv.base c = true := by
      intro c hc
      rcases hb with h8 | h10 | h16
      · unfold qSb at hc; split at hc
        · simp [h8] at hc; rw [hc]; exact hz0
        · cases hc
      · unfold qSb at hc; split at hc
        · simp [h10] at hc
        · cases hc
      · rw [hsb16 h16 (Or.inr hd1)] at hc; cases hc
    have hsbv : strVal conv.base (qSb fl conv ++ natDigits conv.base conv.upper d.natAbs) = d.natAbs := by
      rcases hb with h8 | h10 | h16
      · unfold qSb; split
        · simp only [h8, show ¬ ((8 : Nat) = 16) by omega, if_false, if_true]
          have := strVal_zeros 8 1 (natDigits 8 conv.upper d.natAbs)
          rw [h8] at hvald
          simpa [hvald] using this
        · exact hvald
      · unfold qSb; split
        · simp only [h10, show ¬ ((10 : Nat) = 16) by omega, show ¬ ((10 : Nat) = 8) by omega, if_false, List.nil_append]
          rw [h10] at hvald; exact hvald
        · exact hvald
      · rw [hsb16 h16 (Or.inr hd1)]; exact hvald
    have hden : qDen fl conv d = '/' :: (qSb fl conv ++ natDigits conv.base conv.upper d.natAbs) := by unfold qDen; simp [hd1]
    have hden_all : ∀ c ∈ qSb fl conv ++ natDigits conv.base conv.upper d.natAbs, isDigitIn conv.base c = true := by
      intro c hc
      rcases List.mem_append.mp hc with h | h
      · exact hsb c h
      · exact hdigd c h
    have hden_ne : qSb fl conv ++ natDigits conv.base conv.upper d.natAbs ≠ [] := by
      intro h; exact natDigits_ne_nil _ _ _ (List.append_eq_nil_iff.mp h).2
    rw [hden] at hlen ⊢
    generalize qSb fl conv ++ natDigits conv.base conv.upper d.natAbs = body2 at *
    have hsh2 : Shape conv.base conv.base [] body2 (List.replicate t ' ') := ⟨hden_all, hsp, Or.inl ⟨rfl, hb, rfl⟩⟩
    have hsh1 : Shape conv.base conv.base [] body1 ('/' :: ([] ++ (body2 ++ List.replicate t ' '))) :=
      ⟨hnum_all, fun c hc => by simp at hc; rw [← hc]; exact hsl, Or.inl ⟨rfl, hb, rfl⟩⟩
    have hv1 : ([] : List Char) = ['0'] ∨ body1 ≠ [] := Or.inr hnum_ne
    have hv2 : ([] : List Char) = ['0'] ∨ body2 ≠ [] := Or.inr hden_ne
    have hhead1 := shape_head _ _ _ _ _ hsh1 hv1
    have hhead2 := shape_head _ _ _ _ _ hsh2 hv2
    have hsok1 := signOK_of_head sg _ hsg hhead1
    have hsok2 := signOK_of_head [] _ (Or.inl rfl) hhead2
    have hws : ∀ c, (sg ++ ([] ++ (body1 ++ '/' :: ([] ++ (body2 ++ List.replicate t ' '))))).head? = some c → isSpace c = false := by
      intro c hc
      obtain ⟨c1, h1, -, -, h4⟩ := hhead1
      rcases hsg with h | h | h <;> subst h
      · rw [List.nil_append, h1] at hc; cases hc; exact h4
      · simp at hc; subst hc; decide
      · simp at hc; subst hc; decide
    have hlen2 : (sg ++ ([] ++ (body1 ++ '/' :: ([] ++ (body2 ++ List.replicate t ' '))))).length < 2147483646 := by
      simp only [List.length_append, List.length_replicate, List.length_nil, List.length_cons] at hlen ⊢; omega
    have hn : (List.replicate a ' ' ++ (sg ++ (body1 ++ '/' :: (body2 ++ List.replicate t ' ')))).length - t =
        a + (sg.length + 0 + body1.length + 1 + 0 + body2.length) := by
      simp only [List.length_append, List.length_replicate, List.length_cons]; omega
    refine ⟨t, ?_, by simp only [List.length_append, List.length_replicate]; omega, ht⟩
    rw [doscan_Tn 'Q' (readConv conv) conv.base (Or.inr rfl) (readConv_convChar conv),
      show sg ++ (body1 ++ ('/' :: body2 ++ List.replicate t ' ')) =
        sg ++ ([] ++ (body1 ++ '/' :: ([] ++ (body2 ++ List.replicate t ' ')))) from by simp,
      skipWhite_spaces a _ hws]
    simp only
    rw [gmpscan_field_Q2 conv.base conv.base conv.base false sg [] body1 [] body2 _ hsok1 hsh1 hv1 hsok2 hsh2 hv2 hlen2]
    have e2 : ¬ (((sg.length + 0 + body1.length + 1 + 0 + body2.length : Nat) : Int) = -2) := by omega
    have e1 : ¬ (((sg.length + 0 + body1.length + 1 + 0 + body2.length : Nat) : Int) = -1) := by omega
    have hdd : ((strVal conv.base body2 : Nat) : Int) = d := by rw [hsbv]; omega
    simp only [valOuts, Bool.false_eq_true, if_false, Int.toNat_natCast, hvv, hdd, hn, List.cons_append, List.nil_append,
      List.length_nil]
    rw [if_neg e2, if_neg e1]


-- non-vacuity: non-canonical, negative, denominator 1, zeros in front of the numerator, octal `0` on both parts
example : String.ofList (layoutModelQ ['+'] (.num 9) (.num 7) .d 2 4) = " +00002/4" ∧
    view (doscan "%Qd%n".toList (layoutModelQ ['+'] (.num 9) (.num 7) .d 2 4)) = some (1, [2, 4, 9], "") := by decide +kernel
example : String.ofList (layoutModelQ ['#', '-'] (.num 9) .none .o (-5) 8) = "-05/010  " ∧
    view (doscan "%Qo%n".toList (layoutModelQ ['#', '-'] (.num 9) .none .o (-5) 8)) = some (1, [-5, 8, 7], "  ") := by decide +kernel
example : view (doscan "%QX%n".toList (layoutModelQ ['0'] (.num 6) .none .X (-255) 1)) = some (1, [-255, 1, 6], "") := by decide +kernel
-- the model text is the text of the format parser (`doprnt`) for that directive
example : (doprnt "%+9.7Qd".toList [.mpq 2 4]).map (fun r => callsBytes r.calls) = some (layoutModelQ ['+'] (.num 9) (.num 7) .d 2 4) ∧
    (doprnt "%#-*Qo".toList [.int 9, .mpq (-5) 8]).map (fun r => callsBytes r.calls) =
      some (layoutModelQ ['#', '-'] (.star 9) .none .o (-5) 8) := by decide +kernel
-- the exceptions are real: "/5" is no number; "0x5/0x8" stops %Qx at the x
example : String.ofList (layoutModelQ [] .none (.num 0) .d 0 5) = "/5" ∧
    view (doscan "%Qd%n".toList (layoutModelQ [] .none (.num 0) .d 0 5)) = some (0, [], "/5") := by decide +kernel
example : String.ofList (layoutModelQ ['#'] .none .none .x 5 8) = "0x5/0x8" ∧
    view (doscan "%Qx%n".toList (layoutModelQ ['#'] .none .none .x 5 8)) = some (1, [0, 1, 1], "x5/0x8") := by decide +kernel

/-- `print_scan_roundtrip_Qi` (item 2, `%Qi`): the text of `gmp_printf ("%<flags><width><prec>Q<conv>", q)` read by
    `gmp_sscanf (text, "%Qi%n", q, &n)`: the base is detected separately for numerator and denominator (doscan.c:314-327 resets
    `base`, mpq_set_str calls mpz_set_str with base 0 twice), so "0/0x5" (numerator octal zero, denominator hexadecimal)
    is read back as 0/5.  Returns 1, assigns exactly `n`/`d`, `%n` = length up to the `t` trailing blanks.  Exceptions, exactly:
    * `hdig` as in `print_scan_roundtrip_Q`;
    * `hhash`: o / x / X need `#` as soon as there is a non-zero numerator or a denominator to mark;
    * `hdec`: d / i / u of a non-zero numerator must not get a zero in front (precision counted on the WHOLE string
      "num/den", `0` flag in effect), which would be taken for the octal indicator;
    * `hlen` as before. -/
theorem print_scan_roundtrip_Qi (fl : List Char) (w : WidthArg) (p : PrecArg) (conv : Conv) (n d : Int) (hd : 0 < d)
    (hdig : ¬ (n = 0 ∧ precInt p = 0 ∧ ¬ ('#' ∈ fl ∧ conv = .o)))
    (hhash : conv.base ≠ 10 → (n ≠ 0 ∨ d ≠ 1) → '#' ∈ fl)
    (hdec : conv.base = 10 → n ≠ 0 → precInt p ≤ (qSlen p conv n d : Int) ∧
      (¬ '0' ∈ fl ∨ leftP fl w ∨ 0 ≤ precInt p ∨ cWidth w ≤ qSignLen fl n + qSlen p conv n d))
    (hlen : (layoutModelQ fl w p conv n d).length < 2147483646) :
    ∃ t, doscan ['%', 'Q', 'i', '%', 'n'] (layoutModelQ fl w p conv n d) =
        some { fields := 1, outs := [.q n d, .int (((layoutModelQ fl w p conv n d).length - t : Nat) : Int)],
               rest := List.replicate t ' ' } ∧
      t ≤ (layoutModelQ fl w p conv n d).length ∧ (¬ leftP fl w → t = 0) := by
  obtain ⟨a, k, t, htext, ht, hk8, hk0⟩ := layoutModelQ_shape fl w p conv n d hd
  rw [htext] at hlen ⊢
  have hRb : ∀ c, (List.replicate t ' ').head? = some c → c = '/' ∨ c = ' ' := by
    intro c hc; cases t with
    | zero => simp at hc
    | succ j => simp [List.replicate_succ] at hc; exact Or.inr hc.symm
  have hRq : ∀ c, (qDen fl conv d ++ List.replicate t ' ').head? = some c → c = '/' ∨ c = ' ' := by
    intro c hc
    unfold qDen at hc; split at hc
    · exact hRb c hc
    · simp at hc; exact Or.inl hc.symm
  obtain ⟨pre1, body1, b1, hkey1, hsh1, hv1, hval1⟩ := qi_num_key fl p conv n k _ hRq hdig
    (fun h1 h2 => hhash h1 (Or.inl h2)) hk8 (fun h10 hn => hk0 h10 (hdec h10 hn).1 (hdec h10 hn).2)
  rw [hkey1] at hlen ⊢
  obtain ⟨hsg, hsgneg⟩ := qSign_cases fl n
  generalize qSign fl n = sg at *
  have hvv : (if sg = ['-'] then -((strVal b1 body1 : Nat) : Int) else ((strVal b1 body1 : Nat) : Int)) = n := by
    rw [hval1]
    by_cases hv : n < 0
    · rw [if_pos (hsgneg.mpr hv)]; omega
    · rw [if_neg (fun h => hv (hsgneg.mp h))]; omega
  have hhead1 := shape_head _ _ _ _ _ hsh1 hv1
  have hsok1 := signOK_of_head sg _ hsg hhead1
  have hws : ∀ c, (sg ++ (pre1 ++ (body1 ++ (qDen fl conv d ++ List.replicate t ' ')))).head? = some c → isSpace c = false := by
    intro c hc
    obtain ⟨c1, h1, -, -, h4⟩ := hhead1
    rcases hsg with h | h | h <;> subst h
    · rw [List.nil_append, h1] at hc; cases hc; exact h4
    · simp at hc; subst hc; decide
    · simp at hc; subst hc; decide
  by_cases hd1 : d = 1
  · have hden : qDen fl conv d = [] := by unfold qDen; simp [hd1]
    rw [hden, List.nil_append] at hlen hsh1 hsok1 hws ⊢
    have hns : (List.replicate t ' ').head? ≠ some '/' := by cases t <;> simp [List.replicate_succ]
    have hlen2 : (sg ++ (pre1 ++ (body1 ++ List.replicate t ' '))).length < 2147483646 := by
      simp only [List.length_append, List.length_replicate] at hlen ⊢; omega
    have hn : (List.replicate a ' ' ++ (sg ++ (pre1 ++ (body1 ++ List.replicate t ' ')))).length - t =
        a + (sg.length + pre1.length + body1.length) := by
      simp only [List.length_append, List.length_replicate]; omega
    refine ⟨t, ?_, by simp only [List.length_append, List.length_replicate]; omega, ht⟩
    rw [doscan_Tn 'Q' 'i' 0 (Or.inr rfl) (by simp [ConvChar]), skipWhite_spaces a _ hws]
    simp only
    rw [gmpscan_field_Q1 0 b1 false sg pre1 body1 _ hsok1 hsh1 hv1 hns hlen2]
    have e2 : ¬ (((sg.length + pre1.length + body1.length : Nat) : Int) = -2) := by omega
    have e1 : ¬ (((sg.length + pre1.length + body1.length : Nat) : Int) = -1) := by omega
    simp only [valOuts, Bool.false_eq_true, if_false, Int.toNat_natCast, hvv, hn, hd1]
    rw [if_neg e2, if_neg e1]; rfl
  · have hden : qDen fl conv d = '/' :: (qSb fl conv ++ natDigits conv.base conv.upper d.natAbs) := by unfold qDen; simp [hd1]
    obtain ⟨pre2, body2, b2, hkey2, hsh2, hv2, hval2⟩ := qi_den_key fl conv d hd (List.replicate t ' ') hRb
      (fun h => hhash h (Or.inr hd1))
    rw [hden, hkey2, List.cons_append, List.append_assoc] at hlen hsh1 hsok1 hws ⊢
    have hhead2 := shape_head _ _ _ _ _ hsh2 hv2
    have hsok2 := signOK_of_head [] _ (Or.inl rfl) hhead2
    have hlen2 : (sg ++ (pre1 ++ (body1 ++ '/' :: (pre2 ++ (body2 ++ List.replicate t ' '))))).length < 2147483646 := by
      simp only [List.length_append, List.length_replicate, List.length_cons] at hlen ⊢; omega
    have hn : (List.replicate a ' ' ++ (sg ++ (pre1 ++ (body1 ++ '/' :: (pre2 ++ (body2 ++ List.replicate t ' ')))))).length - t =
        a + (sg.length + pre1.length + body1.length + 1 + pre2.length + body2.length) := by
      simp only [List.length_append, List.length_replicate, List.length_cons]; omega
    refine ⟨t, ?_, by simp only [List.length_append, List.length_replicate, List.length_cons]; omega, ht⟩
    rw [doscan_Tn 'Q' 'i' 0 (Or.inr rfl) (by simp [ConvChar]), skipWhite_spaces a _ hws]
    simp only
    rw [gmpscan_field_Q2 0 b1 b2 false sg pre1 body1 pre2 body2 _ hsok1 hsh1 hv1 hsok2 hsh2 hv2 hlen2]
    have e2 : ¬ (((sg.length + pre1.length + body1.length + 1 + pre2.length + body2.length : Nat) : Int) = -2) := by omega
    have e1 : ¬ (((sg.length + pre1.length + body1.length + 1 + pre2.length + body2.length : Nat) : Int) = -1) := by omega
    have hdd : ((strVal b2 body2 : Nat) : Int) = d := by rw [hval2]; omega
    simp only [valOuts, Bool.false_eq_true, if_false, Int.toNat_natCast, hvv, hdd, hn]
    rw [if_neg e2, if_neg e1]; rfl

-- non-vacuity: mixed bases in one rational (octal zero over a hexadecimal denominator), prefixes on both parts, decimal
example : String.ofList (layoutModelQ ['#'] .none .none .x 0 5) = "0/0x5" ∧
    view (doscan "%Qi%n".toList (layoutModelQ ['#'] .none .none .x 0 5)) = some (1, [0, 5, 5], "") := by decide +kernel
example : String.ofList (layoutModelQ ['#', '0'] (.num 12) .none .X (-255) 16) = "-0X00FF/0X10" ∧
    view (doscan "%Qi%n".toList (layoutModelQ ['#', '0'] (.num 12) .none .X (-255) 16)) = some (1, [-255, 16, 12], "") := by
  decide +kernel
example : view (doscan "%Qi%n".toList (layoutModelQ ['#', '-'] (.num 9) (.num 7) .o 5 8)) = some (1, [5, 8, 8], " ") ∧
    view (doscan "%Qi%n".toList (layoutModelQ [' '] (.num 9) .none .d (-10) 3)) = some (1, [-10, 3, 9], "") := by decide +kernel
-- exception: the precision counts "19/3" as 4 characters, so .5 puts one zero in front: octal 1, stops at the 9
example : String.ofList (layoutModelQ [] .none (.num 5) .d 19 3) = "019/3" ∧
    view (doscan "%Qi%n".toList (layoutModelQ [] .none (.num 5) .d 19 3)) = some (1, [1, 1, 2], "9/3") := by decide +kernel

end Mpir.Scanf
