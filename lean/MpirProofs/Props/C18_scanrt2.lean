/-
  C18, scanf side, second part — `%Zi` (base detection) and `%Q` round trips.  Property theorems only; helper
  lemmas are in MpirProofs/Lemmas/ScanfI.lean (field reader for every scan base) and Lemmas/ScanfQ.lean (text of `%Q`).
  Models: Mpir/Model/Printf.lean (`layoutModel`, `doprntIntegerG`), Mpir/Model/Scanf.lean (`doscan`, `gmpscan`);
  tie: ops gmp_rt_Z / gmp_rtf_Z / gmp_rt_Q / gmp_rtf_Q (harness/ops_scanrt.c) on the grids of tools/props/c18_scanrt2.py.
-/
import MpirProofs.Props.C18_scanrt
import MpirProofs.Lemmas.ScanfI
namespace Mpir.Scanf
open Mpir.Printf

/-- when pad = 0 the `0` flag has no effect on the C99 layout -/
theorem layoutFrom_zero_irrel (f : Flags) (width : Nat) (prec : Option Nat) (base : Nat) (upper : Bool)
    (sign : List Char) (mag : Nat) (ds0 : List Char)
    (hw : width ≤ sign.length + ds0.length) :
    layoutFrom f width prec base upper sign mag ds0 = layoutFrom { f with zero := false } width prec base upper sign mag ds0 := by
  unfold layoutFrom
  simp only
  have hpad : ∀ (pre ds1 : List Char), width - (sign.length + pre.length + (List.replicate (prec.getD 1 - ds0.length) '0' ++ ds1 ++ ds0).length) = 0 := by
    intro pre ds1; simp only [List.length_append]; omega
  have h0 : ∀ (pre : List Char) (ds : List Char), ds0.length ≤ ds.length → width - (sign.length + pre.length + ds.length) = 0 := by
    intro pre ds h; omega
  generalize hds : (if f.hash = true ∧ base = 8 ∧ (List.replicate (prec.getD 1 - ds0.length) '0' ++ ds0).head? ≠ some '0'
    then '0' :: (List.replicate (prec.getD 1 - ds0.length) '0' ++ ds0) else List.replicate (prec.getD 1 - ds0.length) '0' ++ ds0) = ds
  have hl : ds0.length ≤ ds.length := by
    rw [← hds]; split <;> simp only [List.length_cons, List.length_append] <;> omega
  rw [h0 _ ds hl]
  simp

/-- `print_scan_roundtrip_Zi` (item 1): for EVERY mpz value `v`, every list of flag characters, every width and precision
    form (as in `print_scan_roundtrip_Z`) and every conversion d i u o x X: `gmp_sscanf (text, "%Zi%n", x, &n)` — base
    detection: leading `0x`/`0X` hexadecimal, leading `0` octal, else decimal (doscan.c:246-266, then mpz_set_str with
    base 0) — applied to the text of `gmp_printf ("%<flags><width><prec>Z<conv>", v)` returns 1, assigns exactly `v`, and
    `%n` = the length of the text up to the `t` trailing blanks of left adjustment, which are what is left unread.
    Precision zeros and `0`-flag zeros after a `0x`/`0X` prefix or after the `0` of `%#Zo` are read as leading zeros of
    that base.  The exceptions, exactly:
    * `hdig`: no digit printed (value 0 with precision 0; `%#.0Zo` of 0 prints "0" and is read back);
    * `hhash`: a non-zero value printed by o / x / X carries its base only with the `#` flag ("17" is read as decimal,
      "ff" is no number); the value 0 needs no `#`: it prints as zeros only (`%#Zo`, `%#Zx` of 0 print "0": octal zero);
    * `hdec`: a non-zero value printed by d / i / u must not get a zero in front of its first digit, which `%Zi` would
      take for the octal indicator ("0019" reads as 1, "0017" as 15): the precision does not exceed the number of digits,
      and the `0` flag is not in effect (absent, or cancelled by `-` or a precision, or the width needs no padding);
    * `hlen`: the text is shorter than INT_MAX-1 characters (doscan.c:230 cuts a field there). -/
theorem print_scan_roundtrip_Zi (fl : List Char) (w : WidthArg) (p : PrecArg) (conv : Conv) (v : Int)
    (hp : p ≠ .dot)
    (hdig : ¬ (v = 0 ∧ cPrec p = some 0 ∧ ¬ ('#' ∈ fl ∧ conv = .o)))
    (hhash : conv.base ≠ 10 → v ≠ 0 → '#' ∈ fl)
    (hdec : conv.base = 10 → v ≠ 0 →
      (cPrec p).getD 1 ≤ (natDigits conv.base conv.upper v.natAbs).length ∧
      (¬ '0' ∈ fl ∨ (cFlags fl w).minus = true ∨ (cPrec p).isSome = true ∨
        cWidth w ≤ (signChars (cFlags fl w) (decide (v < 0))).length + (natDigits conv.base conv.upper v.natAbs).length))
    (hlen : (layoutModel fl w p conv v).length < 2147483646) :
    ∃ t, doscan ['%', 'Z', 'i', '%', 'n'] (layoutModel fl w p conv v) =
        some { fields := 1, outs := [.z v, .int (((layoutModel fl w p conv v).length - t : Nat) : Int)],
               rest := List.replicate t ' ' } ∧
      t ≤ (layoutModel fl w p conv v).length ∧ ((cFlags fl w).minus = false → t = 0) := by
  have hx' : ¬ ('#' ∈ fl ∧ cPrec p = some 0 ∧ v = 0 ∧ conv.base = 16) := by
    rintro ⟨h1, h2, h3, h4⟩
    apply hdig
    refine ⟨h3, h2, ?_⟩
    rintro ⟨-, h6⟩; rw [h6] at h4; cases h4
  rw [layoutModel_eq_spec fl w p conv v hp hx'] at hlen ⊢
  unfold gmpLayoutSpec at hlen ⊢
  have hcb := conv_ConvBase conv
  have hb := ConvBase_base _ _ hcb
  have hb2 : 2 ≤ conv.base := by omega
  have hb36 : conv.base ≤ 36 := by omega
  -- the flags used for the shape: without the `0` flag when the width needs no padding
  obtain ⟨f, hfeq, hfm, hfh, hfsign, hfz⟩ : ∃ f : Flags,
      layoutCore (cFlags fl w) (cWidth w) (cPrec p) conv.base conv.upper (signChars (cFlags fl w) (decide (v < 0))) v.natAbs =
        layoutCore f (cWidth w) (cPrec p) conv.base conv.upper (signChars f (decide (v < 0))) v.natAbs ∧
      f.minus = (cFlags fl w).minus ∧ f.hash = (cFlags fl w).hash ∧
      printedSign f (decide (v < 0)) = printedSign (cFlags fl w) (decide (v < 0)) ∧
      (conv.base = 10 → v ≠ 0 → (f.zero = false ∨ f.minus = true ∨ (cPrec p).isSome = true)) := by
    by_cases hsmall : conv.base = 10 ∧ v ≠ 0 ∧
        cWidth w ≤ (signChars (cFlags fl w) (decide (v < 0))).length + (natDigits conv.base conv.upper v.natAbs).length
    · refine ⟨{ (cFlags fl w) with zero := false }, ?_, rfl, rfl, rfl, fun _ _ => Or.inl rfl⟩
      have hs : signChars { (cFlags fl w) with zero := false } (decide (v < 0)) = signChars (cFlags fl w) (decide (v < 0)) := rfl
      rw [hs]
      unfold layoutCore
      have hm : ¬ (v.natAbs = 0 ∧ (cPrec p).getD 1 = 0) := fun h => hsmall.2.1 (by omega)
      rw [if_neg hm]
      exact layoutFrom_zero_irrel _ _ _ _ _ _ _ _ hsmall.2.2
    · refine ⟨cFlags fl w, rfl, rfl, rfl, rfl, fun h10 hv => ?_⟩
      rcases (hdec h10 hv).2 with h | h | h | h
      · left; simpa [cFlags] using h
      · right; left; exact h
      · right; right; exact h
      · exact absurd ⟨h10, hv, h⟩ hsmall
  rw [hfeq] at hlen ⊢
  obtain ⟨a, k, t, htext, ht, hk8, hk0⟩ :=
    layoutCore_shape f (cWidth w) (cPrec p) conv.base conv.upper (decide (v < 0)) v.natAbs
  rw [htext] at hlen ⊢
  rw [hfsign] at hlen ⊢
  rw [hfm] at ht
  have hhashf : f.hash = true ↔ '#' ∈ fl := by rw [hfh]; simp [cFlags]
  obtain ⟨hval, hdigs⟩ := natDigits_props conv.base conv.upper (by omega) (digitChar_props _ _ hcb) v.natAbs
  have hsp : ∀ b, b = 8 ∨ b = 10 ∨ b = 16 → ∀ c, (List.replicate t ' ').head? = some c → isDigitIn b c = false := by
    intro b hb c hc
    cases t with
    | zero => simp at hc
    | succ n =>
      simp [List.replicate_succ] at hc; subst hc
      rcases hb with h | h | h <;> rw [h] <;> decide
  have hz0 : ∀ b, b = 8 ∨ b = 10 ∨ b = 16 → isDigitIn b '0' = true := by
    intro b hb; rcases hb with h | h | h <;> rw [h] <;> decide
  -- the field: base indicator, digits, value
  have key : ∃ pre body b, printedPrefix f conv.base conv.upper v.natAbs ++
        (List.replicate k '0' ++ (printedDigits (cPrec p) conv.base conv.upper v.natAbs ++ List.replicate t ' ')) =
        pre ++ (body ++ List.replicate t ' ') ∧
      Shape 0 b pre body (List.replicate t ' ') ∧ (pre = ['0'] ∨ body ≠ []) ∧ strVal b body = v.natAbs := by
    by_cases hv : v = 0
    · -- zeros only
      have hm : v.natAbs = 0 := by omega
      have hpre : printedPrefix f conv.base conv.upper v.natAbs = [] := by
        unfold printedPrefix; rw [if_neg]; rintro ⟨-, -, h⟩; exact h hm
      obtain ⟨m, hm1⟩ : ∃ m, List.replicate k '0' ++ printedDigits (cPrec p) conv.base conv.upper v.natAbs =
          '0' :: List.replicate m '0' := by
        unfold printedDigits at hk8 ⊢
        rw [hm, natDigits_zero] at hk8 ⊢
        split
        · rename_i h3
          have hk1 : 1 ≤ k := by
            by_contra hk
            apply hdig
            refine ⟨hv, ?_, ?_⟩
            · have := h3.2; cases hcp : cPrec p <;> simp_all
            · intro h4
              have := hk8 ⟨hhashf.mpr h4.1, by rw [h4.2]; rfl⟩
              rw [if_pos h3] at this
              rcases this with h5 | h5
              · omega
              · cases h5
          exact ⟨k - 1, by rw [List.append_nil, ← List.replicate_succ]; congr 1; omega⟩
        · exact ⟨k, by rw [← List.replicate_succ, List.replicate_succ']⟩
      refine ⟨['0'], List.replicate m '0', 8, ?_, ⟨?_, hsp 8 (by simp), Or.inr (Or.inr (Or.inl ⟨rfl, rfl, rfl, ?_, ?_⟩))⟩,
        Or.inl rfl, ?_⟩
      · rw [hpre, List.nil_append, ← List.append_assoc, hm1]; rfl
      · intro c hc; rw [(List.mem_replicate.mp hc).2]; decide
      · cases m <;> cases t <;> simp [List.replicate_succ]
      · cases m <;> cases t <;> simp [List.replicate_succ]
      · have := strVal_zeros 8 m []; rw [List.append_nil] at this; rw [this, hm]; rfl
    · have hm : v.natAbs ≠ 0 := by omega
      have hpd : printedDigits (cPrec p) conv.base conv.upper v.natAbs = natDigits conv.base conv.upper v.natAbs := by
        unfold printedDigits; rw [if_neg]; rintro ⟨h, -⟩; exact hm h
      have hhd := natDigits_head_ne_zero conv.base conv.upper hb2 hb36 v.natAbs hm
      have hne := natDigits_ne_nil conv.base conv.upper v.natAbs
      rw [hpd] at hk8 hk0 ⊢
      generalize natDigits conv.base conv.upper v.natAbs = ds at *
      obtain ⟨d0, dt, rfl⟩ : ∃ d0 dt, ds = d0 :: dt := by
        cases ds with
        | nil => exact absurd rfl hne
        | cons c t => exact ⟨c, t, rfl⟩
      have hd0 : d0 ≠ '0' := by simpa using hhd
      have hd0s := digit_not_special conv.base d0 (hdigs d0 List.mem_cons_self)
      rcases hb with h8 | h10 | h16
      · -- octal with `#`
        have hh : '#' ∈ fl := hhash (by rw [h8]; decide) hv
        have hpre : printedPrefix f conv.base conv.upper v.natAbs = [] := by
          unfold printedPrefix; rw [if_neg]; rintro ⟨-, h, -⟩; omega
        have hk1 : 1 ≤ k := by
          rcases hk8 ⟨hhashf.mpr hh, h8⟩ with h | h
          · exact h
          · simp at h; exact absurd h hd0
        obtain ⟨k', rfl⟩ : ∃ k', k = k' + 1 := ⟨k - 1, by omega⟩
        rw [h8] at hval hdigs
        refine ⟨['0'], List.replicate k' '0' ++ (d0 :: dt), 8, ?_,
          ⟨?_, hsp 8 (by simp), Or.inr (Or.inr (Or.inl ⟨rfl, rfl, rfl, ?_, ?_⟩))⟩, Or.inl rfl, ?_⟩
        · rw [hpre]; simp [List.replicate_succ]
        · intro c hc
          rcases List.mem_append.mp hc with h | h
          · rw [(List.mem_replicate.mp h).2]; decide
          · exact hdigs c h
        · cases k' with
          | zero => simpa using hd0s.2.2.2.1
          | succ n => simp [List.replicate_succ]
        · cases k' with
          | zero => simpa using hd0s.2.2.2.2.1
          | succ n => simp [List.replicate_succ]
        · rw [strVal_zeros]; exact hval
      · -- decimal
        have hpre : printedPrefix f conv.base conv.upper v.natAbs = [] := by
          unfold printedPrefix; rw [if_neg]; rintro ⟨-, h, -⟩; omega
        have hk : k = 0 := hk0 (hdec h10 hv).1 (hfz h10 hv) (by rintro ⟨-, h⟩; omega)
        rw [h10] at hval hdigs
        refine ⟨[], d0 :: dt, 10, ?_, ⟨hdigs, hsp 10 (by simp), Or.inr (Or.inl ⟨rfl, rfl, rfl, by simpa using hd0⟩)⟩,
          Or.inr (by simp), hval⟩
        rw [hpre, hk]; simp
      · -- hexadecimal with `#`
        have hh : '#' ∈ fl := hhash (by rw [h16]; decide) hv
        have hpre : printedPrefix f conv.base conv.upper v.natAbs = (if conv.upper then ['0', 'X'] else ['0', 'x']) := by
          unfold printedPrefix; rw [if_pos ⟨hhashf.mpr hh, h16, hm⟩]
        rw [h16] at hval hdigs
        refine ⟨if conv.upper then ['0', 'X'] else ['0', 'x'], List.replicate k '0' ++ (d0 :: dt), 16, ?_,
          ⟨?_, hsp 16 (by simp), Or.inr (Or.inr (Or.inr ⟨rfl, rfl, ?_⟩))⟩, Or.inr (by simp), ?_⟩
        · rw [hpre]; simp
        · intro c hc
          rcases List.mem_append.mp hc with h | h
          · rw [(List.mem_replicate.mp h).2]; decide
          · exact hdigs c h
        · cases conv.upper <;> simp
        · rw [strVal_zeros]; exact hval
  obtain ⟨pre, body, b, hkey, hsh, hvalid, hbv⟩ := key
  rw [hkey] at hlen ⊢
  have hsg : printedSign (cFlags fl w) (decide (v < 0)) = [] ∨ printedSign (cFlags fl w) (decide (v < 0)) = ['-'] ∨
      printedSign (cFlags fl w) (decide (v < 0)) = ['+'] := by
    unfold printedSign; split
    · right; left; rfl
    · split
      · right; right; rfl
      · left; rfl
  have hsgneg : printedSign (cFlags fl w) (decide (v < 0)) = ['-'] ↔ v < 0 := by
    unfold printedSign; split
    · rename_i h; simpa using h
    · rename_i h; split <;> simpa using h
  generalize printedSign (cFlags fl w) (decide (v < 0)) = sg at *
  have hhead := shape_head 0 b pre body _ hsh hvalid
  have hsok := signOK_of_head sg _ hsg hhead
  have hws : ∀ c, (sg ++ (pre ++ (body ++ List.replicate t ' '))).head? = some c → isSpace c = false := by
    intro c hc
    obtain ⟨c1, h1, -, -, h4⟩ := hhead
    rcases hsg with h | h | h <;> subst h
    · rw [List.nil_append, h1] at hc; cases hc; exact h4
    · simp at hc; subst hc; decide
    · simp at hc; subst hc; decide
  have hlen2 : (sg ++ (pre ++ (body ++ List.replicate t ' '))).length < 2147483646 := by
    simp only [List.length_append, List.length_replicate] at hlen ⊢; omega
  have hvv : (if sg = ['-'] then -((strVal b body : Nat) : Int) else ((strVal b body : Nat) : Int)) = v := by
    rw [hbv]
    by_cases hv : v < 0
    · rw [if_pos (hsgneg.mpr hv)]; omega
    · rw [if_neg (fun h => hv (hsgneg.mp h))]; omega
  have hn : (List.replicate a ' ' ++ (sg ++ (pre ++ (body ++ List.replicate t ' ')))).length - t =
      a + (sg.length + pre.length + body.length) := by
    simp only [List.length_append, List.length_replicate]; omega
  refine ⟨t, ?_, by simp only [List.length_append, List.length_replicate]; omega, ht⟩
  rw [doscan_Tn 'Z' 'i' 0 (Or.inl rfl) (by simp [ConvChar]), skipWhite_spaces a _ hws]
  simp only
  rw [gmpscan_field_Z 0 b false sg pre body _ hsok hsh hvalid hlen2]
  have e2 : ¬ (((sg.length + pre.length + body.length : Nat) : Int) = -2) := by omega
  have e1 : ¬ (((sg.length + pre.length + body.length : Nat) : Int) = -1) := by omega
  simp only [e2, e1, if_false, valOuts, Bool.false_eq_true, Int.toNat_natCast, hvv, hn, List.cons_append, List.nil_append]

-- non-vacuity: the three base indicators, zeros after the prefix, blanks on both sides
example : String.ofList (layoutModel ['#', '0'] (.num 9) .none .x (-255)) = "-0x0000ff" ∧
    view (doscan "%Zi%n".toList (layoutModel ['#', '0'] (.num 9) .none .x (-255))) = some (1, [-255, 9], "") := by decide +kernel
example : String.ofList (layoutModel ['#', '-'] (.num 9) (.num 5) .X 255) = "0X000FF  " ∧
    view (doscan "%Zi%n".toList (layoutModel ['#', '-'] (.num 9) (.num 5) .X 255)) = some (1, [255, 7], "  ") := by decide +kernel
example : String.ofList (layoutModel ['#'] (.num 6) .none .o 15) = "   017" ∧
    view (doscan "%Zi%n".toList (layoutModel ['#'] (.num 6) .none .o 15)) = some (1, [15, 6], "") := by decide +kernel
example : view (doscan "%Zi%n".toList (layoutModel ['+'] (.num 6) .none .d 190)) = some (1, [190, 6], "") ∧
    view (doscan "%Zi%n".toList (layoutModel ['#'] .none (.num 3) .o 0)) = some (1, [0, 3], "") := by decide +kernel
-- the `0` flag without effect (width 3 needs no padding) is inside the theorem; with effect it is the exception:
example : view (doscan "%Zi%n".toList (layoutModel ['0'] (.num 3) .none .d 190)) = some (1, [190, 3], "") := by decide +kernel
-- the exceptions are real: "0019" is octal 1 then stops at the 9; "17" printed by %Zo is decimal 17; "ff" is no number
example : String.ofList (layoutModel [] .none (.num 4) .d 19) = "0019" ∧
    view (doscan "%Zi%n".toList (layoutModel [] .none (.num 4) .d 19)) = some (1, [1, 3], "9") := by decide +kernel
example : view (doscan "%Zi%n".toList (layoutModel ['0'] (.num 4) .none .d 17)) = some (1, [15, 4], "") := by decide +kernel
example : view (doscan "%Zi%n".toList (layoutModel [] .none .none .o 15)) = some (1, [17, 2], "") ∧
    view (doscan "%Zi%n".toList (layoutModel [] .none .none .x 255)) = some (0, [], "ff") := by decide +kernel

end Mpir.Scanf
