/-
  C18, part `c18_flayout` — the float layout of printf/doprntf.c equals the C99-style specification `specF`.
  Property theorems only; helper lemmas live in MpirProofs/Lemmas/PrintfF.lean.  The theorems are about the
  executable model `Mpir.PrintfF.layoutOn` / `request` / `floatParams` (lean/Mpir/Model/PrintfF.lean), which the
  correspondence run compares with the real `__gmp_doprnt_mpf` (op `doprnt_mpf_direct`) and, through the format
  parser, with `gmp_snprintf` (op `gmp_snprintf_Fspec`, answered from `specF`).
-/
import MpirProofs.Lemmas.PrintfF
import MpirProofs.Lemmas.MpfStrGet
namespace Mpir.PrintfF
open Mpir Mpir.Printf

/-- **`doprntf_eq_spec`.**  For every list of flag characters (any order, repeats), every width form {none, number,
    `*` with any int, negative = left adjustment}, every precision form {none, `.`, number, `*` with any int, negative =
    none} and every conversion f e E g G a A; for every operand precision and exponent; for every answer `(neg, ds, x)`
    of mpf_get_str to the request doprntf.c makes — the empty string with exponent 0 for zero (get_str.c:161-167), or
    digits satisfying its specification `MpfStr.GetOk` for the digit count worked to — the bytes the model of
    `__gmp_doprnt_mpf` produces are exactly `specF`: C99's sign / digit placement / precision / `#` / padding rules with
    the deviations D-F1 … D-F4 written into the specification. -/
theorem doprntf_eq_spec (fl : List Char) (w : WidthArg) (p : PrecArg) (c : FConv) (fprec : Nat) (fexp : Int)
    (neg : Bool) (ds : List Nat) (x : Int) (num den : Nat)
    (h : (ds = [] ∧ x = 0) ∨
      MpfStr.GetOk c.base ds x (workDigits (fSpecParams fl w p c) fprec fexp) num den = true) :
    layoutModelF fl w p c fprec fexp neg ds x =
      specF c (cFlags fl w) (cWidth w) (cPrecF p) (MpfStr.maxDigits c.base fprec) neg ds x := by
  unfold layoutModelF
  simp only [fSpecParams_closed]
  apply layoutOn_closed
  intro hnil
  rcases h with h | h
  · exact h.2
  · subst hnil
    simp [MpfStr.GetOk] at h

/-- The layout equality itself needs nothing of the digits but "the empty string comes with exponent 0"
    (what `GetOk` adds is the meaning of the digits: see `ndigits_sufficient`). -/
theorem doprntf_eq_spec_any (fl : List Char) (w : WidthArg) (p : PrecArg) (c : FConv) (fprec : Nat) (fexp : Int)
    (neg : Bool) (ds : List Nat) (x : Int) (hz : ds = [] → x = 0) :
    layoutModelF fl w p c fprec fexp neg ds x =
      specF c (cFlags fl w) (cWidth w) (cPrecF p) (MpfStr.maxDigits c.base fprec) neg ds x := by
  unfold layoutModelF
  simp only [fSpecParams_closed]
  exact layoutOn_closed _ _ _ _ _ _ _ _ _ hz

/-- the same for the `String` -/
theorem doprntf_eq_spec_string (fl : List Char) (w : WidthArg) (p : PrecArg) (c : FConv) (fprec : Nat) (fexp : Int)
    (neg : Bool) (ds : List Nat) (x : Int) (hz : ds = [] → x = 0) :
    String.ofList (layoutModelF fl w p c fprec fexp neg ds x) =
      String.ofList (specF c (cFlags fl w) (cWidth w) (cPrecF p) (MpfStr.maxDigits c.base fprec) neg ds x) := by
  rw [doprntf_eq_spec_any fl w p c fprec fexp neg ds x hz]

-- non-vacuity: the hypothesis holds for 3.14159 asked to 8 digits (%f with precision 6 of a value with EXP = 1:
-- 6 + 2 + 1·20 = 28 requested, capped at MPF_SIGNIFICANT_DIGITS = 21 for a 2-limb precision), and both sides are the text
example : workDigits (fSpecParams ['+'] (.num 12) .none .f) 2 1 = 21 := by decide +kernel
example : MpfStr.GetOk 10 [3, 1, 4, 1, 5, 9] 1 21 314159 100000 = true := by decide +kernel
example : String.ofList (layoutModelF ['+'] (.num 12) .none .f 2 1 false [3, 1, 4, 1, 5, 9] 1) = "   +3.141590" ∧
    String.ofList (specF .f (cFlags ['+'] (.num 12)) 12 .dflt 21 false [3, 1, 4, 1, 5, 9] 1) = "   +3.141590" := by decide +kernel
-- the specification on its own, one line per rule
example : String.ofList (specF .f {} 0 (.num 2) 21 false [1, 2, 5] 0) = "0.13" := by decide +kernel                   -- D-F2/D-F3 second rounding of 0.125
example : String.ofList (specF .f {} 0 (.num 0) 21 false [2, 5] 1) = "3" := by decide +kernel                         -- D-F3 tie away from zero
example : String.ofList (specF .f { hash := true } 0 (.num 0) 21 false [2, 5] 1) = "3." := by decide +kernel          -- `#` keeps the point
example : String.ofList (specF .f {} 0 (.num 1) 21 false [9, 9, 9, 6] 2) = "100.0" := by decide +kernel               -- 99.96 -> carry out of the top digit
example : String.ofList (specF .f {} 0 (.num 3) 21 true [4] (-3)) = "-0.000" := by decide +kernel                     -- −0.0004 rounds to zero, sign kept
example : String.ofList (specF .f {} 0 .all 21 false [1, 2, 5] (-2)) = "0.00125" := by decide +kernel                 -- `%.Ff`: all digits
example : String.ofList (specF .e { zero := true, plus := true } 14 .dflt 21 false [1, 5] 3) = "+01.500000e+02" := by decide +kernel
example : String.ofList (specF .E { minus := true, zero := true } 12 (.num 2) 21 true [1] (-120)) = "-1.00E-121  " := by decide +kernel
example : String.ofList (specF .e {} 0 (.num 0) 21 false [] 0) = "0e+00" := by decide +kernel
example : String.ofList (specF .g {} 0 .dflt 21 false [1] 6) = "100000" ∧ String.ofList (specF .g {} 0 .dflt 21 false [1] 7) = "1e+06" := by
  decide +kernel                                                                                                      -- X ≥ P switches to style e
example : String.ofList (specF .g {} 0 .dflt 21 false [1] (-3)) = "0.0001" ∧ String.ofList (specF .g {} 0 .dflt 21 false [1] (-4)) = "1e-05" := by
  decide +kernel                                                                                                      -- X < −4 switches to style e
example : String.ofList (specF .g { hash := true } 0 (.num 3) 21 false [1, 5] 1) = "1.50" ∧
    String.ofList (specF .g { hash := true } 0 (.num 3) 21 false [5] 0) = "0.50" := by decide +kernel                 -- D-F1: C99 "0.500"
example : String.ofList (specF .G {} 0 (.num 0) 21 false [3] 12) = "3E+11" := by decide +kernel                       -- P = 1 for precision 0
example : String.ofList (specF .a {} 0 .dflt 21 false [1, 8] 1) = "0x1.8p+0" ∧
    String.ofList (specF .A { hash := true } 12 (.num 0) 21 true [1] 0) = "     -0X1P-4" := by decide +kernel            -- D-F4: `#` ignored

/-- **The parser's side.**  The float conversion characters of `__gmp_doprnt` (doprnt.c) do nothing but compute
    `floatParams` and call `__gmp_doprnt_mpf` with it (`Printf.doFloat` is the code merged on main; `floatParams` is the
    copy the layout theorem speaks about). -/
theorem doFloat_is_floatParams (old : Bool) (ps : PS) (tp : List Char) (c : Char) (st : DS) :
    doFloat old ps tp c st =
      if ps.type = 'F' then
        match flush st tp with
        | some st => (match st.ap with
          | .mpf fprec neg limbs fexp :: as =>
              some (({ st with ap := as }.emit (doprntMpf (floatParams old ps c) fprec neg limbs fexp)).sync)
          | _ => none)
        | none => none
      else none := doFloat_eq old ps tp c st

example : (fSpecParams ['#', '0'] (.star (-9)) (.star (-1)) .G).justify = .left ∧ (fSpecParams ['#', '0'] (.star (-9)) (.star (-1)) .G).fill = ' ' ∧
    (fSpecParams ['#', '0'] (.star (-9)) (.star (-1)) .G).prec = 6 ∧ (fSpecParams ['#', '0'] (.star (-9)) (.star (-1)) .G).width = 9 := by decide

end Mpir.PrintfF
