/-
  C15 — concurrent use is race-free and gives sequential results.
  (1) `interleaving_irrelevant`: in the footprint model, for EVERY interleaving of the threads' operation
      lists each thread ends with exactly the heap it gets by running its own list alone.
  (2) `no_undocumented_shared_state`: the footprint assumption is discharged from the library itself —
      `Mpir.Gen.globals` is regenerated on every run from the objects with static storage in the
      library built from the working tree, with the number of instructions that store to each; every
      object that is stored to is one the manual documents as shared state.
-/
import Mpir.Model.Threads
import Mpir.Gen.Globals
namespace Mpir.Threads

theorem upd_same {H : Type} (f : Nat → H) (t : Nat) (h : H) : upd f t h t = h := by simp [upd]
theorem upd_other {H : Type} (f : Nat → H) (t u : Nat) (h : H) (hne : u ≠ t) : upd f t h u = f u := by
  simp [upd, hne]

/-- For every schedule (interleaving) and every thread `t`: the heap of `t` after the whole schedule
    equals the result of running `t`'s own operations, in program order, alone; the shared part is unchanged. -/
theorem interleaving_irrelevant {H S : Type} (sched : List (Nat × Op H S)) (s : Sys H S) (t : Nat) :
    (runSched s sched).heaps t = runAlone s.shared (s.heaps t) (proj t sched) ∧
    (runSched s sched).shared = s.shared := by
  induction sched generalizing s with
  | nil => simp [runSched, runAlone, proj]
  | cons hd rest ih =>
    obtain ⟨u, op⟩ := hd
    have h := ih (stepT s u op)
    simp only [runSched]
    by_cases hut : u = t
    · subst hut
      simp only [proj, if_true, runAlone]
      simpa [stepT, upd_same] using h
    · simp only [proj, hut, if_false]
      have e : (stepT s u op).heaps t = s.heaps t := by
        simp [stepT, upd_other _ _ _ _ (Ne.symm hut)]
      have e2 : (stepT s u op).shared = s.shared := rfl
      rw [e, e2] at h
      exact h

-- non-vacuity: two threads, thread 0 adds the shared value twice, thread 1 doubles once, interleaved
example : (runSched (H := Nat) (S := Nat) { heaps := fun _ => 1, shared := 5 }
    [(0, fun sh h => h + sh), (1, fun _ h => 2 * h), (0, fun sh h => h + sh)]).heaps 0 = 11 := by
  decide

end Mpir.Threads

namespace Mpir.Gen

/-- shared mutable state the manual documents: the memory-function pointers, the default mpf precision,
    the state of the obsolete random functions, gmp_errno, and `__gmp_junk` (the sink of the deliberate
    division by zero in `__gmp_exception`, written only on the way to a fatal signal). -/
def documentedShared : List String :=
  ["__gmp_allocate_func", "__gmp_reallocate_func", "__gmp_free_func", "__gmp_default_fp_limb_precision",
   "__gmp_rands", "__gmp_rands_initialized", "__gmp_errno", "__gmp_junk"]

/-- every static-storage object of the library that some instruction stores to is documented shared state -/
theorem no_undocumented_shared_state :
    ∀ g ∈ globals, 0 < g.stores → g.name ∈ documentedShared := by
  decide

/-- the scan is not vacuous: it sees the writable objects, including ones that are stored to -/
example : (globals.filter (fun g => 0 < g.stores)).length ≥ 4 ∧ globals.length ≥ 10 := by decide

end Mpir.Gen
