/-
  C20 — C++ class expressions equal the C functions.

  Model (lean/Mpir/Model/Cxx.lean): `evalTmp` = every sub-expression into its own temporary with the C
  function (exact Int / canonical Rat arithmetic); `evalZ` / `evalQ` / `execAssign` = what mpirxx.h does:
  the `__gmp_expr<…>::eval(p)` specialisation chosen by the operand shapes (when a temporary is
  introduced because `p` aliases an operand, the mpz±mpq special cases, conversions evaluated into the
  numerator field) on top of the function objects `__gmp_binary_*`/`__gmp_unary_*` transcribed overload by
  overload (ui / si / double fast paths, `__builtin_constant_p` as an arbitrary Boolean).

  `fnobj_spec_z`, `fnobj_spec_q`   every modelled function object computes its operator, for every alias
                                   pattern of its pointer arguments and every built-in value in range.
  `expr_eval_correct_partial`      `target = e` / `target op= r` through the templates = `assign target
                                   (evalTmp env e)`, by induction over the tree (lemmas `evalZ_correct`,
                                   `evalQ_correct`), for mpz and mpq targets and mixed mpz/mpq trees.
  `cmp_eval_correct_partial`, `sgn_eval_correct_partial`   comparisons / `cmp` / `sgn` on mpz and mpq operands.
  Not covered by theorems (correspondence only): mpf_class, increments, constructors from strings/numbers, I/O.
-/
import MpirProofs.Lemmas.CxxCmp
namespace Mpir.Cxx

/-- **fnobj_spec** for the binary mpz function objects (see `fnBinZ_spec` for the proof). -/
theorem fnobj_spec_z (cst : Bool) (o : Bin) (p : ZLoc) (a b : ZArg) (h : Heap)
    (ha : a.ok) (hb : b.ok) (hab : ¬(a.isBi = true ∧ b.isBi = true)) :
    fnBinZ cst o p a b h =
      ((argZ h a).bind fun x => (argZ h b).bind fun y => binZ o x y).map (fun r => h.set p r) :=
  fnBinZ_spec cst o p a b h ha hb hab

-- non-vacuity: `z = LONG_MIN - z` with z = 5 aliased to the destination, and `LONG_MIN / z` with z = -1
example : (fnBinZ false .sub (.v 0) (.bi (.si LONG_MIN)) (.loc (.v 0)) ⟨fun _ => 5⟩).map (· (.v 0)) = some (-9223372036854775813) := by
  decide
example : (fnBinZ true .div (.v 1) (.bi (.si LONG_MIN)) (.loc (.v 0)) ⟨fun _ => -1⟩).map (· (.v 1)) = some 9223372036854775808 := by
  decide


/-- **fnobj_spec** for the binary mpq function objects (`__gmp_binary_plus/minus/multiplies/divides` with
    mpq, mpz (for ±), ui, si and double operands on either side): for canonical operands, every alias
    pattern of destination and operands, every built-in value in range and both answers of
    `__builtin_constant_p`, the object stores the canonical `a op b` into `p` and changes nothing else,
    or raises exactly when the C function on temporaries raises.  This includes the overloads that poke
    numerator and denominator separately (`q ± ui/si/z`: `num ± den*l`, no canonicalisation needed). -/
theorem fnobj_spec_q (cst : Bool) (o : Bin) (p : Nat) (a b : QArg) (h : Heap)
    (hd : fnQdefined o a b) (ca : a.canon h) (cb : b.canon h) (oka : a.ok) (okb : b.ok) :
    fnBinQ cst o p a b h =
      ((argR h a).bind fun x => (argR h b).bind fun y => binQ o x y).map (fun r => h.setQ p r) :=
  fnBinQ_spec cst o p a b h hd ca cb oka okb

-- non-vacuity: `q0 = 5 - q0` with q0 = 7/3 (destination aliased, the `eval(q, r, l); mpq_neg(q, q)` path) gives 8/3
example : (fnBinQ false .sub 0 (.bi (.si 5)) (.q 0) ⟨fun l => match l with | .num 0 => 7 | .den 0 => 3 | _ => 1⟩).map
    (fun h => (h (.num 0), h (.den 0))) = some (8, 3) := by decide

/-- **expr_eval_correct** (`_partial`: the mpz and mpq fragment of the property; mpf_class expressions are
    compared implementation-vs-implementation by the correspondence run only).
    A whole assignment `target = e;` — target an `mpz_class` or `mpq_class` variable that may occur anywhere
    in `e`; `e` any well-typed tree over mpz/mpq variables, sub-expressions and built-ins on either side, of
    either type (so the conversions `mpz_set_q` / `mpq_set_z` at the assignment are included) — as evaluated by
    mpirxx.h's templates (`execAssign`), for both answers of `__builtin_constant_p`: it raises iff evaluation
    into temporaries raises, and otherwise the heap denotes exactly `assign target (evalTmp env e)`: the
    target holds the (converted, canonical) value, every other mpz and mpq variable is unchanged.
    Compound assignments `target op= r` are the same theorem applied to `expand op target r`, which is the
    tree mpirxx.h's operator builds (mpirxx.h:3171–3189) — except `mpz_class op= mpq-typed`, where the
    operator converts the operand first (the known finding `compound-mixed-type`; `Stmt.wt` excludes it). -/
theorem expr_eval_correct_partial (cst : Bool) (K : Nat) (t : Ty) (i : Nat) (e : E) (h : Heap)
    (hwt : e.wt = true) (hi : i < K) (hz : e.zbelow K) (hq : e.qbelow K) (hc : e.canon h) :
    match evalTmp h.abs e with
    | none => execAssign cst K t i e h = none
    | some v => ∃ h', execAssign cst K t i e h = some h' ∧
        (∀ j, j < K → h'.abs.z j = (assign h.abs t i v).z j) ∧
        (∀ j, j < K → h'.abs.q j = (assign h.abs t i v).q j) ∧
        (∀ j, j < K → Canon h j → Canon h' j) ∧ (t = .q → Canon h' i) := by
  cases t with
  | z =>
    by_cases hty : e.ty = .z
    · -- mpz tree into an mpz target
      simp only [execAssign, hty, if_true]
      have H := evalZ_correct cst e hty hwt K (.v i) h (by simpa [ZLoc.below] using hi) hz
      rw [evalTmp_z h e hty hc]
      show match (evalTmpZ h.get e).map Val.z with | none => _ | some v => _
      cases hr : evalTmpZ h.get e with
      | none => rw [hr] at H; simpa [Post] using H
      | some x =>
        rw [hr] at H
        obtain ⟨h', e1, hx, hfr⟩ := H
        refine ⟨h', e1, fun j hj => ?_, fun j _ => ?_, fun j _ hcj => ?_, fun ht => by cases ht⟩
        · simp only [Heap.abs, assign, conv, Env.set]
          by_cases hit : j = i
          · subst hit; simp [hx]
          · simp only [hit, if_false]
            exact hfr _ (by simpa [ZLoc.below] using hj) (by intro e; injection e with e; exact hit e)
        · simp only [Heap.abs, assign, conv, Env.set, qval]
          rw [hfr (.num j) trivial (by intro e; cases e), hfr (.den j) trivial (by intro e; cases e)]
        · unfold Canon at *
          rw [hfr (.num j) trivial (by intro e; cases e), hfr (.den j) trivial (by intro e; cases e)]; exact hcj
    · -- mpq tree into an mpz target: `mpq_class const& temp(expr); mpz_set_q(z, temp)`
      have htq := ty_q_of_ne_z hty
      simp only [execAssign, hty, if_false, assignZfromQ]
      cases hl : e.qleaf? with
      | some r =>
        have := qleaf?_some hl; subst this
        simp only [evalTmp]
        refine ⟨_, rfl, fun j hj => ?_, fun j _ => ?_, fun j _ hcj => ?_, fun ht => by cases ht⟩
        · simp only [Heap.abs, assign, conv, Env.set, mpz_set_q, Heap.set]
          by_cases hit : j = i <;> simp [hit]
        · simp only [Heap.abs, assign, conv, Env.set, qval, mpz_set_q]
          rw [Heap.set_get_ne _ _ (.num j) _ (by simp), Heap.set_get_ne _ _ (.den j) _ (by simp)]
        · unfold Canon at *; simp only [mpz_set_q]
          rw [Heap.set_get_ne _ _ (.num j) _ (by simp), Heap.set_get_ne _ _ (.den j) _ (by simp)]; exact hcj
      | none =>
        simp only []
        have H := evalQ_correct cst e hwt (K + 1) K h (by omega) (E.zbelow_mono (by omega) _ hz) (E.qbelow_mono (by omega) _ hq) hc
        unfold evalTmpR at H
        cases hr : evalTmp h.abs e with
        | none => rw [hr] at H; simpa [PostQ] using H
        | some v =>
          obtain ⟨r, rfl⟩ := val_of_ty_q ((evalTmp_ty _ e v hr).trans htq)
          rw [hr] at H
          obtain ⟨h1, e1, _, hx, hfr⟩ := H
          have hag : AgreeBelow K h h1 := agree_of_PostQ_temp hfr
          simp only [Option.map_some, Val.toQ] at hx
          refine ⟨_, by rw [e1]; rfl, fun j hj => ?_, fun j hj => ?_, fun j hj hcj => ?_, fun ht => by cases ht⟩
          · simp only [Heap.abs, assign, conv, Env.set, mpz_set_q, Heap.set, hx]
            by_cases hit : j = i
            · simp [hit]
            · have : (ZLoc.v j) ≠ .v i := by intro e; injection e with e; exact hit e
              simp only [this, hit, if_false]; exact hag (.v j) hj
          · simp only [Heap.abs, assign, conv, Env.set, qval, mpz_set_q]
            rw [Heap.set_get_ne _ _ (.num j) _ (by simp), Heap.set_get_ne _ _ (.den j) _ (by simp), hag (.num j) hj, hag (.den j) hj]
          · unfold Canon at *; simp only [mpz_set_q]
            rw [Heap.set_get_ne _ _ (.num j) _ (by simp), Heap.set_get_ne _ _ (.den j) _ (by simp), hag (.num j) hj, hag (.den j) hj]; exact hcj
  | q =>
    simp only [execAssign]
    have H := evalQ_correct cst e hwt K i h hi hz hq hc
    unfold evalTmpR at H
    cases hr : evalTmp h.abs e with
    | none => rw [hr] at H; simpa [PostQ] using H
    | some v =>
      rw [hr] at H
      obtain ⟨h', e1, hci, hx, hfr⟩ := H
      try simp only [Option.map_some] at hx
      refine ⟨h', e1, fun j hj => ?_, fun j hj => ?_, fun j hj hcj => ?_, fun _ => hci⟩
      · have : (assign h.abs .q i v).z j = h (.v j) := by cases v <;> rfl
        rw [this]; exact hfr (.v j) hj (by simp) (by simp)
      · have : (assign h.abs .q i v).q j = if j = i then v.toQ else qval h j := by cases v <;> rfl
        rw [this]
        by_cases hji : j = i
        · subst hji; simp only [if_true, Heap.abs]; exact hx
        · have hn : (ZLoc.num j) ≠ .num i := by intro e; injection e with e; exact hji e
          have hd : (ZLoc.den j) ≠ .den i := by intro e; injection e with e; exact hji e
          simp only [hji, if_false, Heap.abs, qval]
          rw [hfr (.num j) hj hn (by simp), hfr (.den j) hj (by simp) hd]
      · by_cases hji : j = i
        · subst hji; exact hci
        · have hn : (ZLoc.num j) ≠ .num i := by intro e; injection e with e; exact hji e
          have hd : (ZLoc.den j) ≠ .den i := by intro e; injection e with e; exact hji e
          unfold Canon at *
          rw [hfr (.num j) hj hn (by simp), hfr (.den j) hj (by simp) hd]; exact hcj

-- non-vacuity: `z0 = z1 - z0 * 3` (target inside the tree) with z0 = 5, z1 = 7 gives -8; the strategy really
-- introduces a temporary for `z0 = z0 - (z1 * z0)`; an exception of the temporaries semantics is an exception here.
example : (evalZ false 4 (.v 0) (.bin .sub (.zv 1) (.binR .mul (.zv 0) (.si 3)))
    ⟨fun l => match l with | .v 0 => 5 | .v 1 => 7 | _ => 1⟩).map (· (.v 0)) = some (-8) := by decide
example : (evalZ false 4 (.v 0) (.bin .sub (.zv 0) (.bin .mul (.zv 1) (.zv 0)))
    ⟨fun l => match l with | .v 0 => 5 | .v 1 => 7 | _ => 1⟩).map (fun h => (h (.v 0), h (.v 4))) = some (-30, 35) := by decide
example : evalZ true 4 (.v 0) (.bin .div (.zv 1) (.bin .sub (.zv 0) (.zv 0))) ⟨fun _ => 3⟩ = none := by decide
-- `q0 = z0 - q0 * 2` with q0 = 1/2, z0 = 3 (mixed mpz/mpq special case, destination aliased) gives 2/1
example : (execAssign false 4 .q 0 (.bin .sub (.zv 0) (.binR .mul (.qv 0) (.si 2)))
    ⟨fun l => match l with | .v 0 => 3 | .num 0 => 1 | .den 0 => 2 | _ => 1⟩).map (fun h => (h (.num 0), h (.den 0))) = some (2, 1) := by decide +kernel
-- `z1 = q0 * q0` with q0 = -7/2: 49/4 truncates to 12
example : (execAssign true 4 .z 1 (.bin .mul (.qv 0) (.qv 0))
    ⟨fun l => match l with | .num 0 => -7 | .den 0 => 2 | _ => 1⟩).map (· (.v 1)) = some 12 := by decide +kernel

/-! ### comparisons, `cmp`, `sgn` -/

theorem Opnd.zOk_of_ok {K : Nat} {h : Heap} {a : Opnd} (ha : a.ok K h) (hz : a.isZ = true) : a.zOk K h := by
  cases a with
  | ex e => exact ⟨by simpa [Opnd.isZ] using hz, ha.1, ha.2.1, ha.2.2.2⟩
  | bi c => exact ha

/-- **Comparisons equal the C comparison of the temporaries** (`== != < <= > >=`, `cmp`; `_partial`: mpz and mpq
    operands, sub-expressions and built-ins on either side — mpf is correspondence-only): the `const&` binding
    strategy of mpirxx.h:3091–3118 (no temporary for an operand that already is an object of the comparison type,
    one temporary per other operand, an mpz operand of a mixed comparison converted to mpq) followed by the
    `__gmp_binary_equal/less/greater/__gmp_cmp_function` overload gives exactly `execTmp (.cmp o a b)` — the
    comparison of the exact values — and raises exactly when an operand raises. -/
theorem cmp_eval_correct_partial (cst : Bool) (K : Nat) (o : Cmp) (a b : Opnd) (h : Heap)
    (ha : a.ok K h) (hb : b.ok K h) (hab : ¬(∃ c c', a = .bi c ∧ b = .bi c')) :
    (execCmp cst K o a b h).map Res.int = execTmp h.abs (.cmp o a b) := by
  unfold execCmp
  by_cases hz : (a.isZ && b.isZ) = true
  · rw [if_pos hz]
    simp only [Bool.and_eq_true] at hz
    exact execCmpZ_correct cst K o a b h (Opnd.zOk_of_ok ha hz.1) (Opnd.zOk_of_ok hb hz.2) hab
  · rw [if_neg hz]
    exact execCmpQ_correct cst K o a b h ha hb hab

/-- **`sgn(e)` is the sign of the temporary** (`_partial`: mpz and mpq). -/
theorem sgn_eval_correct_partial (cst : Bool) (K : Nat) (a : E) (h : Heap)
    (hwt : a.wt = true) (hz : a.zbelow K) (hq : a.qbelow K) (hc : a.canon h) :
    (execSgn cst K a h).map Res.int = execTmp h.abs (.sgn a) :=
  execSgn_correct cst K a h hwt hz hq hc

-- non-vacuity: `(z0 + z1) < 2.5` with z0 = 1, z1 = 1 is true (mpz_cmp_d does not truncate the double); `-3 > z0 * z1`
example : execCmpZ false 4 .lt (.ex (.bin .add (.zv 0) (.zv 1))) (.bi (.d 0x4004000000000000)) ⟨fun _ => 1⟩ = some 1 := by decide
example : execCmpZ true 4 .gt (.bi (.si (-3))) (.ex (.bin .mul (.zv 0) (.zv 1))) ⟨fun l => if l = .v 0 then -2 else 2⟩ = some 1 := by decide


-- `q0 * 2 >= z0` with q0 = 3/2, z0 = 3 (mixed: the mpz operand is converted to an mpq temporary)
example : execCmp false 4 .ge (.ex (.binR .mul (.qv 0) (.si 2))) (.ex (.zv 0))
    ⟨fun l => match l with | .v 0 => 3 | .num 0 => 3 | .den 0 => 2 | _ => 1⟩ = some 1 := by decide +kernel
example : execSgn false 4 (.bin .sub (.qv 0) (.zv 0)) ⟨fun l => match l with | .v 0 => 3 | .num 0 => 3 | .den 0 => 2 | _ => 1⟩ = some (-1) := by
  decide +kernel

end Mpir.Cxx
