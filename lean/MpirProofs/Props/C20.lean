/-
  C20 — C++ class expressions equal the C functions.

  `fnobj_spec_z`     every modelled mpz function object of mpirxx.h (`__gmp_binary_plus/minus/multiplies/
                     divides/modulus/and/ior/xor`, `__gmp_gcd_function`, `__gmp_lcm_function`, with their
                     ui / si / double overloads on either side, the `__builtin_constant_p` fast paths, the
                     unary objects and the shifts) computes its operator for every alias pattern of its
                     pointer arguments and every built-in value in range.
  `evalZ_correct`    the expression-template strategy (which `__gmp_expr<…>::eval(p)` specialisation runs,
                     when a temporary is introduced) on mpz-typed trees equals evaluation of every
                     sub-expression into its own temporary — by induction over the tree, for every
                     destination (also one occurring in the tree) and every heap.
  `expr_eval_correct_partial`  the statement-level form `z_t = e`.
-/
import MpirProofs.Lemmas.Cxx
namespace Mpir.Cxx

/-- **fnobj_spec** for the binary mpz function objects (see `fnBinZ_spec` for the proof). -/
theorem fnobj_spec_z (cst : Bool) (o : Bin) (p : ZLoc) (a b : ZArg) (h : Heap)
    (ha : a.ok) (hb : b.ok) (hab : ¬(a.isBi = true ∧ b.isBi = true)) :
    fnBinZ cst o p a b h =
      ((argZ h a).bind fun x => (argZ h b).bind fun y => binZ o x y).map (fun r => h.set p r) :=
  fnBinZ_spec cst o p a b h ha hb hab

-- non-vacuity: `z = LONG_MIN - z` with z = 5 aliased to the destination, and `LONG_MIN / z` with z = -1
example : (fnBinZ false .sub (.v 0) (.bi (.si LONG_MIN)) (.loc (.v 0)) ⟨fun _ => 5⟩).map (· (.v 0)) = some (-9223372036854775813) := by
  decide
example : (fnBinZ true .div (.v 1) (.bi (.si LONG_MIN)) (.loc (.v 0)) ⟨fun _ => -1⟩).map (· (.v 1)) = some 9223372036854775808 := by
  decide

theorem fnBinZ_ll (cst : Bool) (o : Bin) (p w v : ZLoc) (h : Heap) :
    fnBinZ cst o p (.loc w) (.loc v) h = (binZ o (h w) (h v)).map (fun r => h.set p r) := by
  rw [fnBinZ_spec cst o p (.loc w) (.loc v) h trivial trivial (by simp [ZArg.isBi])]; rfl

theorem fnBinZ_lb (cst : Bool) (o : Bin) (p w : ZLoc) (c : Bi) (h : Heap) (hc : c.ok = true) :
    fnBinZ cst o p (.loc w) (.bi c) h = ((biZ c).bind fun y => binZ o (h w) y).map (fun r => h.set p r) := by
  rw [fnBinZ_spec cst o p (.loc w) (.bi c) h trivial hc (by simp [ZArg.isBi])]; rfl

theorem fnBinZ_bl (cst : Bool) (o : Bin) (p : ZLoc) (c : Bi) (w : ZLoc) (h : Heap) (hc : c.ok = true) :
    fnBinZ cst o p (.bi c) (.loc w) h = ((biZ c).bind fun x => binZ o x (h w)).map (fun r => h.set p r) := by
  rw [fnBinZ_spec cst o p (.bi c) (.loc w) h hc trivial (by simp [ZArg.isBi])]
  simp only [argZ, Option.bind_some]

theorem wt_bin_z {o : Bin} {a b : E} (hty : (E.bin o a b).ty = .z) (hwt : (E.bin o a b).wt = true) :
    a.ty = .z ∧ b.ty = .z ∧ a.wt = true ∧ b.wt = true := by
  simp only [E.ty] at hty
  have h2 : a.ty = .z ∧ b.ty = .z := by
    by_cases hc : a.ty = .z ∧ b.ty = .z
    · exact hc
    · simp [hc] at hty
  simp only [E.wt, Bool.and_eq_true] at hwt
  exact ⟨h2.1, h2.2, hwt.1.1, hwt.1.2⟩

/-- **The template strategy is evaluation into temporaries** (mpz-typed trees): for every well-typed
    tree `e`, every destination object `p` that exists before the evaluation (in particular one that
    occurs in `e`), every heap and both answers of `__builtin_constant_p`: `evalZ` raises exactly when
    the temporaries semantics raises, otherwise `p` ends with the value `evalTmp` gives and every other
    pre-existing object is unchanged. -/
theorem evalZ_correct (cst : Bool) : ∀ (e : E), e.ty = .z → e.wt = true →
    ∀ (k : Nat) (p : ZLoc) (h : Heap), p.below k → e.zbelow k →
      Post k p h (evalTmpZ (fun i => h (.v i)) e) (evalZ cst k p e h) := by
  intro e
  induction e with
  | zv i =>
    intro _ _ k p h _ _
    simp only [evalZ, evalTmpZ, mpz_set]
    exact Post.of_set (r := some (h (.v i)))
  | qv i => intro hty; simp [E.ty] at hty
  | un o a ih =>
    intro hty hwt k p h hp hb
    simp only [E.ty] at hty
    simp only [E.wt, Bool.and_eq_true] at hwt
    simp only [E.zbelow] at hb
    simp only [evalZ, evalTmpZ]
    cases hl : a.zleaf? with
    | some i =>
      have := zleaf?_some hl; subst this
      simp only [evalTmpZ, Option.bind_some, fnUnZ_spec]
      exact Post.of_set
    | none =>
      simp only []
      have IH := ih hty hwt.1 k p h hp hb
      cases hr : evalTmpZ (fun i => h (.v i)) a with
      | none => rw [hr] at IH; simp only [Post] at IH; simp [IH, Post]
      | some x =>
        rw [hr] at IH
        obtain ⟨h1, e1, hx, hfr⟩ := IH
        simp only [e1, Option.bind_some, fnUnZ_spec, hx]
        cases hu : unZ o x with
        | none => simp [Post]
        | some r =>
          refine ⟨_, rfl, by simp, fun l hl hne => ?_⟩
          try dsimp only
          rw [Heap.set_get_ne _ _ _ _ hne]; exact hfr l hl hne
  | bin o a b iha ihb =>
    intro hty hwt k p h hp hb
    obtain ⟨hta, htb, hwa, hwb⟩ := wt_bin_z hty hwt
    simp only [E.zbelow] at hb
    simp only [evalZ, evalTmpZ]
    cases hla : a.zleaf? with
    | some i =>
      have := zleaf?_some hla; subst this
      cases hlb : b.zleaf? with
      | some j =>
        have := zleaf?_some hlb; subst this
        simp only [evalTmpZ, Option.bind_some]
        rw [fnBinZ_ll]
        exact Post.of_set
      | none =>
        simp only [evalTmpZ, Option.bind_some]
        by_cases hpi : p ≠ .v i
        · simp only [hpi, ne_eq, not_false_eq_true, if_true]
          have IH := ihb htb hwb k p h hp hb.2
          cases hr : evalTmpZ (fun i => h (.v i)) b with
          | none => rw [hr] at IH; simp only [Post] at IH; simp [IH, Post]
          | some y =>
            rw [hr] at IH
            obtain ⟨h1, e1, hy, hfr⟩ := IH
            simp only [e1, Option.bind_some]
            rw [fnBinZ_ll]
            have hi : h1 (.v i) = h (.v i) := hfr _ (by simpa [ZLoc.below, E.zbelow] using hb.1) (Ne.symm hpi)
            simp only [hy, hi]
            cases hu : binZ o (h (.v i)) y with
            | none => simp [Post]
            | some r =>
              refine ⟨_, rfl, by simp, fun l hl hne => ?_⟩
              try dsimp only
              rw [Heap.set_get_ne _ _ _ _ hne]; exact hfr l hl hne
        · have hpe : p = .v i := by simpa using hpi
          simp only [hpi, if_false]
          have IH := ihb htb hwb (k + 1) (.v k) h (by simp [ZLoc.below]) (E.zbelow_mono (by omega) _ hb.2)
          cases hr : evalTmpZ (fun i => h (.v i)) b with
          | none => rw [hr] at IH; simp only [Post] at IH; simp [IH, Post]
          | some y =>
            rw [hr] at IH
            obtain ⟨h1, e1, hy, hfr⟩ := IH
            simp only [e1, Option.bind_some]
            rw [fnBinZ_ll]
            have hi : h1 (.v i) = h (.v i) :=
              hfr _ (by simp only [ZLoc.below]; simp only [E.zbelow] at hb; omega) (by intro e; injection e with e; simp only [E.zbelow] at hb; omega)
            simp only [hy, hi]
            cases hu : binZ o (h (.v i)) y with
            | none => simp [Post]
            | some r =>
              refine ⟨_, rfl, by simp, fun l hl hne => ?_⟩
              try dsimp only
              rw [Heap.set_get_ne _ _ _ _ hne]
              exact hfr l (ZLoc.below_mono (by omega) hl) (ZLoc.ne_of_below hl)
    | none =>
      cases hlb : b.zleaf? with
      | some j =>
        have := zleaf?_some hlb; subst this
        simp only [evalTmpZ]
        by_cases hpj : p ≠ .v j
        · simp only [hpj, ne_eq, not_false_eq_true, if_true]
          have IH := iha hta hwa k p h hp hb.1
          cases hr : evalTmpZ (fun i => h (.v i)) a with
          | none => rw [hr] at IH; simp only [Post] at IH; simp [IH, Post]
          | some x =>
            rw [hr] at IH
            obtain ⟨h1, e1, hx, hfr⟩ := IH
            simp only [e1, Option.bind_some]
            rw [fnBinZ_ll]
            have hj : h1 (.v j) = h (.v j) := hfr _ (by simpa [ZLoc.below, E.zbelow] using hb.2) (Ne.symm hpj)
            simp only [hx, hj]
            cases hu : binZ o x (h (.v j)) with
            | none => simp [Post]
            | some r =>
              refine ⟨_, rfl, by simp, fun l hl hne => ?_⟩
              try dsimp only
              rw [Heap.set_get_ne _ _ _ _ hne]; exact hfr l hl hne
        · simp only [hpj, if_false]
          have IH := iha hta hwa (k + 1) (.v k) h (by simp [ZLoc.below]) (E.zbelow_mono (by omega) _ hb.1)
          cases hr : evalTmpZ (fun i => h (.v i)) a with
          | none => rw [hr] at IH; simp only [Post] at IH; simp [IH, Post]
          | some x =>
            rw [hr] at IH
            obtain ⟨h1, e1, hx, hfr⟩ := IH
            simp only [e1, Option.bind_some]
            rw [fnBinZ_ll]
            have hj : h1 (.v j) = h (.v j) :=
              hfr _ (by simp only [ZLoc.below]; simp only [E.zbelow] at hb; omega) (by intro e; injection e with e; simp only [E.zbelow] at hb; omega)
            simp only [hx, hj]
            cases hu : binZ o x (h (.v j)) with
            | none => simp [Post]
            | some r =>
              refine ⟨_, rfl, by simp, fun l hl hne => ?_⟩
              try dsimp only
              rw [Heap.set_get_ne _ _ _ _ hne]
              exact hfr l (ZLoc.below_mono (by omega) hl) (ZLoc.ne_of_below hl)
      | none =>
        simp only []
        -- temp2 := b ; a.eval(p) ; Op::eval(p, p, temp2)
        have IHb := ihb htb hwb (k + 1) (.v k) h (by simp [ZLoc.below]) (E.zbelow_mono (by omega) _ hb.2)
        cases hrb : evalTmpZ (fun i => h (.v i)) b with
        | none =>
          rw [hrb] at IHb; simp only [Post] at IHb
          cases evalTmpZ (fun i => h (.v i)) a <;> simp [IHb, Post]
        | some y =>
          rw [hrb] at IHb
          obtain ⟨h1, e1, hy, hfr1⟩ := IHb
          simp only [e1, Option.bind_some]
          have hag : ∀ i, i < k → h1 (.v i) = h (.v i) := fun i hi =>
            hfr1 _ (by simp only [ZLoc.below]; omega) (by intro e; injection e with e; omega)
          have IHa := iha hta hwa (k + 1) p h1 (ZLoc.below_mono (by omega) hp) (E.zbelow_mono (by omega) _ hb.1)
          rw [evalTmpZ_frame hag a hb.1] at IHa
          cases hra : evalTmpZ (fun i => h (.v i)) a with
          | none => rw [hra] at IHa; simp only [Post] at IHa; simp [IHa, Post]
          | some x =>
            rw [hra] at IHa
            obtain ⟨h2, e2, hx, hfr2⟩ := IHa
            simp only [e2, Option.bind_some]
            rw [fnBinZ_ll]
            have hk : h2 (.v k) = y := by
              rw [hfr2 _ (by simp [ZLoc.below]) (Ne.symm (ZLoc.ne_of_below hp)), hy]
            simp only [hx, hk]
            cases hu : binZ o x y with
            | none => simp [Post]
            | some r =>
              refine ⟨_, rfl, by simp, fun l hl hne => ?_⟩
              try dsimp only
              rw [Heap.set_get_ne _ _ _ _ hne, hfr2 l (ZLoc.below_mono (by omega) hl) hne]
              exact hfr1 l (ZLoc.below_mono (by omega) hl) (ZLoc.ne_of_below hl)
  | binL o c b ih =>
    intro hty hwt k p h hp hb
    simp only [E.ty] at hty
    simp only [E.wt, Bool.and_eq_true] at hwt
    simp only [E.zbelow] at hb
    simp only [evalZ, evalTmpZ]
    cases hl : b.zleaf? with
    | some j =>
      have := zleaf?_some hl; subst this
      simp only [evalTmpZ, Option.bind_some]
      rw [fnBinZ_bl _ _ _ _ _ _ hwt.1.1]
      cases biZ c with
      | none => simp [Post]
      | some x => simp only [Option.bind_some]; exact Post.of_set
    | none =>
      simp only []
      have IH := ih hty hwt.1.2 k p h hp hb
      cases hr : evalTmpZ (fun i => h (.v i)) b with
      | none => rw [hr] at IH; simp only [Post] at IH; simp [IH, Post]
      | some y =>
        rw [hr] at IH
        obtain ⟨h1, e1, hy, hfr⟩ := IH
        simp only [e1, Option.bind_some]
        rw [fnBinZ_bl _ _ _ _ _ _ hwt.1.1]
        simp only [hy]
        cases biZ c with
        | none => simp [Post]
        | some x =>
          simp only [Option.bind_some]
          cases hu : binZ o x y with
          | none => simp [Post]
          | some r =>
            refine ⟨_, rfl, by simp, fun l hl hne => ?_⟩
            try dsimp only
            rw [Heap.set_get_ne _ _ _ _ hne]; exact hfr l hl hne
  | binR o a c ih =>
    intro hty hwt k p h hp hb
    simp only [E.ty] at hty
    simp only [E.wt, Bool.and_eq_true] at hwt
    simp only [E.zbelow] at hb
    simp only [evalZ, evalTmpZ]
    cases hl : a.zleaf? with
    | some i =>
      have := zleaf?_some hl; subst this
      simp only [evalTmpZ, Option.bind_some]
      rw [fnBinZ_lb _ _ _ _ _ _ hwt.1.1]
      exact Post.of_set
    | none =>
      simp only []
      have IH := ih hty hwt.1.2 k p h hp hb
      cases hr : evalTmpZ (fun i => h (.v i)) a with
      | none => rw [hr] at IH; simp only [Post] at IH; simp [IH, Post]
      | some x =>
        rw [hr] at IH
        obtain ⟨h1, e1, hx, hfr⟩ := IH
        simp only [e1, Option.bind_some]
        rw [fnBinZ_lb _ _ _ _ _ _ hwt.1.1]
        simp only [hx]
        cases hu : (biZ c).bind fun y => binZ o x y with
        | none => simp [Post]
        | some r =>
          refine ⟨_, rfl, by simp, fun l hl hne => ?_⟩
          try dsimp only
          rw [Heap.set_get_ne _ _ _ _ hne]; exact hfr l hl hne
  | sh o a n ih =>
    intro hty hwt k p h hp hb
    simp only [E.ty] at hty
    simp only [E.wt, Bool.and_eq_true] at hwt
    simp only [E.zbelow] at hb
    simp only [evalZ, evalTmpZ]
    cases hl : a.zleaf? with
    | some i =>
      have := zleaf?_some hl; subst this
      simp only [evalTmpZ, Option.map_some, fnShZ_spec]
      exact Post.of_set (r := some _)
    | none =>
      simp only []
      have IH := ih hty hwt.1 k p h hp hb
      cases hr : evalTmpZ (fun i => h (.v i)) a with
      | none => rw [hr] at IH; simp only [Post] at IH; simp [IH, Post]
      | some x =>
        rw [hr] at IH
        obtain ⟨h1, e1, hx, hfr⟩ := IH
        simp only [e1, Option.bind_some, fnShZ_spec, hx, Option.map_some]
        refine ⟨_, rfl, by simp, fun l hl hne => ?_⟩
        try dsimp only
        rw [Heap.set_get_ne _ _ _ _ hne]; exact hfr l hl hne


/-- **expr_eval_correct (mpz fragment; `_partial`: the full statement also covers mpq-typed trees, the
    conversions at the assignment, comparisons and mpf — those are tied by the correspondence run only).**
    `z_t = e;` for a well-typed mpz tree `e` over the variables `z_0 … z_{K-1}` (the target `z_t` may occur
    anywhere in `e`): the statement as evaluated by mpirxx.h's templates raises iff evaluation into
    temporaries raises, and otherwise leaves exactly `assign target (evalTmp env e)`: `z_t` holds the
    value, every other mpz variable and every mpq variable is unchanged.  The same theorem covers the
    compound assignments `z_t op= r`, whose operator builds the tree `expand op z t r` with `z_t` as left
    leaf and evaluates it into `z_t` (mpirxx.h:3171–3189). -/
theorem expr_eval_correct_partial (cst : Bool) (K t : Nat) (e : E) (h : Heap)
    (hty : e.ty = .z) (hwt : e.wt = true) (ht : t < K) (hb : e.zbelow K) :
    match evalTmp h.abs e with
    | none => evalZ cst K (.v t) e h = none
    | some v => ∃ h', evalZ cst K (.v t) e h = some h' ∧
        (∀ i, i < K → h'.abs.z i = (assign h.abs .z t v).z i) ∧ (∀ i, h'.abs.q i = (assign h.abs .z t v).q i) := by
  have H := evalZ_correct cst e hty hwt K (.v t) h (by simpa [ZLoc.below] using ht) hb
  rw [evalTmp_z _ e hty]
  show match (evalTmpZ (fun i => h (.v i)) e).map Val.z with | none => _ | some v => _
  cases hr : evalTmpZ (fun i => h (.v i)) e with
  | none => rw [hr] at H; simpa [Post] using H
  | some x =>
    rw [hr] at H
    obtain ⟨h', e1, hx, hfr⟩ := H
    refine ⟨h', e1, fun i hi => ?_, fun i => ?_⟩
    · simp only [Heap.abs, assign, conv, Env.set]
      by_cases hit : i = t
      · subst hit; simp [hx]
      · simp only [hit, if_false]
        exact hfr _ (by simpa [ZLoc.below] using hi) (by intro e; injection e with e; exact hit e)
    · simp only [Heap.abs, assign, conv, Env.set, qval]
      rw [hfr (.num i) trivial (by intro e; cases e), hfr (.den i) trivial (by intro e; cases e)]

-- non-vacuity: `z0 = z1 - z0 * 3` (the target inside the tree) with z0 = 5, z1 = 7 gives -8; and the
-- strategy really introduces a temporary for `z0 = z0 - (z1 * z0)`.
example : (evalZ false 4 (.v 0) (.bin .sub (.zv 1) (.binR .mul (.zv 0) (.si 3)))
    ⟨fun l => match l with | .v 0 => 5 | .v 1 => 7 | _ => 1⟩).map (· (.v 0)) = some (-8) := by decide
example : (evalZ false 4 (.v 0) (.bin .sub (.zv 0) (.bin .mul (.zv 1) (.zv 0)))
    ⟨fun l => match l with | .v 0 => 5 | .v 1 => 7 | _ => 1⟩).map (fun h => (h (.v 0), h (.v 4))) = some (-30, 35) := by decide
-- an exception of the temporaries semantics is an exception of the strategy: `z0 = z1 / (z0 - z0)`
example : evalZ true 4 (.v 0) (.bin .div (.zv 1) (.bin .sub (.zv 0) (.zv 0))) ⟨fun _ => 3⟩ = none := by decide


/-! ### comparisons, `cmp`, `sgn` on mpz-typed operands -/

def Opnd.zOk (K : Nat) : Opnd → Prop
  | .ex e => e.ty = .z ∧ e.wt = true ∧ e.zbelow K
  | .bi c => c.ok = true

theorem opndRat_ex_z (h : Heap) (e : E) (hty : e.ty = .z) :
    opndRat h.abs (.ex e) = (evalTmpZ (fun i => h (.v i)) e).map fun x => ((x : Int) : Rat) := by
  simp only [opndRat, evalTmp_z _ e hty, Option.map_map]
  rfl

/-- **Comparisons equal the C comparison of the temporaries** (`== != < <= > >=`, `cmp`; mpz-typed
    operands and built-ins on either side): the `const&` binding strategy (no temporary for an
    `mpz_class` operand, one temporary per expression operand) followed by the
    `__gmp_binary_equal/less/greater/__gmp_cmp_function` overload gives exactly
    `execTmp (.cmp o a b)`, including raising when an operand raises. -/
theorem cmp_eval_correct_z (cst : Bool) (K : Nat) (o : Cmp) (a b : Opnd) (h : Heap)
    (ha : a.zOk K) (hb : b.zOk K) (hab : ¬(∃ c c', a = .bi c ∧ b = .bi c')) :
    (execCmpZ cst K o a b h).map Res.int = execTmp h.abs (.cmp o a b) := by
  have B := bindZ_correct cst (evalZ_correct cst)
  cases a with
  | ex ea =>
    obtain ⟨hta, hwa, hba⟩ := ha
    have Ba := B ea hta hwa K h hba
    cases b with
    | ex eb =>
      obtain ⟨htb, hwb, hbb⟩ := hb
      simp only [execCmpZ, execTmp, opndRat_ex_z h ea hta, opndRat_ex_z h eb htb]
      cases hra : evalTmpZ (fun i => h (.v i)) ea with
      | none => rw [hra] at Ba; simp [Ba]
      | some x =>
        rw [hra] at Ba
        obtain ⟨la, h1, e1, hx, hla, hfr1⟩ := Ba
        have hag : ∀ i, i < K → h1 (.v i) = h (.v i) := fun i hi => hfr1 _ (by simpa [ZLoc.below] using hi)
        have Bb := B eb htb hwb (K + 1) h1 (E.zbelow_mono (by omega) _ hbb)
        rw [evalTmpZ_frame (k := K) hag eb hbb] at Bb
        simp only [e1, Option.bind_some]
        cases hrb : evalTmpZ (fun i => h (.v i)) eb with
        | none => rw [hrb] at Bb; simp [Bb]
        | some y =>
          rw [hrb] at Bb
          obtain ⟨lb, h2, e2, hy, _, hfr2⟩ := Bb
          simp only [e2, Option.bind_some]
          rw [fnCmpZ_spec o _ _ h2 (by simp [ZArg.isBi])]
          simp [argQ, hy, hfr2 la hla, hx]
    | bi c =>
      simp only [execCmpZ, execTmp, opndRat_ex_z h ea hta]
      simp only [opndRat]
      cases hra : evalTmpZ (fun i => h (.v i)) ea with
      | none => rw [hra] at Ba; simp [Ba]
      | some x =>
        rw [hra] at Ba
        obtain ⟨la, h1, e1, hx, hla, hfr1⟩ := Ba
        simp only [e1, Option.bind_some]
        rw [fnCmpZ_spec o _ _ h1 (by simp [ZArg.isBi])]
        simp only [argQ, hx, Option.bind_some, Option.map_some]
        cases biRat c <;> simp
  | bi c =>
    cases b with
    | bi c' => exact absurd ⟨c, c', rfl, rfl⟩ hab
    | ex eb =>
      obtain ⟨htb, hwb, hbb⟩ := hb
      have Bb := B eb htb hwb K h hbb
      simp only [execCmpZ, execTmp, opndRat_ex_z h eb htb]
      simp only [opndRat]
      cases hrb : evalTmpZ (fun i => h (.v i)) eb with
      | none => rw [hrb] at Bb; simp only [Bb]; cases biRat c <;> simp
      | some y =>
        rw [hrb] at Bb
        obtain ⟨lb, h1, e1, hy, _, hfr1⟩ := Bb
        simp only [e1, Option.bind_some]
        rw [fnCmpZ_spec o _ _ h1 (by simp [ZArg.isBi])]
        simp only [argQ, hy]
        cases biRat c <;> simp

-- non-vacuity: `(z0 + z1) < 2.5` with z0 = 1, z1 = 1 is true (mpz_cmp_d does not truncate the double); `-3 > z0 * z1`
example : execCmpZ false 4 .lt (.ex (.bin .add (.zv 0) (.zv 1))) (.bi (.d 0x4004000000000000)) ⟨fun _ => 1⟩ = some 1 := by decide
example : execCmpZ true 4 .gt (.bi (.si (-3))) (.ex (.bin .mul (.zv 0) (.zv 1))) ⟨fun l => if l = .v 0 then -2 else 2⟩ = some 1 := by decide

end Mpir.Cxx
