/-
  C06 — radix conversion, the divide-and-conquer conversions and the stream functions.
  Property theorems only; helper lemmas live in MpirProofs/Lemmas/RadixDc*.lean and RadixIo.lean.
  The models are in Mpir/Model/RadixDc.lean (dc conversions, power tables; run against the real
  mpn_get_str / mpn_set_str / mpn_set_str_compute_powtab on every check) and Mpir/Model/Radix.lean (streams).
  Every threshold is a parameter of the models; the theorems hold for all thresholds at or above the minima
  of tune/tuneup.c (GET_STR_DC_THRESHOLD ≥ 4, SET_STR_DC_THRESHOLD ≥ 100 ≤ SET_STR_PRECOMPUTE_THRESHOLD).
-/
import MpirProofs.Props.C06
import MpirProofs.Lemmas.RadixDc
import MpirProofs.Lemmas.RadixDcSet
import MpirProofs.Lemmas.RadixIo
namespace Mpir.RadixDc
open Mpir Mpir.Radix

/-- Per-base facts used by the dc theorems, for every base 3..62 that is not a power of two (small numbers,
    kernel-checked): the regenerated `chars_per_bit_exactly` is at least `(u2/v2)(1 - 2^-38)` for the upper
    Farey neighbour `u2/v2 > log_b 2` of the sizeinbase certificate and `64·u2 ≥ chars_per_limb·v2` (`XnOk`:
    the power table of mpn_get_str is large enough); `big_base & -big_base` is a power of two dividing big_base
    and B with an odd cofactor coprime to B (`SetBaseOk`: the strip loop of mpn_set_str_compute_powtab keeps
    every power divisible by big_base). -/
theorem dc_tables_ok : ∀ b < 63, 2 ≤ b → pow2P b = false → XnOk b ∧ SetBaseOk b := by decide +kernel

example : lowBit (bigBase 10) = 2 ^ 19 ∧ bigBase 10 / lowBit (bigBase 10) = 5 ^ 19 := by decide +kernel

/-- The thresholds of the build (regenerated from gmp-mparam.h / gmp-impl.h on every check) respect the
    minima the theorems below need. -/
theorem dc_thresholds_ok : 4 ≤ Gen.getStrDcThreshold ∧ 100 ≤ Gen.setStrDcThreshold ∧
    Gen.setStrDcThreshold ≤ Gen.setStrPrecomputeThreshold := by decide

/-- The table of powers mpn_get_str builds (get_str.c:403-498: exptab by repeated rounded-up halving of `xn`,
    squarings with the optional multiplication by big_base, the final multiplication of entries 1.., low zero
    limbs stripped into `shift`), for every base 3..62 that is not a power of two and EVERY size un: entry `i`
    is exactly `big_base^e_i`, `e = 1 :: [exptab[n_pows-1], …, exptab[1]]` (`getExps`), stored as
    `val p · B^shift` with `p` normalised, and `digits_in_base = chars_per_limb · e_i`. -/
theorem powtab_ok (b : Nat) (hb : 2 ≤ b) (hb62 : b ≤ 62) (hnp : pow2P b = false) (un : Nat) :
    List.Forall₂ (fun pw e => val pw.p * B ^ pw.shift = bigBase b ^ e ∧ pw.dib = charsPerLimb b * e ∧
        Limbs pw.p ∧ pw.p ≠ [] ∧ pw.p.getLast! ≠ 0)
      (getPowtab b un) (getExps (xnOf b un)) := by
  have hok := (bases_table_ok.1 b (by omega) hb).1 hnp
  have h := getPowtabX_ok (cpl := charsPerLimb b) hb hok.2.1 (xnOf b un)
  unfold getPowtab
  rw [hok.1]
  exact h.imp (fun {pw e} h => ⟨h.value, h.dib, h.limbs, h.ne, h.top⟩)

-- non-vacuity: base 10, 16 limbs: xn = 17, exptab = 17, 9, 5, 3, 2, (1): powers big_base^1,2,3,5,9
example : xnOf 10 16 = 17 ∧ getExps 17 = [1, 2, 3, 5, 9] ∧
    (getPowtab 10 16).map (fun pw => (pw.p.length, pw.shift, pw.dib)) =
      [(1, 0, 19), (2, 0, 38), (3, 0, 57), (4, 1, 95), (7, 2, 171)] := by decide +kernel

/-- The table mpn_set_str_compute_powtab builds (set_str.c:127: squarings from the top index down, exact
    division by big_base when bit `pi+1` of `un-1` is clear, low zero limbs stripped while the rest stays
    divisible by big_base), for every base 3..62 that is not a power of two and every un ≥ 2: entry `pi`,
    `pi = 0 … ⌊log2 (un-1)⌋`, is exactly `big_base^(((un-1) >> (pi+1)) + 1)` — in particular the exact
    divisions are exact — with `digits_in_base = chars_per_limb` times that exponent. -/
theorem set_powtab_ok (b : Nat) (hb : 2 ≤ b) (hb62 : b ≤ 62) (hnp : pow2P b = false) (un : Nat) (hun : 2 ≤ un) :
    List.Forall₂ (fun pw e => val pw.p * B ^ pw.shift = bigBase b ^ e ∧ pw.dib = charsPerLimb b * e ∧
        Limbs pw.p ∧ pw.p ≠ [] ∧ pw.p.getLast! ≠ 0)
      (setPowtab b un) ((List.range (Nat.log2 (un - 1) + 1)).map (fun pi => ((un - 1) >>> (pi + 1)) + 1)) := by
  have hok := (bases_table_ok.1 b (by omega) hb).1 hnp
  obtain ⟨s1, s2, s3, s4⟩ := (dc_tables_ok b (by omega) hb hnp).2
  rw [hok.1] at s1 s2 s3 s4
  have htab := setPowtabX_ok (cpl := charsPerLimb b) (lb := lowBit (b ^ charsPerLimb b))
    (od := b ^ charsPerLimb b / lowBit (b ^ charsPerLimb b)) hb hok.2.1 s1
    (Nat.mul_div_cancel' (Nat.dvd_of_mod_eq_zero s2)).symm s3 (Nat.dvd_of_mod_eq_zero s4) rfl un hun
  unfold setPowtab
  rw [hok.1, List.range_eq_range']
  exact (GetTabOk.forall₂ _ _ htab).imp (fun {pw e} h => ⟨h.value, h.dib, h.limbs, h.ne, h.top⟩)

example : (setPowtab 10 106).map (fun pw => (pw.p.length, pw.shift, pw.dib)) =
    [(38, 15, 1007), (20, 7, 513), (11, 3, 266), (6, 1, 133), (4, 0, 76), (2, 0, 38), (1, 0, 19)] ∧
    (List.range (Nat.log2 105 + 1)).map (fun pi => (105 >>> (pi + 1)) + 1) = [53, 27, 14, 7, 4, 2, 1] := by
  decide +kernel

/-- mpn_dc_get_str, for every base 3..62 that is not a power of two, every GET_STR_DC_THRESHOLD ≥ 3 and every
    table of exact powers (`GetTabOk`: current entry first, entry 0 = big_base, each exponent at most twice the
    next lower one — what `powtab_ok` establishes for the table of mpn_get_str): for every operand {up, un}
    (high zero limbs allowed) within the capacity of the current entry, `u < P²·B^(T-3)` and
    `un ≤ 2(n + shift) + T - 3`, with LEN = 0 and a normalised operand, or LEN ≠ 0, `u < b^LEN` and
    `B^(un-1) ≤ b^LEN`: the recursion never leaves the table (`powtab - 1` below entry 0) and writes exactly
    the digits of `u` — without leading zeros for LEN = 0, zero-padded to exactly LEN digits otherwise
    (uniqueness of the base-b representation: `u = q·P + r`, `r < P = b^digits_in_base`). -/
theorem dc_get_str_digits (b : Nat) (hb : 2 ≤ b) (hb62 : b ≤ 62) (hnp : pow2P b = false) (T : Nat) (hT : 3 ≤ T)
    (pw : Pow) (rest : List Pow) (e : Nat) (es : List Nat)
    (htab : GetTabOk b (charsPerLimb b) (pw :: rest) (e :: es))
    (len : Nat) (u : List Nat) (hu : Limbs u)
    (hcap1 : u.length ≤ 2 * (pw.p.length + pw.shift) + (T - 3))
    (hcap2 : val u < (bigBase b ^ e) ^ 2 * B ^ (T - 3))
    (h0 : len = 0 → u ≠ [] ∧ u.getLast! ≠ 0)
    (h1 : len ≠ 0 → val u < b ^ len ∧ B ^ (u.length - 1) ≤ b ^ len) :
    dcGetStr T b (pw :: rest) len u = some (if len = 0 then digitsOf b (val u) else fixedDigits b len (val u)) := by
  have hok := (bases_table_ok.1 b (by omega) hb).1 hnp
  rw [hok.1] at hcap2
  exact dcGetStr_ok hb (hok.cpl_pos hb62) hok.2.1 hT
    (fun u h1 h2 => sb_get_str_pad hb hb62 hok bases_table_ok.2.1 u h1 h2) rest es pw e htab len u hu hcap1 hcap2 h0 h1

-- non-vacuity: base 7 (big_base = 7^22), threshold 3, the table [big_base^2, big_base]; a 4-limb operand with a
-- long zero run in the low part, LEN = 0; and a zero remainder padded to 44 digits
example : dcGetStr 3 7 [⟨natLimbs (7 ^ 44), 0, 44⟩, ⟨[7 ^ 22], 0, 22⟩] 0 (natLimbs (5 * 7 ^ 70 + 3))
    = some (digitsOf 7 (5 * 7 ^ 70 + 3)) := by decide +kernel
example : dcGetStr 3 7 [⟨natLimbs (7 ^ 44), 0, 44⟩, ⟨[7 ^ 22], 0, 22⟩] 44 [6, 0, 0] = some (fixedDigits 7 44 6) := by
  decide +kernel

/-- mpn_dc_set_str, for every base 3..62 that is not a power of two, every SET_STR_DC_THRESHOLD above
    chars_per_limb and every table of exact powers (`GetTabOk`: current entry first, the last entry = big_base,
    each exponent at most twice the next one — what `set_powtab_ok` establishes): for every non-empty string of
    digits below the base with at most `2·digits_in_base` digits at the current entry, the recursion never
    leaves the table (`powtab + 1` above the top entry), and the limbs returned (size `hn + n + shift`, minus
    one when the top limb is zero) have exactly the value of the digit string. -/
theorem dc_set_str_val (b : Nat) (hb : 2 ≤ b) (hb62 : b ≤ 62) (hnp : pow2P b = false) (T : Nat)
    (hT : charsPerLimb b < T) (pw : Pow) (rest : List Pow) (e : Nat) (es : List Nat)
    (htab : GetTabOk b (charsPerLimb b) (pw :: rest) (e :: es))
    (str : List Nat) (hne : str ≠ []) (hd : ∀ d ∈ str, d < b) (hlen : str.length ≤ 2 * (charsPerLimb b * e)) :
    ∃ r, dcSetStr T b (pw :: rest) str = some r ∧ val r = ofDigits b str ∧ Limbs r := by
  have hok := (bases_table_ok.1 b (by omega) hb).1 hnp
  obtain ⟨r, r1, r2, r3, _⟩ := dcSetStr_ok hb (hok.cpl_pos hb62) hT
    (fun s h1 h2 => bc_set_str_full hb hb62 hok s h1 h2) rest es pw e htab str hne hd hlen
  exact ⟨r, r1, r2, r3⟩

-- non-vacuity: base 10, threshold 20, three levels; 100 zero digits and a 7: the result keeps two high zero limbs
example : dcSetStr 20 10 [⟨natLimbs (10 ^ 76), 0, 76⟩, ⟨natLimbs (10 ^ 38), 0, 38⟩, ⟨[10 ^ 19], 0, 19⟩]
    (List.replicate 100 0 ++ [7]) = some [7, 0, 0] := by decide +kernel
example : (dcSetStr 20 10 [⟨natLimbs (10 ^ 38), 0, 38⟩, ⟨[10 ^ 19], 0, 19⟩] (List.replicate 40 0 ++ List.replicate 30 7)).map val
    = some (ofDigits 10 (List.replicate 30 7)) := by decide +kernel

/- FULL STATEMENT: for every base 2..62 and every operand with a non-zero top limb, mpn_get_str writes
   exactly the digits of the operand.  It cannot be proved for unbounded sizes: the number of table entries
   comes from `xn = 1 + un·(chars_per_bit_exactly·64)/chars_per_limb` evaluated in binary64, and for
   un near 2^53 the rounding errors exceed the slack of the algorithm (GET_STR_DC_THRESHOLD - 3 limbs).  What
   is proved is the statement for operands of up to 2^36 limbs (2^42 bits, 512 GiB): -/
/-- mpn_get_str_spec (partial: un ≤ 2^36 limbs), all sizes below that bound, every base 2..62, every pair of
    thresholds with GET_STR_DC_THRESHOLD ≥ 4: power-of-two path, basecase below
    GET_STR_PRECOMPUTE_THRESHOLD, and above it the power table + mpn_dc_get_str — the model never leaves its
    table and produces exactly the digits of the operand, most significant first, without a leading zero.
    (GET_STR_DC_THRESHOLD ≤ GET_STR_PRECOMPUTE_THRESHOLD, which tuneup also enforces, is needed only for the
    size of the basecase's stack buffers, not for the value.) -/
theorem mpn_get_str_spec_partial (b : Nat) (hb : 2 ≤ b) (hb62 : b ≤ 62) (dcT preT : Nat) (hT : 4 ≤ dcT)
    (up : List Nat) (hu : Limbs up) (hne : up ≠ []) (htop : up.getLast! ≠ 0) (hsize : up.length ≤ 2 ^ 36) :
    mpn_get_str_dc dcT preT b up = some (digitsOf b (val up)) :=
  mpn_get_str_dc_of_table hb hb62
    (fun hnp => ⟨(bases_table_ok.1 b (by omega) hb).1 hnp, (dc_tables_ok b (by omega) hb hnp).1,
      (sizeinbase_table_ok b (by omega) hb hnp).2.2.1⟩)
    (bases_table_ok.1 b (by omega) hb).2 bases_table_ok.2.1 dcT preT hT up hu hne htop hsize

-- non-vacuity: thresholds 4 and 5, a 7-limb operand: three table entries, two levels of division
example : mpn_get_str_dc 4 5 10 (natLimbs (10 ^ 120 + 7)) = some (digitsOf 10 (10 ^ 120 + 7)) := by decide +kernel
example : (getPowtab 10 7).length = 3 ∧ (natLimbs (10 ^ 120 + 7)).length = 7 := by decide +kernel

/-- With the thresholds of the build: the full model of mpn_get_str agrees with the digits, hence with the
    model `Radix.mpn_get_str` (divide-and-conquer at specification level) that `mpz_get_str_spec`, `roundtrip`
    and the stream theorems are stated about. -/
theorem mpn_get_str_full_spec_partial (b : Nat) (hb : 2 ≤ b) (hb62 : b ≤ 62)
    (up : List Nat) (hu : Limbs up) (hne : up ≠ []) (htop : up.getLast! ≠ 0) (hsize : up.length ≤ 2 ^ 36) :
    mpn_get_str_full b up = some (digitsOf b (val up)) ∧ mpn_get_str_full b up = some (Radix.mpn_get_str b up) := by
  have h := mpn_get_str_spec_partial b hb hb62 _ Gen.getStrPrecomputeThreshold dc_thresholds_ok.1 up hu hne htop hsize
  refine ⟨h, ?_⟩
  rw [mpn_get_str_full, h, mpn_get_str_of_table hb hb62 (bases_table_ok.1 b (by omega) hb).1
    (bases_table_ok.1 b (by omega) hb).2 bases_table_ok.2.1 up hu hne htop]

example : mpn_get_str_full 10 (natLimbs (10 ^ 400 + 12345)) = some (digitsOf 10 (10 ^ 400 + 12345)) := by
  decide +kernel

/-- mpn_set_str_spec, ALL sizes: every base 2..62, every non-empty string of digits below the base, every pair
    of thresholds with SET_STR_DC_THRESHOLD ≥ 100 and SET_STR_PRECOMPUTE_THRESHOLD ≥ SET_STR_DC_THRESHOLD (the
    minima of tune/tuneup.c): power-of-two path, basecase below the precompute threshold, and above it
    mpn_set_str_compute_powtab + mpn_dc_set_str — the model never leaves its table and the limbs returned have
    exactly the value of the digit string (high zero limbs are possible when the string starts with zeros). -/
theorem mpn_set_str_spec (b : Nat) (hb : 2 ≤ b) (hb62 : b ≤ 62) (dcT preT : Nat) (hdc : 100 ≤ dcT) (hpre : dcT ≤ preT)
    (str : List Nat) (hne : str ≠ []) (hd : ∀ d ∈ str, d < b) :
    ∃ r, mpn_set_str_dc dcT preT b str = some r ∧ val r = ofDigits b str ∧ Limbs r :=
  mpn_set_str_dc_of_table hb hb62
    (fun hnp => ⟨(bases_table_ok.1 b (by omega) hb).1 hnp, (dc_tables_ok b (by omega) hb hnp).2⟩)
    (bases_table_ok.1 b (by omega) hb).2 dcT preT hdc hpre str hne hd

/-- With the thresholds of the build: the value agrees with `Radix.mpn_set_str` (divide-and-conquer at
    specification level), the model `mpz_set_str_eq_parse` and the stream theorems are stated about. -/
theorem mpn_set_str_full_spec (b : Nat) (hb : 2 ≤ b) (hb62 : b ≤ 62) (str : List Nat) (hne : str ≠ [])
    (hd : ∀ d ∈ str, d < b) :
    ∃ r, mpn_set_str_full b str = some r ∧ val r = ofDigits b str ∧ Limbs r ∧ val r = val (Radix.mpn_set_str b str) := by
  obtain ⟨r, r1, r2, r3⟩ := mpn_set_str_spec b hb hb62 _ _ dc_thresholds_ok.2.1 dc_thresholds_ok.2.2 str hne hd
  refine ⟨r, r1, r2, r3, ?_⟩
  rw [r2, mpn_set_str_val_of_table hb hb62 (bases_table_ok.1 b (by omega) hb).1 (bases_table_ok.1 b (by omega) hb).2
    str hne hd]

-- non-vacuity: thresholds 100 / 100, 150 decimal digits: table of 3 entries, one split, basecase below
example : (mpn_set_str_dc 100 100 10 (digitsOf 10 (10 ^ 149 + 77))).map val = some (10 ^ 149 + 77) := by
  decide +kernel

end Mpir.RadixDc

/-! ## Stream functions -/
namespace Mpir.Radix
open Mpir

/-- mpz_out_str, every legal base (2..62, -2..-36, and 0 meaning 10) and every integer: the bytes written are
    exactly `getStrSpec` — an optional `-`, then the digits of |x| in the documented alphabet, most significant
    first, no leading zero, `"0"` for zero (the same string mpz_get_str produces) — and the return value is
    the number of bytes written. -/
theorem mpz_out_str_spec (base : Int) (hb : LegalOutBase (outBase base)) (x : Int) :
    mpz_out_str base x = (getStrSpec (outBase base) x, (getStrSpec (outBase base) x).length) :=
  mpz_out_str_spec_of bases_table_ok.1 bases_table_ok.2.1 base hb x

example : mpz_out_str (-16) (-255) = ([45, 70, 70], 3) ∧ mpz_out_str 0 1234 = ([49, 50, 51, 52], 4) ∧
    outBase 0 = 10 ∧ mpz_out_str 62 0 = ([48], 1) := by decide +kernel

/-- mpz_inp_str, requested base 0 or 2..62, any byte stream `s`: it skips the leading white space, then
    consumes exactly `inpTok` of what follows — an optional `-`, for base 0 the prefix `0x`/`0X`/`0b`/`0B`/`0`,
    and the longest run of characters that are digits of the base — and pushes the next character back.
    When the first character after the sign is not a digit (a decimal digit for base 0), or the stream ends
    there, it returns 0 and stores nothing.  Otherwise the value stored is `parseSpec` of the consumed text
    (so it agrees with mpz_set_str on that text), the return value is the number of bytes consumed including
    the white space, and that is also the stream position afterwards. -/
theorem mpz_inp_str_spec (rb : Nat) (hrb : rb = 0 ∨ 2 ≤ rb) (hrb62 : rb ≤ 62) (s : List Nat) (hs : ∀ c ∈ s, c < 256) :
    match inpTok rb (s.dropWhile isSpace) with
    | none => (mpz_inp_str (rb : Int) s).ret = 0 ∧ (mpz_inp_str (rb : Int) s).value = none
    | some tok => mpz_inp_str (rb : Int) s =
          ⟨(s.takeWhile isSpace).length + tok.length, parseSpec (rb : Int) tok, (s.takeWhile isSpace).length + tok.length⟩ ∧
        (parseSpec (rb : Int) tok).isSome = true ∧ tok = (s.dropWhile isSpace).take tok.length :=
  mpz_inp_str_spec_of digit_tab_ok.2 bases_table_ok.1 rb hrb hrb62 s hs

-- non-vacuity: "  -0x1Fg" in base 0: white space 2, token "-0x1F", value -31, 7 bytes consumed, `g` pushed back;
-- "12 3" in base 10 stops at the blank; " -" and "z" in base 10 have no digits; "0x" in base 0 is 0 (2 bytes)
example : inpTok 0 ("-0x1Fg".toUTF8.toList.map (·.toNat)) = some ("-0x1F".toUTF8.toList.map (·.toNat)) ∧
    mpz_inp_str 0 ("  -0x1Fg".toUTF8.toList.map (·.toNat)) == ⟨7, some (-31), 7⟩ ∧
    mpz_inp_str 10 ("12 3".toUTF8.toList.map (·.toNat)) == ⟨2, some 12, 2⟩ ∧
    (mpz_inp_str 10 (" -".toUTF8.toList.map (·.toNat))).ret = 0 ∧
    inpTok 10 ("z".toUTF8.toList.map (·.toNat)) = none ∧
    mpz_inp_str 0 ("0xg".toUTF8.toList.map (·.toNat)) == ⟨2, some 0, 2⟩ ∧
    mpz_inp_str 0 ("089".toUTF8.toList.map (·.toNat)) == ⟨1, some 0, 1⟩ := by decide +kernel

/-- Round trip through a stream: for every legal output base, every integer and every continuation `rest` of
    the stream that does not start with a digit of that base (end of stream, white space, `/`, …), mpz_inp_str
    in base |base| reads back exactly the bytes mpz_out_str wrote — it returns their number and leaves the
    stream there — and stores exactly the same integer. -/
theorem inp_out_roundtrip (base : Int) (hb : LegalOutBase base) (x : Int) (rest : List Nat)
    (hrest : ∀ c ∈ rest, c < 256) (hnd : NoDigitAhead base.natAbs rest) :
    mpz_inp_str (base.natAbs : Int) ((mpz_out_str base x).1 ++ rest) =
      ⟨(mpz_out_str base x).2, some x, (mpz_out_str base x).2⟩ :=
  inp_out_roundtrip_of digit_tab_ok.2 bases_table_ok.1 bases_table_ok.2.1 base hb x rest hrest hnd

example : mpz_inp_str 36 ((mpz_out_str (-36) (-1295)).1 ++ [10, 55]) == ⟨3, some (-1295), 3⟩ ∧
    NoDigitAhead 36 [10, 55] := by decide +kernel
-- the hypothesis is needed: a following digit would be read as part of the number
example : mpz_inp_str 10 ((mpz_out_str 10 12).1 ++ [55]) == ⟨3, some 127, 3⟩ := by decide +kernel

/-- mpq_out_str, every legal base and every numerator/denominator pair: numerator, then `/` and the
    denominator unless the denominator is 1, each part written like mpz_out_str; return value = bytes written. -/
theorem mpq_out_str_spec (base : Int) (hb : LegalOutBase (outBase base)) (n d : Int) :
    mpq_out_str base n d =
      (if d = 1 then getStrSpec (outBase base) n else getStrSpec (outBase base) n ++ [47] ++ getStrSpec (outBase base) d,
       (if d = 1 then getStrSpec (outBase base) n
        else getStrSpec (outBase base) n ++ [47] ++ getStrSpec (outBase base) d).length) :=
  mpq_out_str_spec_of bases_table_ok.1 bases_table_ok.2.1 base hb n d

example : mpq_out_str 10 (-3) 4 = ([45, 51, 47, 52], 4) ∧ mpq_out_str 16 255 1 = ([102, 102], 2) := by decide +kernel

/-- mpq_inp_str, requested base 0 or 2..62, any byte stream: the numerator is read exactly like mpz_inp_str
    (white space, token, `parseSpec` value); if the next character is `/` the denominator token follows
    immediately (no white space is skipped) and is read the same way, otherwise the denominator is 1 and that
    character is pushed back.  The two parts are stored exactly as read — nothing is canonicalised, which is
    why the manual requires the caller to call mpq_canonicalize.  The return value is the number of bytes
    consumed, and 0 (nothing stored) when either part has no digit. -/
theorem mpq_inp_str_spec (rb : Nat) (hrb : rb = 0 ∨ 2 ≤ rb) (hrb62 : rb ≤ 62) (s : List Nat) (hs : ∀ c ∈ s, c < 256) :
    match inpTok rb (s.dropWhile isSpace) with
    | none => (mpq_inp_str (rb : Int) s).1 = 0 ∧ (mpq_inp_str (rb : Int) s).2.1 = none
    | some tn =>
      ∃ vn, parseSpec (rb : Int) tn = some vn ∧
      if s[(s.takeWhile isSpace).length + tn.length]? = some 47 then
        match inpTok rb (s.drop ((s.takeWhile isSpace).length + tn.length + 1)) with
        | none => (mpq_inp_str (rb : Int) s).1 = 0 ∧ (mpq_inp_str (rb : Int) s).2.1 = none
        | some td => ∃ vd, parseSpec (rb : Int) td = some vd ∧
            td = (s.drop ((s.takeWhile isSpace).length + tn.length + 1)).take td.length ∧
            mpq_inp_str (rb : Int) s =
              ((s.takeWhile isSpace).length + tn.length + 1 + td.length, some (vn, vd),
               (s.takeWhile isSpace).length + tn.length + 1 + td.length)
      else mpq_inp_str (rb : Int) s =
        ((s.takeWhile isSpace).length + tn.length, some (vn, 1), (s.takeWhile isSpace).length + tn.length) :=
  mpq_inp_str_spec_of digit_tab_ok.2 bases_table_ok.1 rb hrb hrb62 s hs

-- " 6/-4x": not canonicalised (6, -4), 5 bytes; "6/ 4": no white space after `/`, returns 0; "6 /4": stops after 6
example : mpq_inp_str 10 (" 6/-4x".toUTF8.toList.map (·.toNat)) = (5, some (6, -4), 5) ∧
    (mpq_inp_str 10 ("6/ 4".toUTF8.toList.map (·.toNat))).1 = 0 ∧
    mpq_inp_str 10 ("6 /4".toUTF8.toList.map (·.toNat)) = (1, some (6, 1), 1) := by decide +kernel

/-- Round trip for rationals: for every legal output base, every numerator/denominator pair (canonical or
    not) and every continuation `rest` that does not start with a digit of the base — nor with `/` when the
    denominator is 1 and therefore not written — mpq_inp_str in base |base| consumes exactly the bytes
    mpq_out_str wrote and stores exactly the same numerator and denominator. -/
theorem mpq_inp_out_roundtrip (base : Int) (hb : LegalOutBase base) (n d : Int) (rest : List Nat)
    (hrest : ∀ c ∈ rest, c < 256) (hnd : NoDigitAhead base.natAbs rest) (h47 : d = 1 → rest.head? ≠ some 47) :
    mpq_inp_str (base.natAbs : Int) ((mpq_out_str base n d).1 ++ rest) =
      ((mpq_out_str base n d).2, some (n, d), (mpq_out_str base n d).2) :=
  mpq_inp_out_roundtrip_of digit_tab_ok.2 bases_table_ok.1 bases_table_ok.2.1 base hb n d rest hrest hnd h47

example : mpq_inp_str 16 ((mpq_out_str (-16) (-255) 16).1 ++ [32]) = (6, some (-255, 16), 6) ∧
    (mpq_out_str (-16) (-255) 16).1 = [45, 70, 70, 47, 49, 48] := by decide +kernel

end Mpir.Radix
