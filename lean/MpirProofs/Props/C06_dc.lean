/- C06 — divide-and-conquer conversions and stream functions.  Property theorems only. -/
import MpirProofs.Lemmas.RadixDc
namespace Mpir.RadixDc
open Mpir Mpir.Radix
end Mpir.RadixDc
