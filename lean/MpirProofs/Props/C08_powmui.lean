/-
  C08: mpz_powm_ui (mpz/powm_ui.c, el < 20) at the memory level — property theorems only; lemmas in
  MpirProofs/Lemmas/PowmUiMem.lean.  Model: Mpir/Model/PowmUiMem.lean (flags beside the size-aware value model
  `Powm.mpz_powm_ui`, whose result theorem is `powm_ui_spec` of part c08_powm), op `mpz_powm_ui_m`.
-/
import MpirProofs.Lemmas.PowmUiMem
namespace Mpir.PowmUi
open Mpir Mpir.Powm

/-- **mpz_powm_ui, memory level** (mpz/powm_ui.c:116-275): for every base, exponent and modulus (the flags are vacuous
    for `m = 0`: DIVIDE_BY_ZERO, `el = 0` and `el ≥ 20`: deflected to mpz_powm), with `mn = ABSIZ (m)`:
    * every `mpn_sqr (tp, xp, xn)` / `mpn_mul (tp, xp, xn, bp, bn)` writes at most `2·mn` of the `2·mn + 1` limbs of `tp`,
      `xn ≥ 1`, and mpn_mul is called with `xn ≥ bn ≥ 1` (its operand condition — `xn` never falls below `bn`);
    * every `mod (tp, tn, mp, mn, dinv, scratch)` has `tn ≥ mn` and its quotient (`tn` limbs from mpn_divrem_1 for
      `mn = 1`, `tn − mn` otherwise) fits the `mn + 1` limbs of `scratch`; in `reduce` the `an − mn + 1` limbs;
    * the un-normalisation `mpn_lshift (tp, xp, xn, cnt); tp[xn] = cy` stays inside `tp`, its `mod` has at most
      `mn + 1 ≥ mn` limbs, `mpn_rshift` gets `xn ≥ 1`;
    * `xp` (mn limbs) holds every intermediate (`xn ≤ mn`), and the negative-base fix-up
      `mpn_sub (xp, mp, mn, xp, xn)` has `mn ≥ xn`. -/
theorem mpz_powm_ui_mem_ok (b : Int) (el : Nat) (m : Int) : mpzPowmUiOk b el m = true :=
  mpzPowmUiOk_true b el m

/-- the loop alone, from any state that fits: all flags true, and the size never falls below `bn` nor exceeds `mn` -/
theorem powm_ui_loop_mem_ok (ms mn b bn : Nat) (hms1 : B ^ (mn - 1) ≤ ms) (hms2 : ms < B ^ mn) (hmn : 1 ≤ mn)
    (hb : b < B ^ bn) (hbn1 : 1 ≤ bn) (hbn : bn ≤ mn) (bits : List Bool) (x xn : Nat)
    (hx : x < B ^ xn) (h1 : bn ≤ xn) (h2 : xn ≤ mn) :
    puiLoopOk ms mn b bn bits x xn = true ∧ bn ≤ (puiLoop ms mn b bn bits x xn).2 ∧
    (puiLoop ms mn b bn bits x xn).2 ≤ mn :=
  puiLoopOk_true ms mn b bn hms1 hms2 hmn hb hbn1 hbn bits x xn hx h1 h2

-- non-vacuity: the flags are not constant — a state that does not fit (xn > mn), a quotient area one limb short
example : puiLoopOk (2 ^ 63 + 1) 1 5 1 [true] 7 2 = false ∧ modOk 2 1 1 = false ∧ modOk 2 1 2 = true ∧
    mpzPowmUiOk (-(2 ^ 200 + 12345)) 19 (2 ^ 70 + 3) = true := by decide +kernel

/-- the seeded change `if (tn <= mn)` (skip the reduction when the product has exactly mn limbs) -/
def puiReduceBug (m mn t tn : Nat) : Nat × Nat := if tn ≤ mn then (t, tn) else (t % m, mn)

-- negative example: with the modulus normalised without a shift (top bit set, m = 2^63 + 1) a product of exactly mn limbs
-- that is ≥ m stays unreduced under the seeded change (the invariant `x < m` of puiReduce_spec fails), while the real
-- step reduces it; for a modulus with leading zeros the un-normalisation would repair it, which is why only such moduli show it
example : (puiReduceBug (2 ^ 63 + 1) 1 (2 ^ 64 - 1) 1).1 ≥ 2 ^ 63 + 1 ∧
    (puiReduce (2 ^ 63 + 1) 1 (2 ^ 64 - 1) 1).1 < 2 ^ 63 + 1 := by decide +kernel

end Mpir.PowmUi
