/-
  C04 part c04_allocsafe7: destination safety of the mpf assignment / addition functions (index-checked mirrors in
  Mpir/Model/AllocSafeMpf7.lean).  Property theorems only.

  Shape of every statement: for EVERY state — destination with a block of at least PREC + 1 limbs (`DestWF`), operands whose
  |SIZ| limbs lie inside their own blocks (`OpndWF`; they may be longer than the destination's precision, and the destination
  itself may be the operand) — the run keeps `ok` (no load or store left a block), leaves the other variables and the
  destination's precision and block length alone, and the destination's header and limbs are those of the bit-exact C13
  model (`Mpf.*` of Mpir/Model/Mpf.lean), hence well formed (`Mpf.WF`: |SIZ| ≤ PREC + 1, top limb non-zero, zero has EXP 0).
-/
import MpirProofs.Lemmas.AllocSafeMpf7
namespace Mpir.AllocSafe7
open Mpir

/-- mpf_set (r, u) and mpf_set (r, r) (mpf/set.c): at most PREC (r) + 1 limbs are stored whatever |SIZ (u)| is. -/
theorem mpf_set_dest_safe (s : St) (x : Src) (hs : s.ok = true) (hr : DestWF s.r) (hx : OpndWF (s.obj x)) :
    (mpf_set 0 s x).ok = true ∧ (mpf_set 0 s x).u = s.u ∧ (mpf_set 0 s x).v = s.v ∧
    (mpf_set 0 s x).r.prec = s.r.prec ∧ (mpf_set 0 s x).r.blk.alloc = s.r.blk.alloc ∧ BlkWF (mpf_set 0 s x).r.blk ∧
    (mpf_set 0 s x).r.view = Mpf.set s.r.prec (s.obj x).view ∧
    (Mpf.OpWF (s.obj x).view → 1 ≤ s.r.prec → Mpf.WF (mpf_set 0 s x).r.view) := by
  obtain ⟨hrb, hra⟩ := hr
  obtain ⟨hxb, hxa⟩ := hx
  have hxl : (s.obj x).size.natAbs ≤ (s.obj x).blk.limbs.length := by rw [hxb]; exact hxa
  generalize hasz : (s.obj x).size.natAbs = asize at hxl hxa
  generalize hp1 : s.r.prec + 1 = p1 at hra
  have hsel := sel_top (s.obj x).blk.limbs asize p1 hxl
  generalize hoff : (if asize > p1 then asize - p1 else 0) = off at hsel
  generalize hn : (if asize > p1 then p1 else asize) = n at hsel
  have hb1 : off + n ≤ (s.obj x).blk.alloc := by subst hoff hn; split <;> omega
  have hb2 : n ≤ s.r.blk.alloc := by subst hn; split <;> omega
  generalize hsz : (if (s.obj x).size ≥ 0 then (n : Int) else -(n : Int)) = sz
  have hszn : sz.natAbs = n := by subst hsz; split <;> omega
  have e : mpf_set 0 s x = (s.setSE sz (s.obj x).exp).copyToR 0 x off n := by
    simp only [mpf_set, Nat.add_zero, hasz, hp1, hoff, hn, hsz]
  have C := copyToR_spec (s.setSE sz (s.obj x).exp) x off n hs hrb (by rw [obj_setSE_blk]; exact hxb)
    (by rw [obj_setSE_blk]; exact hb1) hb2
  rw [obj_setSE_blk] at C
  rw [e]
  obtain ⟨c1, c2, c3, c4, c5, c6, c7, c8, c9⟩ := C
  have hview : ((s.setSE sz (s.obj x).exp).copyToR 0 x off n).r.view = Mpf.set s.r.prec (s.obj x).view := by
    have hlen : (Mpf.top p1 (List.take asize (s.obj x).blk.limbs)).length = n := by
      have := hxb; unfold BlkWF at this
      rw [← hsel, List.length_take, List.length_drop]; omega
    have g1 : (s.setSE sz (s.obj x).exp).r.size = sz := rfl
    have g2 : (s.setSE sz (s.obj x).exp).r.exp = (s.obj x).exp := rfl
    have g3 : (s.setSE sz (s.obj x).exp).r.prec = s.r.prec := rfl
    simp only [FObj.view, Mpf.set, c4, c5, c6, g1, g2, g3, hszn, c9, hsel, hasz, hp1, hlen]
    rw [← hsz]
  refine ⟨c1, c2, c3, c4, c7, c8, hview, fun ho hp => ?_⟩
  rw [hview]
  exact (Mpf.set_spec s.r.prec hp _ ho).1

/-- a destination of PREC 2 (three limbs), as mpf_init2 (r, 64) makes it -/
def r2 : FObj := mkObj 2 false 0 [] 3
/-- an operand of five limbs, negative, exponent 7, in a block of exactly five limbs -/
def u5 : FObj := mkObj 0 true 7 [1, 2, 3, 4, 5] 1
/-- the destination itself holding five limbs (PREC lowered to 2 by mpf_set_prec_raw) -/
def r5 : FObj := mkObj 2 true 7 [1, 2, 3, 4, 5] 3

example : (mpf_set 0 (mkSt r2 u5 default) .u).ok = true ∧ (mpf_set 0 (mkSt r2 u5 default) .u).out = (-3, 7, [3, 4, 5]) := by decide
example : (mpf_set 0 (mkSt r5 default default) .r).ok = true ∧
    (mpf_set 0 (mkSt r5 default default) .r).out = (-3, 7, [3, 4, 5, 4, 5]) := by decide
-- negative: `prec = r->_mp_prec + 2` copies four limbs into the three-limb block
example : (mpf_set 1 (mkSt r2 u5 default) .u).ok = false := by decide

/-- mpf_set_ui (f, val) (mpf/set_ui.c): one limb stored at f->_mp_d[0] (also for val = 0). -/
theorem mpf_set_ui_dest_safe (s : St) (w : Nat) (hw : w < B) (hs : s.ok = true) (hr : DestWF s.r) :
    (mpf_set_ui s w).ok = true ∧ (mpf_set_ui s w).u = s.u ∧ (mpf_set_ui s w).v = s.v ∧
    (mpf_set_ui s w).r.prec = s.r.prec ∧ (mpf_set_ui s w).r.blk.alloc = s.r.blk.alloc ∧ BlkWF (mpf_set_ui s w).r.blk ∧
    (mpf_set_ui s w).r.view = Mpf.set_ui s.r.prec w ∧ Mpf.WF (mpf_set_ui s w).r.view := by
  obtain ⟨hrb, hra⟩ := hr
  obtain ⟨c1, c2, c3, _, c4, _, _, c7, c8, c9⟩ := wrR_spec s 0 [w] hs hrb (by simp only [List.length_singleton]; omega)
  have e : mpf_set_ui s w = (s.wrR 0 [w]).setSE (if w ≠ 0 then 1 else 0) (if w ≠ 0 then 1 else 0) := by
    simp only [mpf_set_ui, Nat.mod_eq_of_lt hw]
  have hview : (mpf_set_ui s w).r.view = Mpf.set_ui s.r.prec w := by
    rw [e]
    simp only [St.setSE, FObj.view, Mpf.set_ui, c4, c9]
    by_cases h0 : w = 0 <;> simp [h0]
  refine ⟨?_, ?_, ?_, ?_, ?_, ?_, hview, ?_⟩
  · rw [e]; exact c1
  · rw [e]; exact c2
  · rw [e]; exact c3
  · rw [e]; exact c4
  · rw [e]; exact c7
  · rw [e]; exact c8
  rw [hview]; exact (Mpf.set_ui_exact' s.r.prec w hw).2

example : (mpf_set_ui (mkSt r2 default default) 7).out = (1, 1, [7, junk, junk]) := by decide
example : (mpf_set_ui (mkSt r2 default default) 0).out = (0, 0, [0, junk, junk]) := by decide
-- negative: a destination without a block (PREC + 1 = 0 limbs cannot happen; the store at index 0 needs one limb)
example : (mpf_set_ui (mkSt (mkObj 2 false 0 [] 0) default default) 7).ok = false := by decide

/-- mpf_set_si (dest, val) (mpf/set_si.c): one limb stored at dest->_mp_d[0]. -/
theorem mpf_set_si_dest_safe (s : St) (w : Int) (hw : w.natAbs < B) (hs : s.ok = true) (hr : DestWF s.r) :
    (mpf_set_si s w).ok = true ∧ (mpf_set_si s w).u = s.u ∧ (mpf_set_si s w).v = s.v ∧
    (mpf_set_si s w).r.prec = s.r.prec ∧ (mpf_set_si s w).r.blk.alloc = s.r.blk.alloc ∧ BlkWF (mpf_set_si s w).r.blk ∧
    (mpf_set_si s w).r.view = Mpf.set_si s.r.prec w ∧ Mpf.WF (mpf_set_si s w).r.view := by
  obtain ⟨hrb, hra⟩ := hr
  obtain ⟨c1, c2, c3, _, c4, _, _, c7, c8, c9⟩ := wrR_spec s 0 [w.natAbs] hs hrb (by simp only [List.length_singleton]; omega)
  have e : mpf_set_si s w = (s.wrR 0 [w.natAbs]).setSE
      (if w ≥ 0 then (if w.natAbs ≠ 0 then 1 else 0) else -(if w.natAbs ≠ 0 then 1 else 0)) (if w.natAbs ≠ 0 then 1 else 0) := by
    simp only [mpf_set_si, Nat.mod_eq_of_lt hw]
  have hview : (mpf_set_si s w).r.view = Mpf.set_si s.r.prec w := by
    rw [e]
    simp only [St.setSE, FObj.view, Mpf.set_si, c4, c9]
    by_cases h0 : w = 0
    · simp [h0]
    · have : w.natAbs ≠ 0 := by omega
      by_cases hp : w ≥ 0 <;> simp [h0, hp]
  refine ⟨?_, ?_, ?_, ?_, ?_, ?_, hview, ?_⟩
  · rw [e]; exact c1
  · rw [e]; exact c2
  · rw [e]; exact c3
  · rw [e]; exact c4
  · rw [e]; exact c7
  · rw [e]; exact c8
  rw [hview]; unfold Mpf.set_si
  by_cases h0 : w = 0
  · rw [if_pos h0]; exact Mpf.WF_zero _
  · rw [if_neg h0]
    have hn : w.natAbs ≠ 0 := by omega
    refine ⟨Limbs_cons.mpr ⟨hw, Limbs_nil⟩, ?_, ?_, ?_, ?_⟩
    · by_cases hp : w ≥ 0 <;> simp [hp]
    · by_cases hp : w ≥ 0 <;> simp [hp]
    · simp; omega
    · by_cases hp : w ≥ 0 <;> simp [hp]

example : (mpf_set_si (mkSt r2 default default) (-7)).out = (-1, 1, [7, junk, junk]) := by decide

/-- mpf_set_z (r, u) (mpf/set_z.c), the mpz operand given by its SIZ and its block (any ALLOC ≥ |SIZ|), of any length:
    at most PREC (r) + 1 limbs are stored, the block of u is only read inside its |SIZ| limbs; the result is C13's `Mpf.set_z`
    of the integer the operand holds. -/
theorem mpf_set_z_dest_safe (s : St) (zsize : Int) (zb : Blk) (z : Int) (hs : s.ok = true) (hr : DestWF s.r)
    (hzb : BlkWF zb) (hz : zsize.natAbs ≤ zb.alloc) (hl : zb.limbs.take zsize.natAbs = natLimbs z.natAbs)
    (hsg : zsize ≥ 0 ↔ z ≥ 0) :
    (mpf_set_z 0 s zsize zb).ok = true ∧ (mpf_set_z 0 s zsize zb).u = s.u ∧ (mpf_set_z 0 s zsize zb).v = s.v ∧
    (mpf_set_z 0 s zsize zb).r.prec = s.r.prec ∧ (mpf_set_z 0 s zsize zb).r.blk.alloc = s.r.blk.alloc ∧
    BlkWF (mpf_set_z 0 s zsize zb).r.blk ∧
    (mpf_set_z 0 s zsize zb).r.view = Mpf.set_z s.r.prec z ∧
    (1 ≤ s.r.prec → Mpf.WF (mpf_set_z 0 s zsize zb).r.view) := by
  obtain ⟨hrb, hra⟩ := hr
  have hzl : zsize.natAbs ≤ zb.limbs.length := by rw [hzb]; exact hz
  have hlen0 : (natLimbs z.natAbs).length = zsize.natAbs := by rw [← hl, List.length_take]; omega
  generalize hasz : zsize.natAbs = asize at hzl hz hl hlen0
  generalize hp1 : s.r.prec + 1 = p1 at hra
  have hsel := sel_top zb.limbs asize p1 hzl
  generalize hoff : (if asize > p1 then asize - p1 else 0) = off at hsel
  generalize hn : (if asize > p1 then p1 else asize) = n at hsel
  have hb1 : off + n ≤ zb.alloc := by subst hoff hn; split <;> omega
  have hb2 : n ≤ s.r.blk.alloc := by subst hn; split <;> omega
  generalize hsz : (if zsize ≥ 0 then (n : Int) else -(n : Int)) = sz
  have hszn : sz.natAbs = n := by subst hsz; split <;> omega
  have hR := Blk.read_ok zb off n hzb hb1
  have e : mpf_set_z 0 s zsize zb = ((s.setSE sz (asize : Int)).wrR 0 (zb.read off n).1) := by
    simp only [mpf_set_z, Nat.add_zero, hasz, hp1, hoff, hn, hsz, hR.1, Bool.and_true]
  obtain ⟨c1, c2, c3, _, c4, c5, c6, c7, c8, c9⟩ := wrR_spec (s.setSE sz (asize : Int)) 0 (zb.read off n).1 hs hrb
    (by rw [hR.2]; show 0 + n ≤ s.r.blk.alloc; omega)
  have hrd : (zb.read off n).1 = Mpf.top p1 (natLimbs z.natAbs) := by rw [← hl, ← hsel]; rfl
  have hview : ((s.setSE sz (asize : Int)).wrR 0 (zb.read off n).1).r.view = Mpf.set_z s.r.prec z := by
    have g1 : (s.setSE sz (asize : Int)).r.size = sz := rfl
    have g2 : (s.setSE sz (asize : Int)).r.exp = asize := rfl
    have g3 : (s.setSE sz (asize : Int)).r.prec = s.r.prec := rfl
    have ht : List.take n (((s.setSE sz (asize : Int)).wrR 0 (zb.read off n).1).r.blk.limbs) = (zb.read off n).1 := by
      rw [c9]; have := take_write0 (s.setSE sz (asize : Int)).r.blk.limbs (zb.read off n).1
      rw [hR.2] at this; rw [hR.2]; exact this
    have hlen : (Mpf.top p1 (natLimbs z.natAbs)).length = n := by rw [← hrd]; exact hR.2
    simp only [FObj.view, Mpf.set_z, c4, c5, c6, g1, g2, g3, hszn, ht, hp1, hlen0]
    rw [hlen, ← hrd, ← hsz]
    by_cases hp : zsize ≥ 0
    · rw [if_pos hp, if_pos (hsg.mp hp)]
    · rw [if_neg hp, if_neg (fun h => hp (hsg.mpr h))]
  rw [e]
  refine ⟨c1, c2, c3, c4, c7, c8, hview, fun hp => ?_⟩
  rw [hview]
  exact (Mpf.set_z_spec s.r.prec z hp).1

-- z = -(5 B^4 + … + 1) in a block of 6 limbs, destination of three limbs
example : (mpf_set_z 0 (mkSt r2 default default) (-5) (Blk.ofLimbs [1, 2, 3, 4, 5] 6)).out = (-3, 5, [3, 4, 5]) := by decide
-- negative: `prec = PREC (r) + 2`
example : (mpf_set_z 1 (mkSt r2 default default) (-5) (Blk.ofLimbs [1, 2, 3, 4, 5] 6)).ok = false := by decide

/-- mpf_mul_ui (r, u, v) and mpf_mul_ui (r, r, v) (mpf/mul_ui.c) for every operand length: the operand is cut to PREC (r) limbs
    (the dropped limbs are only read, for the carry-in), mpn_mul_1 stores `size ≤ PREC` limbs and the carry limb is stored
    unconditionally at rp[size], index ≤ PREC: inside the PREC + 1 limbs.  Result = C13's `Mpf.mul_ui`. -/
theorem mpf_mul_ui_dest_safe (s : St) (x : Src) (w : Nat) (hs : s.ok = true) (hr : DestWF s.r) (hx : OpndWF (s.obj x)) :
    (mpf_mul_ui 0 s x w).ok = true ∧ (mpf_mul_ui 0 s x w).u = s.u ∧ (mpf_mul_ui 0 s x w).v = s.v ∧
    (mpf_mul_ui 0 s x w).r.prec = s.r.prec ∧ (mpf_mul_ui 0 s x w).r.blk.alloc = s.r.blk.alloc ∧ BlkWF (mpf_mul_ui 0 s x w).r.blk ∧
    (mpf_mul_ui 0 s x w).r.view = Mpf.mul_ui s.r.prec (s.obj x).view w ∧
    (Mpf.OpWF (s.obj x).view → 1 ≤ s.r.prec → w < B → Mpf.WF (mpf_mul_ui 0 s x w).r.view) := by
  obtain ⟨hrb, hra⟩ := hr
  obtain ⟨hxb, hxa⟩ := hx
  have hwf : (mpf_mul_ui 0 s x w).r.view = Mpf.mul_ui s.r.prec (s.obj x).view w →
      (Mpf.OpWF (s.obj x).view → 1 ≤ s.r.prec → w < B → Mpf.WF (mpf_mul_ui 0 s x w).r.view) := by
    intro hv ho hp hw; rw [hv]; exact (Mpf.mul_ui_spec s.r.prec hp _ w ho hw).1.1
  by_cases hz : w = 0 ∨ (s.obj x).size = 0
  · have e : mpf_mul_ui 0 s x w = s.setSE 0 0 := by simp only [mpf_mul_ui, if_pos hz]
    have hv : (mpf_mul_ui 0 s x w).r.view = Mpf.mul_ui s.r.prec (s.obj x).view w := by
      rw [e]; unfold Mpf.mul_ui; rw [if_pos (show w = 0 ∨ (s.obj x).view.size = 0 from hz)]; rfl
    refine ⟨?_, ?_, ?_, ?_, ?_, ?_, hv, hwf hv⟩ <;> rw [e]
    · exact hs
    · rfl
    · rfl
    · rfl
    · rfl
    · exact hrb
  · have hxl : (s.obj x).size.natAbs ≤ (s.obj x).blk.limbs.length := by rw [hxb]; exact hxa
    generalize hasz : (s.obj x).size.natAbs = asize at hxl hxa
    generalize hP : s.r.prec = P at hra
    generalize hex : asize - P = excess
    generalize hn : (if excess > 0 then P else asize) = n
    have hn1 : excess + n = asize := by subst hex hn; split <;> omega
    have hn2 : n ≤ P := by subst hex hn; split <;> omega
    have r1 := rd_spec s x 0 excess hs (by omega)
    have r2 := rd_spec s x excess n hs (by omega)
    generalize hL : (s.obj x).blk.limbs = L at r1 r2 hxl
    have hcat : (L.drop 0).take excess ++ (L.drop excess).take n = L.take asize := by
      rw [← hn1, List.take_add]; simp
    generalize ht : val (L.take asize) * w / B ^ excess = t
    generalize hcy : t / B ^ n = cy
    generalize hc : (if cy ≠ 0 then 1 else 0 : Nat) = c
    have hc1 : c ≤ 1 := by subst hc; split <;> omega
    generalize hsz : (if (s.obj x).size ≥ 0 then ((n + c : Nat) : Int) else -((n + c : Nat) : Int)) = sz
    have hszn : sz.natAbs = n + c := by subst hsz; split <;> omega
    have e : mpf_mul_ui 0 s x w = ((s.wrR 0 (toLimbs n t)).wrR n [cy]).setSE sz ((s.obj x).exp + c) := by
      simp only [mpf_mul_ui, if_neg hz, Nat.add_zero, hasz, hP, hex, hn, r1.1, r1.2, r2.1, r2.2, hcat, ht, hcy, hc, hsz]
    have hlen := Mpf.toLimbs_length n t
    obtain ⟨a1, a2, a3, _, a4, _, _, a7, a8, a9⟩ := wrR_spec s 0 (toLimbs n t) hs hrb (by rw [hlen]; omega)
    obtain ⟨b1, b2, b3, _, b4, _, _, b7, b8, b9⟩ := wrR_spec (s.wrR 0 (toLimbs n t)) n [cy] a1 a8
      (by rw [a7]; simp only [List.length_singleton]; omega)
    have hv : (mpf_mul_ui 0 s x w).r.view = Mpf.mul_ui s.r.prec (s.obj x).view w := by
      rw [e]
      have g1 : (((s.wrR 0 (toLimbs n t)).wrR n [cy]).setSE sz ((s.obj x).exp + c)).r.view =
          ⟨s.r.prec, sz, (s.obj x).exp + c, (((s.wrR 0 (toLimbs n t)).wrR n [cy]).r.blk.limbs).take (n + c)⟩ := by
        simp only [FObj.view, St.setSE, hszn, b4, a4]
      rw [g1, b9, a9]
      have := take_two_writes s.r.blk.limbs (toLimbs n t) cy c hc1
      rw [hlen] at this
      rw [hlen, this]
      unfold Mpf.mul_ui; rw [if_neg (show ¬ (w = 0 ∨ (s.obj x).view.size = 0) from hz)]
      have hn' : (if asize > P then P else asize) = n := by subst hex hn; split <;> split <;> omega
      have hlt : (List.take asize L).length = asize := by rw [List.length_take]; omega
      simp only [FObj.view, hasz, hL, hlt, hP, hex, hn', ht, hcy]
      subst hc hsz
      by_cases h0 : cy = 0
      · simp [h0, hlen]
      · simp [h0, hlen]
    subst hP
    refine ⟨?_, ?_, ?_, ?_, ?_, ?_, hv, hwf hv⟩ <;> rw [e]
    · exact b1
    · exact b2.trans a2
    · exact b3.trans a3
    · exact b4.trans a4
    · exact b7.trans a7
    · exact b8

example : (mpf_mul_ui 0 (mkSt r2 u5 default) .u (B - 1)).ok = true ∧
    (mpf_mul_ui 0 (mkSt r2 u5 default) .u (B - 1)).out = (-3, 8, [B - 2, B - 2, 4]) := by decide
example : (mpf_mul_ui 0 (mkSt r5 default default) .r (B - 1)).ok = true := by decide
-- negative: `prec = r->_mp_prec + 1` keeps three limbs and stores the carry at rp[3]
example : (mpf_mul_ui 1 (mkSt r2 u5 default) .u (B - 1)).ok = false := by decide

/-- mpf_add (r, u, v) (mpf/add.c), EVERY sign combination (different signs: add.c:56-64 hands the call to mpf_sub with a
    negated copy of v's header — the equal-sign path of sub.c, mirrored at store level by `subStore`: exactly the result
    limbs at rp[0, rsize), see `mpf_sub_dest_safe_partial` for what that level leaves out), every operand length and exponent, every alias pattern (u, v ∈ {r, u, v}: r == u, r == v, u == v, all
    three): no load or store leaves a block — the operands are read inside their |SIZ| limbs after the two cuts to `prec`
    limbs; the three alignments fill at most `prec` limbs of the TMP area of `prec` limbs; MPN_COPY (rp, tp, rsize) and the
    UNCONDITIONAL store `rp[rsize] = cy` use indices ≤ PREC, inside the PREC + 1 limbs; the early copy of the
    `ediff >= prec` case copies ≤ PREC limbs (none when rp == up) —, the other variables, PREC (r) and the block length are
    unchanged, and SIZ, EXP and the limbs are those of the bit-exact C13 model `Mpf.add` (with its `r == u`, `r == v` flags).
    Hypotheses: PREC ≥ 2 (every mpf_init2 / mpf_set_prec gives that: __GMPF_BITS_TO_PREC), operands in mpf format (`Mpf.OpWF`:
    proper limbs, top limb non-zero, zero has exponent 0).  `mpf_add` always answers `some`. -/
theorem mpf_add_dest_safe (s : St) (us vs : Src) (hs : s.ok = true) (hr : DestWF s.r) (hp : 2 ≤ s.r.prec)
    (hu : OpndWF (s.obj us)) (hv : OpndWF (s.obj vs)) (hou : Mpf.OpWF (s.obj us).view) (hov : Mpf.OpWF (s.obj vs).view) :
    (mpf_add 0 s us vs).isSome = true ∧ ∀ s', mpf_add 0 s us vs = some s' →
      s'.ok = true ∧ s'.u = s.u ∧ s'.v = s.v ∧ s'.r.prec = s.r.prec ∧ s'.r.blk.alloc = s.r.blk.alloc ∧ BlkWF s'.r.blk ∧
      s'.r.view = Mpf.add s.r.prec (decide (us = .r)) (decide (vs = .r)) (s.obj us).view (s.obj vs).view := by
  have hlu := hou.1
  have hlv := hov.1
  refine ⟨by unfold mpf_add; simp only; split_ifs <;> rfl, ?_⟩
  intro s' h
  have F := mpf_add_frame s us vs hs hr hp hu hv hou hov s' h
  refine ⟨F.ok, F.u, F.v, F.prec, F.alloc, F.wf, ?_⟩
  unfold mpf_add at h
  unfold Mpf.add
  simp only at h
  by_cases hu0 : (s.obj us).size = 0
  · rw [if_pos hu0] at h
    rw [if_pos (show (s.obj us).view.size = 0 from hu0)]
    cases h
    by_cases hv : vs = .r
    · subst hv; simp [St.obj, FObj.view]
    · simp only [hv, ne_eq, not_false_eq_true, if_true, decide_false, Bool.false_eq_true, if_false]
      exact (mpf_set_dest_safe s vs hs hr ‹_›).2.2.2.2.2.2.1
  · rw [if_neg hu0] at h
    rw [if_neg (show ¬ (s.obj us).view.size = 0 from hu0)]
    by_cases hv0 : (s.obj vs).size = 0
    · rw [if_pos hv0] at h
      rw [if_pos (show (s.obj vs).view.size = 0 from hv0)]
      cases h
      by_cases hu' : us = .r
      · subst hu'; simp [St.obj, FObj.view]
      · simp only [hu', ne_eq, not_false_eq_true, if_true, decide_false, Bool.false_eq_true, if_false]
        exact (mpf_set_dest_safe s us hs hr ‹_›).2.2.2.2.2.2.1
    · rw [if_neg hv0] at h
      rw [if_neg (show ¬ (s.obj vs).view.size = 0 from hv0)]
      by_cases hsg : (decide ((s.obj us).size < 0) != decide ((s.obj vs).size < 0)) = true
      · rw [if_pos hsg] at h
        rw [if_pos (show ((decide ((s.obj us).view.size < 0) != decide ((s.obj vs).view.size < 0)) = true) from hsg)]
        cases h
        exact (subStore_spec s us vs _ hs hr hu hv
          (Mpf.subMag_spec s.r.prec hp (s.obj us).view _ hou (Mpf.OpWF_neg_size _ hov) hu0 (by simpa [FObj.view] using hv0)
            (sign_flip hu0 hv0 hsg)).1 (subMag_prec _ _ _ _)).2
      · rw [if_neg hsg] at h
        rw [if_neg (show ¬ ((decide ((s.obj us).view.size < 0) != decide ((s.obj vs).view.size < 0)) = true) from hsg)]
        cases h
        unfold Mpf.addSame
        by_cases sw : (s.obj us).exp < (s.obj vs).exp
        · have sw' : (s.obj us).view.exp < (s.obj vs).view.exp := sw
          simp only [sw, sw', decide_true, if_true]
          rw [addSameSign_view s _ vs us hs hr hv hu (by omega) hlv hlu]
          simp [FObj.view]
          by_cases hn : (s.obj us).size < 0 <;> simp [hn]
        · have sw' : ¬ (s.obj us).view.exp < (s.obj vs).view.exp := sw
          simp only [sw, sw', decide_false, Bool.false_eq_true, if_false]
          rw [addSameSign_view s _ us vs hs hr hu hv (by omega) hlu hlv]
          simp [FObj.view]
          by_cases hn : (s.obj us).size < 0 <;> simp [hn]


/-- mpf_add, non-zero operands of equal sign: the result header is well formed (|SIZ| ≤ PREC + 1, top limb non-zero). -/
theorem mpf_add_dest_wf (s : St) (us vs : Src) (hs : s.ok = true) (hr : DestWF s.r) (hp : 2 ≤ s.r.prec)
    (hu : OpndWF (s.obj us)) (hv : OpndWF (s.obj vs)) (hou : Mpf.OpWF (s.obj us).view) (hov : Mpf.OpWF (s.obj vs).view)
    (hu0 : (s.obj us).size ≠ 0) (hv0 : (s.obj vs).size ≠ 0) (hsg : (s.obj us).size < 0 ↔ (s.obj vs).size < 0) :
    ∀ s', mpf_add 0 s us vs = some s' → Mpf.WF s'.r.view := by
  intro s' h
  rw [((mpf_add_dest_safe s us vs hs hr hp hu hv hou hov).2 s' h).2.2.2.2.2.2]
  have e : Mpf.add s.r.prec (decide (us = .r)) (decide (vs = .r)) (s.obj us).view (s.obj vs).view =
      Mpf.addSame s.r.prec (s.obj us).view (s.obj vs).view := by
    unfold Mpf.add
    rw [if_neg (show ¬ (s.obj us).view.size = 0 from hu0), if_neg (show ¬ (s.obj vs).view.size = 0 from hv0)]
    have : ¬ ((decide ((s.obj us).view.size < 0) != decide ((s.obj vs).view.size < 0)) = true) := by
      simp only [FObj.view]
      by_cases hn : (s.obj us).size < 0
      · have := hsg.mp hn; simp [hn, this]
      · have : ¬ (s.obj vs).size < 0 := fun h => hn (hsg.mpr h)
        simp [hn, this]
    rw [if_neg this]
  rw [e]
  exact (Mpf.addSame_spec s.r.prec (by omega) _ _ hou hov hu0 hv0 hsg).1

/-- three limbs of ones, exponent 3 -/
def u3 : FObj := mkObj 0 false 3 [B - 1, B - 1, B - 1] 1
/-- two limbs of ones, exponent 3 resp. 2 -/
def v2 : FObj := mkObj 0 false 3 [B - 1, B - 1] 1
def v2b : FObj := mkObj 0 false 2 [B - 1, B - 1] 1
/-- the destination holding three limbs with PREC = 2 -/
def r3 : FObj := mkObj 2 false 3 [B - 1, B - 1, B - 1] 3

-- u cut to two limbs, v aligned at the top: carry limb stored at rp[2]
example : (mpf_add 0 (mkSt r2 u3 v2) .u .v).map (fun s => (s.ok, s.out)) = some (true, 3, 4, [B - 2, B - 1, 1]) := by decide
-- exponent difference 1: v cut to one limb
example : (mpf_add 0 (mkSt r2 u3 v2b) .u .v).map (fun s => (s.ok, s.out)) = some (true, 3, 4, [B - 2, 0, 1]) := by decide
-- r == u, and r == u == v
example : (mpf_add 0 (mkSt r3 default v2b) .r .v).map (fun s => (s.ok, s.out)) = some (true, 3, 4, [B - 2, 0, 1]) := by decide
example : (mpf_add 0 (mkSt r3 default default) .r .r).map (fun s => (s.ok, s.out)) = some (true, 3, 4, [B - 2, B - 1, 1]) := by decide
-- negative: `prec = r->_mp_prec + 1` keeps three limbs and stores the carry at rp[3]
example : (mpf_add 1 (mkSt r2 u3 v2) .u .v).map (fun s => s.ok) = some false := by decide

/-- mpf_mul_2exp (r, u, exp) and mpf_mul_2exp (r, r, exp) (mpf/mul_2exp.c), every operand length and shift count: the
    whole-limb arm copies at most PREC + 1 limbs (nothing when rp == up); the shift arm cuts the operand to PREC limbs and
    leaves PREC + 1 limbs in rp[0, PREC] — `mpn_rshift (rp + 1, up, prec, …)`, `rp[0] = cy_limb` and the read-back of
    `rp[abs_usize]` when the operand was longer than PREC, `mpn_lshift (rp, up, n, …)` and `rp[n] = cy_limb` (n ≤ PREC)
    otherwise.  Result = C13's `Mpf.mul_2exp`. -/
theorem mpf_mul_2exp_dest_safe (s : St) (x : Src) (e : Nat) (hs : s.ok = true) (hr : DestWF s.r) (hx : OpndWF (s.obj x)) :
    (mpf_mul_2exp 0 s x e).ok = true ∧ (mpf_mul_2exp 0 s x e).u = s.u ∧ (mpf_mul_2exp 0 s x e).v = s.v ∧
    (mpf_mul_2exp 0 s x e).r.prec = s.r.prec ∧ (mpf_mul_2exp 0 s x e).r.blk.alloc = s.r.blk.alloc ∧
    BlkWF (mpf_mul_2exp 0 s x e).r.blk ∧
    (mpf_mul_2exp 0 s x e).r.view = Mpf.mul_2exp s.r.prec (s.obj x).view e ∧
    (Mpf.OpWF (s.obj x).view → 1 ≤ s.r.prec → Mpf.WF (mpf_mul_2exp 0 s x e).r.view) := by
  have key : Fr s (mpf_mul_2exp 0 s x e) ∧ (mpf_mul_2exp 0 s x e).r.view = Mpf.mul_2exp s.r.prec (s.obj x).view e := by
    unfold mpf_mul_2exp Mpf.mul_2exp
    simp only
    by_cases h0 : (s.obj x).size = 0
    · rw [if_pos h0, if_pos (show (s.obj x).view.size = 0 from h0)]
      exact ⟨⟨hs, rfl, rfl, rfl, rfl, hr.1⟩, rfl⟩
    · rw [if_neg h0, if_neg (show ¬ (s.obj x).view.size = 0 from h0)]
      by_cases h1 : e % 64 = 0
      · rw [if_pos h1, if_pos h1]
        obtain ⟨F, c1, c2, c3, c4⟩ := copyArm_spec s x hs hr hx
        refine ⟨F.setSE _ _, ?_⟩
        simp only [FObj.view] at c3 c4
        simp only [FObj.view, St.setSE, natAbs_sg, c3, F.prec, c4]
      · rw [if_neg h1, if_neg h1]
        obtain ⟨F, c1, c2, c3⟩ := shiftArm_spec s x (e % 64) hs hr hx
        refine ⟨F.setSE _ _, ?_⟩
        simp only [FObj.view] at c1 c2 c3 ⊢
        rw [c2] at c3
        generalize Mpf.shiftUp (Mpf.top s.r.prec (List.take (s.obj x).size.natAbs (s.obj x).blk.limbs)) (e % 64) = S at c1 c2 c3 ⊢
        obtain ⟨rd, adj⟩ := S
        simp only at c1 c2 c3 ⊢
        rw [c1] at c2 c3
        simp only [St.setSE, natAbs_sg, c2, F.prec, c3, c1]
  obtain ⟨F, hv⟩ := key
  exact ⟨F.ok, F.u, F.v, F.prec, F.alloc, F.wf, hv, fun ho hp => by rw [hv]; exact Mpf.mul_2exp_wf _ hp _ e ho⟩

/-- two limbs [1, 2^64 - 1], exponent 1 -/
def u2 : FObj := mkObj 0 false 1 [1, B - 1] 1

-- operand of five limbs: rshift path; r == u; short operand: lshift path with a non-zero carry limb; whole limbs
example : (fun s : St => (s.ok, s.out)) (mpf_mul_2exp 0 (mkSt r2 u5 default) .u 63) = (true, -3, 8, [0, 2 ^ 63 + 2, 2]) := by decide
example : (fun s : St => (s.ok, s.out)) (mpf_mul_2exp 0 (mkSt r5 default default) .r 1) = (true, -2, 7, [8, 10, 0, 4, 5]) := by decide
example : (fun s : St => (s.ok, s.out)) (mpf_mul_2exp 0 (mkSt r2 u2 default) .u 4) = (true, 3, 2, [16, B - 16, 15]) := by decide
example : (fun s : St => (s.ok, s.out)) (mpf_mul_2exp 0 (mkSt r2 u5 default) .u 128) = (true, -3, 9, [3, 4, 5]) := by decide
-- negative: `prec = r->_mp_prec + 1`: mpn_rshift stores rp[1, 3]
example : (mpf_mul_2exp 1 (mkSt r2 u5 default) .u 63).ok = false := by decide

/-- mpf_div_2exp (r, u, exp) and mpf_div_2exp (r, r, exp) (mpf/div_2exp.c): as mpf_mul_2exp with the complementary shift
    count; result = C13's `Mpf.div_2exp`. -/
theorem mpf_div_2exp_dest_safe (s : St) (x : Src) (e : Nat) (hs : s.ok = true) (hr : DestWF s.r) (hx : OpndWF (s.obj x)) :
    (mpf_div_2exp 0 s x e).ok = true ∧ (mpf_div_2exp 0 s x e).u = s.u ∧ (mpf_div_2exp 0 s x e).v = s.v ∧
    (mpf_div_2exp 0 s x e).r.prec = s.r.prec ∧ (mpf_div_2exp 0 s x e).r.blk.alloc = s.r.blk.alloc ∧
    BlkWF (mpf_div_2exp 0 s x e).r.blk ∧
    (mpf_div_2exp 0 s x e).r.view = Mpf.div_2exp s.r.prec (s.obj x).view e ∧
    (Mpf.OpWF (s.obj x).view → 1 ≤ s.r.prec → Mpf.WF (mpf_div_2exp 0 s x e).r.view) := by
  have key : Fr s (mpf_div_2exp 0 s x e) ∧ (mpf_div_2exp 0 s x e).r.view = Mpf.div_2exp s.r.prec (s.obj x).view e := by
    unfold mpf_div_2exp Mpf.div_2exp
    simp only
    by_cases h0 : (s.obj x).size = 0
    · rw [if_pos h0, if_pos (show (s.obj x).view.size = 0 from h0)]
      exact ⟨⟨hs, rfl, rfl, rfl, rfl, hr.1⟩, rfl⟩
    · rw [if_neg h0, if_neg (show ¬ (s.obj x).view.size = 0 from h0)]
      by_cases h1 : e % 64 = 0
      · rw [if_pos h1, if_pos h1]
        obtain ⟨F, c1, c2, c3, c4⟩ := copyArm_spec s x hs hr hx
        refine ⟨F.setSE _ _, ?_⟩
        simp only [FObj.view] at c3 c4
        simp only [FObj.view, St.setSE, natAbs_sg, c3, F.prec, c4]
      · rw [if_neg h1, if_neg h1]
        obtain ⟨F, c1, c2, c3⟩ := shiftArm_spec s x (64 - e % 64) hs hr hx
        refine ⟨F.setSE _ _, ?_⟩
        simp only [FObj.view] at c1 c2 c3 ⊢
        rw [c2] at c3
        generalize Mpf.shiftUp (Mpf.top s.r.prec (List.take (s.obj x).size.natAbs (s.obj x).blk.limbs)) (64 - e % 64) = S at c1 c2 c3 ⊢
        obtain ⟨rd, adj⟩ := S
        simp only at c1 c2 c3 ⊢
        rw [c1] at c2 c3
        simp only [St.setSE, natAbs_sg, c2, F.prec, c3, c1]
  obtain ⟨F, hv⟩ := key
  exact ⟨F.ok, F.u, F.v, F.prec, F.alloc, F.wf, hv, fun ho hp => by rw [hv]; exact Mpf.div_2exp_wf _ hp _ e ho⟩

example : (fun s : St => (s.ok, s.out)) (mpf_div_2exp 0 (mkSt r2 u5 default) .u 1) = (true, -3, 7, [0, 2 ^ 63 + 2, 2]) := by decide
example : (fun s : St => (s.ok, s.out)) (mpf_div_2exp 0 (mkSt r5 default default) .r 63) = (true, -2, 6, [8, 10, 0, 4, 5]) := by decide
example : (mpf_div_2exp 1 (mkSt r2 u5 default) .u 1).ok = false := by decide

/-- mpf_sub (r, u, v) (mpf/sub.c) for every sign combination, operand length, exponent and alias pattern (r == u, r == v,
    u == v, all three).  PARTIAL.  Proved: `ok` stays true, the other variables, PREC (r) and the block length are unchanged,
    SIZ, EXP and the limbs are those of the bit-exact C13 model `Mpf.sub` (cancellation scan for equal exponents, the
    x+1 000… / x fff… path, `uexp - vexp >= prec` early copy, the alignments with their borrow, the strip of high zero
    limbs), and the header is well formed (`Mpf.WF`; for the in-place cases `mpf_sub (r, 0, r)` / `mpf_sub (r, r, 0)`, which store
    no limb, when the destination's own |SIZ| fits its PREC + 1).  The paths are mirrored at these levels: a zero operand —
    mpf_neg / mpf_set, index-checked; operands of different sign — mpf_add's equal-sign path (`addSameSign`), index-checked
    including the TMP area; operands of equal sign — STORE level (`subStore`): the only stores through rp in sub.c:65-410 are
    the MPN_COPYs of :122, :286, :297, :309, :402, i.e. exactly the |SIZ| result limbs at rp[0, |SIZ|), |SIZ| ≤ PREC + 1 by
    `Mpf.subMag_spec`; the operands are loaded inside their own |SIZ| limbs.
    Missing (run only, ops `as7_sub` with guard limbs; C13 ties the values): the TMP-area traffic of the equal-sign path
    (TMP_ALLOC of PREC + 1 limbs at :199 / :280; `tp[size] = 1` at :208, :223, :254 and the alignment stores of :329-393 are
    not index-checked), and the individual operand loads of the scans (:97-186, :293-317), checked as one load of the
    whole |SIZ| range. -/
theorem mpf_sub_dest_safe_partial (s : St) (us vs : Src) (hs : s.ok = true) (hr : DestWF s.r) (hp : 2 ≤ s.r.prec)
    (hu : OpndWF (s.obj us)) (hv : OpndWF (s.obj vs)) (hou : Mpf.OpWF (s.obj us).view) (hov : Mpf.OpWF (s.obj vs).view) :
    (mpf_sub s us vs).ok = true ∧ (mpf_sub s us vs).u = s.u ∧ (mpf_sub s us vs).v = s.v ∧
    (mpf_sub s us vs).r.prec = s.r.prec ∧ (mpf_sub s us vs).r.blk.alloc = s.r.blk.alloc ∧ BlkWF (mpf_sub s us vs).r.blk ∧
    (mpf_sub s us vs).r.view = Mpf.sub s.r.prec (decide (us = .r)) (decide (vs = .r)) (s.obj us).view (s.obj vs).view ∧
    ((us = .r → s.r.size.natAbs ≤ s.r.prec + 1) → (vs = .r → s.r.size.natAbs ≤ s.r.prec + 1) →
      Mpf.WF (mpf_sub s us vs).r.view) := by
  have key : Fr s (mpf_sub s us vs) ∧
      (mpf_sub s us vs).r.view = Mpf.sub s.r.prec (decide (us = .r)) (decide (vs = .r)) (s.obj us).view (s.obj vs).view := by
    unfold mpf_sub Mpf.sub
    simp only
    by_cases hu0 : (s.obj us).size = 0
    · rw [if_pos hu0, if_pos (show (s.obj us).view.size = 0 from hu0)]
      exact mpf_neg_spec s vs hs hr hv
    · rw [if_neg hu0, if_neg (show ¬ (s.obj us).view.size = 0 from hu0)]
      by_cases hv0 : (s.obj vs).size = 0
      · rw [if_pos hv0, if_pos (show (s.obj vs).view.size = 0 from hv0)]
        by_cases hu' : us = .r
        · subst hu'
          exact ⟨by simp only [ne_eq, not_true_eq_false, if_false]; exact ⟨hs, rfl, rfl, rfl, rfl, hr.1⟩, by simp [St.obj, FObj.view]⟩
        · simp only [hu', ne_eq, not_false_eq_true, if_true, decide_false, Bool.false_eq_true, if_false]
          have h := mpf_set_dest_safe s us hs hr hu
          exact ⟨⟨h.1, h.2.1, h.2.2.1, h.2.2.2.1, h.2.2.2.2.1, h.2.2.2.2.2.1⟩, h.2.2.2.2.2.2.1⟩
      · rw [if_neg hv0, if_neg (show ¬ (s.obj vs).view.size = 0 from hv0)]
        by_cases hsg : (decide ((s.obj us).size < 0) != decide ((s.obj vs).size < 0)) = true
        · rw [if_pos hsg, if_pos (show ((decide ((s.obj us).view.size < 0) != decide ((s.obj vs).view.size < 0)) = true) from hsg)]
          unfold Mpf.addSame
          by_cases sw : (s.obj us).exp < (s.obj vs).exp
          · have sw' : (s.obj us).view.exp < (s.obj vs).view.exp := sw
            simp only [sw, sw', decide_true, if_true]
            refine ⟨addSameSign_safe s _ vs us hs hr hv hu (by omega), ?_⟩
            rw [addSameSign_view s _ vs us hs hr hv hu (by omega) hov.1 hou.1]
            simp [FObj.view]
            by_cases hn : (s.obj us).size < 0 <;> simp [hn]
          · have sw' : ¬ (s.obj us).view.exp < (s.obj vs).view.exp := sw
            simp only [sw, sw', decide_false, Bool.false_eq_true, if_false]
            refine ⟨addSameSign_safe s _ us vs hs hr hu hv (by omega), ?_⟩
            rw [addSameSign_view s _ us vs hs hr hu hv (by omega) hou.1 hov.1]
            simp [FObj.view]
            by_cases hn : (s.obj us).size < 0 <;> simp [hn]
        · rw [if_neg hsg, if_neg (show ¬ ((decide ((s.obj us).view.size < 0) != decide ((s.obj vs).view.size < 0)) = true) from hsg)]
          exact subStore_spec s us vs _ hs hr hu hv
            (Mpf.subMag_spec s.r.prec hp (s.obj us).view (s.obj vs).view hou hov hu0 hv0 (sign_same hsg)).1 (subMag_prec _ _ _ _)
  obtain ⟨F, hv'⟩ := key
  refine ⟨F.ok, F.u, F.v, F.prec, F.alloc, F.wf, hv', fun fu fv => ?_⟩
  rw [hv']
  refine (Mpf.sub_accurate s.r.prec hp _ _ hou hov _ _ ?_ ?_).1
  · intro h; have h' : us = .r := by simpa using h
    subst h'; rw [hou.2.1]; exact fu rfl
  · intro h; have h' : vs = .r := by simpa using h
    subst h'; rw [hov.2.1]; exact fv rfl

/-- four limbs, exponent 3; `sb` differs from `sa` in the lowest limb only (three equal high limbs: the scan) -/
def sa : FObj := mkObj 0 false 3 [5, 7, 9, 11] 1
def sb : FObj := mkObj 0 false 3 [6, 7, 9, 11] 1
/-- 8 000… and 7 fff… 1: the x+1 000… / x fff… path -/
def sc : FObj := mkObj 0 false 3 [0, 0, 8] 1
def sd : FObj := mkObj 0 false 3 [1, B - 1, B - 1, 7] 1
/-- the destination holding `sa` with PREC = 2 -/
def r4 : FObj := mkObj 2 false 3 [5, 7, 9, 11] 3

example : (fun s : St => (s.ok, s.out)) (mpf_sub (mkSt r2 sa sb) .u .v) = (true, -1, 0, [1, junk, junk]) := by decide
example : (fun s : St => (s.ok, s.out)) (mpf_sub (mkSt r2 sc sd) .u .v) = (true, 1, 0, [B - 1, junk, junk]) := by decide
-- r == u (four limbs in the object), and r == u == v: complete cancellation, SIZ = 0 and EXP = 0, no limb stored
example : (fun s : St => (s.ok, s.out)) (mpf_sub (mkSt r4 default sb) .r .v) = (true, -1, 0, [1, 7, 9, 11]) := by decide
example : (fun s : St => (s.ok, s.out)) (mpf_sub (mkSt r4 default default) .r .r) = (true, 0, 0, [5, 7, 9, 11]) := by decide
-- mpf_add with operands of different sign takes the same path
example : (mpf_add 0 (mkSt r2 sa { sb with size := -4 }) .u .v).map (fun s : St => (s.ok, s.out)) =
    some (true, -1, 0, [1, junk, junk]) := by decide
-- negative: a destination block of PREC limbs instead of PREC + 1 cannot take the three result limbs of 3 B^2 + 2 B + 1 - 1
example : (mpf_sub (mkSt (mkObj 2 false 0 [] 2) (mkObj 0 false 3 [1, 2, 3] 1) (mkObj 0 false 1 [1] 1)) .u .v).ok = false := by decide

end Mpir.AllocSafe7
