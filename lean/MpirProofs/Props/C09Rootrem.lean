/-
  C09, part `rootrem` — the n-th root algorithms behind mpn_rootrem.  Property theorems only; the lemmas are in
  MpirProofs/Lemmas/Rootrem.lean (integer Newton iteration) and MpirProofs/Lemmas/RootremBc.lean (the loops of
  mpn_rootrem_basecase).  The models (Mpir/Model/Rootrem.lean) mirror the C at value + limb-count level and
  answer the op `mpn_rootrem_basecase` of the differential run.
-/
import MpirProofs.Lemmas.RootremTop
import MpirProofs.Lemmas.SqrtremLimb
namespace Mpir.Rootrem
open Mpir Mpir.Root Mpir.Gen.SqrtTabs

/-- mpn_rootrem_basecase ({up, un} = U, nth) — rootrem_basecase.c:80-201 — for every operand `U ≥ 1` below 2^32 bits
    and every index `2 ≤ nth < 2^64`:
    * the model never reaches `none`: no `ASSERT_ALWAYS` fires (in particular the one after the single final
      decrement, :191), mpn_tdiv_qr is called with `un ≥ pn`, no limb of `qp` is read before it is written, the
      test `un - pn == xn` (:163) sees every quotient of `xn + 1` limbs, the saturated iterate (:168-170) is right;
    * the Newton loop terminates (variant `xnb + 1 − n_valid_bits`; `n_valid_bits > adj` makes it grow) — the fuel
      `xnb + 1` of the model is never exhausted;
    * the result is `r = ⌊U^(1/nth)⌋` (`r^nth ≤ U < (r+1)^nth`, `iroot_spec`) and the remainder `U − r^nth`; the returned
      size is the normalised limb count of the remainder (`MPN_NORMALIZE`, printed by the op from the same value).
    Loop invariants (Lemmas/RootremBc.lean): bit phase `s ≤ x ≤ s + 2^(bit+1)`; Newton phase `s ≤ x ≤ s + 2^m`,
    `(x − s − 1)·2^v ≤ 2^(m+1)` with `n_valid_bits = v + bits(nth) − 1`, `v` doubling, `m = xnb − 1 − bits(nth)`.
    The bound on the operand is needed only for the `un - pn == xn` test (it needs `4·nth² ≤ B^xn`). -/
theorem rootrem_basecase_spec (U nth : Nat) (hU : 0 < U) (hn : 2 ≤ nth) (hnB : nth < B) (hsz : bitLen U ≤ 2 ^ 32) :
    rootremBasecase U nth = some (iroot nth U, U - iroot nth U ^ nth) ∧
    iroot nth U ^ nth ≤ U ∧ U < (iroot nth U + 1) ^ nth :=
  ⟨rootremBasecase_ok U nth hU hn hnB hsz, iroot_spec nth U (by omega)⟩

-- non-vacuity: the Newton path with a saturated iterate (root B − 1), the bit-phase path, the root-is-1 exit
example : rootremBasecase (B ^ 3 - 1) 3 = some (B - 1, B ^ 3 - 1 - (B - 1) ^ 3) ∧
    rootremBasecase 1000 3 = some (10, 0) ∧ rootremBasecase (2 ^ 100 + 12345) 2 = some (2 ^ 50, 12345) ∧
    rootremBasecase 12345 64 = some (1, 12344) := by decide +kernel

/-- the same below the size bound where mpn_rootrem uses the basecase (`un < ROOTREM_THRESHOLD`, regenerated constant). -/
theorem rootrem_basecase_spec_threshold (U nth : Nat) (hU : 0 < U) (hn : 2 ≤ nth) (hnB : nth < B)
    (hun : limbLen U < rootremThreshold) :
    rootremBasecase U nth = some (iroot nth U, U - iroot nth U ^ nth) := by
  refine (rootrem_basecase_spec U nth hU hn hnB ?_).1
  have h : limbLen U < 2 ^ 26 := Nat.lt_trans hun (by decide)
  unfold limbLen at h
  omega

example : limbLen (B ^ 5 - 1) < rootremThreshold ∧
    rootremBasecase (B ^ 5 - 1) 5 = some (B - 1, B ^ 5 - 1 - (B - 1) ^ 5) := by decide +kernel


/-! ## mpn_rootrem_internal (rootrem.c:135-423) -/

/-- The Newton round in isolation (kept under its old name; the full statement it was a part of is now proved:
    `mpn_rootrem_internal_spec`, `mpn_rootrem_internal_approx_spec`, `mpn_rootrem_spec` below).  Old note:
    PARTIAL (`mpn_rootrem_spec`).  Full statement:
      `∀ U k, 0 < U → 2 ≤ k → rootremInternal U k false = some (iroot k U, U − (iroot k U)^k, false)`, the variant
      with `approx = 1` (`root ≤ S ≤ root + 1`, low limb > 1, or the exact result), and for the dispatcher
      `rootrem U k w = some (iroot k U, r)` with `r = U − root^k` (`w = true`) resp. `r = 0 ↔ root^k = U`.
    Proved here: the Newton round on the exact expression the C evaluates.  If `S` is the floor k-th root of
    `⌊U'/β^k⌋` (`β = 2^b`) and the schedule's condition holds (`k·β ≤ S` — Brent–Zimmermann, rootrem.c:221-228 — or one
    bit at a time, `β = 2`, :229-230), then with `Q = min (β − 1, ⌊(⌊U'/β^(k−1)⌋ − S^k·β) / (k·S^(k−1))⌋)` (the clamp of
    :331-339) the candidate `S·β + Q` is never below the floor root `s'` of `U'` and at most one above it
    (`ASSERT_ALWAYS (c <= 1)`, :407), and `Q < β`, `S·β ≤ s' < (S+1)·β` (the candidate keeps its bit count).
    (The induction over the schedule list, the `approx` exit and the padded call are `mpn_rootrem_schedule_ok`,
    `mpn_rootrem_internal_spec`, `mpn_rootrem_internal_approx_spec`, `mpn_rootrem_spec`.) -/
theorem mpn_rootrem_newton_round_partial (k S β U' : Nat) (hk : 2 ≤ k) (hS : 0 < S) (hβ : 1 ≤ β)
    (h1 : S ^ k * β ^ k ≤ U') (h2 : U' < (S + 1) ^ k * β ^ k) (hc : k * β ≤ S ∨ β = 2) :
    let Q0 := (U' / β ^ (k - 1) - S ^ k * β) / (k * S ^ (k - 1))
    let Q := if Q0 ≥ β then β - 1 else Q0
    iroot k U' ≤ S * β + Q ∧ S * β + Q ≤ iroot k U' + 1 ∧ S * β ≤ iroot k U' ∧ iroot k U' < (S + 1) * β ∧ Q < β :=
  newton_round k S β U' hk hS hβ h1 h2 hc

-- non-vacuity: k = 3, S = 12 = ⌊1999^(1/3)⌋, β = 4 (k·β ≤ S): U' = 1999·64 + 63, candidate 51 = root + 1 (one correction)
example : 12 ^ 3 * 4 ^ 3 ≤ 127999 ∧ 127999 < 13 ^ 3 * 4 ^ 3 ∧ 3 * 4 ≤ 12 ∧
    (127999 / 4 ^ 2 - 12 ^ 3 * 4) / (3 * 12 ^ 2) = 2 ∧ iroot 3 127999 = 50 := by decide +kernel

/-- One round of the loop of mpn_rootrem_internal ON THE MODEL (`rrStep`, `approx = 0`): from the loop invariant stated
    in the C (rootrem.c:244-250: `{sp, sn}` the root of the top part, `{rp, rn}` the remainder, `{wp, wn} = S^(k−1)`,
    `kk` truncated bits) and the schedule's condition the round returns the floor root of `⌊U / 2^kk'⌋`, the exact
    remainder and (unless last) `W = root^(k−1)` — it never aborts (`some`): the clamp, the correction loop with its
    `ASSERT_ALWAYS (c <= 1)`, mpn_pow_1 on a candidate that keeps its limb count after `MPN_DECR_U`. -/
theorem mpn_rootrem_internal_round (U k b S kk' next : Nat) (last : Bool) (hk : 2 ≤ k) (hb : 1 ≤ b) (hSpos : 0 < S)
    (hS1 : S ^ k ≤ U / 2 ^ (kk' + k * b)) (hS2 : U / 2 ^ (kk' + k * b) < (S + 1) ^ k)
    (hSlt : (S + 1) * 2 ^ b ≤ 2 ^ (next + 1)) (hnext : 2 ^ next ≤ S * 2 ^ b)
    (hc : k * 2 ^ b ≤ S ∨ b = 1) :
    ∃ W', rrStep U k b last false (S, U / 2 ^ (kk' + k * b) - S ^ k, S ^ (k - 1), kk' + k * b) =
        some (iroot k (U / 2 ^ kk'), U / 2 ^ kk' - iroot k (U / 2 ^ kk') ^ k, W', kk', false) ∧
      (last = false → W' = iroot k (U / 2 ^ kk') ^ (k - 1)) :=
  rrStep_spec U k b S kk' next last hk hb hSpos hS1 hS2 hSlt hnext hc

-- non-vacuity: the same numbers through the model round (U = 127999·2^9, k = 3, b = 2, kk' = 9): root 50, W = 2500
example : rrStep (127999 * 2 ^ 9) 3 2 false false (12, 127999 * 2 ^ 9 / 2 ^ 15 - 12 ^ 3, 12 ^ 2, 15) =
    some (50, 127999 - 50 ^ 3, 2500, 9, false) := by decide +kernel

-- the whole models on concrete operands (6 limbs: mpn_rootrem_internal; remp == NULL padded path; basecase below 6 limbs)
example : rootrem (B ^ 6 - 1) 3 true = some (B ^ 2 - 1, B ^ 6 - 1 - (B ^ 2 - 1) ^ 3) ∧
    rootrem ((B ^ 3 - 5) ^ 2) 2 false = some (B ^ 3 - 5, 0) ∧
    rootremInternal (7 ^ 150) 5 false = some (7 ^ 30, 0, false) := by decide +kernel


/-! ## the schedule, the whole of mpn_rootrem_internal, the dispatcher -/

/-- The bit-size schedule `sizes[]` of mpn_rootrem_internal (rootrem.c:211-238) for every index `k ≥ 2` and every
    root bit count `xnb = T + 1 ≥ 2` with `T·k < 2^62` (operands of at most 2^62 bits):
    * it ends in 0 and has at most 65 entries — `ASSERT_ALWAYS (ni < GMP_NUMB_BITS + 1)` (:234) does not fire;
    * consecutive entries `a = sizes[i-1] > c = sizes[i]` satisfy `a + logk ≤ 2c` or `a = c + 1` (`SchedOK`), which is
      what the round needs: `k·2^(a−c) ≤ 2^c ≤ S` (Brent–Zimmermann "at most one correction") or one bit at a time;
    * every entry is at most `T = sizes[0]`.
    (For `k = 2` and `T = 2^63 − 1` the list has 66 entries: the assertion would fire on an operand of 2^64 − 2 bits,
    which no address space holds.) -/
theorem mpn_rootrem_schedule_ok (k T : Nat) (hk : 2 ≤ k) (hT : 1 ≤ T) (hsz : T * k < 2 ^ 62) :
    let logk := if bitLen (k - 1) = 0 then 1 else bitLen (k - 1)
    (rrSizes logk 66 T).length ≤ 65 ∧ (rrSizes logk 66 T).getLast? = some 0 ∧ (rrSizes logk 66 T).head? = some T ∧
    List.IsChain (SchedOK logk) (rrSizes logk 66 T) ∧ (∀ x ∈ rrSizes logk 66 T, x ≤ T) ∧ k ≤ 2 ^ logk := by
  intro logk
  have hl : logk = bitLen (k - 1) := (logk_spec k hk).1
  rw [hl]
  obtain ⟨f1, f2⟩ := rrSizes_fits k T hk hT hsz
  exact ⟨f1, f2, rrSizes_head_eq _ 65 T, rrSizes_chain _ 66 T, rrSizes_le _ 66 T, (logk_spec k hk).2.2.1⟩

-- non-vacuity: k = 3 (logk = 2), a 101-bit root: halving phase 100 → 6, then single bits; k = 2 at the size bound
example : rrSizes 2 66 100 = [100, 51, 27, 15, 9, 6, 4, 3, 2, 1, 0] ∧ (rrSizes 1 66 (2 ^ 61 - 1)).length = 64 ∧
    (rrSizes 1 66 (2 ^ 63 - 1)).length = 66 := by decide +kernel

/-- mpn_rootrem_internal (rootrem.c:135-423) with `approx = 0`, for EVERY normalised operand `U ≥ 1` of at most 2^62
    bits and every index `k ≥ 2`: the model never reaches `none` (no `ASSERT_ALWAYS` fires: `ni < 65`, `c <= 1`,
    `bn >= qn`, `rn >= qn`; mpn_pow_1 always sees a normalised base) and returns `(⌊U^(1/k)⌋, U − ⌊U^(1/k)⌋^k)`.
    Proof: the one-bit initial approximation satisfies the loop invariant of :244-250 at `sizes[ni] = 0`
    (`iroot_trunc_bits`), every round re-establishes it (`mpn_rootrem_internal_round`, its side condition supplied by
    `mpn_rootrem_schedule_ok`), induction over the reversed schedule (`rrLoop_spec`). -/
theorem mpn_rootrem_internal_spec (U k : Nat) (hU : 0 < U) (hk : 2 ≤ k) (hsz : bitLen U ≤ 2 ^ 62) :
    rootremInternal U k false = some (iroot k U, U - iroot k U ^ k, false) ∧
    iroot k U ^ k ≤ U ∧ U < (iroot k U + 1) ^ k := by
  refine ⟨?_, iroot_spec k U (by omega)⟩
  obtain ⟨S, R, ap, e, p1, p2⟩ := rootremInternal_ok U k false hU hk hsz
  cases ap with
  | true => exact absurd (p2 rfl).1 (by simp)
  | false => obtain ⟨pS, pR⟩ := p1 rfl; rw [e, pS, pR]

example : rootremInternal (7 ^ 150 + 1) 5 false = some (7 ^ 30, 1, false) ∧
    rootremInternal (B ^ 8 - 1) 2 false = some (B ^ 4 - 1, 2 * (B ^ 4 - 1), false) := by decide +kernel

/-- mpn_rootrem_internal with `approx = 1` (the call of the `remp == NULL` path): either the flag comes back off and
    the result is exact as above, or it stays on and then the returned `S` is the floor root or ONE ABOVE it, its least
    significant limb is at least 2, and the returned "remainder" is the operand itself (non-zero; no power was
    computed in the last round, rootrem.c:385-386, :411).  This is exactly what the caller relies on: a candidate whose
    low limb is ≥ 2 determines `S / B` and excludes a perfect power of the unpadded operand. -/
theorem mpn_rootrem_internal_approx_spec (U k : Nat) (hU : 0 < U) (hk : 2 ≤ k) (hsz : bitLen U ≤ 2 ^ 62) :
    ∃ S R ap, rootremInternal U k true = some (S, R, ap) ∧
      (ap = false → S = iroot k U ∧ R = U - iroot k U ^ k) ∧
      (ap = true → iroot k U ≤ S ∧ S ≤ iroot k U + 1 ∧ 1 < S % B ∧ R = U) := by
  obtain ⟨S, R, ap, e, p1, p2⟩ := rootremInternal_ok U k true hU hk hsz
  exact ⟨S, R, ap, e, p1, fun h => (p2 h).2⟩

-- non-vacuity: the flag stays on with a candidate ONE ABOVE the root (low limb 2^63); it goes off on a low limb 0
example : rootremInternal (((2 ^ 200 + 12345) ^ 2 + 2 ^ 200) * B ^ 2) 2 true =
      some (Nat.sqrt (((2 ^ 200 + 12345) ^ 2 + 2 ^ 200) * B ^ 2) + 1, ((2 ^ 200 + 12345) ^ 2 + 2 ^ 200) * B ^ 2, true) ∧
    (Nat.sqrt (((2 ^ 200 + 12345) ^ 2 + 2 ^ 200) * B ^ 2) + 1) % B = 2 ^ 63 ∧
    rootremInternal ((2 ^ 200 + 12345) ^ 2 * B ^ 2) 2 true = some ((2 ^ 200 + 12345) * B, 0, false) := by decide +kernel

/-- mpn_rootrem (rootrem.c:78-132), UNCONDITIONAL on the model: for every normalised operand `U ≥ 1` (at most 2^61
    bits) and every index `2 ≤ k < 2^64`, on each of the three paths — mpn_rootrem_basecase below ROOTREM_THRESHOLD
    limbs, the call padded with `k` zero limbs when `remp == NULL` and `un / k > 2` (root truncated by one limb,
    :124), mpn_rootrem_internal otherwise — the root written is `r = ⌊U^(1/k)⌋` (`r^k ≤ U < (r+1)^k`); with a
    remainder pointer (`w = true`) the remainder is `U − r^k`; in every case the value the return code is derived from
    is zero exactly when `r^k = U` (with `remp == NULL`: "non-zero iff the remainder is non-zero"). -/
theorem mpn_rootrem_spec (U k : Nat) (w : Bool) (hU : 0 < U) (hk : 2 ≤ k) (hkB : k < B) (hsz : bitLen U ≤ 2 ^ 61) :
    ∃ R, rootrem U k w = some (iroot k U, R) ∧ (w = true → R = U - iroot k U ^ k) ∧ (R = 0 ↔ iroot k U ^ k = U) ∧
      iroot k U ^ k ≤ U ∧ U < (iroot k U + 1) ^ k := by
  obtain ⟨R, e, p1, p2⟩ := rootrem_ok U k w hU hk hkB hsz
  exact ⟨R, e, p1, p2, iroot_spec k U (by omega)⟩

-- non-vacuity: the padded path with the flag still on (7 limbs, k = 2: non-zero "remainder"), an exact square on it
example : rootrem ((2 ^ 200 + 12345) ^ 2 + 2 ^ 200) 2 false =
      some (2 ^ 200 + 12345, ((2 ^ 200 + 12345) ^ 2 + 2 ^ 200) * B ^ 2) ∧
    rootrem ((2 ^ 200 + 12345) ^ 2 + 2 ^ 200) 2 true = some (2 ^ 200 + 12345, 2 ^ 200) ∧
    rootrem ((2 ^ 200 + 12345) ^ 2) 2 false = some (2 ^ 200 + 12345, 0) := by decide +kernel

/-! ## mpn_dc_sqrtrem at limb level (sqrtrem.c:245-293) -/

/-- mpn_dc_sqrtrem (sp, np, n) ON LIMB BUFFERS (`Model/SqrtremLimb.lean`: every buffer reduced modulo `B^(its size)`, every
    mpn call returning its borrow / carry / top quotient limb, the C's `int c, b` and `mp_limb_t q`) for every `n ≥ 1` and
    every normalised operand `B^(2n)/4 ≤ N < B^(2n)`:  `{sp, n} = ⌊√N⌋`, `{np, n}` = the low `n` limbs of the remainder
    `N − ⌊√N⌋²` and the returned `c` its carry limb (0 or 1).  Inside (Lemmas/SqrtremLimb.lean, one lemma per statement
    group): the pre-subtraction `if (q != 0) mpn_sub_n` never wraps (`divStep_spec`); the quotient of mpn_intdivrem is
    `q·B^l + {sp, l}` with `q ≤ 2`; halving moves bit 0 of `q` into bit 63 of `sp[l-1]` where the OR is an addition
    (`halfStep_spec`), and afterwards `q = 1` forces `{sp, l} = 0`, so subtracting only `{sp, l}²` and `q` at `B^(2l)` is the
    full square (`subSquare_core`); the borrow `b ∈ {0, 1, 2}` reaches `c` directly (`l = h`) or through the single limb
    `np[2l]` (`h = l + 1`); `c < 0` iff the true remainder is negative, and the correction `+ 2·S − 1` / `S − 1` with its
    carries `mpn_addmul_1 + 2q`, `mpn_sub_1` restores `c·B^n + {np, n} = N − S²` with `S = ⌊√N⌋ < B^n` even when
    `mpn_add_1` had carried out of `{sp + l, h}` (`fixup_spec`).  Base case: the word-level mpn_sqrtrem2 theorem, whose
    returned `cc` is now proved non-negative (`sqrtrem2_exI`). -/
theorem mpn_dc_sqrtrem_limb_spec (n N : Nat) (hn : 0 < n) (h1 : B ^ (2 * n) ≤ 4 * N) (h2 : N < B ^ (2 * n)) :
    SqrtL.dcL n n N = (Nat.sqrt N, (N - Nat.sqrt N * Nat.sqrt N) % B ^ n,
      (((N - Nat.sqrt N * Nat.sqrt N) / B ^ n : Nat) : Int)) ∧
    (N - Nat.sqrt N * Nat.sqrt N) / B ^ n ≤ 1 ∧ Nat.sqrt N < B ^ n := by
  have e := SqrtL.dcL_eq n n N hn (Nat.le_refl _) h1 h2
  have hv : dcSqrtremF n n N = (Nat.sqrt N, N - Nat.sqrt N * Nat.sqrt N) := by
    obtain ⟨e1, r1⟩ := dcSpec n N hn h1 h2
    obtain ⟨d1, d2⟩ := sqrt_of_rem e1 r1
    exact Prod.ext d1 d2
  rw [hv] at e
  have hs : Nat.sqrt N < B ^ n := by
    rw [Nat.sqrt_lt, ← pow_two, ← pow_mul, Nat.mul_comm]; exact h2
  refine ⟨e, ?_, hs⟩
  have hr : N - Nat.sqrt N * Nat.sqrt N ≤ 2 * Nat.sqrt N := by
    have := Nat.sqrt_le_add N; omega
  have hlt : (N - Nat.sqrt N * Nat.sqrt N) / B ^ n < 2 :=
    (Nat.div_lt_iff_lt_mul (pow_pos B_pos _)).mpr (by omega)
  omega

-- non-vacuity: n = 3 (l = 1, h = 2: the borrow through np[2l]) with the carry limb set; n = 2 on B^4 − 1
example : SqrtL.dcL 3 3 (B ^ 6 - 1) = (B ^ 3 - 1, (2 * (B ^ 3 - 1)) % B ^ 3, 1) ∧
    SqrtL.dcL 2 2 (B ^ 4 - 1) = (B ^ 2 - 1, B ^ 2 - 2, 1) ∧ SqrtL.dcL 2 2 (B ^ 4 / 4) = (B ^ 2 / 2, 0, 0) := by
  decide +kernel

/-- mpn_sqrtrem on an operand with an even number `2·tn` of limbs and a normalised top limb — the branch that passes the
    operand unshifted to mpn_dc_sqrtrem and stores its return value as `rp[tn]` (sqrtrem.c:362-368), limb level:
    root `⌊√N⌋` in `tn` limbs, `{rp, tn + 1} = N − ⌊√N⌋²`. -/
theorem mpn_sqrtrem_even_limb_spec (tn N : Nat) (hn : 0 < tn) (h1 : B ^ (2 * tn) ≤ 4 * N) (h2 : N < B ^ (2 * tn)) :
    SqrtL.sqrtremEvenL tn N = (Nat.sqrt N, ((N - Nat.sqrt N * Nat.sqrt N : Nat) : Int)) := by
  obtain ⟨e, -, -⟩ := mpn_dc_sqrtrem_limb_spec tn N hn h1 h2
  unfold SqrtL.sqrtremEvenL
  rw [e]
  dsimp only
  congr 1
  have := Nat.div_add_mod (N - Nat.sqrt N * Nat.sqrt N) (B ^ tn)
  rw [← Int.natCast_mul, ← Int.natCast_add]
  congr 1
  rw [Nat.mul_comm]; exact this

example : SqrtL.sqrtremEvenL 2 (B ^ 4 - 1) = (B ^ 2 - 1, ((2 * (B ^ 2 - 1) : Nat) : Int)) := by decide +kernel

end Mpir.Rootrem
