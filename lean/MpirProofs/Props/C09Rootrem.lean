/-
  C09, part `rootrem` — the n-th root algorithms behind mpn_rootrem.  Property theorems only; the lemmas are in
  MpirProofs/Lemmas/Rootrem.lean (integer Newton iteration) and MpirProofs/Lemmas/RootremBc.lean (the loops of
  mpn_rootrem_basecase).  The models (Mpir/Model/Rootrem.lean) mirror the C at value + limb-count level and
  answer the op `mpn_rootrem_basecase` of the differential run.
-/
import MpirProofs.Lemmas.RootremBc
namespace Mpir.Rootrem
open Mpir Mpir.Root Mpir.Gen.SqrtTabs

/-- mpn_rootrem_basecase ({up, un} = U, nth) — rootrem_basecase.c:80-201 — for every operand `U ≥ 1` below 2^32 bits
    and every index `2 ≤ nth < 2^64`:
    * the model never reaches `none`: no `ASSERT_ALWAYS` fires (in particular the one after the single final
      decrement, :191), mpn_tdiv_qr is called with `un ≥ pn`, no limb of `qp` is read before it is written, the
      test `un - pn == xn` (:163) sees every quotient of `xn + 1` limbs, the saturated iterate (:168-170) is right;
    * the Newton loop terminates (variant `xnb + 1 − n_valid_bits`; `n_valid_bits > adj` makes it grow) — the fuel
      `xnb + 1` of the model is never exhausted;
    * the result is `r = ⌊U^(1/nth)⌋` (`r^nth ≤ U < (r+1)^nth`, `iroot_spec`) and the remainder `U − r^nth`; the returned
      size is the normalised limb count of the remainder (`MPN_NORMALIZE`, printed by the op from the same value).
    Loop invariants (Lemmas/RootremBc.lean): bit phase `s ≤ x ≤ s + 2^(bit+1)`; Newton phase `s ≤ x ≤ s + 2^m`,
    `(x − s − 1)·2^v ≤ 2^(m+1)` with `n_valid_bits = v + bits(nth) − 1`, `v` doubling, `m = xnb − 1 − bits(nth)`.
    The bound on the operand is needed only for the `un - pn == xn` test (it needs `4·nth² ≤ B^xn`). -/
theorem rootrem_basecase_spec (U nth : Nat) (hU : 0 < U) (hn : 2 ≤ nth) (hnB : nth < B) (hsz : bitLen U ≤ 2 ^ 32) :
    rootremBasecase U nth = some (iroot nth U, U - iroot nth U ^ nth) ∧
    iroot nth U ^ nth ≤ U ∧ U < (iroot nth U + 1) ^ nth :=
  ⟨rootremBasecase_ok U nth hU hn hnB hsz, iroot_spec nth U (by omega)⟩

-- non-vacuity: the Newton path with a saturated iterate (root B − 1), the bit-phase path, the root-is-1 exit
example : rootremBasecase (B ^ 3 - 1) 3 = some (B - 1, B ^ 3 - 1 - (B - 1) ^ 3) ∧
    rootremBasecase 1000 3 = some (10, 0) ∧ rootremBasecase (2 ^ 100 + 12345) 2 = some (2 ^ 50, 12345) ∧
    rootremBasecase 12345 64 = some (1, 12344) := by decide +kernel

/-- the same below the size bound where mpn_rootrem uses the basecase (`un < ROOTREM_THRESHOLD`, regenerated constant). -/
theorem rootrem_basecase_spec_threshold (U nth : Nat) (hU : 0 < U) (hn : 2 ≤ nth) (hnB : nth < B)
    (hun : limbLen U < rootremThreshold) :
    rootremBasecase U nth = some (iroot nth U, U - iroot nth U ^ nth) := by
  refine (rootrem_basecase_spec U nth hU hn hnB ?_).1
  have h : limbLen U < 2 ^ 26 := Nat.lt_trans hun (by decide)
  unfold limbLen at h
  omega

example : limbLen (B ^ 5 - 1) < rootremThreshold ∧
    rootremBasecase (B ^ 5 - 1) 5 = some (B - 1, B ^ 5 - 1 - (B - 1) ^ 5) := by decide +kernel

end Mpir.Rootrem
