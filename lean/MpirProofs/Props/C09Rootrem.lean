import MpirProofs.Lemmas.Rootrem
