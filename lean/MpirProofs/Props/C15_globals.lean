/-
  C15 — shared state: escape analysis of the writable statics, and the documented shared cells.

  (1) `escaped_statics_harmless`: for EVERY object with static storage in a writable section of the library
      built from the working tree (global, file-static, function-static; regenerated `Mpir.Gen.globals`),
      either it is documented shared state, or it is a `const` object in a relocated read-only section
      (written by the loader only, before any thread exists), or no instruction stores to it AND every
      occurrence of it in the source (regenerated `Mpir.Gen.globalUses`, clang AST, local pointer aliases
      followed) is read-only: loaded, compared, `sizeof`, or passed to a pointer-to-const parameter.
  (2) `documented_cells_writers`: the functions that contain a store to (or hand out a mutable pointer to)
      each documented cell are exactly the documented setters — on the binary and on the source;
      `documented_cells_reach`: so are the functions from which such a writer is reachable by direct calls.
  (3) `interleaving_irrelevant_cells`: schedule independence with read-shared cells (a thread's footprint of
      cells that no other thread writes); `read_shared_schedule_independent`: histories in which no thread
      writes a cell after thread creation; `api_readers_schedule_independent` and
      `api_schedule_independent` (no other thread writes a cell that `t`'s calls touch) for the API model.
-/
import Mpir.Model.Threads
import Mpir.Gen.Globals
import Mpir.Gen.GlobalUses
import MpirProofs.Props.C15

namespace Mpir.Gen

/-- use categories that cannot modify the object -/
def readOnlyKinds : List String := ["read", "constArg", "cmp", "sizeof"]

/-- the source occurrences of an object of the binary scan -/
def usesOf (g : GlobalObj) : List GlobalUse :=
  globalUses.filter (fun u => u.obj == g.base && u.objFile == g.file)

/-- the check per object (Bool, so that the kernel evaluates it) -/
def harmless (g : GlobalObj) : Bool :=
  documentedShared.contains g.name || g.relro ||
    (g.stores == 0 && (usesOf g).all (fun u => readOnlyKinds.contains u.kind))

/-- Every writable static object is documented shared state, or a relocated constant, or is never stored to
    and all its source occurrences — including every use of its address — are read-only. -/
theorem escaped_statics_harmless : ∀ g ∈ globals,
    g.name ∈ documentedShared ∨ g.relro = true ∨
      (g.stores = 0 ∧ ∀ u ∈ usesOf g, u.kind ∈ readOnlyKinds) := by
  have h : globals.all harmless = true := by decide +kernel
  intro g hg
  have hg' := List.all_eq_true.mp h g hg
  simp only [harmless, Bool.or_eq_true, Bool.and_eq_true, List.contains_iff_mem, beq_iff_eq, List.all_eq_true] at hg'
  rcases hg' with (h1 | h2) | ⟨h3, h4⟩
  · exact Or.inl h1
  · exact Or.inr (Or.inl h2)
  · exact Or.inr (Or.inr ⟨h3, h4⟩)

/-- non-vacuity: the scan contains undocumented, non-constant statics whose address is taken, with source uses
    (in the unmodified library: `addtab` of gmp_nextprime through the local alias `addp`, and `revtab`) -/
example : (globals.filter (fun g => !documentedShared.contains g.name && !g.relro && 0 < g.addrTaken && !(usesOf g).isEmpty)).length ≥ 1 ∧
    globalUses.length ≥ 50 ∧ (globals.filter (fun g => g.isLocal)).length ≥ 3 := by decide +kernel

/-- the documented setters of each documented cell: function symbols of the library -/
def documentedWriters : List (String × List String) :=
  [("__gmp_allocate_func", ["__gmp_set_memory_functions"]),
   ("__gmp_reallocate_func", ["__gmp_set_memory_functions"]),
   ("__gmp_free_func", ["__gmp_set_memory_functions"]),
   ("__gmp_default_fp_limb_precision", ["__gmpf_set_default_prec"]),
   ("__gmp_errno", []),
   ("__gmp_rands_initialized", ["__gmpf_random2", "__gmpn_random", "__gmpn_random2"]),
   ("__gmp_rands", ["__gmpf_random2", "__gmpn_random", "__gmpn_random2"]),
   ("__gmp_junk", ["__gmp_exception"])]

/-- functions with a store instruction to the cell or that materialise its address (binary) -/
def binWriters (c : String) : List String :=
  ((storeFuncs ++ addrFuncs).filter (fun p => p.1 == c)).map (fun p => p.2.2)

/-- functions with a source occurrence that is not read-only (source) -/
def srcWriters (c : String) : List String :=
  (globalUses.filter (fun u => u.obj == c && !readOnlyKinds.contains u.kind)).map (fun u => u.func)

def sameSet (a b : List String) : Bool := a.all (b.contains ·) && b.all (a.contains ·)

/-- The set of functions that write a documented cell (directly, or by passing it as a mutable pointer) equals the
    documented setter list — in the compiled library and in its source. -/
theorem documented_cells_writers : ∀ p ∈ documentedWriters,
    sameSet (binWriters p.1) p.2 = true ∧ sameSet (srcWriters p.1) p.2 = true := by
  decide +kernel

/-- Which API calls write the documented cells: the functions of the library from which a writer of the cell is
    reachable through direct calls are exactly the documented setters themselves — `mp_set_memory_functions`,
    `mpf_set_default_prec`, and the obsolete random functions `mpn_random`, `mpn_random2`, `mpf_random2`; nothing
    writes `gmp_errno`.  (`__gmp_junk`, the sink of the deliberate division by zero, is left out: every function that
    can raise an exception reaches it, on the way to a fatal signal.) -/
theorem documented_cells_reach : ∀ p ∈ documentedWriters, p.1 ≠ "__gmp_junk" →
    sameSet ((cellReach.filter (fun q => q.1 == p.1)).map (fun q => q.2)) p.2 = true := by
  decide +kernel

example : (cellReach.filter (fun q => q.1 == "__gmp_rands")).length = 3 := by decide +kernel

/-- every documented cell has an entry, and the table is not vacuous -/
example : documentedShared.all (fun c => (documentedWriters.map (·.1)).contains c) = true ∧
    (binWriters "__gmp_rands_initialized").length ≥ 3 := by decide +kernel

end Mpir.Gen

namespace Mpir.Threads

theorem runAloneC_nil {H S : Type} (sh : S) (c : Cells) (h : H) : runAloneC sh c h ([] : List (COp H S)) = (h, c) := rfl

/-- Schedule independence with shared cells.  Let `F` be a set of cells such that every operation of thread `t`
    looks at the cells only through `F` (`Respects`) and no operation of another thread writes a cell of `F`
    (`Preserves`).  Then for EVERY schedule thread `t` ends with exactly the heap — and the cells of `F` with exactly
    the values — of running `t`'s own operations alone from the initial cells; the read-only shared part is unchanged. -/
theorem interleaving_irrelevant_cells {H S : Type} (F : Cell → Prop) (t : Nat)
    (sched : List (Nat × COp H S)) (s : SysC H S) (c' : Cells)
    (hagree : ∀ x, F x → s.cells x = c' x)
    (hown : ∀ p ∈ sched, p.1 = t → Respects p.2 F)
    (hoth : ∀ p ∈ sched, p.1 ≠ t → Preserves p.2 F) :
    (runSchedC s sched).heaps t = (runAloneC s.shared c' (s.heaps t) (projC t sched)).1 ∧
    (∀ x, F x → (runSchedC s sched).cells x = (runAloneC s.shared c' (s.heaps t) (projC t sched)).2 x) ∧
    (runSchedC s sched).shared = s.shared := by
  induction sched generalizing s c' with
  | nil => exact ⟨rfl, hagree, rfl⟩
  | cons hd rest ih =>
    obtain ⟨u, op⟩ := hd
    have hown' : ∀ p ∈ rest, p.1 = t → Respects p.2 F := fun p hp => hown p (List.mem_cons_of_mem _ hp)
    have hoth' : ∀ p ∈ rest, p.1 ≠ t → Preserves p.2 F := fun p hp => hoth p (List.mem_cons_of_mem _ hp)
    simp only [runSchedC]
    by_cases hut : u = t
    · subst hut
      have hr := hown (u, op) (List.mem_cons_self) rfl s.shared s.cells c' (s.heaps u) hagree
      dsimp only at hr
      have h := ih (stepC s u op) (op s.shared c' (s.heaps u)).2 (by
        intro x hx; simpa [stepC] using hr.2 x hx) hown' hoth'
      have e1 : (stepC s u op).heaps u = (op s.shared c' (s.heaps u)).1 := by
        simp only [stepC, upd, if_true]; exact hr.1
      have e2 : (stepC s u op).shared = s.shared := rfl
      rw [e1, e2] at h
      simpa [projC, runAloneC] using h
    · have hp := hoth (u, op) (List.mem_cons_self) hut
      have h := ih (stepC s u op) c' (by
        intro x hx
        have := hp s.shared s.cells (s.heaps u) x hx
        simp only [stepC]; rw [this]; exact hagree x hx) hown' hoth'
      have e1 : (stepC s u op).heaps t = s.heaps t := by
        simp [stepC, upd, Ne.symm hut]
      have e2 : (stepC s u op).shared = s.shared := rfl
      rw [e1, e2] at h
      simpa [projC, hut] using h

/-- Histories in which no thread writes a cell after thread creation: every interleaving leaves every thread
    with the result of its solo run from the cells as they were at thread creation, and the cells unchanged. -/
theorem read_shared_schedule_independent {H S : Type} (sched : List (Nat × COp H S)) (s : SysC H S)
    (hro : ∀ p ∈ sched, Preserves p.2 (fun _ => True)) (t : Nat) :
    (runSchedC s sched).heaps t = (runAloneC s.shared s.cells (s.heaps t) (projC t sched)).1 ∧
    (runSchedC s sched).cells = s.cells ∧ (runSchedC s sched).shared = s.shared := by
  have resp : ∀ op : COp H S, Respects op (fun _ => True) := by
    intro op sh c c' h hc
    have : c = c' := funext (fun x => hc x trivial)
    subst this; exact ⟨rfl, fun _ _ => rfl⟩
  have h := interleaving_irrelevant_cells (fun _ => True) t sched s s.cells (fun _ _ => rfl)
    (fun p _ _ => resp p.2) (fun p hp _ => hro p hp)
  refine ⟨h.1, ?_, h.2.2⟩
  -- the cells: nobody writes them
  clear h
  induction sched generalizing s with
  | nil => rfl
  | cons hd rest ih =>
    obtain ⟨u, op⟩ := hd
    have hp := hro (u, op) (List.mem_cons_self)
    have e : (stepC s u op).cells = s.cells := funext (fun x => by simpa [stepC] using hp s.shared s.cells (s.heaps u) x trivial)
    simp only [runSchedC]
    rw [ih (stepC s u op) (fun p hp => hro p (List.mem_cons_of_mem _ hp)), e]

-- non-vacuity: thread 0 reads cell `defaultPrec` twice, thread 1 changes a DIFFERENT cell in between
example : (runSchedC (H := Nat) (S := Nat) { heaps := fun _ => 1, shared := 5, cells := cells0 }
    [(0, fun _ c h => (h + c .defaultPrec, c)), (1, fun _ c h => (h, setCell c .errno 7)),
     (0, fun sh c h => (h + sh + c .defaultPrec, c))]).heaps 0 = 10 := by
  decide

/-- an API call leaves every cell outside its documented write set unchanged -/
theorem apiStep_preserves (c : Cells) (a : ApiCall) (x : Cell) (hx : x ∉ apiWrites a) : (apiStep c a).1 x = c x := by
  cases a <;> simp only [apiStep, apiWrites, List.mem_cons, List.not_mem_nil, or_false, not_or] at * <;>
    first
    | rfl
    | (simp only [setCell]; split <;> simp_all)
    | (split <;> simp_all [setCell])

/-- an API call as an operation of the thread model: the observations are appended to the thread's heap -/
def apiOp (a : ApiCall) : COp (List Nat) Unit := fun _ c h => (h ++ (apiStep c a).2, (apiStep c a).1)

theorem apiOp_preserves_all (a : ApiCall) (ha : apiWrites a = []) : Preserves (apiOp a) (fun _ => True) := by
  intro sh c h x _
  exact apiStep_preserves c a x (by simp [ha])

/-- Threads that only use reading API calls (`mpf_init`, allocation, `mpf_get_default_prec`,
    `mp_get_memory_functions`, `gmp_errno`) after thread creation — whatever `mp_set_memory_functions` /
    `mpf_set_default_prec` did before — observe the same values under every interleaving. -/
theorem api_readers_schedule_independent (sched : List (Nat × ApiCall)) (s : SysC (List Nat) Unit)
    (hro : ∀ p ∈ sched, apiWrites p.2 = []) (t : Nat) :
    (runSchedC s (sched.map (fun p => (p.1, apiOp p.2)))).heaps t =
      (runAloneC s.shared s.cells (s.heaps t) (projC t (sched.map (fun p => (p.1, apiOp p.2))))).1 ∧
    (runSchedC s (sched.map (fun p => (p.1, apiOp p.2)))).cells = s.cells := by
  have h := read_shared_schedule_independent (sched.map (fun p => (p.1, apiOp p.2))) s (by
    intro p hp
    obtain ⟨q, hq, rfl⟩ := List.mem_map.mp hp
    exact apiOp_preserves_all q.2 (hro q hq)) t
  exact ⟨h.1, h.2.1⟩

theorem setCell_agree (F : Cell → Prop) (c c' : Cells) (y : Cell) (v : Nat) (h : ∀ x, F x → c x = c' x) :
    ∀ x, F x → setCell c y v x = setCell c' y v x := by
  intro x hx
  simp only [setCell]
  split
  · rfl
  · exact h x hx

/-- an API call depends on the cells only through `apiReads`: on cells that agree there it observes the same
    values and leaves every cell of a set `F` containing them in agreement -/
theorem apiStep_respects (F : Cell → Prop) (a : ApiCall) (hr : ∀ x ∈ apiReads a, F x) (c c' : Cells)
    (h : ∀ x, F x → c x = c' x) :
    (apiStep c a).2 = (apiStep c' a).2 ∧ ∀ x, F x → (apiStep c a).1 x = (apiStep c' a).1 x := by
  cases a <;> simp only [apiReads, List.mem_cons, List.not_mem_nil, or_false, forall_eq_or_imp, forall_eq] at hr
  case setMemoryFunctions a r f =>
    exact ⟨rfl, setCell_agree F _ _ _ _ (setCell_agree F _ _ _ _ (setCell_agree F _ _ _ _ h))⟩
  case getMemoryFunctions => exact ⟨by simp [apiStep, h _ hr.1, h _ hr.2.1, h _ hr.2.2], fun x hx => h x hx⟩
  case setDefaultPrec b => exact ⟨rfl, setCell_agree F _ _ _ _ h⟩
  case getDefaultPrec => exact ⟨by simp [apiStep, h _ hr], fun x hx => h x hx⟩
  case mpfInit => exact ⟨by simp [apiStep, h _ hr.1, h _ hr.2], fun x hx => h x hx⟩
  case allocCycle => exact ⟨by simp [apiStep, h _ hr.1, h _ hr.2.1, h _ hr.2.2], fun x hx => h x hx⟩
  case oldRandom =>
    have e1 := h _ hr.1; have e2 := h _ hr.2.1; have e3 := h _ hr.2.2
    simp only [apiStep, e1, e2, e3]
    split
    · exact ⟨by first | rfl | trivial, setCell_agree F _ _ _ _ (setCell_agree F _ _ _ _ h)⟩
    · exact ⟨by first | rfl | trivial, setCell_agree F _ _ _ _ h⟩
  case randsClear =>
    have e1 := h _ hr.1; have e2 := h _ hr.2
    simp only [apiStep, e1, e2]
    refine ⟨by first | rfl | trivial, ?_⟩
    split
    · exact h
    · exact setCell_agree F _ _ _ _ h
  case readErrno => exact ⟨by simp [apiStep, h _ hr], fun x hx => h x hx⟩

/-- The documented exceptions made precise, at the API level: if no OTHER thread performs a call that writes a cell
    which thread `t`'s calls read or write (`F` ⊇ the cells `t` touches), then under every interleaving `t` observes
    exactly what it observes running alone — e.g. one thread may use the obsolete random functions, or call
    `mpf_set_default_prec`, as long as the others do not look at those cells. -/
theorem api_schedule_independent (F : Cell → Prop) (t : Nat) (sched : List (Nat × ApiCall)) (s : SysC (List Nat) Unit)
    (hown : ∀ p ∈ sched, p.1 = t → ∀ x, (x ∈ apiReads p.2 ∨ x ∈ apiWrites p.2) → F x)
    (hoth : ∀ p ∈ sched, p.1 ≠ t → ∀ x ∈ apiWrites p.2, ¬ F x) :
    (runSchedC s (sched.map (fun p => (p.1, apiOp p.2)))).heaps t =
      (runAloneC s.shared s.cells (s.heaps t) (projC t (sched.map (fun p => (p.1, apiOp p.2))))).1 := by
  refine (interleaving_irrelevant_cells F t _ s s.cells (fun _ _ => rfl) ?_ ?_).1
  · intro p hp ht
    obtain ⟨q, hq, rfl⟩ := List.mem_map.mp hp
    intro sh c c' h hc
    have r := apiStep_respects F q.2 (fun x hx => hown q hq ht x (Or.inl hx)) c c' hc
    exact ⟨by simp [apiOp, r.1], r.2⟩
  · intro p hp ht
    obtain ⟨q, hq, rfl⟩ := List.mem_map.mp hp
    intro sh c h x hx
    exact apiStep_preserves c q.2 x (fun hw => hoth q hq ht x hw hx)

-- non-vacuity: thread 1 uses the obsolete random function and changes the default precision; thread 0 only
-- allocates and reads gmp_errno (F = the allocator cells and errno): thread 0 sees its solo values
example : (runSchedC { heaps := fun _ => [], shared := (), cells := (apiStep cells0 (.setMemoryFunctions 1 2 1)).1 }
    ([(0, ApiCall.allocCycle), (1, ApiCall.oldRandom), (1, ApiCall.setDefaultPrec 500), (0, ApiCall.readErrno), (0, ApiCall.getMemoryFunctions)].map
      (fun p => (p.1, apiOp p.2)))).heaps 0 = [1, 2, 1, 0, 1, 2, 1] := by decide

-- non-vacuity: precision set to 200 bits before thread creation; two threads call mpf_init / mpf_get_default_prec
example : ((runSchedC { heaps := fun _ => [], shared := (), cells := (apiStep cells0 (.setDefaultPrec 200)).1 }
    ([(0, ApiCall.mpfInit), (1, ApiCall.getDefaultPrec), (0, ApiCall.allocCycle)].map (fun p => (p.1, apiOp p.2)))).heaps 0)
    = [5, 256, 0, 0, 0, 0] := by decide

end Mpir.Threads
