/-
  C02 (multi-limb layer) — the glue of mpn_tdiv_qr (mpn/generic/tdiv_qr.c) and the wrapper mpn_divrem
  (mpn/generic/divrem.c): for ALL lengths nn ≥ dn ≥ 1 and ALL limb contents with a non-zero top divisor limb the
  limb-level model returns q = ⌊N/D⌋ on nn-dn+1 limbs and r = N mod D on dn limbs, and none of the C's
  ASSERT_NOCARRY / ASSERT_ALWAYS can fail.  Property theorems only; helper lemmas live in
  MpirProofs/Lemmas/TdivQr*.lean.

  The theorems are about the executable model Mpir/Model/TdivQr.lean, which the correspondence check runs against
  the real functions (ops `tdiv_qr_model`, `divrem_model`) on every run.  What enters as an assumption is the
  contract of the inner normalised divisions mpn_dc_div_qr(_n), mpn_inv_div_qr(_n) and of the assembly mpn_divrem_2
  (exact quotient and remainder, `divQrSpec` / `divrem_2` in the model); mpn_sb_div_qr and mpn_divrem_1 enter
  through their proved limb-level models (C02_sb: sb_div_qr_contract, C02_word: divrem_1_val).  With these the value
  contract `DivZ.mpnTdivQr` that the mpz-level theorems (C02_mpz) take as the specification of mpn_tdiv_qr is a
  theorem about the limb-level model: `tdiv_qr_contract`.

  The theorems hold for every value of the two thresholds that select the callee.
-/
import MpirProofs.Lemmas.TdivQrLt2
import MpirProofs.Lemmas.TdivQrDivrem
namespace Mpir.TdivQr
open Mpir Mpir.DivWord Mpir.SbDiv

/-- every branch of mpn_tdiv_qr meets the specification `Spec` (Lemmas/TdivQrBase.lean): dn = 1 (case1_spec),
    dn = 2 (case2_spec), nn + adjust ≥ 2·dn (first_spec), nn + adjust < 2·dn (lt2_spec) -/
theorem tdiv_qr_spec (T : Thresholds) (n d : List Nat) (hn : Limbs n) (hd : Limbs d) (hdn : 1 ≤ d.length)
    (hnn : d.length ≤ n.length) (htop : d.getD (d.length - 1) 0 ≠ 0) :
    ∃ res, tdiv_qr T n d = some res ∧ Spec n d res := by
  by_cases h1 : d.length = 1
  · have e : tdiv_qr T n d = some (case1 n d) := by unfold tdiv_qr; rw [h1]; rfl
    rw [h1] at htop hnn
    exact ⟨_, e, case1_spec n d hn hd h1 hnn htop⟩
  by_cases h2 : d.length = 2
  · have e : tdiv_qr T n d = some (case2 n d) := by unfold tdiv_qr; rw [h2]; rfl
    rw [h2] at htop hnn
    exact ⟨_, e, case2_spec n d hn hd h2 hnn htop⟩
  have h3 : 3 ≤ d.length := by omega
  have e : tdiv_qr T n d =
      if n.length + (if n.getD (n.length - 1) 0 ≥ d.getD (d.length - 1) 0 then 1 else 0) ≥ 2 * d.length then
        some (first T n d (if n.getD (n.length - 1) 0 ≥ d.getD (d.length - 1) 0 then 1 else 0))
      else some (lt2 T n d (if n.getD (n.length - 1) 0 ≥ d.getD (d.length - 1) 0 then 1 else 0)) := by
    unfold tdiv_qr
    obtain ⟨k, hk⟩ : ∃ k, d.length = k + 3 := ⟨d.length - 3, by omega⟩
    rw [hk]; rfl
  rw [e]
  by_cases hb : n.length + (if n.getD (n.length - 1) 0 ≥ d.getD (d.length - 1) 0 then 1 else 0) ≥ 2 * d.length
  · rw [if_pos hb]
    exact ⟨_, rfl, first_spec T n d hn hd h3 hnn htop _ rfl⟩
  · rw [if_neg hb]
    exact ⟨_, rfl, lt2_spec T n d hn hd h3 hnn htop _ rfl (by omega)⟩

/-- mpn_tdiv_qr (qp, rp, 0, np, nn, dp, dn), tdiv_qr.c:37-374.  Preconditions = the documented ones (tdiv_qr.c:7-9 and the
    ASSERTs at :43-45): nn ≥ dn ≥ 1, most significant limb of the divisor non-zero.  Then
    N = Q·D + R with R < D, Q on exactly nn-dn+1 limbs, R on exactly dn limbs, and the `ok` flag is true: no
    ASSERT_NOCARRY (callee's returned high limb = 0, :136-144, :263-272), no ASSERT_ALWAYS (n2p[qn] ≥ cy2 :328, rn == dn :349)
    can fail and mpn_sub_1 at :361 never touches rp[dn].  Covers dn = 1, dn = 2 (both normalisation branches, cy = 0 and
    cy ≠ 0), both branches of the default case with adjust = 0 / 1, every shift count, and in the "less than twice" branch
    the decrement after the `n2p[qn-1] < h` test with and without carry, the partially used limb, both orders of mpn_mul,
    and the final `quotient_too_large` correction. -/
theorem tdiv_qr_val (T : Thresholds) (n d : List Nat) (hn : Limbs n) (hd : Limbs d) (hdn : 1 ≤ d.length)
    (hnn : d.length ≤ n.length) (htop : d.getD (d.length - 1) 0 ≠ 0) :
    ∃ q r, tdiv_qr T n d = some (q, r, true) ∧ val n = val q * val d + val r ∧ val r < val d ∧
      Limbs q ∧ q.length = n.length - d.length + 1 ∧ Limbs r ∧ r.length = d.length := by
  obtain ⟨res, hres, hq, hr, hql, hqlen, hrl, hrlen, hok⟩ := tdiv_qr_spec T n d hn hd hdn hnn htop
  obtain ⟨hdge, _⟩ := fit_of_adjust n d hn hd hdn hnn htop _ rfl
  have hD0 : 0 < val d := Nat.lt_of_lt_of_le (Bpow_pos _) hdge
  refine ⟨res.1, res.2.1, ?_, ?_, ?_, hql, hqlen, hrl, hrlen⟩
  · rw [hres, ← hok]
  · rw [hq, hr, Nat.mul_comm]; exact (Nat.div_add_mod _ _).symm
  · rw [hr]; exact Nat.mod_lt _ hD0

-- dn = 1
example : tdiv_qr ⟨50, 1589⟩ [0x5, 0x7] [0x3] = some ([0x5555555555555557, 0x2], [0x0], true) := by decide
-- dn = 2, divisor not normalised, a non-zero limb is shifted out of the dividend (cy ≠ 0) / nothing is shifted out
example : tdiv_qr ⟨50, 1589⟩ [0x1, 0x2, 0x3] [0xffffffffffffffff, 0x1] =
    some ([0x8000000000000001, 0x1], [0x8000000000000002, 0x1], true) := by decide
example : tdiv_qr ⟨50, 1589⟩ [0x1, 0x2, 0x10] [0xffffffffffffffff, 0x20] =
    some ([0x7c1f07c1f07c1f07, 0x0], [0x7c1f07c1f07c1f08, 0x1b], true) := by decide
-- dn = 2, divisor normalised
example : tdiv_qr ⟨50, 1589⟩ [0x1, 0x2, 0x3] [0x5, 0x8000000000000000] =
    some ([0x6, 0x0], [0xffffffffffffffe3, 0x1], true) := by decide
-- first branch: divisor not normalised (cnt = 60), adjust = 1, schoolbook callee, remainder shifted back
example : tdiv_qr ⟨50, 1589⟩ [0x1, 0x2, 0x3, 0x4, 0x5, 0xffffffffffffffff] [0x7, 0x8, 0x9] =
    some ([0x80eabc259d209494, 0x2fc231dd95f2a7db, 0x9161f9add3c0ca46, 0x1c71c71c71c71c71],
      [0x7994daf8b41beff5, 0xaa5ac1c3fd58c461, 0x7], true) := by decide
-- first branch: divisor normalised, adjust = 0 (the limb zeroed at tdiv_qr.c:112 stays)
example : tdiv_qr ⟨50, 1589⟩ [0x1, 0x2, 0x3, 0x4, 0x5, 0x6, 0x1] [0x7, 0x8, 0x8000000000000000] =
    some ([0xffffffffffffff2c, 0xffffffffffffffe9, 0xb, 0x2, 0x0], [0x5cd, 0x73c, 0x5f], true) := by decide
-- "less than twice": qn = 0
example : tdiv_qr ⟨50, 1589⟩ [0x1, 0x2, 0x3] [0x4, 0x5, 0x6] = some ([0x0], [0x1, 0x2, 0x3], true) := by decide
-- "less than twice", qn = 2, cnt = 63: the `n2p[qn-1] < h` test fires, the add-back carries into n2p[qn] (rn = qn+1),
-- the ASSERT_ALWAYS (n2p[qn] >= cy2) path is taken, in becomes 0
example : tdiv_qr ⟨50, 1589⟩ [0xffffffffffffffff, 0x7fffffffffffffff, 0xffffffffffffffff, 0xffffffffffffffff]
      [0xffffffffffffffff, 0xffffffffffffffff, 0x1] =
    some ([0xffffffffffffffff, 0x7fffffffffffffff], [0xfffffffffffffffe, 0xffffffffffffffff, 0x1], true) := by decide
-- "less than twice", divisor normalised, qn = 1, in = 2: the test fires with carry; mpn_sub_1 is called with rn = dn-in+1 limbs
example : tdiv_qr ⟨50, 1589⟩ [0xa6934caccf5418e9, 0xa749959b5e7381cd, 0xd61aa2f7a7561c50, 0x8000000000000000]
      [0xffffffffffffffff, 0xfffffffffffffffe, 0xffffffffffffffff] =
    some ([0x8000000000000000, 0x0], [0x26934caccf5418e9, 0x2749959b5e7381ce, 0xd61aa2f7a7561c51], true) := by decide
-- "less than twice", divisor normalised: mpn_sub borrows, quotient_too_large, final decrement and add-back
example : tdiv_qr ⟨50, 1589⟩ [0xffffffffffffffff, 0xfffffffffffffffe, 0xffffffffffffffff, 0x8000000000000007]
      [0xffffffffffffffff, 0xffffffffffffffff, 0x8000000000000007] =
    some ([0xffffffffffffffff, 0x0], [0xfffffffffffffffe, 0xffffffffffffffff, 0x8000000000000007], true) := by decide
-- "less than twice", cnt = 5: the partially used limb makes the remainder negative (cy1 < cy2), final correction
example : tdiv_qr ⟨50, 1589⟩ [0xd56904e5eb5f0617, 0xffffffffffffffe3, 0xf4b7d8d0a507cf3f, 0x70aa5bec685284c8]
      [0xffffffffffffffff, 0xffffffffffffffff, 0x400000000000007] =
    some ([0x2a96fb1a14a0f9e7, 0x1c], [0xfffffffffffffffe, 0xffffffffffffffff, 0x400000000000007], true) := by decide

/-- dn = 0 is DIVIDE_BY_ZERO (tdiv_qr.c:51-52) -/
theorem tdiv_qr_div0 (T : Thresholds) (n : List Nat) : tdiv_qr T n [] = none := rfl

example : tdiv_qr ⟨50, 1589⟩ [1, 2, 3] [] = none := by decide

/-- the limb-level model returns exactly the value-level contract `DivZ.mpnTdivQr` (⌊N/D⌋ on nn-dn+1 limbs, N mod D on
    dn limbs) that the mpz-level theorems of C02_mpz assume for mpn_tdiv_qr — for every input on which that contract is
    defined, i.e. for the documented preconditions of the C -/
theorem tdiv_qr_contract (T : Thresholds) (n d : List Nat) (hn : Limbs n) (hd : Limbs d) (hdn : 1 ≤ d.length)
    (hnn : d.length ≤ n.length) (htop : d.getD (d.length - 1) 0 ≠ 0) :
    tdiv_qr T n d = (DivZ.mpnTdivQr n d).map (fun qr => (qr.1, qr.2, true)) := by
  obtain ⟨res, hres, hq, hr, hql, hqlen, hrl, hrlen, hok⟩ := tdiv_qr_spec T n d hn hd hdn hnn htop
  have ht : DivZ.topNonzero d = true := by
    obtain ⟨k, hk⟩ : ∃ k, d.length = k + 1 := ⟨d.length - 1, by omega⟩
    rw [hk, Nat.add_sub_cancel] at htop
    have e := List.take_append_drop k d
    have h1 : (d.drop k).length = 1 := by simp [hk]
    have h2 := list_len1 _ h1
    have h3 : (d.drop k).getD 0 0 = d.getD k 0 := by simp [List.getD_eq_getElem?_getD]
    rw [h3] at h2
    unfold DivZ.topNonzero
    rw [← e, h2]
    simpa using htop
  unfold DivZ.mpnTdivQr
  rw [if_neg (by simp [ht]; omega), hres]
  simp only [Option.map_some]
  rw [← eq_toLimbs res.1 _ _ hql hqlen hq, ← eq_toLimbs res.2.1 _ _ hrl hrlen hr, ← hok]

example : tdiv_qr ⟨50, 1589⟩ [0x1, 0x2, 0x3, 0x4] [0x7, 0x8, 0x9] =
    (DivZ.mpnTdivQr [0x1, 0x2, 0x3, 0x4] [0x7, 0x8, 0x9]).map (fun qr => (qr.1, qr.2, true)) := by decide

/-- The approximate quotient of the "less than twice" branch (tdiv_qr.c:169-172 "This is either the correct quotient, but
    might be 1 or 2 too large"): for N = n2·W + nl, D = d2·W + dl with nl, dl < W and d2 normalised (K ≤ 2·d2, n2 < d2·K),
    ⌊N/D⌋ ≤ ⌊n2/d2⌋ ≤ ⌊N/D⌋ + 2. -/
theorem lt2_estimate_bounds (N D W n2 d2 nl dl K : Nat) (hN : N = n2 * W + nl) (hD : D = d2 * W + dl)
    (hnl : nl < W) (hdl : dl < W) (hd2 : 0 < d2) (hnorm : K ≤ 2 * d2) (hfit : n2 < d2 * K) :
    N / D ≤ n2 / d2 ∧ n2 / d2 ≤ N / D + 2 := by
  have hdiv : n2 = n2 / d2 * d2 + n2 % d2 := by rw [Nat.mul_comm]; exact (Nat.div_add_mod _ _).symm
  have hr : n2 % d2 < d2 := Nat.mod_lt _ hd2
  have hqK : n2 / d2 < K := by rw [Nat.div_lt_iff_lt_mul hd2, Nat.mul_comm]; exact hfit
  have hW : 0 < W := by omega
  have hD0 : 0 < D := by rw [hD]; exact Nat.lt_of_lt_of_le (Nat.mul_pos hd2 hW) (Nat.le_add_right _ _)
  have hup := lt2_upper N D W n2 d2 nl dl (n2 / d2) (n2 % d2) hN hD hdiv hr hnl
  have hlo := lt2_lower2 N D W n2 d2 nl dl (n2 / d2) (n2 % d2) K hN hD hdiv hdl hqK hnorm
  generalize n2 / d2 = q at *
  constructor
  · have : N / D < q + 1 := by
      rw [Nat.div_lt_iff_lt_mul hD0]
      calc N < q * D + D := hup
        _ = (q + 1) * D := by ring
    exact Nat.lt_succ_iff.mp this
  · rcases Nat.lt_or_ge q 2 with h | h
    · exact Nat.le_trans (Nat.le_of_lt h) (Nat.le_add_left 2 (N / D))
    · have : q - 2 ≤ N / D := by
        rw [Nat.le_div_iff_mul_le hD0]
        have e : q * D = (q - 2) * D + 2 * D := by
          have : q = (q - 2) + 2 := by omega
          conv_lhs => rw [this]
          ring
        omega
      generalize N / D = Q at *
      omega

-- the estimate is 2 too large: d2 = 2^63 (smallest normalised value), ignored part of d all ones, small remainder
example : (B * (B - 1) + (B - 1)) / ((B / 2) * B + (B - 1)) = B * (B - 1) / ((B / 2) * B) - 2 + 1 ∧
    (2 * (B - 1)) / (B / 2) = 3 := by decide

/-- every callee is invoked inside its ASSERTed domain, first branch (tdiv_qr.c:134-145): the divisor handed over is
    normalised, mpn_sb_div_qr gets dn > 2 and nn ≥ dn (sb_div_qr.c:47-49), mpn_dc_div_qr / mpn_inv_div_qr get dn ≥ 6 and
    nn - dn ≥ 3 (dc_div_qr.c:45-47, inv_div_qr.c:47-49) as soon as DC_DIV_QR_THRESHOLD ≥ 6 -/
theorem first_callee_domain (T : Thresholds) (hT : 6 ≤ T.dc) (n d : List Nat) (hn : Limbs n) (hd : Limbs d)
    (hdn : 3 ≤ d.length) (htop : d.getD (d.length - 1) 0 ≠ 0) (adjust : Nat) (hbr : n.length + adjust ≥ 2 * d.length) :
    B / 2 ≤ (firstNorm n d).2.1.getD (d.length - 1) 0 ∧ (firstNorm n d).2.1.length = d.length ∧
    (dispatchQr T (n.length + adjust) d.length = .sb → 2 < d.length ∧ d.length ≤ n.length + adjust) ∧
    (dispatchQr T (n.length + adjust) d.length ≠ .sb → 6 ≤ d.length ∧ 3 ≤ n.length + adjust - d.length) := by
  obtain ⟨k, hk⟩ : ∃ k, d.length = k + 1 := ⟨d.length - 1, by omega⟩
  rw [hk, Nat.add_sub_cancel] at htop
  obtain ⟨_, _, hnd2, hld2, hlend2, _⟩ := firstNorm_spec n d hn hd k hk htop
  refine ⟨by rw [hk, Nat.add_sub_cancel]; exact top_of_norm _ k hld2 hlend2 hnd2, by rw [hlend2, hk],
    fun _ => ⟨by omega, by omega⟩, ?_⟩
  intro hne
  unfold dispatchQr at hne
  by_cases h : d.length < T.dc
  · rw [if_pos h] at hne; exact absurd rfl hne
  · omega

example : dispatchQr ⟨50, 1589⟩ 120 49 = .sb ∧ dispatchQr ⟨50, 1589⟩ 120 50 = .dc ∧
    dispatchQr ⟨50, 1589⟩ 3177 1589 = .dc ∧ dispatchQr ⟨50, 1589⟩ 3178 1589 = .inv := by decide

/-- the same for the approximate quotient of the "less than twice" branch (tdiv_qr.c:261-273, qn ≥ 3): mpn_sb_div_qr gets
    dn = qn > 2, nn = 2·qn; mpn_dc_div_qr_n / mpn_inv_div_qr_n get n = qn ≥ 6 -/
theorem lt2_callee_domain (T : Thresholds) (hT : 6 ≤ T.dc) (qn : Nat) (hqn : 3 ≤ qn) :
    (dispatchQrN T qn = .sb → 2 < qn ∧ qn ≤ 2 * qn) ∧ (dispatchQrN T qn ≠ .sb → 6 ≤ qn) := by
  refine ⟨fun _ => ⟨by omega, by omega⟩, ?_⟩
  intro hne
  unfold dispatchQrN at hne
  by_cases h : qn < T.dc
  · rw [if_pos h] at hne; exact absurd rfl hne
  · omega

example : dispatchQrN ⟨50, 1589⟩ 49 = .sb ∧ dispatchQrN ⟨50, 1589⟩ 50 = .dc ∧ dispatchQrN ⟨50, 1589⟩ 1589 = .inv := by
  decide

/-- mpn_divrem (qp, qxn, np, nn, dp, dn), divrem.c:29-101.  Preconditions = the C's ASSERTs (nn ≥ dn ≥ 1, divisor
    normalised).  The model returns exactly the value contract `DivZ.mpnDivrem`: the nn-dn+qxn low limbs of
    ⌊n·B^qxn / d⌋ at qp, the remainder on dn limbs in np, the most significant quotient limb as return value — on all
    three paths (dn = 1: mpn_divrem_1 with fraction limbs; dn = 2: mpn_divrem_2; else the zero-extended copy and
    mpn_tdiv_qr) — and no assertion of mpn_tdiv_qr fails. -/
theorem divrem_contract (T : Thresholds) (qxn : Nat) (n d : List Nat) (hn : Limbs n) (hd : Limbs d)
    (hdn : 1 ≤ d.length) (hnn : d.length ≤ n.length) (hnorm : B / 2 ≤ d.getD (d.length - 1) 0) :
    DivZ.mpnDivrem n d qxn = some ((divrem T qxn n d).1, (divrem T qxn n d).2.1, (divrem T qxn n d).2.2.1) ∧
    (divrem T qxn n d).2.2.2 = true := by
  have htop : d.getD (d.length - 1) 0 ≠ 0 := by
    have : 0 < B / 2 := by decide
    omega
  exact divrem_mpnDivrem T qxn n d hn hd hdn hnn hnorm
    (fun _ n2 hn2 hl2 => tdiv_qr_spec T n2 d hn2 hd hdn hl2 htop)

/-- in numbers: n·B^qxn = (ret·B^(nn-dn+qxn) + q)·d + r with r < d -/
theorem divrem_val (T : Thresholds) (qxn : Nat) (n d : List Nat) (hn : Limbs n) (hd : Limbs d)
    (hdn : 1 ≤ d.length) (hnn : d.length ≤ n.length) (hnorm : B / 2 ≤ d.getD (d.length - 1) 0) :
    val n * B ^ qxn = ((divrem T qxn n d).2.2.1 * B ^ (n.length - d.length + qxn) + val (divrem T qxn n d).1) * val d +
      val (divrem T qxn n d).2.1 ∧ val (divrem T qxn n d).2.1 < val d := by
  have htop : d.getD (d.length - 1) 0 ≠ 0 := by
    have : 0 < B / 2 := by decide
    omega
  obtain ⟨hdge, _⟩ := fit_of_adjust n d hn hd hdn hnn htop _ rfl
  have hD0 : 0 < val d := Nat.lt_of_lt_of_le (Bpow_pos _) hdge
  rw [divrem_spec T qxn n d hn hd hdn hnn hnorm (fun _ n2 hn2 hl2 => tdiv_qr_spec T n2 d hn2 hd hdn hl2 htop)]
  simp only []
  obtain ⟨q1, _, _⟩ := val_toLimbs (n.length - d.length + qxn) (val n * B ^ qxn / val d)
  obtain ⟨r1, _, _⟩ := val_toLimbs d.length (val n * B ^ qxn % val d)
  have hrlt : val n * B ^ qxn % val d < B ^ d.length := Nat.lt_trans (Nat.mod_lt _ hD0) (val_lt d hd)
  rw [q1, r1, Nat.mod_eq_of_lt hrlt, Nat.div_add_mod']
  exact ⟨(Nat.div_add_mod' _ _).symm, Nat.mod_lt _ hD0⟩

-- dn = 1 with a fraction limb; dn = 2 with two fraction limbs; dn = 3 with qxn = 1 (zero-extended copy) and qxn = 0
example : divrem ⟨50, 1589⟩ 1 [0x7] [0x8000000000000001] = ([0xd], [0x7ffffffffffffff3], 0x0, true) := by decide
example : divrem ⟨50, 1589⟩ 2 [0x1, 0x2, 0x3] [0x5, 0x8000000000000000] =
    ([0xffffffffffffffc5, 0x3, 0x6], [0x127, 0x7fffffffffffffec], 0x0, true) := by decide
example : divrem ⟨50, 1589⟩ 1 [0x1, 0x2, 0x3, 0x4] [0x7, 0x8, 0x8000000000000000] =
    ([0x5, 0x8], [0xffffffffffffffdd, 0xffffffffffffffa0, 0x7fffffffffffffc1], 0x0, true) := by decide
example : divrem ⟨50, 1589⟩ 0 [0x1, 0x2, 0x3, 0x4] [0x7, 0x8, 0xffffffffffffffff] =
    ([0x4], [0xffffffffffffffe5, 0xffffffffffffffe1, 0x6], 0x0, true) := by decide
-- returned limb 1: the dividend's top limbs are not below the divisor
example : divrem ⟨50, 1589⟩ 0 [0x1, 0x2, 0x3, 0xffffffffffffffff] [0x7, 0x8, 0x8000000000000000] =
    ([0xfffffffffffffffd], [0x16, 0xc, 0x7ffffffffffffff3], 0x1, true) := by decide

end Mpir.TdivQr
