/-
  C07 — GCD, extended GCD, LCM, modular inverse, Jacobi/Kronecker.
  Property theorems only; helper lemmas live in MpirProofs/Lemmas/Gcd.lean.  Every theorem is about the
  executable models in Mpir/Model/Gcd.lean, which the correspondence check runs against the real library.
-/
import MpirProofs.Lemmas.Gcd
namespace Mpir.Gcd
open Mpir

end Mpir.Gcd
