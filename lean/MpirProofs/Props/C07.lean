/-
  C07 — GCD, extended GCD, LCM, modular inverse, Jacobi/Kronecker.
  Property theorems only; helper lemmas live in MpirProofs/Lemmas/Gcd*.lean.  Every theorem is about the
  executable models in Mpir/Model/Gcd.lean, which the correspondence check runs against the real library.
-/
import MpirProofs.Lemmas.GcdLoop
import MpirProofs.Lemmas.GcdMpz
import MpirProofs.Lemmas.GcdExt1
import MpirProofs.Lemmas.GcdExtZ
import MpirProofs.Lemmas.GcdJacobi
import MpirProofs.Lemmas.GcdKronW
import MpirProofs.Lemmas.GcdLehmer2
import MpirProofs.Lemmas.GcdLehmer3
import MpirProofs.Lemmas.GcdDiv
import MpirProofs.Lemmas.Hgcd2
namespace Mpir.C07
open Mpir Mpir.Gcd

/-! ## The reduction invariant (backbone of mpn_gcd, mpn_gcdext, mpn_hgcd, Lehmer steps) -/

/-- One step by a non-negative matrix of determinant 1 — (a, b) = M·(a', b'), cofactor row multiplied
    by M — preserves the gcd and carries the cofactor relation a = u1·A - v1·B, b = -u0·A + v0·B
    (with v0·u1 - v1·u0 = 1) over to the new state. -/
theorem red_preserves (m : M1) (s s' : RState) (h : StepOk m s s') :
    Nat.gcd s.a s.b = Nat.gcd s'.a s'.b ∧
    ∀ A B v0 v1, CofInv A B s v0 v1 → CofInv A B s' (v0 * m.u00 + v1 * m.u10) (v0 * m.u01 + v1 * m.u11) :=
  ⟨stepOk_gcd h, fun _ _ _ _ hc => stepOk_cof h hc⟩

-- non-vacuity: the division step 240 = 5·46 + 10 as the matrix (1 5; 0 1)
example : StepOk ⟨1, 5, 0, 1⟩ ⟨240, 46, 0, 1⟩ ⟨10, 46, 0, 1⟩ := by decide
example : Nat.gcd 240 46 = Nat.gcd 10 46 := (red_preserves ⟨1, 5, 0, 1⟩ ⟨240, 46, 0, 1⟩ ⟨10, 46, 0, 1⟩ (by decide)).1

/-- the relation "s' is obtained from s by a proper step": M ≠ identity and both new entries positive
    (what hgcd2 and the subtract/divide steps produce). -/
def ProperStep (s' s : RState) : Prop :=
  ∃ m, StepOk m s s' ∧ (m.u01 ≠ 0 ∨ m.u10 ≠ 0) ∧ 0 < s'.a ∧ 0 < s'.b

/-- ANY sequence of steps satisfying the step contract, started from (A, B) with cofactors (0, 1),
    keeps gcd(a, b) = gcd(A, B) and the cofactor relation; hence when it stops at b = 0, a = 0 or
    a = b the surviving value is the gcd and the cofactor the C returns (+u1, -u0, or the one
    `pickCofactor` selects) is a valid first Bezout coefficient. -/
theorem gcd_loop_correct (A B : Nat) (s : RState) (h : Reach ⟨A, B, 0, 1⟩ s) :
    Nat.gcd s.a s.b = Nat.gcd A B ∧
    (∃ v0 v1, CofInv A B s v0 v1) ∧
    (s.b = 0 → s.a = Nat.gcd A B ∧ ∃ t : Int, (A : Int) * s.u1 + B * t = Nat.gcd A B) ∧
    (s.a = 0 → s.b = Nat.gcd A B ∧ ∃ t : Int, (A : Int) * (-(s.u0 : Int)) + B * t = Nat.gcd A B) ∧
    (s.a = s.b → s.a = Nat.gcd A B ∧
        ∀ d, ∃ t : Int, (A : Int) * pickCofactor s.u0 s.u1 d + B * t = Nat.gcd A B) := by
  obtain ⟨hg, hc⟩ := reach_inv h (A := A) (B := B)
  obtain ⟨v0, v1, hd, ca, cb⟩ := hc 1 0 (cofInv_init A B)
  simp only at hg
  have ea : ∃ t : Int, (A : Int) * s.u1 + B * t = s.a := ⟨-(v1 : Int), by rw [ca]; ring⟩
  have eb : ∃ t : Int, (A : Int) * (-(s.u0 : Int)) + B * t = s.b := ⟨(v0 : Int), by rw [cb]; ring⟩
  refine ⟨hg.symm, ⟨v0, v1, hd, ca, cb⟩, ?_, ?_, ?_⟩
  · intro hb0
    have : s.a = Nat.gcd A B := by rw [hg, hb0, Nat.gcd_zero_right]
    exact ⟨this, by rw [← this]; exact ea⟩
  · intro ha0
    have : s.b = Nat.gcd A B := by rw [hg, ha0, Nat.gcd_zero_left]
    exact ⟨this, by rw [← this]; exact eb⟩
  · intro hab
    have : s.a = Nat.gcd A B := by rw [hg, ← hab, Nat.gcd_self]
    refine ⟨this, fun d => ?_⟩
    rcases pickCofactor_cases s.u0 s.u1 d with e | e <;> rw [e]
    · rw [← this, hab]; exact eb
    · rw [← this]; exact ea

-- non-vacuity: two division steps of the Euclidean algorithm on (240, 46) as contract steps
example : Reach ⟨240, 46, 0, 1⟩ ⟨10, 6, 4, 1⟩ :=
  .step (s' := ⟨10, 46, 0, 1⟩) ⟨1, 5, 0, 1⟩ (by decide) (.step (s' := ⟨10, 6, 4, 1⟩) ⟨1, 0, 4, 1⟩ (by decide) (.refl _))

/-- the measure a + b strictly decreases along proper steps, so every step sequence is finite. -/
theorem gcd_loop_terminates : WellFounded ProperStep := by
  apply Subrelation.wf (r := InvImage (· < ·) (fun s : RState => s.a + s.b))
  · intro s' s ⟨m, h, hne, ha, hb⟩
    exact stepOk_decreases h hne ha hb
  · exact InvImage.wf _ Nat.lt_wfRel.wf

example : ProperStep ⟨10, 46, 0, 1⟩ ⟨240, 46, 0, 1⟩ := ⟨⟨1, 5, 0, 1⟩, by decide, by decide, by decide, by decide⟩

/-- PARTIAL (full statement: `MpnGcdContract` holds outright).  The executable value-level model of
    mpn_gcd — initial division, the Lehmer loop (mpn_hgcd2 on the top two limbs, else
    mpn_gcd_subdiv_step), the n ≤ 2 endgame with gcd_2 and mpn_gcd_1 — returns gcd(U, V) on every call
    satisfying the C's ASSERTs, ASSUMING the contract of mpn_hgcd2 (`Hgcd2Contract`: a returned matrix
    is unimodular, not the identity, M⁻¹(a; b) is positive and loses at most one limb).  What is
    missing: a proof of `Hgcd2Contract` for the translated hgcd2 (the Lehmer/Jebelean condition) — now
    supplied by `hgcd2_contract`, see `mpn_gcd_correct` below; kept as the statement relative to the contract.  Every executable step is shown to be an
    instance of the abstract step contract, and fuel U + V + 1 is proved sufficient (termination). -/
theorem mpn_gcd_correct_partial (hh : Hgcd2Contract) : MpnGcdContract := mpn_gcd_of_hgcd2 hh

example : mpn_gcd (3 ^ 50 * 7 ^ 30) 3 (3 ^ 45 * 5 ^ 20) 2 = 3 ^ 45 := by decide +kernel
example : (subdivStep 240 46).a = 10 ∧ (subdivStep 240 46).b = 46 := by decide +kernel

/-- PARTIAL (full statement: `MpnGcdextContract`, i.e. additionally the normalisation S = 1 ∨
    2·G·|S| < V, S = 0 ↔ V ∣ U, and all sizes).  The executable value-level model of mpn_gcdext below
    GCDEXT_DC_THRESHOLD — initial division, mpn_gcdext_lehmer_n with the cofactor hooks of
    mpn_gcd_subdiv_step, the mpn_hgcd_mul_matrix1_vector updates, the final mpn_gcdext_1 combination
    S = u·u1 - v·u0 and the "smaller cofactor" choices — returns G = gcd(U, V) and a cofactor with
    V ∣ G - U·S, ASSUMING the hgcd2 contract (discharged in `mpn_gcdext_identity` below).  Missing: the size bound of the cofactor (needs the
    |u0|, |u1| ≤ B/min(a, b) analysis) and the mpn_hgcd range. -/
theorem mpn_gcdext_identity_partial (hh : Hgcd2Contract) (U V : Nat) (hV0 : 0 < V)
    (hle : nlimbs V ≤ nlimbs U) (hlt : nlimbs V < GCDEXT_DC_THRESHOLD) :
    (mpn_gcdext U (nlimbs U) V (nlimbs V)).1 = Nat.gcd U V ∧
    (((mpn_gcdext U (nlimbs U) V (nlimbs V)).1 : Int) - U * (mpn_gcdext U (nlimbs U) V (nlimbs V)).2) % V = 0 :=
  mpn_gcdext_identity hh U V hV0 hle hlt

example : mpn_gcdext 240 1 46 1 = (2, -9) := by decide +kernel
example : mpn_gcdext (3 ^ 50 * 7 ^ 30) 3 (3 ^ 45 * 5 ^ 20) 2 = (3 ^ 45, 14541962523518) := by decide +kernel

/-! ## mpn_hgcd2 and the unconditional Lehmer theorems -/

/-- mpn_hgcd2 on the 128-bit inputs (ah, al), (bh, bl) (model `hgcd2`: initial subtraction, the double
    precision loop with `div2`, the switch to single precision on the top 64 of 96 bits, the single
    precision loop with `div1`, every `goto done` / `break`): whenever it returns 1, the matrix M has
    determinant 1, is not the identity, its row sums are below 2^63 (entries fit GMP_LIMB_BITS - 1
    bits; in particular no `u += q * u'` ever wrapped), and M·(x; y) = (A; B) holds EXACTLY over the
    naturals for some x, y ≥ 3·2^63 — so x = u11·A - u01·B and y = u00·B - u10·A are non-negative
    although the single precision loop only saw truncated values.
    No termination argument is needed: the invariant holds at each of the four program points. -/
theorem hgcd2_exact (ah al bh bl : Nat) (m : M1) (hah : ah < B) (hal : al < B) (hbh : bh < B) (hbl : bl < B)
    (h : hgcd2 ah al bh bl = some m) :
    m.u00 * m.u11 = m.u01 * m.u10 + 1 ∧ (m.u01 ≠ 0 ∨ m.u10 ≠ 0) ∧
    m.u00 + m.u01 < 2 ^ 63 ∧ m.u10 + m.u11 < 2 ^ 63 ∧
    ∃ x y, ah * B + al = m.u00 * x + m.u01 * y ∧ bh * B + bl = m.u10 * x + m.u11 * y ∧
      3 * 2 ^ 63 ≤ x ∧ 3 * 2 ^ 63 ≤ y := by
  obtain ⟨x, y, ⟨hd, eX, eY⟩, hx, hy, hn, e1, e2⟩ := hgcd2_post ah al bh bl m hah hal hbh hbl h
  exact ⟨hd, hn, e1, e2, x, y, eX, eY, hx, hy⟩

-- non-vacuity: a call that runs through both the double and the single precision loop
example : hgcd2 (2 ^ 63 + 5) 12345 (2 ^ 62 + 77) 999
    = some ⟨804723734759141517, 619018257507031936, 402361867379570765, 309509128753515973⟩ := by decide +kernel
example : hgcd2 1 0 5 0 = none := by decide +kernel

/-- The contract of mpn_hgcd2 that the Lehmer loops rely on (the Lehmer–Jebelean condition): for ANY
    a, b < B^n (n ≥ 2, one of them with a non-zero top limb), if hgcd2 applied to the top two limbs
    after the common normalising shift (`top2`: MPN_EXTRACT_NUMB of the top two/three limbs) returns M,
    then det M = 1, M ≠ I, both components of M⁻¹(a; b) are positive, and they still have at least
    n - 1 limbs — whatever the lower limbs of a and b are. -/
theorem hgcd2_contract : Hgcd2Contract := Mpir.Gcd.hgcd2_contract

-- non-vacuity: a three-limb pair on which the Lehmer loop's hgcd2 call succeeds
example : LInv (3 ^ 100) (5 ^ 60) 3 ∧
    hgcd2 (top2 (3 ^ 100) (5 ^ 60) 3).1 (top2 (3 ^ 100) (5 ^ 60) 3).2.1 (top2 (3 ^ 100) (5 ^ 60) 3).2.2.1
      (top2 (3 ^ 100) (5 ^ 60) 3).2.2.2
      = some ⟨2758966339248604022, 736192108336833281, 4643240620319, 1238984707120⟩ :=
  ⟨by unfold LInv; decide +kernel, by decide +kernel⟩

/-- mpn_gcd (value-level executable model: initial division, the Lehmer loop with mpn_hgcd2 on the top
    two limbs or else mpn_gcd_subdiv_step, the n ≤ 2 endgame with gcd_2 and mpn_gcd_1) returns
    gcd(U, V) on every call satisfying the C's ASSERTs (usize ≥ n > 0, V odd with non-zero top limb).
    Unconditional: the hgcd2 contract is proved (`hgcd2_contract`), fuel U + V + 1 is proved
    sufficient. -/
theorem mpn_gcd_correct : MpnGcdContract := mpn_gcd_of_hgcd2 Mpir.Gcd.hgcd2_contract

example : mpn_gcd (3 ^ 100 * 7) 3 (5 ^ 60 * 7) 3 = 7 := by decide +kernel

/-- PARTIAL w.r.t. `MpnGcdextContract` (still missing: the normalisation S = 1 ∨ 2·G·|S| < V,
    S = 0 ↔ V ∣ U, and the mpn_hgcd range n ≥ GCDEXT_DC_THRESHOLD), but no longer assuming anything
    about mpn_hgcd2: the executable model of mpn_gcdext below GCDEXT_DC_THRESHOLD returns G = gcd(U, V)
    and a cofactor S with V ∣ G - U·S. -/
theorem mpn_gcdext_identity (U V : Nat) (hV0 : 0 < V)
    (hle : nlimbs V ≤ nlimbs U) (hlt : nlimbs V < GCDEXT_DC_THRESHOLD) :
    (mpn_gcdext U (nlimbs U) V (nlimbs V)).1 = Nat.gcd U V ∧
    (((mpn_gcdext U (nlimbs U) V (nlimbs V)).1 : Int) - U * (mpn_gcdext U (nlimbs U) V (nlimbs V)).2) % V = 0 :=
  Mpir.Gcd.mpn_gcdext_identity Mpir.Gcd.hgcd2_contract U V hV0 hle hlt

example : mpn_gcdext (3 ^ 100 * 7) 3 (5 ^ 60 * 7) 3 = (7, -178542298016104659201242269581302973131374) := by
  decide +kernel

/-- mpz_gcd, mpz_lcm, mpz_lcm_ui for all integers, with no remaining contract hypothesis (the
    mpn_gcd contract is `mpn_gcd_correct`). -/
theorem mpz_gcd_lcm_correct (u v : Int) (w : Nat) (hw : w < B) :
    mpz_gcd u v = (Int.gcd u v : Nat) ∧ mpz_lcm u v = lcmSpec u v ∧ mpz_lcm_ui u w = lcmSpec u w :=
  ⟨mpz_gcd_correct mpn_gcd_correct u v, mpz_lcm_correct mpn_gcd_correct u v, mpz_lcm_ui_correct u w hw⟩

example : mpz_gcd (-(3 ^ 100 * 7)) (5 ^ 60 * 14) = 7 := by decide +kernel

/-! ## Single-limb functions -/

/-- mpn_gcd_1 (strip twos, modexact reduction for several limbs, `u %= v` shortcut, binary loop on
    (u-1)/2, (v-1)/2 with the mask tricks of GCD_1_METHOD 2): the model returns gcd({up,n}, vlimb) for
    every input of its domain (n ≥ 1 limbs, value ≠ 0, vlimb ≠ 0).  Termination: the loop's fuel
    u + v is proved sufficient (`gcd1Loop_spec`). -/
theorem gcd_1_spec (up : List Nat) (v : Nat) (hl : Limbs up) (hu : val up ≠ 0) (hv0 : 0 < v) (hvB : v < B) :
    gcd_1 up v = Nat.gcd (val up) v :=
  gcd_1_correct up v hl hu hv0 hvB

example : gcd_1 [12, 5] 18 = 2 := by decide +kernel
example : gcd_1 [12 * 3 ^ 20] (18 * 3 ^ 21) = 6 * 3 ^ 20 := by decide +kernel

/-- mpn_gcdext_1 (Euclid variant with signed single-word cofactors): g = gcd, a·s + b·t = g, and the
    two's-complement stores never wrap (all cofactors stay in [-2^63, 2^63)). -/
theorem gcdext_1_spec (a b : Nat) (ha : 0 < a) (hb : 0 < b) (haB : a < B) (hbB : b < B) :
    (gcdext_1 a b).1 = Nat.gcd a b ∧
    (a : Int) * (gcdext_1 a b).2.1 + (b : Int) * (gcdext_1 a b).2.2 = Nat.gcd a b ∧
    -(2:Int)^63 ≤ (gcdext_1 a b).2.1 ∧ (gcdext_1 a b).2.1 < 2^63 ∧
    -(2:Int)^63 ≤ (gcdext_1 a b).2.2 ∧ (gcdext_1 a b).2.2 < 2^63 :=
  Mpir.Gcd.gcdext_1_spec a b ha hb haB hbB

example : gcdext_1 240 46 = (2, -9, 47) := by decide

/-- div1 and div2 of hgcd2.c (shift-subtract division tuned for small quotients, both the
    "numerator has its top bit set" and the "double the divisor while it fits" branches): quotient and
    remainder of the true division, for every single-limb n, d ≠ 0 resp. two-limb n and d ≥ B. -/
theorem div1_div2_spec :
    (∀ n d : Nat, n < B → 0 < d → d < B → (div1 n d).1 = n / d ∧ (div1 n d).2 = n % d) ∧
    (∀ n d : Nat, n < B * B → B ≤ d → d < B * B → (div2 n d).1 = n / d ∧ (div2 n d).2 = n % d) :=
  ⟨fun n d hn h0 hd => div1_spec n d hn h0 hd, fun n d hn h0 hd => div2_spec n d hn h0 hd⟩

example : div1 (B - 1) 3 = (6148914691236517205, 0) := by decide +kernel
example : div2 (2 ^ 127 - 1) (3 * B + 5) = (3074457345618258602, 21521201419327810221) := by decide +kernel

/-! ## mpz wrappers -/

/-- mpz_gcd (zero operands, single-limb shortcut through mpn_gcd_1, stripping of common low zero
    limbs and bits, operand ordering for mpn_gcd, shifting back): the non-negative gcd for all signs,
    given the mpn_gcd contract `MpnGcdContract` (mpn_gcd = gcd whenever usize ≥ n > 0, V odd). -/
theorem mpz_gcd_spec (hc : MpnGcdContract) (u v : Int) : mpz_gcd u v = (Int.gcd u v : Nat) :=
  mpz_gcd_correct hc u v

/-- mpz_gcd_ui: the value stored is the gcd; the return value is the gcd if it fits an unsigned
    long and 0 otherwise (only possible for v = 0).  No mpn contract needed (only mpn_gcd_1). -/
theorem mpz_gcd_ui_spec (u : Int) (v : Nat) (hv : v < B) :
    (mpz_gcd_ui u v).1 = (Int.gcd u v : Nat) ∧
    (mpz_gcd_ui u v).2 = (if Int.gcd u v < B then Int.gcd u v else 0) :=
  mpz_gcd_ui_correct u v hv

example : mpz_gcd_ui (-(2 ^ 70)) 0 = (2 ^ 70, 0) := by decide +kernel
example : mpz_gcd_ui (-(12 : Int)) 18 = (6, 6) := by decide +kernel

/-- mpz_lcm and mpz_lcm_ui: |a·b| / gcd(a, b), zero if either operand is zero, never negative. -/
theorem lcm_spec (hc : MpnGcdContract) (u v : Int) (w : Nat) (hw : w < B) :
    mpz_lcm u v = lcmSpec u v ∧ mpz_lcm_ui u w = lcmSpec u w ∧ 0 ≤ lcmSpec u v :=
  ⟨mpz_lcm_correct hc u v, mpz_lcm_ui_correct u w hw, by unfold lcmSpec; split <;> first | exact le_refl 0 | exact Int.natCast_nonneg _⟩

example : mpz_lcm_ui (-12) 18 = 36 := by decide +kernel
example : lcmSpec (-12) 18 = 36 := by decide

/-- mpz_gcdext (operand swap by limb count, zero operand, sign fix of the first cofactor, second
    cofactor by (g - a·s)/b, exchange of the outputs after a swap): for all a, b the triple satisfies
    the manual's full contract `gcdextOk` — g = gcd ≥ 0, a·s + b·t = g, |s| < |b|/(2g), |t| < |a|/(2g)
    with the special cases |a| = |b|, b ∣ a, |b| = 2g, |a| = 2g, zero operands, and s = 0 ↔ g = |b| —
    given only the documented contract of mpn_gcdext for its single cofactor (`MpnGcdextContract`,
    on calls satisfying the C's ASSERTs).  The normalisation of the second cofactor is derived. -/
theorem mpz_gcdext_spec (hc : MpnGcdextContract) (a b : Int) :
    gcdextOk a b (mpz_gcdext a b).1 (mpz_gcdext a b).2.1 (mpz_gcdext a b).2.2 :=
  Mpir.Gcd.mpz_gcdext_spec hc a b

example : mpz_gcdext 240 46 = (2, -9, 47) := by decide +kernel
example : gcdextOk 240 46 2 (-9) 47 := by decide
example : ¬ gcdextOk 240 46 2 14 (-73) := by decide

/-- the manual's conditions determine (g, s, t) uniquely ("these relations define s and t uniquely"). -/
theorem gcdext_unique (a b g s t g' s' t' : Int) :
    gcdextOk a b g s t → gcdextOk a b g' s' t' → g = g' ∧ s = s' ∧ t = t' :=
  gcdextOk_unique a b g s t g' s' t'

/-- mpz_invert for a modulus of absolute value above 1: returns non-zero iff gcd(a, m) = 1, and then
    the result r satisfies 0 ≤ r < |m| and a·r ≡ 1 (mod m); for every sign of a and m. -/
theorem invert_spec (hc : MpnGcdextContract) (a m : Int) (hm : 1 < m.natAbs) :
    match mpz_invert a m with
    | none => invertOk a m 0 0
    | some r => invertOk a m 1 r :=
  Mpir.Gcd.invert_spec hc a m hm

example : mpz_invert (-3) (-7) = some 2 := by decide +kernel
example : mpz_invert 6 9 = none := by decide +kernel

/-! ## Jacobi / Kronecker -/

/-- mpn_jacobi_base (JACOBI_BASE_METHOD 1): for odd b > 1 the model returns the Jacobi symbol
    (Mathlib's `jacobiSym`), negated iff bit 1 of the incoming `result_bit1` is set. -/
theorem jacobi_base_spec (a b bit : Nat) (hb : b % 2 = 1) (hb1 : 1 < b) :
    jacobi_base a b bit = bit1ToPN bit * jacobiSym a b :=
  Mpir.Gcd.jacobi_base_spec a b bit hb hb1

example : jacobi_base 1001 9907 0 = -1 := by decide +kernel

/-- the executable reference `kronecker` (Cohen 1.4.10) used by the driver as specification equals
    the mathematical Kronecker symbol built from Mathlib's Jacobi symbol, for all integers. -/
theorem kronecker_spec (a b : ℤ) : kronecker a b = kronSym a b := kronecker_eq_kronSym a b

example : kronecker (-15) 28 = -1 := by decide +kernel

/-- mpz_kronecker_ui, mpz_kronecker_si, mpz_ui_kronecker, mpz_si_kronecker (removal of twos with the
    (2/a) rule, sign rules for negative operands, zero cases, stripping of low zero limbs of b, the
    b = 2^63·B^k special case, reduction by mpn_modexact_1_odd with its (-1/b) correction, reciprocity
    when the small operand is on top): each model returns the Kronecker symbol `kronSym` for every
    sign, parity and zero combination — no word-size restriction is needed. -/
theorem kronecker_wrappers_spec :
    (∀ (a : ℤ) (b : Nat), mpz_kronecker_ui a b = kronSym a b) ∧
    (∀ a b : ℤ, mpz_kronecker_si a b = kronSym a b) ∧
    (∀ (a : Nat) (b : ℤ), mpz_ui_kronecker a b = kronSym a b) ∧
    (∀ a b : ℤ, mpz_si_kronecker a b = kronSym a b) :=
  Mpir.Gcd.kronecker_wrappers_spec

example : mpz_kronecker_si (-(2 ^ 70 + 7)) (-24) = -1 := by decide +kernel
example : mpz_ui_kronecker 21 (-(2 ^ 64 * 2 ^ 63)) = -1 := by decide +kernel

/-- mpz_jacobi = mpz_legendre = mpz_kronecker (zero operands, common factor two, signs, low zero
    limbs, the shifted low limb `blow`, operand swap by generalised reciprocity, single-limb branch
    through modexact + mpn_jacobi_base, general branch through mpn_jacobi_n): the model returns the
    Kronecker symbol for all integers a, b.  (mpn_jacobi_n itself is modelled by its specification.) -/
theorem mpz_jacobi_spec (a b : ℤ) : mpz_jacobi a b = kronSym a b := Mpir.Gcd.mpz_jacobi_spec a b

example : mpz_jacobi (2 ^ 63 * 2 ^ 64 * 7) (-(2 ^ 130 + 3)) = -1 := by decide +kernel

end Mpir.C07
