/-
  C07 — GCD, extended GCD, LCM, modular inverse, Jacobi/Kronecker.
  Property theorems only; helper lemmas live in MpirProofs/Lemmas/Gcd*.lean.  Every theorem is about the
  executable models in Mpir/Model/Gcd.lean, which the correspondence check runs against the real library.
-/
import MpirProofs.Lemmas.GcdLoop
namespace Mpir.Gcd
open Mpir

/-! ## The reduction invariant (backbone of mpn_gcd, mpn_gcdext, mpn_hgcd, Lehmer steps) -/

/-- One step by a non-negative matrix of determinant 1 — (a, b) = M·(a', b'), cofactor row multiplied
    by M — preserves the gcd and carries the cofactor relation a = u1·A - v1·B, b = -u0·A + v0·B
    (with v0·u1 - v1·u0 = 1) over to the new state. -/
theorem red_preserves (m : M1) (s s' : RState) (h : StepOk m s s') :
    Nat.gcd s.a s.b = Nat.gcd s'.a s'.b ∧
    ∀ A B v0 v1, CofInv A B s v0 v1 → CofInv A B s' (v0 * m.u00 + v1 * m.u10) (v0 * m.u01 + v1 * m.u11) :=
  ⟨stepOk_gcd h, fun _ _ _ _ hc => stepOk_cof h hc⟩

-- non-vacuity: the division step 240 = 5·46 + 10 as the matrix (1 5; 0 1)
example : StepOk ⟨1, 5, 0, 1⟩ ⟨240, 46, 0, 1⟩ ⟨10, 46, 0, 1⟩ := by decide
example : Nat.gcd 240 46 = Nat.gcd 10 46 := (red_preserves ⟨1, 5, 0, 1⟩ ⟨240, 46, 0, 1⟩ ⟨10, 46, 0, 1⟩ (by decide)).1

/-- the relation "s' is obtained from s by a proper step": M ≠ identity and both new entries positive
    (what hgcd2 and the subtract/divide steps produce). -/
def ProperStep (s' s : RState) : Prop :=
  ∃ m, StepOk m s s' ∧ (m.u01 ≠ 0 ∨ m.u10 ≠ 0) ∧ 0 < s'.a ∧ 0 < s'.b

/-- ANY sequence of steps satisfying the step contract, started from (A, B) with cofactors (0, 1),
    keeps gcd(a, b) = gcd(A, B) and the cofactor relation; hence when it stops at b = 0, a = 0 or
    a = b the surviving value is the gcd and the cofactor the C returns (+u1, -u0, or the one
    `pickCofactor` selects) is a valid first Bezout coefficient. -/
theorem gcd_loop_correct (A B : Nat) (s : RState) (h : Reach ⟨A, B, 0, 1⟩ s) :
    Nat.gcd s.a s.b = Nat.gcd A B ∧
    (∃ v0 v1, CofInv A B s v0 v1) ∧
    (s.b = 0 → s.a = Nat.gcd A B ∧ ∃ t : Int, (A : Int) * s.u1 + B * t = Nat.gcd A B) ∧
    (s.a = 0 → s.b = Nat.gcd A B ∧ ∃ t : Int, (A : Int) * (-(s.u0 : Int)) + B * t = Nat.gcd A B) ∧
    (s.a = s.b → s.a = Nat.gcd A B ∧
        ∀ d, ∃ t : Int, (A : Int) * pickCofactor s.u0 s.u1 d + B * t = Nat.gcd A B) := by
  obtain ⟨hg, hc⟩ := reach_inv h (A := A) (B := B)
  obtain ⟨v0, v1, hd, ca, cb⟩ := hc 1 0 (cofInv_init A B)
  simp only at hg
  have ea : ∃ t : Int, (A : Int) * s.u1 + B * t = s.a := ⟨-(v1 : Int), by rw [ca]; ring⟩
  have eb : ∃ t : Int, (A : Int) * (-(s.u0 : Int)) + B * t = s.b := ⟨(v0 : Int), by rw [cb]; ring⟩
  refine ⟨hg.symm, ⟨v0, v1, hd, ca, cb⟩, ?_, ?_, ?_⟩
  · intro hb0
    have : s.a = Nat.gcd A B := by rw [hg, hb0, Nat.gcd_zero_right]
    exact ⟨this, by rw [← this]; exact ea⟩
  · intro ha0
    have : s.b = Nat.gcd A B := by rw [hg, ha0, Nat.gcd_zero_left]
    exact ⟨this, by rw [← this]; exact eb⟩
  · intro hab
    have : s.a = Nat.gcd A B := by rw [hg, ← hab, Nat.gcd_self]
    refine ⟨this, fun d => ?_⟩
    rcases pickCofactor_cases s.u0 s.u1 d with e | e <;> rw [e]
    · rw [← this, hab]; exact eb
    · rw [← this]; exact ea

-- non-vacuity: two division steps of the Euclidean algorithm on (240, 46) as contract steps
example : Reach ⟨240, 46, 0, 1⟩ ⟨10, 6, 4, 1⟩ :=
  .step (s' := ⟨10, 46, 0, 1⟩) ⟨1, 5, 0, 1⟩ (by decide) (.step (s' := ⟨10, 6, 4, 1⟩) ⟨1, 0, 4, 1⟩ (by decide) (.refl _))

/-- the measure a + b strictly decreases along proper steps, so every step sequence is finite. -/
theorem gcd_loop_terminates : WellFounded ProperStep := by
  apply Subrelation.wf (r := InvImage (· < ·) (fun s : RState => s.a + s.b))
  · intro s' s ⟨m, h, hne, ha, hb⟩
    exact stepOk_decreases h hne ha hb
  · exact InvImage.wf _ Nat.lt_wfRel.wf

example : ProperStep ⟨10, 46, 0, 1⟩ ⟨240, 46, 0, 1⟩ := ⟨⟨1, 5, 0, 1⟩, by decide, by decide, by decide, by decide⟩

end Mpir.Gcd
