/-
  C17 — finishing the stream layer (part c17_stream).  Property theorems only; helper lemmas live in
  MpirProofs/Lemmas/IoStream.lean (and Lemmas/Io.lean).  The models are Mpir/Model/Io.lean and
  Mpir/Model/IoStream.lean; the correspondence run compares them with the real library on every check.
-/
import MpirProofs.Lemmas.IoStream
import MpirProofs.Props.C17
namespace Mpir.Io
open Mpir Mpir.MpfStr

/-! ## 1. Text round trip -/

/-- `str_stream_roundtrip` (full; the mpz and mpq parts are those of `str_stream_roundtrip_partial`, the mpf part
    now goes down to the value).  For every documented output base (2..62, −36..−2), every operand and whatever
    follows in the stream (`rest` empty or starting with a non-digit, resp. white space for mpf):
    (z) `mpz_inp_str (mpz_out_str (x, base), |base|)` gives back `x`, the two byte counts are equal, the stream is
        left at `rest`;
    (q) the same for the raw fields of an mpq (`rest` not starting with '/');
    (f) for an mpf `u`, any digit count `nd` and any INPUT base `rbase` that reads the same digits and a DECIMAL
        exponent — `rbase = −|base|` (the combination the manual promises), or `rbase ∈ {10, 0}` when |base| = 10 —
        `mpf_inp_str` returns the same byte count `mpf_out_str` returned, that count is
        `[1 for '-'] + 2 for "0." + #digits + 1 for 'e'/'@' + #characters of the decimal exponent`, the stream is
        left at `ws`, and the value stored is `mpf_set_str`'s conversion (`MpfStr.convert`, C13: within 2^(2−p)
        relative, exact when representable) of EXACTLY the sign, digits and exponent that `mpf_get_str` delivered
        for `u`: nothing is lost or re-interpreted between the two functions.
    (With a positive `rbase ≠ 10` the exponent digits are read in that base — see the example below — which is
    the documented caveat; `mpf_get_str` itself rounds `u` to `nd` digits, so "= u" holds exactly when the digits
    denote `u`, which is C13's `get_digits_integer_exact` / `convert_exact_if_fits`.) -/
theorem str_stream_roundtrip (base : Int) (hb : (2 ≤ base ∧ base ≤ 62) ∨ (-36 ≤ base ∧ base ≤ -2))
    (rest : List Nat)
    (hrest : ∀ c, rest.head? = some c → digitValue (decide ((base.natAbs : Int) > 36)) c ≥ base.natAbs) :
    (∀ x dest : Int,
      mpz_inp_str_rd dest ((mpz_out_str {} base x).2.out ++ rest) (base.natAbs : Int)
        = ((mpz_out_str {} base x).1, x, rest)) ∧
    (rest.head? ≠ some 47 → ∀ (num den : Int) (q : Int × Int),
      mpq_inp_str_rd q ((mpq_out_str {} base num den).2.out ++ rest) (base.natAbs : Int)
        = ((mpq_out_str {} base num den).1, (num, den), rest)) ∧
    (∀ (nd : Nat) (u dst : Mpf.F) (rbase : Int) (ws : List Nat),
      (rbase = -(base.natAbs : Int) ∨ (base.natAbs = 10 ∧ (rbase = 10 ∨ rbase = 0))) →
      (∀ c, ws.head? = some c → isspace c = true) →
      let w := mpf_out_str_obj {} base nd u
      let g := get_digits base.natAbs (if nd = 0 then maxDigits base.natAbs u.prec else nd) u
      w.1 = (w.2.out.length : Int) ∧
      w.2.out.length = (if u.size < 0 then 1 else 0) + 2 + g.1.length + 1 + (intText g.2).length ∧
      mpf_inp_str_rd dst (w.2.out ++ ws) rbase =
        (w.2.out.length,
         convert dst.prec ⟨decide (u.size < 0), base.natAbs, 0 :: g.1, g.1.length, g.2⟩, ws)) := by
  obtain ⟨hz, hq, _⟩ := str_stream_roundtrip_partial base hb rest hrest
  refine ⟨hz, hq, ?_⟩
  intro nd u dst rbase ws hr hws
  have hb2 : 2 ≤ base.natAbs := by omega
  obtain ⟨t1, t2⟩ := mpf_out_str_obj_text base hb nd u
  have hlt := get_digits_lt base.natAbs (if nd = 0 then maxDigits base.natAbs u.prec else nd) hb2 u
  simp only
  generalize hg : get_digits base.natAbs (if nd = 0 then maxDigits base.natAbs u.prec else nd) u = g at t1 hlt
  refine ⟨t2, ?_, ?_⟩
  · rw [t1]; unfold mpfTok
    by_cases hn : u.size < 0 <;> simp [hn] <;> omega
  · -- the scanner hands exactly the written token to mpf_set_str
    have hrb : baseOf rbase = base.natAbs ∧ expBaseOf rbase = 10 := by
      unfold baseOf expBaseOf
      rcases hr with h | ⟨h10, h | h⟩
      · subst h
        have a : -(base.natAbs : Int) < 0 := by omega
        have b : -(base.natAbs : Int) ≤ 0 := by omega
        constructor
        · simp only [a, if_true]; omega
        · simp only [b, if_true]
      · subst h; rw [h10]; decide
      · subst h; rw [h10]; decide
    have hchars := mpfTok_chars base hb (decide (u.size < 0)) g.1 hlt g.2
    have hscan : mpf_inp_str_scan (mpfTok base (decide (u.size < 0)) g.1 g.2 ++ ws)
        = (mpfTok base (decide (u.size < 0)) g.1 g.2, (mpfTok base (decide (u.size < 0)) g.1 g.2).length, ws) := by
      have hstr : ∀ e ∈ (if decide (u.size < 0) = true then [45] else []) ++ g.1.map (Radix.digitChar base),
          isspace e = false := by
        intro e he
        simp only [List.mem_append, List.mem_map] at he
        rcases he with h | ⟨d, hd, rfl⟩
        · split at h
          · have : e = 45 := by simpa using h
            subst this; decide
          · simp at h
        · exact (alnum_props (digitChar_range base d (by have := hlt d hd; omega))).1
      have := mpf_text_scan base _ g.2 hstr ws hws
      rwa [mpfText_eq_tok base hb _ g.1 hlt g.2] at this
    unfold mpf_inp_str_rd
    rw [t1, hscan]
    simp only
    unfold set_str
    rw [parse_mpfTok base hb rbase hrb.1 hrb.2 _ g.1 hlt g.2]
    simp only
    have hne : ¬ ((0 : Int) = -1) := by decide
    simp only [hne, if_false]
    congr 2
    by_cases hzero : Radix.ofDigits base.natAbs (0 :: g.1) = 0
    · simp only [hzero, if_true]
      exact convert_zero_mant dst.prec ⟨decide (u.size < 0), base.natAbs, 0 :: g.1, g.1.length, g.2⟩ hzero 0
    · simp only [hzero, if_false]

-- non-vacuity (z, q): see `str_stream_roundtrip_partial`.  (f): the digits "-12345" with exponent 5 (what
-- mpf_get_str delivers for -12345) are written as -0.12345e5, 10 bytes, and read back with base -10 into a
-- destination of 2 limbs precision as -12345, 10 bytes (the 11th byte is left in the stream)
example : (mpf_out_str {} 10 [45, 49, 50, 51, 52, 53] 5).2.out = [45, 48, 46, 49, 50, 51, 52, 53, 101, 53] ∧
    (mpf_out_str {} 10 [45, 49, 50, 51, 52, 53] 5).1 = 10 ∧
    mpf_inp_str_rd ⟨2, 0, 0, []⟩ ([45, 48, 46, 49, 50, 51, 52, 53, 101, 53] ++ [10]) (-10)
      = (10, ⟨2, -1, 1, [12345]⟩, [10]) := by decide +kernel
-- the caveat: 2^40 = 16^10 is written in base 16 as 0.1@11 (exponent 11 in DECIMAL); base -16 reads exponent 11,
-- base 16 reads the exponent digits "11" in base 16, i.e. 17
example : (mpf_out_str {} 16 [49] 11).2.out = [48, 46, 49, 64, 49, 49] ∧
    parse (-16) [48, 46, 49, 64, 49, 49] = some ⟨false, 16, [0, 1], 1, 11⟩ ∧
    parse 16 [48, 46, 49, 64, 49, 49] = some ⟨false, 16, [0, 1], 1, 17⟩ := by decide +kernel

end Mpir.Io
