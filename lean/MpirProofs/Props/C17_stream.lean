/-
  C17 — finishing the stream layer (part c17_stream).  Property theorems only; helper lemmas live in
  MpirProofs/Lemmas/IoStream.lean (and Lemmas/Io.lean).  The models are Mpir/Model/Io.lean and
  Mpir/Model/IoStream.lean; the correspondence run compares them with the real library on every check.
-/
import MpirProofs.Lemmas.IoStream
import MpirProofs.Props.C17
import MpirProofs.Props.C13_str
namespace Mpir.Io
open Mpir Mpir.MpfStr Mpir.Mpf Mpir.Radix

/-! ## 1. Text round trip -/

/-- `str_stream_roundtrip` (full; the mpz and mpq parts are those of `str_stream_roundtrip_partial`, the mpf part
    now goes down to the value).  For every documented output base (2..62, −36..−2), every operand and whatever
    follows in the stream (`rest` empty or starting with a non-digit, resp. white space for mpf):
    (z) `mpz_inp_str (mpz_out_str (x, base), |base|)` gives back `x`, the two byte counts are equal, the stream is
        left at `rest`;
    (q) the same for the raw fields of an mpq (`rest` not starting with '/');
    (f) for an mpf `u`, any digit count `nd` and any INPUT base `rbase` that reads the same digits and a DECIMAL
        exponent — `rbase = −|base|` (the combination the manual promises), or `rbase ∈ {10, 0}` when |base| = 10 —
        `mpf_inp_str` returns the same byte count `mpf_out_str` returned, that count is
        `[1 for '-'] + 2 for "0." + #digits + 1 for 'e'/'@' + #characters of the decimal exponent`, the stream is
        left at `ws`, and the value stored is `mpf_set_str`'s conversion (`MpfStr.convert`, C13: within 2^(2−p)
        relative, exact when representable) of EXACTLY the sign, digits and exponent that `mpf_get_str` delivered
        for `u`: nothing is lost or re-interpreted between the two functions.
    (With a positive `rbase ≠ 10` the exponent digits are read in that base — see the example below — which is
    the documented caveat; `mpf_get_str` itself rounds `u` to `nd` digits, so "= u" holds exactly when the digits
    denote `u`, which is C13's `get_digits_integer_exact` / `convert_exact_if_fits`.) -/
theorem str_stream_roundtrip (base : Int) (hb : (2 ≤ base ∧ base ≤ 62) ∨ (-36 ≤ base ∧ base ≤ -2))
    (rest : List Nat)
    (hrest : ∀ c, rest.head? = some c → digitValue (decide ((base.natAbs : Int) > 36)) c ≥ base.natAbs) :
    (∀ x dest : Int,
      mpz_inp_str_rd dest ((mpz_out_str {} base x).2.out ++ rest) (base.natAbs : Int)
        = ((mpz_out_str {} base x).1, x, rest)) ∧
    (rest.head? ≠ some 47 → ∀ (num den : Int) (q : Int × Int),
      mpq_inp_str_rd q ((mpq_out_str {} base num den).2.out ++ rest) (base.natAbs : Int)
        = ((mpq_out_str {} base num den).1, (num, den), rest)) ∧
    (∀ (nd : Nat) (u dst : Mpf.F) (rbase : Int) (ws : List Nat),
      (rbase = -(base.natAbs : Int) ∨ (base.natAbs = 10 ∧ (rbase = 10 ∨ rbase = 0))) →
      (∀ c, ws.head? = some c → isspace c = true) →
      let w := mpf_out_str_obj {} base nd u
      let g := get_digits base.natAbs (if nd = 0 then maxDigits base.natAbs u.prec else nd) u
      w.1 = (w.2.out.length : Int) ∧
      w.2.out.length = (if u.size < 0 then 1 else 0) + 2 + g.1.length + 1 + (intText g.2).length ∧
      mpf_inp_str_rd dst (w.2.out ++ ws) rbase =
        (w.2.out.length,
         convert dst.prec ⟨decide (u.size < 0), base.natAbs, 0 :: g.1, g.1.length, g.2⟩, ws)) := by
  obtain ⟨hz, hq, _⟩ := str_stream_roundtrip_partial base hb rest hrest
  refine ⟨hz, hq, ?_⟩
  intro nd u dst rbase ws hr hws
  have hb2 : 2 ≤ base.natAbs := by omega
  obtain ⟨t1, t2⟩ := mpf_out_str_obj_text base hb nd u
  have hlt := get_digits_lt base.natAbs (if nd = 0 then maxDigits base.natAbs u.prec else nd) hb2 u
  simp only
  generalize hg : get_digits base.natAbs (if nd = 0 then maxDigits base.natAbs u.prec else nd) u = g at t1 hlt
  refine ⟨t2, ?_, ?_⟩
  · rw [t1]; unfold mpfTok
    by_cases hn : u.size < 0 <;> simp [hn] <;> omega
  · -- the scanner hands exactly the written token to mpf_set_str
    have hrb : baseOf rbase = base.natAbs ∧ expBaseOf rbase = 10 := by
      unfold baseOf expBaseOf
      rcases hr with h | ⟨h10, h | h⟩
      · subst h
        have a : -(base.natAbs : Int) < 0 := by omega
        have b : -(base.natAbs : Int) ≤ 0 := by omega
        constructor
        · simp only [a, if_true]; omega
        · simp only [b, if_true]
      · subst h; rw [h10]; decide
      · subst h; rw [h10]; decide
    have hchars := mpfTok_chars base hb (decide (u.size < 0)) g.1 hlt g.2
    have hscan : mpf_inp_str_scan (mpfTok base (decide (u.size < 0)) g.1 g.2 ++ ws)
        = (mpfTok base (decide (u.size < 0)) g.1 g.2, (mpfTok base (decide (u.size < 0)) g.1 g.2).length, ws) := by
      have hstr : ∀ e ∈ (if decide (u.size < 0) = true then [45] else []) ++ g.1.map (Radix.digitChar base),
          isspace e = false := by
        intro e he
        simp only [List.mem_append, List.mem_map] at he
        rcases he with h | ⟨d, hd, rfl⟩
        · split at h
          · have : e = 45 := by simpa using h
            subst this; decide
          · simp at h
        · exact (alnum_props (digitChar_range base d (by have := hlt d hd; omega))).1
      have := mpf_text_scan base _ g.2 hstr ws hws
      rwa [mpfText_eq_tok base hb _ g.1 hlt g.2] at this
    unfold mpf_inp_str_rd
    rw [t1, hscan]
    simp only
    unfold set_str
    rw [parse_mpfTok base hb rbase hrb.1 hrb.2 _ g.1 hlt g.2]
    simp only
    have hne : ¬ ((0 : Int) = -1) := by decide
    simp only [hne, if_false]
    congr 2
    by_cases hzero : Radix.ofDigits base.natAbs (0 :: g.1) = 0
    · simp only [hzero, if_true]
      exact convert_zero_mant dst.prec ⟨decide (u.size < 0), base.natAbs, 0 :: g.1, g.1.length, g.2⟩ hzero 0
    · simp only [hzero, if_false]

-- non-vacuity (z, q): see `str_stream_roundtrip_partial`.  (f): the digits "-12345" with exponent 5 (what
-- mpf_get_str delivers for -12345) are written as -0.12345e5, 10 bytes, and read back with base -10 into a
-- destination of 2 limbs precision as -12345, 10 bytes (the 11th byte is left in the stream)
example : (mpf_out_str {} 10 [45, 49, 50, 51, 52, 53] 5).2.out = [45, 48, 46, 49, 50, 51, 52, 53, 101, 53] ∧
    (mpf_out_str {} 10 [45, 49, 50, 51, 52, 53] 5).1 = 10 ∧
    mpf_inp_str_rd ⟨2, 0, 0, []⟩ ([45, 48, 46, 49, 50, 51, 52, 53, 101, 53] ++ [10]) (-10)
      = (10, ⟨2, -1, 1, [12345]⟩, [10]) := by decide +kernel
-- the caveat: 2^40 = 16^10 is written in base 16 as 0.1@11 (exponent 11 in DECIMAL); base -16 reads exponent 11,
-- base 16 reads the exponent digits "11" in base 16, i.e. 17
example : (mpf_out_str {} 16 [49] 11).2.out = [48, 46, 49, 64, 49, 49] ∧
    parse (-16) [48, 46, 49, 64, 49, 49] = some ⟨false, 16, [0, 1], 1, 11⟩ ∧
    parse 16 [48, 46, 49, 64, 49, 49] = some ⟨false, 16, [0, 1], 1, 17⟩ := by decide +kernel

/-- `mpf_integer_roundtrip_exact`: the mpf round trip gives back the operand EXACTLY when it can: if `u` holds the
    integer `±N` within the reach of `mpf_get_str`'s exact branch (hypotheses of C13 `get_digits_integer_exact`: N has
    no more digits than are worked to, no limb is cut, the power of the base is not truncated) and the digits, the
    power of the base and `N` are representable in the destination's precision (hypotheses of C13
    `convert_exact_if_fits`), then `mpf_inp_str (mpf_out_str (u, base, nd), rbase)` — `rbase` reading a decimal
    exponent — returns the same byte count and stores a value equal to `u`. -/
theorem mpf_integer_roundtrip_exact (base : Int) (hb : (2 ≤ base ∧ base ≤ 62) ∨ (-36 ≤ base ∧ base ≤ -2))
    (nd : Nat) (u dst : Mpf.F) (rbase : Int) (ws : List Nat)
    (hr : rbase = -(base.natAbs : Int) ∨ (base.natAbs = 10 ∧ (rbase = 10 ∨ rbase = 0)))
    (hws : ∀ c, ws.head? = some c → isspace c = true)
    (hp : 1 ≤ dst.prec)
    -- the operand holds the integer N > 0, within the reach of mpf_get_str's exact branch (C13 get_digits_integer_exact)
    (N : Nat) (hN : 0 < N)
    (hlen : (u.d.length : Int) ≤ u.exp)
    (hval : N = val u.d * B ^ (u.exp - (u.d.length : Int)).toNat)
    (hun : u.d.length ≤ nLimbsNeeded base.natAbs (effDigits base.natAbs u.prec (if nd = 0 then maxDigits base.natAbs u.prec else nd)))
    (hexp : u.exp ≤ (nLimbsNeeded base.natAbs (effDigits base.natAbs u.prec (if nd = 0 then maxDigits base.natAbs u.prec else nd)) : Int))
    (hpow : base.natAbs ^ (Radix.mulTrunc (64 * ((nLimbsNeeded base.natAbs (effDigits base.natAbs u.prec (if nd = 0 then maxDigits base.natAbs u.prec else nd)) : Int) - u.exp).toNat)
        (Radix.cpbeBits base.natAbs)) < B ^ nLimbsNeeded base.natAbs (effDigits base.natAbs u.prec (if nd = 0 then maxDigits base.natAbs u.prec else nd)))
    (hdig : (digitsOf base.natAbs N).length ≤ effDigits base.natAbs u.prec (if nd = 0 then maxDigits base.natAbs u.prec else nd))
    -- and digits, power and value are representable in the destination (C13 convert_exact_if_fits)
    (fM : Fits ((ofDigits base.natAbs (stripTrailingZeros (digitsOf base.natAbs N)) : Nat) : ℚ) (PREC_TO_BITS dst.prec))
    (fb : Fits (((base.natAbs ^ ((digitsOf base.natAbs N).length - (stripTrailingZeros (digitsOf base.natAbs N)).length) : Nat)) : ℚ)
            (PREC_TO_BITS dst.prec))
    (fv : Fits (N : ℚ) (PREC_TO_BITS dst.prec)) :
    (mpf_inp_str_rd dst ((mpf_out_str_obj {} base nd u).2.out ++ ws) rbase).1 = (mpf_out_str_obj {} base nd u).1.toNat ∧
    toQ (mpf_inp_str_rd dst ((mpf_out_str_obj {} base nd u).2.out ++ ws) rbase).2.1
      = (if u.size < 0 then -1 else 1) * (N : ℚ) ∧
    toQ u = (if u.size < 0 then -1 else 1) * (N : ℚ) := by
  have hb2 : 2 ≤ base.natAbs := by omega
  set b := base.natAbs with hbdef
  obtain ⟨_, _, hf⟩ := str_stream_roundtrip base hb [] (by intro c hc; simp at hc)
  obtain ⟨c1, _, c3⟩ := hf nd u dst rbase ws hr hws
  rw [c3]
  have hg := get_digits_integer_exact b (if nd = 0 then maxDigits b u.prec else nd) u hb2 N hN hlen hval hun hexp hpow hdig
  simp only
  rw [hg]
  simp only
  set ds := stripTrailingZeros (digitsOf b N) with hds
  set L := (digitsOf b N).length with hL
  obtain ⟨s1, _, s3, _, _⟩ := strip_spec b (by omega) (digitsOf b N) (L : Int)
  rw [← hds] at s1 s3
  have hbq : (b : ℚ) ≠ 0 := by
    have : (0 : ℚ) < (b : ℚ) := by exact_mod_cast (show 0 < b by omega)
    exact this.ne'
  -- mantissa · b^j = N
  have hmv : (ofDigits b ds : ℚ) * (b : ℚ) ^ ((L : Int) - (ds.length : Int)) = (N : ℚ) := by
    have := s1
    rw [digVal_digitsOf b hb2 N] at this
    unfold digVal at this
    rw [this, ← hL]; simp
  set p : Parsed := ⟨decide (u.size < 0), b, 0 :: ds, ds.length, (L : Int)⟩ with hpdef
  have hmant : p.mant = ofDigits b ds := by
    simp only [hpdef, Parsed.mant, ofDigits_cons]; simp
  have hscale : p.scale = (L : Int) - (ds.length : Int) := rfl
  have hsnat : p.scale.natAbs = L - ds.length := by rw [hscale]; omega
  have hvalue : p.value = sgn (decide (u.size < 0)) * (N : ℚ) := by
    unfold Parsed.value
    rw [hmant, hscale, mul_assoc, hmv]
  have hM : p.mant ≠ 0 := by
    rw [hmant]; intro h0
    rw [h0] at hmv
    have : (N : ℚ) = 0 := by rw [← hmv]; simp
    have : N = 0 := by exact_mod_cast this
    omega
  have hsg : sgn (decide (u.size < 0)) = (if u.size < 0 then (-1 : ℚ) else 1) := by
    unfold sgn; by_cases h : u.size < 0 <;> simp [h]
  have hconv := convert_exact_if_fits dst.prec hp p (by show 1 ≤ b; omega) hM
    (by rw [hmant]; exact fM) (by rw [hsnat]; exact fb)
    (by
      rw [hvalue]
      rcases sgn_cases (decide (u.size < 0)) with h | h
      · rw [h, one_mul]; exact fv
      · rw [h]; have := fits_neg fv; simpa using this)
  refine ⟨?_, ?_, ?_⟩
  · rw [c1]; simp
  · rw [hconv, hvalue, hsg]
  · unfold toQ
    rw [hval]
    have hk : u.exp - (u.d.length : Int) = (((u.exp - (u.d.length : Int)).toNat : Nat) : Int) := by omega
    rw [hk, zpow_natCast]
    push_cast
    rw [← hk]
    ring


-- non-vacuity: 12500 in a 64-bit mpf, base 10, all digits ("0.125e5"), read back with base -10 into 64 bits
example : toQ (mpf_inp_str_rd ⟨2, 0, 0, []⟩ ((mpf_out_str_obj {} 10 0 ⟨2, 1, 1, [12500]⟩).2.out ++ [10]) (-10)).2.1
    = toQ (⟨2, 1, 1, [12500]⟩ : Mpf.F) := by
  have e1 : ofDigits (10 : Int).natAbs (stripTrailingZeros (digitsOf (10 : Int).natAbs 12500)) = 125 := by decide +kernel
  have e2 : (10 : Int).natAbs ^ ((digitsOf (10 : Int).natAbs 12500).length
      - (stripTrailingZeros (digitsOf (10 : Int).natAbs 12500)).length) = 100 := by decide +kernel
  have h := mpf_integer_roundtrip_exact 10 (Or.inl ⟨by decide, by decide⟩) 0 ⟨2, 1, 1, [12500]⟩ ⟨2, 0, 0, []⟩ (-10) [10]
    (Or.inl rfl) (by decide) (by decide) 12500 (by norm_num) (by decide) (by decide +kernel) (by decide +kernel)
    (by decide +kernel) (by decide +kernel) (by decide +kernel)
    (by rw [e1]; exact ⟨125, 0, by norm_num, by norm_num [PREC_TO_BITS]⟩)
    (by rw [e2]; exact ⟨25, 2, by norm_num, by norm_num [PREC_TO_BITS]⟩)
    ⟨3125, 2, by norm_num, by norm_num [PREC_TO_BITS]⟩
  rw [h.2.1, h.2.2]

/-- `str_stream_roundtrip_base0`: base 0 on both sides — `mpz_out_str` / `mpq_out_str` / `mpf_out_str` write in
    decimal, `mpz_inp_str` / `mpq_inp_str` with base 0 detect the prefix ("0x", "0b", "0") — gives the same round
    trip with equal byte counts, for every value, provided what follows the number is not a decimal digit and
    (this matters only after a lone "0") not one of the letters x, X, b, B, which would be taken for a prefix;
    `mpf_out_str` with base 0 is `mpf_out_str` with base 10, to which part (f) of `str_stream_roundtrip` applies
    (read back with base 0, 10 or −10). -/
theorem str_stream_roundtrip_base0 (rest : List Nat)
    (hrest : ∀ c, rest.head? = some c → digitValue false c ≥ 10 ∧ c ≠ 120 ∧ c ≠ 88 ∧ c ≠ 98 ∧ c ≠ 66) :
    (∀ x dest : Int,
      mpz_inp_str_rd dest ((mpz_out_str {} 0 x).2.out ++ rest) 0 = ((mpz_out_str {} 0 x).1, x, rest)) ∧
    (rest.head? ≠ some 47 → ∀ (num den : Int) (q : Int × Int),
      mpq_inp_str_rd q ((mpq_out_str {} 0 num den).2.out ++ rest) 0
        = ((mpq_out_str {} 0 num den).1, (num, den), rest)) ∧
    (∀ (nd : Nat) (u : Mpf.F), mpf_out_str_obj {} 0 nd u = mpf_out_str_obj {} 10 nd u) := by
  refine ⟨?_, ?_, fun nd u => rfl⟩
  · intro x dest
    obtain ⟨e1, e2⟩ := mpz_out_str_text 0 x
    rw [e1, e2]
    exact mpz_text_roundtrip0 x dest rest hrest
  · intro hs num den q
    obtain ⟨e1, e2⟩ := mpq_out_str_text 0 num den
    rw [e1, e2]
    exact mpq_text_roundtrip0 num den q rest hrest hs

-- non-vacuity: "0" followed by a blank is zero (1 byte); followed by 'x' it would be the prefix of a hex number
example : mpz_inp_str_rd 7 ((mpz_out_str {} 0 0).2.out ++ [32]) 0 = (1, 0, [32]) ∧
    (mpz_inp_str_rd 7 ((mpz_out_str {} 0 0).2.out ++ [120, 49]) 0).2.1 = 1 ∧
    mpq_inp_str_rd (0, 1) ((mpq_out_str {} 0 0 (-17)).2.out ++ [10]) 0 = (5, (0, -17), [10]) := by decide +kernel

/-! ## 2. The fast paths of mpz_import / mpz_export -/

/-- `import_fast_eq_generic`: whatever the dispatch of import.c:60-90 chooses — MPN_COPY, MPN_BSWAP, MPN_REVERSE for
    limb-sized words without nails in a limb-aligned buffer, the byte loop otherwise — the limbs stored are those
    the generic byte loop alone (`mpz_import_generic`: the same code with the fast-path block removed) stores, for
    every count, order, size, endianness, nail count, alignment and arbitrary data; in particular the result is
    normalised on every path (`TopNZ`: MPN_NORMALIZE at `done:`), and `import_spec` holds for the code as dispatched. -/
theorem import_fast_eq_generic (count : Nat) (order : Int) (size : Nat) (endian : Int) (nail align : Nat)
    (data : List Nat) (ho : order = 1 ∨ order = -1) (he : endian = -1 ∨ endian = 0 ∨ endian = 1)
    (hs : 1 ≤ size) (hn : nail < 8 * size) (hb : Bytes data) (hl : data.length = count * size) :
    mpz_import count order size endian nail align data = mpz_import_generic count order size endian nail data ∧
    TopNZ (mpz_import count order size endian nail align data) := by
  obtain ⟨a1, a2, a3⟩ := mpz_import_spec count order size endian nail align data ho he hs hn hb hl
  obtain ⟨b1, b2, b3⟩ := mpz_import_spec count order size endian nail 1 data ho he hs hn hb hl
  exact ⟨normalized_unique a2 a3 b2 b3 (a1.trans b1.symm), a3⟩

-- non-vacuity: an aligned big-endian buffer of two words, most significant first, whose top word is zero:
-- the BSWAP_REVERSE combination has no fast path in import.c, order -1 / endian 1 has (MPN_BSWAP); both are
-- normalised to one limb
example : mpz_import 2 (-1) 8 1 0 0 [0, 0, 0, 0, 0, 0, 1, 2, 0, 0, 0, 0, 0, 0, 0, 0] = [258] ∧
    mpz_import_generic 2 (-1) 8 1 0 [0, 0, 0, 0, 0, 0, 1, 2, 0, 0, 0, 0, 0, 0, 0, 0] = [258] := by decide +kernel

/-- `import_obj_spec`: `mpz_import` on the object: after MPZ_REALLOC (new limbs arbitrary), the dispatched fill,
    MPN_NORMALIZE and `SIZ (z) = zsize`, the destination is well formed, non-negative, and holds exactly
    Σ (word i mod 2^numb)·2^(numb·i) — for every previous content of `z`. -/
theorem import_obj_spec (z : Mpz) (hz : z.WF) (count : Nat) (order : Int) (size : Nat) (endian : Int)
    (nail align : Nat) (data : List Nat) (junk : Nat → Nat) (hj : ∀ i, junk i < B)
    (ho : order = 1 ∨ order = -1) (he : endian = -1 ∨ endian = 0 ∨ endian = 1)
    (hs : 1 ≤ size) (hn : nail < 8 * size) (hb : Bytes data) (hl : data.length = count * size) :
    (mpz_import_obj z count order size endian nail align data junk).WF ∧
    (mpz_import_obj z count order size endian nail align data junk).toInt
      = (importValue order size endian nail count data : Int) ∧
    (mpz_import_obj z count order size endian nail align data junk).limbs
      = mpz_import_generic count order size endian nail data := by
  obtain ⟨a1, a2, a3⟩ := mpz_import_obj_spec z hz count order size endian nail align data junk hj ho he hs hn hb hl
  obtain ⟨i1, _, _⟩ := mpz_import_spec count order size endian nail align data ho he hs hn hb hl
  refine ⟨a3, ?_, ?_⟩
  · unfold Mpz.toInt
    rw [a1, a2, i1]
    have : ¬ (((mpz_import count order size endian nail align data).length : Int) < 0) := by omega
    simp only [this, if_false]
  · rw [a1]; exact (import_fast_eq_generic count order size endian nail align data ho he hs hn hb hl).1

example : mpz_import_obj ⟨1, -1, [77]⟩ 2 1 8 (-1) 0 0 [0, 0, 0, 0, 0, 0, 0, 0, 5, 0, 0, 0, 0, 0, 0, 0] (fun _ => 9)
    = ⟨2, 1, [5, 0]⟩ := by decide +kernel

/-- `export_fast_eq_generic`: the MPN_COPY / MPN_REVERSE / MPN_BSWAP / MPN_BSWAP_REVERSE fast paths of export.c:78-104
    (limb-sized words, no nails, limb-aligned `data`) write the same count and the same bytes as the generic loop
    alone; and on the object, `mpz_export` of zero stores `*countp = 0` and writes nothing, of a non-zero `z`
    exactly `⌈bits/numb⌉` words holding the documented bytes (`exportBytes`). -/
theorem export_fast_eq_generic (order endian : Int) (size nail align : Nat)
    (ho : order = 1 ∨ order = -1) (he : endian = -1 ∨ endian = 0 ∨ endian = 1) (hs : 1 ≤ size)
    (hn : nail < 8 * size) :
    (∀ zl : List Nat, Limbs zl → TopNZ zl →
      mpz_export order size endian nail align zl = mpz_export_generic order size endian nail zl) ∧
    (∀ z : Mpz, z.WF →
      mpz_export_obj order size endian nail align z
        = (exportCount (8 * size - nail) z.toInt.natAbs, exportBytes order size endian nail z.toInt.natAbs) ∧
      (z.size = 0 → mpz_export_obj order size endian nail align z = (0, []))) := by
  constructor
  · intro zl hL ht
    rw [mpz_export_spec order endian size nail align zl ho he hs hn hL ht]
    exact (mpz_export_spec order endian size nail 1 zl ho he hs hn hL ht).symm
  · intro z hz
    obtain ⟨h1, h2, h3, h4⟩ := hz
    have hval : z.toInt.natAbs = val z.limbs := by unfold Mpz.toInt; split <;> omega
    refine ⟨?_, fun h0 => by simp [mpz_export_obj, h0]⟩
    unfold mpz_export_obj
    by_cases h0 : z.size = 0
    · have hl : z.limbs = [] := by unfold Mpz.limbs Mpz.abssize; simp [h0]
      have hv0 : z.toInt.natAbs = 0 := by rw [hval, hl]; rfl
      have hnumb : 0 < 8 * size - nail := by omega
      have hc : exportCount (8 * size - nail) 0 = 0 := by
        unfold exportCount bitLen; simp only [if_true]
        exact Nat.div_eq_of_lt (by omega)
      simp only [h0, if_true, hv0, hc, exportBytes]
      simp [layout]
    · simp only [h0, if_false, hval]
      apply mpz_export_spec order endian size nail align z.limbs ho he hs hn
      · exact Limbs_take h3 _
      · intro hne
        have hn0 : z.abssize ≠ 0 := by unfold Mpz.abssize; omega
        have := h4 h0
        unfold Mpz.limbs
        rw [List.getLastD_eq_getLast?, List.getLast?_eq_getElem?, List.length_take]
        have hm : min z.abssize z.d.length = z.abssize := by omega
        rw [hm, List.getElem?_take_of_lt (by omega)]
        rw [List.getD_eq_getElem?_getD] at this
        exact this

-- non-vacuity: MPN_BSWAP_REVERSE (order 1, endian 1, aligned) against the byte loop (misaligned); zero
example : mpz_export 1 8 1 0 0 [0x0102030405060708, 0x1122] = (2, [0, 0, 0, 0, 0, 0, 0x11, 0x22, 1, 2, 3, 4, 5, 6, 7, 8]) ∧
    mpz_export_generic 1 8 1 0 [0x0102030405060708, 0x1122] = (2, [0, 0, 0, 0, 0, 0, 0x11, 0x22, 1, 2, 3, 4, 5, 6, 7, 8]) ∧
    mpz_export_obj 1 8 1 0 0 ⟨2, 0, [7, 7]⟩ = (0, []) := by decide +kernel

/-! ## 4. Raw format beyond the 4-byte header -/

/-- `raw_beyond_header`: what `mpz_out_raw` / `mpz_inp_raw` do with a magnitude of `n ≥ 2^31` bytes.
    (a) `mpz_out_raw` does not refuse it: it writes all `n` bytes behind a header holding `±n mod 2^32`
        (out_raw.c:145-156 truncate `bytes` to four bytes AFTER `ssize = 4 + bytes` was computed) and returns
        `4 + n` — success;
    (b) `mpz_inp_raw` decodes that header as `±n` wrapped into [−2^31, 2^31) (inp_raw.c:66-79), which is `±n` only
        for `n = 2^31` with a NEGATIVE operand; in every other case it does NOT return the count `mpz_out_raw`
        returned together with the value written — it fails (0), or consumes a different number of bytes, or (for
        a positive operand of exactly 2^31 bytes: header 80 00 00 00) gives back `−v`.
    So the round trip `raw_roundtrip` holds exactly up to 2^31 − 1 bytes (and 2^31 for negatives); beyond, the
    record is silently unreadable although both functions report success.  `inp_raw_total` still holds: the
    destination stays well formed for every header. -/
theorem raw_beyond_header (v : Int) (hv : 2 ^ 31 ≤ byteLen v.natAbs) :
    ((mpz_out_raw {} (Mpz.ofInt v)).2.out = outRawBytes v → (mpz_out_raw {} (Mpz.ofInt v)).1 = 4 + byteLen v.natAbs) ∧
    (outRawBytes v).take 4 = hdrBytes (if v < 0 then -(byteLen v.natAbs : Int) else byteLen v.natAbs) ∧
    rawHeaderDecoded v =
      ((if v < 0 then -(byteLen v.natAbs : Int) else byteLen v.natAbs) + 2147483648) % 4294967296 - 2147483648 ∧
    (¬ (byteLen v.natAbs = 2 ^ 31 ∧ v < 0) →
      ∀ (x : Mpz), x.WF → ∀ (rest : List Nat), Bytes rest → ∀ (junk : Nat → Nat), (∀ i, junk i < B) →
        ¬ ((mpz_inp_raw x ⟨outRawBytes v ++ rest, none⟩ junk).1 = 4 + byteLen v.natAbs ∧
           (mpz_inp_raw x ⟨outRawBytes v ++ rest, none⟩ junk).2.1.toInt = v)) := by
  have hlen : (outRawBytes v).length = 4 + byteLen v.natAbs := by simp [outRawBytes, hdrBytes]
  refine ⟨?_, ?_, ?_, ?_⟩
  · intro ho
    have hne : (out_raw_m (Mpz.ofInt v)).isEmpty = false := by
      have : 4 ≤ (out_raw_m (Mpz.ofInt v)).length := by unfold out_raw_m; simp [hdrBytes]
      cases h : out_raw_m (Mpz.ofInt v) with
      | nil => rw [h] at this; simp at this
      | cons a t => rfl
    have hw : (mpz_out_raw {} (Mpz.ofInt v)).2.out = out_raw_m (Mpz.ofInt v) := by
      simp [mpz_out_raw, OStream.write, hne]
    have hr : (mpz_out_raw {} (Mpz.ofInt v)).1 = (out_raw_m (Mpz.ofInt v)).length := by
      simp [mpz_out_raw, OStream.write, hne]
    rw [hr, ← hw, ho, hlen]
  · have := (outRaw_pieces v []).1
    simpa using this
  · unfold rawHeaderDecoded rawHeaderOf
    exact csizeOf_hdrBytes_wrap _
  · intro hex x hx rest hr junk hj
    intro ⟨hret, hval⟩
    have hb : Bytes (outRawBytes v ++ rest) := Bytes_append.mpr ⟨outRawBytes_bytes v, hr⟩
    obtain ⟨_, h⟩ := inp_raw_rd_spec x hx (outRawBytes v ++ rest) hb junk hj
    unfold mpz_inp_raw Stream.avail at hret hval
    simp only at hret hval
    obtain ⟨p1, p2, p3⟩ := outRaw_pieces v rest
    set n := byteLen v.natAbs with hn
    have hcs : csizeOf ((outRawBytes v ++ rest).take 4)
        = ((if v < 0 then -(n : Int) else (n : Int)) + 2147483648) % 4294967296 - 2147483648 := by
      rw [p1]; exact csizeOf_hdrBytes_wrap _
    set c := csizeOf ((outRawBytes v ++ rest).take 4) with hcdef
    have hn31 : (2147483648 : Nat) ≤ n := by simpa using hv
    split at h
    · obtain ⟨h1, _, h3⟩ := h
      rw [hret] at h1
      -- the decoded count has the right magnitude only for -2^31
      have hc : c = -2147483648 ∧ n = 2147483648 := by
        split at hcs <;> omega
      obtain ⟨hc1, hc2⟩ := hc
      have hna : c.natAbs = n := by omega
      have hcneg : ¬ (c ≥ 0) := by omega
      rw [if_neg hcneg, hna, p2, p3, hval] at h3
      have hvneg : v < 0 := by
        have hv0 : v.natAbs ≠ 0 := by
          intro h0
          have : byteLen 0 = 0 := by decide
          rw [hn, h0, this] at hn31; omega
        omega
      exact hex ⟨by simpa using hc2, hvneg⟩
    · rw [h.1] at hret; omega

-- non-vacuity of the header arithmetic (a 2^31-byte operand itself cannot be written down here): the header of a
-- positive magnitude of 2^31 bytes is 80 00 00 00 and decodes to -2^31; 2^31 + 5 bytes decode to -(2^31 - 5)
example : hdrBytes 2147483648 = [128, 0, 0, 0] ∧ csizeOf [128, 0, 0, 0] = -2147483648 ∧
    csizeOf (hdrBytes 2147483653) = -2147483643 ∧ csizeOf (hdrBytes (-2147483648)) = -2147483648 := by decide +kernel

end Mpir.Io
