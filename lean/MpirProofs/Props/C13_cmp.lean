/-
  C13, part c13_cmp — mpf_cmp, mpf_sgn, mpf_eq, mpf_reldiff.
  Property theorems only; helper lemmas live in MpirProofs/Lemmas/MpfCmp.lean.

  `Mpf.cmp` (Model/Mpf.lean, mpf/cmp.c) is the model behind op `mpf_cmp13`; `MpfCmp.eq`, `MpfCmp.reldiff`, `MpfCmp.sgn`
  (Model/MpfCmp.lean; mpf/eq.c, mpf/reldiff.c, mpir.h) are behind `mpf_eq13`, `mpf_reldiff`, `mpf_sgn13`.
  Operands are only required to satisfy the operand rules `OpWF` (proper limbs, |size| limbs, top limb ≠ 0, zero has
  exponent 0): any length, in particular longer than their own prec+1 (the state mpf_set_prec_raw leaves), low zero
  limbs allowed.  `toQ u` = ± val d · B^(exp − |size|) ∈ ℚ.

  (mpf_cmp_ui / _si / _d / _z, mpf_get_si / _ui / _d / _d_2exp, mpf_fits_*_p and mpf_integer_p are proved in
  Props/C11.lean on Model/Conv.lean, whose `F` carries no precision: they already cover operands of every length.)
-/
import MpirProofs.Lemmas.MpfCmp
namespace Mpir.MpfCmp
open Mpir Mpir.Mpf

/-! ### mpf_cmp, mpf_sgn -/

/-- mpf_cmp (u, v) is the sign of the exact difference u − v, for all operands of any sizes and precisions:
    opposite signs, zeros, different exponents, low zero limbs skipped, and the aligned limb comparison in which one
    mantissa may be a proper prefix of the other (then the longer one is the larger magnitude, for either sign). -/
theorem cmp_spec (u v : F) (hu : OpWF u) (hv : OpWF v) :
    Mpf.cmp u v = (if toQ u < toQ v then -1 else if toQ u = toQ v then 0 else 1) :=
  cmp_sgnCmp u v hu hv

-- non-vacuity: two negatives, v = −(1 + 2^-64·…) a prefix extension of u = −1·…: u > v; same with the signs flipped;
-- equal values with a low zero limb; exponent decides
example : Mpf.cmp ⟨2, -1, 1, [7]⟩ ⟨2, -2, 1, [9, 7]⟩ = 1 ∧ Mpf.cmp ⟨2, 1, 1, [7]⟩ ⟨2, 2, 1, [9, 7]⟩ = -1 ∧
    Mpf.cmp ⟨2, -2, 1, [0, 7]⟩ ⟨2, -1, 1, [7]⟩ = 0 ∧ Mpf.cmp ⟨2, -1, 2, [1]⟩ ⟨2, -3, 1, [5, 6, B - 1]⟩ = -1 := by decide

/-- mpf_cmp is antisymmetric (with `cmp_spec`: a total order consistent with the values). -/
theorem cmp_antisymm (u v : F) (hu : OpWF u) (hv : OpWF v) : Mpf.cmp v u = - Mpf.cmp u v := by
  rw [cmp_sgnCmp v u hv hu, cmp_sgnCmp u v hu hv, sgnCmp_swap]

example : Mpf.cmp ⟨2, 2, 1, [9, 7]⟩ ⟨2, 1, 1, [7]⟩ = - Mpf.cmp ⟨2, 1, 1, [7]⟩ ⟨2, 2, 1, [9, 7]⟩ := by decide

/-- mpf_sgn: +1, 0, −1 as the value is positive, zero, negative. -/
theorem sgn_spec (u : F) (hu : OpWF u) :
    sgn u = (if toQ u < 0 then -1 else if toQ u = 0 then 0 else 1) := by
  unfold sgn
  by_cases a : u.size < 0
  · rw [if_pos a, if_pos (toQ_neg_of hu a)]
  · rw [if_neg a]
    by_cases b : u.size > 0
    · have := toQ_pos_of hu b
      rw [if_pos b, if_neg (by linarith), if_neg (by linarith)]
    · rw [if_neg b, toQ_zero_of_size hu (by omega)]; simp

example : sgn ⟨2, -2, -5, [0, 3]⟩ = -1 ∧ sgn ⟨2, 0, 0, []⟩ = 0 ∧ sgn ⟨2, 1, 9, [3]⟩ = 1 := by decide

/-! ### mpf_eq

The manual: "Return non-zero if the first op3 bits of op1 and op2 are equal, zero otherwise."  The first n bits of
a non-zero float are those of its mantissa integer counted from the leading 1 bit (`firstBits`, zero bits supplied
when the mantissa is shorter), together with the sign and the position of that leading bit
(`bitExp u` = 64·exp − clz(top limb):  2^(bitExp−1) ≤ |u| < 2^bitExp). -/

/-- position of the leading bit of |u|: 2^(bitExp u − 1) ≤ |u| < 2^(bitExp u) -/
def bitExp (u : F) : Int := 64 * u.exp - (clz (topLimb u.d) : Int)

/-- `bitExp` is the position of the leading bit of the value: 2^(bitExp u − 1) ≤ |u| < 2^(bitExp u). -/
theorem bitExp_bounds (u : F) (hu : OpWF u) (h0 : u.size ≠ 0) :
    (2 : ℚ) ^ (bitExp u - 1) ≤ |toQ u| ∧ |toQ u| < (2 : ℚ) ^ (bitExp u) := by
  have hne : u.d ≠ [] := List.ne_nil_of_length_pos (OpWF.len_pos hu h0)
  obtain ⟨h1, h2, h3⟩ := log2_val u.d hu.1 hne hu.2.2.1
  have hv0 : val u.d ≠ 0 := Nat.pos_iff_ne_zero.mp (val_pos_of_top hne hu.2.2.1)
  have lo : 2 ^ Nat.log2 (val u.d) ≤ val u.d := Nat.log2_self_le hv0
  have hi : val u.d < 2 ^ (Nat.log2 (val u.d) + 1) := Nat.lt_log2_self
  have habs : |toQ u| = qv u.d u.exp := by
    rw [toQ_qv]; unfold sg
    have := qv_nonneg u.d u.exp
    split
    · rw [show (-1 : ℚ) * qv u.d u.exp = -(qv u.d u.exp) by ring, abs_neg, abs_of_nonneg this]
    · rw [one_mul, abs_of_nonneg this]
  rw [habs]; unfold qv bitExp
  have hB : (B : ℚ) ^ (u.exp - (u.d.length : ℤ)) = (2 : ℚ) ^ (64 * (u.exp - (u.d.length : ℤ))) := by
    rw [Bq_eq, ← zpow_natCast (2 : ℚ) 64, ← zpow_mul]; norm_num
  rw [hB]
  have hp : (0 : ℚ) < (2 : ℚ) ^ (64 * (u.exp - (u.d.length : ℤ))) := zpow_pos (by norm_num) _
  generalize hL : Nat.log2 (val u.d) = L at *
  constructor
  · have e : (2 : ℚ) ^ (64 * u.exp - (clz (topLimb u.d) : ℤ) - 1) =
        ((2 ^ L : ℕ) : ℚ) * (2 : ℚ) ^ (64 * (u.exp - (u.d.length : ℤ))) := by
      push_cast; rw [← zpow_natCast (2 : ℚ) L, ← zpow_add₀ (by norm_num : (2 : ℚ) ≠ 0)]; congr 1; omega
    rw [e]; exact mul_le_mul_of_nonneg_right (by exact_mod_cast lo) (le_of_lt hp)
  · have e : (2 : ℚ) ^ (64 * u.exp - (clz (topLimb u.d) : ℤ)) =
        ((2 ^ (L + 1) : ℕ) : ℚ) * (2 : ℚ) ^ (64 * (u.exp - (u.d.length : ℤ))) := by
      push_cast; rw [← zpow_natCast (2 : ℚ) (L + 1), ← zpow_add₀ (by norm_num : (2 : ℚ) ≠ 0)]; congr 1; push_cast; omega
    rw [e]; exact mul_lt_mul_of_pos_right (by exact_mod_cast hi) hp

-- 5·B^0 = 101b: leading bit at position 3
example : bitExp ⟨2, 1, 1, [5]⟩ = 3 ∧ bitExp ⟨2, -2, -1, [0, 2 ^ 63]⟩ = -64 := by decide +kernel

/-- mpf_eq (u, v, n) for EVERY bit count n: true iff both are zero, or both are non-zero with the same sign, the same
    leading-bit position and the same first n bits.  (n = 0 compares sign and leading-bit position only; n beyond the
    operands compares them entirely.)  Hypotheses: the operand rules and |size| < 2^31 (`_mp_size` is an int). -/
theorem eq_spec (u v : F) (hu : OpWF u) (hv : OpWF v) (hlu : u.d.length < 2 ^ 31) (hlv : v.d.length < 2 ^ 31) (nbits : Nat) :
    eq u v nbits = true ↔
      (u.size = 0 ∧ v.size = 0) ∨
      (u.size ≠ 0 ∧ v.size ≠ 0 ∧ (u.size < 0 ↔ v.size < 0) ∧ bitExp u = bitExp v ∧
        firstBits (val u.d) nbits = firstBits (val v.d) nbits) := by
  rw [eq_unfold]
  by_cases hs : (decide (u.size < 0) != decide (v.size < 0)) = true
  · rw [if_pos hs]
    constructor
    · intro h; exact absurd h Bool.false_ne_true
    · rintro (⟨a, b⟩ | ⟨_, _, c, _⟩)
      · rw [a, b] at hs; simp at hs
      · by_cases a : u.size < 0
        · simp [a, c.mp a] at hs
        · simp [a] at hs; exact absurd (c.mpr hs) a
  · rw [if_neg hs]
    have same : (u.size < 0 ↔ v.size < 0) := by
      by_cases a : u.size < 0 <;> by_cases b : v.size < 0 <;> simp [a, b] at hs ⊢
    by_cases hu0 : u.size = 0
    · rw [if_pos hu0]
      constructor
      · intro h; exact Or.inl ⟨hu0, of_decide_eq_true h⟩
      · rintro (⟨_, b⟩ | ⟨a, _⟩)
        · exact decide_eq_true b
        · exact absurd hu0 a
    · rw [if_neg hu0]
      by_cases hv0 : v.size = 0
      · rw [if_pos hv0]
        constructor
        · intro h; exact absurd h Bool.false_ne_true
        · rintro (⟨a, _⟩ | ⟨_, b, _⟩)
          · exact absurd a hu0
          · exact absurd hv0 b
      · rw [if_neg hv0]
        have hneu : u.d ≠ [] := List.ne_nil_of_length_pos (OpWF.len_pos hu hu0)
        have hnev : v.d ≠ [] := List.ne_nil_of_length_pos (OpWF.len_pos hv hv0)
        obtain ⟨_, cu64, _⟩ := log2_val u.d hu.1 hneu hu.2.2.1
        obtain ⟨_, cv64, _⟩ := log2_val v.d hv.1 hnev hv.2.2.1
        have hbe : bitExp u = bitExp v ↔ (u.exp = v.exp ∧ clz (topLimb u.d) = clz (topLimb v.d)) := by
          unfold bitExp; omega
        by_cases g1 : u.exp > v.exp
        · rw [if_pos g1]
          constructor
          · intro h; exact absurd h Bool.false_ne_true
          · rintro (⟨a, _⟩ | ⟨_, _, _, b, _⟩)
            · exact absurd a hu0
            · have := (hbe.mp b).1; omega
        · rw [if_neg g1]
          by_cases g2 : v.exp > u.exp
          · rw [if_pos g2]
            constructor
            · intro h; exact absurd h Bool.false_ne_true
            · rintro (⟨a, _⟩ | ⟨_, _, _, b, _⟩)
              · exact absurd a hu0
              · have := (hbe.mp b).1; omega
          · rw [if_neg g2]
            by_cases g3 : clz (topLimb u.d) ≠ clz (topLimb v.d)
            · rw [if_pos g3]
              constructor
              · intro h; exact absurd h Bool.false_ne_true
              · rintro (⟨a, _⟩ | ⟨_, _, _, b, _⟩)
                · exact absurd a hu0
                · exact absurd (hbe.mp b).2 g3
            · rw [if_neg g3]
              have g3' : clz (topLimb u.d) = clz (topLimb v.d) := not_not.mp g3
              have hlim : 64 * max u.d.length v.d.length + 127 ≤ 2 ^ 64 := by
                rcases max_cases u.d.length v.d.length with ⟨h, _⟩ | ⟨h, _⟩ <;> rw [h] <;> omega
              have core : eqTail u.d v.d (if nbits > 64 * max u.d.length v.d.length then 64 * max u.d.length v.d.length else nbits)
                  (clz (topLimb u.d)) = true ↔
                  val u.d * 2 ^ (nbits + clz (topLimb u.d)) / B ^ u.d.length =
                    val v.d * 2 ^ (nbits + clz (topLimb u.d)) / B ^ v.d.length := by
                by_cases hc : nbits > 64 * max u.d.length v.d.length
                · rw [if_pos hc, eqTail_spec u.d v.d hu.1 hv.1 _ _ cu64 hlim]
                  exact (topbits_clamp u.d v.d _ _ (by omega) (by omega)).symm
                · rw [if_neg hc]; exact eqTail_spec u.d v.d hu.1 hv.1 _ _ cu64 (by omega)
              have fu := firstBits_eq u.d hu.1 hneu hu.2.2.1 nbits
              have fv := firstBits_eq v.d hv.1 hnev hv.2.2.1 nbits
              rw [← g3'] at fv
              rw [core, ← fu, ← fv]
              constructor
              · intro h; exact Or.inr ⟨hu0, hv0, same, hbe.mpr ⟨by omega, g3'⟩, h⟩
              · rintro (⟨a, _⟩ | ⟨_, _, _, _, b⟩)
                · exact absurd a hu0
                · exact b

-- non-vacuity: 5 = 101b and 7 = 111b agree in 1 bit, not in 2; 2^64+… against its one-limb prefix: 64 bits equal, the
-- 65th not (first differing bit lies in the zero extension of the shorter operand); negative pair; zero
example : eq ⟨2, 1, 1, [5]⟩ ⟨2, 1, 1, [7]⟩ 1 = true ∧ eq ⟨2, 1, 1, [5]⟩ ⟨2, 1, 1, [7]⟩ 2 = false ∧
    eq ⟨2, 2, 1, [2 ^ 63, 2 ^ 63]⟩ ⟨2, 1, 1, [2 ^ 63]⟩ 64 = true ∧ eq ⟨2, 2, 1, [2 ^ 63, 2 ^ 63]⟩ ⟨2, 1, 1, [2 ^ 63]⟩ 65 = false ∧
    eq ⟨2, -1, 3, [12]⟩ ⟨2, -2, 3, [1, 12]⟩ 60 = true ∧ eq ⟨2, 0, 0, []⟩ ⟨5, 0, 0, []⟩ 99 = true ∧
    firstBits 5 1 = firstBits 7 1 ∧ firstBits 5 2 ≠ firstBits 7 2 := by decide +kernel

/-- mpf_eq (u, u, n) holds for every n. -/
theorem eq_refl (u : F) (hu : OpWF u) (hlu : u.d.length < 2 ^ 31) (nbits : Nat) : eq u u nbits = true := by
  rw [eq_spec u u hu hu hlu hlu nbits]
  by_cases h : u.size = 0
  · exact Or.inl ⟨h, h⟩
  · exact Or.inr ⟨h, h, Iff.rfl, rfl, rfl⟩

example : eq ⟨2, 3, -7, [1, 2, 3]⟩ ⟨2, 3, -7, [1, 2, 3]⟩ 1000 = true := by decide +kernel

/-- What was wrong before /repo commit b2b40d5 (found with this model, confirmed on the library, repaired): without
    the clamp of eq.c:80-81, `n_bits + cu` and BITS_TO_LIMBS wrapped in `mp_bitcnt_t` for n_bits ≥ 2^64 − 63 − cu, the
    limb count became 0 and the answer "equal": mpf_eq (5, 7, ULONG_MAX) was 1 although 5 = 101b and 7 = 111b differ
    in their second bit.  With the clamp the answer is 0 (corpus/C13/mpf_eq_huge_nbits.ops). -/
theorem eq_wrapped_before_b2b40d5 : eqNoClamp ⟨2, 1, 1, [5]⟩ ⟨2, 1, 1, [7]⟩ (2 ^ 64 - 1) = true ∧
    firstBits 5 2 ≠ firstBits 7 2 ∧ eq ⟨2, 1, 1, [5]⟩ ⟨2, 1, 1, [7]⟩ (2 ^ 64 - 1) = false := by decide +kernel

/-! ### mpf_reldiff

reldiff.c: d = x − y at precision prec + |x| limbs, |d|, then mpf_div at the destination precision.  The manual:
"|op1 − op2| / op1".  C13's 2^(2−p) bound is not claimed for mpf_reldiff by the property text; what holds is the
composition of the two roundings. -/

/-- x = 0: the result is 1 if y ≠ 0, else 0 (reldiff.c:33-36; the quotient |0 − y|/0 itself is undefined). -/
theorem reldiff_zero (prec : ℕ) (x y : F) (hx0 : x.size = 0) :
    ∃ r, reldiff prec x y = .ok r ∧ WF r ∧ toQ r = (if y.size = 0 then 0 else 1) := by
  unfold reldiff
  rw [if_pos hx0]
  refine ⟨_, rfl, ?_, ?_⟩
  · by_cases h : y.size = 0
    · simp only [h, ne_eq, not_true_eq_false, if_false]; exact WF_zero prec
    · simp only [h, ne_eq, not_false_eq_true, if_true]
      exact ⟨Limbs_cons.mpr ⟨by rw [B_eq]; norm_num, Limbs_nil⟩, rfl, by simp [set_ui], by simp [set_ui], by simp [set_ui]⟩
  · by_cases h : y.size = 0
    · simp [h, set_ui, toQ]
    · simp [h, set_ui, toQ, val]

example : reldiff 2 ⟨2, 0, 0, []⟩ ⟨2, -1, 4, [9]⟩ = .ok ⟨2, 1, 1, [1]⟩ := by decide

/-- x ≠ 0: mpf_reldiff returns normally with a well-formed result; it is exactly 0 when x = y, and otherwise within
    (ε_p + ε_d + ε_p·ε_d)·| |x−y|/x | of |x−y|/x, where ε_p = 2^(2−p) for the destination and ε_d = 2^(2−p_d) for the
    temporary of prec + |x| limbs (so ε_d ≤ 2^-64·ε_p).  In particular the result has the sign of x. -/
theorem reldiff_spec (prec : ℕ) (hp : 2 ≤ prec) (x y : F) (hx : OpWF x) (hy : OpWF y) (hx0 : x.size ≠ 0) :
    ∃ r, reldiff prec x y = .ok r ∧ WF r ∧
      (toQ x = toQ y → toQ r = 0) ∧
      (toQ x ≠ toQ y →
        |toQ r - |toQ x - toQ y| / toQ x| <
          (eps prec + eps (prec + x.d.length) + eps prec * eps (prec + x.d.length)) * (|toQ x - toQ y| / |toQ x|)) :=
  reldiff_core prec hp x y hx hy hx0

-- non-vacuity: |3 − 5| / 3 at two limbs: 0.666… = [0xaaaa…aa, 0xaaaa…aa]·B^0 (truncated); x = y gives 0;
-- |−4 − 5| / −4 = −2.25
example : reldiff 2 ⟨2, 1, 1, [3]⟩ ⟨2, 1, 1, [5]⟩ = .ok ⟨2, 2, 0, [0xaaaaaaaaaaaaaaaa, 0xaaaaaaaaaaaaaaaa]⟩ ∧
    reldiff 2 ⟨2, -1, 1, [3]⟩ ⟨2, -2, 1, [0, 3]⟩ = .ok ⟨2, 0, 0, []⟩ ∧
    reldiff 2 ⟨2, -1, 1, [4]⟩ ⟨2, 1, 1, [5]⟩ = .ok ⟨2, -3, 1, [0, 2 ^ 62, 2]⟩ := by decide +kernel

end Mpir.MpfCmp
