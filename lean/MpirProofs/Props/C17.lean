/-
  C17 — import/export and stream I/O round-trip; faults are reported.
  Property theorems only; helper lemmas live in MpirProofs/Lemmas/Io.lean.
  Every theorem is about the executable models in Mpir/Model/Io.lean, which the correspondence check
  runs against the real library (fopencookie streams with injected faults) on every run.
-/
import MpirProofs.Lemmas.Io
namespace Mpir.Io
open Mpir

/-! ## Raw format -/

/-- `out_raw_format`: for every well-formed `z`, `mpz_out_raw` hands to `fwrite` exactly the documented
    bytes: the 4-byte big-endian two's-complement byte count (negative for `z < 0`) followed by the
    magnitude, big-endian, `byteLen |z|` bytes (hence no leading zero byte); on a healthy stream it
    returns that length. -/
theorem out_raw_format (z : Mpz) (h : z.WF) :
    out_raw_m z = outRawBytes z.toInt ∧
    (mpz_out_raw {} z).1 = 4 + byteLen z.toInt.natAbs ∧ (mpz_out_raw {} z).2.out = outRawBytes z.toInt ∧
    outRawBytes z.toInt =
      hdrBytes (if z.toInt < 0 then -(byteLen z.toInt.natAbs : Int) else byteLen z.toInt.natAbs)
        ++ beBytes (byteLen z.toInt.natAbs) z.toInt.natAbs ∧
    beVal (beBytes (byteLen z.toInt.natAbs) z.toInt.natAbs) = z.toInt.natAbs ∧
    (z.toInt ≠ 0 → (beBytes (byteLen z.toInt.natAbs) z.toInt.natAbs).headD 0 ≠ 0) := by
  have e := out_raw_m_eq z h
  have hl : (outRawBytes z.toInt).length = 4 + byteLen z.toInt.natAbs := by simp [outRawBytes, hdrBytes]
  have hne : outRawBytes z.toInt ≠ [] := by intro h0; rw [h0] at hl; simp at hl; omega
  refine ⟨e, ?_, ?_, rfl, ?_, ?_⟩
  · simp [mpz_out_raw, OStream.write, e, hl, hne]
  · simp [mpz_out_raw, OStream.write, e, hne]
  · rw [beVal_beBytes]; exact Nat.mod_eq_of_lt (lt_pow_byteLen _)
  · intro hne; exact beBytes_head_ne_zero (by omega)

-- non-vacuity: -(2^64 + 5) is written as fffffff7 01 00 00 00 00 00 00 00 05
example : out_raw_m ⟨2, -2, [5, 1]⟩ = [255, 255, 255, 247, 1, 0, 0, 0, 0, 0, 0, 0, 5] := by decide +kernel

/-- `inp_raw_total`: for EVERY byte stream (any 4-byte header, any data, truncated anywhere), every
    well-formed destination and whatever the allocator puts into newly allocated limbs, `mpz_inp_raw`
    leaves a well-formed destination and either returns 0, or returns `4 + |count|` having consumed
    exactly those bytes and stored sign(count)·(big-endian value of the data).
    (False for the code before commit 23eb012 — see the example below.) -/
theorem inp_raw_total (x : Mpz) (hx : x.WF) (s : Stream) (hs : Bytes s.bytes) (junk : Nat → Nat)
    (hj : ∀ i, junk i < B) :
    (mpz_inp_raw x s junk).2.1.WF ∧
    ((mpz_inp_raw x s junk).1 = 0 ∨
     ((mpz_inp_raw x s junk).1 = 4 + (csizeOf (s.avail.take 4)).natAbs ∧
      (mpz_inp_raw x s junk).2.2 = s.avail.drop (4 + (csizeOf (s.avail.take 4)).natAbs) ∧
      (mpz_inp_raw x s junk).2.1.toInt =
        (if csizeOf (s.avail.take 4) ≥ 0 then (beVal ((s.avail.drop 4).take (csizeOf (s.avail.take 4)).natAbs) : Int)
         else -(beVal ((s.avail.drop 4).take (csizeOf (s.avail.take 4)).natAbs) : Int)))) := by
  have ha : Bytes s.avail := by
    unfold Stream.avail; split
    · exact hs
    · exact Bytes_take hs _
  obtain ⟨wf, h⟩ := inp_raw_rd_spec x hx s.avail ha junk hj
  refine ⟨wf, ?_⟩
  unfold mpz_inp_raw
  split at h
  · right; obtain ⟨h1, h2, h3⟩ := h; exact ⟨by rw [h1]; omega, h2, h3⟩
  · left; exact h.1

-- non-vacuity: a negative header with a leading zero byte (GMP 1 style), trailing data left unread
example : mpz_inp_raw ⟨1, 0, [0]⟩ ⟨[255, 255, 255, 253, 0, 1, 2, 9], none⟩ (fun _ => 0)
    = (7, ⟨1, -1, [258]⟩, [9]) := by decide +kernel

/-- Why the fix matters: the code BEFORE commit 23eb012 violates `inp_raw_total` on the corpus input
    (header announces 16 bytes, 3 follow): it returns 0 but leaves `SIZ = 2` over a zero top limb. -/
example : (mpz_inp_raw_unfixed ⟨1, 0, [0]⟩ ⟨[0, 0, 0, 16, 1, 2, 3], none⟩ (fun _ => 0)).1 = 0 ∧
    ¬ (mpz_inp_raw_unfixed ⟨1, 0, [0]⟩ ⟨[0, 0, 0, 16, 1, 2, 3], none⟩ (fun _ => 0)).2.1.WF := by decide +kernel
-- the repaired code on the same input
example : (mpz_inp_raw ⟨1, 0, [0]⟩ ⟨[0, 0, 0, 16, 1, 2, 3], none⟩ (fun _ => 0)).1 = 0 ∧
    (mpz_inp_raw ⟨1, 0, [0]⟩ ⟨[0, 0, 0, 16, 1, 2, 3], none⟩ (fun _ => 0)).2.1.WF := by decide +kernel

/-- `raw_roundtrip`: what `mpz_out_raw` writes for `v` (whose byte count fits the 31-bit header field) is
    read back by `mpz_inp_raw` as `v`, consuming exactly those bytes, whatever follows in the stream. -/
theorem raw_roundtrip (v : Int) (hv : byteLen v.natAbs < 2 ^ 31) (x : Mpz) (hx : x.WF) (rest : List Nat)
    (hr : Bytes rest) (junk : Nat → Nat) (hj : ∀ i, junk i < B) :
    (mpz_inp_raw x ⟨outRawBytes v ++ rest, none⟩ junk).1 = 4 + byteLen v.natAbs ∧
    (mpz_inp_raw x ⟨outRawBytes v ++ rest, none⟩ junk).2.1.toInt = v ∧
    (mpz_inp_raw x ⟨outRawBytes v ++ rest, none⟩ junk).2.1.WF ∧
    (mpz_inp_raw x ⟨outRawBytes v ++ rest, none⟩ junk).2.2 = rest := by
  have hb : Bytes (outRawBytes v ++ rest) := Bytes_append.mpr ⟨outRawBytes_bytes v, hr⟩
  obtain ⟨wf, h⟩ := inp_raw_rd_spec x hx (outRawBytes v ++ rest) hb junk hj
  obtain ⟨e1, e2, e3, e4⟩ := outRaw_parts v hv rest
  unfold mpz_inp_raw Stream.avail
  simp only
  rw [e1] at h
  have hlen : (outRawBytes v ++ rest).length = 4 + byteLen v.natAbs + rest.length := by
    simp [outRawBytes, hdrBytes]; omega
  rw [if_pos ⟨by omega, by rw [e4]; omega⟩] at h
  obtain ⟨h1, h2, h3⟩ := h
  refine ⟨by rw [h1]; omega, ?_, wf, by rw [h2, e3]⟩
  rw [h3, e2]

-- non-vacuity
example : (mpz_inp_raw ⟨1, 0, [0]⟩ ⟨outRawBytes (-18446744073709551621) ++ [7, 7], none⟩ (fun _ => 1)).2.1.toInt
    = -18446744073709551621 := by decide +kernel

/-! ## Export / import -/

/-- `export_count`: for every value, word size ≥ 1, order, endianness, nail count below the word width
    and buffer alignment, `mpz_export` reports `⌈bits(x) / (8·size − nails)⌉` words and writes exactly
    the documented bytes (`exportBytes`: word `i` = bits `[numb·i, numb·(i+1))` of `x`, in `size` bytes of the
    requested endianness, words in the requested order), `count·size` bytes in all. -/
theorem export_count (x : Nat) (order endian : Int) (size nail align : Nat)
    (ho : order = 1 ∨ order = -1) (he : endian = -1 ∨ endian = 0 ∨ endian = 1) (hs : 1 ≤ size)
    (hn : nail < 8 * size) :
    (mpz_export order size endian nail align (natLimbs x)).1 = (bitLen x + (8 * size - nail) - 1) / (8 * size - nail) ∧
    (mpz_export order size endian nail align (natLimbs x)).2 = exportBytes order size endian nail x ∧
    (mpz_export order size endian nail align (natLimbs x)).2.length
      = (mpz_export order size endian nail align (natLimbs x)).1 * size := by
  obtain ⟨h1, h2, h3⟩ := natLimbs_spec x
  have e := mpz_export_spec order endian size nail align (natLimbs x) ho he hs hn h2 h3
  rw [h1] at e
  rw [e]
  exact ⟨rfl, rfl, (exportBytes_shape order endian size nail x).1⟩

-- non-vacuity: 3 nails in 2-byte big-endian words, least significant word first
example : mpz_export (-1) 2 1 3 5 (natLimbs 0x1ffffffffffffffff) = (5, [31, 255, 31, 255, 31, 255, 31, 255, 31, 255]) := by
  decide +kernel

/-- `export_nails_zero`: read back word by word (in the order and endianness given), every word written
    by `mpz_export` has `size` bytes and a value below `2^(8·size − nails)`: the nail bits are zero. -/
theorem export_nails_zero (x : Nat) (order endian : Int) (size nail align : Nat)
    (ho : order = 1 ∨ order = -1) (he : endian = -1 ∨ endian = 0 ∨ endian = 1) (hs : 1 ≤ size)
    (hn : nail < 8 * size) :
    ∀ w ∈ unlayout order (if endian = 0 then -1 else endian) size
        (mpz_export order size endian nail align (natLimbs x)).1
        (mpz_export order size endian nail align (natLimbs x)).2,
      w.length = size ∧ leVal w < 2 ^ (8 * size - nail) := by
  obtain ⟨h1, h2, h3⟩ := natLimbs_spec x
  have e := mpz_export_spec order endian size nail align (natLimbs x) ho he hs hn h2 h3
  rw [h1] at e
  rw [e]
  simp only
  rw [exportBytes_words]
  intro w hw
  rw [List.mem_map] at hw
  obtain ⟨i, _, rfl⟩ := hw
  refine ⟨by simp, ?_⟩
  rw [leVal_leBytes]
  exact lt_of_le_of_lt (Nat.mod_le _ _) (wordOf_lt _ _ _)

example : ∀ w ∈ unlayout 1 (-1) 3 (mpz_export 1 3 0 5 2 (natLimbs 0xffffffffffff)).1
    (mpz_export 1 3 0 5 2 (natLimbs 0xffffffffffff)).2, leVal w < 2 ^ 19 := by decide +kernel

/-- `import_spec`: for ARBITRARY word data (nail bits set or not), `mpz_import` produces the normalised
    limbs of Σ (word i mod 2^(8·size − nails)) · 2^((8·size − nails)·i). -/
theorem import_spec (count : Nat) (order : Int) (size : Nat) (endian : Int) (nail align : Nat)
    (data : List Nat) (ho : order = 1 ∨ order = -1) (he : endian = -1 ∨ endian = 0 ∨ endian = 1)
    (hs : 1 ≤ size) (hn : nail < 8 * size) (hb : Bytes data) (hl : data.length = count * size) :
    val (mpz_import count order size endian nail align data) = importValue order size endian nail count data ∧
    Limbs (mpz_import count order size endian nail align data) ∧
    TopNZ (mpz_import count order size endian nail align data) :=
  mpz_import_spec count order size endian nail align data ho he hs hn hb hl

-- non-vacuity: nail bits set in the input are ignored (words ff ff with 3 nails, big-endian)
example : mpz_import 2 1 2 1 3 1 [255, 255, 255, 255] = [0x3ffffff] := by decide +kernel

/-- `export_import_id`: `mpz_export` followed by `mpz_import` with the same parameters reproduces `x`,
    for every value, size ≥ 1, order ±1, endianness −1/0/+1, nail count below 8·size and any two buffer
    alignments. -/
theorem export_import_id (x : Nat) (order endian : Int) (size nail align align' : Nat)
    (ho : order = 1 ∨ order = -1) (he : endian = -1 ∨ endian = 0 ∨ endian = 1) (hs : 1 ≤ size)
    (hn : nail < 8 * size) :
    val (mpz_import (mpz_export order size endian nail align (natLimbs x)).1 order size endian nail align'
          (mpz_export order size endian nail align (natLimbs x)).2) = x ∧
    mpz_import (mpz_export order size endian nail align (natLimbs x)).1 order size endian nail align'
          (mpz_export order size endian nail align (natLimbs x)).2 = natLimbs x := by
  obtain ⟨h1, h2, h3⟩ := natLimbs_spec x
  have e := mpz_export_spec order endian size nail align (natLimbs x) ho he hs hn h2 h3
  rw [h1] at e
  rw [e]
  simp only
  obtain ⟨s1, s2⟩ := exportBytes_shape order endian size nail x
  obtain ⟨i1, i2, i3⟩ := mpz_import_spec (exportCount (8 * size - nail) x) order size endian nail align'
    (exportBytes order size endian nail x) ho he hs hn s2 s1
  have hv := i1.trans (import_export_value order endian size nail x hn)
  exact ⟨hv, normalized_unique i2 i3 h2 h3 (hv.trans h1.symm)⟩

example : mpz_import 4 1 3 1 5 0 (mpz_export 1 3 1 5 3 (natLimbs 0xdeadbeefcafe1234)).2 = [0xdeadbeefcafe1234] := by
  decide +kernel

/-- the same round trip on the `List UInt8` specs -/
theorem exportSpec_importSpec (x : Nat) (order endian : Int) (size nail : Nat) (hn : nail < 8 * size) :
    importSpec order size endian nail (exportCount (8 * size - nail) x) (exportSpec order size endian nail x) = x := by
  unfold importSpec exportSpec
  rw [ofU8_toU8 (exportBytes_shape order endian size nail x).2]
  exact import_export_value order endian size nail x hn


/-! ## Faults -/

/-- `out_fault_returns_0` (restated for SHORT WRITES).  The stream is unbuffered over an ARBITRARY sink `f`:
    `f pos n` is how many bytes of a write call of `n` bytes at position `pos` get through, so any prefix of any
    write call may be all that is accepted, with or without recovery afterwards (`OStream.write`).  Then
    * `mpz_out_raw` (one `fwrite` of the whole record) returns 0 whenever the sink took less than the whole
      record — exactly the prefix it took has been written — and the record length otherwise;
    * `mpz_out_str`, `mpq_out_str`, `mpf_out_str` (character-by-character `putc` and `fwrite`/`fprintf` pieces)
      return 0 whenever the sink took fewer bytes than the text has (⇔ some write call came back short ⇔ `ferror`),
      and the text length when it took them all; never a partial count. -/
theorem out_fault_returns_0 (f : Nat → Nat → Nat) :
    (∀ z : Mpz,
      (f 0 (out_raw_m z).length < (out_raw_m z).length →
        (mpz_out_raw { sink := f } z).1 = 0 ∧
        (mpz_out_raw { sink := f } z).2.out = (out_raw_m z).take (f 0 (out_raw_m z).length)) ∧
      ((out_raw_m z).length ≤ f 0 (out_raw_m z).length →
        (mpz_out_raw { sink := f } z).1 = (out_raw_m z).length ∧ (mpz_out_raw { sink := f } z).2.out = out_raw_m z)) ∧
    (∀ base x : Int,
      ((mpz_out_str { sink := f } base x).2.out.length < mpzTextLen base x → (mpz_out_str { sink := f } base x).1 = 0) ∧
      ((mpz_out_str { sink := f } base x).2.out.length = mpzTextLen base x →
        (mpz_out_str { sink := f } base x).1 = mpzTextLen base x) ∧
      (mpz_out_str { sink := f } base x).2.out.length ≤ mpzTextLen base x ∧
      ((mpz_out_str { sink := f } base x).2.fired ≠ 0 ↔ (mpz_out_str { sink := f } base x).2.out.length < mpzTextLen base x)) ∧
    (∀ base num den : Int,
      ((mpq_out_str { sink := f } base num den).2.out.length < mpqTextLen base num den →
        (mpq_out_str { sink := f } base num den).1 = 0) ∧
      ((mpq_out_str { sink := f } base num den).2.out.length = mpqTextLen base num den →
        (mpq_out_str { sink := f } base num den).1 = mpqTextLen base num den) ∧
      (mpq_out_str { sink := f } base num den).2.out.length ≤ mpqTextLen base num den ∧
      ((mpq_out_str { sink := f } base num den).2.fired ≠ 0 ↔
        (mpq_out_str { sink := f } base num den).2.out.length < mpqTextLen base num den)) ∧
    (∀ (base : Int) (str : List Nat) (exp : Int),
      ((mpf_out_str { sink := f } base str exp).2.out.length < mpfTextLen base str exp →
        (mpf_out_str { sink := f } base str exp).1 = 0) ∧
      ((mpf_out_str { sink := f } base str exp).2.out.length = mpfTextLen base str exp →
        (mpf_out_str { sink := f } base str exp).1 = mpfTextLen base str exp) ∧
      (mpf_out_str { sink := f } base str exp).2.out.length ≤ mpfTextLen base str exp ∧
      ((mpf_out_str { sink := f } base str exp).2.fired ≠ 0 ↔
        (mpf_out_str { sink := f } base str exp).2.out.length < mpfTextLen base str exp)) := by
  have fin : ∀ {s : OStream} {n : Nat} {r : Nat}, Faulty none s → s.pos = 0 + n →
      (s.err = true → r = 0) → (s.err = false → r = n) →
      (s.out.length < n → r = 0) ∧ (s.out.length = n → r = n) ∧ s.out.length ≤ n ∧ (s.fired ≠ 0 ↔ s.out.length < n) := by
    intro s n r h hp h3 h4
    obtain ⟨g1, g2, g3, g4⟩ := faulty_final h
    rw [hp, Nat.zero_add] at g1 g2 g4
    exact ⟨fun hl => h3 (g1.mpr hl), fun hl => h4 (g2.mpr hl), g4, by rw [← g3]; exact g1⟩
  have fin' : ∀ {s : OStream} {n : Nat} {r : Int}, Faulty none s → s.pos = 0 + n →
      (s.err = true → r = 0) → (s.err = false → r = n) →
      (s.out.length < n → r = 0) ∧ (s.out.length = n → r = n) ∧ s.out.length ≤ n ∧ (s.fired ≠ 0 ↔ s.out.length < n) := by
    intro s n r h hp h3 h4
    obtain ⟨g1, g2, g3, g4⟩ := faulty_final h
    rw [hp, Nat.zero_add] at g1 g2 g4
    exact ⟨fun hl => h3 (g1.mpr hl), fun hl => h4 (g2.mpr hl), g4, by rw [← g3]; exact g1⟩
  refine ⟨fun z => ?_, ?_, ?_, ?_⟩
  · obtain ⟨a, b⟩ := mpz_out_raw_faulty z f
    exact ⟨fun h => ⟨(a h).1, (a h).2.2⟩, fun h => ⟨(b h).1, (b h).2.2⟩⟩
  · intro base x
    obtain ⟨a1, a2, a3, a4⟩ := mpz_out_str_faulty (faulty_init f) base x
    exact fin a1 a2 a3 a4
  · intro base num den
    obtain ⟨a1, a2, a3, a4⟩ := mpq_out_str_faulty (faulty_init f) base num den
    exact fin a1 a2 a3 a4
  · intro base str exp
    obtain ⟨a1, a2, a3, a4⟩ := mpf_out_str_faulty (faulty_init f) base str exp
    exact fin' a1 a2 a3 a4

/-- `out_fault_at_byte`: the harness's sink — the write call containing byte `k` accepts only the bytes in front
    of `k`, every later call nothing — for EVERY position `k`: inside the output the functions return 0 (and for
    `mpz_out_raw` exactly `k` bytes got through), beyond it nothing fails and they return the byte count. -/
theorem out_fault_at_byte (k : Nat) :
    (∀ z : Mpz,
      (k < (out_raw_m z).length →
        (mpz_out_raw { sink := sinkFailAt k } z).1 = 0 ∧ (mpz_out_raw { sink := sinkFailAt k } z).2.fired = 1 ∧
        (mpz_out_raw { sink := sinkFailAt k } z).2.out = (out_raw_m z).take k) ∧
      ((out_raw_m z).length ≤ k →
        (mpz_out_raw { sink := sinkFailAt k } z).1 = (out_raw_m z).length ∧
        (mpz_out_raw { sink := sinkFailAt k } z).2.fired = 0)) ∧
    (∀ base x : Int,
      (k < mpzTextLen base x → (mpz_out_str { sink := sinkFailAt k } base x).1 = 0 ∧
          (mpz_out_str { sink := sinkFailAt k } base x).2.fired ≠ 0) ∧
      (mpzTextLen base x ≤ k → (mpz_out_str { sink := sinkFailAt k } base x).1 = mpzTextLen base x ∧
          (mpz_out_str { sink := sinkFailAt k } base x).2.fired = 0)) ∧
    (∀ base num den : Int,
      (k < mpqTextLen base num den → (mpq_out_str { sink := sinkFailAt k } base num den).1 = 0 ∧
          (mpq_out_str { sink := sinkFailAt k } base num den).2.fired ≠ 0) ∧
      (mpqTextLen base num den ≤ k → (mpq_out_str { sink := sinkFailAt k } base num den).1 = mpqTextLen base num den ∧
          (mpq_out_str { sink := sinkFailAt k } base num den).2.fired = 0)) ∧
    (∀ (base : Int) (str : List Nat) (exp : Int),
      (k < mpfTextLen base str exp → (mpf_out_str { sink := sinkFailAt k } base str exp).1 = 0 ∧
          (mpf_out_str { sink := sinkFailAt k } base str exp).2.fired ≠ 0) ∧
      (mpfTextLen base str exp ≤ k → (mpf_out_str { sink := sinkFailAt k } base str exp).1 = mpfTextLen base str exp ∧
          (mpf_out_str { sink := sinkFailAt k } base str exp).2.fired = 0)) := by
  have fin : ∀ {s : OStream} {n : Nat}, Faulty (some k) s → s.pos = 0 + n →
      (k < n → s.err = true ∧ s.fired ≠ 0) ∧ (n ≤ k → s.err = false ∧ s.fired = 0) := by
    intro s n h hp
    obtain ⟨g1, g2, g3, g4⟩ := faulty_final h
    have he := (h.2.2.2 k rfl).2
    rw [hp, Nat.zero_add] at he
    constructor
    · intro hk; exact ⟨he.mpr hk, g3.mp (he.mpr hk)⟩
    · intro hk
      have hn : ¬ k < n := by omega
      have hef : s.err = false := by
        cases h' : s.err with
        | false => rfl
        | true => exact absurd (he.mp h') hn
      refine ⟨hef, ?_⟩
      by_contra hf
      have := g3.mpr hf; rw [hef] at this; cases this
  refine ⟨fun z => ?_, ?_, ?_, ?_⟩
  · obtain ⟨a, b⟩ := mpz_out_raw_faulty z (sinkFailAt k)
    have hlen : 4 ≤ (out_raw_m z).length := by unfold out_raw_m; simp [hdrBytes]
    constructor
    · intro hk
      have e : sinkFailAt k 0 (out_raw_m z).length = k := by simp [sinkFailAt, hk]
      have := a (by rw [e]; exact hk)
      rw [e] at this; exact this
    · intro hk
      have e : sinkFailAt k 0 (out_raw_m z).length = (out_raw_m z).length := by
        have : ¬ k < (out_raw_m z).length := by omega
        simp [sinkFailAt, this]
      have := b (by rw [e])
      exact ⟨this.1, this.2.1⟩
  · intro base x
    obtain ⟨a1, a2, a3, a4⟩ := mpz_out_str_faulty (faulty_init_at k) base x
    obtain ⟨f1, f2⟩ := fin a1 a2
    exact ⟨fun hk => ⟨a3 (f1 hk).1, (f1 hk).2⟩, fun hk => ⟨a4 (f2 hk).1, (f2 hk).2⟩⟩
  · intro base num den
    obtain ⟨a1, a2, a3, a4⟩ := mpq_out_str_faulty (faulty_init_at k) base num den
    obtain ⟨f1, f2⟩ := fin a1 a2
    exact ⟨fun hk => ⟨a3 (f1 hk).1, (f1 hk).2⟩, fun hk => ⟨a4 (f2 hk).1, (f2 hk).2⟩⟩
  · intro base str exp
    obtain ⟨a1, a2, a3, a4⟩ := mpf_out_str_faulty (faulty_init_at k) base str exp
    obtain ⟨f1, f2⟩ := fin a1 a2
    exact ⟨fun hk => ⟨a3 (f1 hk).1, (f1 hk).2⟩, fun hk => ⟨a4 (f2 hk).1, (f2 hk).2⟩⟩

/-- the byte counts used above are what the functions write and return on a healthy stream -/
theorem out_healthy_counts (base x num den : Int) :
    (mpz_out_str {} base x).1 = mpzTextLen base x ∧ (mpz_out_str {} base x).2.out.length = mpzTextLen base x ∧
    (mpq_out_str {} base num den).1 = mpqTextLen base num den ∧
    (mpq_out_str {} base num den).2.out.length = mpqTextLen base num den := by
  obtain ⟨_, a2, a3⟩ := mpz_out_str_healthy healthy_init base x
  obtain ⟨_, b2, b3⟩ := mpq_out_str_healthy healthy_init base num den
  exact ⟨a3, by simpa using a2, b3, by simpa using b2⟩

-- non-vacuity: "-12345" with the write of byte 3 cut short (the sign and "12" got through), and with no byte failing
example : (mpz_out_str { sink := sinkFailAt 3 } 10 (-12345)).1 = 0 ∧
    (mpz_out_str { sink := sinkFailAt 3 } 10 (-12345)).2.out = [45, 49, 50] ∧
    (mpz_out_str { sink := sinkFailAt 6 } 10 (-12345)).1 = 6 ∧ mpzTextLen 10 (-12345) = 6 := by decide +kernel
-- a sink that cuts one call short and recovers (the digits after the gap get through): still 0, thanks to ferror
example : (mpz_out_str { sink := sinkOnceAt 0 } 10 (-12345)).1 = 0 ∧
    (mpz_out_str { sink := sinkOnceAt 0 } 10 (-12345)).2.out = [49, 50, 51, 52, 53] := by decide +kernel
example : (mpq_out_str { sink := sinkFailAt 2 } 16 255 (-3)).1 = 0 ∧ (mpq_out_str {} 16 255 (-3)).2.out = [102, 102, 47, 45, 51] := by
  decide +kernel
example : (mpf_out_str { sink := sinkFailAt 7 } 10 [45, 49, 50, 51] 3).1 = 0 ∧ (mpf_out_str {} 10 [45, 49, 50, 51] 3).1 = 8 := by
  decide +kernel
-- mpz_out_raw of -(2^64+5) (13 bytes) on a sink that takes 9 of them: 0, not 9
example : (mpz_out_raw { sink := fun _ _ => 9 } ⟨2, -2, [5, 1]⟩).1 = 0 ∧
    (mpz_out_raw { sink := fun _ _ => 9 } ⟨2, -2, [5, 1]⟩).2.out = [255, 255, 255, 247, 1, 0, 0, 0, 0] := by decide +kernel

/-- `in_fault_returns_0`: (a) the byte stream written by `mpz_out_raw` for `v`, cut after ANY `k` bytes
    short of its end, makes `mpz_inp_raw` return 0 with a well-formed destination; (b) a text stream that
    ends before the first digit (only white space, optionally followed by a sign) makes `mpz_inp_str`
    return 0 and leave the destination untouched, in every base.
    (For text a cut INSIDE the digits is indistinguishable from a shorter number: `mpz_inp_str` then
    returns the value of the digits read — see `str_stream_roundtrip_partial`; the correspondence run
    compares the model with the library at every cut position.) -/
theorem in_fault_returns_0 :
    (∀ (v : Int), byteLen v.natAbs < 2 ^ 31 → ∀ (k : Nat), k < (outRawBytes v).length →
      ∀ (x : Mpz), x.WF → ∀ (junk : Nat → Nat), (∀ i, junk i < B) →
        (mpz_inp_raw x ⟨outRawBytes v, some k⟩ junk).1 = 0 ∧ (mpz_inp_raw x ⟨outRawBytes v, some k⟩ junk).2.1.WF) ∧
    (∀ (x : Int) (ws : List Nat) (base : Int), (∀ c ∈ ws, isspace c = true) →
        ((mpz_inp_str_rd x ws base).1 = 0 ∧ (mpz_inp_str_rd x ws base).2.1 = x) ∧
        ((mpz_inp_str_rd x (ws ++ [45]) base).1 = 0 ∧ (mpz_inp_str_rd x (ws ++ [45]) base).2.1 = x)) :=
  ⟨fun v hv k hk x hx junk hj => inp_raw_truncated v hv k hk x hx junk hj,
   fun x ws base h => ⟨mpz_inp_str_eof x ws base h, mpz_inp_str_eof_sign x ws base h⟩⟩

-- non-vacuity: every cut of the raw stream of -(2^64+5), and " \t-" as a text stream
example : ∀ k < 13, (mpz_inp_raw ⟨1, 0, [0]⟩ ⟨outRawBytes (-18446744073709551621), some k⟩ (fun _ => 7)).1 = 0 := by
  decide +kernel
example : (mpz_inp_str_rd 7 [32, 9, 45] 10).1 = 0 ∧ (mpz_inp_str_rd 7 [32, 9, 49, 50] 10) = (4, 12, []) := by decide +kernel

/-- `fprintf_fault_returns_m1` (restated for SHORT WRITES): the `gmp_fprintf` path for `"<pre>%<width>Z{d,x}<post>"`
    through the repaired `__gmp_fprintf_funs` (commit 3cf1b4a), on an unbuffered stream over an ARBITRARY sink `f`
    (any prefix of any write call may be all that gets through): it returns −1 exactly when some write call — of
    the literal text, a piece of the padding (written in pieces of 256), the sign or the digits — came back short,
    and otherwise the whole text has been taken and its length is returned; never a partial count. -/
theorem fprintf_fault_returns_m1 (f : Nat → Nat → Nat) (pre : List Nat) (width base : Nat) (hb : 2 ≤ base) (x : Int)
    (post : List Nat) :
    ((gmpFprintfModel true { sink := f } pre width base x post).1 = -1 ↔
      (gmpFprintfModel true { sink := f } pre width base x post).2.fired ≠ 0) ∧
    ((gmpFprintfModel true { sink := f } pre width base x post).1 ≠ -1 →
      (gmpFprintfModel true { sink := f } pre width base x post).1 = ((fprintfText pre width base x post).length : Int) ∧
      (gmpFprintfModel true { sink := f } pre width base x post).2.out.length = (fprintfText pre width base x post).length) := by
  obtain ⟨h, o⟩ := gmp_fprintf_stages (ko := none) { sink := f } (faulty_init f) rfl pre width base hb x post
  obtain ⟨g1, g2, g3, g4⟩ := faulty_final h
  rcases o with ⟨o, e⟩ | ⟨o, e, p⟩
  · exact ⟨⟨fun _ => g3.mp e, fun _ => o⟩, fun hn => absurd o hn⟩
  · have hne : (gmpFprintfModel true { sink := f } pre width base x post).1 ≠ -1 := by rw [o]; omega
    refine ⟨⟨fun hh => absurd hh hne, fun hh => ?_⟩, fun _ => ⟨o, ?_⟩⟩
    · have := g3.mpr hh; rw [e] at this; cases this
    · rw [g2.mp e, p]; simp

/-- the same for the harness's sink failing at byte `k`, for EVERY position `k` of the output: −1 -/
theorem fprintf_fault_at_byte (k : Nat) (pre : List Nat) (width base : Nat) (hb : 2 ≤ base) (x : Int)
    (post : List Nat) (hk : k < (fprintfText pre width base x post).length) :
    (gmpFprintfModel true { sink := sinkFailAt k } pre width base x post).1 = -1 ∧
    (gmpFprintfSpec (some k) pre width base x post).1 = -1 :=
  ⟨gmp_fprintf_fault k pre width base hb x post hk, by simp [gmpFprintfSpec, hk]⟩

-- non-vacuity: "ab%Zdc" with x = 12345, write of byte 3 (inside the digits) cut short
example : (gmpFprintfModel true { sink := sinkFailAt 3 } [97, 98] 0 10 12345 [99]).1 = -1 ∧
    (gmpFprintfModel true { sink := sinkFailAt 3 } [97, 98] 0 10 12345 [99]).2.out = [97, 98, 49] ∧
    (gmpFprintfModel true {} [97, 98] 0 10 12345 [99]).1 = 8 := by decide +kernel
/-- Why that fix matters: the code BEFORE commit 3cf1b4a (`gmp_fprintf_memory` returned `fwrite`'s short
    count, `gmp_fprintf_reps` compared it with −1) returns the partial count 2 + 1 + 1 = 4 (the bytes of "ab", one
    digit, and "c", which a recovering sink lets through), not −1, on the same input, and 10 when the failure hits
    the padding of `"%10Zd"` (5 when the sink stays dead afterwards). -/
example : (gmpFprintfModel false { sink := sinkOnceAt 3 } [97, 98] 0 10 12345 [99]).1 = 4 ∧
    (gmpFprintfModel false { sink := sinkOnceAt 0 } [] 10 10 12345 []).1 = 10 ∧
    (gmpFprintfModel false { sink := sinkFailAt 0 } [] 10 10 12345 []).1 = 5 := by decide +kernel


/-! ## Text streams -/

/-- `str_stream_roundtrip_partial`: for every documented base except 0 (2..62, and −36..−2 read back with
    |base|) and whatever follows in the stream (`rest` empty or starting with a character that is not a
    digit of the base, resp. with white space for mpf):
    (z) `mpz_inp_str` reads back exactly what `mpz_out_str` wrote for every integer `x`: same value, same
        byte count, stream left at `rest`;
    (q) `mpq_inp_str` reads back exactly the raw fields `num`, `den` that `mpq_out_str` wrote (any integers:
        neither side canonicalises), same byte count, provided `rest` does not start with '/';
    (f) `mpf_inp_str` hands to `mpf_set_str` exactly the text `mpf_out_str` wrote (sign, "0.", the digits
        returned by `mpf_get_str`, 'e' or '@' chosen on |base|, decimal exponent) and counts the same bytes.
    PARTIAL: base 0 (output in base 10, input with prefix detection) is not covered, and for mpf only the
    stream level is: digit generation and parsing (`mpf_get_str`, `mpf_set_str`) are not modelled
    (C06/C13), so equality of the mpf VALUE is checked by the round-trip ops of the correspondence run only. -/
theorem str_stream_roundtrip_partial (base : Int) (hb : (2 ≤ base ∧ base ≤ 62) ∨ (-36 ≤ base ∧ base ≤ -2))
    (rest : List Nat)
    (hrest : ∀ c, rest.head? = some c → digitValue (decide ((base.natAbs : Int) > 36)) c ≥ base.natAbs) :
    (∀ x dest : Int,
      mpz_inp_str_rd dest ((mpz_out_str {} base x).2.out ++ rest) (base.natAbs : Int)
        = ((mpz_out_str {} base x).1, x, rest)) ∧
    (rest.head? ≠ some 47 → ∀ (num den : Int) (q : Int × Int),
      mpq_inp_str_rd q ((mpq_out_str {} base num den).2.out ++ rest) (base.natAbs : Int)
        = ((mpq_out_str {} base num den).1, (num, den), rest)) ∧
    (∀ (str : List Nat) (exp : Int) (ws : List Nat), (∀ e ∈ str, isspace e = false) →
      (∀ c, ws.head? = some c → isspace c = true) →
      mpf_inp_str_scan ((mpf_out_str {} base str exp).2.out ++ ws)
        = ((mpf_out_str {} base str exp).2.out, ((mpf_out_str {} base str exp).1).toNat, ws)) := by
  refine ⟨?_, ?_, ?_⟩
  · intro x dest
    obtain ⟨e1, e2⟩ := mpz_out_str_text base x
    rw [e1, e2]
    exact mpz_text_roundtrip base hb x dest rest hrest
  · intro hs num den q
    obtain ⟨e1, e2⟩ := mpq_out_str_text base num den
    rw [e1, e2]
    exact mpq_text_roundtrip base hb num den q rest hrest hs
  · intro str exp ws hstr hws
    obtain ⟨e1, e2⟩ := mpf_out_str_text base str exp
    rw [e1, e2]
    simpa using mpf_text_scan base str exp hstr ws hws

-- non-vacuity: base 62 and base -16, followed by a newline / a slash
example : mpz_inp_str_rd 0 ((mpz_out_str {} 62 (-123456789)).2.out ++ [10]) 62 = (6, -123456789, [10]) := by decide +kernel
example : (mpz_out_str {} (-16) 48879).2.out = [66, 69, 69, 70] ∧
    mpz_inp_str_rd 0 ([66, 69, 69, 70] ++ [47, 49]) 16 = (4, 48879, [47, 49]) := by decide +kernel
-- "-22/7" followed by a blank; "-0.1235e3" followed by a newline
example : mpq_inp_str_rd (0, 1) ((mpq_out_str {} 10 (-22) 7).2.out ++ [32]) 10 = (5, (-22, 7), [32]) := by decide +kernel
example : mpf_inp_str_scan ((mpf_out_str {} 10 [45, 49, 50, 51, 53] 3).2.out ++ [10])
    = ([45, 48, 46, 49, 50, 51, 53, 101, 51], 9, [10]) := by decide +kernel


end Mpir.Io
