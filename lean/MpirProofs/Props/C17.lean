/-
  C17 — import/export and stream I/O round-trip; faults are reported.
  Property theorems only; helper lemmas live in MpirProofs/Lemmas/Io.lean.
-/
import MpirProofs.Lemmas.Io
namespace Mpir.Io
end Mpir.Io
