/-
  C08, limb level — property theorems only; helper lemmas in MpirProofs/Lemmas/PowmLimb.lean.
  Models: Mpir/Model/PowmLimb.lean (mpn_redc_n on limb lists with its scratch area, mpn_powm on memory),
  run against the rebuilt library by the ops of Mpir/Ops/PowmLimb.lean.
-/
import MpirProofs.Lemmas.PowmLimb
import Mpir.Model.Hgcd
namespace Mpir.PowmL
open Mpir Mpir.Powm

/-- **mpn_redc_n** (mpn/generic/redc_n.c:71-78), limb level, for EVERY representative the call of
    mpn_mulmod_bnm1 may leave in `yp[0..rn)`.

    Inputs: `up` (2n limbs, any value `U < B^(2n)`), `mp` (n limbs), `ip` with `ip·m ≡ +1 (mod B^n)` — the
    sign convention of redc_n.c: the inverse as mpn_binvert returns it, not negated (this forces `m` odd);
    `x = U_lo·ip mod B^n` is what mpn_mullow_n leaves at `xp`; `yres` (rn limbs) is any residue of `x·m`
    modulo `B^rn − 1`, 0 when the product is 0 (mulmod_2expm1.c:34 "only 0 has two representations").
    `n ≤ rn` is mpn_mulmod_bnm1's ASSERT (an <= rn), `rn < 2n` is redc_n.c's ASSERT_ALWAYS.

    Then:
    * the wrap-around recovery is exact and its borrow (MPN_DECR_U) stops inside `yp[0..2n)` (`ok`);
    * the result is the n limbs of the value-level `redc_n`: `R < B^n`, `R·B^n ≡ U (mod m)`;
    * range: `R < m` whenever `U < m·B^n` (in particular for `U < B^n`, the conversion out of Montgomery
      form); for larger `U` only `R < B^n` — mpn_powm relies on `< B^n` between multiplications and on
      `≤ m` at the very end (then `mpn_cmp`/`mpn_sub_n`). -/
theorem redc_n_limb_spec (rn : Nat) (up mp ip yres : List Nat)
    (hup : Limbs up) (hmp : Limbs mp) (hyr : Limbs yres)
    (hlen : up.length = 2 * mp.length) (hyl : yres.length = rn) (hn : 1 ≤ mp.length)
    (hrn1 : mp.length ≤ rn) (hrn2 : rn < 2 * mp.length)
    (hinv : (val ip * val mp) % B ^ mp.length = 1)
    (hrep : val yres % (B ^ rn - 1) = ((val up % B ^ mp.length * val ip) % B ^ mp.length * val mp) % (B ^ rn - 1))
    (hzero : (val up % B ^ mp.length * val ip) % B ^ mp.length * val mp = 0 → val yres = 0) :
    (redcNCore rn up mp yres).2 = true ∧
    (redcNCore rn up mp yres).1 = toLimbs mp.length (redc_n (val up) (val mp) mp.length (val ip)) ∧
    redc_n (val up) (val mp) mp.length (val ip) < B ^ mp.length ∧
    (redc_n (val up) (val mp) mp.length (val ip) * B ^ mp.length ≡ val up [MOD val mp]) ∧
    (val up < val mp * B ^ mp.length → redc_n (val up) (val mp) mp.length (val ip) < val mp) := by
  have hBnpos : 0 < B ^ mp.length := Nat.pow_pos B_pos
  have hBn1 : 1 < B ^ mp.length := by
    have h1 : B ^ 1 ≤ B ^ mp.length := Nat.pow_le_pow_right B_pos hn
    rw [pow_one] at h1
    have hB : 1 < B := by simp [B_eq]
    omega
  have hult : val up < B ^ mp.length * B ^ mp.length := by
    have := val_lt up hup
    rwa [hlen, two_mul, pow_add] at this
  have hmlt := val_lt mp hmp
  have hmpos : 0 < val mp := by
    rcases Nat.eq_zero_or_pos (val mp) with h | h
    · rw [h, Nat.mul_zero, Nat.zero_mod] at hinv; omega
    · exact h
  set x := (val up % B ^ mp.length * val ip) % B ^ mp.length with hxd
  have hxlt : x < B ^ mp.length := Nat.mod_lt _ hBnpos
  have hlow : (x * val mp) % B ^ mp.length = val up % B ^ mp.length := by
    have h1 : x * val mp ≡ val up % B ^ mp.length * val ip * val mp [MOD B ^ mp.length] :=
      (Nat.mod_modEq _ _).mul_right _
    have h2 : val up % B ^ mp.length * val ip * val mp = val up % B ^ mp.length * (val ip * val mp) := by ring
    have h3 : val up % B ^ mp.length * (val ip * val mp) ≡ val up % B ^ mp.length * 1 [MOD B ^ mp.length] := by
      apply Nat.ModEq.mul_left
      unfold Nat.ModEq
      rw [hinv, Nat.mod_eq_of_lt hBn1]
    have h4 := h1.trans (h2 ▸ h3)
    unfold Nat.ModEq at h4
    rw [h4, Nat.mul_one, Nat.mod_mod]
  obtain ⟨c1, c2⟩ := redcNCore_spec rn up mp yres x hup hmp hyr hlen hyl hn hrn1 hrn2 hxlt hlow hrep hzero
  obtain ⟨s1, s2, _⟩ := redc_n_spec (val up) (val mp) mp.length (val ip) hmpos hmlt hult
    (by rw [hinv, Nat.mod_eq_of_lt hBn1])
  have huh : val up / B ^ mp.length % B ^ mp.length = val up / B ^ mp.length :=
    Nat.mod_eq_of_lt (Nat.div_lt_of_lt_mul hult)
  have hdef : redc_n (val up) (val mp) mp.length (val ip) =
      (if val up / B ^ mp.length < x * val mp / B ^ mp.length
       then (val up / B ^ mp.length + B ^ mp.length - x * val mp / B ^ mp.length + val mp) % B ^ mp.length
       else val up / B ^ mp.length - x * val mp / B ^ mp.length) := by
    unfold redc_n
    simp only [← hxd, huh]
  refine ⟨c1, by rw [c2, hdef], s1, s2, ?_⟩
  intro hU
  rw [hdef]
  have huhm : val up / B ^ mp.length < val mp := Nat.div_lt_of_lt_mul (by rwa [Nat.mul_comm] at hU)
  have hyh : x * val mp / B ^ mp.length < val mp :=
    Nat.div_lt_of_lt_mul (Nat.mul_lt_mul_of_pos_right hxlt hmpos)
  generalize val up / B ^ mp.length = uh at *
  generalize x * val mp / B ^ mp.length = yh at *
  by_cases hlt : uh < yh
  · simp only [hlt, if_true]
    have : uh + B ^ mp.length - yh + val mp = (uh + val mp - yh) + B ^ mp.length := by omega
    rw [this, Nat.add_mod_right, Nat.mod_eq_of_lt (by omega)]
    omega
  · simp only [hlt, if_false]
    omega

-- non-vacuity, the borrow of the recovery ripples: n = 2, rn = 3 (k = 1), m = 3·2^96 − 1, x = 3·2^96 + 1, so
-- x·m = 9·B³ − 1 = [B−1, B−1, B−1, 8]: limbs k..rn of the product are all ones and the wrapped part 8 added
-- to the low limb B−1 carries, the residue mod B³ − 1 is [8, 0, 0]; the subtraction gives 9 with a borrow,
-- MPN_DECR_U turns the two zero limbs into ones and the 9 into 8.  U = [B−1, B−1, 7, 9].
example : mulmodBnm1 3 [1, 3 * 2 ^ 32] [B - 1, 3 * 2 ^ 32 - 1] = [8, 0, 0] ∧
    redcN 3 [B - 1, B - 1, 7, 9] [B - 1, 3 * 2 ^ 32 - 1] [B - 1, 18446744060824649727] = ([8, 0], true) ∧
    (val [B - 1, 18446744060824649727] * val [B - 1, 3 * 2 ^ 32 - 1]) % B ^ 2 = 1 := by decide +kernel
-- both representatives of the class of 0 (x·m = 5·(B² − 1) ≠ 0, rn = n = 2) give the same limbs
example : redcNCore 2 [B - 5, B - 1, 7, 0] [B - 1, B - 1] [0, 0] = ([3, 0], true) ∧
    redcNCore 2 [B - 5, B - 1, 7, 0] [B - 1, B - 1] [B - 1, B - 1] = ([3, 0], true) := by decide +kernel
-- the largest input U = (m−1)·B^n + (B^n − 1) and U = 0, m = B² − 1 (ip = m)
example : redcN 2 [B - 1, B - 1, B - 3, B - 1] [B - 1, B - 1] [B - 1, B - 1] = ([B - 3, B - 1], true) ∧
    redcN 2 [0, 0, 0, 0] [B - 1, B - 1] [B - 1, B - 1] = ([0, 0], true) := by decide +kernel

/-- The executable mpn_redc_n (least representative for mulmod_bnm1) — what the driver runs against the
    library: ok, and exactly the limbs of `U·B^(−n) mod m` in the range above. -/
theorem redc_n_exec_spec (rn : Nat) (up mp ip : List Nat) (hup : Limbs up) (hmp : Limbs mp)
    (hlen : up.length = 2 * mp.length) (hn : 1 ≤ mp.length)
    (hrn1 : mp.length ≤ rn) (hrn2 : rn < 2 * mp.length)
    (hinv : (val ip * val mp) % B ^ mp.length = 1) :
    (redcN rn up mp ip).2 = true ∧
    (redcN rn up mp ip).1 = toLimbs mp.length (redc_n (val up) (val mp) mp.length (val ip)) :=
  redcN_eq rn up mp ip hup hmp hlen hn hrn1 hrn2 hinv

example : redcN 9 (toLimbs 18 (3 ^ 700)) (toLimbs 9 (5 ^ 200)) (toLimbs 9 (binvert (5 ^ 200) 9)) =
    (toLimbs 9 (redc_n (3 ^ 700) (5 ^ 200 % B ^ 9) 9 (binvert (5 ^ 200) 9)), true) := by decide +kernel

/-- **mpn_powm** (mpn/generic/powm.c) on memory: `rp` (n limbs), the caller's scratch `tp` (`itch` limbs),
    the table `pp` (`n << (windowsize−1)` limbs), every store and load bounds-checked into `ok`.
    Preconditions are the C's: `{ep,en}` in normal form (`ep[en-1] ≠ 0`, MPN_SIZEINBASE_2EXP), `n ≥ 1`, `m` odd
    (ASSERTs at powm.c:172-173; the theorem does not need `e > 1`), scratch of at least
    `MAX (mpn_binvert_itch (n), 2n)` limbs (powm.c:157; `binvItch` is only charged when the redc_n branch
    runs mpn_binvert), and for that branch `n ≤ rn < 2n` for `rn = mpn_mulmod_bnm1_next_size (n)`
    (mulmod_bnm1's ASSERT and redc_n's ASSERT_ALWAYS; `rn = n` for `n ≤ 2·FFT_MULMOD_2EXPP1_CUTOFF`).
    For every base (any `bn`), exponent, odd modulus and REDC threshold:
    * `ok`: redcify's result, `b^2`, the `2^(w−1)` table entries and every `pp + n·(expbits >> 1)` lie inside
      `pp`; every product / REDC input / the final `MPN_COPY`+`MPN_ZERO` lies inside `tp[0..2n)`; every
      redc_n call recovers its product without leaving `yp[0..2n)`;
    * `rp[0..n)` = `b^e mod m`, canonical (in `[0, m)`) as an n-limb number.
    Uses `window_exp_correct`'s engine (`windowExp_rel`) with the memory state as the monoid carrier, and
    `redc_1_identity` / `redc_n_limb_spec` for the two reductions. -/
theorem mpn_powm_correct (thr : Nat) (nextSize binvItch : Nat → Nat) (itch : Nat) (bp ep mp : List Nat)
    (hep : Norm ep) (hne : ep ≠ []) (hmp : Limbs mp) (hn : 1 ≤ mp.length) (hodd : val mp % 2 = 1)
    (hns : thr ≤ mp.length → mp.length ≤ nextSize mp.length ∧ nextSize mp.length < 2 * mp.length)
    (hitch : 2 * mp.length ≤ itch) (hbinv : thr ≤ mp.length → binvItch mp.length ≤ itch) :
    (mpnPowmMem thr nextSize binvItch itch bp ep mp).2 = true ∧
    (mpnPowmMem thr nextSize binvItch itch bp ep mp).1 = toLimbs mp.length (val bp ^ val ep % val mp) ∧
    val (mpnPowmMem thr nextSize binvItch itch bp ep mp).1 = val bp ^ val ep % val mp ∧
    val (mpnPowmMem thr nextSize binvItch itch bp ep mp).1 < val mp := by
  obtain ⟨h1, h2⟩ := mpnPowmMem_correct thr nextSize binvItch itch bp ep mp hep hne hmp hn hodd hns hitch hbinv
  have hmpos : 0 < val mp := by omega
  have hlt : val bp ^ val ep % val mp < B ^ mp.length := lt_trans (Nat.mod_lt _ hmpos) (val_lt mp hmp)
  refine ⟨h1, h2, ?_, ?_⟩
  · rw [h2, val_toLimbs_lt _ _ hlt]
  · rw [h2, val_toLimbs_lt _ _ hlt]; exact Nat.mod_lt _ hmpos

/-- The scratch mpz_powm hands to mpn_powm for an odd modulus (mpz/powm.c:184-192:
    `itch = n + MAX (mpn_binvert_itch (nodd), 2n)`, `rp = tp; tp += n`, `nodd = n`) is enough. -/
theorem mpz_powm_scratch_ok (thr : Nat) (nextSize binvItch : Nat → Nat) (bp ep mp : List Nat)
    (hep : Norm ep) (hne : ep ≠ []) (hmp : Limbs mp) (hn : 1 ≤ mp.length) (hodd : val mp % 2 = 1)
    (hns : thr ≤ mp.length → mp.length ≤ nextSize mp.length ∧ nextSize mp.length < 2 * mp.length) :
    (mpnPowmMem thr nextSize binvItch (max (binvItch mp.length) (2 * mp.length)) bp ep mp).2 = true :=
  (mpnPowmMem_correct thr nextSize binvItch _ bp ep mp hep hne hmp hn hodd hns (le_max_right _ _)
    (fun _ => le_max_left _ _)).1

-- non-vacuity: both reductions (thr = 100: redc_1; thr = 1: redc_n with rn = n), and the flag is not
-- constant: one limb less than 2n, or less than mpn_binvert_itch, clears it
example : mpnPowmMem 100 id (fun n => 6 * n + 220) 4 [3, 4, 5] [77] [7, 9] =
    (toLimbs 2 (val [3, 4, 5] ^ 77 % val [7, 9]), true) := by decide +kernel
example : (mpnPowmMem 100 id (fun n => 6 * n + 220) 3 [3, 4, 5] [77] [7, 9]).2 = false := by decide +kernel
example : mpnPowmMem 1 id (fun n => 6 * n + 220) 232 [3, 4, 5] [77] [7, 9] =
    (toLimbs 2 (val [3, 4, 5] ^ 77 % val [7, 9]), true) := by decide +kernel
example : (mpnPowmMem 1 id (fun n => 6 * n + 220) 231 [3, 4, 5] [77] [7, 9]).2 = false := by decide +kernel

/-- `mpn_powm_correct` with `mpn_mulmod_bnm1_next_size` as defined in gmp-impl.h:3876 (model
    `Hgcd.bnm1NextSize` over the generated constants): for moduli of at most `2·FFT_MULMOD_2EXPP1_CUTOFF`
    limbs (256 limbs = 16384 bits in the pinned build) `rn = n`, the hypothesis on the next size is discharged
    and the statement is unconditional. -/
theorem mpn_powm_correct_upto_cutoff (cutoff numN : Nat) (tab : List Nat) (thr : Nat) (binvItch : Nat → Nat)
    (itch : Nat) (bp ep mp : List Nat)
    (hep : Norm ep) (hne : ep ≠ []) (hmp : Limbs mp) (hn : 1 ≤ mp.length) (hodd : val mp % 2 = 1)
    (hsmall : mp.length ≤ 2 * cutoff)
    (hitch : 2 * mp.length ≤ itch) (hbinv : thr ≤ mp.length → binvItch mp.length ≤ itch) :
    (mpnPowmMem thr (Mpir.Hgcd.bnm1NextSize cutoff numN tab) binvItch itch bp ep mp).2 = true ∧
    (mpnPowmMem thr (Mpir.Hgcd.bnm1NextSize cutoff numN tab) binvItch itch bp ep mp).1
      = toLimbs mp.length (val bp ^ val ep % val mp) := by
  have hns : thr ≤ mp.length → mp.length ≤ Mpir.Hgcd.bnm1NextSize cutoff numN tab mp.length ∧
      Mpir.Hgcd.bnm1NextSize cutoff numN tab mp.length < 2 * mp.length := by
    intro _
    unfold Mpir.Hgcd.bnm1NextSize
    rw [if_pos hsmall]
    omega
  obtain ⟨h1, h2, _, _⟩ := mpn_powm_correct thr _ binvItch itch bp ep mp hep hne hmp hn hodd hns hitch hbinv
  exact ⟨h1, h2⟩

-- non-vacuity: the constants of the pinned build (FFT_MULMOD_2EXPP1_CUTOFF = 128), redc_n branch forced by thr = 1
example : (mpnPowmMem 1 (Mpir.Hgcd.bnm1NextSize 128 19 [4, 3, 3, 4, 3, 3, 3, 3, 3, 2, 2, 2, 2, 2, 2, 2, 2, 1, 1])
    (fun n => 6 * n + 220) 232 [5] [1000] [7, 9]) = (toLimbs 2 (5 ^ 1000 % val [7, 9]), true) := by decide +kernel

/-- **mpn_powlo** (mpn/generic/powlo.c) on memory: `rp` (n limbs), the caller's scratch `tp`, the table `pp`
    of `(n << (windowsize−1)) + n` limbs.  MPIR's mpn_mullow_n sets 2n limbs at its destination
    (mullow_n.c:25), so every table entry is written together with the n limbs after it — the model stores
    both halves and checks both ranges.  Preconditions are the C's: `bp` has at least n limbs, `n ≥ 1`,
    `{ep,en} > 1` in normal form (ASSERT at powlo.c:103), scratch of `3n` limbs (powlo.c:84).  Then every
    access stays inside `tp` (squares and low products in `tp[0..2n)`, `b^2` kept at `tp[2n..3n)` and never
    overwritten) and inside `pp` (the high half of the last mullow lands exactly in the n spare limbs), and
    `rp[0..n)` = `bp[0..n)^e mod B^n`. -/
theorem mpn_powlo_correct (itch : Nat) (bp ep : List Nat) (n : Nat) (hbp : Limbs bp) (hbl : n ≤ bp.length)
    (hn : 1 ≤ n) (hep : Norm ep) (hne : ep ≠ []) (h2 : 2 ≤ val ep) (hitch : 3 * n ≤ itch) :
    (mpnPowloMem itch bp ep n).2 = true ∧
    (mpnPowloMem itch bp ep n).1 = toLimbs n (val (bp.take n) ^ val ep % B ^ n) :=
  mpnPowloMem_correct itch bp ep n hbp hbl hn hep hne h2 hitch

-- non-vacuity: 3n limbs are enough, 3n − 1 are not (the copy of b^2 to tp[2n..3n) leaves the area)
example : mpnPowloMem 6 [3, 4, 5] [77] 2 = (toLimbs 2 (val [3, 4] ^ 77 % B ^ 2), true) ∧
    (mpnPowloMem 5 [3, 4, 5] [77] 2).2 = false := by decide +kernel

end Mpir.PowmL
