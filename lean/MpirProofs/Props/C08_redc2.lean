/-
  C08: mpn_redc_2 (mpn/generic/redc_2.c) — property theorems only; lemmas in MpirProofs/Lemmas/Redc2.lean.
  Model `Powm.redc_2` (Mpir/Model/Powm.lean: the optional mpn_addmul_1 round for odd n, the two-limb rounds with
  umul2low, mpn_addmul_2 as two mpn_addmul_1, the parked carries `up[1] = …; up[0] = up[n]; up[n] = upn`, mpn_add_n and
  the conditional mpn_sub_n), compared exactly with the library by the op `mpn_redc_2`.
-/
import MpirProofs.Lemmas.Redc2
namespace Mpir.Powm
open Mpir

/-- **mpn_redc_2**, limb level, as `redc_1_spec`: for every `n ≥ 1`, every `up` of `2n` limbs and every modulus with
    the two-limb inverse `(mip[1]:mip[0])·m ≡ −1 (mod B²)` (so `m` is odd):
    * the result has `n` proper limbs (`< B^n`);
    * `B^n·r + k·B^n·m = T + Q·m` with `Q < B^n`, `k ∈ {0,1}`, hence `r·B^n ≡ T (mod m)`;
    * if `T < B^n` then `r ≤ m` (the conversion out of Montgomery form; `r = m` is possible, as for redc_1). -/
theorem redc_2_spec (up mp : List Nat) (mip0 mip1 : Nat) (hn : 1 ≤ mp.length) (hup : Limbs up) (hmp : Limbs mp)
    (hlen : up.length = 2 * mp.length)
    (hinv2 : ((mip0 + B * mip1) * val mp) % (B * B) = B * B - 1) :
    Limbs (redc_2 up mp mip0 mip1) ∧ (redc_2 up mp mip0 mip1).length = mp.length ∧
    val (redc_2 up mp mip0 mip1) < B ^ mp.length ∧
    (val (redc_2 up mp mip0 mip1) * B ^ mp.length ≡ val up [MOD val mp]) ∧
    (∃ Q k, Q < B ^ mp.length ∧ k ≤ 1 ∧
      B ^ mp.length * val (redc_2 up mp mip0 mip1) + k * (B ^ mp.length * val mp) = val up + Q * val mp) ∧
    (val up < B ^ mp.length → val (redc_2 up mp mip0 mip1) ≤ val mp) := by
  obtain ⟨Q, k, hQ, hk, he, hL, hlen'⟩ := redc_2_identity up mp mip0 mip1 hn hup hmp hlen hinv2
  have hlt := val_lt _ hL
  rw [hlen'] at hlt
  refine ⟨hL, hlen', hlt, ?_, ⟨Q, k, hQ, hk, he⟩, ?_⟩
  · have h1 : val (redc_2 up mp mip0 mip1) * B ^ mp.length + (k * B ^ mp.length) * val mp = val up + Q * val mp := by
      rw [← he]; ring
    have h2 : val (redc_2 up mp mip0 mip1) * B ^ mp.length + (k * B ^ mp.length) * val mp ≡
        val (redc_2 up mp mip0 mip1) * B ^ mp.length [MOD val mp] := by
      unfold Nat.ModEq; rw [Nat.add_mul_mod_self_right]
    have h3 : val up + Q * val mp ≡ val up [MOD val mp] := by
      unfold Nat.ModEq; rw [Nat.add_mul_mod_self_right]
    rw [h1] at h2
    exact h2.symm.trans h3
  · intro hT
    set N := B ^ mp.length with hN
    have hNpos : 0 < N := Nat.pow_pos B_pos
    have h1 : N * (val (redc_2 up mp mip0 mip1) + k * val mp) < N * (1 + val mp) := by
      have e : N * (val (redc_2 up mp mip0 mip1) + k * val mp) = val up + Q * val mp := by rw [← he]; ring
      have : Q * val mp ≤ N * val mp := Nat.mul_le_mul_right _ (le_of_lt hQ)
      rw [e, Nat.mul_add, Nat.mul_one]; omega
    have := Nat.lt_of_mul_lt_mul_left h1
    have hk0 : 0 ≤ k * val mp := Nat.zero_le _
    omega

-- non-vacuity: n = 2 (one two-limb round), m = B² − 1 (mip = 1): T = B⁴ − 1 gives a carry out and the subtraction;
-- n = 3 (odd: one addmul_1 round first), m = [3, 0, 1], mip = −1/m mod B² = [0x5555555555555555, 0x5555555555555555]
example : redc_2 [B - 1, B - 1, B - 1, B - 1] [B - 1, B - 1] 1 0 = [B - 1, B - 1] ∧
    ((1 + B * 0) * val [B - 1, B - 1]) % (B * B) = B * B - 1 := by decide +kernel
example : ((0x5555555555555555 + B * 0x5555555555555555) * val [3, 0, 1]) % (B * B) = B * B - 1 ∧
    (val (redc_2 [7, 8, 9, 1, 2, 3] [3, 0, 1] 0x5555555555555555 0x5555555555555555) * B ^ 3) % val [3, 0, 1] =
      val [7, 8, 9, 1, 2, 3] % val [3, 0, 1] := by decide +kernel

end Mpir.Powm
