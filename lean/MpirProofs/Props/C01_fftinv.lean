/-
  C01 (the matrix Fourier multiplication) — what the value-level models of Mpir/Model/FftMfa.lean and the inverse
  twiddled column transforms of Mpir/Model/FftX.lean compute (statement-by-statement mirrors of
  fft/ifft_mfa_trunc_sqrt2.c, fft_mfa_trunc_sqrt2.c (outer), fft_mfa_trunc_sqrt2_inner.c, mul_mfa_trunc_sqrt2.c,
  mul_fft_main.c; run against the real functions on every check).  Property theorems only; lemmas in
  MpirProofs/Lemmas/FftXInvTw, FftXMfaMul, FftXMfaInv, FftXMfaChain, FftXMfaMulMain.

  Notation as in Props/C01_fftx.lean: a transform of 2n = 2^(d+1) entries with shift w works modulo
  p = 2^(n·w) + 1 = `pOf (2^d*w)`; `el xs i` is `ii[i]`; `rev b k` reverses the low b bits (= mpir_revbin).
  A column transform of the MFA is called with (w, ws, r, c, rs) = (w·n1, w, 0, column, 1): the twiddle exponents
  (r + rs·i)·c·ws stay below 2·n·w, which is the hypothesis `hb` (the C's butterflies need b1, b2 < 2·n·w).

  Theorems:
    ifft_radix2_twiddle_inverts     mpir_ifft_radix2_twiddle ∘ mpir_fft_radix2_twiddle = 2n (every depth, r, c, rs, ws)
    ifft_trunc1_twiddle_recovers    the truncated twiddled inverse recovers the first `trunc` coefficients (2n-fold)
    ifft_mfa_trunc_sqrt2_inverts    mpir_ifft_mfa_trunc_sqrt2 ∘ mpir_fft_mfa_trunc_sqrt2 = 4n on the entries below `trunc`
    ifft_mfa_outer_recovers         the column passes of the inverse MFA, applied to k times the column-transformed
                                    matrices, give k·n2·2/(4n) times the coefficients
    mfa_convolution_chain           outer, inner (row transforms, mpn_mulmod_Bexpp1, inverse row transforms), inverse
                                    outer ≡ the acyclic convolution
    mul_mfa_trunc_sqrt2_val         limbs → split → … → combine = the product, under `FftParams.Sound`, depth ≥ 2
    mul_fft_main_val                BOTH paths of mpn_mul_fft_main return the product, for all operand lengths
-/
import MpirProofs.Lemmas.FftXMfaMulMain
import MpirProofs.Lemmas.FftXMfaFull
import MpirProofs.Props.C01_fftx
namespace Mpir.FftX
open Mpir Finset

private theorem toZ' (nw : Nat) {a b : Int}
    (h : (Int.castRingHom (ZMod (2 ^ nw + 1))) a = (Int.castRingHom (ZMod (2 ^ nw + 1))) b) : a ≡ b [ZMOD pOf nw] :=
  (zmod_eq_iff nw a b).mp h

private theorem hu_of' (nw : Nat) : (Int.castRingHom (ZMod (2 ^ nw + 1))) 2 ^ (2 * nw) = 1 := by
  rw [pow_mul' ((Int.castRingHom (ZMod (2 ^ nw + 1))) 2) 2 nw, zmod_two_pow]; norm_num

/-! ### the inverse twiddled column transforms -/

/-- mpir_ifft_radix2_twiddle applied to values congruent to those of mpir_fft_radix2_twiddle (same w, ws, r, c, rs)
    returns the 2n-fold coefficients: the inverse column transform of the matrix Fourier algorithm undoes the forward
    one, twiddles included, up to the scaling that the callers remove at the end. -/
theorem ifft_radix2_twiddle_inverts (d w ws r c rs : Nat) (hd : 64 ∣ 2 ^ d * w)
    (hb : (r + rs * (2 ^ (d + 1) - 1)) * c * ws ≤ 2 * (2 ^ d * w)) (xs ys : List Int)
    (h : ∀ m < 2 ^ (d + 1), el ys m ≡ el (fft_radix2_twiddle d w ws r c rs xs) m [ZMOD pOf (2 ^ d * w)])
    (j : Nat) (hj : j < 2 ^ (d + 1)) :
    el (ifft_radix2_twiddle d w ws r c rs ys) j ≡ 2 ^ (d + 1) * el xs j [ZMOD pOf (2 ^ d * w)] := by
  apply toZ'
  have := ifft_radix2_twiddle_spec (Int.castRingHom (ZMod (2 ^ (2 ^ d * w) + 1))) d w ws r c rs hd (hu_of' _) hb 1 xs ys
    (fun m hm => by rw [one_mul]; exact (zmod_eq_iff _ _ _).mpr (h m hm)) j hj
  rw [this]; simp

-- non-vacuity: 4 entries modulo 2^64+1, column 3, z = 2^4: the twiddles 2^0, 2^24 (r = 0, rs = 1 at the leaves: rows 0, 2 | 1, 3)
example : (0 + 1 * (2 ^ (1 + 1) - 1)) * 3 * 4 ≤ 2 * (2 ^ 1 * 32) := by decide
example : (ifft_radix2_twiddle 1 32 4 0 3 1 (fft_radix2_twiddle 1 32 4 0 3 1 [1, 2, 3, 4])).map (· % pOf 64) = [4, 8, 12, 16] := by
  decide +kernel
example : (fft_radix2_twiddle 1 32 4 0 3 1 [1, 2, 3, 4]).map (· % pOf 64) ≠ (fft_radix2 1 32 [1, 2, 3, 4]).map (· % pOf 64) := by
  decide +kernel

/-- mpir_ifft_trunc1_twiddle: given the first `trunc` values of the twiddled column transform of x and, in the places
    from `trunc` on, the 2n-fold coefficients themselves, it returns the 2n-fold first `trunc` coefficients (the
    twiddled analogue of `ifft_trunc1_recovers`; the columns of the second half matrix). -/
theorem ifft_trunc1_twiddle_recovers (d w ws r c rs trunc : Nat) (ht : TruncOk d trunc) (hd : 64 ∣ 2 ^ d * w) (hw : 1 ≤ w)
    (hb : (r + rs * (2 ^ (d + 1) - 1)) * c * ws ≤ 2 * (2 ^ d * w)) (xs ys : List Int)
    (h1 : ∀ k < trunc, el ys k ≡ el (fft_radix2_twiddle d w ws r c rs xs) k [ZMOD pOf (2 ^ d * w)])
    (h2 : ∀ j, trunc ≤ j → j < 2 ^ (d + 1) → el ys j ≡ 2 ^ (d + 1) * el xs j [ZMOD pOf (2 ^ d * w)])
    (j : Nat) (hj : j < trunc) :
    el (ifft_trunc1_twiddle d w ws r c rs trunc ys) j ≡ 2 ^ (d + 1) * el xs j [ZMOD pOf (2 ^ d * w)] := by
  apply toZ'
  have := ifft_trunc1_twiddle_spec (Int.castRingHom (ZMod (2 ^ (2 ^ d * w) + 1))) d w ws r c rs trunc ht hd hw (hu_of' _) hb 1
    xs ys (fun k hk => by rw [one_mul]; exact (zmod_eq_iff _ _ _).mpr (h1 k hk))
    (fun j a b => by have := (zmod_eq_iff _ _ _).mpr (h2 j a b); rw [this]; simp) j hj
  rw [this]; simp

-- non-vacuity: 8 entries modulo 2^64+1, trunc = 6: six transform values and the two 8-fold coefficients 8·7, 8·8
example : TruncOk 2 6 := by unfold TruncOk; decide
example : ((ifft_trunc1_twiddle 2 16 2 0 3 1 6
    ((fft_radix2_twiddle 2 16 2 0 3 1 [1, 2, 3, 4, 5, 6, 7, 8]).take 6 ++ [56, 64])).take 6).map (· % pOf 64) =
    [8, 16, 24, 32, 40, 48] := by decide +kernel

/-! ### the inverse matrix Fourier transform -/

/-- mpir_ifft_mfa_trunc_sqrt2 inverts mpir_fft_mfa_trunc_sqrt2: for a coefficient vector xs (4n entries, zero from `trunc`
    on — the precondition of the forward transform) and any array ys that is congruent to the forward transform of xs in
    the places that the forward transform defines — the whole first half matrix and the rows rev s, s < (trunc − 2n)/n1, of
    the second half — the inverse returns the 4n-fold coefficients in every place below `trunc` (whatever the other
    entries of ys hold).  n1 = 2^(e1+1) columns, n2 = 2^(e2+1) rows, n = n1·n2/2, trunc a multiple of 2·n1 in (2n, 4n].
    Row passes (revbin swaps + mpir_ifft_radix2) undo the row transforms, column passes (revbin swaps +
    mpir_ifft_radix2_twiddle / mpir_ifft_trunc1_twiddle, the recomputed entries, the inverse √2 layer) the column ones. -/
theorem ifft_mfa_trunc_sqrt2_inverts (e1 e2 w trunc : Nat) (hd : 64 ∣ 2 ^ (e1 + e2 + 1) * w) (hw : 1 ≤ w)
    (ht : TruncSOk (e1 + e2 + 1) trunc) (hdiv : 2 * 2 ^ (e1 + 1) ∣ trunc)
    (xs : List Int) (hxl : xs.length = 4 * 2 ^ (e1 + e2 + 1)) (hz0 : ∀ j, trunc ≤ j → el xs j = 0)
    (ys : List Int) (hyl : ys.length = 4 * 2 ^ (e1 + e2 + 1))
    (h1 : ∀ j < 2 ^ (e2 + 1), ∀ t < 2 ^ (e1 + 1), el ys (j * 2 ^ (e1 + 1) + t) ≡
      el (fft_mfa_trunc_sqrt2 (e1 + e2 + 1) w (2 ^ (e1 + 1)) trunc xs) (j * 2 ^ (e1 + 1) + t)
      [ZMOD pOf (2 ^ (e1 + e2 + 1) * w)])
    (h2 : ∀ s < (trunc - 2 * 2 ^ (e1 + e2 + 1)) / 2 ^ (e1 + 1), ∀ t < 2 ^ (e1 + 1),
      el ys (2 * 2 ^ (e1 + e2 + 1) + rev (e2 + 1) s * 2 ^ (e1 + 1) + t) ≡
      el (fft_mfa_trunc_sqrt2 (e1 + e2 + 1) w (2 ^ (e1 + 1)) trunc xs)
        (2 * 2 ^ (e1 + e2 + 1) + rev (e2 + 1) s * 2 ^ (e1 + 1) + t) [ZMOD pOf (2 ^ (e1 + e2 + 1) * w)])
    (p : Nat) (hp : p < trunc) :
    el (ifft_mfa_trunc_sqrt2 (e1 + e2 + 1) w (2 ^ (e1 + 1)) trunc ys) p ≡ 2 ^ (e1 + e2 + 1 + 2) * el xs p
      [ZMOD pOf (2 ^ (e1 + e2 + 1) * w)] := by
  have hN : 2 ^ (e1 + 1) * 2 ^ (e2 + 1) = 2 * 2 ^ (e1 + e2 + 1) := by
    rw [← pow_add, ← pow_succ']; congr 1; ring
  apply toZ'
  have := ifft_mfa_inverts (Int.castRingHom (ZMod (2 ^ (2 ^ (e1 + e2 + 1) * w) + 1))) e1 e2 w trunc hd hw (zmod_two_pow _)
    ht hdiv xs hxl hz0 ys hyl (fun j hj t htt => (zmod_eq_iff _ _ _).mpr (h1 j hj t htt))
    (fun s hs t htt => by rw [hN]; exact (zmod_eq_iff _ _ _).mpr (h2 s hs t htt)) p hp
  rw [this]; simp

-- non-vacuity: depth 3 (n = 8, 32 entries modulo 2^64+1, w = 8), n1 = 4, n2 = 4, trunc = 24 (two relevant rows of the second
-- half: rows 0 and 2); every other entry of the second half replaced by garbage
example : TruncSOk 3 24 := by unfold TruncSOk; decide
example : let x : List Int := (List.range 24).map (fun i => ((i : Int) + 3) * 1000003) ++ List.replicate 8 0
    let y := fft_mfa_trunc_sqrt2 3 8 4 24 x
    let y' := (List.range 32).map fun k => if k < 16 ∨ (16 ≤ k ∧ k < 20) ∨ (24 ≤ k ∧ k < 28) then el y k else 77 - (k : Int)
    ((ifft_mfa_trunc_sqrt2 3 8 4 24 y').take 24).map (fun v => v * 2 ^ (128 - 5) % pOf 64) = x.take 24 := by decide +kernel

/-! ### the column passes of the inverse matrix Fourier transform -/

/-- mpir_ifft_mfa_trunc_sqrt2_outer with n1 = 2^(e1+1) columns, n2 = 2^(e2+1) rows, n = n1·n2/2: let x be a coefficient
    vector that vanishes (modulo p) from `trunc` on, and let the array hold K times the column-transformed matrices of x —
    first half: `mfaCol` of the first-layer sums x[u] + x[2n+u]; second half, rows rev s for s < trunc2: `mfaCol` of the
    twiddled first-layer differences.  Then the first half comes out as 2·K·n2·x[u]·2^(−(depth+depth2+1)) for all
    u < 2n, and the second half as 2·K·n2·x[2n+u]·2^(−(depth+depth2+1)) for u < trunc − 2n: the column passes (revbin
    swaps, inverse twiddled transforms, recomputation of the entries beyond `trunc`, the inverse √2 layer) invert the
    column passes of the forward transform.  With K = n1 (what the row passes leave) the factor is 1. -/
theorem ifft_mfa_outer_recovers (e1 e2 w trunc : Nat) (hd : 64 ∣ 2 ^ (e1 + e2 + 1) * w) (hw : 1 ≤ w)
    (ht : TruncSOk (e1 + e2 + 1) trunc) (hdiv : 2 * 2 ^ (e1 + 1) ∣ trunc)
    (x : List Int) (h0 : ∀ j, trunc ≤ j → j < 4 * 2 ^ (e1 + e2 + 1) → el x j ≡ 0 [ZMOD pOf (2 ^ (e1 + e2 + 1) * w)])
    (K : Int) (R : List Int) (hlen : R.length = 4 * 2 ^ (e1 + e2 + 1))
    (hR1 : ∀ i < 2 ^ (e1 + 1), ∀ j < 2 ^ (e2 + 1), el R (i + j * 2 ^ (e1 + 1)) ≡
      K * el (mfaCol e2 w (2 ^ (e1 + 1)) (layerSums (2 ^ (e1 + e2 + 1)) x) i) j [ZMOD pOf (2 ^ (e1 + e2 + 1) * w)])
    (hR2 : ∀ i < 2 ^ (e1 + 1), ∀ s < (trunc - 2 * 2 ^ (e1 + e2 + 1)) / 2 ^ (e1 + 1),
      el R (2 * 2 ^ (e1 + e2 + 1) + i + rev (e2 + 1) s * 2 ^ (e1 + 1)) ≡
        K * el (mfaCol e2 w (2 ^ (e1 + 1)) (layerDiffs (2 ^ (e1 + e2 + 1)) w x) i) (rev (e2 + 1) s)
        [ZMOD pOf (2 ^ (e1 + e2 + 1) * w)]) :
    (∀ i < 2 ^ (e1 + 1), ∀ j < 2 ^ (e2 + 1),
      el (ifft_mfa_trunc_sqrt2_outer (e1 + e2 + 1) w (2 ^ (e1 + 1)) trunc R) (i + j * 2 ^ (e1 + 1)) ≡
        2 * (K * 2 ^ (e2 + 1)) * el x (i + j * 2 ^ (e1 + 1)) *
          2 ^ (2 * (2 ^ (e1 + e2 + 1) * w) - (e2 + 1 + (e1 + 1) + 1)) [ZMOD pOf (2 ^ (e1 + e2 + 1) * w)]) ∧
    (∀ i < 2 ^ (e1 + 1), ∀ m < (trunc - 2 * 2 ^ (e1 + e2 + 1)) / 2 ^ (e1 + 1),
      el (ifft_mfa_trunc_sqrt2_outer (e1 + e2 + 1) w (2 ^ (e1 + 1)) trunc R)
          (2 * 2 ^ (e1 + e2 + 1) + i + m * 2 ^ (e1 + 1)) ≡
        2 * (K * 2 ^ (e2 + 1)) * el x (2 * 2 ^ (e1 + e2 + 1) + (i + m * 2 ^ (e1 + 1))) *
          2 ^ (2 * (2 ^ (e1 + e2 + 1) * w) - (e2 + 1 + (e1 + 1) + 1)) [ZMOD pOf (2 ^ (e1 + e2 + 1) * w)]) := by
  have hN : 2 ^ (e1 + 1) * 2 ^ (e2 + 1) = 2 * 2 ^ (e1 + e2 + 1) := by
    rw [← pow_add, ← pow_succ']; congr 1; ring
  obtain ⟨O1, O2⟩ := ifft_mfa_outer_spec (Int.castRingHom (ZMod (2 ^ (2 ^ (e1 + e2 + 1) * w) + 1))) e1 e2 w trunc hd hw
    (zmod_two_pow _) ht hdiv x (fun j a b => by have := (zmod_eq_iff _ _ _).mpr (h0 j a b); rw [this]; simp)
    ((Int.castRingHom (ZMod (2 ^ (2 ^ (e1 + e2 + 1) * w) + 1))) K) R hlen
    (fun i hi j hj => by rw [(zmod_eq_iff _ _ _).mpr (hR1 i hi j hj), map_mul])
    (fun i hi s hs => by rw [hN, (zmod_eq_iff _ _ _).mpr (hR2 i hi s hs), map_mul])
  constructor
  · intro i hi j hj
    apply toZ'
    rw [O1 i hi j hj]; simp
  · intro i hi m hm
    apply toZ'
    have := O2 i hi m hm
    rw [hN] at this
    rw [this]; simp

/-! ### the convolution theorem as the matrix Fourier multiplier uses it -/

/-- Transform both (zero-padded, 4n entries) coefficient vectors with mpir_fft_mfa_trunc_sqrt2_outer, convolve the rows
    with mpir_fft_mfa_trunc_sqrt2_inner (row transforms, normalise, mpn_mulmod_Bexpp1, inverse row transforms),
    transform back with mpir_ifft_mfa_trunc_sqrt2_outer (which also divides by 4n): every entry below `trunc` is
    congruent to the acyclic convolution Σ_{i+k=j} a_i·b_k, provided it fits (j1 + j2 − 1 ≤ trunc).
    n1 = 2^(e1+1) columns, n2 = 2^(e2+1) rows, depth = e1+e2+1, trunc a multiple of 2·n1 in (2n, 4n]. -/
theorem mfa_convolution_chain (e1 e2 w L trunc j1 j2 : Nat) (a b : List Int) (hL : 2 ^ (e1 + e2 + 1) * w = 64 * L)
    (hw : 1 ≤ w) (hla : a.length = 4 * 2 ^ (e1 + e2 + 1)) (hlb : b.length = 4 * 2 ^ (e1 + e2 + 1))
    (ht : TruncSOk (e1 + e2 + 1) trunc) (hdiv : 2 * 2 ^ (e1 + 1) ∣ trunc)
    (ha : ∀ i, j1 ≤ i → el a i = 0) (hb : ∀ k, j2 ≤ k → el b k = 0)
    (hj1 : 1 ≤ j1) (hj2 : 1 ≤ j2) (hJ : j1 + j2 ≤ trunc + 1) (j : Nat) (hj : j < trunc) :
    el (ifft_mfa_trunc_sqrt2_outer (e1 + e2 + 1) w (2 ^ (e1 + 1)) trunc
        (fft_mfa_trunc_sqrt2_inner (e1 + e2 + 1) w (2 ^ (e1 + 1)) trunc
          (fft_mfa_trunc_sqrt2_outer (e1 + e2 + 1) w (2 ^ (e1 + 1)) trunc a)
          (fft_mfa_trunc_sqrt2_outer (e1 + e2 + 1) w (2 ^ (e1 + 1)) trunc b))) j
      ≡ ∑ i ∈ range (j + 1), el a i * el b (j - i) [ZMOD pOf (64 * L)] := by
  have := mfa_conv_chain e1 e2 w L trunc j1 j2 a b hL hw hla hlb ht hdiv ha hb hj1 hj2 hJ j hj
  rwa [el_conv _ _ _ _ (by obtain ⟨_, _, h⟩ := ht; omega)] at this

-- non-vacuity: depth 2 (n = 4, 16 entries modulo 2^64+1, w = 16), n1 = 2, n2 = 4, trunc = 12: (1 + 2X + 3X²)·(5 + 7X)
example : TruncSOk 2 12 := by unfold TruncSOk; decide
example : let a : List Int := [1, 2, 3] ++ List.replicate 13 0
    let b : List Int := [5, 7] ++ List.replicate 14 0
    ((ifft_mfa_trunc_sqrt2_outer 2 16 2 12 (fft_mfa_trunc_sqrt2_inner 2 16 2 12
      (fft_mfa_trunc_sqrt2_outer 2 16 2 12 a) (fft_mfa_trunc_sqrt2_outer 2 16 2 12 b))).take 12).map (· % pOf 64) =
    [5, 17, 29, 21, 0, 0, 0, 0, 0, 0, 0, 0] := by decide +kernel

/-- mpn_mul_mfa_trunc_sqrt2 (the model: mpir_fft_split_bits, the outer forward pass on both operands, the inner pass, the
    outer inverse pass, mpir_fft_combine_bits — limb-level models for split / mpn_mulmod_Bexpp1 / combine, value-level for
    the transforms): for parameters satisfying `FftParams.Sound` (what `fft_params_sound` proves about the selection in
    mpn_mul_fft_main) and depth ≥ 2 (so that sqrt = 2^(depth/2) ≥ 2 columns: for depth < 2 the C's row transforms are
    called with n = 0 and do not terminate) the result is the (n1+n2)-limb product. -/
theorem mul_mfa_trunc_sqrt2_val (i1 i2 : List Nat) (depth w : Nat) (hi1 : Limbs i1) (hi2 : Limbs i2)
    (hn1 : 1 ≤ i1.length) (hn2 : 1 ≤ i2.length) (hdep : 2 ≤ depth)
    (hs : FftParams.Sound i1.length i2.length ⟨true, depth, w⟩) :
    (mul_mfa_trunc_sqrt2 i1 i2 depth w).length = i1.length + i2.length ∧ Limbs (mul_mfa_trunc_sqrt2 i1 i2 depth w) ∧
    val (mul_mfa_trunc_sqrt2 i1 i2 depth w) = val i1 * val i2 :=
  mul_mfa_trunc_sqrt2_spec i1 i2 depth w hi1 hi2 hn1 hn2 hdep hs

-- non-vacuity: a 2×1-limb product through 16 coefficients modulo 2^64+1 (depth 2, sqrt = 2)
example : FftParams.Sound 2 1 ⟨true, 2, 16⟩ := by decide
example : mul_mfa_trunc_sqrt2 [0xfedcba9876543210, 0x123456789abcdef] [0xffffffffffffffff] 2 16 =
    [0x123456789abcdf0, 0xfdb97530eca86420, 0x123456789abcdef] := by decide +kernel

/-- mpn_mul_fft_main, BOTH paths: for every admissible tuning table and all operand lengths n1, n2 ≥ 1 the parameter
    selection terminates and the multiplier it selects — mpn_mul_trunc_sqrt2 below depth 11 of the first loop,
    mpn_mul_mfa_trunc_sqrt2 (always with depth ≥ 10) otherwise — returns the (n1+n2)-limb product. -/
theorem mul_fft_main_val (tab : List (List Int))
    (htab : ∀ d w, 6 ≤ d → d < 11 → (w = 1 ∨ w = 2) → FftParams.tabGet tab d w ≤ 4)
    (i1 i2 : List Nat) (hi1 : Limbs i1) (hi2 : Limbs i2) (hn1 : 1 ≤ i1.length) (hn2 : 1 ≤ i2.length) :
    ∃ r, mul_fft_main tab i1 i2 = some r ∧ r.length = i1.length + i2.length ∧ Limbs r ∧ val r = val i1 * val i2 := by
  obtain ⟨c, hc, hs⟩ := FftParams.fft_params_sound tab htab i1.length i2.length hn1 hn2
  unfold mul_fft_main
  rw [hc]
  obtain ⟨mfa, depth, w⟩ := c
  cases mfa with
  | false =>
    simp only [Bool.false_eq_true, if_false]
    exact ⟨_, rfl, mul_trunc_sqrt2_val i1 i2 depth w hi1 hi2 hn1 hn2 hs⟩
  | true =>
    simp only [if_true]
    have hdep := FftParams.fftParams_mfa_depth tab i1.length i2.length depth w hc
    exact ⟨_, rfl, mul_mfa_trunc_sqrt2_val i1 i2 depth w hi1 hi2 hn1 hn2 (by omega) hs⟩

-- non-vacuity: the table extracted from the tree under check is admissible; an MFA-sized and an FFT-sized instance
example : ∃ r, mul_fft_main Mpir.Gen.params.FFT_TAB (List.replicate 40000 (B - 1)) (List.replicate 30000 7) = some r ∧
    r.length = 40000 + 30000 ∧ Limbs r ∧ val r = val (List.replicate 40000 (B - 1)) * val (List.replicate 30000 7) := by
  have h := mul_fft_main_val _ FftParams.fftTab_admissible (List.replicate 40000 (B - 1)) (List.replicate 30000 7)
    (fun x hx => by rw [List.eq_of_mem_replicate hx]; unfold B; norm_num)
    (fun x hx => by rw [List.eq_of_mem_replicate hx]; unfold B; norm_num)
    (by rw [List.length_replicate]; norm_num) (by rw [List.length_replicate]; norm_num)
  rw [List.length_replicate, List.length_replicate] at h
  exact h
example : ∃ c, FftParams.fftParams Mpir.Gen.params.FFT_TAB 40000 30000 = some c ∧ c.mfa = true := by decide

end Mpir.FftX
