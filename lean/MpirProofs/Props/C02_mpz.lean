/-
  C02 (mpz layer) — division: exact quotient/remainder with the documented rounding.
  Property theorems only; helper lemmas live in MpirProofs/Lemmas/DivZ.lean.
  Every theorem is about the executable models in Mpir/Model/DivZ.lean, which mirror the control flow of
  mpz/*.c over a store of variables (variable ids; "the same variable" = the same id) and which the
  correspondence check runs against the real functions on every run.  Inside the models the mpn callees
  are replaced by their specification, so what is proved here is the size / sign / early-exit / adjust /
  temporary-copy logic of each wrapper, for all values and every alias pattern the manual permits.
-/
import MpirProofs.Lemmas.DivZ
namespace Mpir.DivZ
open Mpir

/-- a store used by the non-vacuity examples: variable 0 holds -7, variable 1 holds 2 -/
def exS : Store := fun i => if i = 0 then -7 else if i = 1 then 2 else 0

/-! ## truncating, floor and ceiling division -/

/-- mpz_tdiv_qr: for every store, every choice of variables with q ≠ r (n, d, q, r may otherwise coincide
    in any way) and non-zero divisor, the call succeeds, stores exactly the truncating pair, changes no other
    variable, and that pair satisfies n = q·d + r, |r| < |d|, r has the sign of n, |q| = ⌊|n|/|d|⌋. -/
theorem tdiv_qr_spec (s : Store) (q r n d : Nat) (hqr : q ≠ r) (hd : s d ≠ 0) :
    ∃ s', tdiv_qr s q r n d = .ok s' ∧ s' q = tdivQ (s n) (s d) ∧ s' r = tdivR (s n) (s d) ∧
      (∀ j, j ≠ q → j ≠ r → s' j = s j) ∧
      s n = s' q * s d + s' r ∧ (s' r).natAbs < (s d).natAbs ∧ (s' r = 0 ∨ (s' r < 0 ↔ s n < 0)) ∧
      (s' q).natAbs = (s n).natAbs / (s d).natAbs := by
  refine ⟨_, tdiv_qr_eq s q r n d hqr hd, ?_⟩
  simp only [if_true, hqr, if_false, tdivQ, tdivR]
  refine ⟨trivial, trivial, fun j h1 h2 => by simp [h1, h2], ?_⟩
  exact tdiv_pair (s n) (s d) hd
example : (match tdiv_qr exS 0 3 0 1 with | .ok s => (s 0, s 3) | .error _ => (0, 0)) = (-3, -1) := by decide

/-- mpz_tdiv_q and mpz_tdiv_r: the same quotient resp. remainder, any aliasing. -/
theorem tdiv_q_spec (s : Store) (q n d : Nat) (hd : s d ≠ 0) :
    tdiv_q s q n d = .ok (s.set q (tdivQ (s n) (s d))) := tdiv_q_eq s q n d hd
example : (match tdiv_q exS 1 0 1 with | .ok s => s 1 | .error _ => 0) = -3 := by decide

theorem tdiv_r_spec (s : Store) (r n d : Nat) (hd : s d ≠ 0) :
    tdiv_r s r n d = .ok (s.set r (tdivR (s n) (s d))) := tdiv_r_eq s r n d hd
example : (match tdiv_r exS 0 0 1 with | .ok s => s 0 | .error _ => 0) = -1 := by decide

/-- mpz_fdiv_qr: succeeds for d ≠ 0 and q ≠ r, stores exactly (q, r) with n = q·d + r, |r| < |d|,
    r zero or of the sign of d, q = ⌊n/d⌋ (q·d ≤ n < (q+1)·d for d > 0, mirrored for d < 0), and changes
    nothing else — including when the divisor is the q or r variable (temporary copy, fdiv_qr.c:39). -/
theorem fdiv_qr_spec (s : Store) (q r n d : Nat) (hqr : q ≠ r) (hd : s d ≠ 0) :
    ∃ s', fdiv_qr s q r n d = .ok s' ∧ s' q = fdivQ (s n) (s d) ∧ s' r = fdivR (s n) (s d) ∧
      (∀ j, j ≠ q → j ≠ r → s' j = s j) ∧
      s n = s' q * s d + s' r ∧ (s' r).natAbs < (s d).natAbs ∧ (s' r = 0 ∨ (s' r < 0 ↔ s d < 0)) ∧
      (0 < s d → s' q * s d ≤ s n ∧ s n < (s' q + 1) * s d) ∧
      (s d < 0 → (s' q + 1) * s d < s n ∧ s n ≤ s' q * s d) := by
  refine ⟨_, cfdiv_qr_eq false s q r n d hqr hd, ?_⟩
  simp only [if_true, hqr, if_false, fdivQ, fdivR, Bool.false_eq_true]
  refine ⟨trivial, trivial, fun j h1 h2 => by simp [h1, h2], ?_⟩
  obtain ⟨h1, h2, h3⟩ := fdiv_pair (s n) (s d) hd
  exact ⟨h1, h2, h3, fdiv_floor (s n) (s d) hd⟩
example : (match fdiv_qr exS 2 1 0 1 with | .ok s => (s 2, s 1) | .error _ => (0, 0)) = (-4, 1) := by decide

/-- mpz_cdiv_qr: as fdiv_qr with q = ⌈n/d⌉ and r zero or of the sign opposite to d. -/
theorem cdiv_qr_spec (s : Store) (q r n d : Nat) (hqr : q ≠ r) (hd : s d ≠ 0) :
    ∃ s', cdiv_qr s q r n d = .ok s' ∧ s' q = cdivQ (s n) (s d) ∧ s' r = cdivR (s n) (s d) ∧
      (∀ j, j ≠ q → j ≠ r → s' j = s j) ∧
      s n = s' q * s d + s' r ∧ (s' r).natAbs < (s d).natAbs ∧ (s' r = 0 ∨ (s' r < 0 ↔ 0 < s d)) ∧
      (0 < s d → (s' q - 1) * s d < s n ∧ s n ≤ s' q * s d) ∧
      (s d < 0 → s' q * s d ≤ s n ∧ s n < (s' q - 1) * s d) := by
  refine ⟨_, cfdiv_qr_eq true s q r n d hqr hd, ?_⟩
  simp only [if_true, hqr, if_false]
  refine ⟨trivial, trivial, fun j h1 h2 => by simp [h1, h2], ?_⟩
  obtain ⟨h1, h2, h3⟩ := cdiv_pair (s n) (s d) hd
  exact ⟨h1, h2, h3, cdiv_ceil (s n) (s d) hd⟩
example : (match cdiv_qr exS 0 1 0 1 with | .ok s => (s 0, s 1) | .error _ => (0, 0)) = (-3, -1) := by decide

/-- mpz_fdiv_q, mpz_cdiv_q, mpz_fdiv_r, mpz_cdiv_r: the q resp. r of the pairs above, any aliasing
    (fdiv_r / cdiv_r read the dividend's sign after the preliminary division, which is sound because a
    non-zero truncated remainder has the sign of the dividend). -/
theorem fdiv_q_spec (s : Store) (q n d : Nat) (hd : s d ≠ 0) :
    fdiv_q s q n d = .ok (s.set q (fdivQ (s n) (s d))) := by
  simpa [fdiv_q, fdivQ] using cfdiv_q_eq false s q n d hd
theorem cdiv_q_spec (s : Store) (q n d : Nat) (hd : s d ≠ 0) :
    cdiv_q s q n d = .ok (s.set q (cdivQ (s n) (s d))) := by
  simpa [cdiv_q] using cfdiv_q_eq true s q n d hd
theorem fdiv_r_spec (s : Store) (r n d : Nat) (hd : s d ≠ 0) :
    fdiv_r s r n d = .ok (s.set r (fdivR (s n) (s d))) := by
  simpa [fdiv_r, fdivR] using cfdiv_r_eq false s r n d hd
theorem cdiv_r_spec (s : Store) (r n d : Nat) (hd : s d ≠ 0) :
    cdiv_r s r n d = .ok (s.set r (cdivR (s n) (s d))) := by
  simpa [cdiv_r] using cfdiv_r_eq true s r n d hd
example : (match fdiv_q exS 0 0 1 with | .ok s => s 0 | .error _ => 0) = -4 := by decide
example : (match cdiv_q exS 1 0 1 with | .ok s => s 1 | .error _ => 0) = -3 := by decide
example : (match fdiv_r exS 0 0 1 with | .ok s => s 0 | .error _ => 0) = 1 := by decide   -- r is the dividend variable
example : (match cdiv_r exS 1 0 1 with | .ok s => s 1 | .error _ => 0) = -1 := by decide  -- r is the divisor variable

/-- mpz_mod: succeeds for d ≠ 0, the result r satisfies 0 ≤ r < |d| and d ∣ n - r, for either sign of d
    and any aliasing. -/
theorem mod_nonneg (s : Store) (r n d : Nat) (hd : s d ≠ 0) :
    mod s r n d = .ok (s.set r (modS (s n) (s d))) ∧
    0 ≤ modS (s n) (s d) ∧ modS (s n) (s d) < |s d| ∧ s d ∣ s n - modS (s n) (s d) :=
  ⟨mod_eq s r n d hd, mod_range (s n) (s d) hd⟩
example : (match mod (fun i => if i = 0 then -7 else -2) 1 0 1 with | .ok s => s 1 | .error _ => 0) = 1 := by decide

/-! ## single-limb divisors: quotient, remainder and the returned |r| -/

/-- mpz_tdiv_q_ui / mpz_fdiv_q_ui / mpz_cdiv_q_ui (dir = 0 / -1 / 1): for u ≠ 0 the call succeeds (in
    particular the `mpn_incr_u` of the floor/ceiling adjust never carries out of the quotient limbs), stores
    the quotient of the family and returns |r| of the family's remainder. -/
theorem q_ui_return_abs_r (dir : Int) (hdir : dir = 0 ∨ dir = -1 ∨ dir = 1) (s : Store) (q n : Nat) (u : Nat) (hu : u ≠ 0) :
    div_q_ui dir s q n u = .ok (s.set q (specQ dir (s n) u), uiRet (specR dir (s n) u)) :=
  div_q_ui_eq dir hdir s q n u hu
example : (div_q_ui (-1) exS 0 0 3).toOption.map (fun p => (p.1 0, p.2)) = some (-3, 2) := by decide

/-- mpz_{t,f,c}div_r_ui and mpz_mod_ui (= fdiv_r_ui): remainder of the family stored, |r| returned. -/
theorem r_ui_return_abs_r (dir : Int) (hdir : dir = 0 ∨ dir = -1 ∨ dir = 1) (s : Store) (r n : Nat) (u : Nat) (hu : u ≠ 0) :
    div_r_ui dir s r n u = .ok (s.set r (specR dir (s n) u), uiRet (specR dir (s n) u)) :=
  div_r_ui_eq dir hdir s r n u hu
example : (div_r_ui 1 exS 0 0 3).toOption.map (fun p => (p.1 0, p.2)) = some (-1, 1) := by decide

/-- mpz_{t,f,c}div_qr_ui: both stored (q ≠ r), |r| returned. -/
theorem qr_ui_return_abs_r (dir : Int) (hdir : dir = 0 ∨ dir = -1 ∨ dir = 1) (s : Store) (q r n : Nat) (hqr : q ≠ r)
    (u : Nat) (hu : u ≠ 0) :
    div_qr_ui dir s q r n u = .ok ((s.set r (specR dir (s n) u)).set q (specQ dir (s n) u), uiRet (specR dir (s n) u)) :=
  div_qr_ui_eq dir hdir s q r n hqr u hu
example : (div_qr_ui 1 exS 2 0 0 3).toOption.map (fun p => (p.1 2, p.1 0, p.2)) = some (-2, -1, 1) := by decide

/-- mpz_{t,f,c}div_ui: returns |r| only. -/
theorem ui_return_abs_r (dir : Int) (hdir : dir = 0 ∨ dir = -1 ∨ dir = 1) (x : Int) (u : Nat) (hu : u ≠ 0) :
    div_ui dir x u = .ok (uiRet (specR dir x u)) := div_ui_eq dir hdir x u hu
example : div_ui 0 (-7) 3 = .ok 1 ∧ div_ui (-1) (-7) 3 = .ok 2 ∧ div_ui 1 7 3 = .ok 2 := by decide

/-- `specQ`/`specR` are the three families (definitional unfolding, stated so that the `_ui` theorems read
    against the same specifications as the mpz forms). -/
theorem spec_dirs (x y : Int) :
    specQ 0 x y = tdivQ x y ∧ specR 0 x y = tdivR x y ∧ specQ (-1) x y = fdivQ x y ∧ specR (-1) x y = fdivR x y ∧
    specQ 1 x y = cdivQ x y ∧ specR 1 x y = cdivR x y := by
  simp [specQ, specR, tdivQ, tdivR, fdivQ, fdivR]
example : specQ 1 7 2 = 4 ∧ specR 1 7 2 = -1 := by decide

/-! ## division by 2^cnt -/

/-- mpz_fdiv_q_2exp (dir = -1) and mpz_cdiv_q_2exp (dir = 1): for every value and every bit count the
    result is the floor resp. ceiling quotient by 2^cnt (limb offset, partial shift, the "round" flag built
    from the skipped limbs and the shifted-out bits, and the carry of the +1 are all covered). -/
theorem cfdiv_q_2exp_spec (dir : Int) (hdir : dir = -1 ∨ dir = 1) (s : Store) (w u cnt : Nat) :
    cfdiv_q_2exp s w u cnt dir = s.set w (specQ dir (s u) ((2 ^ cnt : Nat) : Int)) :=
  cfdiv_q_2exp_eq dir hdir s w u cnt
example : fdiv_q_2exp exS 0 0 1 0 = -4 ∧ cdiv_q_2exp exS 2 0 70 2 = 0 ∧ fdiv_q_2exp exS 2 0 70 2 = -1 := by decide

/-- mpz_fdiv_r_2exp and mpz_cdiv_r_2exp: the call never runs `MPN_INCR_U` off its limbs (the model's
    `oob` outcome is unreachable) and stores the floor resp. ceiling remainder by 2^cnt. -/
theorem cfdiv_r_2exp_spec (dir : Int) (hdir : dir = -1 ∨ dir = 1) (s : Store) (w u cnt : Nat) :
    cfdiv_r_2exp s w u cnt dir = .ok (s.set w (specR dir (s u) ((2 ^ cnt : Nat) : Int))) :=
  cfdiv_r_2exp_eq dir hdir s w u cnt
example : (match fdiv_r_2exp exS 0 0 2 with | .ok s => s 0 | .error _ => 99) = 1 ∧
          (match cdiv_r_2exp (fun _ => 7) 0 0 2 with | .ok s => s 0 | .error _ => 99) = -1 := by decide

/-- mpz_tdiv_q_2exp and mpz_tdiv_r_2exp: truncating quotient and remainder by 2^cnt. -/
theorem tdiv_q_2exp_spec (s : Store) (w u cnt : Nat) :
    tdiv_q_2exp s w u cnt = s.set w (tdivQ (s u) ((2 ^ cnt : Nat) : Int)) := tdiv_q_2exp_eq s w u cnt
theorem tdiv_r_2exp_spec (s : Store) (w u cnt : Nat) :
    tdiv_r_2exp s w u cnt = s.set w (tdivR (s u) ((2 ^ cnt : Nat) : Int)) := tdiv_r_2exp_eq s w u cnt
example : tdiv_q_2exp exS 0 0 1 0 = -3 ∧ tdiv_r_2exp exS 0 0 1 0 = -1 ∧ tdiv_r_2exp exS 2 0 64 2 = -7 := by decide

/-! ## exact division and divisibility -/

/-- mpz_divexact: for d ≠ 0 and d ∣ n (the documented domain) the call stores q with q·d = n, any aliasing,
    all signs; the early exit for a dividend with fewer limbs than the divisor yields 0 = n/d. -/
theorem divexact_spec (s : Store) (q n d : Nat) (hd : s d ≠ 0) (hdvd : s d ∣ s n) :
    divexact s q n d = .ok (s.set q (divexactS (s n) (s d))) ∧ divexactS (s n) (s d) * s d = s n :=
  ⟨divexact_eq s q n d hd, Int.tdiv_mul_cancel hdvd⟩
example : (match divexact (fun i => if i = 0 then -91 else 7) 1 0 1 with | .ok s => s 1 | .error _ => 0) = -13 := by decide

/-- mpz_divexact_ui: the same for a limb divisor u ≠ 0 with u ∣ n. -/
theorem divexact_ui_spec (s : Store) (q n : Nat) (u : Nat) (hu : u ≠ 0) (hdvd : (u : Int) ∣ s n) :
    divexact_ui s q n u = .ok (s.set q (divexactS (s n) u)) ∧ divexactS (s n) u * u = s n :=
  ⟨divexact_ui_eq s q n u hu, Int.tdiv_mul_cancel hdvd⟩
example : (match divexact_ui (fun _ => -91) 0 0 7 with | .ok s => s 0 | .error _ => 0) = -13 := by decide

/-- mpz_divisible_p: non-zero exactly when d ∣ a; for d = 0 that is a = 0. -/
theorem divisible_p_iff (a d : Int) : divisible_p a d = true ↔ d ∣ a := divisible_p_iff' a d
theorem divisible_p_zero (a : Int) : divisible_p a 0 = true ↔ a = 0 := by
  rw [divisible_p_iff]; exact Int.zero_dvd
example : divisible_p (-91) 7 = true ∧ divisible_p 92 (-7) = false ∧ divisible_p 0 0 = true ∧ divisible_p 5 0 = false := by decide

/-- mpz_divisible_ui_p, for every value of MODEXACT_1_ODD_THRESHOLD (the low-zero-bits shortcut and the
    reduction to the odd part of d are sound): d ∣ a, with d = 0 meaning a = 0. -/
theorem divisible_ui_p_iff (thr : Nat) (a : Int) (d : Nat) (hd : d < B) :
    divisible_ui_p thr a d = true ↔ (d : Int) ∣ a := divisible_ui_p_iff' thr a d hd
example : divisible_ui_p 0 (-96) 24 = true ∧ ¬ divisible_ui_p 0 100 24 = true ∧ divisible_ui_p 0 0 0 = true :=
  ⟨(divisible_ui_p_iff 0 _ _ (by decide)).mpr (by decide), fun h => absurd ((divisible_ui_p_iff 0 _ _ (by decide)).mp h) (by decide),
   (divisible_ui_p_iff 0 _ _ (by decide)).mpr (by decide)⟩

/-- mpz_divisible_2exp_p: 2^d ∣ a. -/
theorem divisible_2exp_p_iff (a : Int) (d : Nat) : divisible_2exp_p a d = true ↔ ((2 ^ d : Nat) : Int) ∣ a :=
  divisible_2exp_p_iff' a d
example : divisible_2exp_p (-96) 5 = true ∧ divisible_2exp_p (-96) 6 = false ∧ divisible_2exp_p (2 ^ 70) 70 = true := by decide

/-! ## congruences -/

/-- mpz_congruent_p, for every value of MODEXACT_1_ODD_THRESHOLD: non-zero exactly when d ∣ a - c, all signs
    and sizes (operand swap, low-zero-bits quick rejection, the single-limb `cong_1` paths with NEG_MOD and the
    two-limb divisor whose odd part fits a limb, and the general |a - c| path); for d = 0 that is a = c. -/
theorem congruent_p_iff (thr : Nat) (a c d : Int) : congruent_p thr a c d = true ↔ d ∣ a - c :=
  congruent_p_iff' thr a c d
theorem congruent_p_zero (thr : Nat) (a c : Int) : congruent_p thr a c 0 = true ↔ a = c := by
  rw [congruent_p_iff, Int.zero_dvd]; omega
example : congruent_p 0 (-5) 19 12 = true ∧ ¬ congruent_p 0 (-5) 18 12 = true ∧ congruent_p 0 7 7 0 = true :=
  ⟨(congruent_p_iff 0 _ _ _).mpr (by decide), fun h => absurd ((congruent_p_iff 0 _ _ _).mp h) (by decide),
   (congruent_p_zero 0 _ _).mpr rfl⟩

/-- mpz_congruent_ui_p (c and d are limbs): d ∣ a - c, with d = 0 meaning a = c. -/
theorem congruent_ui_p_iff (thr : Nat) (a : Int) (c d : Nat) (hc : c < B) (hd : d < B) :
    congruent_ui_p thr a c d = true ↔ (d : Int) ∣ a - (c : Int) := congruent_ui_p_iff' thr a c d hc hd
example : congruent_ui_p 0 (-5) 19 12 = true ∧ ¬ congruent_ui_p 0 (-5) 18 12 = true :=
  ⟨(congruent_ui_p_iff 0 _ _ _ (by decide) (by decide)).mpr (by decide),
   fun h => absurd ((congruent_ui_p_iff 0 _ _ _ (by decide) (by decide)).mp h) (by decide)⟩

/-! ## multi-limb layer: the contract model used for mpn_tdiv_qr -/

/-- The value-level contract model of mpn_tdiv_qr (what the correspondence compares the real function with) is
    defined on the whole documented domain (nn ≥ dn ≥ 1, top divisor limb non-zero) and its nn-dn+1 quotient
    limbs and dn remainder limbs are exactly ⌊n/d⌋ and n mod d: n = q·d + r, r < d.  (The limb-level
    bookkeeping of mpn/generic/tdiv_qr.c itself is tied by correspondence only.) -/
theorem mpn_tdiv_qr_contract (n d : List Nat) (hn : Limbs n) (hd : Limbs d) (ht : topNonzero d = true)
    (hl : d.length ≤ n.length) :
    ∃ q r, mpnTdivQr n d = some (q, r) ∧ q.length = n.length - d.length + 1 ∧ r.length = d.length ∧ Limbs q ∧ Limbs r ∧
      val q = val n / val d ∧ val r = val n % val d ∧ val n = val q * val d + val r ∧ val r < val d :=
  mpnTdivQr_contract n d hn hd ht hl
example : mpnTdivQr [5, 7] [3] = some ([6148914691236517207, 2], [0]) := by decide

/-! ## division by zero -/

/-- every function of the family that divides raises DIVIDE_BY_ZERO for a zero divisor, before any
    destination is written (the model returns `error "div0"`, no store). -/
theorem div_by_zero_raises (s : Store) (q r n d : Nat) (hd : s d = 0) (dir : Int) (x : Int) (c : Bool) :
    tdiv_qr s q r n d = .error "div0" ∧ tdiv_q s q n d = .error "div0" ∧ tdiv_r s r n d = .error "div0" ∧
    cfdiv_qr c s q r n d = .error "div0" ∧ cfdiv_q c s q n d = .error "div0" ∧ cfdiv_r c s r n d = .error "div0" ∧
    mod s r n d = .error "div0" ∧
    div_q_ui dir s q n 0 = .error "div0" ∧ div_r_ui dir s r n 0 = .error "div0" ∧
    div_qr_ui dir s q r n 0 = .error "div0" ∧ div_ui dir x 0 = .error "div0" ∧
    divexact_ui s q n 0 = .error "div0" :=
  ⟨tdiv_qr_div0 s q r n d hd, tdiv_q_div0 s q n d hd, tdiv_r_div0 s r n d hd, cfdiv_qr_div0 c s q r n d hd,
   cfdiv_q_div0 c s q n d hd, cfdiv_r_div0 c s r n d hd, mod_div0 s r n d hd,
   (div_ui_div0 dir s q r n x).1, (div_ui_div0 dir s q r n x).2.1, (div_ui_div0 dir s q r n x).2.2.1,
   (div_ui_div0 dir s q r n x).2.2.2, by simp [divexact_ui]⟩
example : (match fdiv_qr exS 0 1 0 2 with | .ok _ => "ok" | .error e => e) = "div0" := by decide

end Mpir.DivZ
