/- C02 (mpz layer) property theorems. -/
import MpirProofs.Lemmas.DivZ
namespace Mpir.DivZ
end Mpir.DivZ
