/-
  C19 — random numbers: range, reproducibility, copies.
  Property theorems only; helper lemmas live in MpirProofs/Lemmas/Rand*.lean.
  Every theorem is about the executable models in Mpir/Model/Rand.lean, which the correspondence check
  runs bit for bit against the real generators (whole histories: init, seed, copy, interleaved draws).

  `Gen.Valid g` is `True` for the Mersenne Twister and `2 ≤ m2exp` for `gmp_randinit_lc_2exp`
  (`m2exp = 1` gives zero bits per step and `randget_lc` does not terminate: reported finding, not a
  documented precondition).  Statistical uniformity is not a theorem (frequency ops in the run).
-/
import MpirProofs.Lemmas.RandRr
namespace Mpir.Rand
open Mpir

/-! ## urandomb: values below `2^n`, for every generator state -/

/-- `mpz_urandomb (rop, state, n)` returns a value below `2^n`, for every state of every generator. -/
theorem urandomb_lt (g : Gen) (hv : g.Valid) (n : Nat) : (urandomb g n).1 < 2 ^ n :=
  Nat.lt_of_le_of_lt (Nat.mod_le _ _) (Gen.get_lt g hv n)

example : (urandomb (.mt mtDefault) 64).1 = 0x58d2754b39bca874 := by decide +kernel
example : (urandomb (.lc (lcInit 0x5851f42d4c957f2d5851f42d4c957f2d 1 67)) 66).1 = 0xe058c66756147d0b := by decide +kernel
example : (Gen.lc (lcInit 5 1 67)).Valid := by decide

/-- `gmp_urandomb_ui (state, bits)` returns a value below `2^min(bits, 64)`. -/
theorem urandomb_ui_lt (g : Gen) (hv : g.Valid) (bits : Nat) : (urandombUi g bits).1 < 2 ^ (min bits 64) :=
  Nat.lt_of_le_of_lt (Nat.mod_le _ _) (Gen.get_lt g hv _)

example : (urandombUi (.mt mtDefault) 100).1 = 0x58d2754b39bca874 := by decide +kernel

/-- `mpn_urandomb (rp, state, n)` writes exactly `BITS_TO_LIMBS (n)` proper limbs whose value is below `2^n`. -/
theorem mpn_urandomb_lt (g : Gen) (hv : g.Valid) (n : Nat) :
    (mpnUrandomb g n).1.length = bitsToLimbs n ∧ Limbs (mpnUrandomb g n).1 ∧ val (mpnUrandomb g n).1 < 2 ^ n := by
  refine ⟨toLimbs_length _ _, toLimbs_Limbs _ _, ?_⟩
  simp only [mpnUrandomb, val_toLimbs]
  exact Nat.lt_of_le_of_lt (Nat.mod_le _ _) (Gen.get_lt g hv n)

example : (mpnUrandomb (.mt mtDefault) 65).1 = [0x58d2754b39bca874, 1] := by decide +kernel

/-- every draw leaves a valid generator behind (so the theorems apply along whole histories). -/
theorem get_valid (g : Gen) (hv : g.Valid) (n : Nat) : (g.get n).2.Valid := Gen.get_valid g hv n

example : ((Gen.lc (lcInit 5 1 8)).get 100).2.Valid := get_valid _ (by decide) _

/-! ## the regenerated tables -/

/-- randmt.c `default_state[]`: `N` entries, each a 32-bit word. -/
theorem default_state_ok :
    Tabs.defaultState.toList.length = Tabs.mtN ∧ ∀ w ∈ Tabs.defaultState.toList, w < 2 ^ 32 := by decide +kernel

/-- randlc2s.c `__gmp_rand_lc_scheme[]`: every row has `m2exp ≥ 2`, a multiplier `≡ 5 (mod 8)` inside `[0, 2^m2exp)`
    and an odd addend (so each scheme has the full period `2^m2exp`), and the rows are sorted by `m2exp` (the
    selection takes the first row with `m2exp / 2 ≥ size`). -/
theorem lc_scheme_ok :
    (∀ r ∈ Tabs.lcScheme, 2 ≤ r.1 ∧ r.2.1 % 8 = 5 ∧ r.2.2 % 2 = 1 ∧ r.2.1 < 2 ^ r.1) ∧
    (Tabs.lcScheme.map (·.1)).Pairwise (· < ·) := by decide +kernel

/-- `gmp_randinit_lc_2exp_size (state, size)`: when it succeeds the generator is valid and delivers at least `size`
    bits per step; it fails exactly when no row is large enough. -/
theorem lc_size_valid (size : Nat) (s : LcState) (h : lcInitSize size = some s) :
    (Gen.lc s).Valid ∧ size ≤ s.m2exp / 2 := by
  unfold lcInitSize lcSchemeFind at h
  simp only [Option.map_eq_some_iff] at h
  obtain ⟨r, hr, rfl⟩ := h
  have hmem := List.mem_of_find?_eq_some hr
  have hp := List.find?_some hr
  have := (lc_scheme_ok.1 r hmem).1
  exact ⟨this, by simpa [lcInit] using hp⟩

example : (lcInitSize 128).map (·.m2exp) = some 256 ∧ lcInitSize 129 = none ∧ (lcInitSize 17).map (·.m2exp) = some 34 := by
  decide +kernel

/-! ## urandomm: values in `[0, n-1]` -/

/-- `mpz_urandomm (rop, state, n)`, `n ≠ 0`: every returned value is below `|n|` (exit condition of the
    rejection loop; `n` a power of two uses exactly `log2 n` bits; the C loop is unbounded and ends with
    probability 1 — the model gives up after `fuel` draws, `none`). -/
theorem urandomm_range (fuel : Nat) (g g' : Gen) (n : Int) (v : Nat) (hn : n ≠ 0)
    (h : urandomm fuel g n = some (v, g')) : v < n.natAbs := by
  unfold urandomm at h
  simp only at h
  split at h
  · simp only [Option.some.injEq, Prod.mk.injEq] at h
    rw [← h.1]; omega
  · exact rejectLoop_lt h

example : (urandomm 10 (.mt mtDefault) 1000).map (·.1) = some 0x74 := by decide +kernel
example : (urandomm 10 (.mt mtDefault) (-(2 ^ 64))).map (·.1) = some 0x58d2754b39bca874 := by decide +kernel
example : (urandomm 10 (.mt mtDefault) 1).map (·.1) = some 0 := by decide +kernel

/-- `mpn_urandomm (rp, state, mp, n)`: `n` proper limbs whose value is below the modulus. -/
theorem mpn_urandomm_range (fuel : Nat) (g g' : Gen) (mp l : List Nat)
    (h : mpnUrandomm fuel g mp = some (l, g')) :
    l.length = mp.length ∧ Limbs l ∧ val l < val mp := by
  unfold mpnUrandomm at h
  simp only [Option.map_eq_some_iff] at h
  obtain ⟨⟨r, g''⟩, hr, he⟩ := h
  simp only [Prod.mk.injEq] at he
  have hlt := rejectLoop_lt hr
  rw [← he.1]
  refine ⟨toLimbs_length _ _, toLimbs_Limbs _ _, ?_⟩
  rw [val_toLimbs]
  exact Nat.lt_of_le_of_lt (Nat.mod_le _ _) hlt

example : (mpnUrandomm 10 (.mt mtDefault) [5, 7]).map (·.1) = some [0x680bbdc87647f3c3, 1] := by decide +kernel

/-- `gmp_urandomm_ui (state, n)`, `0 < n < 2^64`: the result is below `n` — by the loop's exit condition, and
    in the capped fallback branch (80 rejections, `ret -= n`) because `ret < 2^bits ≤ 2n`. -/
theorem urandomm_ui_range (g : Gen) (hv : g.Valid) (n : Nat) (hn : 0 < n) (h64 : n < 2 ^ 64) :
    (urandommUi g n).1 < n := by
  unfold urandommUi
  simp only
  have hb := log2_bits n hn h64
  have spec := urandommUiLoop_spec n (64 - clz n - boolToNat (pow2P n)) Tabs.maxUrandommIter 0 g hv
    (Or.inr (by decide))
  simp only at spec
  split
  · next hacc => exact spec.1 hacc
  · next hacc =>
    have hacc' : (urandommUiLoop n (64 - clz n - boolToNat (pow2P n)) Tabs.maxUrandommIter 0 g).2.1 = false := by
      simpa using hacc
    rcases spec.2 hacc' with ⟨h1, h2⟩ | h0
    · have h3 : (urandommUiLoop n (64 - clz n - boolToNat (pow2P n)) Tabs.maxUrandommIter 0 g).1 < 2 * n :=
        Nat.lt_of_lt_of_le (Nat.lt_of_lt_of_le h2 (Nat.pow_le_pow_right (by decide) hb.1)) hb.2
      simp only
      omega
    · exact absurd h0 (by decide)

example : (urandommUi (.mt mtDefault) 100).1 = 0x4b := by decide +kernel
-- the fallback branch: a = 1, c = 0, X = 0xf0 constant, every 2-bit draw is 3 ≥ n = 3; after 80 rejections 3 - 3 = 0
example : (urandommUi (.lc (lcSeed (lcInit 1 0 8) 0xf0)) 3).1 = 0 := by decide +kernel

/-! ## shapes -/

/-- `mpn_randomb (rp, state, n)`, `n ≥ 1`: exactly `n` proper limbs with a non-zero top limb. -/
theorem randomb_shape (fuel : Nat) (g g' : Gen) (n : Nat) (l : List Nat) (hn : 1 ≤ n)
    (h : mpnRandomb fuel g n = some (l, g')) :
    l.length = n ∧ Limbs l ∧ ∃ hne : l ≠ [], l.getLast hne ≠ 0 := by
  unfold mpnRandomb at h
  simp only [Option.map_eq_some_iff] at h
  obtain ⟨⟨v, g''⟩, hv, he⟩ := h
  simp only [Prod.mk.injEq] at he
  have hr : (g.get (n * 64)).1 % 2 ^ (64 * n) / 2 ^ (64 * (n - 1)) < 2 ^ 64 := by
    apply Nat.div_lt_of_lt_mul
    rw [← pow_add, show 64 * (n - 1) + 64 = 64 * n by omega]
    exact Nat.mod_lt _ (by positivity)
  obtain ⟨t, ht0, ht, hvv⟩ := topLoop_spec hr hv
  have hlo : (g.get (n * 64)).1 % 2 ^ (64 * n) % 2 ^ (64 * (n - 1)) < 2 ^ (64 * (n - 1)) := Nat.mod_lt _ (by positivity)
  have hlen : l.length = n := by rw [← he.1]; exact toLimbs_length _ _
  have hlim : Limbs l := by rw [← he.1]; exact toLimbs_Limbs _ _
  have hpow : B ^ n = 2 ^ (64 * (n - 1)) * 2 ^ 64 := by rw [B_pow, ← pow_add]; congr 1; omega
  have hvlt : v < B ^ n := by rw [hvv, hpow]; nlinarith
  have hval : val l = v := by rw [← he.1]; exact val_toLimbs_of_lt hvlt
  have hne : l ≠ [] := by intro h0; rw [h0] at hlen; simp at hlen; omega
  refine ⟨hlen, hlim, hne, getLast_ne_zero hlim hne ?_⟩
  rw [hval, hlen, B_pow, hvv]
  have : 1 ≤ t := by omega
  nlinarith [Nat.zero_le ((g.get (n * 64)).1 % 2 ^ (64 * n) % 2 ^ (64 * (n - 1)))]

example : (mpnRandomb 10 (.mt mtDefault) 2).map (·.1) = some [0x58d2754b39bca874, 0x7647f3c382902d2f] := by decide +kernel
-- the redraw loop: the first two draws have a zero top limb
example : (mpnRandomb 10 (.lc (lcSeed (lcInit 1 (2 ^ 64 - 1) 130) (3 - 2 ^ 64))) 1).map (·.1) = some [1] := by decide +kernel

/-- `mpz_rrandomb (x, state, n)` returns a value below `2^n`; for `n ≥ 1` it has exactly `n` bits. -/
theorem rrandomb_lt (g : Gen) (n : Nat) :
    (rrandomb g n).1 < 2 ^ n ∧ (1 ≤ n → 2 ^ (n - 1) ≤ (rrandomb g n).1) := by
  unfold rrandomb
  by_cases h : n = 0
  · simp [h]
  · simp only [ne_eq, h, not_false_eq_true, if_true]
    have := gmpRrandomb_spec g n (by omega)
    exact ⟨this.2, fun _ => this.1⟩

example : (rrandomb (.mt mtDefault) 256).1 = 0xfffffffffffffffffff000000000000fffffffffffffffffffffffffffffffff := by decide +kernel
example : (rrandomb (.mt mtDefault) 0).1 = 0 := by decide +kernel

/-- `mpn_rrandom (rp, state, n)`, `n ≥ 1`: exactly `n` proper limbs with a non-zero top limb. -/
theorem rrandom_shape (g : Gen) (n : Nat) (hn : 1 ≤ n) :
    (mpnRrandom g n).1.length = n ∧ Limbs (mpnRrandom g n).1 ∧
    ∃ hne : (mpnRrandom g n).1 ≠ [], (mpnRrandom g n).1.getLast hne ≠ 0 := by
  have hlen : (mpnRrandom g n).1.length = n := toLimbs_length _ _
  have hlim : Limbs (mpnRrandom g n).1 := toLimbs_Limbs _ _
  have hne : (mpnRrandom g n).1 ≠ [] := by intro h0; rw [h0] at hlen; simp at hlen; omega
  refine ⟨hlen, hlim, hne, getLast_ne_zero hlim hne ?_⟩
  rw [hlen]
  simp only [mpnRrandom]
  have hbp : (g.get 32).1 % 2 ^ 64 % 64 < 64 := Nat.mod_lt _ (by decide)
  generalize (g.get 32).1 % 2 ^ 64 % 64 = bp at hbp
  obtain ⟨h1, h2⟩ := gmpRrandomb_spec (g.get 32).2 (n * 64 - bp) (by omega)
  have hup : (2:Nat) ^ (n * 64 - bp) ≤ B ^ n := by rw [B_pow]; exact Nat.pow_le_pow_right (by decide) (by omega)
  have hlo : B ^ (n - 1) ≤ 2 ^ (n * 64 - bp - 1) := by rw [B_pow]; exact Nat.pow_le_pow_right (by decide) (by omega)
  rw [val_toLimbs_of_lt (by omega)]
  omega

example : (mpnRrandom (.mt mtDefault) 2).1 = [0x1f80003801ff9f, 0xfff] := by decide +kernel
example : (mpnRrandom (.lc (lcInit 0 0 64)) 3).1 = [0xaaaaaaaaaaaaaaaa, 0xaaaaaaaaaaaaaaaa, 0xaaaaaaaaaaaaaaaa] := by decide +kernel

/-- `mpf_urandomb (rop, state, nbits)`: the result `val d · B^(exp − size)` lies in `[0, 1)`: the exponent is
    not positive and the mantissa is below `B^size`; `size` limbs are stored and a zero has exponent 0. -/
theorem mpf_urandomb_range (g : Gen) (prec nbits : Nat) :
    let o := (mpfUrandomb g prec nbits).1
    o.exp ≤ 0 ∧ val o.d < B ^ o.size ∧ o.d.length = o.size ∧ Limbs o.d ∧ (o.size = 0 → o.exp = 0) := by
  exact mpfFinish_range _ (toLimbs_Limbs _ _)

example : (mpfUrandomb (.mt mtDefault) 3 2).1 = { size := 0, exp := 0, d := [] } := by decide +kernel
example : (mpfUrandomb (.mt mtDefault) 3 70).1 = { size := 2, exp := 0, d := [0xd000000000000000, 0xbd6349d52ce6f2a1] } := by decide +kernel
example : (mpfUrandomb (.lc (lcInit 0 0 64)) 3 100).1 = { size := 0, exp := 0, d := [] } := by decide +kernel

/-! ## the linear congruential generator delivers high-half bits only -/

/-- `randget_lc`: bit `j` of an `n`-bit request is bit `(m+1)/2 + j mod (m/2)` — a bit of the upper half,
    position `≥ m/2` — of `X_{j/(m/2)+1}`, where `X_{i+1} = (a·X_i + c) mod 2^m` and `X_0` is the seed;
    nothing is delivered above bit `n`.  So the weak low-order bits never reach the caller. -/
theorem lc_outputs_high_half (s : LcState) (hm : 2 ≤ s.m2exp) (n j : Nat) :
    ((Gen.lc s).get n).1.testBit j =
      (decide (j < n) && (lcX s (j / (s.m2exp / 2) + 1)).testBit ((s.m2exp + 1) / 2 + j % (s.m2exp / 2))) ∧
    s.m2exp / 2 ≤ (s.m2exp + 1) / 2 + j % (s.m2exp / 2) ∧
    (s.m2exp + 1) / 2 + j % (s.m2exp / 2) < s.m2exp ∧
    (∀ i, lcX s (i + 1) = (s.a * lcX s i + s.c) % 2 ^ s.m2exp) ∧ lcX s 0 = s.seed := by
  refine ⟨randgetLc_testBit s n hm j, by omega, ?_, lcX_succ s, rfl⟩
  have := Nat.mod_lt j (show 0 < s.m2exp / 2 by omega)
  omega

/-- Documentation of the repaired finding (repo commit 78bdb63): before the repair `lc` discarded only `m/2` low bits, so
    for odd `m` it delivered `(m+1)/2` bits per step while `randget_lc` places the chunks `m/2` bits apart. -/
def lcStepOld (s : LcState) : Nat × LcState :=
  let x := (s.a * s.seed + s.c) % 2 ^ s.m2exp
  (x >>> (s.m2exp / 2), { s with seed := x })

/-- one `mpz_urandomb (r, st, 66)` of the unrepaired code with `m2exp = 67`: two 33-bit chunks; the surplus bit of the first
    is or-ed into the second ("bogus", randlc2x.c) and the surplus bit of the second is stored at bit 66. -/
def oldDraw66 (s0 : LcState) : Nat × LcState :=
  let p1 := lcStepOld s0
  let p2 := lcStepOld p1.2
  (placeChunk (placeChunk 0 0 1 p1.1 false) 33 1 p2.1 (decide (33 % 64 + 33 % 64 > 64)), p2.2)

-- seed 12345: the first two draws are the values observed on the unrepaired library; the second is not below 2^66
example :
    let s0 := lcSeed (lcInit 0x5851f42d4c957f2d5851f42d4c957f2d 1 67) 12345
    (oldDraw66 s0).1 = 0x28239508a0403ee39 ∧ (oldDraw66 (oldDraw66 s0).2).1 = 0x43af2be668439aad9 ∧
    2 ^ 66 ≤ (oldDraw66 (oldDraw66 s0).2).1 := by decide +kernel

/-- the state after an `n`-bit request: `⌈n / (m/2)⌉` steps of the recurrence, whatever the request sizes. -/
theorem lc_get_state (s : LcState) (hm : 2 ≤ s.m2exp) (n : Nat) :
    ((Gen.lc s).get n).2 = Gen.lc (lcIter ((n + s.m2exp / 2 - 1) / (s.m2exp / 2)) s) := by
  show Gen.lc (randgetLc s n).2 = _
  rw [randgetLc_state s n hm]

example : ((Gen.lc (lcInit 5 1 8)).get 8).1 = 0x10 := by decide +kernel
example : lcX (lcInit 5 1 8) 1 = 6 ∧ lcX (lcInit 5 1 8) 2 = 31 := by decide +kernel   -- 6 >> 4 = 0, 31 >> 4 = 1

/-! ## Mersenne Twister: call-pattern independence of the bit extraction -/

/-- `__gmp_randget_mt`: an `n`-bit request consumes exactly `⌈n/32⌉` tempered 32-bit words and returns
    their little-endian concatenation truncated to `n` bits (at most 31 bits of the last word are dropped). -/
theorem mt_get_words (s : MtState) (n : Nat) :
    randgetMt s n = (catWords (mtWords ((n + 31) / 32) s).1 % 2 ^ n, (mtWords ((n + 31) / 32) s).2) :=
  randgetMt_spec s n

/-- `get (a+b) = get a ++ get b` on the stream when the first request ends on a word boundary:
    splitting a request does not change the delivered bits nor the state. -/
theorem mt_get_bits_split (s : MtState) (a b : Nat) (ha : a % 32 = 0) :
    (randgetMt s (a + b)).1 = (randgetMt s a).1 + 2 ^ a * (randgetMt (randgetMt s a).2 b).1 ∧
    (randgetMt s (a + b)).2 = (randgetMt (randgetMt s a).2 b).2 := by
  simp only [randgetMt_spec]
  have e : (a + b + 31) / 32 = (a + 31) / 32 + (b + 31) / 32 := by omega
  have ea : 32 * ((a + 31) / 32) = a := by omega
  rw [e, mtWords_add]
  simp only [catWords_append, mtWords_length, ea]
  have hC : catWords (mtWords ((a + 31) / 32) s).1 < 2 ^ a := by
    have := catWords_lt _ (mtWords_lt ((a + 31) / 32) s)
    rwa [mtWords_length, ea] at this
  refine ⟨?_, trivial⟩
  rw [pow_add, mod_split hC (by positivity), Nat.mod_eq_of_lt hC]

example : (randgetMt mtDefault 96).1 = (randgetMt mtDefault 32).1 + 2 ^ 32 * (randgetMt (randgetMt mtDefault 32).2 64).1 := by
  decide +kernel
-- not true off a word boundary: the first request drops the rest of its last word
example : (randgetMt mtDefault 96).1 ≠ (randgetMt mtDefault 31).1 + 2 ^ 31 * (randgetMt (randgetMt mtDefault 31).2 65).1 := by
  decide +kernel

/-! ## copies and equal seeds -/

/-- a sequence of requests served by one generator. -/
def draws : Gen → List Nat → List Nat
  | _, [] => []
  | g, n :: ns => (g.get n).1 :: draws (g.get n).2 ns

/-- `gmp_randinit_set`: the copy is the same abstract state, hence it produces the same sequence for the same calls. -/
theorem iset_copy_equiv (g : Gen) : g.iset = g ∧ ∀ ns, draws g.iset ns = draws g ns := by
  have h : g.iset = g := by cases g <;> rfl
  exact ⟨h, fun ns => by rw [h]⟩

example : draws (Gen.iset (.mt mtDefault)) [1, 33, 64] = draws (.mt mtDefault) [1, 33, 64] := by decide +kernel
example : draws (Gen.iset (.lc (lcInit 5 1 16))) [3, 9] = draws (.lc (lcInit 5 1 16)) [3, 9] := by decide +kernel

/-- same algorithm (for `lc_2exp`: same `a`, `c`, `m2exp`) -/
def SameAlg : Gen → Gen → Prop
  | .mt _, .mt _ => True
  | .lc s, .lc t => s.a = t.a ∧ s.c = t.c ∧ s.m2exp = t.m2exp
  | _, _ => False

/-- two states of the same algorithm seeded with the same seed are the same state, hence produce the same
    sequence for the same sequence of calls (whatever they did before the seeding). -/
theorem same_seed_same_stream (g h : Gen) (z : Int) (hs : SameAlg g h) :
    g.seed z = h.seed z ∧ ∀ ns, draws (g.seed z) ns = draws (h.seed z) ns := by
  have e : g.seed z = h.seed z := by
    cases g with
    | mt s => cases h with
      | mt t => rfl
      | lc t => exact absurd hs (by simp [SameAlg])
    | lc s => cases h with
      | mt t => exact absurd hs (by simp [SameAlg])
      | lc t =>
        obtain ⟨h1, h2, h3⟩ := hs
        simp only [Gen.seed, lcSeed, h1, h2, h3]
  exact ⟨e, fun ns => by rw [e]⟩

example : SameAlg (.mt mtDefault) (.mt (seedMt 7)) := trivial
-- a generator that has already been used and a fresh one, same parameters, same seed
example : draws ((Gen.lc (lcIter 3 (lcInit 5 1 16))).seed 77) [9, 3] = draws ((Gen.lc (lcInit 5 1 16)).seed 77) [9, 3] := by
  decide +kernel
-- (that an unseeded Mersenne Twister equals one seeded with DEFAULT_SEED 5489 — tests/rand/t-mt.c — is checked on the
-- implementation and the model by corpus/C19/mt_kat.ops; the kernel needs minutes to evaluate `seedMt`)

end Mpir.Rand
