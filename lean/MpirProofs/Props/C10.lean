/-
  C10 — bitwise functions behave as on infinitely sign-extended two's-complement bit strings.
  Property theorems only; helper lemmas live in MpirProofs/Lemmas/Bits.lean.
-/
import MpirProofs.Lemmas.Bits
namespace Mpir.Bits
open Mpir

end Mpir.Bits
