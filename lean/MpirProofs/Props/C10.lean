/-
  C10 — bitwise functions behave as on infinitely sign-extended two's-complement bit strings.
  Property theorems only; helper lemmas live in MpirProofs/Lemmas/Bits.lean.
  Every theorem is about the executable models of Mpir/Model/Bits.lean (namespace `Mpir.Bits`), which the
  correspondence check runs against the real mpn_* / mpz_* functions on every run.  The specification side is
  Mathlib's `Int.land / Int.lor / Int.xor / Int.lnot / Int.testBit` (Mathlib.Data.Int.Bitwise, Batteries) and
  `Nat.land/lor/xor/ldiff`, whose meaning is pinned by `Int.testBit_land` etc.
-/
import MpirProofs.Lemmas.Bits
namespace Mpir.Bits
open Mpir

/-! ## mpn logic kernels: the plain bitwise function on limb vectors (any equal length, any limbs) -/

/-- mpn_and_n -/
theorem and_n_spec (u v : List Nat) (hu : Limbs u) (hv : Limbs v) (hl : u.length = v.length) :
    val (and_n u v) = val u &&& val v ∧ Limbs (and_n u v) ∧ (and_n u v).length = u.length := by
  obtain ⟨e, l⟩ := and_n_val_any u v hu hv
  exact ⟨e, l, by simp [and_n, hl]⟩
example : and_n [B - 1, 0xf0f0] [0xff00ff, B - 1] = [0xff00ff, 0xf0f0] := by decide

/-- mpn_ior_n -/
theorem ior_n_spec (u v : List Nat) (hu : Limbs u) (hv : Limbs v) (hl : u.length = v.length) :
    val (ior_n u v) = val u ||| val v ∧ Limbs (ior_n u v) ∧ (ior_n u v).length = u.length := by
  obtain ⟨e, l⟩ := zipWith_eqlen limbOp_or u v hl hu hv
  exact ⟨e, l, by simp [ior_n, hl]⟩
example : ior_n [1, 0xf0] [B - 2, 0x0f] = [B - 1, 0xff] := by decide

/-- mpn_xor_n -/
theorem xor_n_spec (u v : List Nat) (hu : Limbs u) (hv : Limbs v) (hl : u.length = v.length) :
    val (xor_n u v) = val u ^^^ val v ∧ Limbs (xor_n u v) ∧ (xor_n u v).length = u.length := by
  obtain ⟨e, l⟩ := zipWith_eqlen limbOp_xor u v hl hu hv
  exact ⟨e, l, by simp [xor_n, hl]⟩
example : xor_n [B - 1, 5] [1, 5] = [B - 2, 0] := by decide

/-- mpn_andn_n: u AND NOT v (`Nat.ldiff`: bit i is `uᵢ && !vᵢ`, `Nat.testBit_ldiff`) -/
theorem andn_n_spec (u v : List Nat) (hu : Limbs u) (hv : Limbs v) (hl : u.length = v.length) :
    val (andn_n u v) = Nat.ldiff (val u) (val v) ∧ Limbs (andn_n u v) ∧ (andn_n u v).length = u.length := by
  obtain ⟨e, l⟩ := zipWith_eqlen limbOp_andn u v hl hu hv
  exact ⟨e, l, by simp [andn_n, hl]⟩
example : andn_n [B - 1, 0xff] [0xf, 0xf0] = [B - 16, 0x0f] := by decide

/-- mpn_com_n: every bit of the n-limb vector flipped -/
theorem com_n_spec (u : List Nat) (hu : Limbs u) :
    val (com_n u) = B ^ u.length - 1 - val u ∧ Limbs (com_n u) ∧ (com_n u).length = u.length :=
  com_n_val u hu
example : com_n [0, B - 1, 5] = [B - 1, 0, B - 6] := by decide

/-- mpn_nand_n = complement of and_n within n limbs -/
theorem nand_n_spec (u v : List Nat) (hu : Limbs u) (hv : Limbs v) (hl : u.length = v.length) :
    val (nand_n u v) = B ^ u.length - 1 - (val u &&& val v) ∧ Limbs (nand_n u v) ∧
    (nand_n u v).length = u.length := by
  obtain ⟨e, l, n⟩ := and_n_spec u v hu hv hl
  obtain ⟨c1, c2, c3⟩ := com_n_val _ l
  rw [nand_n_eq]; exact ⟨by rw [c1, e, n], c2, by rw [c3, n]⟩
example : nand_n [B - 1, 3] [5, 6] = [B - 6, B - 3] := by decide

/-- mpn_nior_n -/
theorem nior_n_spec (u v : List Nat) (hu : Limbs u) (hv : Limbs v) (hl : u.length = v.length) :
    val (nior_n u v) = B ^ u.length - 1 - (val u ||| val v) ∧ Limbs (nior_n u v) ∧
    (nior_n u v).length = u.length := by
  obtain ⟨e, l, n⟩ := ior_n_spec u v hu hv hl
  obtain ⟨c1, c2, c3⟩ := com_n_val _ l
  rw [nior_n_eq]; exact ⟨by rw [c1, e, n], c2, by rw [c3, n]⟩
example : nior_n [1, 3] [4, 6] = [B - 6, B - 8] := by decide

/-- mpn_xnor_n -/
theorem xnor_n_spec (u v : List Nat) (hu : Limbs u) (hv : Limbs v) (hl : u.length = v.length) :
    val (xnor_n u v) = B ^ u.length - 1 - (val u ^^^ val v) ∧ Limbs (xnor_n u v) ∧
    (xnor_n u v).length = u.length := by
  obtain ⟨e, l, n⟩ := xor_n_spec u v hu hv hl
  obtain ⟨c1, c2, c3⟩ := com_n_val _ l
  rw [xnor_n_eq]; exact ⟨by rw [c1, e, n], c2, by rw [c3, n]⟩
example : xnor_n [1, 3] [4, 6] = [B - 6, B - 6] := by decide

/-- mpn_iorn_n: u OR NOT v = NOT (v AND NOT u) within n limbs -/
theorem iorn_n_spec (u v : List Nat) (hu : Limbs u) (hv : Limbs v) (hl : u.length = v.length) :
    val (iorn_n u v) = B ^ u.length - 1 - Nat.ldiff (val v) (val u) ∧ Limbs (iorn_n u v) ∧
    (iorn_n u v).length = u.length := by
  obtain ⟨e, l, n⟩ := andn_n_spec v u hv hu hl.symm
  obtain ⟨c1, c2, c3⟩ := com_n_val _ l
  rw [iorn_n_eq u v hu hv]; exact ⟨by rw [c1, e, n, hl], c2, by rw [c3, n, hl]⟩
example : iorn_n [1, 0] [B - 1, 0xff] = [1, B - 256] := by decide

/-! ## mpn_scan1 / mpn_scan0 (inside the C's documented precondition: a matching bit exists) -/

/-- mpn_scan1: the first one bit at or after `start`. -/
theorem mpn_scan1_spec (u : List Nat) (hu : Limbs u) (start : Nat)
    (hpre : ∃ j, start ≤ j ∧ (val u).testBit j = true) :
    ∃ r, mpn_scan1 u start = some r ∧ start ≤ r ∧ (val u).testBit r = true ∧
      ∀ j, start ≤ j → j < r → (val u).testBit j = false :=
  mpn_scan1_correct u hu start hpre
example : mpn_scan1 [0, 0, 0x50] 7 = some 132 ∧ mpn_scan1 [0xff, 0] 3 = some 3 := by decide

/-- mpn_scan0: the first zero bit at or after `start` (one must exist inside the operand). -/
theorem mpn_scan0_spec (u : List Nat) (hu : Limbs u) (start : Nat)
    (hpre : ∃ j, start ≤ j ∧ j / 64 < u.length ∧ (val u).testBit j = false) :
    ∃ r, mpn_scan0 u start = some r ∧ start ≤ r ∧ r / 64 < u.length ∧ (val u).testBit r = false ∧
      ∀ j, start ≤ j → j < r → (val u).testBit j = true :=
  mpn_scan0_correct u hu start hpre
example : mpn_scan0 [B - 1, B - 1, 0x2f] 7 = some 132 ∧ mpn_scan0 [0xf0, 0] 5 = some 8 := by decide

/-! ## mpz_and / mpz_ior / mpz_xor / mpz_com: all four sign combinations, any lengths, result well formed -/

/-- mpz_and equals Mathlib's two's-complement `Int.land`; the result is well formed (in particular in the
    case -,- where the result is one limb longer than both operands). -/
theorem mpz_and_spec (a b : Z) (ha : a.WF) (hb : b.WF) :
    (mpz_and a b).toInt = Int.land a.toInt b.toInt ∧ (mpz_and a b).WF := by
  rw [← land_eq]; exact mpz_and_land a b ha hb
-- -(B) & -(B^2-1) = -(B^2): grows a limb
example : mpz_and ⟨true, [0, 1]⟩ ⟨true, [B - 1, B - 1]⟩ = ⟨true, [0, 0, 1]⟩ := by decide
-- positive & negative with a low zero limb (borrow through |b| - 1)
example : mpz_and ⟨false, [B - 1, B - 1, 7]⟩ ⟨true, [0, 2]⟩ = ⟨false, [0, B - 2, 7]⟩ := by decide

/-- mpz_ior equals `Int.lor`. -/
theorem mpz_ior_spec (a b : Z) (ha : a.WF) (hb : b.WF) :
    (mpz_ior a b).toInt = Int.lor a.toInt b.toInt ∧ (mpz_ior a b).WF := by
  rw [← lor_eq]; exact mpz_ior_lor a b ha hb
example : mpz_ior ⟨false, [5]⟩ ⟨true, [0, 1]⟩ = ⟨true, [B - 5]⟩ := by decide
example : mpz_ior ⟨true, [0, 0, 1]⟩ ⟨true, [0, 3]⟩ = ⟨true, [0, 3]⟩ := by decide

/-- mpz_xor equals `Int.xor`. -/
theorem mpz_xor_spec (a b : Z) (ha : a.WF) (hb : b.WF) :
    (mpz_xor a b).toInt = Int.xor a.toInt b.toInt ∧ (mpz_xor a b).WF := by
  rw [← lxor_eq]; exact mpz_xor_lxor a b ha hb
-- (B-1) ^ -(1): a ^ (|b|-1) + 1 carries out of the limb
example : mpz_xor ⟨false, [B - 1]⟩ ⟨true, [1]⟩ = ⟨true, [0, 1]⟩ := by decide
example : mpz_xor ⟨true, [0, 1]⟩ ⟨true, [0, 1]⟩ = ⟨false, []⟩ := by decide

/-- mpz_com: `~x = -x - 1` (`Int.lnot`, which is also core's `~~~`). -/
theorem mpz_com_spec (a : Z) (ha : a.WF) :
    (mpz_com a).toInt = Int.lnot a.toInt ∧ (mpz_com a).toInt = -a.toInt - 1 ∧ (mpz_com a).WF := by
  obtain ⟨h1, h2⟩ := mpz_com_lnot a ha
  refine ⟨by rw [← lnot_eq]; exact h1, ?_, h2⟩
  rw [h1, lnot_eq_neg]
example : mpz_com ⟨false, [B - 1, B - 1]⟩ = ⟨true, [0, 0, 1]⟩ := by decide
example : mpz_com ⟨true, [0, 0, 1]⟩ = ⟨false, [B - 1, B - 1]⟩ := by decide

/-! ## mpz_tstbit -/

/-- mpz_tstbit returns bit `i` of the infinite two's-complement expansion (`Int.testBit`), for every index:
    below, inside and beyond the operand, both signs. -/
theorem tstbit_spec (u : Z) (hu : u.WF) (i : Nat) :
    mpz_tstbit u i = if Int.testBit u.toInt i then 1 else 0 := by
  rw [← testBit_eq]; exact mpz_tstbit_testBit u hu i
-- -(B^2) : bits 0..127 are 0, bit 128 and everything above is 1
example : (mpz_tstbit ⟨true, [0, 0, 1]⟩ 127, mpz_tstbit ⟨true, [0, 0, 1]⟩ 128, mpz_tstbit ⟨true, [0, 0, 1]⟩ 100000)
    = (0, 1, 1) := by decide
example : (mpz_tstbit ⟨true, [0, 6]⟩ 64, mpz_tstbit ⟨true, [0, 6]⟩ 65, mpz_tstbit ⟨true, [0, 6]⟩ 66) = (0, 1, 0) := by decide

/-! ## mpz_setbit / mpz_clrbit / mpz_combit: every index (below, inside, far above the operand), both signs -/

/-- mpz_setbit: `x | 2^i` in two's complement; the result is well formed (for a negative operand the
    magnitude shrinks and the high limb may vanish). -/
theorem setbit_spec (d : Z) (hd : d.WF) (i : Nat) :
    (mpz_setbit d i).toInt = Int.lor d.toInt ((2 : Int) ^ i) ∧ (mpz_setbit d i).WF := by
  rw [← ofNat_two_pow, ← lor_eq]; exact mpz_setbit_lor d hd i
-- -(B^2) | 2^5 = -(B^2 - 32): borrow through two limbs, the top limb disappears
example : mpz_setbit ⟨true, [0, 0, 1]⟩ 5 = ⟨true, [B - 32, B - 1]⟩ := by decide
example : mpz_setbit ⟨false, [7]⟩ 130 = ⟨false, [7, 0, 4]⟩ := by decide

/-- mpz_clrbit: `x & ~2^i` in two's complement (for a negative operand the magnitude grows, possibly by a
    limb). -/
theorem clrbit_spec (d : Z) (hd : d.WF) (i : Nat) :
    (mpz_clrbit d i).toInt = Int.land d.toInt (Int.lnot ((2 : Int) ^ i)) ∧ (mpz_clrbit d i).WF := by
  rw [← ofNat_two_pow, ← lnot_eq, ← land_eq]; exact mpz_clrbit_land d hd i
-- -(B^2 - 32) & ~2^5 = -(B^2): the carry runs off the end, one more limb
example : mpz_clrbit ⟨true, [B - 32, B - 1]⟩ 5 = ⟨true, [0, 0, 1]⟩ := by decide
example : mpz_clrbit ⟨false, [7, 0, 4]⟩ 130 = ⟨false, [7]⟩ := by decide
example : mpz_clrbit ⟨true, [5]⟩ 200 = ⟨true, [5, 0, 0, 256]⟩ := by decide

/-- mpz_combit: `x ^ 2^i` in two's complement. -/
theorem combit_spec (d : Z) (hd : d.WF) (i : Nat) :
    (mpz_combit d i).toInt = Int.xor d.toInt ((2 : Int) ^ i) ∧ (mpz_combit d i).WF := by
  rw [← ofNat_two_pow, ← lxor_eq]; exact mpz_combit_lxor d hd i
example : mpz_combit ⟨true, [B - 32, B - 1]⟩ 5 = ⟨true, [0, 0, 1]⟩ := by decide
example : mpz_combit ⟨true, [0, 0, 1]⟩ 5 = ⟨true, [B - 32, B - 1]⟩ := by decide
example : mpz_combit ⟨false, [0, 1]⟩ 64 = ⟨false, []⟩ := by decide

/-! ## popcount -/

/-- mpn_popcount: the number of one bits of the vector (= sum of the binary digits of its value). -/
theorem mpn_popcount_spec (u : List Nat) (hu : Limbs u) : mpn_popcount u = (Nat.digits 2 (val u)).sum := by
  rw [mpn_popcount_eq u hu, popcount_eq_digits]
example : mpn_popcount [B - 1, 0, 5] = 66 := by decide

/-- mpn_hamdist: the number of differing bit positions. -/
theorem mpn_hamdist_spec (u v : List Nat) (hu : Limbs u) (hv : Limbs v) (hl : u.length = v.length) :
    mpn_hamdist u v = (Nat.digits 2 (val u ^^^ val v)).sum := by
  obtain ⟨e, l, _⟩ := xor_n_spec u v hu hv hl
  rw [← e, ← mpn_popcount_spec _ l]; rfl
example : mpn_hamdist [B - 1, 1] [0, 3] = 65 := by decide

/-- mpz_popcount: the bit count for non-negative operands, the largest mp_bitcnt_t for negative ones (whose
    two's-complement expansion has infinitely many ones). -/
theorem popcount_spec (u : Z) (hu : u.WF) :
    mpz_popcount u = if u.toInt < 0 then BITCNT_MAX else (Nat.digits 2 u.toInt.toNat).sum := by
  rw [mpz_popcount_eq u hu, popcount_eq_digits]
example : mpz_popcount ⟨false, [B - 1, 0, 5]⟩ = 66 ∧ mpz_popcount ⟨true, [1]⟩ = 2 ^ 64 - 1 ∧
    mpz_popcount ⟨false, []⟩ = 0 := by decide

/-! ## mpz_scan1 / mpz_scan0 -/

/-- mpz_scan1: the first index ≥ start whose two's-complement bit is 1; the largest mp_bitcnt_t when there is
    none (non-negative operand, start beyond its highest one bit).  Any start, also far beyond the operand. -/
theorem scan1_spec (u : Z) (hu : u.WF) (start : Nat) :
    ((∃ j, start ≤ j ∧ Int.testBit u.toInt j = true) →
      start ≤ mpz_scan1 u start ∧ Int.testBit u.toInt (mpz_scan1 u start) = true ∧
      ∀ j, start ≤ j → j < mpz_scan1 u start → Int.testBit u.toInt j = false) ∧
    ((∀ j, start ≤ j → Int.testBit u.toInt j = false) → mpz_scan1 u start = BITCNT_MAX) :=
  first_or_max (b := true) (mpz_scan1_cases u hu start)
-- -(2^64 * 6): first one at bit 65; beyond the operand the answer is the start itself; none for a positive number
example : mpz_scan1 ⟨true, [0, 6]⟩ 3 = 65 ∧ mpz_scan1 ⟨true, [0, 6]⟩ 66 = 67 ∧ mpz_scan1 ⟨true, [0, 6]⟩ 1000 = 1000 ∧
    mpz_scan1 ⟨false, [0, 6]⟩ 67 = 2 ^ 64 - 1 := by decide

/-- mpz_scan0: the first index ≥ start whose two's-complement bit is 0; the largest mp_bitcnt_t when there is
    none (negative operand, start beyond its highest zero bit). -/
theorem scan0_spec (u : Z) (hu : u.WF) (start : Nat) :
    ((∃ j, start ≤ j ∧ Int.testBit u.toInt j = false) →
      start ≤ mpz_scan0 u start ∧ Int.testBit u.toInt (mpz_scan0 u start) = false ∧
      ∀ j, start ≤ j → j < mpz_scan0 u start → Int.testBit u.toInt j = true) ∧
    ((∀ j, start ≤ j → Int.testBit u.toInt j = true) → mpz_scan0 u start = BITCNT_MAX) :=
  first_or_max (b := false) (mpz_scan0_cases u hu start)
example : mpz_scan0 ⟨false, [B - 1, 7]⟩ 3 = 67 ∧ mpz_scan0 ⟨true, [0, 6]⟩ 65 = 66 ∧ mpz_scan0 ⟨true, [0, 6]⟩ 67 = 2 ^ 64 - 1 ∧
    mpz_scan0 ⟨true, [0, 6]⟩ 5 = 5 ∧ mpz_scan0 ⟨false, [B - 1, 7]⟩ 500 = 500 := by decide

/-! ## mpz_hamdist -/

/-- mpz_hamdist: the number of differing bit positions of the two infinite two's-complement expansions when
    the signs agree (the xor is then non-negative), the largest mp_bitcnt_t when they differ (infinitely many
    positions differ).  Any lengths, any number of low zero limbs on either side. -/
theorem hamdist_spec (u v : Z) (hu : u.WF) (hv : v.WF) :
    mpz_hamdist u v = if (u.toInt < 0 ↔ v.toInt < 0) then (Nat.digits 2 (Int.xor u.toInt v.toInt).toNat).sum
      else BITCNT_MAX := by
  rw [mpz_hamdist_eq u v hu hv, ← lxor_eq, ← popcount_eq_digits]
  unfold specHamdist
  by_cases h1 : u.toInt < 0 <;> by_cases h2 : v.toInt < 0 <;> simp [h1, h2]
-- -(B^2) vs -(3B): |a|-1 = [B-1,B-1], |b|-1 = [B-1,2]: 63 differing bits; opposite signs: maximum
example : mpz_hamdist ⟨true, [0, 0, 1]⟩ ⟨true, [0, 3]⟩ = 63 ∧ mpz_hamdist ⟨true, [5]⟩ ⟨false, [5]⟩ = 2 ^ 64 - 1 ∧
    mpz_hamdist ⟨false, [B - 1, 1]⟩ ⟨false, [0, 3, 1]⟩ = 66 := by decide

/-! ## the well-formedness hypotheses cover every integer -/

/-- `Z.ofInt` (what the driver feeds the models) represents every integer by a well-formed operand, so the
    theorems above quantify over all of ℤ: e.g. the three binary operations on arbitrary integers. -/
theorem bitops_on_all_integers (x y : Int) :
    (Z.ofInt x).WF ∧ (Z.ofInt x).toInt = x ∧
    (mpz_and (Z.ofInt x) (Z.ofInt y)).toInt = Int.land x y ∧
    (mpz_ior (Z.ofInt x) (Z.ofInt y)).toInt = Int.lor x y ∧
    (mpz_xor (Z.ofInt x) (Z.ofInt y)).toInt = Int.xor x y ∧
    (mpz_com (Z.ofInt x)).toInt = -x - 1 := by
  obtain ⟨ex, wx⟩ := ofInt_spec x
  obtain ⟨ey, wy⟩ := ofInt_spec y
  refine ⟨wx, ex, ?_, ?_, ?_, ?_⟩
  · rw [(mpz_and_spec _ _ wx wy).1, ex, ey]
  · rw [(mpz_ior_spec _ _ wx wy).1, ex, ey]
  · rw [(mpz_xor_spec _ _ wx wy).1, ex, ey]
  · rw [(mpz_com_spec _ wx).2.1, ex]
example : Z.ofInt (-(2 ^ 64)) = ⟨true, [0, 1]⟩ := by
  unfold Z.ofInt; rw [natLimbs, dif_neg (by decide), natLimbs, dif_neg (by decide), natLimbs]; decide

end Mpir.Bits
