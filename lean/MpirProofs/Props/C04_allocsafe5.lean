/-
  C04, object-layer memory safety as theorems — fourth continuation (statement shape `Safe` of C04_allocsafe.lean: `ok = true`,
  destination well formed, every other variable untouched, value-level view = the list-level result): mpz_import, mpz_lcm, mpz_gcd.
  Models: Mpir/Model/AllocSafeMpz5.lean.  Helper lemmas: MpirProofs/Lemmas/AllocSafeMpz5.lean.
  Tied by ops `as5_*` (harness/ops_allocsafe5.c; ALLOC SIZ value compared exactly) and pins on every C file mirrored.
-/
import MpirProofs.Props.C04_allocsafe4
import MpirProofs.Lemmas.AllocSafeMpz5
namespace Mpir.AllocSafe5
open Mpir Mpir.AllocSafe
open Mpir.Mpz (sgn Norm)

/-- a small heap for the examples: 0 = one limb allocated, value 0; 1 = B^2 - 1 (exact block); 2 = the value 6; 3 = scratch -/
def ex6 : St := ⟨fun i => if i = 0 then ⟨0, 0, ⟨1, [junk]⟩⟩ else if i = 1 then ⟨2, 0, ⟨2, [B - 1, B - 1]⟩⟩
                 else ⟨1, 0, ⟨1, [6]⟩⟩, true⟩

/-! ## mpz_import (mpz/import.c) -/

/-- The number of limbs mpz_import stores through `zp` is exactly the `zsize = ceil (count * (8*size - nail) / 64)` it requests from
    MPZ_REALLOC (import.c:51-52), on every path: the three word-sized fast paths store `count` limbs (MPN_COPY / MPN_BSWAP /
    MPN_REVERSE), the generic byte loop stores one limb each time 64 bits have been accumulated (`ACCUMULATE`, invariant
    `lbits < 64`) and one more for a partial last limb — the C's `ASSERT (zp == PTR(z) + zsize)` (import.c:159) as a theorem, for every
    count, order, size, endian, nail, alignment and data. -/
theorem importLimbs_length (count : Nat) (order : Int) (size : Nat) (endian : Int) (nail align : Nat) (data : List Nat) :
    (importLimbs count order size endian nail align data).1.length = (count * (8 * size - nail) + 63) / 64 := by
  unfold importLimbs
  generalize (if endian == 0 then (-1 : Int) else endian) = e
  unfold importLimbsE
  split
  · rename_i h
    simp only [Bool.and_eq_true, beq_iff_eq] at h
    obtain ⟨⟨⟨⟨hn, _⟩, hsz⟩, _⟩, _⟩ := h
    subst hn hsz
    simp only [List.length_map, List.length_range]; omega
  · split
    · rename_i _ h
      simp only [Bool.and_eq_true, beq_iff_eq] at h
      obtain ⟨⟨⟨⟨hn, _⟩, hsz⟩, _⟩, _⟩ := h
      subst hn hsz
      simp only [List.length_map, List.length_range]; omega
    · split
      · rename_i _ _ h
        simp only [Bool.and_eq_true, beq_iff_eq] at h
        obtain ⟨⟨⟨⟨hn, _⟩, hsz⟩, _⟩, _⟩ := h
        subst hn hsz
        simp only [List.length_map, List.length_range]; omega
      · rw [Nat.mul_comm 8 size]
        exact (importGeneric_spec count order size e nail data).1

/-- everything mpz_import stores is a limb (`ASSERT_LIMB (limb)`, import.c:155) -/
theorem importLimbs_limbs (count : Nat) (order : Int) (size : Nat) (endian : Int) (nail align : Nat) (data : List Nat) :
    Limbs (importLimbs count order size endian nail align data).1 := by
  unfold importLimbs
  generalize (if endian == 0 then (-1 : Int) else endian) = e
  unfold importLimbsE
  split
  · exact Limbs_map_range (leLimb data) count (leLimb_lt data)
  · split
    · exact Limbs_map_range (beLimb data) count (beLimb_lt data)
    · split
      · exact Limbs_map_range (fun i => leLimb data (count - 1 - i)) count (fun i => leLimb_lt data (count - 1 - i))
      · exact (importGeneric_spec count order size e nail data).2

-- three 3-byte words with 5 nail bits each, most significant first, big-endian bytes: 57 bits in one limb;
-- nine bytes of 0xff: 72 bits, a second (partial) limb
example : importLimbs 3 1 3 1 5 0 [0xff, 0xff, 0xff, 1, 2, 3, 4, 5, 6] = ([144114947827959046], true) := by decide
example : (importLimbs 9 (-1) 1 0 0 3 (List.replicate 9 255)).1 = [B - 1, 255] := by decide

/-- mpz_import (mpz/import.c), every allocation of z, every count / order / size / endian / nail / alignment / data:
    `MPZ_REALLOC (z, zsize)` makes room for every limb the fast paths and the byte loop store, MPN_NORMALIZE reads only what was
    stored, z ends well formed and non-negative with the value of the stored limbs, nothing else is touched. -/
theorem mpz_import_alloc_safe (s : St) (z count : Nat) (order : Int) (size : Nat) (endian : Int) (nail align : Nat)
    (data : List Nat) (hs : s.ok = true) (hz : OWF (s.h z)) :
    Safe s (mpz_import s z count order size endian nail align data) z
      ⟨(Mpz.grow (view (s.h z)) ((count * (8 * size - nail) + 63) / 64)).alloc,
       ((normalize (importLimbs count order size endian nail align data).1).length : Nat),
       normalize (importLimbs count order size endian nail align data).1⟩ ∧
    Mpz.toInt (view ((mpz_import s z count order size endian nail align data).h z)) =
      (val (importLimbs count order size endian nail align data).1 : Nat) := by
  have hlen := importLimbs_length count order size endian nail align data
  have hlimbs := importLimbs_limbs count order size endian nail align data
  unfold mpz_import import_
  simp only [Nat.sub_zero]
  generalize (importLimbs count order size endian nail align data).1 = L at *
  rw [← hlen]
  have G := MPZ_REALLOC_grown s z L.length hz
  have T := tail_norm (MPZ_REALLOC s z L.length) z L false true (by rw [G.ok]; exact hs) rfl (G.bwf z hz.1) hlimbs G.room
  simp only [chk_true] at T
  have R : Refines s _ z _ := Refines.of_grown G T
  rw [← G.alloc]
  have hN := Mpz.Norm_normalize hlimbs
  have hle := Mpz.normalize_length_le L
  have hroom := G.room
  have h1 : 1 ≤ ((MPZ_REALLOC s z L.length).h z).buf.alloc := by
    have := G.mono z; have := hz.2.1; simp only [view] at this; omega
  have S := R.safe ⟨h1, by simp [sgn]; omega, by simp [sgn], hN.1, hN.2⟩
  simp only [sgn, Bool.false_eq_true, if_false] at S
  refine ⟨S, ?_⟩
  rw [S.2.2.2]
  simp [Mpz.toInt, Mpz.val_normalize]

-- 16 bytes into a one-limb variable: grown to 2 limbs; a high zero word is normalised away without a reallocation being needed
example : let s := mpz_import ex 0 2 (-1) 8 0 0 0 ([1, 0, 0, 0, 0, 0, 0, 0, 2, 0, 0, 0, 0, 0, 0, 0]);
    s.ok = true ∧ view (s.h 0) = ⟨2, 2, [1, 2]⟩ := by decide
example : view ((mpz_import ex 0 2 1 8 0 0 1 ([0, 0, 0, 0, 0, 0, 0, 0, 2, 0, 0, 0, 0, 0, 0, 0])).h 0) = ⟨2, 1, [2]⟩ := by decide
-- negative: `MPZ_REALLOC (z, zsize - 1)` — the second limb leaves the block
example : (import_ 1 ex 0 2 (-1) 8 0 0 0 ([1, 0, 0, 0, 0, 0, 0, 0, 2, 0, 0, 0, 0, 0, 0, 0])).ok = false := by decide

/-! ## mpz_lcm (mpz/lcm.c) -/

theorem toInt_natAbs (m : Mpz.Mpz) : (Mpz.toInt m).natAbs = val m.d := by
  unfold Mpz.toInt; split <;> simp

/-- mpz_lcm (mpz/lcm.c), the arm `vsize == 1` (label `one`, lcm.c:44-64), u ≠ 0, every allocation and every alias pattern
    (r may be u and / or v): `MPZ_REALLOC (r, usize+1)` covers the `usize` limbs of mpn_mul_1 and the carry limb `rp[usize] = c`
    that is stored unconditionally; `up` and `PTR(v)[0]` are fetched after the reallocation; the result is well formed, positive,
    equal to lcm (|u|, |v|); nothing else is touched.
    PARTIAL: the full statement is the same conclusion for every u, v (lcm 0 for a zero operand; the arm `usize == 1` is this one
    with u, v exchanged; the general arm goes through mpz_gcd / mpz_divexact / mpz_mul on the temporary g and is run only). -/
theorem mpz_lcm_one_alloc_safe_partial (s : St) (r u v gid : Nat) (hs : s.ok = true)
    (hr : OWF (s.h r)) (hu : OWF (s.h u)) (hv : OWF (s.h v)) (hu0 : (s.h u).size ≠ 0) (hv1 : (s.h v).size.natAbs = 1) :
    Safe s (mpz_lcm s r u v gid) r (Spec.lcmOne (view (s.h r)) (view (s.h u)) ((view (s.h v)).d.headD junk)) ∧
    Mpz.toInt (view ((mpz_lcm s r u v gid).h r)) =
      (Nat.lcm (Mpz.toInt (view (s.h u))).natAbs (Mpz.toInt (view (s.h v))).natAbs : Nat) := by
  have hv0 : (s.h v).size ≠ 0 := by omega
  have e : mpz_lcm s r u v gid = lcmOne 1 s r u v (s.h u).size.natAbs := by
    unfold mpz_lcm lcm_
    simp [St.SIZ, hu0, hv0, hv1]
  rw [e]
  have R := lcmOne_refines s r u v hs hr hu hv (by omega)
  have hvl := view_d_length hv
  obtain ⟨x, hd⟩ := List.length_eq_one_iff.mp (hvl.trans hv1)
  have hx : x < B := view_limbs hv x (by rw [hd]; simp)
  have hx0 : x ≠ 0 := by
    have := hv.2.2.2.2.2
    rw [hd] at this
    intro h; subst h; simp at this
  have E := Spec.lcmOne_spec (view (s.h r)) (view (s.h u)) x hr.2.1 hu.2 hu0 hx hx0
  rw [hd] at R ⊢
  simp only [List.headD_cons] at R ⊢
  refine ⟨R.safe E.1, ?_⟩
  rw [R.view, E.2, toInt_natAbs, toInt_natAbs, hd]
  simp [val]

-- lcm (B^2 - 1, 6) = 2 (B^2 - 1) into the one-limb variable 0 (grown to 3 limbs), and in place over u
example : let s := mpz_lcm ex6 0 1 2 3; s.ok = true ∧ view (s.h 0) = ⟨3, 3, [B - 2, B - 1, 1]⟩ := by decide
example : let s := mpz_lcm ex6 1 1 2 3; s.ok = true ∧ view (s.h 1) = ⟨3, 3, [B - 2, B - 1, 1]⟩ := by decide
-- negative: `MPZ_REALLOC (r, usize)` — the carry limb `rp[usize] = c` leaves the block
example : (lcm_ 0 ex6 0 1 2 3).ok = false := by decide

/-- the arm `one` of mpz_lcm as a statement about `lcmOne` (u and v in either role) -/
theorem lcmOne_safe (s : St) (r u v : Nat) (hs : s.ok = true)
    (hr : OWF (s.h r)) (hu : OWF (s.h u)) (hv : OWF (s.h v)) (hu0 : (s.h u).size ≠ 0) (hv1 : (s.h v).size.natAbs = 1) :
    Safe s (lcmOne 1 s r u v (s.h u).size.natAbs) r (Spec.lcmOne (view (s.h r)) (view (s.h u)) ((view (s.h v)).d.headD junk)) ∧
    Mpz.toInt (Spec.lcmOne (view (s.h r)) (view (s.h u)) ((view (s.h v)).d.headD junk)) =
      (Nat.lcm (Mpz.toInt (view (s.h u))).natAbs (Mpz.toInt (view (s.h v))).natAbs : Nat) := by
  have R := lcmOne_refines s r u v hs hr hu hv (by omega)
  have hvl := view_d_length hv
  obtain ⟨x, hd⟩ := List.length_eq_one_iff.mp (hvl.trans hv1)
  have hx : x < B := view_limbs hv x (by rw [hd]; simp)
  have hx0 : x ≠ 0 := by
    have := hv.2.2.2.2.2
    rw [hd] at this
    intro h; subst h; simp at this
  have E := Spec.lcmOne_spec (view (s.h r)) (view (s.h u)) x hr.2.1 hu.2 hu0 hx hx0
  rw [hd] at R ⊢
  simp only [List.headD_cons] at R ⊢
  refine ⟨R.safe E.1, ?_⟩
  rw [E.2, toInt_natAbs, toInt_natAbs, hd]
  simp [val]

/-- mpz_lcm (mpz/lcm.c), every arm before TMP_MARK (lcm.c:36-71: a zero operand, v of one limb, u of one limb — the last one
    is the label `one` reached by `goto` with u and v exchanged), every allocation and alias pattern: the result is well formed
    and equal to lcm (|u|, |v|) (0 for a zero operand, where nothing but `SIZ (r)` is written); nothing else is touched.
    PARTIAL: the full statement has no `hsmall`; the general arm (lcm.c:73-83) is run only. -/
theorem mpz_lcm_small_alloc_safe_partial (s : St) (r u v gid : Nat) (hs : s.ok = true)
    (hr : OWF (s.h r)) (hu : OWF (s.h u)) (hv : OWF (s.h v))
    (hsmall : (s.h u).size.natAbs ≤ 1 ∨ (s.h v).size.natAbs ≤ 1) :
    ∃ m, Safe s (mpz_lcm s r u v gid) r m ∧
      Mpz.toInt m = (Nat.lcm (Mpz.toInt (view (s.h u))).natAbs (Mpz.toInt (view (s.h v))).natAbs : Nat) := by
  have ha : 1 ≤ (s.h r).buf.alloc := by have := hr.2.1; simpa [view] using this
  have zero : Safe s (s.setSize r 0) r ⟨(s.h r).buf.alloc, 0, []⟩ :=
    ⟨by simpa using hs, ⟨by simpa using hr.1, by simp [view, Mpz.WF, ha, Limbs]⟩, fun x hx => setSize_other _ _ _ hx, by simp [view]⟩
  by_cases h0 : (s.h u).size = 0 ∨ (s.h v).size = 0
  · have e : mpz_lcm s r u v gid = s.setSize r 0 := by
      unfold mpz_lcm lcm_
      rcases h0 with h | h <;> simp [St.SIZ, h]
    rw [e]
    refine ⟨_, zero, ?_⟩
    rw [toInt_natAbs, toInt_natAbs]
    rcases h0 with h | h
    · have : (view (s.h u)).d = [] := by simp [view, h]
      rw [this]; simp [Mpz.toInt, val]
    · have : (view (s.h v)).d = [] := by simp [view, h]
      rw [this]; simp [Mpz.toInt, val]
  · have hu0 : (s.h u).size ≠ 0 := fun h => h0 (Or.inl h)
    have hv0 : (s.h v).size ≠ 0 := fun h => h0 (Or.inr h)
    by_cases hv1 : (s.h v).size.natAbs = 1
    · have e : mpz_lcm s r u v gid = lcmOne 1 s r u v (s.h u).size.natAbs := by
        unfold mpz_lcm lcm_
        simp [St.SIZ, hu0, hv0, hv1]
      rw [e]
      exact ⟨_, lcmOne_safe s r u v hs hr hu hv hu0 hv1⟩
    · have hu1 : (s.h u).size.natAbs = 1 := by omega
      have e : mpz_lcm s r u v gid = lcmOne 1 s r v u (s.h v).size.natAbs := by
        unfold mpz_lcm lcm_
        simp [St.SIZ, hu0, hv0, hv1, hu1]
      rw [e, Nat.lcm_comm]
      exact ⟨_, lcmOne_safe s r v u hs hr hv hu hv0 hu1⟩

-- lcm (6, B^2 - 1): u has one limb, the `goto one` with the operands exchanged; lcm (0, v) = 0 stores only the size
example : let s := mpz_lcm ex6 0 2 1 3; s.ok = true ∧ view (s.h 0) = ⟨3, 3, [B - 2, B - 1, 1]⟩ := by decide
example : let s := mpz_lcm ex6 1 0 1 3; s.ok = true ∧ view (s.h 1) = ⟨2, 0, []⟩ := by decide

/-- mpz_lcm, the general arm (lcm.c:73-83): mpz_gcd, mpz_divexact and mpz_mul as object-level callees on the temporary g, whose
    TMP block of MAX (usize, vsize) limbs is never reallocated -/
theorem lcmGeneral_safe (s : St) (r u v gid : Nat) (hs : s.ok = true) (hr : OWF (s.h r)) (hu : OWF (s.h u)) (hv : OWF (s.h v))
    (hgr : gid ≠ r) (hgu : gid ≠ u) (hgv : gid ≠ v)
    (hu2 : 2 ≤ (s.h u).size.natAbs) (hv2 : 2 ≤ (s.h v).size.natAbs) :
    ∃ m, Safe s (mpz_lcm s r u v gid) r m ∧
      Mpz.toInt m = (Nat.lcm (val (view (s.h u)).d) (val (view (s.h v)).d) : Nat) := by
  have c1 : ¬ (s.h u).size = 0 := by omega
  have c2 : ¬ (s.h v).size = 0 := by omega
  have c3 : ¬ (s.h u).size.natAbs = 1 := by omega
  have c4 : ¬ (s.h v).size.natAbs = 1 := by omega
  have hz : ((s.h u).size == 0 || (s.h v).size == 0) = false := by simp [c1, c2]
  have c3' : ((s.h u).size.natAbs == 1) = false := by simpa using c3
  have c4' : ((s.h v).size.natAbs == 1) = false := by simpa using c4
  unfold mpz_lcm lcm_
  simp only [St.SIZ, hz, c3', c4', Bool.false_eq_true, if_false]
  generalize hsz : max (s.h u).size.natAbs (s.h v).size.natAbs = size
  generalize hs0 : ({ s with h := upd s.h gid ⟨0, 0, Buf.new size⟩ } : St) = s0
  have h0o : ∀ x, x ≠ gid → s0.h x = s.h x := by intro x hx; rw [← hs0]; exact upd_other _ _ hx
  have h0g : s0.h gid = ⟨0, 0, Buf.new size⟩ := by rw [← hs0]; simp
  have h0ok : s0.ok = true := by rw [← hs0]; exact hs
  have hg0 : OWF (s0.h gid) := by
    rw [h0g]; exact ⟨BWF_new _, by simp [view, Mpz.WF, Buf.new, Limbs]; omega⟩
  have hu0 : OWF (s0.h u) := by rw [h0o u hgu.symm]; exact hu
  have hv0 : OWF (s0.h v) := by rw [h0o v hgv.symm]; exact hv
  have eu : s0.h u = s.h u := h0o u hgu.symm
  have ev : s0.h v = s.h v := h0o v hgv.symm
  -- mpz_gcd (g, u, v)
  obtain ⟨R, r1, r2, r3⟩ := gcdGeneral_refines s0 gid u v h0ok hg0 hu0 hv0 (by rw [eu]; exact hu2) (by rw [ev]; exact hv2)
  have hK := mpz_gcd_genOk s0 gid u v gid (by rw [eu]; exact hu2) (by rw [ev]; exact hv2)
  rw [eu, ev] at r3
  generalize mpz_gcd s0 gid u v = s1 at *
  have hUpos : 0 < val (view (s.h u)).d :=
    Mpz.Norm.pos ⟨view_limbs hu, hu.2.2.2.2.2⟩ (by intro e; have := view_d_length hu; rw [e] at this; simp at this; omega)
  have hUlt : val (view (s.h u)).d < B ^ (s.h u).size.natAbs := by
    have := val_lt _ (view_limbs hu); rwa [view_d_length hu] at this
  have hgpos : 0 < val R := by rw [r3]; exact Nat.gcd_pos_of_pos_left _ hUpos
  have hRne : R ≠ [] := by intro e; rw [e] at hgpos; simp [val] at hgpos
  have hRlen : R.length ≤ (s.h u).size.natAbs := by
    by_contra hc
    have hRL : Limbs R := r2.2.2.2.1
    have hRN : R.getLast? ≠ some 0 := r2.2.2.2.2
    have h1 := Mpz.Norm.lower ⟨hRL, hRN⟩ hRne
    have h2 : B ^ (s.h u).size.natAbs ≤ B ^ (R.length - 1) := Nat.pow_le_pow_right B_pos (by omega)
    have h3 : val R ≤ val (view (s.h u)).d := by rw [r3]; exact Nat.gcd_le_left _ hUpos
    omega
  have hR1 : 1 ≤ R.length := by
    rcases R with _ | ⟨a, t⟩
    · exact absurd rfl hRne
    · simp
  have hv1 := r1.view
  have ha1 : (s1.h gid).buf.alloc = size := by
    have : (view (s1.h gid)).alloc = max (s0.h gid).buf.alloc R.length := by rw [hv1]
    simp only [view, h0g, Buf.new] at this; rw [this]; omega
  have hsz1 : (s1.h gid).size = (R.length : Nat) := by
    have : (view (s1.h gid)).size = (R.length : Nat) := by rw [hv1]
    simpa [view] using this
  have hgen1 : (s1.h gid).gen = 0 := by
    rcases hK with ⟨h, _⟩ | h
    · rw [h, h0g]
    · rw [ha1, h0g] at h; simp [Buf.new] at h
  have hg1 : OWF (s1.h gid) := ⟨r1.bwf, by rw [hv1]; exact r2⟩
  have e1 : ∀ x, x ≠ gid → s1.h x = s.h x := fun x hx => (r1.frame x hx).trans (h0o x hx)
  have hu1 : OWF (s1.h u) := by rw [e1 u hgu.symm]; exact hu
  -- mpz_divexact (g, u, g)
  obtain ⟨d1, d2, d3, d4, d5, d6⟩ := divexact_tmp s1 gid u r1.ok hg1 hu1
    (by rw [hsz1, e1 u hgu.symm]; simpa using hRlen) (by rw [hsz1]; simpa using hR1)
    (by rw [hsz1, e1 u hgu.symm, ha1]; simp only [Int.natAbs_natCast]; omega)
  have hd6 : (Mpz.toInt (view ((divexact s1 gid u gid).h gid))).natAbs =
      val (view (s.h u)).d / Nat.gcd (val (view (s.h u)).d) (val (view (s.h v)).d) := by
    rw [d6, e1 u hgu.symm, hv1, r3]
  generalize divexact s1 gid u gid = s2 at *
  have hc : ((s2.h gid).gen == 0) = true := by rw [d4, hgen1]; rfl
  rw [hc, chk_true]
  have e2 : ∀ x, x ≠ gid → s2.h x = s.h x := fun x hx => (d3 x hx).trans (e1 x hx)
  -- mpz_mul (r, g, v)
  obtain ⟨M, mv⟩ := mpz_mul_alloc_safe 17 s2 r gid v d1 (by rw [e2 r hgr.symm]; exact hr) d2 (by rw [e2 v hgv.symm]; exact hv)
  have emul : mpz_mul s2 r gid v = mul 17 true 1 s2 r gid v := rfl
  rw [emul]
  generalize mul 17 true 1 s2 r gid v = s4 at *
  obtain ⟨m1, m2, m3, m4⟩ := M
  refine ⟨⟨(s4.h r).buf.alloc, ((s4.h r).size.natAbs : Nat), (view (s4.h r)).d⟩, ⟨m1, ?_, ?_, ?_⟩, ?_⟩
  · -- r well formed
    have hx : ({ (s4.setSize r ((s4.h r).size.natAbs : Nat)) with
        h := upd (s4.setSize r ((s4.h r).size.natAbs : Nat)).h gid (s.h gid) } : St).h r =
        (s4.setSize r ((s4.h r).size.natAbs : Nat)).h r := upd_other _ _ hgr.symm
    rw [hx]
    obtain ⟨w1, w2, w3, w4, w5⟩ := m2.2
    refine ⟨by simpa using m2.1, ?_⟩
    simp only [view, St.setSize, upd_same, Int.natAbs_natCast] at w1 w2 w3 w4 w5 ⊢
    exact ⟨w1, w2, w3, w4, w5⟩
  · intro x hx
    by_cases hxg : x = gid
    · subst hxg; simp [upd]
    · show (upd (s4.setSize r ((s4.h r).size.natAbs : Nat)).h gid (s.h gid)) x = s.h x
      rw [upd_other _ _ hxg, setSize_other _ _ _ hx, m3 x hx, e2 x hxg]
  · show view ((upd (s4.setSize r ((s4.h r).size.natAbs : Nat)).h gid (s.h gid)) r) = _
    rw [upd_other _ _ hgr.symm]
    simp [view, St.setSize, Int.natAbs_abs]
  · have hmv : (Mpz.toInt (view (s4.h r))).natAbs =
        val (view (s.h u)).d / Nat.gcd (val (view (s.h u)).d) (val (view (s.h v)).d) * val (view (s.h v)).d := by
      rw [mv, Int.natAbs_mul, hd6, e2 v hgv.symm, toInt_natAbs']
    rw [toInt_natAbs'] at hmv
    have : Mpz.toInt ⟨(s4.h r).buf.alloc, ((s4.h r).size.natAbs : Nat), (view (s4.h r)).d⟩ = (val (view (s4.h r)).d : Nat) := by
      simp [Mpz.toInt]
    rw [this, hmv]
    congr 1
    obtain ⟨k, hk⟩ := Nat.gcd_dvd_left (val (view (s.h u)).d) (val (view (s.h v)).d)
    have hg' : 0 < Nat.gcd (val (view (s.h u)).d) (val (view (s.h v)).d) := Nat.gcd_pos_of_pos_left _ hUpos
    unfold Nat.lcm
    generalize Nat.gcd (val (view (s.h u)).d) (val (view (s.h v)).d) = gg at *
    rw [hk, Nat.mul_div_cancel_left _ hg', Nat.mul_assoc, Nat.mul_div_cancel_left _ hg']

/-- mpz_lcm (mpz/lcm.c), EVERY arm, every heap, every allocation of r, every alias pattern among r, u, v (the temporary g is a
    heap id different from them): `ok` stays true — in particular the limbs of g, `MPZ_TMP_INIT (g, MAX (usize, vsize))` TMP
    memory, are never handed to the reallocation function: mpz_gcd needs at most min (usize, vsize) limbs (its result divides
    u), mpz_divexact (g, u, g) requests usize - gsize + 1 ≤ usize limbs and goes through its own temporary quotient because
    quot == den —, r ends well formed and non-negative (`SIZ (r) = ABS (SIZ (r))` after mpz_mul, which sizes r itself), every
    other variable is unchanged (what was at g's id is restored: TMP_FREE), and the value is lcm (|u|, |v|).
    Callees by contract: mpn_gcd_1 / mpn_gcd (value, C07), mpn_divexact (exactly nn - dn + 1 quotient limbs, value num / den),
    mpn_mul (C01, through `mpz_mul_alloc_safe`). -/
theorem mpz_lcm_alloc_safe (s : St) (r u v gid : Nat) (hs : s.ok = true)
    (hr : OWF (s.h r)) (hu : OWF (s.h u)) (hv : OWF (s.h v)) (hgr : gid ≠ r) (hgu : gid ≠ u) (hgv : gid ≠ v) :
    ∃ m, Safe s (mpz_lcm s r u v gid) r m ∧
      Mpz.toInt m = (Nat.lcm (Mpz.toInt (view (s.h u))).natAbs (Mpz.toInt (view (s.h v))).natAbs : Nat) := by
  by_cases hsmall : (s.h u).size.natAbs ≤ 1 ∨ (s.h v).size.natAbs ≤ 1
  · exact mpz_lcm_small_alloc_safe_partial s r u v gid hs hr hu hv hsmall
  · rw [toInt_natAbs, toInt_natAbs]
    exact lcmGeneral_safe s r u v gid hs hr hu hv hgr hgu hgv (by omega) (by omega)

/-! ## mpz_gcd (mpz/gcd.c) -/

/-- mpz_gcd (mpz/gcd.c), the arms before TMP_MARK (gcd.c:44-77: u = 0, v = 0, u of one limb, v of one limb), every allocation and
    every alias pattern (g may be u and / or v): in the zero arms `SIZ (g)` is stored BEFORE `MPZ_REALLOC (g, size)` — harmless,
    because `_mpz_realloc` only clears a value that exceeds the NEW allocation —, the operand pointer fetched at gcd.c:39-41 is
    still live at the MPN_COPY because g is then a different variable; the one-limb arms store `PTR (g)[0]` without any
    reallocation (a block never has zero limbs) after the last read of the operands.  g ends well formed and equal to
    gcd (|u|, |v|); nothing else is touched.
    PARTIAL: the full statement is the same conclusion without `hsmall`; missing is the general arm gcd.c:79-155 (`gcdGeneral`:
    TMP copies, mpn_gcd by contract, `MPZ_REALLOC (g, gsize)` against the re-shift with `cy_limb`) — run only, with the negative
    variants below. -/
theorem mpz_gcd_small_alloc_safe_partial (s : St) (g u v : Nat) (hs : s.ok = true)
    (hg : OWF (s.h g)) (hu : OWF (s.h u)) (hv : OWF (s.h v))
    (hsmall : (s.h u).size.natAbs ≤ 1 ∨ (s.h v).size.natAbs ≤ 1) :
    ∃ m, Safe s (mpz_gcd s g u v) g m ∧
      Mpz.toInt m = (Nat.gcd (Mpz.toInt (view (s.h u))).natAbs (Mpz.toInt (view (s.h v))).natAbs : Nat) := by
  rw [toInt_natAbs, toInt_natAbs]
  have ha : 1 ≤ (s.h g).buf.alloc := by have := hg.2.1; simpa [view] using this
  have zeroWF : ∀ {x : Nat}, OWF (s.h x) →
      Mpz.WF ⟨max (s.h g).buf.alloc (s.h x).size.natAbs, ((s.h x).size.natAbs : Nat), (view (s.h x)).d⟩ := by
    intro x hx
    refine ⟨Nat.le_trans ha (Nat.le_max_left _ _), ?_, ?_, hx.2.2.2.2.1, hx.2.2.2.2.2⟩
    · simp only [Int.natAbs_natCast]; exact Nat.le_max_right _ _
    · simp only [Int.natAbs_natCast]; exact view_d_length hx
  by_cases hu0 : (s.h u).size.natAbs = 0
  · have R : Refines s (mpz_gcd s g u v) g
        ⟨max (s.h g).buf.alloc (s.h v).size.natAbs, ((s.h v).size.natAbs : Nat), (view (s.h v)).d⟩ := by
      unfold mpz_gcd gcd_
      simp only [St.ABSIZ, hu0, beq_self_eq_true, if_true]
      exact gcdZero_refines s g v hs hg hv
    refine ⟨_, R.safe (zeroWF hv), ?_⟩
    have hd : (view (s.h u)).d = [] := by simp [view, hu0]
    rw [hd]; simp [Mpz.toInt, val]
  · have hune : ((s.h u).size.natAbs == 0) = false := by simpa using hu0
    by_cases hv0 : (s.h v).size.natAbs = 0
    · have R : Refines s (mpz_gcd s g u v) g
          ⟨max (s.h g).buf.alloc (s.h u).size.natAbs, ((s.h u).size.natAbs : Nat), (view (s.h u)).d⟩ := by
        unfold mpz_gcd gcd_
        simp only [St.ABSIZ, hune, hv0, beq_self_eq_true, if_true, Bool.false_eq_true, if_false]
        exact gcdZero_refines s g u hs hg hu
      refine ⟨_, R.safe (zeroWF hu), ?_⟩
      have hd : (view (s.h v)).d = [] := by simp [view, hv0]
      rw [hd]; simp [Mpz.toInt, val]
    · obtain ⟨R, W⟩ := gcdOne_refines s g u v hs hg hu hv (by omega) (by omega) (by omega)
      exact ⟨_, R.safe W, by simp [Mpz.toInt, val]⟩

/-- mpz_gcd (mpz/gcd.c), general arm, the TMP side (gcd.c:82-95 and 97-110, `stripLow`): for every operand the copy without its
    low zero limbs — shifted right by its low zero bits through mpn_rshift, or copied — is exactly as long as the
    `TMP_ALLOC_LIMBS (usize - zero_limbs)` block it is stored to. -/
theorem stripLow_fits (U : List Nat) : (stripLow U).2.2.2.2 = true := by
  unfold stripLow
  simp only []
  split
  · simp [Buf.write, Buf.new, Mpir.rshift, Mem.rshiftGo_length]
  · simp [Buf.write, Buf.new]

-- 3 * 2^127 as [0, 3 * 2^63]: one zero limb, 63 zero bits, the copy [3] in a block of one limb
example : stripLow [0, 3 * 2 ^ 63] = (1, 63, ⟨1, [3]⟩, 1, true) := by decide

/-- mpz_gcd (mpz/gcd.c), general arm, the destination side (gcd.c:133-154, `gcdTail`): for every limb list `G` that mpn_gcd
    may have left in TMP space (non-empty, limbs), every count of common zero limbs and every count `g_zero_bits ≤ 63` of common
    zero bits, every allocation of g: `MPZ_REALLOC (g, gsize)` with `gsize = vsize + g_zero_limbs + ((vp[vsize-1] >> (64 -
    g_zero_bits)) != 0)` covers MPN_ZERO, the `vsize` limbs mpn_lshift stores at `PTR (g) + g_zero_limbs`, and the store
    `tp[vsize] = cy_limb`, which happens exactly when the extra limb was counted (the bits mpn_lshift returns ARE the top bits of
    the top limb: `lshift_carry`); `SIZ (g) = gsize` stays within the allocation; no other variable is touched.
    PARTIAL: missing for the full `Safe` statement of the general arm: the TMP side (the stripped copies fit their blocks;
    mpn_gcd's result fits vp's block — its C07 contract), that the stored limbs are normalised, and the value. -/
theorem mpz_gcd_tail_alloc_safe_partial (s : St) (g : Nat) (G : List Nat) (gzl gzb : Nat) (hs : s.ok = true) (hg : OWF (s.h g))
    (hG : Limbs G) (hne : G ≠ []) (hb : gzb ≤ 63) :
    (gcdTail 0 false s g G gzl gzb).ok = true ∧ BWF ((gcdTail 0 false s g G gzl gzb).h g).buf ∧
    ((gcdTail 0 false s g G gzl gzb).h g).size.natAbs ≤ ((gcdTail 0 false s g G gzl gzb).h g).buf.alloc ∧
    (∀ x, x ≠ g → (gcdTail 0 false s g G gzl gzb).h x = s.h x) :=
  gcdTail_mem s g G gzl gzb hs hg hG hne hb

-- 3 << (64 + 63) into the one-limb variable: carry limb counted and stored (3 limbs); 1 << (64 + 63): not counted, not stored
example : let s := gcdTail 0 false ex6 0 [3] 1 63; s.ok = true ∧ view (s.h 0) = ⟨3, 3, [0, 2 ^ 63, 1]⟩ := by decide
example : let s := gcdTail 0 false ex6 0 [1] 1 63; s.ok = true ∧ view (s.h 0) = ⟨2, 2, [0, 2 ^ 63]⟩ := by decide
-- negative: one limb less requested; the carry limb stored although it was not counted
example : (gcdTail 1 false ex6 0 [3] 1 63).ok = false := by decide
example : (gcdTail 0 true ex6 0 [1] 1 63).ok = false := by decide

/-- mpz_gcd (mpz/gcd.c), EVERY arm, every heap, every allocation of g, every alias pattern (g may be u and / or v, u may be v):
    `ok` stays true (no load or store outside a block or through a stale pointer, no TMP block overrun), g ends well formed,
    every other variable is unchanged, and the value is gcd (|u|, |v|).  The general arm (gcd.c:79-155) composes `stripLow_spec`
    (the TMP copies hold the odd parts u', v' with u = u' << (64 * u_zero_limbs + u_zero_bits), and fit their blocks), the callee
    mpn_gcd by its contract as the model states it (value gcd (u', v') — C07 `mpn_gcd_correct` —, stored normalised at vp: that
    these limbs fit vp's block is PROVED here from gcd (u', v') ≤ v', not assumed) and `gcdTail_refines` (the re-shift:
    `MPZ_REALLOC (g, gsize)` covers the zero limbs, the shifted limbs and the conditional `cy_limb`; the top limb stored is
    non-zero; the value is G << (64 * g_zero_limbs + g_zero_bits)), with
    gcd (u' << a, v' << b) = gcd (u', v') << min (a, b) for odd u', v'. -/
theorem mpz_gcd_alloc_safe (s : St) (g u v : Nat) (hs : s.ok = true)
    (hg : OWF (s.h g)) (hu : OWF (s.h u)) (hv : OWF (s.h v)) :
    ∃ m, Safe s (mpz_gcd s g u v) g m ∧
      Mpz.toInt m = (Nat.gcd (Mpz.toInt (view (s.h u))).natAbs (Mpz.toInt (view (s.h v))).natAbs : Nat) := by
  by_cases hsmall : (s.h u).size.natAbs ≤ 1 ∨ (s.h v).size.natAbs ≤ 1
  · exact mpz_gcd_small_alloc_safe_partial s g u v hs hg hu hv hsmall
  · obtain ⟨R, r1, r2, r3⟩ := gcdGeneral_refines s g u v hs hg hu hv (by omega) (by omega)
    refine ⟨_, r1.safe r2, ?_⟩
    rw [toInt_natAbs, toInt_natAbs, ← r3]
    simp [Mpz.toInt]

-- gcd (B^2 - 1, 6) = 3 into variable 0 and over v; gcd (0, v) copies; in place nothing is reallocated
example : let s := mpz_gcd ex6 0 1 2; s.ok = true ∧ view (s.h 0) = ⟨1, 1, [3]⟩ := by decide
example : let s := mpz_gcd ex6 2 1 2; s.ok = true ∧ view (s.h 2) = ⟨1, 1, [3]⟩ := by decide
example : let s := mpz_gcd ex6 0 0 1; s.ok = true ∧ view (s.h 0) = ⟨2, 2, [B - 1, B - 1]⟩ := by decide
/-- a heap for the general arm: 0 = destination (one limb), 1 = 3 * 2^127, 2 = 5 * 2^127 (two limbs each; gcd = 2^127) -/
def ex7 : St := ⟨fun i => if i = 0 then ⟨0, 0, ⟨1, [junk]⟩⟩ else if i = 1 then ⟨2, 0, ⟨2, [0, 3 * 2 ^ 63]⟩⟩
                 else ⟨2, 0, ⟨2, [0, 5 * 2 ^ 63]⟩⟩, true⟩
-- general arm: one low zero limb and 63 zero bits stripped, gcd 1 re-shifted: two limbs, no carry limb
example : let s := mpz_gcd ex7 0 1 2; s.ok = true ∧ view (s.h 0) = ⟨2, 2, [0, 2 ^ 63]⟩ := by decide +kernel
example : let s := mpz_gcd ex7 1 1 2; s.ok = true ∧ view (s.h 1) = ⟨2, 2, [0, 2 ^ 63]⟩ := by decide +kernel
-- negative: `MPZ_REALLOC (g, gsize - 1)`; and storing `tp[vsize] = cy_limb` unconditionally with the exact request
example : (gcd_ 1 false ex7 0 1 2).ok = false := by decide +kernel
example : (gcd_ 0 true ex7 0 1 2).ok = false := by decide +kernel

end Mpir.AllocSafe5
