/-
  C04, object-layer memory safety as theorems — fourth continuation (statement shape `Safe` of C04_allocsafe.lean: `ok = true`,
  destination well formed, every other variable untouched, value-level view = the list-level result): mpz_import, mpz_lcm, mpz_gcd.
  Models: Mpir/Model/AllocSafeMpz5.lean.  Helper lemmas: MpirProofs/Lemmas/AllocSafeMpz5.lean.
  Tied by ops `as5_*` (harness/ops_allocsafe5.c; ALLOC SIZ value compared exactly) and pins on every C file mirrored.
-/
import MpirProofs.Props.C04_allocsafe4
import Mpir.Model.AllocSafeMpz5
namespace Mpir.AllocSafe5
open Mpir Mpir.AllocSafe

end Mpir.AllocSafe5
