/-
  C04 (temporary memory): what the data-flow procedure `Mpir.TmpSkel.balanced` means.  With the path
  semantics of Mpir/Model/TmpSkelSem.lean (a path follows control-flow edges from the entry, any length,
  any number of loop iterations; running it threads the marker state through `xferBit` from "unmarked"
  and stops at the first flagged node), acceptance by `balanced` implies that no path reaches a violation.
  Together with `tmp_balanced` (kernel-checked on the regenerated table) this gives the statement about
  every extracted skeleton of the library.
-/
import MpirProofs.Lemmas.TmpSkel
import MpirProofs.Props.C04_tmp
namespace Mpir.TmpSkel
open Mpir.Gen

/-- Soundness of the analysis: if `balanced` accepts a skeleton then no control-flow path from its entry —
    of any length, through any number of loop iterations — reaches a TMP_ALLOC/TMP_FREE while unmarked or
    freed, a TMP_MARK with an allocation outstanding, or a `return` with an allocation outstanding. -/
theorem balanced_sound {f : TmpFn} (h : balanced f = true) : ∀ p, IsPath f p → ¬ Violates f p := by
  unfold balanced at h
  simp only [Bool.and_eq_true] at h
  obtain ⟨_, hit⟩ := h
  obtain ⟨st, hsub, hfix⟩ := iterate_true _ _ _ hit
  have hc : Closed f st := round_fix_closed hfix
  intro p hp hv
  cases p with
  | nil => simp [IsPath, isPath] at hp
  | cons i q =>
    simp only [IsPath, isPath, Bool.and_eq_true, beq_iff_eq] at hp
    obtain ⟨rfl, hch⟩ := hp
    exact run_safe hc q f.entry 1 hch (Or.inl rfl)
      ((getMask_mono hsub f.entry).and_ne_zero (getMask_entry f.entry)) hv

/-- Every TMP skeleton extracted from the working tree is safe on every control-flow path. -/
theorem tmp_paths_safe : ∀ f ∈ tmpFns, ∀ p, IsPath f p → ¬ Violates f p :=
  fun f hf => balanced_sound (tmp_balanced f hf)

-- non-vacuity.  A skeleton with a loop and an early exit out of the loop body:
--   7 MARK; 6 loop head (→ body 5 | exit 2); 5 ALLOC; 4 if (→ early exit 3 | back to 6);
--   3 FREE; 1 return;   2 FREE; 0 return
def loopy : TmpFn :=
  ⟨"x", "loopy", 7, [(4, []), (4, []), (3, [0]), (3, [1]), (0, [3, 6]), (2, [4]), (0, [5, 2]), (1, [6])]⟩
-- the same with the early exit returning without TMP_FREE (node 3 is a `return`)
def loopyLeak : TmpFn :=
  ⟨"x", "loopyLeak", 7, [(4, []), (4, []), (3, [0]), (4, []), (0, [3, 6]), (2, [4]), (0, [5, 2]), (1, [6])]⟩

example : balanced loopy = true := by decide
-- two loop iterations, then the early exit: a path, it runs to the freed state, and the theorem applies
example : IsPath loopy [7, 6, 5, 4, 6, 5, 4, 3, 1] := by decide
example : run loopy 1 [7, 6, 5, 4, 6, 5, 4, 3, 1] = some 8 := by decide
example : ¬ Violates loopy [7, 6, 5, 4, 6, 5, 4, 3, 1] := balanced_sound (by decide) _ (by decide)
-- zero iterations
example : IsPath loopy [7, 6, 2, 0] ∧ run loopy 1 [7, 6, 2, 0] = some 8 := by decide
-- not everything is a path (4 is not a successor of 6; a `return` has no successor; must start at the entry)
example : ¬ IsPath loopy [7, 6, 4] ∧ ¬ IsPath loopy [7, 6, 2, 0, 0] ∧ ¬ IsPath loopy [6, 2, 0] := by decide
-- `Violates` is not empty: the leaking variant has a violating path (found only in the second iteration
-- of the loop if the first one goes round), and accordingly the procedure rejects it
example : IsPath loopyLeak [7, 6, 5, 4, 6, 5, 4, 3] ∧ Violates loopyLeak [7, 6, 5, 4, 6, 5, 4, 3] := by decide
example : balanced loopyLeak = false := by decide
-- the shape of the defect repaired in mpn_is_invert (C04_tmp.lean): the early return is a violating path
example : IsPath leaky [4, 5, 3, 2] ∧ Violates leaky [4, 5, 3, 2] := by decide
example : ¬ Violates fixed [4, 5, 3, 2] := balanced_sound (by decide) _ (by decide)
-- each kind of violation is detected by `run`: ALLOC unmarked; FREE twice; MARK with an allocation
-- outstanding; return with an allocation outstanding
example : Violates ⟨"x", "a", 1, [(4, []), (2, [0])]⟩ [1] := by decide
example : Violates ⟨"x", "b", 4, [(4, []), (3, [0]), (3, [1]), (2, [2]), (1, [3])]⟩ [4, 3, 2, 1] := by decide
example : Violates ⟨"x", "c", 3, [(4, []), (1, [0]), (2, [1]), (1, [2])]⟩ [3, 2, 1] := by decide
example : Violates ⟨"x", "d", 2, [(4, []), (2, [0]), (1, [1])]⟩ [2, 1, 0] := by decide

end Mpir.TmpSkel
