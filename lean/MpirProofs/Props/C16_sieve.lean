/-
  C16, part sieve — the prime sieve of primesieve.c and the functions built on it.  Property theorems only;
  helper lemmas live in MpirProofs/Lemmas/Sieve*.lean.  The theorems are about the executable models of
  Mpir/Model/Sieve.lean (statement-by-statement mirrors of the C, compared with the real library on every run
  through the ops of harness/ops_sieve.c).
-/
import MpirProofs.Lemmas.SieveTop
namespace Mpir.Sieve
open Mpir Mpir.Numth

/-! ## The bit ↔ number maps -/

/-- `id_to_n` / `n_to_bit` (primesieve.c:75, :79): bit i stands for id_to_n (i+1), the (i+1)-st number ≥ 5 coprime
    to 6; these numbers are strictly increasing, every number ≥ 5 coprime to 6 occurs, `n_to_bit` inverts the
    enumeration, and the bits of the sieve of n (0 … n_to_bit n) are exactly those whose number is ≤ n. -/
theorem sieve_index_maps :
    (∀ i, id_to_n (i + 1) % 6 = 1 ∨ id_to_n (i + 1) % 6 = 5) ∧ (∀ i, 5 ≤ id_to_n (i + 1)) ∧
    (∀ i j, i < j → id_to_n (i + 1) < id_to_n (j + 1)) ∧
    (∀ i, i < B / 4 → n_to_bit (id_to_n (i + 1)) = i) ∧
    (∀ m, 5 ≤ m → m < B → (m % 6 = 1 ∨ m % 6 = 5) → id_to_n (n_to_bit m + 1) = m) ∧
    (∀ n i, 5 ≤ n → n < B → (i ≤ n_to_bit n ↔ id_to_n (i + 1) ≤ n)) := by
  refine ⟨fun i => ?_, fun i => ?_, fun i j h => ?_, fun i hi => ?_, fun m h5 hB h6 => ?_, fun n i h5 hB => ?_⟩
  · rw [← bit_to_n_eq_id]; exact bit_to_n_mod6 i
  · rw [← bit_to_n_eq_id]; exact bit_to_n_ge i
  · rw [← bit_to_n_eq_id, ← bit_to_n_eq_id]; exact bit_to_n_lt h
  · rw [← bit_to_n_eq_id, n_to_bit_eq_nb _ (bit_to_n_ge i) (by rw [bit_to_n_eq, B_eq]; rw [B_eq] at hi; omega), nb_bit_to_n]
  · rw [← bit_to_n_eq_id, n_to_bit_eq_nb m h5 hB, bit_to_n_nb m h5 h6]
  · rw [← bit_to_n_eq_id, n_to_bit_eq_nb n h5 hB, le_nb_iff i n h5]
example : id_to_n 1 = 5 ∧ id_to_n 2 = 7 ∧ id_to_n 3 = 11 ∧ id_to_n 8 = 25 ∧ n_to_bit 25 = 7 ∧ n_to_bit 26 = 7 ∧
    n_to_bit 28 = 7 ∧ n_to_bit 29 = 8 := by decide

/-! ## gmp_primesieve -/

/-- **gmp_primesieve** (model of primesieve.c:250-276 with `first_block_primesieve` :109-172 — seed limb, padding,
    the outer `do … while (1)` with its `break`, the two stride loops with the rotating mask — and, above
    2·BLOCK_SIZE limbs, `block_resieve` :174-230 over consecutive blocks, including the `continue` that leaves
    `__mask`/`__index` behind `__i`): for EVERY n with 4 < n < 2^64 (the C's `ASSERT (n > 4)`; n is a limb)
    * the loops never read beyond the array (`some`), the result has primesieve_size(n) = n_to_bit(n)/64 + 1 limbs;
    * bit i, 0 ≤ i ≤ n_to_bit n, is 0 exactly when id_to_n (i+1) is prime — all block boundaries included;
    * the remaining bits of the last limb are 1;
    * the returned count is π(n) − 2, the number of primes in [4, n]. -/
theorem gmp_primesieve_spec (n : ℕ) (h4 : 4 < n) (hn : n < B) :
    ∃ a c, gmp_primesieve n = some (a, c) ∧
      a.size = n_to_bit n / 64 + 1 ∧ (∀ x ∈ a, x < B) ∧
      (∀ i ≤ n_to_bit n, (sieveBit a i = false ↔ (id_to_n (i + 1)).Prime)) ∧
      (∀ i, n_to_bit n < i → i < 64 * a.size → sieveBit a i = true) ∧
      c = Nat.primeCounting n - 2 := by
  obtain ⟨a, e, hs, hl, hb, hp⟩ := gmp_primesieve_struct n h4 hn
  rw [n_to_bit_eq_nb n (by omega) hn]
  refine ⟨a, _, e, hs, ?_, fun i hi => ?_, hp, sieve_count a n (by omega) hs hl hb hp⟩
  · intro x hx
    obtain ⟨i, hi, rfl⟩ := Array.getElem_of_mem hx
    have := hl i
    simpa [Array.getD_eq_getD_getElem?, hi] using this
  · rw [← bit_to_n_eq_id]
    have := hb i hi
    cases h : sieveBit a i
    · simp only [true_iff]
      by_contra hnp
      have := this.2 hnp
      rw [h] at this; exact absurd this (by simp)
    · simp only [Bool.true_eq_false, false_iff]
      exact this.1 h
example : gmp_primesieve 100 = some (#[0x3294C9E069128480 ||| (0xffffffffffffffff <<< 32) % B], 23) ∧ Nat.primeCounting 100 = 25 := by
  constructor
  · decide +kernel
  · decide +kernel

/-- the executable primality test used by the older C16 models in place of the sieve (`isPrimeTD (bit_to_n b)`,
    Mpir/Model/Numth.lean `sieveWalk`) is what the sieve array says: replacing gmp_primesieve by its meaning there
    is justified for every n. -/
theorem sieve_bit_eq_isPrimeTD (n : ℕ) (h4 : 4 < n) (hn : n < B) :
    ∃ a c, gmp_primesieve n = some (a, c) ∧ ∀ b ≤ n_to_bit n, sieveBit a b = !isPrimeTD (bit_to_n b) := by
  obtain ⟨a, c, e, _, _, hb, _⟩ := gmp_primesieve_spec n h4 hn
  refine ⟨a, c, e, fun b hb' => ?_⟩
  have h := hb b hb'
  rw [← bit_to_n_eq_id, ← isPrimeTD_iff] at h
  cases h1 : sieveBit a b <;> cases h2 : isPrimeTD (bit_to_n b) <;> simp_all
example : (gmp_primesieve 1000).map (fun r => (sieveBit r.1 7, sieveBit r.1 8, r.2)) = some (true, false, 166) := by
  decide +kernel

/-! ## The building blocks, for every argument -/

/-- first_block_primesieve alone: for every 4 < n < 2^64 the `limbs` limbs written describe the primes up to n. -/
theorem first_block_primesieve_spec (n : ℕ) (h4 : 4 < n) (hn : n < B) :
    ∃ a, first_block_primesieve n = some a ∧ a.size = n_to_bit n / 64 + 1 ∧
      (∀ i ≤ n_to_bit n, (sieveBit a i = true ↔ ¬ (id_to_n (i + 1)).Prime)) ∧
      (∀ i, n_to_bit n < i → i < 64 * a.size → sieveBit a i = true) := by
  obtain ⟨a, e, hs, _, hf, hp⟩ := first_block_spec n h4 hn
  rw [n_to_bit_eq_nb n (by omega) hn]
  refine ⟨a, e, hs, fun i hi => ?_, hp⟩
  rw [← bit_to_n_eq_id]
  constructor
  · intro h; simpa using hf.1 i hi h
  · intro h; exact hf.2 i hi (by simpa using h)
example : first_block_primesieve 203 = some #[0x3294C9E069128480, 0xfffffffffffffffc] := by decide +kernel

/-- block_resieve for ANY window: `limbs` limbs standing for the bits offset … offset + 64·limbs − 1, given a
    sieve whose bits 0 … sieve_bits are right and reach far enough (the square of the first number after them
    exceeds the top of the window — in gmp_primesieve: sieve_bits = offset − 1 and offset ≥ 64·BLOCK_SIZE).
    Every bit of the block is 1 exactly for the composites; holds whether the loop ends by `break`, by the
    `continue` path or by exhausting the sieve. -/
theorem block_resieve_spec' (limbs offset sieve_bits : ℕ) (sieve : Array ℕ) (hlimbs : 0 < limbs)
    (hsieve : ∀ j ≤ sieve_bits, (sieveBit sieve j = true ↔ ¬ (id_to_n (j + 1)).Prime))
    (hreach : id_to_n (limbs * 64 + offset) < id_to_n (sieve_bits + 2) * id_to_n (sieve_bits + 2)) :
    (block_resieve limbs offset sieve sieve_bits).size = limbs ∧
    ∀ b < 64 * limbs, (sieveBit (block_resieve limbs offset sieve sieve_bits) b = true ↔ ¬ (id_to_n (b + offset + 1)).Prime) := by
  have hsv : ∀ j ≤ sieve_bits, (sieveBit sieve j = true ↔ ¬ (bit_to_n j).Prime) := by
    intro j hj; rw [bit_to_n_eq_id]; exact hsieve j hj
  have hH : bit_to_n (limbs * 64 - 1 + offset) < bit_to_n (sieve_bits + 1) * bit_to_n (sieve_bits + 1) := by
    rw [bit_to_n_eq_id, bit_to_n_eq_id]
    have : limbs * 64 - 1 + offset + 1 = limbs * 64 + offset := by omega
    rw [this]; exact hreach
  obtain ⟨hs, _, hf⟩ := block_resieve_spec limbs offset sieve_bits sieve hlimbs hsv hH
  refine ⟨hs, fun b hb => ?_⟩
  rw [← bit_to_n_eq_id]
  constructor
  · intro h; exact hf.1 b (by omega) h
  · intro h; exact hf.2 b (by omega) h
/-- the `continue` path: the window (bits 5 … 68) ends at the number 209 with 13² = 169 ≤ 209 < 13·17 = 221 -/
example : block_resieve 1 5 #[0x3294C9E069128480] 4 = #[16254799813374678052] ∧
    nextIndex 4 > 63 + 5 ∧ sqIndex 4 (id_to_n 4) ≤ 63 + 5 ∧ id_to_n 4 = 13 ∧ id_to_n (63 + 5 + 1) = 209 := by decide +kernel

end Mpir.Sieve
