/-
  C16, part sieve — the prime sieve of primesieve.c and the functions built on it.  Property theorems only;
  helper lemmas live in MpirProofs/Lemmas/Sieve*.lean.  The theorems are about the executable models of
  Mpir/Model/Sieve.lean (statement-by-statement mirrors of the C, compared with the real library on every run
  through the ops of harness/ops_sieve.c).
-/
import MpirProofs.Lemmas.SieveTop
import MpirProofs.Lemmas.SwingAsm
import MpirProofs.Lemmas.Goet
import MpirProofs.Lemmas.Primorial
import MpirProofs.Lemmas.NextPrime
import MpirProofs.Lemmas.SieveUse
namespace Mpir.Sieve
open Mpir Mpir.Numth

/-! ## The bit ↔ number maps -/

/-- `id_to_n` / `n_to_bit` (primesieve.c:75, :79): bit i stands for id_to_n (i+1), the (i+1)-st number ≥ 5 coprime
    to 6; these numbers are strictly increasing, every number ≥ 5 coprime to 6 occurs, `n_to_bit` inverts the
    enumeration, and the bits of the sieve of n (0 … n_to_bit n) are exactly those whose number is ≤ n. -/
theorem sieve_index_maps :
    (∀ i, id_to_n (i + 1) % 6 = 1 ∨ id_to_n (i + 1) % 6 = 5) ∧ (∀ i, 5 ≤ id_to_n (i + 1)) ∧
    (∀ i j, i < j → id_to_n (i + 1) < id_to_n (j + 1)) ∧
    (∀ i, i < B / 4 → n_to_bit (id_to_n (i + 1)) = i) ∧
    (∀ m, 5 ≤ m → m < B → (m % 6 = 1 ∨ m % 6 = 5) → id_to_n (n_to_bit m + 1) = m) ∧
    (∀ n i, 5 ≤ n → n < B → (i ≤ n_to_bit n ↔ id_to_n (i + 1) ≤ n)) := by
  refine ⟨fun i => ?_, fun i => ?_, fun i j h => ?_, fun i hi => ?_, fun m h5 hB h6 => ?_, fun n i h5 hB => ?_⟩
  · rw [← bit_to_n_eq_id]; exact bit_to_n_mod6 i
  · rw [← bit_to_n_eq_id]; exact bit_to_n_ge i
  · rw [← bit_to_n_eq_id, ← bit_to_n_eq_id]; exact bit_to_n_lt h
  · rw [← bit_to_n_eq_id, n_to_bit_eq_nb _ (bit_to_n_ge i) (by rw [bit_to_n_eq, B_eq]; rw [B_eq] at hi; omega), nb_bit_to_n]
  · rw [← bit_to_n_eq_id, n_to_bit_eq_nb m h5 hB, bit_to_n_nb m h5 h6]
  · rw [← bit_to_n_eq_id, n_to_bit_eq_nb n h5 hB, le_nb_iff i n h5]
example : id_to_n 1 = 5 ∧ id_to_n 2 = 7 ∧ id_to_n 3 = 11 ∧ id_to_n 8 = 25 ∧ n_to_bit 25 = 7 ∧ n_to_bit 26 = 7 ∧
    n_to_bit 28 = 7 ∧ n_to_bit 29 = 8 := by decide

/-! ## gmp_primesieve -/

/-- **gmp_primesieve** (model of primesieve.c:250-276 with `first_block_primesieve` :109-172 — seed limb, padding,
    the outer `do … while (1)` with its `break`, the two stride loops with the rotating mask — and, above
    2·BLOCK_SIZE limbs, `block_resieve` :174-230 over consecutive blocks, including the `continue` that leaves
    `__mask`/`__index` behind `__i`): for EVERY n with 4 < n < 2^64 (the C's `ASSERT (n > 4)`; n is a limb)
    * the loops never read beyond the array (`some`), the result has primesieve_size(n) = n_to_bit(n)/64 + 1 limbs;
    * bit i, 0 ≤ i ≤ n_to_bit n, is 0 exactly when id_to_n (i+1) is prime — all block boundaries included;
    * the remaining bits of the last limb are 1;
    * the returned count is π(n) − 2, the number of primes in [4, n]. -/
theorem gmp_primesieve_spec (n : ℕ) (h4 : 4 < n) (hn : n < B) :
    ∃ a c, gmp_primesieve n = some (a, c) ∧
      a.size = n_to_bit n / 64 + 1 ∧ (∀ x ∈ a, x < B) ∧
      (∀ i ≤ n_to_bit n, (sieveBit a i = false ↔ (id_to_n (i + 1)).Prime)) ∧
      (∀ i, n_to_bit n < i → i < 64 * a.size → sieveBit a i = true) ∧
      c = Nat.primeCounting n - 2 := by
  obtain ⟨a, e, hs, hl, hb, hp⟩ := gmp_primesieve_struct n h4 hn
  rw [n_to_bit_eq_nb n (by omega) hn]
  refine ⟨a, _, e, hs, ?_, fun i hi => ?_, hp, sieve_count a n (by omega) hs hl hb hp⟩
  · intro x hx
    obtain ⟨i, hi, rfl⟩ := Array.getElem_of_mem hx
    have := hl i
    simpa [Array.getD_eq_getD_getElem?, hi] using this
  · rw [← bit_to_n_eq_id]
    have := hb i hi
    cases h : sieveBit a i
    · simp only [true_iff]
      by_contra hnp
      have := this.2 hnp
      rw [h] at this; exact absurd this (by simp)
    · simp only [Bool.true_eq_false, false_iff]
      exact this.1 h
example : gmp_primesieve 100 = some (#[0x3294C9E069128480 ||| (0xffffffffffffffff <<< 32) % B], 23) ∧ Nat.primeCounting 100 = 25 := by
  constructor
  · decide +kernel
  · decide +kernel

/-- the executable primality test used by the older C16 models in place of the sieve (`isPrimeTD (bit_to_n b)`,
    Mpir/Model/Numth.lean `sieveWalk`) is what the sieve array says: replacing gmp_primesieve by its meaning there
    is justified for every n. -/
theorem sieve_bit_eq_isPrimeTD (n : ℕ) (h4 : 4 < n) (hn : n < B) :
    ∃ a c, gmp_primesieve n = some (a, c) ∧ ∀ b ≤ n_to_bit n, sieveBit a b = !isPrimeTD (bit_to_n b) := by
  obtain ⟨a, c, e, _, _, hb, _⟩ := gmp_primesieve_spec n h4 hn
  refine ⟨a, c, e, fun b hb' => ?_⟩
  have h := hb b hb'
  rw [← bit_to_n_eq_id, ← isPrimeTD_iff] at h
  cases h1 : sieveBit a b <;> cases h2 : isPrimeTD (bit_to_n b) <;> simp_all
example : (gmp_primesieve 1000).map (fun r => (sieveBit r.1 7, sieveBit r.1 8, r.2)) = some (true, false, 166) := by
  decide +kernel

/-! ## The building blocks, for every argument -/

/-- first_block_primesieve alone: for every 4 < n < 2^64 the `limbs` limbs written describe the primes up to n. -/
theorem first_block_primesieve_spec (n : ℕ) (h4 : 4 < n) (hn : n < B) :
    ∃ a, first_block_primesieve n = some a ∧ a.size = n_to_bit n / 64 + 1 ∧
      (∀ i ≤ n_to_bit n, (sieveBit a i = true ↔ ¬ (id_to_n (i + 1)).Prime)) ∧
      (∀ i, n_to_bit n < i → i < 64 * a.size → sieveBit a i = true) := by
  obtain ⟨a, e, hs, _, hf, hp⟩ := first_block_spec n h4 hn
  rw [n_to_bit_eq_nb n (by omega) hn]
  refine ⟨a, e, hs, fun i hi => ?_, hp⟩
  rw [← bit_to_n_eq_id]
  constructor
  · intro h; simpa using hf.1 i hi h
  · intro h; exact hf.2 i hi (by simpa using h)
example : first_block_primesieve 203 = some #[0x3294C9E069128480, 0xfffffffffffffffc] := by decide +kernel

/-- block_resieve for ANY window: `limbs` limbs standing for the bits offset … offset + 64·limbs − 1, given a
    sieve whose bits 0 … sieve_bits are right and reach far enough (the square of the first number after them
    exceeds the top of the window — in gmp_primesieve: sieve_bits = offset − 1 and offset ≥ 64·BLOCK_SIZE).
    Every bit of the block is 1 exactly for the composites; holds whether the loop ends by `break`, by the
    `continue` path or by exhausting the sieve. -/
theorem block_resieve_spec' (limbs offset sieve_bits : ℕ) (sieve : Array ℕ) (hlimbs : 0 < limbs)
    (hsieve : ∀ j ≤ sieve_bits, (sieveBit sieve j = true ↔ ¬ (id_to_n (j + 1)).Prime))
    (hreach : id_to_n (limbs * 64 + offset) < id_to_n (sieve_bits + 2) * id_to_n (sieve_bits + 2)) :
    (block_resieve limbs offset sieve sieve_bits).size = limbs ∧
    ∀ b < 64 * limbs, (sieveBit (block_resieve limbs offset sieve sieve_bits) b = true ↔ ¬ (id_to_n (b + offset + 1)).Prime) := by
  have hsv : ∀ j ≤ sieve_bits, (sieveBit sieve j = true ↔ ¬ (bit_to_n j).Prime) := by
    intro j hj; rw [bit_to_n_eq_id]; exact hsieve j hj
  have hH : bit_to_n (limbs * 64 - 1 + offset) < bit_to_n (sieve_bits + 1) * bit_to_n (sieve_bits + 1) := by
    rw [bit_to_n_eq_id, bit_to_n_eq_id]
    have : limbs * 64 - 1 + offset + 1 = limbs * 64 + offset := by omega
    rw [this]; exact hreach
  obtain ⟨hs, _, hf⟩ := block_resieve_spec limbs offset sieve_bits sieve hlimbs hsv hH
  refine ⟨hs, fun b hb => ?_⟩
  rw [← bit_to_n_eq_id]
  constructor
  · intro h; exact hf.1 b (by omega) h
  · intro h; exact hf.2 b (by omega) h
/-- the `continue` path: the window (bits 5 … 68) ends at the number 209 with 13² = 169 ≤ 209 < 13·17 = 221 -/
example : block_resieve 1 5 #[0x3294C9E069128480] 4 = #[16254799813374678052] ∧
    nextIndex 4 > 63 + 5 ∧ sqIndex 4 (id_to_n 4) ≤ 63 + 5 ∧ id_to_n 4 = 13 ∧ id_to_n (63 + 5 + 1) = 209 := by decide +kernel

end Mpir.Sieve

namespace Mpir.Numth
open Mpir Mpir.Gen.NumthTabs Mpir.Sieve
open Nat

/-! ## The prime-swing factorial (mpz/oddfac_1.c) -/

/-- **Exponent of a prime in the swing number.**  With n≀ = n! / ⌊n/2⌋!² (so n! = n≀ · ⌊n/2⌋!²), for every prime p
    and every n < 2^64: v_p(n!) = 2·v_p(⌊n/2⌋!) + Σ_{k=1}^{64} (⌊n/p^k⌋ mod 2), and the sum is what the loop of
    SWING_A_PRIME (oddfac_1.c:164-175, `do { q /= p; if (q & 1) prod *= p; } while (q >= p)`) accumulates:
    `swingPowers` returns prod · p^(that sum) as long as the limb product does not wrap. -/
theorem swing_exponent (p n : ℕ) (hp : p.Prime) (hn : n < B) :
    padicValNat p n ! = 2 * padicValNat p (n / 2)! + ∑ k ∈ Finset.Ico 1 65, (n / p ^ k) % 2 ∧
    ∀ pr, pr * p ^ (∑ k ∈ Finset.Ico 1 65, (n / p ^ k) % 2) < B →
      swingPowers p 64 n pr = pr * p ^ (∑ k ∈ Finset.Ico 1 65, (n / p ^ k) % 2) := by
  have : Fact p.Prime := ⟨hp⟩
  rw [← swExp_eq_sum p 64 n]
  exact ⟨legendre_swing p 64 n hn, fun pr h => swingPowers_eq p hp.pos 64 n pr h⟩
example : swingPowers 3 64 100 1 = 3 ^ 4 ∧ swingPowers 5 64 100 7 = 7 ∧ swingPowers 7 64 100 1 = 1 ∧
    swingPowers 3 64 1000 1 = 3 ^ 4 ∧ (1000 / 3) % 2 + (1000 / 9) % 2 + (1000 / 27) % 2 + (1000 / 81) % 2 + (1000 / 243) % 2 + (1000 / 729) % 2 = 4 := by
  decide +kernel

/-- **The three prime ranges** mpz_2multiswing_1 treats separately (n even there): writing e for the swing
    exponent Σ_k (⌊n/p^k⌋ mod 2),
    * n/p < p (in particular limb_apprsqrt n < p, since n ≤ limb_apprsqrt(n)²): e = ⌊n/p⌋ mod 2 — SH_SWING_A_PRIME;
    * n/3 < p ≤ n/2: e = 0 — these primes are skipped;   * n/2 < p ≤ n: e = 1 — stored unconditionally;
    and `x ≤ limb_apprsqrt(x)² < 9x/4` (the comment of oddfac_1.c:133-134), `s ≤ n_to_bit (n/3)` (the ASSERT :232). -/
theorem swing_prime_ranges (p n : ℕ) (hp : 3 ≤ p) :
    (n / p < p → swExp p 64 n = (n / p) % 2) ∧
    (n / 3 < p → p ≤ n / 2 → swExp p 64 n = 0) ∧
    (n / 2 < p → p ≤ n → swExp p 64 n = 1) ∧
    (25 ≤ n → n ≤ limb_apprsqrt n * limb_apprsqrt n ∧ 4 * (limb_apprsqrt n * limb_apprsqrt n) < 9 * n ∧
      nb (limb_apprsqrt n) + 1 ≤ nb (n / 3)) := by
  refine ⟨fun h => ?_, fun h1 h2 => ?_, fun h1 h2 => ?_, fun h => ⟨(apprsqrt_bounds n h).1, (apprsqrt_bounds n h).2, swing_ranges n h⟩⟩
  · have : ¬ (n / p ≥ p) := by omega
    simp [swExp, this]
  · have hd := div_eq_two (n := n) (x := p) h1 h2
    have : ¬ (2 ≥ p) := by omega
    simp [swExp, hd, this]
  · have hd := div_eq_one (n := n) (x := p) h1 h2
    have : ¬ (1 ≥ p) := by omega
    simp [swExp, hd, this]
example : swExp 3 64 1000 = 4 ∧ swExp 37 64 1000 = 1 ∧ (1000 / 37) % 2 = 1 ∧ swExp 401 64 1000 = 0 ∧ swExp 997 64 1000 = 1 ∧
    limb_apprsqrt 1000 = 32 := by decide +kernel

/-- **FACTOR_LIST_STORE never overflows a limb** with the constants of mpz_2multiswing_1 (n even, ≥ 26):
    max_prod = GMP_NUMB_MAX/(n−1); a running product ≤ max_prod times an odd prime p ≤ n, times 3·(a prime ≤ n/3)
    with l_max_prod = 3·max_prod, or times the whole prime power p^e of SWING_A_PRIME, stays below 2^64. -/
theorem swing_products_fit (n : ℕ) (h26 : 26 ≤ n) (he : n % 2 = 0) (hn : n < B) (prod p : ℕ) (hp : p.Prime) (hp2 : p ≠ 2) :
    (prod ≤ (B - 1) / (n - 1) → p ≤ n → prod * p < B) ∧
    ((B - 1) / (n - 1) * 3 < B ∧ (prod ≤ (B - 1) / (n - 1) * 3 → p ≤ n / 3 → prod * p < B)) ∧
    (prod ≤ (B - 1) / (n - 1) → prod * p ^ swExp p 64 n < B) := by
  have hMn : (B - 1) / (n - 1) * (n - 1) < B := by
    have := Nat.div_mul_le_self (B - 1) (n - 1); rw [B_eq] at *; omega
  have hodd : p % 2 = 1 := Nat.odd_iff.1 (hp.odd_of_ne_two hp2)
  refine ⟨fun h1 h2 => ?_, ⟨?_, fun h1 h2 => ?_⟩, fun h1 => ?_⟩
  · exact Nat.lt_of_le_of_lt (Nat.mul_le_mul h1 (by omega)) hMn
  · have : (B - 1) / (n - 1) * 25 ≤ (B - 1) / (n - 1) * (n - 1) := Nat.mul_le_mul_left _ (by omega)
    omega
  · have : prod * p ≤ (B - 1) / (n - 1) * 3 * p := Nat.mul_le_mul_right _ h1
    have : (B - 1) / (n - 1) * 3 * p = (B - 1) / (n - 1) * (3 * p) := by ring
    have : (B - 1) / (n - 1) * (3 * p) ≤ (B - 1) / (n - 1) * (n - 1) := Nat.mul_le_mul_left _ (by omega)
    omega
  · exact Nat.lt_of_le_of_lt (Nat.mul_le_mul h1 (pow_swExp_le_pred p n hp hp2 (by omega) he)) hMn
example : (B - 1) / 999 * 3 < B ∧ 3 ^ swExp 3 64 1000 ≤ 999 := by decide +kernel

/-- **mpz_2multiswing_1** (model of oddfac_1.c:199-262: the factor n for odd n, SWING_A_PRIME for 3 and for the
    sieve's primes up to limb_apprsqrt n, SH_SWING_A_PRIME up to n/3, plain FACTOR_LIST_STORE on (n/2, n],
    every limb product proved not to wrap, mpz_prodlimbs as the product of the list): for EVERY 26 ≤ n < 2^64
    (the C's `ASSERT (n >= 26)`) the result is the odd part of the swing number n! / ⌊n/2⌋!². -/
theorem multiswing_spec (n : ℕ) (h26 : 26 ≤ n) (hn : n < B) :
    mpz_2multiswing_1 n * oddPart ((n / 2)!) ^ 2 = oddPart (n !) ∧ mpz_2multiswing_1 n % 2 = 1 := by
  have h := mpz_2multiswing_1_spec n h26 hn
  refine ⟨h, ?_⟩
  have ho := (oddPart_spec (n !) (Nat.factorial_ne_zero n)).1
  rw [← h, Nat.mul_mod] at ho
  rcases Nat.mod_two_eq_zero_or_one (mpz_2multiswing_1 n) with h0 | h0
  · rw [h0] at ho; simp at ho
  · exact h0
example : mpz_2multiswing_1 26 = 5 ^ 2 * 7 * 17 * 19 * 23 ∧ mpz_2multiswing_1 27 = 27 * (5 ^ 2 * 7 * 17 * 19 * 23) := by decide +kernel

/-- **mpz_oddfac_1** for EVERY n < 2^64: flag = 0 gives the odd part of n! (tables, limb-product basecase, then the
    divide-swing-conquer recursion n! = ⌊n/2⌋!² · n≀ with the sieve-based swing factors). -/
theorem oddfac_1_spec (n : ℕ) (hn : n < B) : mpz_oddfac_1 n 0 = oddPart (n !) := mpz_oddfac_1_eq n hn
example : mpz_oddfac_1 2000 0 * 2 ^ (2000 - popcount 2000) = Nat.factorial 2000 := by decide +kernel

/-- **mpz_fac_ui n = n!** for EVERY n < 2^64 (closes `fac_ui_spec_partial` of C16: no hypothesis left). -/
theorem fac_ui_spec (n : ℕ) (hn : n < B) : mpz_fac_ui n = n ! :=
  mpz_fac_ui_eq n hn (fun _ _ => mpz_oddfac_1_eq n hn)
example : mpz_fac_ui 1800 = Nat.factorial 1800 := by decide +kernel

/-- **mpz_2fac_ui n = n‼** for EVERY n < 2^64; for odd n ≥ FAC_2DSC_THRESHOLD this is mpz_oddfac_1 with flag = 1
    (the last squaring of the divide-swing-conquer loop skipped). -/
theorem two_fac_ui_spec (n : ℕ) (hn : n < B) : mpz_2fac_ui n = n‼ := by
  have hsw : ∀ m, FAC_DSC_THRESHOLD ≤ m → m ≤ n → mpz_2multiswing_1 m * oddPart ((m / 2)!) ^ 2 = oddPart (m !) :=
    fun m h1 h2 => mpz_2multiswing_1_spec m (Nat.le_trans dsc_threshold_ge h1) (Nat.lt_of_le_of_lt h2 hn)
  rcases Nat.even_or_odd' n with ⟨k, rfl | rfl⟩
  · exact two_fac_even k hn (mpz_oddfac_1_eq k (by omega))
  · exact two_fac_odd (2 * k + 1) hn (by omega) (fun _ => hsw)
example : mpz_2fac_ui 1801 = doubleFactorial 1801 ∧ mpz_2fac_ui 1801 = mpz_oddfac_1 1801 1 := by decide +kernel

/-! ## Goetgheluck's binomial (mpz/bin_uiui.c:585-702) -/

/-- **Kummer's theorem in the form COUNT_A_PRIME computes it.**  For a prime p, k ≤ n < 2^64:
    v_p(n!) = v_p(k!) + v_p((n−k)!) + (number of borrows subtracting k from n in base p), where the borrows are
    counted by the chain `mb += b % p; b /= p; ma = a % p; a /= p; if (ma < mb) {mb = 1; count} else mb = 0;
    while (a >= p)` (`kumExp`); hence v_p(binomial(n,k)) = kumExp p 64 n k 0, and the loop of COUNT_A_PRIME
    (`countPowers`) multiplies prod by p^(that number) as long as the limb product does not wrap — which it
    cannot for prod ≤ max_prod = GMP_NUMB_MAX/n since p^(borrows) ≤ n. -/
theorem kummer_borrow_chain (p n k : ℕ) (hp : p.Prime) (hn : n < B) (hk : k ≤ n) :
    padicValNat p (n.choose k) = kumExp p 64 n k 0 ∧
    (1 ≤ n → p ^ kumExp p 64 n k 0 ≤ n) ∧
    ∀ pr, pr * p ^ kumExp p 64 n k 0 < B → countPowers p 64 n k 0 pr = pr * p ^ kumExp p 64 n k 0 := by
  have : Fact p.Prime := ⟨hp⟩
  refine ⟨?_, fun h1 => pow_kumExp_le p hp.two_le 64 n k 0 (by omega) (by omega) h1,
    fun pr h => countPowers_eq p hp.pos 64 n k 0 pr h⟩
  have h := Nat.choose_mul_factorial_mul_factorial hk
  have hc0 : n.choose k ≠ 0 := Nat.pos_iff_ne_zero.1 (Nat.choose_pos hk)
  have hv : padicValNat p (n.choose k) + padicValNat p k ! + padicValNat p (n - k)! = padicValNat p n ! := by
    rw [← h, padicValNat.mul (Nat.mul_ne_zero hc0 (Nat.factorial_ne_zero _)) (Nat.factorial_ne_zero _),
      padicValNat.mul hc0 (Nat.factorial_ne_zero _)]
  have hkl := kummer_legendre p 64 n k 0 (by omega) (by omega) hn
  simp only [Nat.sub_zero] at hkl
  omega
example : kumExp 7 64 100 50 0 = 0 ∧ kumExp 3 64 100 50 0 = 4 ∧ kumExp 5 64 1000 320 0 = 2 ∧
    countPowers 3 64 100 50 0 5 = 5 * 3 ^ 4 ∧ (Nat.choose 100 50) % 3 ^ 4 = 0 ∧ (Nat.choose 100 50) % 3 ^ 5 ≠ 0 := by decide +kernel

/-- **The prime ranges of mpz_goetgheluck_bin_uiui** (2k ≤ n): n/p < p ⇒ exponent = [n mod p < k mod p]
    (SH_COUNT_A_PRIME); n/2 < p ≤ n−k ⇒ 0 (skipped); n−k < p ≤ n ⇒ 1 (stored); and the exponent of 2 is
    popc(n−k) + popc(k) − popc(n), with 2^that ≤ n (so `CNST_LIMB(1) << count` is a limb). -/
theorem goetgheluck_prime_ranges (p n k : ℕ) (hp : 3 ≤ p) (hk : 2 * k ≤ n) :
    (n / p < p → kumExp p 64 n k 0 = if n % p < k % p then 1 else 0) ∧
    (n / 2 < p → p ≤ n - k → kumExp p 64 n k 0 = 0) ∧
    (n - k < p → p ≤ n → kumExp p 64 n k 0 = 1) ∧
    (1 ≤ n → n < B → padicValNat 2 (n.choose k) = popcount (n - k) + popcount k - popcount n ∧
      2 ^ (popcount (n - k) + popcount k - popcount n) ≤ n) := by
  refine ⟨fun h => ?_, fun h1 h2 => ?_, fun h1 h2 => ?_, fun h1 hn => ⟨two_adic_choose n k hn (by omega), two_pow_count_le n k hn (by omega) h1⟩⟩
  · have : ¬ (n / p ≥ p) := by omega
    simp [kumExp, this]
  · have hd := div_eq_one (n := n) (x := p) h1 (by omega)
    have hm := mod_eq_sub_of_lt_two_mul (n := n) (x := p) (by omega) (by omega)
    have hkm : k % p = k := Nat.mod_eq_of_lt (by omega)
    have h1x : ¬ (1 ≥ p) := by omega
    have hb : ¬ (n - p < k) := by omega
    simp [kumExp, hd, hm, hkm, h1x, hb]
  · have hd := div_eq_one (n := n) (x := p) (by omega) h2
    have hm := mod_eq_sub_of_lt_two_mul (n := n) (x := p) (by omega) (by omega)
    have hkm : k % p = k := Nat.mod_eq_of_lt (by omega)
    have h1x : ¬ (1 ≥ p) := by omega
    have hb : n - p < k := by omega
    simp [kumExp, hd, hm, hkm, h1x, hb]
example : kumExp 53 64 1000 320 0 = 0 ∧ 1000 % 53 = 46 ∧ 320 % 53 = 2 ∧ kumExp 41 64 1000 320 0 = 1 ∧ 1000 % 41 = 16 ∧ 320 % 41 = 33 ∧
    kumExp 677 64 1000 320 0 = 0 ∧ kumExp 683 64 1000 320 0 = 1 := by decide +kernel

/-- **mpz_goetgheluck_bin_uiui (n, k) = binomial(n, k)** for every 25 ≤ n < 2^64 (`ASSERT (n >= 25)`), 2k ≤ n (mpz_bin_uiui
    passes MIN(k, n−k)) and `ASSERT (n_to_bit (n - k) < n_to_bit (n))` — the latter holds whenever k ≥ 6.  Model:
    power of two, COUNT_A_PRIME for 3 and the sieve's primes up to limb_apprsqrt n, SH_COUNT_A_PRIME up to n/2
    with max_prod doubled, FACTOR_LIST_STORE on (n−k, n], no limb product wraps, mpz_prodlimbs = product. -/
theorem goetgheluck_bin_uiui_spec (n k : ℕ) (h25 : 25 ≤ n) (hn : n < B) (hk : 2 * k ≤ n)
    (hassert : n_to_bit (n - k) < n_to_bit n) : goetgheluck_bin_uiui n k = n.choose k := by
  rw [n_to_bit_eq_nb _ (by omega) (by omega), n_to_bit_eq_nb n (by omega) hn] at hassert
  exact goetgheluck_eq_choose n k h25 hn hk hassert
example : goetgheluck_bin_uiui 100 40 = 13746234145802811501267369720 ∧ Nat.choose 100 40 = 13746234145802811501267369720 := by
  decide +kernel

/-- through the dispatcher: whenever mpz_bin_uiui selects Goetgheluck's algorithm (k ≥ BIN_GOETGHELUCK_THRESHOLD,
    k > n/16, beyond the small-k tables) the result is binomial(n, k) — for every n < 2^64 and every k. -/
theorem bin_uiui_goetgheluck_spec (n k0 : ℕ) (hn : n < B) (hd : (binDispatch n k0).1 = BinAlg.goetgheluck) :
    mpz_bin_uiui n k0 = some (n.choose k0) := by
  have hT : 6 ≤ ODD_FACTORIAL_TABLE_LIMIT := by decide
  have hE : 25 ≤ ODD_FACTORIAL_EXTTABLE_LIMIT := by decide
  have hdisp : binDispatch n k0 = (BinAlg.goetgheluck, min k0 (n - k0)) ∧ ¬ n < k0 ∧
      ¬ min k0 (n - k0) ≤ ODD_FACTORIAL_TABLE_LIMIT ∧ ¬ n ≤ ODD_FACTORIAL_EXTTABLE_LIMIT := by
    unfold binDispatch at hd ⊢
    by_cases h1 : n < k0
    · simp [h1] at hd
    · simp only [h1, if_false] at hd ⊢
      by_cases h2 : min k0 (n - k0) < 2
      · simp [h2] at hd
      · simp only [h2, if_false] at hd ⊢
        by_cases h3 : n ≤ ODD_FACTORIAL_EXTTABLE_LIMIT
        · simp [h3] at hd
        · simp only [h3, if_false] at hd ⊢
          by_cases h4 : min k0 (n - k0) ≤ ODD_FACTORIAL_TABLE_LIMIT
          · simp [h4] at hd
          · simp only [h4, if_false] at hd ⊢
            by_cases h5 : BIN_UIUI_ENABLE_SMALLDC ≠ 0 ∧ min k0 (n - k0) ≤
                (if BIN_UIUI_RECURSIVE_SMALLDC ≠ 0 then ODD_CENTRAL_BINOMIAL_TABLE_LIMIT else ODD_FACTORIAL_TABLE_LIMIT) * 2
            · rw [if_pos h5] at hd; simp at hd
            · rw [if_neg h5] at hd ⊢
              by_cases h6 : aboveThreshold (min k0 (n - k0)) BIN_GOETGHELUCK_THRESHOLD = true ∧ min k0 (n - k0) > n / 16
              · rw [if_pos h6]; exact ⟨rfl, not_false, not_false, not_false⟩
              · rw [if_neg h6] at hd; simp at hd
  obtain ⟨hdisp, h1, h4, h3⟩ := hdisp
  unfold mpz_bin_uiui
  rw [hdisp]
  simp only
  have hk0 : k0 ≤ n := by omega
  have hm1 : min k0 (n - k0) ≤ k0 := Nat.min_le_left _ _
  have hm2 : min k0 (n - k0) ≤ n - k0 := Nat.min_le_right _ _
  have hsym : n.choose (min k0 (n - k0)) = n.choose k0 := by
    rcases Nat.le_total k0 (n - k0) with h | h
    · rw [Nat.min_eq_left h]
    · rw [Nat.min_eq_right h, Nat.choose_symm hk0]
  rw [← hsym]
  generalize min k0 (n - k0) = k at *
  rw [goetgheluck_eq_choose n k (by omega) hn (by omega) (by rw [nb_eq, nb_eq]; omega)]
example : binDispatch 20000 1251 = (.goetgheluck, 1251) ∧ binDispatch 20016 1251 = (.bdiv, 1251) := by decide +kernel

/-! ## Primorial -/

/-- **mpz_primorial_ui n = n#** (product of the primes ≤ n) for EVERY n < 2^64: table below 5, then the sieve walk
    with FACTOR_LIST_STORE (max_prod = GMP_NUMB_MAX/n, no limb product wraps). -/
theorem primorial_ui_spec (n : ℕ) (hn : n < B) : mpz_primorial_ui n = _root_.primorial n := by
  rw [mpz_primorial_ui_eq n hn, primorial_eq]
example : mpz_primorial_ui 1000 % 997 = 0 ∧ mpz_primorial_ui 30 = 2 * 3 * 5 * 7 * 11 * 13 * 17 * 19 * 23 * 29 := by decide +kernel

end Mpir.Numth

namespace Mpir.Sieve
open Mpir Mpir.Numth

/-! ## mpz_next_prime_candidate / mpz_nextprime -/

/-- **The residue update** (next_prime_candidate.c:113-120): if moduli[i] = c mod prime_i for every table prime, one pass
    sets `composite` exactly when some table prime divides c and leaves moduli[i] = (c + 2) mod prime_i — so at the top
    of every iteration moduli[i] = (p + difference) mod prime_i. -/
theorem npc_residue_invariant (c : ℕ) (prs : List ℕ) (hprs : ∀ q ∈ prs, 2 ≤ q) :
    npcResidues (prs.map (fun q => c % q)) prs = (decide (∃ q ∈ prs, q ∣ c), prs.map (fun q => (c + 2) % q)) :=
  npcResidues_spec c prs hprs
example : npcResidues [1001 % 3, 1001 % 5, 1001 % 7] [3, 5, 7] = (true, [1003 % 3, 1003 % 5, 1003 % 7]) := by decide

theorem npc_table_facts :
    (∀ q ∈ npcTab.take (npcTab.length - 1), isPrimeTD q = true ∧ q < 999) ∧ npcTab.getD (npcTab.length - 1) 0 = 997 := by
  decide +kernel

/-- **The table path** (n < 997: next_prime_candidate.c:66-102 — tiny numbers, then the binary search in `primes[]`):
    the result is the least prime greater than n, for every n (negative n included). -/
theorem npc_small_path_spec (n : ℤ) (hn : n < 997) :
    ∃ r, npcSmallPath n = some r ∧ r.Prime ∧ n < r ∧ ∀ j : ℕ, n < j → j < r → ¬ j.Prime := by
  have hdec : ∀ m < 997, npcSmallPath ((m : ℕ) : ℤ) = some (nextPrime m) ∧ isPrimeTD (nextPrime m) = true := by
    decide +kernel
  by_cases hneg : n < 0
  · refine ⟨2, by unfold npcSmallPath; simp [show n < 2 by omega], Nat.prime_two, by omega, fun j h1 h2 hp => ?_⟩
    have := hp.two_le; omega
  · obtain ⟨m, rfl⟩ : ∃ m : ℕ, n = (m : ℤ) := ⟨n.toNat, by omega⟩
    have hm : m < 997 := by omega
    obtain ⟨h1, h2⟩ := hdec m hm
    obtain ⟨s1, _, s3⟩ := firstPrimeFrom_spec (m + 2) (m + 1)
    refine ⟨nextPrime m, h1, (isPrimeTD_iff _).1 h2, by unfold nextPrime; omega, fun j hj1 hj2 hp => ?_⟩
    have := s3 j (by omega) hj2
    rw [isPrime_of_prime j hp] at this; exact absurd this (by simp)
example : npcSmallPath 113 = some 127 ∧ npcSmallPath 996 = some 997 ∧ npcSmallPath (-5) = some 2 ∧ npcSmallPath 7 = some 11 ∧
    npcSmallPath 997 = none := by decide +kernel

/-- **No prime is skipped by mpz_next_prime_candidate** (n ≥ 997: the residue loop), given only that the primality test
    never rejects a prime — a THEOREM for mpz_miller_rabin (`miller_rabin_never_rejects_prime`): the result r
    exceeds n, no prime lies strictly between n and r (every skipped candidate has a prime factor from the table,
    which is smaller than the candidate, or was rejected by the test), r is odd, has no factor in the table and
    passed the test.  If the test is also sound (accepts only primes), r is the least prime > n. -/
theorem npc_candidate_spec (mr : ℕ → Bool) (n : ℤ) (hn : 997 ≤ n) (hnorej : ∀ c, c.Prime → mr c = true)
    (fuel r : ℕ) (h : npcModel mr fuel n = some r) :
    n < r ∧ r % 2 = 1 ∧ mr r = true ∧ (∀ q ∈ npcTab.take (npcTab.length - 1), ¬ q ∣ r) ∧
    (∀ j : ℕ, n < j → j < r → ¬ j.Prime) ∧ ((∀ c, mr c = true → c.Prime) → r.Prime) := by
  obtain ⟨m, rfl⟩ : ∃ m : ℕ, n = (m : ℤ) := ⟨n.toNat, by omega⟩
  have hm : 997 ≤ m := by omega
  obtain ⟨t1, t2⟩ := npc_table_facts
  have hp0 : (m + 1) ||| 1 = m + 1 + 1 - (m + 1) % 2 := or_one_eq (m + 1)
  have hsmall : npcSmallPath (m : ℤ) = none := by
    unfold npcSmallPath
    rw [if_neg (by omega : ¬ ((m : ℤ) < 2))]
    simp only [Int.toNat_natCast, t2, hp0]
    rw [if_neg (by omega), if_neg (by omega)]
  unfold npcModel at h
  simp only [hsmall, Int.toNat_natCast] at h
  obtain ⟨h1, h2, h3, h4, h5⟩ := npcLoop_no_prime_skipped mr _ (fun q hq => (isPrimeTD_iff q).1 (t1 q hq).1)
    ((m + 1) ||| 1) (by rw [hp0]; omega) (by rw [hp0]; omega) (fun q hq => by have := (t1 q hq).2; rw [hp0]; omega)
    hnorej fuel r h
  rw [hp0] at h1 h5
  refine ⟨by omega, h2, h3, h4, fun j hj1 hj2 hp => ?_, fun hs => hs r h3⟩
  have hj1' : m < j := by omega
  by_cases hge : m + 1 + 1 - (m + 1) % 2 ≤ j
  · exact h5 j hge hj2 hp
  · have hje : j = m + 1 ∧ (m + 1) % 2 = 0 := by omega
    rcases hp.eq_two_or_odd with e | e <;> omega
example : npcModel isPrime 100 1000 = some 1009 ∧ npcModel isPrime 100 1327 = some 1361 ∧
    npcModel (fun c => c == 1003 || isPrime c) 100 1000 = some 1009 := by decide +kernel

/-- the repaired loop of mpz_nextprime: started at a candidate x ≥ 997 it returns r ≥ x accepted by the 23-round test,
    with no prime in [x, r), given only that neither test ever rejects a prime -/
theorem nextprimeLoop_spec (mr2 mr23 : ℕ → Bool) (h2 : ∀ c, c.Prime → mr2 c = true) (h23 : ∀ c, c.Prime → mr23 c = true) :
    ∀ fuel x r, 997 ≤ x → nextprimeLoop mr2 mr23 fuel x = some r →
      x ≤ r ∧ mr23 r = true ∧ ∀ j, x ≤ j → j < r → ¬ j.Prime := by
  intro fuel
  induction fuel with
  | zero => intro x r _ h; simp [nextprimeLoop] at h
  | succ f ih =>
    intro x r hx h
    simp only [nextprimeLoop] at h
    by_cases hm : mr23 x = true
    · simp only [hm, if_true, Option.some.injEq] at h
      subst h; exact ⟨Nat.le_refl _, hm, fun j h1 h2 => by omega⟩
    · simp only [hm] at h
      have hxnp : ¬ x.Prime := fun hp => hm (h23 x hp)
      cases hc : npcModel mr2 4000 ((x : ℕ) : ℤ) with
      | none => simp [hc] at h
      | some y =>
        replace h : nextprimeLoop mr2 mr23 f y = some r := by simpa [hc] using h
        obtain ⟨c1, _, _, _, c5, _⟩ := npc_candidate_spec mr2 ((x : ℕ) : ℤ) (by omega) h2 4000 y hc
        have hxy : x < y := by omega
        obtain ⟨i1, i2, i3⟩ := ih y r (by omega) h
        refine ⟨by omega, i2, fun j hj1 hj2 hp => ?_⟩
        by_cases hjx : j = x
        · subst hjx; exact hxnp hp
        · by_cases hjy : j < y
          · exact c5 j (by omega) hjy hp
          · exact i3 j (by omega) hj2 hp

/-- **mpz_nextprime skips no prime** (n ≥ 997; below, the table path): whatever the random bases, given only that
    Miller-Rabin never rejects a prime (theorem `miller_rabin_never_rejects_prime`), the result r exceeds n and no prime
    lies strictly between; r has passed the 23-round test when r ≥ 10^6 and the 2-round test otherwise; if the tests
    accept only primes, r is the least prime > n.  (Before the repair af324ce of mpz/nextprime.c this was false: the
    loop added 2 before asking for the next candidate — found with this model, see corpus/C16/nextprime_skip.ops.) -/
theorem nextprime_no_prime_skipped (mr2 mr23 : ℕ → Bool) (n : ℤ) (hn : 997 ≤ n)
    (h2 : ∀ c, c.Prime → mr2 c = true) (h23 : ∀ c, c.Prime → mr23 c = true) (r : ℕ)
    (h : nextprimeModel mr2 mr23 n = some r) :
    n < r ∧ (∀ j : ℕ, n < j → j < r → ¬ j.Prime) ∧ (if r ≥ 1000000 then mr23 r = true else mr2 r = true) ∧
    ((∀ c, mr2 c = true → c.Prime) → (∀ c, mr23 c = true → c.Prime) → r.Prime) := by
  unfold nextprimeModel at h
  cases hc : npcModel mr2 4000 n with
  | none => simp [hc] at h
  | some x =>
    obtain ⟨c1, _, c3, _, c5, c6⟩ := npc_candidate_spec mr2 n hn h2 4000 x hc
    simp only [hc] at h
    have hx997 : 997 ≤ x := by omega
    by_cases hbig : x ≥ 1000000
    · simp only [hbig, if_true] at h
      obtain ⟨l1, l2, l3⟩ := nextprimeLoop_spec mr2 mr23 h2 h23 100 x r hx997 h
      refine ⟨by omega, fun j hj1 hj2 hp => ?_, by simp [show r ≥ 1000000 by omega, l2], fun _ s23 => s23 r l2⟩
      by_cases hjx : j < x
      · exact c5 j hj1 hjx hp
      · exact l3 j (by omega) hj2 hp
    · simp only [hbig, if_false, Option.some.injEq] at h
      subst h
      exact ⟨c1, c5, by simp [hbig, c3], fun s2 _ => c6 s2⟩
/-- the input of the finding, on the repaired loop: the composite 6794614661 = 47591·142771 passes the first stage, is
    rejected by the second, and the next candidate 6794614663 (a prime) is now examined -/
example : nextprimeModel (fun c => c == 6794614661 || isPrime c) isPrime 6794614660 = some 6794614663 ∧
    isPrime 6794614663 = true ∧ isPrime 6794614661 = false ∧ 47591 * 142771 = 6794614661 := by decide +kernel

/-! ## The users read the real bit array -/

/-- **LOOP_ON_SIEVE_BEGIN … LOOP_ON_SIEVE_END on the array** (rotating `__mask`, `__index += __mask & 1`, do-while on
    `__i <= __max_i`; oddfac_1.c:76-103 = primorial_ui.c:42-69 = bin_uiui.c:527-554) visits the bits start … max(start,
    stop) and runs the body for the clear ones with prime = id_to_n (__i): on an array that is right on those bits it is
    the walk over the primes used by the value-level models.  Consequently, on the array gmp_primesieve (sieve, n)
    really produces, the array-reading models of mpz_2multiswing_1, mpz_goetgheluck_bin_uiui and mpz_primorial_ui
    (the ones the driver runs against the library) equal the models the theorems above are about. -/
theorem sieve_users_on_real_sieve (n : ℕ) (hn : n < B) :
    (∀ sieve start stop body st, ExactOn sieve start (max start stop) →
      loopOnSieveArr sieve start stop body st = loopOnSieve start stop body st) ∧
    (26 ≤ n → ∃ a c, gmp_primesieve n = some (a, c) ∧ multiswingArr a n = mpz_2multiswing_1 n) ∧
    (∀ k, 25 ≤ n → 2 * k ≤ n → n_to_bit (n - k) < n_to_bit n →
      ∃ a c, gmp_primesieve n = some (a, c) ∧ goetgheluckArr a n k = n.choose k) ∧
    (5 ≤ n → ∃ a c, gmp_primesieve n = some (a, c) ∧ primorialArr a n = _root_.primorial n) := by
  refine ⟨fun sieve start stop body st h => loopOnSieveArr_eq sieve start stop body st h, fun h26 => ?_,
    fun k h25 hk hl => ?_, fun h5 => ?_⟩
  · obtain ⟨a, c, e, hex⟩ := gmp_primesieve_exactOn n (by omega) hn
    exact ⟨a, c, e, multiswingArr_eq a n h26 hn (exactOn_mono hex (nb_mono (by omega)))⟩
  · obtain ⟨a, c, e, hex⟩ := gmp_primesieve_exactOn n (by omega) hn
    rw [n_to_bit_eq_nb _ (by omega) (by omega), n_to_bit_eq_nb n (by omega) hn] at hl
    exact ⟨a, c, e, by rw [goetgheluckArr_eq a n k h25 hn hk hl hex, goetgheluck_eq_choose n k h25 hn hk hl]⟩
  · obtain ⟨a, c, e, hex⟩ := gmp_primesieve_exactOn n (by omega) hn
    exact ⟨a, c, e, by rw [primorialArr_eq a n h5 hn hex, mpz_primorial_ui_eq n hn, primorial_eq]⟩
example : (gmp_primesieve 100).map (fun r => goetgheluckArr r.1 100 40) = some (Nat.choose 100 40) ∧
    (gmp_primesieve 101).map (fun r => multiswingArr r.1 101) = some (mpz_2multiswing_1 101) := by decide +kernel

end Mpir.Sieve
