/-
  C11 (mpq part) — mpq_cmp, mpq_cmp_z, mpq_cmp_ui, mpq_cmp_si give the sign of the exact difference.
  Property theorems only; helper lemmas live in MpirProofs/Lemmas/Mpq.lean.

  The theorems are about the executable model in Mpir/Model/Mpq.lean (`cmpNumDen`, `cmpPre`, `cmpCross`,
  `cmpUiVal`, `cmp_si`), which mirrors mpq/cmp.c, cmp_ui.c, cmp_si.c branch by branch — including the
  limb-count and bit-count pre-checks that answer without cross-multiplying — and is run against the
  real functions by the correspondence check.  The only precondition is the one the C code ASSERTs:
  positive denominators.  `mpq_equal` is in Props/C12.lean (`mpq_equal_iff`).
-/
import MpirProofs.Lemmas.Mpq
import MpirProofs.Lemmas.MpqConv
namespace Mpir.Mpq

/-- mpq_cmp: negative / zero / positive exactly when op1 < / = / > op2 as rational numbers — for any
    two variables (also the same one), through every path: zero and sign shortcuts, the both-integers
    path, the limb-count pre-check, the bit-count pre-check and the cross-multiplication. -/
theorem mpq_cmp_spec (op1 op2 : Nat) (h : Heap) (h1 : 0 < (h op1).den) (h2 : 0 < (h op2).den) :
    (cmp op1 op2 h < 0 ↔ (h op1).toRat < (h op2).toRat) ∧
    (cmp op1 op2 h = 0 ↔ (h op1).toRat = (h op2).toRat) ∧
    (0 < cmp op1 op2 h ↔ (h op2).toRat < (h op1).toRat) := by
  obtain ⟨t1, t2, t3⟩ := tri_of_sign_eq (cmpNumDen_sign (n1 := (h op1).num) (n2 := (h op2).num) h1 h2)
  obtain ⟨r1, r2, r3⟩ := toRat_tri (a := h op1) (n := (h op2).num) h1 h2
  unfold cmp
  exact ⟨t1.trans r1.symm, t2.trans r2.symm, t3.trans r3.symm⟩

-- non-vacuity: 1/3 < 1/2 (cross product), 2^200/3 > 5/7 (limb-count pre-check), equal operands
example : cmp 1 2 (fun i => if i = 1 then ⟨1, 3⟩ else ⟨1, 2⟩) < 0 := by decide +kernel
example : 0 < cmp 1 2 (fun i => if i = 1 then ⟨2 ^ 200, 3⟩ else ⟨5, 7⟩) := by decide +kernel
example : cmp 1 1 (fun _ => ⟨-5, 7⟩) = 0 := by decide +kernel

/-- the size pre-checks of mpq_cmp are sound on their own: whenever the limb-count or the bit-count
    test answers, the answer has the sign of the cross-product difference (statement about the
    magnitudes, `s` = the non-zero signed size of num1, `i` = op2_is_int). -/
theorem mpq_cmp_prechecks_sound (s : ℤ) (hs : s ≠ 0) (n1 d1 n2 d2 : Nat) (i : ℤ)
    (hn1 : n1 ≠ 0) (hd1 : d1 ≠ 0) (hn2 : n2 ≠ 0) (hd2 : d2 ≠ 0) (hi : i = 0 ∨ (i = 1 ∧ d2 = 1)) :
    Int.sign (cmpPre s n1 d1 n2 d2 i) =
      (if s < 0 then -1 else 1) * Int.sign (((n1 * d2 : ℕ) : ℤ) - ((n2 * d1 : ℕ) : ℤ)) :=
  cmpPre_sign s hs n1 d1 n2 d2 i hn1 hd1 hn2 hd2 hi

-- non-vacuity: the limb-count test decides (3 limbs x 1 limb against 1 limb x 1 limb)
example : cmpPre 3 (2 ^ 130) 3 5 7 0 = 3 := by decide +kernel

/-- mpq_cmp_z: comparison with an integer. -/
theorem mpq_cmp_z_spec (n1 d1 z : Int) (h1 : 0 < d1) :
    (cmpNumDen n1 d1 z 1 < 0 ↔ (⟨n1, d1⟩ : Q).toRat < z) ∧
    (cmpNumDen n1 d1 z 1 = 0 ↔ (⟨n1, d1⟩ : Q).toRat = z) ∧
    (0 < cmpNumDen n1 d1 z 1 ↔ (z : ℚ) < (⟨n1, d1⟩ : Q).toRat) := by
  obtain ⟨t1, t2, t3⟩ := tri_of_sign_eq (cmpNumDen_sign (n1 := n1) (n2 := z) h1 one_pos)
  obtain ⟨r1, r2, r3⟩ := toRat_tri (a := ⟨n1, d1⟩) (n := z) (d := 1) h1 one_pos
  simp only [Int.cast_one, div_one] at r1 r2 r3
  exact ⟨t1.trans r1.symm, t2.trans r2.symm, t3.trans r3.symm⟩

example : cmpNumDen 7 2 3 1 > 0 ∧ cmpNumDen 7 2 4 1 < 0 := by decide +kernel

/-- mpq_cmp_ui (num2, den2 C unsigned longs): den2 = 0 raises DIVIDE_BY_ZERO, otherwise the result
    is negative / zero / positive exactly when op1 < / = / > num2/den2 (num2/den2 need not be
    canonical). -/
theorem mpq_cmp_ui_spec (op1 : Nat) (num2 den2 : Nat) (h : Heap) (h1 : 0 < (h op1).den)
    (hb1 : num2 < B) (hb2 : den2 < B) :
    (den2 = 0 → cmp_ui op1 num2 den2 h = none) ∧
    (den2 ≠ 0 → ∃ c, cmp_ui op1 num2 den2 h = some c ∧
      (c < 0 ↔ (h op1).toRat < (num2 : ℚ) / den2) ∧
      (c = 0 ↔ (h op1).toRat = (num2 : ℚ) / den2) ∧
      (0 < c ↔ (num2 : ℚ) / den2 < (h op1).toRat)) := by
  refine ⟨fun h0 => by unfold cmp_ui cmpUiVal; simp [h0], fun h0 => ?_⟩
  obtain ⟨c, hc, hs⟩ := cmpUiVal_sign (n1 := (h op1).num) h1 h0 hb1 hb2
  obtain ⟨t1, t2, t3⟩ := tri_of_sign_eq hs
  obtain ⟨r1, r2, r3⟩ := toRat_tri (a := h op1) (n := (num2 : ℤ)) (d := (den2 : ℤ)) h1 (by omega)
  simp only [Int.cast_natCast] at r1 r2 r3
  exact ⟨c, hc, t1.trans r1.symm, t2.trans r2.symm, t3.trans r3.symm⟩

example : (cmp_ui 1 6 4 (fun _ => ⟨3, 2⟩)).map Int.sign = some 0 := by decide +kernel
example : (cmp_ui 1 1 0 (fun _ => ⟨3, 2⟩)).isNone = true := by decide +kernel

/-- mpq_cmp_si (n a C long, d a C unsigned long, d ≠ 0): sign of q - n/d, including n = LONG_MIN. -/
theorem mpq_cmp_si_spec (q : Nat) (n : Int) (d : Nat) (h : Heap) (h1 : 0 < (h q).den)
    (hn : -(2 ^ 63) ≤ n ∧ n < 2 ^ 63) (hb : d < B) (hd : d ≠ 0) :
    ∃ c, cmp_si q n d h = some c ∧
      (c < 0 ↔ (h q).toRat < (n : ℚ) / d) ∧
      (c = 0 ↔ (h q).toRat = (n : ℚ) / d) ∧
      (0 < c ↔ (n : ℚ) / d < (h q).toRat) := by
  have hn' : n.natAbs < B := by rw [B_eq_pow]; omega
  obtain ⟨c, hc, hs⟩ := cmp_si_sign (n1 := (h q).num) (d1 := (h q).den) h q rfl h1 hd hb hn'
  obtain ⟨t1, t2, t3⟩ := tri_of_sign_eq hs
  obtain ⟨r1, r2, r3⟩ := toRat_tri (a := h q) (n := n) (d := (d : ℤ)) h1 (by omega)
  simp only [Int.cast_natCast] at r1 r2 r3
  exact ⟨c, hc, t1.trans r1.symm, t2.trans r2.symm, t3.trans r3.symm⟩

example : (cmp_si 1 (-(2 ^ 63)) 1 (fun _ => ⟨-(2 ^ 63), 1⟩)).map Int.sign = some 0 := by decide +kernel
example : (cmp_si 1 (-7) 2 (fun _ => ⟨-10, 3⟩)).map Int.sign = some 1 := by decide +kernel

/-- mpq_get_d: zero gives +0.0; for a non-zero operand with positive denominator the result is the
    double obtained by truncating |n/d| toward zero (`truncDbl`: 53 significant bits for normal results,
    multiples of 2^-1074 in the denormal range, infinity when the leading bit has exponent ≥ 1024, +0.0
    below the smallest denormal), with the sign of the numerator.  `E` is the exponent of the leading
    bit of |n/d|; it is unique, so quantifying over it is no restriction.  Covers both the zero-padding
    and the limb-chopping path of get_d.c and the truncating division. -/
theorem mpq_get_d_spec (src : Nat) (h : Heap) (hd : 0 < (h src).den) :
    ((h src).num = 0 → get_d src h = 0) ∧
    ((h src).num ≠ 0 → ∀ E : ℤ, (2 : ℚ) ^ E ≤ |(h src).toRat| → |(h src).toRat| < (2 : ℚ) ^ (E + 1) →
      get_d src h = truncDbl (if (h src).num < 0 then 2 ^ 63 else 0) |(h src).toRat| E) := by
  rw [get_d_eq]
  refine ⟨fun h0 => by simp [h0], fun h0 E hE1 hE2 => ?_⟩
  rw [if_neg h0]
  have hn : (h src).num.natAbs ≠ 0 := by omega
  have hdn : (h src).den.natAbs ≠ 0 := by omega
  obtain ⟨q1, q2⟩ := getDQuot_spec hn hdn
  have habs : |(h src).toRat| = ((h src).num.natAbs : ℚ) / ((h src).den.natAbs : ℚ) := by
    unfold Q.toRat
    rw [abs_div, Nat.cast_natAbs, Nat.cast_natAbs, Int.cast_abs, Int.cast_abs]
  have hx : 0 < |(h src).toRat| := by
    rw [habs]; have : (0 : ℚ) < ((h src).num.natAbs : ℚ) := by exact_mod_cast Nat.pos_of_ne_zero hn
    have : (0 : ℚ) < ((h src).den.natAbs : ℚ) := by exact_mod_cast Nat.pos_of_ne_zero hdn
    positivity
  rw [← habs] at q1
  have := getDBits_trunc (decide ((h src).num < 0)) _ _ _ E hx q1 q2 hE1 hE2
  simpa using this

-- non-vacuity: 1/3 -> 0x3FD5555555555555 (truncated, not rounded), -1/3, overflow to +inf, a denormal,
-- underflow to +0.0; and the hypotheses of the theorem are satisfiable (E = -2 for 1/3)
example : get_d 1 (fun _ => ⟨1, 3⟩) = 0x3FD5555555555555 := by decide +kernel
example : get_d 1 (fun _ => ⟨-1, 3⟩) = 0xBFD5555555555555 := by decide +kernel
example : get_d 1 (fun _ => ⟨2 ^ 1024, 1⟩) = 0x7FF0000000000000 := by decide +kernel
example : get_d 1 (fun _ => ⟨3, 2 ^ 1074⟩) = 3 := by decide +kernel
example : get_d 1 (fun _ => ⟨-1, 2 ^ 1080⟩) = 0 := by decide +kernel
example : truncDbl 0 (1 / 3) (-2) = 0x3FD5555555555555 := by
  unfold truncDbl
  have h : ⌊(1 / 3 : ℚ) * (2 : ℚ) ^ ((52 : ℤ) - (-2))⌋₊ = 2 ^ 54 / 3 := by
    rw [← Nat.floor_div_eq_div (K := ℚ)]
    congr 1; norm_num
  norm_num [h]
  decide
example : (2 : ℚ) ^ (-2 : ℤ) ≤ |(⟨1, 3⟩ : Q).toRat| ∧ |(⟨1, 3⟩ : Q).toRat| < (2 : ℚ) ^ ((-2 : ℤ) + 1) := by
  norm_num [Q.toRat, abs_of_pos]

end Mpir.Mpq
