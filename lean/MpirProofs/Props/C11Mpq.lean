/- C11 (mpq part) — mpq comparisons give the sign of the exact difference.  Property theorems only. -/
import MpirProofs.Lemmas.Mpq
namespace Mpir.Mpq
end Mpir.Mpq
